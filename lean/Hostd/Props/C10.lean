import Hostd.Model.Revenue
/-!
# C10 — Recorded revenue equals the money that moved

Theorems about `Hostd.Revenue` (Model/Revenue.lean).

v1 (`v1_conservation`): for every routing `F` of the money that drops nothing (`F.ok`; the
current tree's routing `Facts.current` is one, `current_ok`), for every settings record and
EVERY sequence of operations — formation, RHP2 write/read/sector-roots with any over-payment,
RHP3 fund-account, pay-by-contract, account spending (budget commits with any usage vector),
program finalisation, RHP2 and RHP3 renewals, accepted or rejected — every contract satisfies

    validHostPayout(latest revision) = lockedCollateral + rpc + storage + ingress + egress
                                       + registryRead + registryWrite + accountFunding.

The proof is an induction over the sequence with the invariant `Inv1` = conservation for every
contract ∧ (Σ funding rows of the contract = its unspent account funding); the second half is the
C11 `rows_sum` contract of the attribution and is what makes `AccountFunding.Sub` in
`distributeRHP3AccountUsage` safe (`debit_never_panics`).

Negative results with concrete witnesses: dropping the excess in any of the three RHP2 handlers,
not persisting the registry categories (the tree before fix 7f588c8/01c80e7), or not recording the
account deposit each break the equation (`excess_dropped_breaks`, `registry_dropped_breaks`,
`funding_dropped_breaks`).

v2 (`v2_accumulation`, `v2_output_minus_collateral`): the recorded usage is the `Usage.Add` fold of
the usage arguments of the accepted RPCs (account spending only moves unspent funding into the
categories: renter cost and risked collateral are unchanged), hence if every RPC's revision moves
exactly `usage.RenterCost()` to the host output (`proto4.PayWithContract`, coreutils — trusted base)
then `hostOutput − totalCollateral = RenterCost(recorded usage) + carry` with `carry = 0` for
formed and renewed contracts.
-/
namespace Hostd.Revenue

/-! ## helper lemmas -/

theorem revenue_add (a b : Usage) : (a.add b).revenue = a.revenue + b.revenue := by
  simp only [Usage.add, Usage.revenue]; omega

theorem af_add (a b : Usage) : (a.add b).af = a.af + b.af := rfl

theorem revenue_bump (u : Usage) (c : Cat) (n : Nat) : (u.bump c n).revenue = u.revenue + n := by
  cases c <;> simp only [Usage.bump, Usage.revenue] <;> omega

theorem af_bump_le (u : Usage) (c : Cat) (n : Nat) : u.af ≤ (u.bump c n).af := by
  cases c <;> simp only [Usage.bump] <;> omega

theorem persist_ok (F : Facts) (h : F.keepRegistry = true) (u : Usage) : F.persist u = u := by
  simp [Facts.persist, h]

theorem rowsSum_upsert (c : Cid) (rows : List Row) (c' : Cid) (a : Acct) (amt : Nat) :
    rowsSum c (upsert rows c' a amt) = rowsSum c rows + (if c' = c then amt else 0) := by
  induction rows with
  | nil => simp [upsert, rowsSum]
  | cons r rest ih =>
    simp only [upsert]
    split
    · rename_i h
      simp only [rowsSum]
      by_cases hc : r.cid = c
      · have : c' = c := by rw [← h.1]; exact hc
        simp [hc, this]; omega
      · have : ¬ c' = c := by rw [← h.1]; exact hc
        simp [hc, this]
    · simp only [rowsSum, ih]; omega

theorem rowRes_spec (u : Usage) (amt v1 v2 v3 v4 v5 v6 : Nat)
    (a1 : v1 ≤ u.sto) (b1 : v1 ≤ amt) (a2 : v2 ≤ u.ing) (b2 : v2 ≤ amt - v1)
    (a3 : v3 ≤ u.egr) (b3 : v3 ≤ amt - v1 - v2) (a4 : v4 ≤ u.rr) (b4 : v4 ≤ amt - v1 - v2 - v3)
    (a5 : v5 ≤ u.rw) (b5 : v5 ≤ amt - v1 - v2 - v3 - v4)
    (a6 : v6 ≤ u.rpc) (b6 : v6 ≤ amt - v1 - v2 - v3 - v4 - v5) :
    (rowRes u amt v1 v2 v3 v4 v5 v6).add.revenue + (rowRes u amt v1 v2 v3 v4 v5 v6).rem = amt ∧
    (rowRes u amt v1 v2 v3 v4 v5 v6).left.total6 + (rowRes u amt v1 v2 v3 v4 v5 v6).add.revenue = u.total6 ∧
    (rowRes u amt v1 v2 v3 v4 v5 v6).add.af = 0 := by
  simp only [rowRes, Usage.revenue, Usage.total6]
  exact ⟨by omega, by omega, trivial⟩

/-- one row: what leaves the row is what the contract receives, and the usage shrinks by it -/
theorem distRow_spec (u : Usage) (amt : Nat) :
    (distRow u amt).add.revenue + (distRow u amt).rem = amt ∧
    (distRow u amt).left.total6 + (distRow u amt).add.revenue = u.total6 ∧
    (distRow u amt).add.af = 0 := by
  unfold distRow
  apply rowRes_spec <;> first | exact Nat.min_le_left _ _ | exact Nat.min_le_right _ _

theorem applyMoved_conserved (F : Facts) (hk : F.keepRegistry = true) (c : Contract) (moved : Nat) (add : Usage)
    (hc : Conserved c) (hle : moved ≤ c.u.af) (hm : add.revenue = moved) :
    Conserved (applyMoved F c moved add) := by
  unfold Conserved at *
  simp only [applyMoved, persist_ok F hk, revenue_add]
  simp only [Usage.revenue] at *
  omega

theorem applyMoved_af (F : Facts) (hk : F.keepRegistry = true) (c : Contract) (moved : Nat) (add : Usage)
    (ha : add.af = 0) : (applyMoved F c moved add).u.af = c.u.af - moved := by
  simp [applyMoved, persist_ok F hk, af_add, ha]

/-- The attribution loop.  Precondition: every contract is conserved and holds at least the sum of
its funding rows as unspent funding.  Then no `Sub` underflows, conservation is kept, and for every
contract `unspent' + Σ rows = unspent + Σ rows'` (what left the rows left the unspent funding). -/
theorem dist_spec (F : Facts) (hk : F.keepRegistry = true) (a : Acct) :
    ∀ (rows : List Row) (u : Usage) (ctr : Cid → Contract),
      (∀ cid, Conserved (ctr cid)) → (∀ cid, rowsSum cid rows ≤ (ctr cid).u.af) →
      (dist F a rows u ctr).bad = false ∧
      (∀ cid, Conserved ((dist F a rows u ctr).ctr cid)) ∧
      (∀ cid, ((dist F a rows u ctr).ctr cid).u.af + rowsSum cid rows
                = (ctr cid).u.af + rowsSum cid (dist F a rows u ctr).rows) := by
  intro rows
  induction rows with
  | nil => intro u ctr hc _; simp [dist, rowsSum, hc]
  | cons r rest ih =>
    intro u ctr hc hle
    simp only [dist]
    split
    · -- the row belongs to the account
      have hs := distRow_spec u r.amt
      obtain ⟨hs1, _, hs3⟩ := hs
      have hmoved : (distRow u r.amt).add.revenue = r.amt - (distRow u r.amt).rem := by omega
      have hrle : r.amt ≤ (ctr r.cid).u.af := by
        have := hle r.cid; simp only [rowsSum] at this; simp at this; omega
      have hmle : r.amt - (distRow u r.amt).rem ≤ (ctr r.cid).u.af := by omega
      -- the updated contract table satisfies the precondition for the rest
      have hc' : ∀ cid, Conserved (upd ctr r.cid (applyMoved F (ctr r.cid) (r.amt - (distRow u r.amt).rem) (distRow u r.amt).add) cid) := by
        intro cid
        by_cases h : cid = r.cid
        · subst h; simp only [upd_same]
          exact applyMoved_conserved F hk _ _ _ (hc _) hmle hmoved
        · simp only [upd_other _ _ _ _ h]; exact hc cid
      have hle' : ∀ cid, rowsSum cid rest ≤ (upd ctr r.cid (applyMoved F (ctr r.cid) (r.amt - (distRow u r.amt).rem) (distRow u r.amt).add) cid).u.af := by
        intro cid
        by_cases h : cid = r.cid
        · subst h; simp only [upd_same, applyMoved_af F hk _ _ _ hs3]
          have := hle r.cid; simp only [rowsSum] at this; simp at this; omega
        · simp only [upd_other _ _ _ _ h]
          have := hle cid; simp only [rowsSum] at this
          have hne : ¬ r.cid = cid := fun e => h e.symm
          simp [hne] at this; exact this
      obtain ⟨ih1, ih2, ih3⟩ := ih (distRow u r.amt).left _ hc' hle'
      refine ⟨?_, ih2, ?_⟩
      · simp [ih1]; omega
      · intro cid
        have e := ih3 cid
        by_cases h : cid = r.cid
        · subst h
          simp only [upd_same, applyMoved_af F hk _ _ _ hs3] at e
          split
          · rename_i h0; simp only [rowsSum]; simp; omega
          · simp only [rowsSum]; simp; omega
        · simp only [upd_other _ _ _ _ h] at e
          have hne : ¬ r.cid = cid := fun e => h e.symm
          split
          · simp only [rowsSum]; simp [hne]; exact e
          · simp only [rowsSum]; simp [hne]; exact e
    · -- row of another account (or an empty row): skipped
      have hle' : ∀ cid, rowsSum cid rest ≤ (ctr cid).u.af := by
        intro cid; have := hle cid; simp only [rowsSum] at this; omega
      obtain ⟨ih1, ih2, ih3⟩ := ih u ctr hc hle'
      refine ⟨ih1, ih2, ?_⟩
      intro cid
      have e := ih3 cid
      simp only [rowsSum]; omega

/-- Σ amount of the funding rows of account `a` -/
def acctSum (a : Acct) : List Row → Nat
  | [] => 0
  | r :: rest => (if r.acct = a then r.amt else 0) + acctSum a rest

/-- what leaves the funding rows of the account is exactly the usage that was attributed -/
theorem dist_attributes (F : Facts) (a : Acct) :
    ∀ (rows : List Row) (u : Usage) (ctr : Cid → Contract),
      (dist F a rows u ctr).left.total6 + acctSum a rows
        = u.total6 + acctSum a (dist F a rows u ctr).rows := by
  intro rows
  induction rows with
  | nil => intro u ctr; simp [dist, acctSum]
  | cons r rest ih =>
    intro u ctr
    simp only [dist]
    split
    · rename_i h
      obtain ⟨hs1, hs2, _⟩ := distRow_spec u r.amt
      have e := ih (distRow u r.amt).left (upd ctr r.cid (applyMoved F (ctr r.cid) (r.amt - (distRow u r.amt).rem) (distRow u r.amt).add))
      split
      · rename_i h0; simp only [acctSum, h.1, if_true]; omega
      · simp only [acctSum, h.1, if_true]; omega
    · rename_i h
      have e := ih u ctr
      simp only [acctSum]
      omega

theorem take_step (x r : Nat) : r - min x r = 0 ∨ x - min x r = 0 := by omega

/-- one row: either the row is exhausted or nothing of the usage is left -/
theorem rowRes_exhausts (u : Usage) (amt v1 v2 v3 v4 v5 v6 : Nat)
    (s1 : amt - v1 = 0 ∨ u.sto - v1 = 0) (s2 : amt - v1 - v2 = 0 ∨ u.ing - v2 = 0)
    (s3 : amt - v1 - v2 - v3 = 0 ∨ u.egr - v3 = 0) (s4 : amt - v1 - v2 - v3 - v4 = 0 ∨ u.rr - v4 = 0)
    (s5 : amt - v1 - v2 - v3 - v4 - v5 = 0 ∨ u.rw - v5 = 0)
    (s6 : amt - v1 - v2 - v3 - v4 - v5 - v6 = 0 ∨ u.rpc - v6 = 0) :
    (rowRes u amt v1 v2 v3 v4 v5 v6).rem = 0 ∨ (rowRes u amt v1 v2 v3 v4 v5 v6).left.total6 = 0 := by
  simp only [rowRes, Usage.total6]
  by_cases hr : amt - v1 - v2 - v3 - v4 - v5 - v6 = 0
  · exact Or.inl hr
  · -- the row is not exhausted: no remainder on the way was zero, so every category was moved entirely
    have t1 : u.sto - v1 = 0 := by rcases s1 with h | h <;> omega
    have t2 : u.ing - v2 = 0 := by rcases s2 with h | h <;> omega
    have t3 : u.egr - v3 = 0 := by rcases s3 with h | h <;> omega
    have t4 : u.rr - v4 = 0 := by rcases s4 with h | h <;> omega
    have t5 : u.rw - v5 = 0 := by rcases s5 with h | h <;> omega
    have t6 : u.rpc - v6 = 0 := by rcases s6 with h | h <;> omega
    exact Or.inr (by omega)

theorem distRow_exhausts (u : Usage) (amt : Nat) :
    (distRow u amt).rem = 0 ∨ (distRow u amt).left.total6 = 0 := by
  unfold distRow
  apply rowRes_exhausts <;> exact take_step _ _

/-- **No loss in the attribution.** If the account's funding rows cover the debit, every hasting of
the usage is attributed to some funding contract (nothing is left over). -/
theorem dist_complete (F : Facts) (a : Acct) :
    ∀ (rows : List Row) (u : Usage) (ctr : Cid → Contract),
      u.total6 ≤ acctSum a rows → (dist F a rows u ctr).left.total6 = 0 := by
  intro rows
  induction rows with
  | nil => intro u ctr h; simp [acctSum] at h; simp [dist, h]
  | cons r rest ih =>
    intro u ctr h
    simp only [dist]
    split
    · rename_i hr
      obtain ⟨hs1, hs2, _⟩ := distRow_spec u r.amt
      simp only [acctSum, hr.1, if_true] at h
      apply ih
      rcases distRow_exhausts u r.amt with h0 | h0
      · omega
      · omega
    · rename_i hr
      apply ih
      simp only [acctSum] at h
      by_cases ha : r.acct = a
      · have : r.amt = 0 := by
          apply Decidable.byContradiction; intro hne; exact hr ⟨ha, hne⟩
        simp [ha, this] at h; exact h
      · simp [ha] at h; exact h

/-! ## the invariant -/

/-- conservation for every contract, and the unspent account funding of a contract is the sum of
its funding rows -/
def Inv1 (s : State) : Prop :=
  ∀ cid, Conserved (s.ctr cid) ∧ rowsSum cid s.rows = (s.ctr cid).u.af

theorem init_inv (cfg : Settings) : Inv1 (init cfg) := by
  intro cid; simp [init, Conserved, Usage.revenue, rowsSum]

/-- updating one contract (rows untouched) keeps the invariant when the new contract is conserved
and its unspent funding is unchanged -/
theorem inv_upd (s : State) (cid : Cid) (c' : Contract) (h : Inv1 s)
    (hc : Conserved c') (haf : c'.u.af = (s.ctr cid).u.af) :
    Inv1 { s with ctr := upd s.ctr cid c' } := by
  intro x
  by_cases hx : x = cid
  · subst hx; simp only [upd_same]; exact ⟨hc, by rw [haf]; exact (h x).2⟩
  · simp only [upd_other _ _ _ _ hx]; exact h x

theorem form_inv (s : State) (cid : Cid) (hp mhp vrp price : Nat) (h : Inv1 s) :
    Inv1 (form s cid hp mhp vrp price).1 := by
  unfold form
  split
  · rename_i hg
    simp only [formGuard, Bool.and_eq_true, decide_eq_true_eq] at hg
    obtain ⟨⟨⟨⟨_, h0⟩, hpr⟩, _⟩, _⟩ := hg
    intro x
    by_cases hx : x = cid
    · subst hx
      simp only [upd_same]
      exact ⟨by simp only [Conserved, formed, Usage.revenue]; omega, by simp [formed, h0]⟩
    · simp only [upd_other _ _ _ _ hx]; exact h x
  · exact h

theorem reviseUsage_revenue (F : Facts) (k : Kind) (cost : Cost) (t b : Nat) (c : Cat)
    (hc : F.excess k = some c) (hle : cost.total ≤ t) :
    (reviseUsage F k cost t b).revenue = t := by
  simp only [reviseUsage, hc, Usage.bump?, revenue_bump]
  simp only [Cost.usage, Cost.total, Usage.revenue] at *
  omega

theorem reviseUsage_af (F : Facts) (k : Kind) (cost : Cost) (t b : Nat) (c : Cat)
    (hc : F.excess k = some c) (hne : c ≠ Cat.af) : (reviseUsage F k cost t b).af = 0 := by
  simp only [reviseUsage, hc, Usage.bump?]
  cases c <;> simp_all [Usage.bump, Cost.usage]

theorem revise_inv (F : Facts) (hF : F.ok) (s : State) (cid : Cid) (k : Kind) (cost : Cost) (t b : Nat) (wf : Bool)
    (h : Inv1 s) : Inv1 (revise F s cid k cost t b wf).1 := by
  unfold revise
  split
  · rename_i hg
    simp only [reviseGuard, Bool.and_eq_true, decide_eq_true_eq] at hg
    obtain ⟨hex, _, hk, _⟩ := hF
    obtain ⟨cat, hcat, hne⟩ := hex k
    apply inv_upd s cid _ h
    · have hc := (h cid).1
      unfold Conserved at *
      simp only [revised, persist_ok F hk, revenue_add, reviseUsage_revenue F k cost t b cat hcat hg.1.2]
      omega
    · simp [revised, persist_ok F hk, af_add, reviseUsage_af F k cost t b cat hcat hne]
  · exact h

theorem credit_inv (F : Facts) (hF : F.ok) (s : State) (cid : Cid) (a : Acct) (cost : Nat) (p : PayRev) (cm : Bool)
    (h : Inv1 s) : Inv1 (credit F s cid a cost p cm).1 := by
  unfold credit
  split
  · rename_i hg
    obtain ⟨_, hf, hk, hv⟩ := hF
    simp only [creditGuard, hv, Bool.and_eq_true, decide_eq_true_eq, Bool.not_true, Bool.false_or] at hg
    obtain ⟨⟨⟨_, hup, _⟩, hle⟩, _⟩ := hg
    intro x
    simp only [rowsSum_upsert]
    by_cases hx : x = cid
    · subst hx
      simp only [upd_same]
      have hc := (h x).1
      have hr := (h x).2
      refine ⟨?_, ?_⟩
      · unfold Conserved at *
        simp only [credited, persist_ok F hk, revenue_add, hf]
        simp only [Usage.revenue] at *
        simp; omega
      · simp [credited, persist_ok F hk, af_add, hf, hr]
    · simp only [upd_other _ _ _ _ hx]
      have hne : ¬ cid = x := fun e => hx e.symm
      simp [hne]; exact h x
  · exact h

theorem debit_inv (F : Facts) (hF : F.ok) (s : State) (a : Acct) (u : Usage) (h : Inv1 s) :
    Inv1 (debit F s a u).1 := by
  unfold debit
  split
  · exact h
  · have hsp := dist_spec F hF.2.2.1 a s.rows u s.ctr (fun c => (h c).1) (fun c => by rw [(h c).2]; exact Nat.le_refl _)
    obtain ⟨hb, hc, he⟩ := hsp
    simp only [hb]
    intro x
    refine ⟨hc x, ?_⟩
    have := he x
    have hr := (h x).2
    show rowsSum x (dist F a s.rows u s.ctr).rows = ((dist F a s.rows u s.ctr).ctr x).u.af
    omega

/-- under the invariant the `AccountFunding.Sub` of the attribution never underflows -/
theorem debit_never_panics (F : Facts) (hF : F.ok) (s : State) (a : Acct) (u : Usage) (h : Inv1 s) :
    (debit F s a u).2 ≠ .panic := by
  unfold debit
  split
  · simp
  · have hsp := dist_spec F hF.2.2.1 a s.rows u s.ctr (fun c => (h c).1) (fun c => by rw [(h c).2]; exact Nat.le_refl _)
    simp [hsp.1]

theorem finalize_inv (F : Facts) (hF : F.ok) (s : State) (cid : Cid) (b sc cc : Nat) (h : Inv1 s) :
    Inv1 (finalize F s cid b sc cc).1 := by
  unfold finalize
  simp only
  split
  · apply inv_upd s cid _ h
    · have hc := (h cid).1
      unfold Conserved at *
      simp only [persist_ok F hF.2.2.1, revenue_add]
      simp only [Usage.revenue] at *
      omega
    · simp [persist_ok F hF.2.2.1, af_add]
  · exact h

theorem cleared_conserved (F : Facts) (hk : F.keepRegistry = true) (c : Contract) (t : Nat)
    (hc : Conserved c) : Conserved (cleared F c t) := by
  unfold Conserved at *
  simp only [cleared, persist_ok F hk, revenue_add]
  simp only [Usage.revenue] at *
  omega

theorem renewed_conserved (v3 : Bool) (hp mhp vrp price sto : Nat) (h : price + sto ≤ hp) :
    Conserved (renewed v3 hp mhp vrp price sto) := by
  simp only [Conserved, renewed, Usage.revenue]; omega

theorem renew_inv (F : Facts) (hF : F.ok) (s : State) (old new : Cid) (v3 : Bool)
    (t mp hp mhp vrp price sto bc : Nat) (h : Inv1 s) :
    Inv1 (renew F s old new v3 t mp hp mhp vrp price sto bc).1 := by
  unfold renew
  split
  · rename_i hg
    simp only [renewGuard, Bool.and_eq_true, decide_eq_true_eq, Bool.not_eq_true'] at hg
    obtain ⟨⟨⟨⟨⟨⟨⟨⟨⟨⟨_, hne⟩, _⟩, h0⟩, _⟩, _⟩, _⟩, _⟩, hps⟩, _⟩, _⟩ := hg
    intro x
    by_cases hx : x = new
    · subst hx
      simp only [upd_same]
      exact ⟨renewed_conserved v3 hp mhp vrp price sto hps, by simp [renewed, h0]⟩
    · simp only [upd_other _ _ _ _ hx]
      by_cases hy : x = old
      · subst hy
        simp only [upd_same]
        exact ⟨cleared_conserved F hF.2.2.1 _ t (h x).1, by simp [cleared, persist_ok F hF.2.2.1, af_add, (h x).2]⟩
      · simp only [upd_other _ _ _ _ hy]; exact h x
  · exact h

/-! ## C10, v1 -/

theorem step_inv (F : Facts) (hF : F.ok) (s : State) (op : Op) (h : Inv1 s) : Inv1 (step F s op) := by
  cases op with
  | form cid hp mhp vrp price => exact form_inv s cid hp mhp vrp price h
  | revise cid k cost t b wf => exact revise_inv F hF s cid k cost t b wf h
  | fund cid a cost p => exact credit_inv F hF s cid a cost p true h
  | pay cid a p => exact credit_inv F hF s cid a 0 p false h
  | debit a u => exact debit_inv F hF s a u h
  | finalize cid b sc cc => exact finalize_inv F hF s cid b sc cc h
  | renew o n v3 t mp hp mhp vrp p st bc => exact renew_inv F hF s o n v3 t mp hp mhp vrp p st bc h

theorem run_inv (F : Facts) (hF : F.ok) (ops : List Op) : ∀ s, Inv1 s → Inv1 (run F s ops) := by
  induction ops with
  | nil => intro s h; exact h
  | cons op rest ih => intro s h; exact ih _ (step_inv F hF s op h)

/-- **C10 (v1).** After ANY sequence of formations, RHP2 revisions with any over-payment, RHP3
fund-account / pay-by-contract payments, account spending, program finalisations and renewals,
every contract's valid host payout equals its locked collateral plus the sum of its recorded
usage categories (incl. the unspent account funding) — for every routing that drops nothing. -/
theorem v1_conservation (F : Facts) (hF : F.ok) (cfg : Settings) (ops : List Op) (cid : Cid) :
    Conserved ((run F (init cfg) ops).ctr cid) :=
  (run_inv F hF ops _ (init_inv cfg) cid).1

theorem current_ok : Facts.current.ok := by
  refine ⟨?_, rfl, rfl, rfl⟩
  intro k; cases k
  · exact ⟨.sto, rfl, by decide⟩
  · exact ⟨.egr, rfl, by decide⟩
  · exact ⟨.egr, rfl, by decide⟩

/-- the routing of the current tree conserves -/
theorem v1_conservation_current (cfg : Settings) (ops : List Op) (cid : Cid) :
    Conserved ((run Facts.current (init cfg) ops).ctr cid) :=
  v1_conservation Facts.current current_ok cfg ops cid

/-- it holds at formation: locked collateral = host payout − contract price, RPC = contract price -/
theorem v1_formation (hp mhp vrp price : Nat) (h : price ≤ hp) : Conserved (formed hp mhp vrp price) := by
  simp only [Conserved, formed, Usage.revenue]; omega

/-- a renewal leaves BOTH contracts conserved: the cleared one (RPC += final payment) and the new
one (locked = payout − price − storage) -/
theorem v1_renewal_both (F : Facts) (hF : F.ok) (s : State) (old new : Cid) (v3 : Bool)
    (t mp hp mhp vrp price sto bc : Nat) (h : Inv1 s)
    (hok : (renew F s old new v3 t mp hp mhp vrp price sto bc).2 = .ok) :
    Conserved ((renew F s old new v3 t mp hp mhp vrp price sto bc).1.ctr old) ∧
    Conserved ((renew F s old new v3 t mp hp mhp vrp price sto bc).1.ctr new) ∧
    ((renew F s old new v3 t mp hp mhp vrp price sto bc).1.ctr old).vhp = (s.ctr old).vhp + t := by
  have hi := renew_inv F hF s old new v3 t mp hp mhp vrp price sto bc h
  refine ⟨(hi old).1, (hi new).1, ?_⟩
  unfold renew at hok ⊢
  split
  · rename_i hg
    simp only [renewGuard, Bool.and_eq_true, decide_eq_true_eq] at hg
    have hne : old ≠ new := fun e => hg.1.1.1.1.1.1.1.1.1.2 e.symm
    simp [upd_other _ _ _ _ hne, cleared]
  · rename_i hg; simp [hg] at hok

/-- a rejected (or panicking) operation changes nothing -/
theorem v1_rejected_no_change (F : Facts) (s : State) (op : Op) (h : (stepOut F s op).2 ≠ .ok) :
    (stepOut F s op).1 = s := by
  cases op <;> simp only [stepOut, form, revise, fund, pay, credit, debit, finalize, renew] at h ⊢
  all_goals (repeat' split) <;> simp_all

/-- an accepted revision raises the host payout by exactly what the renter transferred, and the
recorded revenue by the same amount -/
theorem v1_revise_moves (F : Facts) (hF : F.ok) (s : State) (cid : Cid) (k : Kind) (cost : Cost) (t b : Nat) (wf : Bool)
    (hok : (revise F s cid k cost t b wf).2 = .ok) :
    ((revise F s cid k cost t b wf).1.ctr cid).vhp = (s.ctr cid).vhp + t ∧
    ((revise F s cid k cost t b wf).1.ctr cid).u.revenue = (s.ctr cid).u.revenue + t := by
  unfold revise at hok ⊢
  split
  · rename_i hg
    simp only [reviseGuard, Bool.and_eq_true, decide_eq_true_eq] at hg
    obtain ⟨cat, hcat, _⟩ := hF.1 k
    simp [revised, persist_ok F hF.2.2.1, revenue_add, reviseUsage_revenue F k cost t b cat hcat hg.1.2]
  · rename_i hg; simp [hg] at hok

/-- a request that fails the non-monetary checks (empty or out-of-range sector-roots range, Merkle
proof requested for an `update`, patched sector whose root the host does not store) is refused: no
revenue is recorded and the revision stays -/
theorem v1_illformed_refused (F : Facts) (s : State) (cid : Cid) (k : Kind) (cost : Cost) (t b : Nat) :
    revise F s cid k cost t b false = (s, .reject) := by
  simp [revise, reviseGuard]

example : rootsWF 3 0 0 = false ∧ rootsWF 3 2 2 = false ∧ rootsWF 3 4 0 = false ∧ rootsWF 3 1 2 = true := by decide
example : writeWF true true true = false ∧ writeWF false true false = false ∧ writeWF false true true = true ∧
          writeWF true false false = true := by decide

/-- a payment revision that does not hand the host exactly what it takes from the renter is refused
(`ValidatePaymentRevision`), as is a fund-account payment below the cost of the RPC -/
theorem v1_skewed_payment_refused (F : Facts) (hv : F.validatePay = true) (s : State) (cid : Cid) (a : Acct)
    (cost : Nat) (p : PayRev) (cm : Bool) (h : p.up ≠ p.total ∨ p.mup ≠ p.total ∨ p.total < cost) :
    credit F s cid a cost p cm = (s, .reject) := by
  unfold credit
  split
  · rename_i hg
    simp only [creditGuard, hv, Bool.and_eq_true, decide_eq_true_eq, Bool.not_true, Bool.false_or] at hg
    omega
  · rfl

/-! ### non-vacuity: a history exercising every operation, accepted -/

def demoCfg : Settings := { maxBal := 1000000, maxColl := 1000000 }

def demoOps : List Op :=
  [ .form 0 1000 1000 5000 10,
    .revise 0 .write { base := 1, sto := 20, ing := 4, coll := 30 } 125 25,   -- over-pays by 100
    .revise 0 .read { base := 1, egr := 8 } 9 0,
    .revise 0 .roots { base := 1, egr := 2 } 1003 0,                           -- over-pays by 1000
    .fund 0 7 1 (.exact 501),
    .pay 0 8 (.exact 300),
    .debit 8 { rpc := 5, sto := 50, rr := 20, rw := 30 },
    .debit 7 { rpc := 1, egr := 99, ing := 100 },
    .finalize 0 40 20 25,
    .renew 0 1 false 17 1 900 700 4000 10 150 80,
    .fund 1 7 1 (.exact 101),
    .debit 7 { rpc := 300, sto := 50 },          -- spends funding of the cleared AND the new contract
    .renew 1 2 true 0 0 800 800 3000 10 200 0 ]

/-- outcomes of a history -/
def outs (F : Facts) : State → List Op → List Out
  | _, [] => []
  | s, op :: r => (stepOut F s op).2 :: outs F (step F s op) r

example : outs Facts.current (init demoCfg) demoOps = List.replicate 13 Out.ok := by decide
example : ((run Facts.current (init demoCfg) demoOps).ctr 0).vhp = 2955 := by decide
example : ((run Facts.current (init demoCfg) demoOps).ctr 0).u =
    { rpc := 287, sto := 220, ing := 104, egr := 1109, rr := 20, rw := 30, af := 195, risk := 50 } := by decide
example : ((run Facts.current (init demoCfg) demoOps).ctr 1).u.af = 50 := by decide
example : Conserved ((run Facts.current (init demoCfg) demoOps).ctr 0) ∧
          Conserved ((run Facts.current (init demoCfg) demoOps).ctr 1) ∧
          Conserved ((run Facts.current (init demoCfg) demoOps).ctr 2) := by decide

/-! ## what breaks it (concrete witnesses) -/

/-- a routing that drops the over-payment of RPC kind `k` -/
def Facts.dropExcess (k : Kind) : Facts :=
  { Facts.current with excess := fun k' => if k' = k then none else Facts.current.excess k' }

/-- **Negative.** If the handler of `k` does not fold the excess anywhere, ONE over-paying RPC (by
1 H) breaks conservation: the payout moved by `cost + 1`, the usage by `cost`. -/
theorem excess_dropped_breaks (k : Kind) :
    ¬ Conserved ((run (Facts.dropExcess k) (init demoCfg)
        [.form 0 1000 1000 5000 10, .revise 0 k { base := 1, egr := 2 } 4 0]).ctr 0) := by
  cases k <;> decide

/-- the tree before fix 7f588c8 / 01c80e7: registry revenue is neither persisted nor reported -/
def Facts.preRegistryFix : Facts := { Facts.current with keepRegistry := false }

/-- **Negative.** Without the registry columns an account-funded registry read loses its storage
part: the unspent funding drops by 3, the recorded revenue rises by 1 (DESIGN §5 finding 9). -/
theorem registry_dropped_breaks :
    ¬ Conserved ((run Facts.preRegistryFix (init demoCfg)
        [.form 0 1000 1000 5000 10, .fund 0 7 1 (.exact 11), .debit 7 { rpc := 1, rr := 2 }]).ctr 0) := by
  decide

/-- a routing where the deposit is not recorded as account funding -/
def Facts.dropFunding : Facts := { Facts.current with fundAf := false }

/-- **Negative.** If `CreditAccountWithContract` does not add the deposit to `AccountFunding`,
funding an account breaks conservation (payout +11, revenue +1). -/
theorem funding_dropped_breaks :
    ¬ Conserved ((run Facts.dropFunding (init demoCfg)
        [.form 0 1000 1000 5000 10, .fund 0 7 1 (.exact 11)]).ctr 0) := by
  decide

/-- a tree whose RHP3 payment paths sign without `ValidatePaymentRevision` -/
def Facts.noPaymentValidation : Facts := { Facts.current with validatePay := false }

/-- **Negative.** Without the validation a renter can take 11 H out of its payout, hand the host
only 10 H, and still get the full amount credited: recorded revenue exceeds the money that moved. -/
theorem payment_unvalidated_breaks :
    ¬ Conserved ((run Facts.noPaymentValidation (init demoCfg)
        [.form 0 1000 1000 5000 10, .fund 0 7 1 { total := 11, up := 10, mup := 11 }]).ctr 0) := by
  decide

/-! ## C10, v2 -/

theorem add4_assoc (a b c : Usage4) : (a.add b).add c = a.add (b.add c) := by
  simp [Usage4.add, Nat.add_assoc]

theorem renterCost_add4 (a b : Usage4) : (a.add b).renterCost = a.renterCost + b.renterCost := by
  simp only [Usage4.add, Usage4.renterCost]; omega

theorem rowRes4_spec (u : Usage4) (amt v1 v2 v3 v4 : Nat)
    (b1 : v1 ≤ amt) (b2 : v2 ≤ amt - v1) (b3 : v3 ≤ amt - v1 - v2) (b4 : v4 ≤ amt - v1 - v2 - v3) :
    (rowRes4 u amt v1 v2 v3 v4).add.renterCost = amt - (rowRes4 u amt v1 v2 v3 v4).rem ∧
    (rowRes4 u amt v1 v2 v3 v4).add.af = 0 ∧ (rowRes4 u amt v1 v2 v3 v4).add.risk = 0 := by
  simp only [rowRes4, Usage4.renterCost]
  exact ⟨by omega, trivial, trivial⟩

theorem distRow4_spec (u : Usage4) (amt : Nat) :
    (distRow4 u amt).add.renterCost = amt - (distRow4 u amt).rem ∧
    (distRow4 u amt).add.af = 0 ∧ (distRow4 u amt).add.risk = 0 := by
  unfold distRow4
  apply rowRes4_spec <;> exact Nat.min_le_right _ _

/-- an account debit attributed to a contract moves unspent funding into the categories: the
renter cost and the risked collateral of the recorded usage do not change -/
theorem spend4_keeps (c c' : Contract4) (u : Usage4) (amt : Nat) (h : spend4 Facts4.current c u amt = some c') :
    c'.u.renterCost = c.u.renterCost ∧ c'.u.risk = c.u.risk ∧ c'.hostOut = c.hostOut ∧
    c'.totalColl = c.totalColl ∧ c'.carry = c.carry := by
  unfold spend4 at h
  simp only at h
  split at h
  · simp at h
  · rename_i hle
    have hs := distRow4_spec u amt
    simp only [Option.some.injEq] at h
    subst h
    simp only [Facts4.current, id, renterCost_add4]
    refine ⟨?_, ?_, trivial, trivial, trivial⟩
    · simp only [Usage4.renterCost] at *; omega
    · simp [Usage4.add, hs.2.2]

/-- **C10 (v2), accumulation.** With the columns the current store writes, after any sequence of
RPCs (no account spending attributed to the contract) the recorded usage is the initial usage plus
the `Usage.Add` fold of the usage arguments of the accepted RPCs. -/
theorem v2_accumulation (c : Contract4) (ops : List Op4) (h : ∀ op ∈ ops, ∃ ho u, op = Op4.rpc ho u) :
    (run4 Facts4.current c ops).u = c.u.add (sumUsage4 ops) := by
  induction ops generalizing c with
  | nil => simp [run4, sumUsage4, Usage4.add]
  | cons op rest ih =>
    obtain ⟨ho, u, rfl⟩ := h _ (List.mem_cons_self)
    have ih' := ih (step4 Facts4.current c (.rpc ho u)) (fun o ho' => h o (List.mem_cons_of_mem _ ho'))
    simp only [run4, List.foldl] at ih' ⊢
    rw [ih']
    simp [step4, revise4, Facts4.current, sumUsage4, add4_assoc]

/-- … and with account spending interleaved: the renter cost and the risked collateral of the
recorded usage are those of the fold (spending only re-labels unspent funding). -/
theorem v2_accumulation_cost (c : Contract4) (ops : List Op4) :
    (run4 Facts4.current c ops).u.renterCost = c.u.renterCost + (sumUsage4 ops).renterCost ∧
    (run4 Facts4.current c ops).u.risk = c.u.risk + (sumUsage4 ops).risk := by
  induction ops generalizing c with
  | nil => simp [run4, sumUsage4, Usage4.renterCost]
  | cons op rest ih =>
    have ih' := ih (step4 Facts4.current c op)
    simp only [run4, List.foldl] at ih' ⊢
    rw [ih'.1, ih'.2]
    cases op with
    | rpc ho u =>
      simp only [step4, revise4, Facts4.current, id, sumUsage4, renterCost_add4]
      simp only [Usage4.add]; omega
    | spend u amt =>
      simp only [step4, sumUsage4]
      cases hs : spend4 Facts4.current c u amt with
      | none => simp
      | some c' => have := spend4_keeps c c' u amt hs; simp [this.1, this.2.1]

/-- the contract's books balance: host output = total collateral + renter cost of the recorded
usage + revenue carried over by a refresh -/
def Balanced (c : Contract4) : Prop := c.hostOut = c.totalColl + c.u.renterCost + c.carry

instance (c : Contract4) : Decidable (Balanced c) := by unfold Balanced; exact inferInstance

/-- every RPC's revision moves exactly `usage.RenterCost()` to the host output
(`proto4.PayWithContract`, enforced by the RHP4 server in coreutils — trusted base) -/
def PaysExactly : Contract4 → List Op4 → Prop
  | _, [] => True
  | c, .rpc ho u :: rest => ho = c.hostOut + u.renterCost ∧ PaysExactly (step4 Facts4.current c (.rpc ho u)) rest
  | c, .spend u amt :: rest => PaysExactly (step4 Facts4.current c (.spend u amt)) rest

/-- **C10 (v2), host output.** If the books balance at formation/renewal and every RPC pays
exactly its usage, they balance after any history (RPCs and account spending). -/
theorem v2_output_minus_collateral (c : Contract4) (ops : List Op4)
    (hb : Balanced c) (hp : PaysExactly c ops) : Balanced (run4 Facts4.current c ops) := by
  induction ops generalizing c with
  | nil => exact hb
  | cons op rest ih =>
    simp only [run4, List.foldl]
    cases op with
    | rpc ho u =>
      obtain ⟨h1, h2⟩ := hp
      apply ih _ _ h2
      unfold Balanced at *
      simp only [step4, revise4, Facts4.current, id, renterCost_add4]
      omega
    | spend u amt =>
      apply ih _ _ hp
      simp only [step4]
      cases hs : spend4 Facts4.current c u amt with
      | none => exact hb
      | some c' =>
        have := spend4_keeps c c' u amt hs
        unfold Balanced at *
        simp only [this.1, this.2.2.1, this.2.2.2.1, this.2.2.2.2]; exact hb

/-- formation (`proto4.NewContract`): host output = collateral + contract price, usage RPC = price -/
theorem v2_formed_balanced (coll price : Nat) :
    Balanced (insert4 Facts4.current (coll + price) coll 0 { rpc := price }) := by
  simp [Balanced, insert4, Facts4.current, Usage4.renterCost]

/-- renewal (`proto4.RenewContract`): host output = total collateral + storage + contract price -/
theorem v2_renewed_balanced (totalColl storage price risk : Nat) :
    Balanced (insert4 Facts4.current (totalColl + storage + price) totalColl 0
      { rpc := price, sto := storage, risk := risk }) := by
  simp only [Balanced, insert4, Facts4.current, id, Usage4.renterCost]; omega

/-- refresh (`proto4.RefreshContract`): everything is rolled over, so the new contract's output
exceeds its collateral by the predecessor's revenue (`carry`) plus the contract price; without the
carry the equation is FALSE for refreshed contracts — the property excludes them. -/
theorem v2_refreshed_balanced (old : Contract4) (coll price risk : Nat) (h : Balanced old) :
    Balanced (insert4 Facts4.current (old.hostOut + coll + price) (old.totalColl + coll)
      (old.hostOut - old.totalColl) { rpc := price, risk := risk }) := by
  unfold Balanced at *
  simp only [insert4, Facts4.current, id, Usage4.renterCost]; omega

theorem v2_refreshed_needs_carry :
    ¬ Balanced (insert4 Facts4.current (110 + 50 + 10) (100 + 50) 0 { rpc := 10 }) := by decide

/-- the spelled-out consequence: for a formed contract, host output − total collateral = the
renter's recorded spending -/
theorem v2_formed_spending (coll price : Nat) (ops : List Op4)
    (hp : PaysExactly (insert4 Facts4.current (coll + price) coll 0 { rpc := price }) ops) :
    let c := run4 Facts4.current (insert4 Facts4.current (coll + price) coll 0 { rpc := price }) ops
    c.hostOut - c.totalColl = c.u.renterCost := by
  intro c
  have hb := v2_output_minus_collateral _ ops (v2_formed_balanced coll price) hp
  have hc := (v2_accumulation_cost (insert4 Facts4.current (coll + price) coll 0 { rpc := price }) ops)
  have : c.carry = 0 := by
    show (run4 Facts4.current _ ops).carry = 0
    clear hb hc hp
    generalize hc0 : insert4 Facts4.current (coll + price) coll 0 { rpc := price } = c0
    have h0 : c0.carry = 0 := by subst hc0; rfl
    clear hc0
    induction ops generalizing c0 with
    | nil => exact h0
    | cons op rest ih =>
      simp only [run4, List.foldl]
      apply ih
      cases op with
      | rpc ho u => simp [step4, revise4, h0]
      | spend u amt =>
        simp only [step4]
        cases hs : spend4 Facts4.current c0 u amt with
        | none => exact h0
        | some c' => rw [(spend4_keeps c0 c' u amt hs).2.2.2.2]; exact h0
  unfold Balanced at hb
  show c.hostOut - c.totalColl = c.u.renterCost
  have hb' : c.hostOut = c.totalColl + c.u.renterCost + c.carry := hb
  omega

/-- a store that does not write the egress column -/
def Facts4.dropEgress : Facts4 := { keep := fun u => { u with egr := 0 } }

/-- **Negative.** If `incrementV2ContractUsage` dropped a category, one RPC with that category
unbalances the books. -/
theorem v2_dropped_column_breaks :
    ¬ Balanced (run4 Facts4.dropEgress (insert4 Facts4.dropEgress (100 + 10) 100 0 { rpc := 10 })
        [.rpc 117 { rpc := 1, egr := 6 }]) := by decide

/-! non-vacuity -/
def demo4 : List Op4 :=
  [ .rpc 131 { rpc := 1, sto := 20, risk := 40 },            -- append
    .rpc 631 { af := 500 },                                    -- fund accounts
    .spend { rpc := 2, egr := 30, sto := 5 } 500,              -- account-funded read
    .rpc 633 { rpc := 2 } ]                                    -- sector roots

example : PaysExactly (insert4 Facts4.current (100 + 10) 100 0 { rpc := 10 }) demo4 := by
  simp [PaysExactly, demo4, step4, revise4, insert4, Facts4.current, Usage4.renterCost, Usage4.add, spend4,
        distRow4, rowRes4]
example : (run4 Facts4.current (insert4 Facts4.current (100 + 10) 100 0 { rpc := 10 }) demo4).u =
    { rpc := 15, sto := 25, egr := 30, ing := 0, af := 463, risk := 40 } := by decide
example : Balanced (run4 Facts4.current (insert4 Facts4.current (100 + 10) 100 0 { rpc := 10 }) demo4) := by decide

end Hostd.Revenue
