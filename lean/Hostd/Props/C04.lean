import Hostd.Lemmas.Accounts
/-!
C04 — Account ledger: no overdraft, no double spend, value conserved.

All theorems are about `Hostd.Accounts` (the model the driver `drv_accounts` replays against
the implementation).  Every operation of the model is atomic (manager methods run under
`AccountManager.mu`, store methods in one SQLite transaction — trusted base), so the theorems
about arbitrary operation sequences cover every interleaving of concurrent RPCs.

`Facts` (does an RHP4 debit lower the `accountBalance` metric?) is universally quantified: every
theorem holds for the current tree and for the repaired one unless it says otherwise.
-/
namespace Hostd.Accounts

/-! ### the invariant -/

/-- the manager's in-memory entries against the store and the open budgets.
`stale a` (history variable) = RHP4 deposits the entry has not seen. -/
structure MemOK (s : State) : Prop where
  some : ∀ a m, s.mem a = some m →
    s.st.bal a = m.balance + resv a s.budgets + s.stale a ∧ m.openTxns = nOpen a s.budgets ∧ 0 < nOpen a s.budgets
  none : ∀ a, s.mem a = none → nOpen a s.budgets = 0 ∧ s.stale a = 0

/-- an open budget never spent more than its maximum -/
def BudgetsOK (s : State) : Prop := ∀ b ∈ s.budgets, b.closed = false → b.usage.total3 ≤ b.max

structure Good (f : Facts) (s : State) : Prop where
  store   : StoreInv f s.st
  mem     : MemOK s
  budgets : BudgetsOK s

/-- Side conditions on an operation.
* `rhp4debit` on a key that has an in-memory RHP3 entry (= open RHP3 budgets) is EXCLUDED: the
  current code lets it through without telling the manager (see `mixed_protocol_breaks_ledger`).
* `rhp4credit`: the caller passes `usage.AccountFunding = Σ deposits` (how the RPC handler
  builds it). -/
def OpOK (s : State) : Op → Prop
  | .rhp4debit a _ => s.mem a = none
  | .rhp4credit _ deps u => u.accountFunding = sumDeps deps
  | _ => True

/-- an operation sequence all of whose steps satisfy `OpOK` in the state they run in -/
def RunOK (f : Facts) : State → List Op → Prop
  | _, [] => True
  | s, op :: rest => OpOK s op ∧ RunOK f (step f s op).1 rest

theorem good_init (f : Facts) (n1 n2 : Nat) : Good f (init n1 n2) where
  store := storeInv_init f n1 n2
  mem := ⟨fun a m h => by simp [init] at h, fun a _ => ⟨rfl, rfl⟩⟩
  budgets := fun b hb => by simp [init] at hb

/-! ### frame facts of the store operations -/

theorem credit3_bal (st st' : Store) (a : Acct) (c : Cid) (amt cost : Nat)
    (he : st.credit3 a c amt cost = some st') : st'.bal = upd st.bal a (st.bal a + amt) := by
  unfold Store.credit3 at he
  by_cases hc : c < st.n1
  · simp only [if_pos hc, Option.some.injEq] at he; subst he; rfl
  · simp [if_neg hc] at he

theorem credit4_bal (st st' : Store) (c : Cid) (deps : List (Acct × Nat)) (u : Usage) (bals : List Nat)
    (hs : AcctsOK st) (he : st.credit4 c deps u = some (st', bals)) : ∀ x, st'.bal x = st.bal x + depsFor x deps := by
  unfold Store.credit4 at he
  by_cases hc : c < st.n2
  · simp only [if_pos hc, Option.some.injEq, Prod.mk.injEq] at he
    obtain ⟨he, _⟩ := he
    subst he
    exact (deposits4_spec c deps st hs).bal
  · simp [if_neg hc] at he

/-! ### every operation preserves the invariant -/

theorem credit_good (f : Facts) (s : State) (a : Acct) (c : Cid) (amt cost : Nat) (rf : Bool) (mb : Nat)
    (h : Good f s) : Good f (credit s a c amt cost rf mb).1 := by
  unfold credit
  by_cases hx : (!rf && decide (mb < getBalance s a + amt)) = true
  · simp only [hx, if_true]; exact h
  · simp only [hx, Bool.false_eq_true, ↓reduceIte]
    cases he : s.st.credit3 a c amt cost with
    | none => exact h
    | some st' =>
      have hb := credit3_bal _ _ _ _ _ _ he
      have hst := credit3_inv f _ _ _ _ _ _ h.store he
      cases hm : s.mem a with
      | none =>
        refine ⟨hst, ⟨?_, ?_⟩, h.budgets⟩
        · intro x m hxm
          have hne : x ≠ a := fun e => by subst e; simp [hm] at hxm
          have := h.mem.some x m hxm
          simp only [hb, upd_other _ _ _ _ hne]; exact this
        · intro x hxm; exact h.mem.none x hxm
      | some m =>
        have hma := h.mem.some a m hm
        refine ⟨hst, ⟨?_, ?_⟩, h.budgets⟩
        · intro x m' hxm
          by_cases hxa : x = a
          · subst hxa
            simp only [upd_same, Option.some.injEq] at hxm
            subst hxm
            simp only [hb, upd_same, getBalance, hm]
            omega
          · simp only [upd_other _ _ _ _ hxa] at hxm
            have := h.mem.some x m' hxm
            simp only [hb, upd_other _ _ _ _ hxa]; exact this
        · intro x hxm
          by_cases hxa : x = a
          · subst hxa; simp only [upd_same] at hxm; exact absurd hxm (by simp)
          · simp only [upd_other _ _ _ _ hxa] at hxm
            exact h.mem.none x hxm

theorem budget_good (f : Facts) (s : State) (a : Acct) (amt : Nat) (h : Good f s) :
    Good f (budget s a amt).1 := by
  unfold budget
  cases hm : s.mem a with
  | none =>
    obtain ⟨hn, hs⟩ := h.mem.none a hm
    have hr := resv_zero_of_nOpen a s.budgets hn
    by_cases hlt : s.st.bal a < amt
    · simp only [hlt, ↓reduceIte]; exact h
    · simp only [hlt, ↓reduceIte]
      refine ⟨h.store, ⟨?_, ?_⟩, ?_⟩
      · intro x m' hxm
        by_cases hxa : x = a
        · subst hxa
          simp only [upd_same, Option.some.injEq] at hxm
          subst hxm
          simp only [resv_append, nOpen_append, Budget.w]
          simp only [and_self, ↓reduceIte]
          omega
        · simp only [upd_other _ _ _ _ hxa] at hxm
          have := h.mem.some x m' hxm
          have hne : ¬ a = x := fun e => hxa e.symm
          simp only [resv_append, nOpen_append, Budget.w, hne, and_false, ↓reduceIte]
          omega
      · intro x hxm
        by_cases hxa : x = a
        · subst hxa; simp only [upd_same] at hxm; exact absurd hxm (by simp)
        · simp only [upd_other _ _ _ _ hxa] at hxm
          have := h.mem.none x hxm
          have hne : ¬ a = x := fun e => hxa e.symm
          simp only [nOpen_append, hne, and_false, ↓reduceIte]
          omega
      · intro b hb
        simp only [List.mem_append, List.mem_singleton] at hb
        rcases hb with hb | hb
        · exact h.budgets b hb
        · subst hb; intro _; simp [Usage.total3]
  | some m =>
    obtain ⟨h1, h2, h3⟩ := h.mem.some a m hm
    by_cases hlt : m.balance < amt
    · simp only [hlt, ↓reduceIte]; exact h
    · simp only [hlt, ↓reduceIte]
      refine ⟨h.store, ⟨?_, ?_⟩, ?_⟩
      · intro x m' hxm
        by_cases hxa : x = a
        · subst hxa
          simp only [upd_same, Option.some.injEq] at hxm
          subst hxm
          simp only [resv_append, nOpen_append, Budget.w]
          simp only [and_self, ↓reduceIte]
          omega
        · simp only [upd_other _ _ _ _ hxa] at hxm
          have := h.mem.some x m' hxm
          have hne : ¬ a = x := fun e => hxa e.symm
          simp only [resv_append, nOpen_append, Budget.w, hne, and_false, ↓reduceIte]
          omega
      · intro x hxm
        by_cases hxa : x = a
        · subst hxa; simp only [upd_same] at hxm; exact absurd hxm (by simp)
        · simp only [upd_other _ _ _ _ hxa] at hxm
          have := h.mem.none x hxm
          have hne : ¬ a = x := fun e => hxa e.symm
          simp only [nOpen_append, hne, and_false, ↓reduceIte]
          omega
      · intro b hb
        simp only [List.mem_append, List.mem_singleton] at hb
        rcases hb with hb | hb
        · exact h.budgets b hb
        · subst hb; intro _; simp [Usage.total3]

/-- replacing a budget by one with the same account, maximum and open flag changes no reservation -/
theorem set_same_weight (s : State) (i : Bid) (b b' : Budget) (hi : s.budgets[i]? = some b)
    (ha : b'.acct = b.acct) (hmx : b'.max = b.max) (hc : b'.closed = b.closed) (x : Acct) :
    resv x (s.budgets.set i b') = resv x s.budgets ∧ nOpen x (s.budgets.set i b') = nOpen x s.budgets := by
  have h1 := resv_set x b' s.budgets i b hi
  have h2 := nOpen_set x b' s.budgets i b hi
  simp only [Budget.w, ha, hmx, hc] at h1 h2
  omega

theorem usage_good (f : Facts) (s : State) (i : Bid) (b : Budget) (nu : Usage) (h : Good f s)
    (hi : s.budgets[i]? = some b) (hle : b.closed = false → nu.total3 ≤ b.max) :
    Good f { s with budgets := s.budgets.set i { b with usage := nu } } := by
  refine ⟨h.store, ⟨?_, ?_⟩, ?_⟩
  · intro x m hxm
    obtain ⟨e1, e2⟩ := set_same_weight s i b { b with usage := nu } hi rfl rfl rfl x
    have := h.mem.some x m hxm
    simp only [e1, e2]; exact this
  · intro x hxm
    obtain ⟨e1, e2⟩ := set_same_weight s i b { b with usage := nu } hi rfl rfl rfl x
    have := h.mem.none x hxm
    simp only [e2]; exact this
  · intro b' hb'
    rcases List.mem_or_eq_of_mem_set hb' with hb' | hb'
    · exact h.budgets b' hb'
    · subst hb'; exact hle

theorem spend_good (f : Facts) (s : State) (i : Bid) (u : Usage) (h : Good f s) : Good f (spend s i u).1 := by
  unfold spend
  cases hi : s.budgets[i]? with
  | none => exact h
  | some b =>
    by_cases hlt : b.max < (b.usage.add3 u).total3
    · simp only [hlt, ↓reduceIte]; exact h
    · simp only [hlt, ↓reduceIte]
      exact usage_good f s i b _ h hi (fun _ => by omega)

theorem sub3_total_le (a b : Usage) : (a.sub3 b).total3 ≤ a.total3 := by
  simp only [Usage.sub3, Usage.total3]; omega

theorem refund_good (f : Facts) (s : State) (i : Bid) (u : Usage) (h : Good f s) : Good f (refund s i u).1 := by
  unfold refund
  cases hi : s.budgets[i]? with
  | none => exact h
  | some b =>
    by_cases hc : b.closed = true
    · simp only [hc, ↓reduceIte]; exact h
    · dsimp only
      rw [if_neg hc]
      by_cases hle : (!u.le3 b.usage) = true
      · rw [if_pos hle]; exact h
      · rw [if_neg hle]
        refine usage_good f s i b _ h hi (fun hcl => ?_)
        have := h.budgets b (List.mem_of_getElem? hi) hcl
        have := sub3_total_le b.usage u
        omega

/-- an open budget is counted in the reservations of its account -/
theorem open_counted (s : State) (i : Bid) (b : Budget) (hi : s.budgets[i]? = some b) (hc : b.closed = false) :
    0 < nOpen b.acct s.budgets ∧ b.max ≤ resv b.acct s.budgets := by
  have h1 := resv_set b.acct { b with closed := true } s.budgets i b hi
  have h2 := nOpen_set b.acct { b with closed := true } s.budgets i b hi
  simp only [Budget.w, hc, and_self, ↓reduceIte, Bool.true_eq_false, false_and] at h1 h2
  omega

/-- closing budget `i` (commit or rollback) returning `back` to the spendable balance keeps the
manager invariant, provided the store balance of the account dropped by `b.max - back` -/
theorem close_mem (s : State) (i : Bid) (b b' : Budget) (m : Mem) (back : Nat) (bal' : Acct → Nat)
    (hmem : MemOK s) (hi : s.budgets[i]? = some b) (hc : b.closed = false) (hm : s.mem b.acct = some m)
    (hb' : b'.closed = true) (hback : back ≤ b.max)
    (hbal : ∀ x, bal' x = if x = b.acct then s.st.bal x - (b.max - back) else s.st.bal x)
    (hle : b.max - back ≤ s.st.bal b.acct) (st' : Store) (hst : st'.bal = bal') :
    MemOK { s with st := st', budgets := s.budgets.set i b', mem := release s.mem b.acct m back,
                   stale := if m.openTxns - 1 = 0 then upd s.stale b.acct 0 else s.stale } := by
  obtain ⟨hpos, hmax⟩ := open_counted s i b hi hc
  obtain ⟨m1, m2, m3⟩ := hmem.some b.acct m hm
  have hwa : resv b.acct (s.budgets.set i b') + b.max = resv b.acct s.budgets ∧
      nOpen b.acct (s.budgets.set i b') + 1 = nOpen b.acct s.budgets := by
    have h1 := resv_set b.acct b' s.budgets i b hi
    have h2 := nOpen_set b.acct b' s.budgets i b hi
    simp [Budget.w, hb', hc] at h1 h2
    omega
  have hwo : ∀ x, x ≠ b.acct → resv x (s.budgets.set i b') = resv x s.budgets ∧
      nOpen x (s.budgets.set i b') = nOpen x s.budgets := by
    intro x hx
    have hne : ¬ b.acct = x := fun e => hx e.symm
    have h1 := resv_set x b' s.budgets i b hi
    have h2 := nOpen_set x b' s.budgets i b hi
    simp [Budget.w, hb', hne] at h1 h2
    omega
  refine ⟨?_, ?_⟩
  · intro x mx hx
    by_cases hxa : x = b.acct
    · subst hxa
      obtain ⟨w1, w2⟩ := hwa
      by_cases hz : m.openTxns - 1 = 0
      · simp only [release, hz, ↓reduceIte, upd_same] at hx
        exact absurd hx (by simp)
      · simp only [release, hz, ↓reduceIte, upd_same, Option.some.injEq] at hx
        subst hx
        simp only [hst, hbal, hz, ↓reduceIte]
        omega
    · obtain ⟨w1, w2⟩ := hwo x hxa
      have hx' : s.mem x = some mx := by
        by_cases hz : m.openTxns - 1 = 0
        · simpa only [release, hz, ↓reduceIte, upd_other _ _ _ _ hxa] using hx
        · simpa only [release, hz, ↓reduceIte, upd_other _ _ _ _ hxa] using hx
      have := hmem.some x mx hx'
      have hst' : (if m.openTxns - 1 = 0 then upd s.stale b.acct 0 else s.stale) x = s.stale x := by
        by_cases hz : m.openTxns - 1 = 0 <;> simp [hz, upd_other _ _ _ _ hxa]
      simp only [hst, hbal, hxa, ↓reduceIte, hst', w1, w2]
      exact this
  · intro x hx
    by_cases hxa : x = b.acct
    · subst hxa
      obtain ⟨w1, w2⟩ := hwa
      by_cases hz : m.openTxns - 1 = 0
      · simp only [hz, ↓reduceIte, upd_same, and_true]
        omega
      · simp only [release, hz, ↓reduceIte, upd_same] at hx
        exact absurd hx (by simp)
    · obtain ⟨w1, w2⟩ := hwo x hxa
      have hx' : s.mem x = none := by
        by_cases hz : m.openTxns - 1 = 0
        · simpa only [release, hz, ↓reduceIte, upd_other _ _ _ _ hxa] using hx
        · simpa only [release, hz, ↓reduceIte, upd_other _ _ _ _ hxa] using hx
      have := hmem.none x hx'
      have hst' : (if m.openTxns - 1 = 0 then upd s.stale b.acct 0 else s.stale) x = s.stale x := by
        by_cases hz : m.openTxns - 1 = 0 <;> simp [hz, upd_other _ _ _ _ hxa]
      simp only [hst', w2]
      exact this

theorem close_budgets (s : State) (i : Bid) (b' : Budget) (h : BudgetsOK s) (hb' : b'.closed = true) :
    ∀ x ∈ s.budgets.set i b', x.closed = false → x.usage.total3 ≤ x.max := by
  intro x hx
  rcases List.mem_or_eq_of_mem_set hx with hx | hx
  · exact h x hx
  · subst hx; intro hcl; rw [hb'] at hcl; exact absurd hcl (by simp)

theorem commit_good (f : Facts) (s : State) (i : Bid) (sf : Bool) (h : Good f s) : Good f (commit s i sf).1 := by
  unfold commit
  cases hi : s.budgets[i]? with
  | none => exact h
  | some b =>
    dsimp only
    by_cases hc : b.closed = true
    · rw [if_pos hc]; exact h
    · rw [if_neg hc]
      by_cases hsf : sf = true
      · rw [if_pos hsf]; exact h
      · rw [if_neg hsf]
        have hcf : b.closed = false := by simpa using hc
        cases hd : s.st.debit3 b.acct b.usage with
        | mk st' out =>
          cases out with
          | missing => exact h
          | insufficient => exact h
          | panic => exact h
          | ok =>
            dsimp only
            obtain ⟨hpos, hmax⟩ := open_counted s i b hi hcf
            cases hm : s.mem b.acct with
            | none => have := (h.mem.none _ hm).1; omega
            | some m =>
              dsimp only
              have hok : (s.st.debit3 b.acct b.usage).2 = .ok := by rw [hd]
              obtain ⟨_, hb, _, _, he⟩ := debit3_ok_eq _ _ _ hok
              have hst' : st' = (s.st.debit3 b.acct b.usage).1 := by rw [hd]
              have hinv := debit3_inv f s.st b.acct b.usage h.store
              rw [← hst'] at hinv
              have hbal : st'.bal = upd s.st.bal b.acct (s.st.bal b.acct - b.usage.total3) := by rw [hst', he]
              have hle := h.budgets b (List.mem_of_getElem? hi) hcf
              refine ⟨hinv, ?_, close_budgets s i _ h.budgets rfl⟩
              refine close_mem s i b _ m (b.max - b.usage.total3) st'.bal h.mem hi hcf hm rfl (by omega) ?_ (by omega) st' rfl
              intro x
              rw [hbal]
              by_cases hx : x = b.acct
              · subst hx; simp only [upd_same, ↓reduceIte]; omega
              · simp only [upd_other _ _ _ _ hx, hx, ↓reduceIte]

theorem rollback_good (f : Facts) (s : State) (i : Bid) (h : Good f s) : Good f (rollback s i).1 := by
  unfold rollback
  cases hi : s.budgets[i]? with
  | none => exact h
  | some b =>
    dsimp only
    by_cases hc : b.closed = true
    · rw [if_pos hc]; exact h
    · rw [if_neg hc]
      have hcf : b.closed = false := by simpa using hc
      cases hm : s.mem b.acct with
      | none => exact h
      | some m =>
        dsimp only
        refine ⟨h.store, ?_, close_budgets s i _ h.budgets rfl⟩
        refine close_mem s i b _ m b.max s.st.bal h.mem hi hcf hm rfl (Nat.le_refl _) ?_ (by omega) s.st rfl
        intro x
        by_cases hx : x = b.acct
        · subst hx; simp only [↓reduceIte]; omega
        · simp only [hx, ↓reduceIte]

theorem rhp4credit_good (f : Facts) (s : State) (c : Cid) (deps : List (Acct × Nat)) (u : Usage)
    (h : Good f s) (hu : u.accountFunding = sumDeps deps) : Good f (rhp4credit s c deps u).1 := by
  unfold rhp4credit
  cases he : s.st.credit4 c deps u with
  | none => exact h
  | some p =>
    obtain ⟨st', bals⟩ := p
    dsimp only
    have hinv := credit4_inv f _ _ _ _ _ _ h.store hu he
    have hb := credit4_bal _ _ _ _ _ _ h.store.accts he
    refine ⟨hinv, ⟨?_, ?_⟩, h.budgets⟩
    · intro x m hx
      have hx : s.mem x = some m := hx
      have := h.mem.some x m hx
      have e : (if (s.mem x).isSome then s.stale x + depsFor x deps else s.stale x) = s.stale x + depsFor x deps := by
        simp [hx]
      dsimp only
      rw [e, hb]
      omega
    · intro x hx
      have hx : s.mem x = none := hx
      have := h.mem.none x hx
      have e : (if (s.mem x).isSome then s.stale x + depsFor x deps else s.stale x) = s.stale x := by
        simp [hx]
      dsimp only
      rw [e]
      exact this

theorem rhp4debit_good (f : Facts) (s : State) (a : Acct) (u : Usage) (h : Good f s) (hmem : s.mem a = none) :
    Good f (rhp4debit f s a u).1 := by
  unfold rhp4debit
  cases hd : s.st.debit4 f a u with
  | mk st' out =>
    cases out with
    | missing => exact h
    | insufficient => exact h
    | panic => exact h
    | ok =>
      dsimp only
      have hok : (s.st.debit4 f a u).2 = .ok := by rw [hd]
      obtain ⟨_, _, _, _, he⟩ := debit4_ok_eq _ _ _ _ hok
      have hst' : st' = (s.st.debit4 f a u).1 := by rw [hd]
      have hinv := debit4_inv f s.st a u h.store
      rw [← hst'] at hinv
      have hbal : st'.bal = upd s.st.bal a (s.st.bal a - u.cost4) := by rw [hst', he]
      refine ⟨hinv, ⟨?_, ?_⟩, h.budgets⟩
      · intro x m hx
        have hne : x ≠ a := fun e => by subst e; simp [hmem] at hx
        have := h.mem.some x m hx
        simp only [hbal, upd_other _ _ _ _ hne]
        exact this
      · intro x hx; exact h.mem.none x hx

/-- **Invariant step**: every operation satisfying its side condition preserves `Good`. -/
theorem step_good (f : Facts) (s : State) (op : Op) (h : Good f s) (hop : OpOK s op) : Good f (step f s op).1 := by
  cases op with
  | credit a c amt cost r mb => exact credit_good f s a c amt cost r mb h
  | budget a amt => exact budget_good f s a amt h
  | spend i u => exact spend_good f s i u h
  | refund i u => exact refund_good f s i u h
  | commit i sf => exact commit_good f s i sf h
  | rollback i => exact rollback_good f s i h
  | rhp4credit c deps u => exact rhp4credit_good f s c deps u h hop
  | rhp4debit a u => exact rhp4debit_good f s a u h hop

/-- **Ledger invariant for every reachable state** (induction over arbitrary operation
sequences = all interleavings of the atomic operations).  `_partial`: sequences in which an RHP4
debit hits a key that has open RHP3 budgets are excluded (`RunOK`); see
`mixed_protocol_breaks_ledger` for why they must be. -/
theorem ledger_inv_partial (f : Facts) (ops : List Op) (s : State) (h : Good f s) (hr : RunOK f s ops) :
    Good f (run f s ops) := by
  induction ops generalizing s with
  | nil => exact h
  | cons op rest ih =>
    obtain ⟨h1, h2⟩ := hr
    exact ih _ (step_good f s op h h1) h2

/-! ### the store part of the invariant needs no exclusion -/

/-- well-formedness of an operation that does not depend on the state -/
def OpWF : Op → Prop
  | .rhp4credit _ deps u => u.accountFunding = sumDeps deps
  | _ => True

theorem commit_store (f : Facts) (s : State) (i : Bid) (sf : Bool) (h : StoreInv f s.st) :
    StoreInv f (commit s i sf).1.st := by
  unfold commit
  cases hi : s.budgets[i]? with
  | none => exact h
  | some b =>
    dsimp only
    by_cases hc : b.closed = true
    · rw [if_pos hc]; exact h
    · rw [if_neg hc]
      by_cases hsf : sf = true
      · rw [if_pos hsf]; exact h
      · rw [if_neg hsf]
        have hinv := debit3_inv f s.st b.acct b.usage h
        cases hd : s.st.debit3 b.acct b.usage with
        | mk st' out =>
          rw [hd] at hinv
          cases out with
          | missing => exact h
          | insufficient => exact h
          | panic => exact h
          | ok =>
            dsimp only
            cases hm : s.mem b.acct with
            | none => exact hinv
            | some m => exact hinv

theorem budget_st (s : State) (a : Acct) (amt : Nat) : (budget s a amt).1.st = s.st := by
  unfold budget
  cases s.mem a <;> dsimp only <;> split <;> rfl

theorem spend_st (s : State) (i : Bid) (u : Usage) : (spend s i u).1.st = s.st := by
  unfold spend
  cases s.budgets[i]? <;> dsimp only
  split <;> rfl

theorem refund_st (s : State) (i : Bid) (u : Usage) : (refund s i u).1.st = s.st := by
  unfold refund
  cases s.budgets[i]? <;> dsimp only
  split
  · rfl
  · split <;> rfl

theorem rollback_st (s : State) (i : Bid) : (rollback s i).1.st = s.st := by
  unfold rollback
  cases s.budgets[i]? <;> dsimp only
  split
  · rfl
  · cases s.mem _ <;> rfl

/-- The persisted ledger invariant (balance = deposits − withdrawals ≥ 0, metrics, funding rows)
is preserved by EVERY operation, including RHP4 debits on keys with open RHP3 budgets. -/
theorem step_store (f : Facts) (s : State) (op : Op) (h : StoreInv f s.st) (hop : OpWF op) :
    StoreInv f (step f s op).1.st := by
  cases op with
  | credit a c amt cost r mb =>
    simp only [step, credit]
    by_cases hx : (!r && decide (mb < getBalance s a + amt)) = true
    · simp only [hx, ↓reduceIte]; exact h
    · simp only [hx, Bool.false_eq_true, ↓reduceIte]
      cases he : s.st.credit3 a c amt cost with
      | none => exact h
      | some st' => exact credit3_inv f _ _ _ _ _ _ h he
  | budget a amt => simp only [step]; rw [budget_st]; exact h
  | spend i u => simp only [step]; rw [spend_st]; exact h
  | refund i u => simp only [step]; rw [refund_st]; exact h
  | commit i sf => exact commit_store f s i sf h
  | rollback i => simp only [step]; rw [rollback_st]; exact h
  | rhp4credit c deps u =>
    simp only [step, rhp4credit]
    cases he : s.st.credit4 c deps u with
    | none => exact h
    | some p =>
      obtain ⟨st', bals⟩ := p
      exact credit4_inv f _ _ _ _ _ _ h hop he
  | rhp4debit a u =>
    simp only [step, rhp4debit]
    have hinv := debit4_inv f s.st a u h
    cases hd : s.st.debit4 f a u with
    | mk st' out =>
      rw [hd] at hinv
      cases out <;> first | exact h | exact hinv

def RunWF : List Op → Prop
  | [] => True
  | op :: rest => OpWF op ∧ RunWF rest

theorem run_store (f : Facts) (ops : List Op) (s : State) (h : StoreInv f s.st) (hw : RunWF ops) :
    StoreInv f (run f s ops).st := by
  induction ops generalizing s with
  | nil => exact h
  | cons op rest ih => exact ih _ (step_store f s op h hw.1) hw.2

/-- **C04, clause 1** — in every reachable state (ANY operation sequence from the empty host,
both protocols mixed freely, any facts) every account's balance equals the sum of the accepted
deposits minus the sum of the committed withdrawals; in particular it is never negative. -/
theorem balance_eq_ledger (f : Facts) (n1 n2 : Nat) (ops : List Op) (hw : RunWF ops) (a : Acct) :
    (run f (init n1 n2) ops).st.bal a + (run f (init n1 n2) ops).st.wd a = (run f (init n1 n2) ops).st.dep a :=
  (run_store f ops (init n1 n2) (storeInv_init f n1 n2) hw).led a

/-! ### reservations -/

/-- **no overdraft**: the open reservations of an account never exceed its persisted balance -/
theorem no_overdraft (f : Facts) (s : State) (h : Good f s) (a : Acct) : resv a s.budgets ≤ s.st.bal a := by
  cases hm : s.mem a with
  | none => have := resv_zero_of_nOpen a s.budgets (h.mem.none a hm).1; omega
  | some m => have := (h.mem.some a m hm).1; omega

/-- the manager's spendable balance is the persisted balance minus the open reservations
(minus RHP4 deposits it has not seen yet) -/
theorem spendable_eq (f : Facts) (s : State) (h : Good f s) (a : Acct) :
    getBalance s a + resv a s.budgets + s.stale a = s.st.bal a := by
  unfold getBalance
  cases hm : s.mem a with
  | none =>
    obtain ⟨h1, h2⟩ := h.mem.none a hm
    have := resv_zero_of_nOpen a s.budgets h1
    simp only; omega
  | some m => have := (h.mem.some a m hm).1; simp only; omega

/-- `openTxns` counts the open budgets; no entry ⇒ no open budget -/
theorem openTxns_eq (f : Facts) (s : State) (h : Good f s) (a : Acct) :
    (match s.mem a with | some m => m.openTxns | none => 0) = nOpen a s.budgets := by
  cases hm : s.mem a with
  | none => simp only; exact (h.mem.none a hm).1.symm
  | some m => simp only; exact (h.mem.some a m hm).2.1

/-- **C04, clause 2 (the property's direction)**: a reservation is granted only if the balance
minus all other outstanding reservations covers it. -/
theorem budget_only_if (f : Facts) (s : State) (h : Good f s) (a : Acct) (x : Nat)
    (hok : (budget s a x).2 = .ok) : x + resv a s.budgets ≤ s.st.bal a := by
  have hs := spendable_eq f s h a
  unfold budget at hok
  unfold getBalance at hs
  cases hm : s.mem a with
  | none =>
    simp only [hm] at hok hs
    by_cases hlt : s.st.bal a < x
    · simp [hlt] at hok
    · omega
  | some m =>
    simp only [hm] at hok hs
    by_cases hlt : m.balance < x
    · simp [hlt] at hok
    · omega

/-- **budget_iff**: a reservation succeeds iff balance − other outstanding reservations covers it
(`stale a` = RHP4 deposits that arrived while RHP3 budgets were open and that the manager only
sees once they are closed; 0 on every key used through one protocol). -/
theorem budget_iff (f : Facts) (s : State) (h : Good f s) (a : Acct) (x : Nat) :
    (budget s a x).2 = .ok ↔ x + resv a s.budgets + s.stale a ≤ s.st.bal a := by
  have hs := spendable_eq f s h a
  unfold budget
  unfold getBalance at hs
  cases hm : s.mem a with
  | none =>
    simp only [hm] at hs ⊢
    by_cases hlt : s.st.bal a < x
    · simp only [hlt, ↓reduceIte]; constructor
      · intro hh; exact absurd hh (by decide)
      · intro hh; omega
    · simp only [hlt, ↓reduceIte]; constructor
      · intro _; omega
      · intro _; trivial
  | some m =>
    simp only [hm] at hs ⊢
    by_cases hlt : m.balance < x
    · simp only [hlt, ↓reduceIte]; constructor
      · intro hh; exact absurd hh (by decide)
      · intro hh; omega
    · simp only [hlt, ↓reduceIte]; constructor
      · intro _; omega
      · intro _; trivial

/-- a refused reservation reserves nothing -/
theorem failed_reservation_refunds (s : State) (a : Acct) (x : Nat) (h : (budget s a x).2 ≠ .ok) :
    (budget s a x).1 = s := by
  unfold budget at h ⊢
  cases hm : s.mem a with
  | none =>
    simp only [hm] at h ⊢
    by_cases hlt : s.st.bal a < x
    · simp [hlt]
    · simp [hlt] at h
  | some m =>
    simp only [hm] at h ⊢
    by_cases hlt : m.balance < x
    · simp [hlt]
    · simp [hlt] at h

/-! ### commit and rollback -/

theorem debit3_accepts (f : Facts) (st : Store) (a : Acct) (u : Usage) (h : StoreInv f st)
    (ha : a ∈ st.accts) (hb : u.total3 ≤ st.bal a) : (st.debit3 a u).2 = .ok := by
  have hp := debit3_no_panic f st a u h
  unfold Store.debit3 at hp ⊢
  have hna : ¬ a ∉ st.accts := by simpa using ha
  have hnb : ¬ st.bal a < u.total3 := by omega
  simp only [if_neg hna, if_neg hnb] at hp ⊢
  by_cases hd : (dist3 a st.rows1 u st.c1).bad = true
  · simp [hd] at hp
  · by_cases hm : st.mBalance < u.total3
    · simp [hd, hm] at hp
    · simp [hd, hm]

/-- **commit_exact**: committing an open budget of an existing account succeeds (the funds were
reserved) and deducts exactly what was spent, from that account only. -/
theorem commit_exact (f : Facts) (s : State) (h : Good f s) (i : Bid) (b : Budget)
    (hi : s.budgets[i]? = some b) (hc : b.closed = false) (ha : b.acct ∈ s.st.accts) :
    (commit s i false).2 = .ok ∧
    b.usage.total3 ≤ s.st.bal b.acct ∧
    (commit s i false).1.st.bal = upd s.st.bal b.acct (s.st.bal b.acct - b.usage.total3) := by
  obtain ⟨hpos, hmax⟩ := open_counted s i b hi hc
  have hle := h.budgets b (List.mem_of_getElem? hi) hc
  have hov := no_overdraft f s h b.acct
  have hb : b.usage.total3 ≤ s.st.bal b.acct := by omega
  have hok := debit3_accepts f s.st b.acct b.usage h.store ha hb
  obtain ⟨_, _, _, _, he⟩ := debit3_ok_eq _ _ _ hok
  cases hm : s.mem b.acct with
  | none => have := (h.mem.none _ hm).1; omega
  | some m =>
    unfold commit
    simp only [hi, hc, Bool.false_eq_true, ↓reduceIte]
    cases hd : s.st.debit3 b.acct b.usage with
    | mk st' out =>
      rw [hd] at hok he
      simp only at hok he
      subst hok
      simp only [hm]
      exact ⟨trivial, hb, by rw [he]⟩

/-- **no double spend**: committing (or rolling back) a budget that is already closed changes nothing -/
theorem no_double_spend (s : State) (i : Bid) (b : Budget) (sf : Bool)
    (hi : s.budgets[i]? = some b) (hc : b.closed = true) :
    commit s i sf = (s, .ok) ∧ rollback s i = (s, .ok) := by
  unfold commit rollback
  simp [hi, hc]

/-- a commit that fails in the store keeps the reservation: nothing changes, it can be retried or rolled back -/
theorem failed_commit_keeps_reservation (s : State) (i : Bid) (b : Budget)
    (hi : s.budgets[i]? = some b) (hc : b.closed = false) : commit s i true = (s, .err) := by
  unfold commit
  simp [hi, hc]

/-- **rollback_refunds**: rolling back an open budget leaves the store untouched and returns the
whole reservation: the account's reservations drop by `b.max`, and on a key without unseen RHP4
deposits the spendable balance grows by exactly `b.max`. -/
theorem rollback_refunds (f : Facts) (s : State) (h : Good f s) (i : Bid) (b : Budget)
    (hi : s.budgets[i]? = some b) (hc : b.closed = false) :
    (rollback s i).2 = .ok ∧ (rollback s i).1.st = s.st ∧
    resv b.acct (rollback s i).1.budgets + b.max = resv b.acct s.budgets ∧
    (s.stale b.acct = 0 → getBalance (rollback s i).1 b.acct = getBalance s b.acct + b.max) := by
  obtain ⟨hpos, hmax⟩ := open_counted s i b hi hc
  have hg := rollback_good f s i h
  have hs := spendable_eq f s h b.acct
  have hs' := spendable_eq f _ hg b.acct
  cases hm : s.mem b.acct with
  | none => have := (h.mem.none _ hm).1; omega
  | some m =>
    have hr : rollback s i = (⟨s.st, release s.mem b.acct m b.max, s.budgets.set i ⟨b.acct, b.max, b.usage, true⟩,
                  if m.openTxns - 1 = 0 then upd s.stale b.acct 0 else s.stale⟩, .ok) := by
      unfold rollback
      simp [hi, hc, hm]
    rw [hr] at hs' ⊢
    dsimp only at hs' ⊢
    have h1 := resv_set b.acct { b with closed := true } s.budgets i b hi
    simp [Budget.w, hc] at h1
    refine ⟨rfl, rfl, by omega, ?_⟩
    intro hz
    have hst : (if m.openTxns - 1 = 0 then upd s.stale b.acct 0 else s.stale) b.acct = 0 := by
      by_cases hq : m.openTxns - 1 = 0 <;> simp [hq, hz]
    simp only [hst] at hs'
    omega

/-! ### metrics -/

/-- **metrics_eq/activeAccounts** — unconditional: the metric counts the account rows -/
theorem metrics_active_eq (f : Facts) (n1 n2 : Nat) (ops : List Op) (hw : RunWF ops) :
    (run f (init n1 n2) ops).st.mActive = (run f (init n1 n2) ops).st.accts.length :=
  (run_store f ops (init n1 n2) (storeInv_init f n1 n2) hw).accts.active

/-- **metrics_eq/accountBalance** for a tree in which `RHP4DebitAccount` lowers the metric
(`Facts.repaired`): the metric equals the sum of all balances in every reachable state. -/
theorem metrics_eq (f : Facts) (hf : f.rhp4DebitMetric = true) (n1 n2 : Nat) (ops : List Op) (hw : RunWF ops) :
    (run f (init n1 n2) ops).st.mBalance = sumBal (run f (init n1 n2) ops).st.bal (run f (init n1 n2) ops).st.accts := by
  have := (run_store f ops (init n1 n2) (storeInv_init f n1 n2) hw).metric
  simpa [hf] using this

/-- what holds on the current tree: the metric exceeds the sum of the balances by exactly the
total of the accepted RHP4 debits; so it is exact as long as no RHP4 debit of a non-zero amount
was accepted. -/
theorem metrics_eq_partial (n1 n2 : Nat) (ops : List Op) (hw : RunWF ops) :
    (run Facts.current (init n1 n2) ops).st.mBalance =
      sumBal (run Facts.current (init n1 n2) ops).st.bal (run Facts.current (init n1 n2) ops).st.accts +
      (run Facts.current (init n1 n2) ops).st.r4deb := by
  have := (run_store Facts.current ops (init n1 n2) (storeInv_init Facts.current n1 n2) hw).metric
  simpa [Facts.current] using this

/-! ### no operation panics (except the documented `Refund` misuse) -/

/-- In a state satisfying the invariant no operation other than `Refund` (whose panics on a
committed budget / on refunding more than was spent are documented) hits a panic: no
`Currency.Sub` underflows in the store, no "account missing from memory". -/
theorem no_panic (f : Facts) (s : State) (op : Op) (h : Good f s) (hop : OpOK s op)
    (hr : ∀ i u, op ≠ .refund i u) : (step f s op).2 ≠ .panic := by
  cases op with
  | credit a c amt cost r mb =>
    simp only [step, credit]
    by_cases hx : (!r && decide (mb < getBalance s a + amt)) = true
    · simp [hx]
    · simp only [hx, Bool.false_eq_true, ↓reduceIte]
      cases s.st.credit3 a c amt cost <;> simp
  | budget a amt =>
    simp only [step, budget]
    cases s.mem a <;> dsimp only <;> split <;> simp
  | spend i u =>
    simp only [step, spend]
    cases s.budgets[i]? <;> dsimp only
    · simp
    · split <;> simp
  | refund i u => exact absurd rfl (hr i u)
  | commit i sf =>
    simp only [step]
    unfold commit
    cases hi : s.budgets[i]? with
    | none => simp
    | some b =>
      dsimp only
      by_cases hc : b.closed = true
      · rw [if_pos hc]; simp
      · rw [if_neg hc]
        by_cases hsf : sf = true
        · rw [if_pos hsf]; simp
        · rw [if_neg hsf]
          have hcf : b.closed = false := by simpa using hc
          have hnp := debit3_no_panic f s.st b.acct b.usage h.store
          cases hd : s.st.debit3 b.acct b.usage with
          | mk st' out =>
            rw [hd] at hnp
            cases out with
            | missing => simp
            | insufficient => simp
            | panic => exact absurd rfl hnp
            | ok =>
              dsimp only
              obtain ⟨hpos, _⟩ := open_counted s i b hi hcf
              cases hm : s.mem b.acct with
              | none => have := (h.mem.none _ hm).1; omega
              | some m => simp
  | rollback i =>
    simp only [step]
    unfold rollback
    cases hi : s.budgets[i]? with
    | none => simp
    | some b =>
      dsimp only
      by_cases hc : b.closed = true
      · rw [if_pos hc]; simp
      · rw [if_neg hc]
        have hcf : b.closed = false := by simpa using hc
        obtain ⟨hpos, _⟩ := open_counted s i b hi hcf
        cases hm : s.mem b.acct with
        | none => have := (h.mem.none _ hm).1; omega
        | some m => simp
  | rhp4credit c deps u =>
    simp only [step, rhp4credit]
    cases s.st.credit4 c deps u <;> simp
  | rhp4debit a u =>
    simp only [step, rhp4debit]
    have hnp := debit4_no_panic f s.st a u h.store
    cases hd : s.st.debit4 f a u with
    | mk st' out =>
      rw [hd] at hnp
      cases out with
      | panic => exact absurd rfl hnp
      | missing => simp
      | insufficient => simp
      | ok => simp

/-! ### what the current code violates: concrete witnesses (replayed on the implementation by
`corpus/accounts/*.trace`) -/

/-- RHP4 deposit of 10, RHP4 debit of 4 -/
def witnessMetric : List Op :=
  [.rhp4credit 0 [(0, 10)] { accountFunding := 10 }, .rhp4debit 0 { storage := 4 }]

/-- **negation of metrics_eq/accountBalance on the current tree**: after an RHP4 debit the
metric (10) differs from the sum of the balances (6). -/
theorem metrics_eq_fails_on_current_tree :
    (run Facts.current (init 0 1) witnessMetric).st.mBalance = 10 ∧
    sumBal (run Facts.current (init 0 1) witnessMetric).st.bal (run Facts.current (init 0 1) witnessMetric).st.accts = 6 := by
  decide

/-- the same history on the repaired tree: 6 = 6 -/
theorem metrics_eq_holds_when_repaired :
    (run Facts.repaired (init 0 1) witnessMetric).st.mBalance = 6 ∧
    sumBal (run Facts.repaired (init 0 1) witnessMetric).st.bal (run Facts.repaired (init 0 1) witnessMetric).st.accts = 6 := by
  decide

/-- balance 10, RHP3 budget reserves 8, RHP4 debit of 5 on the same key -/
def witnessMixed : List Op :=
  [.rhp4credit 0 [(0, 10)] { accountFunding := 10 }, .budget 0 8, .rhp4debit 0 { storage := 5 }]

/-- **negation of no_overdraft / budget_iff for mixed-protocol keys** (any facts): the RHP4 debit
is accepted although balance − reservations = 2 < 5; afterwards 8 are reserved against a balance
of 5, the manager reports a spendable balance of 2 while the store holds 5, and committing the
fully reserved budget fails in the store. -/
theorem mixed_protocol_breaks_ledger (f : Facts) :
    let s := run f (init 0 1) witnessMixed
    resv 0 s.budgets = 8 ∧ s.st.bal 0 = 5 ∧ getBalance s 0 = 2 ∧
    (step f (step f s (.spend 0 { storage := 8 })).1 (.commit 0 false)).2 = .err := by
  cases f with
  | mk b => cases b <;> decide

/-- hence the state reached is outside the invariant: the exclusion in `ledger_inv_partial` is necessary -/
theorem mixed_protocol_not_good (f : Facts) : ¬ Good f (run f (init 0 1) witnessMixed) := by
  intro h
  have h1 := no_overdraft f _ h 0
  have h2 := mixed_protocol_breaks_ledger f
  simp only at h2
  omega

/-! ### non-vacuity: the hypotheses are met by concrete non-trivial states -/

/-- credit 10 (cap 100), two budgets, spending incl. registry categories, one commit, one rollback -/
def sample : List Op :=
  [.credit 0 0 10 1 false 100, .budget 0 6, .budget 0 3, .spend 0 { storage := 3, registryRead := 2 },
   .commit 0 false, .rollback 1]

example : RunOK Facts.current (init 1 1) sample := ⟨trivial, trivial, trivial, trivial, trivial, trivial, trivial⟩
example : RunWF sample := ⟨trivial, trivial, trivial, trivial, trivial, trivial, trivial⟩
example : Good Facts.current (run Facts.current (init 1 1) sample) :=
  ledger_inv_partial _ _ _ (good_init _ 1 1) ⟨trivial, trivial, trivial, trivial, trivial, trivial, trivial⟩
-- after the first four operations: budget 0 is open with 5 of 6 spent, the account exists (hypotheses of `commit_exact`, `rollback_refunds`)
example : (run Facts.current (init 1 1) (sample.take 4)).budgets[0]? =
    some ⟨0, 6, { storage := 3, registryRead := 2 }, false⟩ ∧ 0 ∈ (run Facts.current (init 1 1) (sample.take 4)).st.accts := by decide
-- and the result: 10 − 5 = 5 persisted, nothing reserved any more
example : (run Facts.current (init 1 1) sample).st.bal 0 = 5 ∧ resv 0 (run Facts.current (init 1 1) sample).budgets = 0 ∧
    getBalance (run Facts.current (init 1 1) sample) 0 = 5 := by decide
-- budget_iff at the boundary: with 10 held and 6 + 3 reserved exactly 1 more can be reserved
example : (budget (run Facts.current (init 1 1) (sample.take 3)) 0 1).2 = .ok ∧
    (budget (run Facts.current (init 1 1) (sample.take 3)) 0 2).2 = .insufficient := by decide
-- mixed protocol use that IS covered by the theorem: RHP4 deposit while an RHP3 budget is open, RHP4 debit after it closed
example : RunOK Facts.current (init 1 1)
    [.credit 0 0 5 0 false 100, .budget 0 5, .rhp4credit 0 [(0, 7)] { accountFunding := 7 }, .rollback 0, .rhp4debit 0 { egress := 12 }] := by
  refine ⟨trivial, trivial, rfl, trivial, ?_, trivial⟩
  show State.mem _ 0 = none
  decide

end Hostd.Accounts
