import Hostd.Model.Volumes
/-!
C09 × volumes — a failed store of a sector leaves the VolumeManager's sector cache alone.

`VolumeManager.writeSector` runs inside `StoreSector`'s callback: data write, THEN `cache.Add`.  When the
callback fails (database fault, the callback's own error, ENOSPC / I/O error of the data file) the store
rolls the slot back; the cache must then not know the sector either, otherwise `ReadSector` (cache
first) serves a root the database does not have.

In the model the cache is `State.cache`; `finish s w false` is the failing end of `StoreSector`.  The
theorems say: the failing end leaves the cache as it was (same roots, for the unrepaired tree the very
same list), so a root that was not cached before is not cached afterwards, and a root that is neither
cached nor located is `sectorNotFound` for `read` — the manager's view agrees with the database's.
The volumes harness observes the same on the real code (monitors `c09/failed_write_noop/*`: every
failed Write/StoreSector is followed by `ReadSector` of the root and `Store.SectorLocation`).
-/
namespace Hostd.Props.C09Volumes
open Hostd.Volumes

/-- the failing end of `StoreSector` does not touch the cache -/
theorem finish_fail_cache (s : State) (w : Nat) : (finish s w false).1.cache = s.cache := by
  unfold finish
  cases findPending w s.pending with
  | none => rfl
  | some p =>
    simp only [Bool.false_eq_true, if_false]
    cases findVol p.v s.vols with
    | none => rfl
    | some vol =>
      by_cases h1 : vol.used = 0
      · simp [h1]
      · by_cases h2 : s.m.physical = 0 <;> simp [h1, h2]

theorem finishChecked_fail_cache (s : State) (w : Nat) : (finishChecked s w false).1.cache = s.cache := by
  unfold finishChecked
  cases findPending w s.pending with
  | none => rfl
  | some p =>
    simp only [Bool.false_eq_true, if_false]
    split
    · split
      · exact finish_fail_cache s w
      · rfl
    · rfl

theorem finishF_fail_cache (f : Facts) (s : State) (w : Nat) : (finishF f s w false).1.cache = s.cache := by
  unfold finishF
  split
  · exact finishChecked_fail_cache s w
  · exact finish_fail_cache s w

/-- the failing end of `StoreSector` leaves the heap (every buffer a caller holds) alone -/
theorem finish_fail_heap (s : State) (w : Nat) : (finish s w false).1.heap = s.heap := by
  unfold finish
  cases findPending w s.pending with
  | none => rfl
  | some p =>
    simp only [Bool.false_eq_true, if_false]
    cases findVol p.v s.vols with
    | none => rfl
    | some vol =>
      by_cases h1 : vol.used = 0
      · simp [h1]
      · by_cases h2 : s.m.physical = 0 <;> simp [h1, h2]

/-- copy semantics re-point the entries, the cached ROOTS stay the same -/
theorem unaliasGo_keys (cache : List (SectorId × BufId)) : ∀ heap : List Content,
    (unaliasGo heap cache).2.map Prod.fst = cache.map Prod.fst := by
  induction cache with
  | nil => intro heap; simp [unaliasGo]
  | cons x xs ih =>
    intro heap
    obtain ⟨r, b⟩ := x
    simp only [unaliasGo, List.map_cons]
    rw [ih]

theorem fixCache_keys (f : Facts) (s : State) : (fixCache f s).cache.map Prod.fst = s.cache.map Prod.fst := by
  unfold fixCache
  split
  · exact unaliasGo_keys s.cache s.heap
  · rfl

/-- **C09 (volumes), cache roots.**  In every tree the model describes (`Facts` arbitrary: before and
after the repairs) a failed store leaves the set of cached roots exactly as it was. -/
theorem C09_failed_store_cache_keys (f : Facts) (s : State) (w : Nat) :
    (stepF f s (.finish w false)).1.cache.map Prod.fst = s.cache.map Prod.fst := by
  simp only [stepF]
  rw [fixCache_keys, finishF_fail_cache]

/-- without copy semantics the cache is literally unchanged -/
theorem C09_failed_store_cache_same (f : Facts) (h : f.cacheCopies = false) (s : State) (w : Nat) :
    (stepF f s (.finish w false)).1.cache = s.cache := by
  simp only [stepF, fixCache, h]
  exact finishF_fail_cache f s w

theorem cacheGet_none_iff (r : SectorId) : ∀ c : List (SectorId × BufId),
    cacheGet r c = none ↔ r ∉ c.map Prod.fst := by
  intro c
  induction c with
  | nil => simp [cacheGet]
  | cons x xs ih =>
    obtain ⟨k, b⟩ := x
    simp only [cacheGet, List.map_cons, List.mem_cons, not_or]
    by_cases hk : k = r
    · simp [hk]
    · simp only [hk, if_false]
      rw [ih]
      constructor
      · intro h; exact ⟨fun e => hk e.symm, h⟩
      · intro h; exact h.2

/-- a root that was not cached before its store failed is not cached afterwards -/
theorem C09_failed_store_not_cached (f : Facts) (s : State) (w : Nat) (r : SectorId)
    (h : cacheGet r s.cache = none) : cacheGet r (stepF f s (.finish w false)).1.cache = none := by
  rw [cacheGet_none_iff] at h ⊢
  rw [C09_failed_store_cache_keys]
  exact h

/-- `ReadSector` of a root that is neither cached nor located: not found, nothing changes but the
recency list -/
theorem read_uncached_unlocated (s : State) (r : SectorId) (hc : cacheGet r s.cache = none)
    (hl : findLoc s.vols r = none) : (Hostd.Volumes.read s r).2 = .sectorNotFound := by
  unfold Hostd.Volumes.read
  simp only [hc]
  split
  · rfl
  · simp [hl]

/-- **C09 (volumes), read-back.**  A store of a root that was not cached fails; if the database has
no location for the root afterwards (what the rollback establishes, C08), `ReadSector` does not find
it either: cache and database agree. -/
theorem C09_failed_store_read_agrees (f : Facts) (s : State) (w : Nat) (r : SectorId)
    (hc : cacheGet r s.cache = none)
    (hl : findLoc (stepF f s (.finish w false)).1.vols r = none) :
    (Hostd.Volumes.read (stepF f s (.finish w false)).1 r).2 = .sectorNotFound :=
  read_uncached_unlocated _ r (C09_failed_store_not_cached f s w r hc) hl

/-! ### the variant the monitor exists for: `cache.Add` ahead of the data write -/

/-- `writeSector` with the cache filled BEFORE the data write: the failing end keeps the entry -/
def finishCacheFirst (s : State) (w : Nat) : State × Res :=
  match findPending w s.pending with
  | none => finish s w false
  | some p => let res := finish s w false
              ({ res.1 with cache := cacheAdd s.cacheSize p.r p.buf s.cache }, res.2)

def failedUpload : State :=
  run Facts.code (init 4) [.vmAddVolume 1 3, .newBuf (.dataOf 1), .reserve 0 1 0 (some (1, 0))]

/-- with the cache filled first, the failed store of root 1 is rolled back in the database and still
served from the cache -/
theorem C09_cache_first_witness :
    findLoc (finishCacheFirst failedUpload 0).1.vols 1 = none ∧
    (Hostd.Volumes.read (finishCacheFirst failedUpload 0).1 1).2 = .buf 0 := by decide

/-- the code's order: not found through the manager as well -/
theorem C09_cache_after_write_ok :
    findLoc (stepF Facts.code failedUpload (.finish 0 false)).1.vols 1 = none ∧
    (Hostd.Volumes.read (stepF Facts.code failedUpload (.finish 0 false)).1 1).2 = .sectorNotFound ∧
    findLoc (stepF Facts.fixed2 failedUpload (.finish 0 false)).1.vols 1 = none ∧
    (Hostd.Volumes.read (stepF Facts.fixed2 failedUpload (.finish 0 false)).1 1).2 = .sectorNotFound := by decide

end Hostd.Props.C09Volumes
