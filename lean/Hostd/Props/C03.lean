import Hostd.Lemmas.SectorsOps
/-!
C03 — Contract sector list equals what the signed revision commits to.

All theorems are about `Hostd.Sectors` (Model/Sectors.lean), the model the driver `drv_sectors`
executes against the implementation's observations.  `H`, `metaRoot`, `zeroH`, `sectorSize`, `maxRev`
are arbitrary (`Params H`): the Merkle hash is opaque.  Helper lemmas: Lemmas/Sectors*.lean.
-/
set_option linter.unusedSectionVars false
set_option linter.unusedSimpArgs false
namespace Hostd.Sectors
variable {H : Type} [DecidableEq H]

/-! ### updater_store_agree -/

/-- For every cached list and every batch of updater calls: the actions the updater recorded, replayed by
the store on the rows of the cached list (starting from the updater's `oldRoots`), pass every cross check and
leave exactly the rows of the updater's private copy — provided the appended / updated roots are stored. -/
theorem updater_store_agree (stored cached : List Root) (acts : List Action)
    (hs : ∀ a ∈ ((Updater.new cached).run acts).1.actions, a.storedOK stored = true) :
    ((Updater.new cached).run acts).1.old = cached ∧
    replayAll stored { rows := mkRows 0 cached, sectors := cached.length, roots := cached }
        ((Updater.new cached).run acts).1.actions =
      .ok { rows := mkRows 0 ((Updater.new cached).run acts).1.roots,
            sectors := ((Updater.new cached).run acts).1.roots.length,
            roots := ((Updater.new cached).run acts).1.roots } := by
  have hrun := Updater.run_eq (Updater.new cached) acts
  rw [hrun] at hs ⊢
  simp only [Updater.new, List.nil_append] at hs ⊢
  refine ⟨by first | rfl | trivial, ?_⟩
  have := replayAll_record stored cached acts
  simp only [mirror] at this
  rw [this, if_pos]
  simpa using hs

/-- Without any assumption on `stored_sectors` the replay never diverges from the updater: it either
reproduces the updater's result or rejects (never a panic, never different rows). -/
theorem updater_store_never_diverge (stored cached : List Root) (acts : List Action) :
    replayAll stored { rows := mkRows 0 cached, sectors := cached.length, roots := cached }
        ((Updater.new cached).run acts).1.actions =
      .ok { rows := mkRows 0 ((Updater.new cached).run acts).1.roots,
            sectors := ((Updater.new cached).run acts).1.roots.length,
            roots := ((Updater.new cached).run acts).1.roots } ∨
    replayAll stored { rows := mkRows 0 cached, sectors := cached.length, roots := cached }
        ((Updater.new cached).run acts).1.actions = .reject := by
  have hrun := Updater.run_eq (Updater.new cached) acts
  rw [hrun]
  simp only [Updater.new, List.nil_append]
  have := replayAll_record stored cached acts
  simp only [mirror] at this
  rw [this]
  by_cases h : ((record cached acts).1.all fun x => Action.storedOK stored x) = true
  · left; rw [if_pos h]
  · right; rw [if_neg h]

/-- The updater's bounds checks are exactly the list semantics: an accepted call has the stated effect. -/
theorem updater_action_semantics (l : List Root) :
    (∀ r, applyAction l (.append r) = some (l ++ [r])) ∧
    (∀ n, n ≤ l.length → applyAction l (.trim n) = some (l.take (l.length - n))) ∧
    (∀ n, l.length < n → applyAction l (.trim n) = none) ∧
    (∀ i r, i < l.length → applyAction l (.update i r) = some (l.set i r)) ∧
    (∀ i r, l.length ≤ i → applyAction l (.update i r) = none) ∧
    (∀ a b (ha : a < l.length) (hb : b < l.length), applyAction l (.swap a b) = some ((l.set a l[b]).set b l[a])) ∧
    (∀ a b, l.length ≤ a ∨ l.length ≤ b → applyAction l (.swap a b) = none) := by
  refine ⟨fun r => rfl, ?_, ?_, ?_, ?_, ?_, ?_⟩
  · intro n h; simp [applyAction]; omega
  · intro n h; simp [applyAction, h]
  · intro i r h; simp [applyAction]; omega
  · intro i r h; simp [applyAction, h]
  · intro a b ha hb; simp [applyAction, ha, hb]
  · intro a b h; simp [applyAction]; omega

/-! ### rows_contiguous, v2_diff_writer -/

/-- In every reachable world the rows of every contract carry the indices 0..n-1 in order
(so `ORDER BY root_index` loads the list, and there are neither gaps nor duplicates). -/
theorem rows_contiguous (P : Params H) (ops : List (Op H)) (hops : ∀ op ∈ ops, OpOK P op) :
    ∀ c ∈ (run P World.empty ops).db.contracts,
      c.rows = mkRows 0 (load c.rows) ∧ c.rows.map (·.1) = List.range c.rows.length := by
  have g := run_good P World.empty (Good.empty P) ops hops
  intro c hc
  have key : ∃ l, c.rows = mkRows 0 l := by
    cases hr : c.renewedTo with
    | none => exact ⟨_, (g.live c hc hr).1⟩
    | some s => exact ⟨[], (g.dead c hc s hr).1⟩
  obtain ⟨l, hl⟩ := key
  rw [hl, load_mkRows, map_fst_mkRows, mkRows_length, List.range_eq_range']
  exact ⟨rfl, rfl⟩

/-- `updateV2ContractSectors old new` applied to the rows of `old` leaves exactly the rows of `new`. -/
theorem v2_diff_writer (stored old new : List Root) (hs : ∀ r ∈ new, r ∈ stored) :
    updateV2Sectors stored (mkRows 0 old) old new = .ok (mkRows 0 new) :=
  updateV2Sectors_spec stored old new hs

/-- … and with no assumption on `stored_sectors` it yields exactly `new` or rejects. -/
theorem v2_diff_writer_total (stored old new : List Root) :
    updateV2Sectors stored (mkRows 0 old) old new = .ok (mkRows 0 new) ∨
    updateV2Sectors stored (mkRows 0 old) old new = .reject :=
  updateV2Sectors_cases stored old new

/-! ### commit_sets_size_root -/

/-- After an accepted v1 RPC (Lock, updater calls, Commit) the persisted contract holds the updater's list:
rows = rows of that list, cache = that list, filesize = sectorSize·length, merkleRoot = metaRoot(list),
revision number = the signed one. -/
theorem commit_sets_size_root_v1 (P : Params H) (w : World H) (g : Good P w) (id : Nat) (acts : List Action)
    (rn : Nat) (abort : Bool) (fault : Option Nat)
    (h : (stepOp P w (.rpc1 id acts rn abort fault)).2.1.accepted = true) :
    ∃ c', findC (stepOp P w (.rpc1 id acts rn abort fault)).1.db.contracts id = some c' ∧
      load c'.rows = (record (cacheGet w.cache id) acts).2 ∧
      cacheGet (stepOp P w (.rpc1 id acts rn abort fault)).1.cache id = load c'.rows ∧
      c'.rev.filesize = P.sectorSize * (load c'.rows).length ∧
      c'.rev.merkle = P.metaRoot (load c'.rows) ∧ c'.rev.number = rn := by
  have e := step_effect P w g (.rpc1 id acts rn abort fault) trivial
  generalize (stepOp P w (.rpc1 id acts rn abort fault)).1 = w' at e h ⊢
  generalize (stepOp P w (.rpc1 id acts rn abort fault)).2.1.accepted = a at e h
  cases e with
  | unchanged => cases h
  | commit1 _ _ _ _ _ c hc hv hl hnum =>
    refine ⟨_, findC_committed w id c hc _ _, ?_⟩
    simp [load_mkRows, committed, cacheGet_set]

/-- After an accepted `ReviseV2Contract` the persisted contract holds exactly `newRoots`, and the validated
revision commits to it. -/
theorem commit_sets_size_root_v2 (P : Params H) (w : World H) (g : Good P w) (id : Nat) (r : V2Revision H)
    (nr : List Root) (fault : Option Nat)
    (h : (stepOp P w (.rev2 id r nr fault)).2.1.accepted = true) :
    ∃ c', findC (stepOp P w (.rev2 id r nr fault)).1.db.contracts id = some c' ∧
      load c'.rows = nr ∧
      cacheGet (stepOp P w (.rev2 id r nr fault)).1.cache id = nr ∧
      c'.rev = r.rev ∧
      c'.rev.filesize = P.sectorSize * nr.length ∧ c'.rev.merkle = P.metaRoot nr ∧
      c'.rev.filesize ≤ c'.rev.capacity := by
  have e := step_effect P w g (.rev2 id r nr fault) trivial
  generalize (stepOp P w (.rev2 id r nr fault)).1 = w' at e h ⊢
  generalize (stepOp P w (.rev2 id r nr fault)).2.1.accepted = a at e h
  cases e with
  | unchanged => cases h
  | commit2 _ _ _ _ c hc hv hl hfs hmk hcap =>
    refine ⟨_, findC_committed w id c hc _ _, ?_⟩
    simp [load_mkRows, committed, cacheGet_set, hfs, hmk, hcap]
    rw [← hfs]; exact hcap

/-- "The store does not reject": a v1 batch on a usable contract whose appended / updated roots are stored,
with no injected failure, is accepted. -/
theorem commit_accepted_v1 (P : Params H) (w : World H) (g : Good P w) (id : Nat) (acts : List Action) (rn : Nat)
    (hlk : lockV1 w P id = true)
    (hs : ∀ a ∈ (record (cacheGet w.cache id) acts).1, a.storedOK w.db.stored = true) :
    (stepOp P w (.rpc1 id acts rn false none)).2.1.accepted = true :=
  rpc1_accepted_of_stored P w g id acts rn hlk hs

/-- … and so is a valid `ReviseV2Contract` whose new roots are stored. -/
theorem commit_accepted_v2 (P : Params H) (w : World H) (g : Good P w) (id : Nat) (c : Contract H)
    (hc : findC w.db.contracts id = some c) (hv : c.v2 = true) (hl : c.renewedTo = none)
    (r : V2Revision H) (nr : List Root)
    (hk : r.sameKeys = true) (hsig : r.sigsOK = true)
    (hfs : r.rev.filesize = P.sectorSize * nr.length) (hcap : r.rev.filesize ≤ r.rev.capacity)
    (hmk : r.rev.merkle = P.metaRoot nr) (hs : ∀ x ∈ nr, x ∈ w.db.stored) :
    (stepOp P w (.rev2 id r nr none)).2.1.accepted = true :=
  rev2_accepted_of_valid P w g id c hc hv hl r nr hk hsig hfs hcap hmk hs

/-! ### failed_commit_noop -/

/-- Any operation that is not accepted (validation, lock refusal, updater error, store rejection, panic, or
an injected statement failure) leaves rows, revisions, links, `stored_sectors` and the cache exactly as they were:
the cache is only written after the store call returned nil. -/
theorem failed_commit_noop (P : Params H) (w : World H) (g : Good P w) (op : Op H) (hop : OpOK P op)
    (h : (stepOp P w op).2.1.accepted = false) : (stepOp P w op).1 = w :=
  step_unchanged P w g op hop h

/-- A statement failure at ANY index of the commit transaction (the contract update, each replayed action,
COMMIT itself) makes the commit fail — and by `failed_commit_noop` nothing changes. -/
theorem fault_at_any_statement_fails_v1 (db : DB H) (id : Nat) (rev : Rev H) (old : List Root)
    (acts : List Action) (j : Nat) (hj : j ≤ acts.length + 1) :
    ∀ d, storeReviseV1 db id rev old acts (some j) ≠ .ok d := by
  intro d
  unfold storeReviseV1
  have := runSteps_fault_fires (reviseFirst id rev old :: acts.map reviseAct) j 0
    (db, ({ rows := [], sectors := 0, roots := [] } : Replay)) (Nat.zero_le _) (by simp; omega)
  cases hr : runSteps (reviseFirst id rev old :: acts.map reviseAct) (some j) 0
      (db, ({ rows := [], sectors := 0, roots := [] } : Replay)) with
  | ok s => exact absurd hr (this s)
  | reject => simp
  | panic => simp
  | injected => simp

theorem fault_at_any_statement_fails_v2 (db : DB H) (id : Nat) (rev : Rev H) (old new : List Root)
    (j : Nat) (hj : j ≤ 2) : ∀ d, storeReviseV2 db id rev old new (some j) ≠ .ok d := by
  intro d
  unfold storeReviseV2
  exact runSteps_fault_fires _ j 0 db (Nat.zero_le _) (by simpa using hj) d

/-- … therefore the manager call fails and the world is untouched, for every failure index. -/
theorem failed_commit_noop_any_index_v1 (P : Params H) (w : World H) (id : Nat) (acts : List Action) (rn : Nat)
    (j : Nat) (hj : j ≤ ((Updater.new (cacheGet w.cache id)).run acts).1.actions.length + 1) :
    (rpcV1 P w id acts rn (some j)).2.1 ≠ .ok () ∧ (rpcV1 P w id acts rn (some j)).1 = w := by
  have key : (rpcV1 P w id acts rn (some j)).2.1 ≠ .ok () := by
    unfold rpcV1
    simp only
    rcases hr : (Updater.new (cacheGet w.cache id)).run acts with ⟨u, oks⟩
    rw [hr] at hj
    simp only at hj ⊢
    cases hst : storeReviseV1 w.db id _ u.old u.actions (some j) with
    | ok d => exact absurd hst (fault_at_any_statement_fails_v1 w.db id _ u.old u.actions j hj d)
    | reject => simp
    | panic => simp
    | injected => simp
  exact ⟨key, rpcV1_fail P w id acts rn (some j) key⟩

theorem failed_commit_noop_any_index_v2 (P : Params H) (w : World H) (id : Nat) (r : V2Revision H) (nr : List Root)
    (j : Nat) (hj : j ≤ 2) :
    (reviseV2 P w id r nr (some j)).2 ≠ .ok () ∧ (reviseV2 P w id r nr (some j)).1 = w := by
  have key : (reviseV2 P w id r nr (some j)).2 ≠ .ok () := by
    unfold reviseV2
    repeat' split
    all_goals first
      | (simp; done)
      | (cases hst : storeReviseV2 w.db id r.rev (cacheGet w.cache id) nr (some j) with
         | ok d => exact absurd hst (fault_at_any_statement_fails_v2 w.db id r.rev _ nr j hj d)
         | reject => simp
         | panic => simp
         | injected => simp)
      | (cases hst : storeReviseV2 w.db id r.rev (cacheGet w.cache id) nr (some j) with
         | ok d => exact absurd hst (fault_at_any_statement_fails_v2 w.db id r.rev _ nr j hj d)
         | reject => simp [hst]
         | panic => simp [hst]
         | injected => simp [hst])
  exact ⟨key, reviseV2_fail P w id r nr (some j) key⟩

/-! ### restart_same -/

/-- A fresh `NewManager` on the same database: nothing persisted changes and every non-superseded contract is
served the same list as before, which is the persisted one. -/
theorem restart_same (P : Params H) (w : World H) (g : Good P w) :
    (restart w).db = w.db ∧
    ∀ c ∈ w.db.contracts, c.renewedTo = none →
      cacheGet (restart w).cache c.id = cacheGet w.cache c.id ∧
      cacheGet (restart w).cache c.id = load c.rows := by
  refine ⟨rfl, ?_⟩
  intro c hc hl
  have e := restart_same_live P w g c hc hl
  refine ⟨e, ?_⟩
  rw [e, (g.live c hc hl).1, load_mkRows]

/-! ### lock_view_matches_revision: the value returned by Lock / LockV2Contract, also after a hand-off -/

/-- **v1.** What `Manager.Lock` + `ReviseContract` hand to a session — the persisted revision and the roots the
updater starts from — belong together: the contract is not superseded, the roots are the persisted list, and
the revision commits to them (size and Merkle root). -/
theorem lock_view_matches_revision_v1 (P : Params H) (w : World H) (g : Good P w) (id : Nat)
    (rev : Rev H) (roots : List Root) (h : lockViewV1 P w id = some (rev, roots)) :
    ∃ c, findC w.db.contracts id = some c ∧ c.renewedTo = none ∧ rev = c.rev ∧ roots = load c.rows ∧
      rev.filesize = P.sectorSize * roots.length ∧ rev.merkle = P.metaRoot roots := by
  unfold lockViewV1 at h
  by_cases hlk : lockV1 w P id = true
  · obtain ⟨c, hc, hv, hl, _⟩ := lockV1_live P w g id hlk
    simp only [hlk, if_true, hc, Option.some.injEq, Prod.mk.injEq] at h
    obtain ⟨h1, h2⟩ := h
    have hlive := g.live c (findC_some hc).1 hl
    rw [(findC_some hc).2] at hlive
    subst h1; subst h2
    exact ⟨c, hc, hl, rfl, by rw [hlive.1, load_mkRows], hlive.2.1, hlive.2.2⟩
  · simp [hlk] at h

/-- **v2.** What `LockV2Contract` returns for a contract that is not renewed: Roots are the persisted list and
Revision commits to them. -/
theorem lock_view_matches_revision_v2 (P : Params H) (w : World H) (g : Good P w) (id : Nat) (heightOK : Bool)
    (rev : Rev H) (revisable : Bool) (roots : List Root)
    (h : lockViewV2 w id heightOK = some (rev, false, revisable, roots)) :
    ∃ c, findC w.db.contracts id = some c ∧ c.renewedTo = none ∧ rev = c.rev ∧ roots = load c.rows ∧
      revisable = heightOK ∧
      rev.filesize = P.sectorSize * roots.length ∧ rev.merkle = P.metaRoot roots := by
  unfold lockViewV2 at h
  cases hc : findC w.db.contracts id with
  | none => simp [hc] at h
  | some c =>
    simp only [hc] at h
    by_cases hv : c.v2 = true
    · simp only [hv, Bool.not_true, Bool.false_eq_true, if_false, Option.some.injEq, Prod.mk.injEq] at h
      obtain ⟨h1, h2, h3, h4⟩ := h
      have hl : c.renewedTo = none := by
        cases hr : c.renewedTo with
        | none => rfl
        | some s => rw [hr] at h2; simp at h2
      have hlive := g.live c (findC_some hc).1 hl
      rw [(findC_some hc).2] at hlive
      subst h1; subst h4
      refine ⟨c, rfl, hl, rfl, by rw [hlive.1, load_mkRows], ?_, hlive.2.1, hlive.2.2⟩
      rw [← h3]; simp [hl]
    · simp [hv] at h

/-- **Hand-off.** A caller queued behind a holder that revises the roots (any action batch or replacement), fails
a revision, renews, or does anything else: the view the waiter receives is computed in the world the holder
left, which is good again, so it matches the revision it comes with; and if the holder's operation was not
accepted the waiter receives exactly what it would have received without waiting. -/
theorem lock_view_after_handoff_v2 (P : Params H) (w : World H) (g : Good P w) (holder : Op H) (hop : OpOK P holder)
    (id : Nat) (heightOK : Bool) :
    Good P (handOff P w holder fun w' => lockViewV2 w' id heightOK).1 ∧
    (∀ rev revisable roots,
      (handOff P w holder fun w' => lockViewV2 w' id heightOK).2 = some (rev, false, revisable, roots) →
      rev.filesize = P.sectorSize * roots.length ∧ rev.merkle = P.metaRoot roots ∧
      ∃ c, findC (stepOp P w holder).1.db.contracts id = some c ∧ roots = load c.rows ∧ rev = c.rev) ∧
    ((stepOp P w holder).2.1.accepted = false →
      (handOff P w holder fun w' => lockViewV2 w' id heightOK).2 = lockViewV2 w id heightOK) := by
  have g' := step_good P w g holder hop
  refine ⟨g', ?_, ?_⟩
  · intro rev revisable roots h
    obtain ⟨c, hc, _, h1, h2, _, h3, h4⟩ := lock_view_matches_revision_v2 P _ g' id heightOK rev revisable roots h
    exact ⟨h3, h4, c, hc, h2, h1⟩
  · intro h
    simp only [handOff]
    rw [step_unchanged P w g holder hop h]

theorem lock_view_after_handoff_v1 (P : Params H) (w : World H) (g : Good P w) (holder : Op H) (hop : OpOK P holder)
    (id : Nat) :
    Good P (handOff P w holder fun w' => lockViewV1 P w' id).1 ∧
    (∀ rev roots,
      (handOff P w holder fun w' => lockViewV1 P w' id).2 = some (rev, roots) →
      rev.filesize = P.sectorSize * roots.length ∧ rev.merkle = P.metaRoot roots ∧
      ∃ c, findC (stepOp P w holder).1.db.contracts id = some c ∧ roots = load c.rows ∧ rev = c.rev) ∧
    ((stepOp P w holder).2.1.accepted = false →
      (handOff P w holder fun w' => lockViewV1 P w' id).2 = lockViewV1 P w id) := by
  have g' := step_good P w g holder hop
  refine ⟨g', ?_, ?_⟩
  · intro rev roots h
    obtain ⟨c, hc, _, h1, h2, h3, h4⟩ := lock_view_matches_revision_v1 P _ g' id rev roots h
    exact ⟨h3, h4, c, hc, h2, h1⟩
  · intro h
    simp only [handOff]
    rw [step_unchanged P w g holder hop h]

/-- After a holder's accepted v2 replacement the waiter is handed exactly the new list (not the one that was
cached when it started to wait). -/
theorem waiter_sees_new_roots_v2 (P : Params H) (w : World H) (g : Good P w) (id : Nat) (r : V2Revision H)
    (nr : List Root) (fault : Option Nat) (heightOK : Bool)
    (h : (stepOp P w (.rev2 id r nr fault)).2.1.accepted = true) :
    (handOff P w (.rev2 id r nr fault) fun w' => lockViewV2 w' id heightOK).2 = some (r.rev, false, heightOK, nr) := by
  have e := step_effect P w g (.rev2 id r nr fault) trivial
  simp only [handOff]
  generalize (stepOp P w (.rev2 id r nr fault)).1 = w' at e ⊢
  generalize (stepOp P w (.rev2 id r nr fault)).2.1.accepted = a at e h
  cases e with
  | unchanged => cases h
  | commit2 _ _ _ _ c hc hv hl hfs hmk hcap =>
    have hf := findC_committed w id c hc r.rev nr
    simp only [committed] at hf
    simp [lockViewV2, committed, hf, hv, hl, cacheGet_set]

/-! ### headline: the three lists coincide for every history -/

/-- The list implied by the sequence of accepted modifications, per contract: computed from the outcomes
(`accepted` or not) and the requested modifications alone — append / swap / trim / update applied to the
implied list (`record`), replacement by the new list, hand-over to the successor on a renewal. -/
def specStep (P : Params H) (w : World H) (spec : Cache) (op : Op H) : Cache :=
  if (stepOp P w op).2.1.accepted then
    match op with
    | .form id _ _ _ => cacheSet spec id []
    | .rpc1 id acts _ _ _ => cacheSet spec id (record (cacheGet spec id) acts).2
    | .rev2 id _ nr _ => cacheSet spec id nr
    | .renew1 old new _ _ _ => cacheSet spec new (cacheGet spec old)
    | .renew2 old new _ _ _ => cacheSet spec new (cacheGet spec old)
    | .store _ => spec
    | .restart => spec
  else spec

def implied (P : Params H) : World H → Cache → List (Op H) → Cache
  | _, s, [] => s
  | w, s, op :: rest => implied P (stepOp P w op).1 (specStep P w s op) rest

/-- the served list equals the implied list for every non-superseded contract -/
def Agree (w : World H) (spec : Cache) : Prop :=
  ∀ c ∈ w.db.contracts, c.renewedTo = none → cacheGet w.cache c.id = cacheGet spec c.id

theorem agree_committed (w : World H) (spec : Cache) (ha : Agree w spec) (id : Nat) (rev' : Rev H) (l' : List Root) :
    Agree (committed w id rev' l') (cacheSet spec id l') := by
  intro c' hc' hl'
  simp only [committed] at hc' ⊢
  rcases mem_mapC hc' with ⟨c0, h0, rfl⟩
  by_cases e : c0.id = id
  · simp [e, cacheGet_set]
  · have hne : ¬ id = c0.id := fun h => e h.symm
    simp only [e, if_false, cacheGet_set, hne] at hl' ⊢
    exact ha c0 h0 hl'

theorem agree_renewed (w : World H) (spec : Cache) (ha : Agree w spec) (v2 : Bool) (old new : Nat) (o : Contract H)
    (ho : findC w.db.contracts old = some o) (hl : o.renewedTo = none)
    (hn : findC w.db.contracts new = none) (newRev : Rev H) (clr : Option (Rev H)) :
    Agree (renewedWorld w v2 old new o newRev clr) (cacheSet spec new (cacheGet spec old)) := by
  have hnone := findC_none hn
  intro c' hc' hl'
  simp only [renewedWorld] at hc' ⊢
  rcases List.mem_append.mp hc' with hm | hm
  · rcases mem_mapC hm with ⟨c0, h0, rfl⟩
    by_cases e : c0.id = old
    · simp [e, superseded] at hl'
    · have hne : ¬ new = c0.id := fun h => hnone c0 h0 h.symm
      simp only [e, if_false, cacheGet_set, hne] at hl' ⊢
      exact ha c0 h0 hl'
  · simp only [List.mem_singleton] at hm
    subst hm
    simp only [successor, cacheGet_set, if_true]
    have := ha o (findC_some ho).1 hl
    rwa [(findC_some ho).2] at this

theorem agree_step (P : Params H) (w : World H) (g : Good P w) (spec : Cache) (ha : Agree w spec)
    (op : Op H) (hop : OpOK P op) : Agree (stepOp P w op).1 (specStep P w spec op) := by
  have e := step_effect P w g op hop
  unfold specStep
  generalize (stepOp P w op).1 = w' at e ⊢
  generalize (stepOp P w op).2.1.accepted = a at e ⊢
  cases e with
  | unchanged => simpa using ha
  | stored r =>
    simp only [if_true]
    intro c hc hl
    have : (storeSector w r).db.contracts = w.db.contracts ∧ (storeSector w r).cache = w.cache := by
      unfold storeSector; split <;> simp
    rw [this.1] at hc
    rw [this.2]
    exact ha c hc hl
  | restarted =>
    simp only [if_true]
    intro c hc hl
    rw [restart_same_live P w g c hc hl]
    exact ha c hc hl
  | formed id v2 rev fault hn hfs hmk =>
    simp only [if_true]
    intro c' hc' hl'
    have hnone := findC_none hn
    rcases List.mem_append.mp hc' with hm | hm
    · have hne : ¬ id = c'.id := fun h => hnone c' hm h.symm
      simp only [cacheGet_set, hne, if_false]
      exact ha c' hm hl'
    · simp only [List.mem_singleton] at hm
      subst hm
      simp [cacheGet_set, g.cached id hn]
  | commit1 id acts rn abort fault c hc hv hl hnum =>
    simp only [if_true]
    have hcg : cacheGet w.cache id = cacheGet spec id := by
      have := ha c (findC_some hc).1 hl
      rwa [(findC_some hc).2] at this
    rw [← hcg]
    exact agree_committed w spec ha id _ _
  | commit2 id r nr fault c hc hv hl hfs hmk hcap =>
    simp only [if_true]
    exact agree_committed w spec ha id _ _
  | renewed1 old new renewal clearing fault c hc hv hl hn hfs hmk hnum =>
    simp only [if_true]
    exact agree_renewed w spec ha false old new c hc hl hn _ _
  | renewed2 old new fc force fault c hc hv hl hn hfs hmk hcap =>
    simp only [if_true]
    exact agree_renewed w spec ha true old new c hc hl hn _ _

theorem run_cons (P : Params H) (w : World H) (op : Op H) (rest : List (Op H)) :
    run P w (op :: rest) = run P (stepOp P w op).1 rest := by
  simp [run]

theorem agree_run (P : Params H) (w : World H) (g : Good P w) (spec : Cache) (ha : Agree w spec)
    (ops : List (Op H)) (hops : ∀ op ∈ ops, OpOK P op) : Agree (run P w ops) (implied P w spec ops) := by
  induction ops generalizing w spec with
  | nil => simpa [run, implied] using ha
  | cons op rest ih =>
    rw [run_cons]
    simp only [implied]
    have hop := hops op List.mem_cons_self
    exact ih _ (step_good P w g op hop) _ (agree_step P w g spec ha op hop)
      (fun o ho => hops o (List.mem_cons_of_mem _ ho))

/-- **C03.** For every history of formations, v1 updater batches (one or many commits, any actions), v2
root-list replacements, renewals, stored sectors, restarts, rejected and failed operations (a statement
failure at any index), over any number of contracts sharing roots, and for every contract that has not been
superseded by a renewal:
the persisted list (rows loaded in `root_index` order), the list served from memory and the list implied by
the accepted modifications are identical; its length times the sector size is the persisted file size and its
Merkle root is the persisted file Merkle root; and a fresh manager on the same database serves the same list. -/
theorem C03_three_lists_equal (P : Params H) (ops : List (Op H)) (hops : ∀ op ∈ ops, OpOK P op) :
    ∀ c ∈ (run P World.empty ops).db.contracts, c.renewedTo = none →
      load c.rows = cacheGet (run P World.empty ops).cache c.id ∧
      cacheGet (run P World.empty ops).cache c.id = cacheGet (implied P World.empty [] ops) c.id ∧
      c.rev.filesize = P.sectorSize * (load c.rows).length ∧
      c.rev.merkle = P.metaRoot (load c.rows) ∧
      cacheGet (restart (run P World.empty ops)).cache c.id = load c.rows := by
  have g := run_good P World.empty (Good.empty P) ops hops
  have ha : Agree (World.empty : World H) [] := by intro c hc; simp [World.empty] at hc
  have hag := agree_run P World.empty (Good.empty P) [] ha ops hops
  intro c hc hl
  obtain ⟨hr, hfs, hmk⟩ := g.live c hc hl
  have hload : load c.rows = cacheGet (run P World.empty ops).cache c.id := by rw [hr, load_mkRows]
  refine ⟨hload, hag c hc hl, ?_, ?_, ?_⟩
  · rw [hload]; exact hfs
  · rw [hload]; exact hmk
  · exact ((restart_same P _ g).2 c hc hl).2

/-! ### non-vacuity: concrete worlds meeting the hypotheses -/

section Examples

/-- a toy instance: the "Merkle root" of a list is the list itself -/
def P0 : Params (List Nat) := { sectorSize := 4, maxRev := 1000, metaRoot := id, zeroH := [] }

def rev0 : Rev (List Nat) := { number := 0, filesize := 0, capacity := 0, merkle := [] }

def hist0 : List (Op (List Nat)) :=
  [.store 7, .store 8, .form 1 false rev0 none,
   .rpc1 1 [.append 7, .append 8, .swap 0 1, .trim 1, .update 0 7, .append 9] 1 false none,   -- root 9 is not stored
   .rpc1 1 [.append 7, .append 8, .swap 1 0, .swap 0 0, .trim 0, .update 0 7] 2 false none,
   .rpc1 1 [.append 8] 3 false (some 1),                                                      -- injected failure
   .renew1 1 2 { number := 0, filesize := 8, capacity := 0, merkle := [7, 7] }
               { number := 1000, filesize := 0, capacity := 0, merkle := [] } none,
   .rpc1 1 [.append 8] 4 false none,                                                          -- predecessor: refused
   .rpc1 2 [.trim 2] 1 false none]

example : ∀ op ∈ hist0, OpOK P0 op := by
  intro op h
  simp only [hist0, List.mem_cons, List.not_mem_nil, or_false] at h
  rcases h with h | h | h | h | h | h | h | h | h <;> subst h <;> simp [OpOK, rev0, P0]
example : Good P0 (World.empty : World (List Nat)) := Good.empty P0
example : ((run P0 World.empty hist0).db.contracts.map fun c => (c.id, c.rows, c.rev.filesize, c.renewedTo)) =
    [(1, [], 0, some 2), (2, [], 0, none)] := by decide
example : (stepOp P0 (run P0 World.empty (hist0.take 4)) (hist0[4]'(by decide))).2.1.accepted = true := by decide
example : (stepOp P0 (run P0 World.empty (hist0.take 3)) (hist0[3]'(by decide))).2.1 = .done .reject := by decide
example : (stepOp P0 (run P0 World.empty (hist0.take 5)) (hist0[5]'(by decide))).2.1 = .done .injected := by decide
example : (stepOp P0 (run P0 World.empty (hist0.take 7)) (hist0[7]'(by decide))).2.1 = .refused := by decide
example : ((run P0 World.empty (hist0.take 7)).db.contracts.map fun c => (c.id, c.rows, c.rev.filesize, c.rev.merkle)) =
    [(1, [], 0, []), (2, [(0, 7), (1, 7)], 8, [7, 7])] := by decide
example : lockViewV1 P0 (run P0 World.empty (hist0.take 5)) 1 =
    some ({ number := 2, filesize := 8, capacity := 0, merkle := [7, 7] }, [7, 7]) := by decide
example : (handOff P0 (run P0 World.empty (hist0.take 4)) (hist0[4]'(by decide)) fun w' => lockViewV1 P0 w' 1).2 =
    some ({ number := 2, filesize := 8, capacity := 0, merkle := [7, 7] }, [7, 7]) := by decide
example : updateV2Sectors [1, 2, 3] (mkRows 0 [1, 2, 3, 1]) [1, 2, 3, 1] [1, 3] = .ok (mkRows 0 [1, 3]) := by decide

end Examples

end Hostd.Sectors
