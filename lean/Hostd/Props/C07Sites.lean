import Hostd.Props.C12
/-!
C07 at the signing sites: "the host only counter-signs economically safe revisions" for every call
site of the RHP2/RHP3 handlers that produces a host signature over a contract revision
(`signingSites` in Model/Revision.lean), not only for the validator functions.

* `rhp2Pay_accept_safe`, `rhp3Pay_accept_safe`, `rhp3Fund_accept_safe`, `rhp3Finalize_accept_safe`:
  the guard of the site ⇒ every clause of `siteClauses` (the list the driver evaluates on what the
  implementation signed / stored: MONITOR accept_safe/<site>/<clause>), for ALL current revisions,
  renter values, prices and both code variants;
* `signRevise_accept_safe`: the same, uniformly over the six sites whose revision is built by `Revise`;
* `all_sites_guarded`: the table-level statement — every entry of `signingSites` is guarded (the
  form / renew sites by the theorems of C12 and the clearing theorem of C07);
* `signingSites_complete`: the table covers every `SignSite`.
-/
set_option linter.unusedSimpArgs false
set_option linter.unusedVariables false
namespace Hostd.Revision

variable {sg : Sigs}

theorem forall_mem_append {α : Type} {P : α → Prop} {l1 l2 : List α}
    (h1 : ∀ c ∈ l1, P c) (h2 : ∀ c ∈ l2, P c) : ∀ c ∈ l1 ++ l2, P c := by
  intro c hc
  rcases List.mem_append.mp hc with h | h
  · exact h1 c h
  · exact h2 c h

/-- what `Revise` guarantees, as the clause list `onlyValuesChanged` plus the untouched file fields -/
theorem revise_clauses {cur r : Rev} {no : Nat} {vv mv : List Nat} (h : revise cur no vv mv = .ok r) :
    (∀ c ∈ onlyValuesChanged cur r no vv mv, c.2 = true) ∧ r.filesize = cur.filesize ∧ r.root = cur.root := by
  have hr := revise_ok h
  refine ⟨?_, hr.2.2.2.2.2.2.2.2.2.2.2.1, hr.2.2.2.2.2.2.2.2.2.2.2.2⟩
  intro c hc
  simp only [onlyValuesChanged, List.mem_cons, List.mem_nil_iff, or_false] at hc
  rcases hc with rfl | rfl | rfl
  · simpa using hr.1
  · simpa using ⟨hr.2.2.2.1, hr.2.2.2.2.1⟩
  · simpa using ⟨hr.2.2.2.2.2.1, hr.2.2.2.2.2.2.1⟩

/-- **RHP2 rpcSectorRoots / rpcRead / rpcWrite.** -/
theorem rhp2Pay_accept_safe {fx : Bool} {i : SiteIn} {r : Rev} (h : rhp2Pay fx i = .ok r)
    (hwf : fx = false → total i.cur.missed = total i.cur.valid) :
    (∀ c ∈ revisionClauses i.cur r i.price i.burn, c.2 = true) ∧
    (∀ c ∈ onlyValuesChanged i.cur r i.no i.vv i.mv, c.2 = true) ∧
    r.filesize = i.cur.filesize ∧ r.root = i.cur.root ∧ i.sigOK = true ∧ i.cur.revNo ≠ maxRev := by
  unfold rhp2Pay at h
  res_ok' at h
  obtain ⟨hlock, r', hrev, ret, hval, hsig, rfl⟩ := h
  have hc := revise_clauses hrev
  exact ⟨validateRevision_accept_safe hval hwf, hc.1, hc.2.1, hc.2.2, by simpa using hsig, hlock⟩

theorem paidAmount_ok {cur r : Rev} {a : Nat} (h : paidAmount cur r = .ok a) : a = paid cur r := by
  unfold paidAmount at h
  res_ok' at h
  obtain ⟨cvr, ⟨c', hc⟩, rvr, ⟨r', hr⟩, _, rfl⟩ := h
  simp [paid, hc, hr, renterVal_cons]

/-- **RHP3 pay-by-contract.** the host's valid and missed payouts gain exactly what the renter's
valid payout loses, and that amount is what is credited to the account. -/
theorem rhp3Pay_accept_safe {fx : Bool} {i : SiteIn} {r : Rev} {credited : Nat} (h : rhp3Pay fx i = .ok (r, credited))
    (hwf : fx = false → total i.cur.missed = total i.cur.valid) :
    (∀ c ∈ revisionClauses i.cur r (paid i.cur r) 0, c.2 = true) ∧
    (∀ c ∈ onlyValuesChanged i.cur r i.no i.vv i.mv, c.2 = true) ∧
    r.filesize = i.cur.filesize ∧ r.root = i.cur.root ∧ i.sigOK = true ∧ credited = paid i.cur r := by
  unfold rhp3Pay at h
  res_ok' at h
  obtain ⟨r', hrev, a, ha, u, hval, hsig, rfl, rfl⟩ := h
  have hc := revise_clauses hrev
  have hp := paidAmount_ok ha
  subst hp
  exact ⟨validatePayment_accept_safe hval hwf, hc.1, hc.2.1, hc.2.2, by simpa using hsig, rfl⟩

/-- **RHP3 fund account.** as pay-by-contract; the payment covers the fund account cost and the
remainder is what is credited. -/
theorem rhp3Fund_accept_safe {fx : Bool} {i : SiteIn} {r : Rev} {credited : Nat} (h : rhp3Fund fx i = .ok (r, credited))
    (hwf : fx = false → total i.cur.missed = total i.cur.valid) :
    (∀ c ∈ revisionClauses i.cur r (paid i.cur r) 0, c.2 = true) ∧
    (∀ c ∈ onlyValuesChanged i.cur r i.no i.vv i.mv, c.2 = true) ∧
    r.filesize = i.cur.filesize ∧ r.root = i.cur.root ∧ i.sigOK = true ∧
    i.price ≤ paid i.cur r ∧ credited + i.price = paid i.cur r := by
  unfold rhp3Fund at h
  res_ok' at h
  obtain ⟨r', hrev, a, ha, hcost, u, hval, hsig, rfl, rfl⟩ := h
  have hc := revise_clauses hrev
  have hp := paidAmount_ok ha
  subst hp
  exact ⟨validatePayment_accept_safe hval hwf, hc.1, hc.2.1, hc.2.2, by simpa using hsig, hcost, by omega⟩

/-- **RHP3 program finalisation.** price 0 (the budget pays), burn at most storage + collateral. -/
theorem rhp3Finalize_accept_safe {fx : Bool} {i : SiteIn} {r : Rev} (h : rhp3Finalize fx i = .ok r)
    (hwf : fx = false → total i.cur.missed = total i.cur.valid) :
    (∀ c ∈ revisionClauses i.cur r 0 i.burn, c.2 = true) ∧
    (∀ c ∈ onlyValuesChanged i.cur r i.no i.vv i.mv, c.2 = true) ∧ i.sigOK = true := by
  unfold rhp3Finalize at h
  res_ok' at h
  obtain ⟨r', hrev, b, hval, hsig, rfl⟩ := h
  have hc := revise_clauses hrev
  have := validateProgram_accept_safe hval hwf
  simp only [Nat.add_zero] at this
  exact ⟨this, hc.1, by simpa using hsig⟩

/-- **accept_safe, uniformly over the Revise-built sites**: the guard of the site implies every
clause the monitor `accept_safe/<site>/<clause>` evaluates. -/
theorem signRevise_accept_safe {fx : Bool} {s : SignSite} {i : SiteIn} {r : Rev} {credited : Nat}
    (h : signRevise fx s i = .ok (r, credited))
    (hwf : fx = false → total i.cur.missed = total i.cur.valid) :
    (∀ c ∈ siteClauses s i r credited, c.2 = true) ∧ i.sigOK = true := by
  cases s <;> simp only [signRevise, siteClauses] at h ⊢
  case rhp2SectorRoots =>
    res_ok' at h; obtain ⟨r', hr, rfl, rfl⟩ := h
    have hs := rhp2Pay_accept_safe hr hwf
    refine ⟨forall_mem_append (forall_mem_append hs.1 hs.2.1) ?_, hs.2.2.2.2.1⟩
    intro c hc; simp at hc; subst hc; simpa using ⟨hs.2.2.1, hs.2.2.2.1⟩
  case rhp2Read =>
    res_ok' at h; obtain ⟨r', hr, rfl, rfl⟩ := h
    have hs := rhp2Pay_accept_safe hr hwf
    refine ⟨forall_mem_append (forall_mem_append hs.1 hs.2.1) ?_, hs.2.2.2.2.1⟩
    intro c hc; simp at hc; subst hc; simpa using ⟨hs.2.2.1, hs.2.2.2.1⟩
  case rhp2Write =>
    res_ok' at h; obtain ⟨r', hr, rfl, rfl⟩ := h
    have hs := rhp2Pay_accept_safe hr hwf
    exact ⟨forall_mem_append hs.1 hs.2.1, hs.2.2.2.2.1⟩
  case rhp3Finalize =>
    res_ok' at h; obtain ⟨r', hr, rfl, rfl⟩ := h
    have hs := rhp3Finalize_accept_safe hr hwf
    exact ⟨forall_mem_append hs.1 hs.2.1, hs.2.2⟩
  case rhp3Pay =>
    have hs := rhp3Pay_accept_safe h hwf
    refine ⟨forall_mem_append (forall_mem_append hs.1 hs.2.1) ?_, hs.2.2.2.2.1⟩
    intro c hc; simp at hc
    rcases hc with rfl | rfl
    · simp [hs.2.2.1, hs.2.2.2.1]
    · simp [hs.2.2.2.2.2]
  case rhp3Fund =>
    have hs := rhp3Fund_accept_safe h hwf
    refine ⟨forall_mem_append (forall_mem_append hs.1 hs.2.1) ?_, hs.2.2.2.2.1⟩
    intro c hc; simp at hc
    rcases hc with rfl | rfl | rfl
    · simp [hs.2.2.1, hs.2.2.2.1]
    · simp [hs.2.2.2.2.2.1]
    · simp [hs.2.2.2.2.2.2]
  all_goals (cases h)

/-! ### the renewal sites -/

/-- **RHP2 renew-and-clear, clearing signature**: the clearing revision the host builds and counter-signs
satisfies the clearing clauses (`hU`: revision numbers are uint64; current tree: two valid outputs). -/
theorem rpcRenew2_clearing_safe {fx : Bool} {rh expUH h : Nat} {e r : Rev} {fv : List Nat} {st : Settings} {rec : Recorded}
    (hh : rpcRenew2 fx rh e r fv expUH h st sg = .ok rec) (hU : e.revNo ≤ maxRev)
    (hwf : fx = false → e.valid.length = 2) :
    ∃ clearing pay, clearingRevision e fv = .ok clearing ∧ ∀ c ∈ clearingClauses e clearing pay, c.2 = true := by
  unfold rpcRenew2 rpcRenew2Body at hh
  res_ok' at hh
  obtain ⟨_, hlock, hrh, _, clearing, hclr, evr, _, fp, hfp, _⟩ := hh
  exact ⟨clearing, _, hclr, validateClearing_accept_safe hfp hU (fun hf => ⟨hwf hf, hlock⟩)⟩

/-! ### the table -/

/-- what "the signing site is guarded" means, per site: whenever the model of the handler path reaches
the host signature, the clauses of the site hold between the revision the host held and the revision it
signs (well-formedness hypotheses only for the unrepaired variant `fx = false`). -/
def SiteGuarded : SignSite → Prop
  | .rhp2Form => ∀ (rh expUH h : Nat) (fc : Rev) (st : Settings) (rec : Recorded) (sg : Sigs),
      rpcForm2 rh fc expUH h st sg = .ok rec → ∀ cl ∈ contractClauses fc h st 0 rec.locked, cl.2 = true
  | .rhp2RenewClearing => ∀ (fx : Bool) (rh expUH h : Nat) (e r : Rev) (fv : List Nat) (st : Settings) (rec : Recorded) (sg : Sigs),
      rpcRenew2 fx rh e r fv expUH h st sg = .ok rec → e.revNo ≤ maxRev → (fx = false → e.valid.length = 2) →
      ∃ clearing pay, clearingRevision e fv = .ok clearing ∧ ∀ c ∈ clearingClauses e clearing pay, c.2 = true
  | .rhp2RenewContract => ∀ (fx : Bool) (rh expUH h : Nat) (e r : Rev) (fv : List Nat) (st : Settings) (rec : Recorded) (sg : Sigs),
      rpcRenew2 fx rh e r fv expUH h st sg = .ok rec →
      ∀ cl ∈ contractClauses r h st (baseCost st.storagePrice e r) rec.locked, cl.2 = true
  | .rhp3RenewClearing => ∀ (fx : Bool) (rh expUH h : Nat) (e k r : Rev) (st : Settings) (rec : Recorded) (sg : Sigs),
      rpcRenew3 fx rh e k r expUH h st sg = .ok rec → e.revNo ≤ maxRev →
      (fx = false → e.valid.length = 2 ∧ e.revNo ≠ maxRev) → ∀ c ∈ clearingClauses e k 0, c.2 = true
  | .rhp3RenewContract => ∀ (fx : Bool) (rh expUH h : Nat) (e k r : Rev) (st : Settings) (rec : Recorded) (sg : Sigs),
      rpcRenew3 fx rh e k r expUH h st sg = .ok rec →
      ∀ cl ∈ contractClauses r h st (st.renewCost + baseCost st.storagePrice e r) rec.locked, cl.2 = true
  | .rhp3FundReceipt => True     -- a receipt, not a contract revision; the revision is signed at `.rhp3Fund`
  | s => ∀ (fx : Bool) (i : SiteIn) (r : Rev) (credited : Nat), signRevise fx s i = .ok (r, credited) →
      (fx = false → total i.cur.missed = total i.cur.valid) →
      (∀ c ∈ siteClauses s i r credited, c.2 = true) ∧ i.sigOK = true

/-- **every signing site of the table is guarded** -/
theorem all_sites_guarded : ∀ s : SignSite, SiteGuarded s := by
  intro s
  cases s <;> simp only [SiteGuarded]
  case rhp2Form => intro rh expUH h fc st rec sg hh; exact (rpcForm2_accept_safe hh).2.1
  case rhp2RenewClearing => intro fx rh expUH h e r fv st rec sg hh hU hwf; exact rpcRenew2_clearing_safe hh hU hwf
  case rhp2RenewContract => intro fx rh expUH h e r fv st rec sg hh; exact (rpcRenew2_accept_safe hh).2.1
  case rhp3RenewClearing => intro fx rh expUH h e k r st rec sg hh hU hwf; exact rpcRenew3_clearing_safe hh hU hwf
  case rhp3RenewContract => intro fx rh expUH h e k r st rec sg hh; exact (rpcRenew3_accept_safe hh).2.1
  all_goals (intro fx i r credited hh hwf; exact signRevise_accept_safe hh hwf)

/-- the table names every signing site, each exactly once -/
theorem signingSites_complete (s : SignSite) : (signingSites.filter fun i => i.site == s).length = 1 := by
  cases s <;> decide

/-- a site whose revision comes from `Revise` is guarded by a revision validator, the others by the
formation / renewal / clearing validators -/
theorem signingSites_guards :
    signingSites.map (fun i => (i.site, i.guard)) =
      [(.rhp2Form, .formation), (.rhp2RenewClearing, .clearing), (.rhp2RenewContract, .renewal2),
       (.rhp2SectorRoots, .revision), (.rhp2Write, .revision), (.rhp2Read, .revision), (.rhp3Finalize, .program),
       (.rhp3Pay, .payment), (.rhp3Fund, .payment), (.rhp3FundReceipt, .none), (.rhp3RenewClearing, .clearing),
       (.rhp3RenewContract, .renewal3)] := by decide

/-! ### no_panic at the sites (repaired variant) -/

theorem revise_lengths {cur r : Rev} {no : Nat} {vv mv : List Nat} (h : revise cur no vv mv = .ok r) :
    r.valid.length = cur.valid.length ∧ r.missed.length = cur.missed.length := by
  have hr := revise_ok h
  have h1 := congrArg List.length hr.2.2.2.2.2.1
  have h2 := congrArg List.length hr.2.2.2.2.2.2.1
  simp [addrs] at h1 h2
  exact ⟨h1, h2⟩

theorem paidAmount_noPanic {cur r : Rev} (h1 : 0 < cur.valid.length) (h2 : 0 < r.valid.length) :
    NoPanic (paidAmount cur r) := by
  unfold paidAmount
  refine NoPanic.bind (out0_noPanic h1) fun _ _ => ?_
  refine NoPanic.bind (out0_noPanic h2) fun _ _ => ?_
  refine NoPanic.bind (check_noPanic _ _) fun _ _ => ?_
  exact NoPanic.pure _

/-- `he`: the host's own revision has a renter output (`current.ValidRenterPayout()` is evaluated
before the payment validator at the two payment sites). -/
theorem signRevise_no_panic_fixed_partial (s : SignSite) (i : SiteIn) (he : 0 < i.cur.valid.length) :
    NoPanic (signRevise true s i) := by
  cases s <;> simp only [signRevise]
  case rhp2SectorRoots =>
    refine NoPanic.bind ?_ fun _ _ => NoPanic.pure _
    unfold rhp2Pay
    refine NoPanic.bind (check_noPanic _ _) fun _ _ => ?_
    refine NoPanic.bind (revise_no_panic _ _ _ _) fun _ _ => ?_
    refine NoPanic.bind (validateRevision_noPanic (Or.inl rfl)) fun _ _ => ?_
    refine NoPanic.bind (check_noPanic _ _) fun _ _ => NoPanic.pure _
  case rhp2Read =>
    refine NoPanic.bind ?_ fun _ _ => NoPanic.pure _
    unfold rhp2Pay
    refine NoPanic.bind (check_noPanic _ _) fun _ _ => ?_
    refine NoPanic.bind (revise_no_panic _ _ _ _) fun _ _ => ?_
    refine NoPanic.bind (validateRevision_noPanic (Or.inl rfl)) fun _ _ => ?_
    refine NoPanic.bind (check_noPanic _ _) fun _ _ => NoPanic.pure _
  case rhp2Write =>
    refine NoPanic.bind ?_ fun _ _ => NoPanic.pure _
    unfold rhp2Pay
    refine NoPanic.bind (check_noPanic _ _) fun _ _ => ?_
    refine NoPanic.bind (revise_no_panic _ _ _ _) fun _ _ => ?_
    refine NoPanic.bind (validateRevision_noPanic (Or.inl rfl)) fun _ _ => ?_
    refine NoPanic.bind (check_noPanic _ _) fun _ _ => NoPanic.pure _
  case rhp3Finalize =>
    refine NoPanic.bind ?_ fun _ _ => NoPanic.pure _
    unfold rhp3Finalize
    refine NoPanic.bind (revise_no_panic _ _ _ _) fun _ _ => ?_
    refine NoPanic.bind (validateProgram_noPanic (Or.inl rfl)) fun _ _ => ?_
    refine NoPanic.bind (check_noPanic _ _) fun _ _ => NoPanic.pure _
  case rhp3Pay =>
    unfold rhp3Pay
    refine NoPanic.bind (revise_no_panic _ _ _ _) fun r hr => ?_
    have hl := revise_lengths hr
    refine NoPanic.bind (paidAmount_noPanic he (by omega)) fun _ _ => ?_
    refine NoPanic.bind (validatePayment_noPanic (Or.inl rfl)) fun _ _ => ?_
    refine NoPanic.bind (check_noPanic _ _) fun _ _ => NoPanic.pure _
  case rhp3Fund =>
    unfold rhp3Fund
    refine NoPanic.bind (revise_no_panic _ _ _ _) fun r hr => ?_
    have hl := revise_lengths hr
    refine NoPanic.bind (paidAmount_noPanic he (by omega)) fun _ _ => ?_
    refine NoPanic.bind (check_noPanic _ _) fun _ _ => ?_
    refine NoPanic.bind (validatePayment_noPanic (Or.inl rfl)) fun _ _ => ?_
    refine NoPanic.bind (check_noPanic _ _) fun _ _ => NoPanic.pure _
  all_goals exact NoPanic.reject _

/-! examples: the hypotheses are satisfiable, and a hostile fund-account revision is stopped by the guard -/

/-- honest fund account: pay 30 (fund cost 10), credited 20 -/
def exFundIn : SiteIn :=
  { cur := exCur, no := 6, vv := [70, 80], mv := [70, 70, 10], price := 10, burn := 0, sigOK := true }
example : (signRevise true .rhp3Fund exFundIn).isOk = true := by decide +kernel
example : ∃ r, signRevise true .rhp3Fund exFundIn = .ok (r, 20) := by
  refine ⟨{ exCur with revNo := 6, valid := [⟨1, 70⟩, ⟨2, 80⟩], missed := [⟨1, 70⟩, ⟨2, 70⟩, ⟨0, 10⟩] }, ?_⟩
  decide +kernel
/-- the renter moves the host's missed payout into the void while "paying": rejected by the payment
validator — without that call (mutant) the revision would be signed and `host_missed_loss_bounded` false -/
example : signRevise true .rhp3Fund { exFundIn with mv := [70, 0, 80] } = .reject .hostMissedNotIncreased := by
  decide +kernel
example : ("host_missed_loss_bounded", false) ∈
    siteClauses .rhp3Fund { exFundIn with mv := [70, 0, 80] }
      { exCur with revNo := 6, valid := [⟨1, 70⟩, ⟨2, 80⟩], missed := [⟨1, 70⟩, ⟨2, 0⟩, ⟨0, 80⟩] } 20 := by decide +kernel
/-- honest RHP2 write: pay 10, burn 5 -/
example : (signRevise true .rhp2Write
    { cur := exCur, no := 6, vv := [90, 60], mv := [90, 35, 25], price := 10, burn := 5, sigOK := true }).isOk = true := by
  decide +kernel

/-! ### sessions: the cached revision and the stored revision

`Sess`, `sessStep`, `session2`, `execByContract` (Model/Revision.lean): a revising RPC is validated against the
revision the session CACHES and committed to the STORE.  If every handler refreshes the cache after its commit
(`codeFacts`) the two stay equal, so every accepted RPC is guarded against the stored revision; the witness
shows what happens when one handler does not. -/

theorem sessLock_inv (s : Sess) : (sessLock s).cached = (sessLock s).stored := rfl

/-- **every handler keeps cached = stored**, provided it refreshes the cache after its commit -/
theorem sessStep_inv {fx : Bool} {F : SessFacts} {site : SignSite} {s : Sess} {i : SiteIn}
    (hF : ∀ x, F.refresh x = true) (h : s.cached = s.stored) :
    (sessStep fx F site s i).1.cached = (sessStep fx F site s i).1.stored := by
  unfold sessStep
  split <;> simp [hF, h]

theorem signRevise_revno {fx : Bool} {s : SignSite} {i : SiteIn} {r : Rev} {cr : Nat}
    (h : signRevise fx s i = .ok (r, cr)) (hwf : fx = false → total i.cur.missed = total i.cur.valid) :
    i.cur.revNo < r.revNo := by
  have hs := (signRevise_accept_safe h hwf).1
  have key : ("revno_increases", decide (r.revNo > i.cur.revNo)) ∈ siteClauses s i r cr → i.cur.revNo < r.revNo := by
    intro hm; simpa using hs _ hm
  cases s <;> first
    | (simp only [signRevise] at h; cases h)
    | (apply key; simp [siteClauses, revisionClauses])

/-- **therefore it guards against the STORED revision**: with cached = stored, an accepted RPC satisfies every
clause of its site relative to what the store held, the revision number strictly increases relative to the
store, and the store then holds exactly the signed revision. -/
theorem sessStep_accept_safe {fx : Bool} {F : SessFacts} {site : SignSite} {s s' : Sess} {i : SiteIn} {r : Rev} {cr : Nat}
    (hinv : s.cached = s.stored) (h : sessStep fx F site s i = (s', .ok (r, cr)))
    (hwf : fx = false → total s.stored.missed = total s.stored.valid) :
    (∀ c ∈ siteClauses site { i with cur := s.stored } r cr, c.2 = true) ∧ s.stored.revNo < r.revNo ∧ s'.stored = r := by
  unfold sessStep at h
  rw [hinv] at h
  split at h
  · rename_i r' cr' heq
    simp only [Prod.mk.injEq, Res.ok.injEq] at h
    obtain ⟨rfl, rfl, rfl⟩ := h
    exact ⟨(signRevise_accept_safe heq hwf).1, signRevise_revno heq hwf, rfl⟩
  · simp at h
  · simp at h

/-- **a whole RHP2 session of two RPCs** (repaired validators, handlers as they are): both accepted RPCs are
safe relative to the store, and the stored revision numbers strictly increase: c < r1 < r2. -/
theorem session2_safe {c : Rev} {k1 k2 : SignSite} {i1 i2 : SiteIn} {relock : Bool} {r1 r2 : Rev} {c1 c2 : Nat}
    (h : session2 true codeFacts c k1 k2 i1 i2 relock = (.ok (r1, c1), .ok (r2, c2))) :
    (∀ x ∈ siteClauses k1 { i1 with cur := c } r1 c1, x.2 = true) ∧
    (∀ x ∈ siteClauses k2 { i2 with cur := r1 } r2 c2, x.2 = true) ∧
    c.revNo < r1.revNo ∧ r1.revNo < r2.revNo := by
  unfold session2 at h
  generalize hs1 : sessStep true codeFacts k1 (sessLock { cached := c, stored := c }) i1 = st1 at h
  obtain ⟨s1, res1⟩ := st1
  simp only [hs1] at h
  cases res1 with
  | reject t => simp at h
  | panic p => simp at h
  | ok v =>
    obtain ⟨r1', c1'⟩ := v
    simp only [Prod.mk.injEq, Res.ok.injEq] at h
    obtain ⟨⟨rfl, rfl⟩, h2⟩ := h
    have a1 := sessStep_accept_safe (s := sessLock { cached := c, stored := c }) rfl hs1 (by simp)
    have inv1 : s1.cached = s1.stored := by
      have := sessStep_inv (fx := true) (F := codeFacts) (site := k1) (s := sessLock { cached := c, stored := c }) (i := i1)
        (fun _ => rfl) rfl
      rw [hs1] at this; exact this
    have hst : s1.stored = r1' := a1.2.2
    -- the state the second RPC starts from has cached = stored = r1 with or without a re-lock
    have inv2 : (if relock then sessLock s1 else s1).cached = (if relock then sessLock s1 else s1).stored ∧
        (if relock then sessLock s1 else s1).stored = r1' := by
      cases relock <;> simp [sessLock, inv1, hst]
    generalize hs2 : sessStep true codeFacts k2 (if relock then sessLock s1 else s1) i2 = st2 at h2
    obtain ⟨s2, res2⟩ := st2
    simp only [hs2] at h2
    subst h2
    have a2 := sessStep_accept_safe inv2.1 hs2 (by simp)
    rw [inv2.2] at a2
    exact ⟨a1.1, a2.1, a1.2.1, a2.2.1⟩

/-- **RHP3 execute paid by contract**: the executor's revision comes from the Lock AFTER the payment, so
the finalisation is guarded against the revision the payment produced. -/
theorem execByContract_safe {c : Rev} {i1 i2 : SiteIn} {need : Nat} {r1 r2 : Rev} {c1 c2 : Nat}
    (h : execByContract true true c i1 i2 need = (.ok (r1, c1), .ok (r2, c2))) :
    (∀ x ∈ siteClauses .rhp3Pay { i1 with cur := c } r1 c1, x.2 = true) ∧
    (∀ x ∈ siteClauses .rhp3Finalize { i2 with cur := r1 } r2 c2, x.2 = true) ∧
    c.revNo < r1.revNo ∧ r1.revNo < r2.revNo ∧ need ≤ c1 := by
  unfold execByContract at h
  generalize hs1 : sessStep true codeFacts .rhp3Pay (sessLock { cached := c, stored := c }) i1 = st1 at h
  obtain ⟨s1, res1⟩ := st1
  simp only [hs1] at h
  cases res1 with
  | reject t => simp at h
  | panic p => simp at h
  | ok v =>
    obtain ⟨r1', c1'⟩ := v
    simp only at h
    have a1 := sessStep_accept_safe (s := sessLock { cached := c, stored := c }) rfl hs1 (by simp)
    have hst : s1.stored = r1' := a1.2.2
    split at h
    · simp at h
    · rename_i hneed
      simp only [Prod.mk.injEq, Res.ok.injEq, ite_true] at h
      obtain ⟨⟨rfl, rfl⟩, h2⟩ := h
      generalize hs2 : sessStep true codeFacts .rhp3Finalize { cached := s1.stored, stored := s1.stored } i2 = st2 at h2
      obtain ⟨s2, res2⟩ := st2
      simp only [hs2] at h2
      subst h2
      have a2 := sessStep_accept_safe (s := { cached := s1.stored, stored := s1.stored }) rfl hs2 (by simp)
      simp only [hst] at a2
      exact ⟨a1.1, a2.1, a1.2.1, a2.2.1, by omega⟩

/-! the stale-cache shape (seed C07-d): `rpcSectorRoots` without `s.contract = signedRevision` -/

def staleFacts : SessFacts := { refresh := fun s => s != .rhp2SectorRoots }

/-- the SectorRoots request: pay 10 on `exCur` (revision 5 -> 6) -/
def exRootsIn : SiteIn :=
  { cur := exCur, no := 6, vv := [90, 60], mv := [90, 40, 20], price := 10, burn := 0, sigOK := true }
def exAfterRoots : Rev := { exCur with revNo := 6, valid := [⟨1, 90⟩, ⟨2, 60⟩], missed := [⟨1, 90⟩, ⟨2, 40⟩, ⟨0, 20⟩] }

/-- a byte-for-byte replay of the first request in the same session: with the stale cache it is accepted
and persisted although the revision number does not increase relative to the store (6 -> 6); the code as
it is rejects it (`Revise`: revision number must be greater) -/
theorem stale_cache_witness :
    session2 true staleFacts exCur .rhp2SectorRoots .rhp2SectorRoots exRootsIn exRootsIn false
      = (.ok (exAfterRoots, 0), .ok (exAfterRoots, 0)) ∧
    ¬ (exAfterRoots.revNo < exAfterRoots.revNo) ∧
    (session2 true codeFacts exCur .rhp2SectorRoots .rhp2SectorRoots exRootsIn exRootsIn false).2 = .reject .revNo := by
  decide +kernel

/-- a second request built on the pre-first payouts with a higher number: relative to the store the host's
valid payout does not gain the price of the second RPC (the renter pays once for two RPCs) -/
theorem stale_cache_free_rpc_witness :
    (session2 true staleFacts exCur .rhp2SectorRoots .rhp2Read exRootsIn { exRootsIn with no := 7 } false).2
      = .ok ({ exAfterRoots with revNo := 7 }, 0) ∧
    ("host_valid_gains_price", false) ∈
      siteClauses .rhp2Read { exRootsIn with no := 7, cur := exAfterRoots } { exAfterRoots with revNo := 7 } 0 ∧
    (session2 true codeFacts exCur .rhp2SectorRoots .rhp2Read exRootsIn { exRootsIn with no := 7 } false).2
      = .reject .insufficientTransfer := by
  decide +kernel

/-- the RHP3 analogue: an executor that kept the pre-payment revision would finalise on it -/
theorem stale_executor_witness :
    (execByContract true false exCur { exRootsIn with mv := [90, 50, 10] } { exRootsIn with vv := [100, 50], mv := [100, 40, 10] } 0).2
      = .ok ({ exCur with revNo := 6 }, 0) ∧
    (execByContract true true exCur { exRootsIn with mv := [90, 50, 10] } { exRootsIn with vv := [100, 50], mv := [100, 40, 10] } 0).2
      = .reject .revNo := by
  decide +kernel

/-- an honest two-RPC session -/
example : session2 true codeFacts exCur .rhp2SectorRoots .rhp2Read exRootsIn
    { exRootsIn with no := 7, vv := [80, 70], mv := [80, 40, 30] } false
    = (.ok (exAfterRoots, 0), .ok ({ exCur with revNo := 7, valid := [⟨1, 80⟩, ⟨2, 70⟩], missed := [⟨1, 80⟩, ⟨2, 40⟩, ⟨0, 30⟩] }, 0)) := by
  decide +kernel

/-! ### sessions with a renewal: after `rpcRenewAndClearContract` the locked contract is cleared -/

theorem signRevise_unlocked {fx : Bool} {s : SignSite} {i : SiteIn} {x : Rev × Nat}
    (h : signRevise fx s i = .ok x) : i.cur.revNo ≠ maxRev := by
  have hrev : ∀ {r : Rev}, revise i.cur i.no i.vv i.mv = .ok r → i.cur.revNo ≠ maxRev := fun hr => (revise_ok hr).2.2.1
  cases s <;> simp only [signRevise] at h
  case rhp2SectorRoots => unfold rhp2Pay at h; res_ok' at h; obtain ⟨_, ⟨hl, _⟩, _⟩ := h; exact hl
  case rhp2Read => unfold rhp2Pay at h; res_ok' at h; obtain ⟨_, ⟨hl, _⟩, _⟩ := h; exact hl
  case rhp2Write => unfold rhp2Pay at h; res_ok' at h; obtain ⟨_, ⟨hl, _⟩, _⟩ := h; exact hl
  case rhp3Finalize => unfold rhp3Finalize at h; res_ok' at h; obtain ⟨_, ⟨r, hr, _⟩, _⟩ := h; exact hrev hr
  case rhp3Pay => unfold rhp3Pay at h; res_ok' at h; obtain ⟨r, hr, _⟩ := h; exact hrev hr
  case rhp3Fund => unfold rhp3Fund at h; res_ok' at h; obtain ⟨r, hr, _⟩ := h; exact hrev hr
  all_goals (cases h)

/-- the renewal step keeps cached = stored (= the clearing revision) if the handler refreshes the cache -/
theorem sessRenew_inv {fx : Bool} {F : SessFacts} {s : Sess} {renewal : Rev} {fv : List Nat} {expUH h rh : Nat}
    {st : Settings} {sg : Sigs} (hF : ∀ x, F.refresh x = true) (hinv : s.cached = s.stored) :
    (sessRenew fx F s renewal fv expUH h rh st sg).1.cached = (sessRenew fx F s renewal fv expUH h rh st sg).1.stored := by
  unfold sessRenew
  split
  · split <;> simp [hF, hinv]
  · exact hinv
  · exact hinv

/-- an accepted renewal leaves the clearing revision (number MaxUint64, no file, missed = valid) in the store -/
theorem sessRenew_ok {fx : Bool} {F : SessFacts} {s s' : Sess} {renewal clr : Rev} {fv : List Nat} {expUH h rh n : Nat}
    {st : Settings} {sg : Sigs} (hh : sessRenew fx F s renewal fv expUH h rh st sg = (s', .ok (clr, n))) :
    s'.stored = clr ∧ clr.revNo = maxRev ∧ clr.filesize = 0 ∧ clr.missed = clr.valid ∧ s.cached.revNo ≠ maxRev ∧
    (F.refresh .rhp2RenewClearing = true → s'.cached = clr) := by
  unfold sessRenew at hh
  split at hh
  · split at hh
    · rename_i clr' hclr
      simp only [Prod.mk.injEq, Res.ok.injEq] at hh
      obtain ⟨rfl, rfl, _⟩ := hh
      have hc := clearingRevision_ok hclr
      exact ⟨rfl, hc.1, hc.2.2.1, hc.2.2.2.2.1, hc.2.1, fun hr => by simp [hr]⟩
    · simp at hh
    · simp at hh
  · simp at hh
  · simp at hh

/-- every step keeps cached = stored when all handlers refresh -/
theorem sessOp_inv {fx : Bool} {F : SessFacts} {s : Sess} (o : SessOp) (hF : ∀ x, F.refresh x = true)
    (hinv : s.cached = s.stored) : (sessOp fx F s o).1.cached = (sessOp fx F s o).1.stored := by
  cases o with
  | rpc site i => exact sessStep_inv hF hinv
  | renew renewal fv expUH h rh st sg => exact sessRenew_inv hF hinv
  | form fc expUH h rh st sg => simp only [sessOp]; split <;> exact hinv

/-- with a cleared contract in the cache (revision number MaxUint64) no RPC that needs the locked contract is
accepted: `ContractRevisable` / `Revise` / `ClearingRevision` all refuse -/
theorem sessOp_rejects_when_cleared {fx : Bool} {F : SessFacts} {s : Sess} (o : SessOp)
    (hc : s.cached.revNo = maxRev) (hn : o.needsLock = true) : (sessOp fx F s o).2.isOk = false := by
  cases o with
  | rpc site i =>
    simp only [sessOp, sessStep]
    split
    · rename_i r cr heq
      exact absurd hc (signRevise_unlocked heq)
    · rfl
    · rfl
  | renew renewal fv expUH h rh st sg =>
    simp only [sessOp, sessRenew]
    split
    · rename_i rec heq
      unfold rpcRenew2 rpcRenew2Body at heq
      res_ok' at heq
      exact absurd hc heq.2.1
    · rfl
    · rfl
  | form fc expUH h rh st sg => simp [SessOp.needsLock] at hn

/-- **after a renewal no revising RPC (and no second renewal) of the session is accepted**, with or without
an Unlock+Lock in between: the session's contract is the clearing revision the store holds. -/
theorem after_renewal_nothing_accepted {fx : Bool} {c renewal : Rev} {fv : List Nat} {expUH h rh : Nat} {st : Settings}
    {sg : Sigs} {o2 : SessOp} {relock : Bool} {x : Rev × Nat} {r2 : Res (Rev × Nat)}
    (hh : sessionOps fx codeFacts c true (.renew renewal fv expUH h rh st sg) o2 relock = (.ok x, r2))
    (hn : o2.needsLock = true) : r2.isOk = false := by
  unfold sessionOps at hh
  simp only [Bool.not_true, Bool.false_and, Bool.and_true, ite_false, Bool.false_eq_true] at hh
  generalize hs1 : sessOp fx codeFacts (sessLock { cached := c, stored := c }) (.renew renewal fv expUH h rh st sg) = st1 at hh
  obtain ⟨s1, res1⟩ := st1
  simp only [sessOp] at hs1
  cases res1 with
  | reject t => simp at hh
  | panic p => simp at hh
  | ok v =>
    obtain ⟨clr, n⟩ := v
    simp only [Prod.mk.injEq] at hh
    obtain ⟨_, h2⟩ := hh
    have ho := sessRenew_ok hs1
    have hcached : (if relock = true then sessLock s1 else s1).cached.revNo = maxRev := by
      have hc : s1.cached = clr := ho.2.2.2.2.2 rfl
      cases relock <;> simp [sessLock, hc, ho.1, ho.2.1]
    rw [← h2]
    exact sessOp_rejects_when_cleared (F := codeFacts) o2 hcached hn

/-! the defect repaired by /repo 778b5c0: `rpcRenewAndClearContract` did not refresh the session's contract -/

def staleRenewFacts : SessFacts := { refresh := fun s => s != .rhp2RenewClearing }

def exRenewOp : SessOp :=
  .renew exRenewal [4999, 701] 10 1000 U64 { exSettings with maxCollateral := 2000000 } ⟨true, true⟩
/-- SectorRoots on the pre-renewal revision of `exExisting` (revision 9 -> 10, paying 10) -/
def exStaleRootsOp : SessOp :=
  .rpc .rhp2SectorRoots { cur := exExisting, no := 10, vv := [4990, 710], mv := [4990, 600, 110], price := 10, burn := 0, sigOK := true }

/-- Lock, RenewAndClear, SectorRoots in one session: with the stale session contract the SectorRoots revision
(number 10) is accepted and persisted over the clearing revision (number MaxUint64) — the renewed-away contract
is revised again; the code as it is now refuses it (`ContractRevisable`: max revision number reached). -/
theorem stale_after_renewal_witness :
    (∃ clr r2, sessionOps true staleRenewFacts exExisting true exRenewOp exStaleRootsOp false = (.ok (clr, 0), .ok (r2, 0)) ∧
      clr.revNo = maxRev ∧ r2.revNo = 10) ∧
    (sessionOps true codeFacts exExisting true exRenewOp exStaleRootsOp false).2 = .reject .locked ∧
    -- a second renewal in the same session is refused as well
    (sessionOps true codeFacts exExisting true exRenewOp exRenewOp false).2 = .reject .locked ∧
    (sessionOps true staleRenewFacts exExisting true exRenewOp exRenewOp false).2.isOk = true := by
  refine ⟨⟨{ exExisting with revNo := maxRev, filesize := 0, root := 0, valid := [⟨1, 4999⟩, ⟨2, 701⟩], missed := [⟨1, 4999⟩, ⟨2, 701⟩] },
    { exExisting with revNo := 10, valid := [⟨1, 4990⟩, ⟨2, 710⟩], missed := [⟨1, 4990⟩, ⟨2, 600⟩, ⟨0, 110⟩] }, ?_⟩, ?_⟩
  · decide +kernel
  · decide +kernel

/-- without a locked contract nothing that needs one is accepted; a formation is -/
example : (sessionOps true codeFacts exExisting false exStaleRootsOp exStaleRootsOp false).1 = .reject .noContract := by
  decide +kernel
example : (sessionOps true codeFacts exExisting false (.form exForm 10 1000 U64 exSettings ⟨true, true⟩) exStaleRootsOp false)
    = (.ok (exForm, 500), .reject .noContract) := by decide +kernel

end Hostd.Revision
