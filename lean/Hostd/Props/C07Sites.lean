import Hostd.Props.C12
/-!
C07 at the signing sites: "the host only counter-signs economically safe revisions" for every call
site of the RHP2/RHP3 handlers that produces a host signature over a contract revision
(`signingSites` in Model/Revision.lean), not only for the validator functions.

* `rhp2Pay_accept_safe`, `rhp3Pay_accept_safe`, `rhp3Fund_accept_safe`, `rhp3Finalize_accept_safe`:
  the guard of the site ⇒ every clause of `siteClauses` (the list the driver evaluates on what the
  implementation signed / stored: MONITOR accept_safe/<site>/<clause>), for ALL current revisions,
  renter values, prices and both code variants;
* `signRevise_accept_safe`: the same, uniformly over the six sites whose revision is built by `Revise`;
* `all_sites_guarded`: the table-level statement — every entry of `signingSites` is guarded (the
  form / renew sites by the theorems of C12 and the clearing theorem of C07);
* `signingSites_complete`: the table covers every `SignSite`.
-/
set_option linter.unusedSimpArgs false
set_option linter.unusedVariables false
namespace Hostd.Revision

variable {sg : Sigs}

theorem forall_mem_append {α : Type} {P : α → Prop} {l1 l2 : List α}
    (h1 : ∀ c ∈ l1, P c) (h2 : ∀ c ∈ l2, P c) : ∀ c ∈ l1 ++ l2, P c := by
  intro c hc
  rcases List.mem_append.mp hc with h | h
  · exact h1 c h
  · exact h2 c h

/-- what `Revise` guarantees, as the clause list `onlyValuesChanged` plus the untouched file fields -/
theorem revise_clauses {cur r : Rev} {no : Nat} {vv mv : List Nat} (h : revise cur no vv mv = .ok r) :
    (∀ c ∈ onlyValuesChanged cur r no vv mv, c.2 = true) ∧ r.filesize = cur.filesize ∧ r.root = cur.root := by
  have hr := revise_ok h
  refine ⟨?_, hr.2.2.2.2.2.2.2.2.2.2.2.1, hr.2.2.2.2.2.2.2.2.2.2.2.2⟩
  intro c hc
  simp only [onlyValuesChanged, List.mem_cons, List.mem_nil_iff, or_false] at hc
  rcases hc with rfl | rfl | rfl
  · simpa using hr.1
  · simpa using ⟨hr.2.2.2.1, hr.2.2.2.2.1⟩
  · simpa using ⟨hr.2.2.2.2.2.1, hr.2.2.2.2.2.2.1⟩

/-- **RHP2 rpcSectorRoots / rpcRead / rpcWrite.** -/
theorem rhp2Pay_accept_safe {fx : Bool} {i : SiteIn} {r : Rev} (h : rhp2Pay fx i = .ok r)
    (hwf : fx = false → total i.cur.missed = total i.cur.valid) :
    (∀ c ∈ revisionClauses i.cur r i.price i.burn, c.2 = true) ∧
    (∀ c ∈ onlyValuesChanged i.cur r i.no i.vv i.mv, c.2 = true) ∧
    r.filesize = i.cur.filesize ∧ r.root = i.cur.root ∧ i.sigOK = true ∧ i.cur.revNo ≠ maxRev := by
  unfold rhp2Pay at h
  res_ok' at h
  obtain ⟨hlock, r', hrev, ret, hval, hsig, rfl⟩ := h
  have hc := revise_clauses hrev
  exact ⟨validateRevision_accept_safe hval hwf, hc.1, hc.2.1, hc.2.2, by simpa using hsig, hlock⟩

theorem paidAmount_ok {cur r : Rev} {a : Nat} (h : paidAmount cur r = .ok a) : a = paid cur r := by
  unfold paidAmount at h
  res_ok' at h
  obtain ⟨cvr, ⟨c', hc⟩, rvr, ⟨r', hr⟩, _, rfl⟩ := h
  simp [paid, hc, hr, renterVal_cons]

/-- **RHP3 pay-by-contract.** the host's valid and missed payouts gain exactly what the renter's
valid payout loses, and that amount is what is credited to the account. -/
theorem rhp3Pay_accept_safe {fx : Bool} {i : SiteIn} {r : Rev} {credited : Nat} (h : rhp3Pay fx i = .ok (r, credited))
    (hwf : fx = false → total i.cur.missed = total i.cur.valid) :
    (∀ c ∈ revisionClauses i.cur r (paid i.cur r) 0, c.2 = true) ∧
    (∀ c ∈ onlyValuesChanged i.cur r i.no i.vv i.mv, c.2 = true) ∧
    r.filesize = i.cur.filesize ∧ r.root = i.cur.root ∧ i.sigOK = true ∧ credited = paid i.cur r := by
  unfold rhp3Pay at h
  res_ok' at h
  obtain ⟨r', hrev, a, ha, u, hval, hsig, rfl, rfl⟩ := h
  have hc := revise_clauses hrev
  have hp := paidAmount_ok ha
  subst hp
  exact ⟨validatePayment_accept_safe hval hwf, hc.1, hc.2.1, hc.2.2, by simpa using hsig, rfl⟩

/-- **RHP3 fund account.** as pay-by-contract; the payment covers the fund account cost and the
remainder is what is credited. -/
theorem rhp3Fund_accept_safe {fx : Bool} {i : SiteIn} {r : Rev} {credited : Nat} (h : rhp3Fund fx i = .ok (r, credited))
    (hwf : fx = false → total i.cur.missed = total i.cur.valid) :
    (∀ c ∈ revisionClauses i.cur r (paid i.cur r) 0, c.2 = true) ∧
    (∀ c ∈ onlyValuesChanged i.cur r i.no i.vv i.mv, c.2 = true) ∧
    r.filesize = i.cur.filesize ∧ r.root = i.cur.root ∧ i.sigOK = true ∧
    i.price ≤ paid i.cur r ∧ credited + i.price = paid i.cur r := by
  unfold rhp3Fund at h
  res_ok' at h
  obtain ⟨r', hrev, a, ha, hcost, u, hval, hsig, rfl, rfl⟩ := h
  have hc := revise_clauses hrev
  have hp := paidAmount_ok ha
  subst hp
  exact ⟨validatePayment_accept_safe hval hwf, hc.1, hc.2.1, hc.2.2, by simpa using hsig, hcost, by omega⟩

/-- **RHP3 program finalisation.** price 0 (the budget pays), burn at most storage + collateral. -/
theorem rhp3Finalize_accept_safe {fx : Bool} {i : SiteIn} {r : Rev} (h : rhp3Finalize fx i = .ok r)
    (hwf : fx = false → total i.cur.missed = total i.cur.valid) :
    (∀ c ∈ revisionClauses i.cur r 0 i.burn, c.2 = true) ∧
    (∀ c ∈ onlyValuesChanged i.cur r i.no i.vv i.mv, c.2 = true) ∧ i.sigOK = true := by
  unfold rhp3Finalize at h
  res_ok' at h
  obtain ⟨r', hrev, b, hval, hsig, rfl⟩ := h
  have hc := revise_clauses hrev
  have := validateProgram_accept_safe hval hwf
  simp only [Nat.add_zero] at this
  exact ⟨this, hc.1, by simpa using hsig⟩

/-- **accept_safe, uniformly over the Revise-built sites**: the guard of the site implies every
clause the monitor `accept_safe/<site>/<clause>` evaluates. -/
theorem signRevise_accept_safe {fx : Bool} {s : SignSite} {i : SiteIn} {r : Rev} {credited : Nat}
    (h : signRevise fx s i = .ok (r, credited))
    (hwf : fx = false → total i.cur.missed = total i.cur.valid) :
    (∀ c ∈ siteClauses s i r credited, c.2 = true) ∧ i.sigOK = true := by
  cases s <;> simp only [signRevise, siteClauses] at h ⊢
  case rhp2SectorRoots =>
    res_ok' at h; obtain ⟨r', hr, rfl, rfl⟩ := h
    have hs := rhp2Pay_accept_safe hr hwf
    refine ⟨forall_mem_append (forall_mem_append hs.1 hs.2.1) ?_, hs.2.2.2.2.1⟩
    intro c hc; simp at hc; subst hc; simpa using ⟨hs.2.2.1, hs.2.2.2.1⟩
  case rhp2Read =>
    res_ok' at h; obtain ⟨r', hr, rfl, rfl⟩ := h
    have hs := rhp2Pay_accept_safe hr hwf
    refine ⟨forall_mem_append (forall_mem_append hs.1 hs.2.1) ?_, hs.2.2.2.2.1⟩
    intro c hc; simp at hc; subst hc; simpa using ⟨hs.2.2.1, hs.2.2.2.1⟩
  case rhp2Write =>
    res_ok' at h; obtain ⟨r', hr, rfl, rfl⟩ := h
    have hs := rhp2Pay_accept_safe hr hwf
    exact ⟨forall_mem_append hs.1 hs.2.1, hs.2.2.2.2.1⟩
  case rhp3Finalize =>
    res_ok' at h; obtain ⟨r', hr, rfl, rfl⟩ := h
    have hs := rhp3Finalize_accept_safe hr hwf
    exact ⟨forall_mem_append hs.1 hs.2.1, hs.2.2⟩
  case rhp3Pay =>
    have hs := rhp3Pay_accept_safe h hwf
    refine ⟨forall_mem_append (forall_mem_append hs.1 hs.2.1) ?_, hs.2.2.2.2.1⟩
    intro c hc; simp at hc
    rcases hc with rfl | rfl
    · simp [hs.2.2.1, hs.2.2.2.1]
    · simp [hs.2.2.2.2.2]
  case rhp3Fund =>
    have hs := rhp3Fund_accept_safe h hwf
    refine ⟨forall_mem_append (forall_mem_append hs.1 hs.2.1) ?_, hs.2.2.2.2.1⟩
    intro c hc; simp at hc
    rcases hc with rfl | rfl | rfl
    · simp [hs.2.2.1, hs.2.2.2.1]
    · simp [hs.2.2.2.2.2.1]
    · simp [hs.2.2.2.2.2.2]
  all_goals (cases h)

/-! ### the renewal sites -/

/-- **RHP2 renew-and-clear, clearing signature**: the clearing revision the host builds and counter-signs
satisfies the clearing clauses (`hU`: revision numbers are uint64; current tree: two valid outputs). -/
theorem rpcRenew2_clearing_safe {fx : Bool} {rh expUH h : Nat} {e r : Rev} {fv : List Nat} {st : Settings} {rec : Recorded}
    (hh : rpcRenew2 fx rh e r fv expUH h st sg = .ok rec) (hU : e.revNo ≤ maxRev)
    (hwf : fx = false → e.valid.length = 2) :
    ∃ clearing pay, clearingRevision e fv = .ok clearing ∧ ∀ c ∈ clearingClauses e clearing pay, c.2 = true := by
  unfold rpcRenew2 at hh
  res_ok' at hh
  obtain ⟨_, hlock, hrh, clearing, hclr, evr, _, fp, hfp, _⟩ := hh
  exact ⟨clearing, _, hclr, validateClearing_accept_safe hfp hU (fun hf => ⟨hwf hf, hlock⟩)⟩

/-! ### the table -/

/-- what "the signing site is guarded" means, per site: whenever the model of the handler path reaches
the host signature, the clauses of the site hold between the revision the host held and the revision it
signs (well-formedness hypotheses only for the unrepaired variant `fx = false`). -/
def SiteGuarded : SignSite → Prop
  | .rhp2Form => ∀ (rh expUH h : Nat) (fc : Rev) (st : Settings) (rec : Recorded) (sg : Sigs),
      rpcForm2 rh fc expUH h st sg = .ok rec → ∀ cl ∈ contractClauses fc h st 0 rec.locked, cl.2 = true
  | .rhp2RenewClearing => ∀ (fx : Bool) (rh expUH h : Nat) (e r : Rev) (fv : List Nat) (st : Settings) (rec : Recorded) (sg : Sigs),
      rpcRenew2 fx rh e r fv expUH h st sg = .ok rec → e.revNo ≤ maxRev → (fx = false → e.valid.length = 2) →
      ∃ clearing pay, clearingRevision e fv = .ok clearing ∧ ∀ c ∈ clearingClauses e clearing pay, c.2 = true
  | .rhp2RenewContract => ∀ (fx : Bool) (rh expUH h : Nat) (e r : Rev) (fv : List Nat) (st : Settings) (rec : Recorded) (sg : Sigs),
      rpcRenew2 fx rh e r fv expUH h st sg = .ok rec →
      ∀ cl ∈ contractClauses r h st (baseCost st.storagePrice e r) rec.locked, cl.2 = true
  | .rhp3RenewClearing => ∀ (fx : Bool) (rh expUH h : Nat) (e k r : Rev) (st : Settings) (rec : Recorded) (sg : Sigs),
      rpcRenew3 fx rh e k r expUH h st sg = .ok rec → e.revNo ≤ maxRev →
      (fx = false → e.valid.length = 2 ∧ e.revNo ≠ maxRev) → ∀ c ∈ clearingClauses e k 0, c.2 = true
  | .rhp3RenewContract => ∀ (fx : Bool) (rh expUH h : Nat) (e k r : Rev) (st : Settings) (rec : Recorded) (sg : Sigs),
      rpcRenew3 fx rh e k r expUH h st sg = .ok rec →
      ∀ cl ∈ contractClauses r h st (st.renewCost + baseCost st.storagePrice e r) rec.locked, cl.2 = true
  | .rhp3FundReceipt => True     -- a receipt, not a contract revision; the revision is signed at `.rhp3Fund`
  | s => ∀ (fx : Bool) (i : SiteIn) (r : Rev) (credited : Nat), signRevise fx s i = .ok (r, credited) →
      (fx = false → total i.cur.missed = total i.cur.valid) →
      (∀ c ∈ siteClauses s i r credited, c.2 = true) ∧ i.sigOK = true

/-- **every signing site of the table is guarded** -/
theorem all_sites_guarded : ∀ s : SignSite, SiteGuarded s := by
  intro s
  cases s <;> simp only [SiteGuarded]
  case rhp2Form => intro rh expUH h fc st rec sg hh; exact (rpcForm2_accept_safe hh).2.1
  case rhp2RenewClearing => intro fx rh expUH h e r fv st rec sg hh hU hwf; exact rpcRenew2_clearing_safe hh hU hwf
  case rhp2RenewContract => intro fx rh expUH h e r fv st rec sg hh; exact (rpcRenew2_accept_safe hh).2.1
  case rhp3RenewClearing => intro fx rh expUH h e k r st rec sg hh hU hwf; exact rpcRenew3_clearing_safe hh hU hwf
  case rhp3RenewContract => intro fx rh expUH h e k r st rec sg hh; exact (rpcRenew3_accept_safe hh).2.1
  all_goals (intro fx i r credited hh hwf; exact signRevise_accept_safe hh hwf)

/-- the table names every signing site, each exactly once -/
theorem signingSites_complete (s : SignSite) : (signingSites.filter fun i => i.site == s).length = 1 := by
  cases s <;> decide

/-- a site whose revision comes from `Revise` is guarded by a revision validator, the others by the
formation / renewal / clearing validators -/
theorem signingSites_guards :
    signingSites.map (fun i => (i.site, i.guard)) =
      [(.rhp2Form, .formation), (.rhp2RenewClearing, .clearing), (.rhp2RenewContract, .renewal2),
       (.rhp2SectorRoots, .revision), (.rhp2Write, .revision), (.rhp2Read, .revision), (.rhp3Finalize, .program),
       (.rhp3Pay, .payment), (.rhp3Fund, .payment), (.rhp3FundReceipt, .none), (.rhp3RenewClearing, .clearing),
       (.rhp3RenewContract, .renewal3)] := by decide

/-! ### no_panic at the sites (repaired variant) -/

theorem revise_lengths {cur r : Rev} {no : Nat} {vv mv : List Nat} (h : revise cur no vv mv = .ok r) :
    r.valid.length = cur.valid.length ∧ r.missed.length = cur.missed.length := by
  have hr := revise_ok h
  have h1 := congrArg List.length hr.2.2.2.2.2.1
  have h2 := congrArg List.length hr.2.2.2.2.2.2.1
  simp [addrs] at h1 h2
  exact ⟨h1, h2⟩

theorem paidAmount_noPanic {cur r : Rev} (h1 : 0 < cur.valid.length) (h2 : 0 < r.valid.length) :
    NoPanic (paidAmount cur r) := by
  unfold paidAmount
  refine NoPanic.bind (out0_noPanic h1) fun _ _ => ?_
  refine NoPanic.bind (out0_noPanic h2) fun _ _ => ?_
  refine NoPanic.bind (check_noPanic _ _) fun _ _ => ?_
  exact NoPanic.pure _

/-- `he`: the host's own revision has a renter output (`current.ValidRenterPayout()` is evaluated
before the payment validator at the two payment sites). -/
theorem signRevise_no_panic_fixed_partial (s : SignSite) (i : SiteIn) (he : 0 < i.cur.valid.length) :
    NoPanic (signRevise true s i) := by
  cases s <;> simp only [signRevise]
  case rhp2SectorRoots =>
    refine NoPanic.bind ?_ fun _ _ => NoPanic.pure _
    unfold rhp2Pay
    refine NoPanic.bind (check_noPanic _ _) fun _ _ => ?_
    refine NoPanic.bind (revise_no_panic _ _ _ _) fun _ _ => ?_
    refine NoPanic.bind (validateRevision_noPanic (Or.inl rfl)) fun _ _ => ?_
    refine NoPanic.bind (check_noPanic _ _) fun _ _ => NoPanic.pure _
  case rhp2Read =>
    refine NoPanic.bind ?_ fun _ _ => NoPanic.pure _
    unfold rhp2Pay
    refine NoPanic.bind (check_noPanic _ _) fun _ _ => ?_
    refine NoPanic.bind (revise_no_panic _ _ _ _) fun _ _ => ?_
    refine NoPanic.bind (validateRevision_noPanic (Or.inl rfl)) fun _ _ => ?_
    refine NoPanic.bind (check_noPanic _ _) fun _ _ => NoPanic.pure _
  case rhp2Write =>
    refine NoPanic.bind ?_ fun _ _ => NoPanic.pure _
    unfold rhp2Pay
    refine NoPanic.bind (check_noPanic _ _) fun _ _ => ?_
    refine NoPanic.bind (revise_no_panic _ _ _ _) fun _ _ => ?_
    refine NoPanic.bind (validateRevision_noPanic (Or.inl rfl)) fun _ _ => ?_
    refine NoPanic.bind (check_noPanic _ _) fun _ _ => NoPanic.pure _
  case rhp3Finalize =>
    refine NoPanic.bind ?_ fun _ _ => NoPanic.pure _
    unfold rhp3Finalize
    refine NoPanic.bind (revise_no_panic _ _ _ _) fun _ _ => ?_
    refine NoPanic.bind (validateProgram_noPanic (Or.inl rfl)) fun _ _ => ?_
    refine NoPanic.bind (check_noPanic _ _) fun _ _ => NoPanic.pure _
  case rhp3Pay =>
    unfold rhp3Pay
    refine NoPanic.bind (revise_no_panic _ _ _ _) fun r hr => ?_
    have hl := revise_lengths hr
    refine NoPanic.bind (paidAmount_noPanic he (by omega)) fun _ _ => ?_
    refine NoPanic.bind (validatePayment_noPanic (Or.inl rfl)) fun _ _ => ?_
    refine NoPanic.bind (check_noPanic _ _) fun _ _ => NoPanic.pure _
  case rhp3Fund =>
    unfold rhp3Fund
    refine NoPanic.bind (revise_no_panic _ _ _ _) fun r hr => ?_
    have hl := revise_lengths hr
    refine NoPanic.bind (paidAmount_noPanic he (by omega)) fun _ _ => ?_
    refine NoPanic.bind (check_noPanic _ _) fun _ _ => ?_
    refine NoPanic.bind (validatePayment_noPanic (Or.inl rfl)) fun _ _ => ?_
    refine NoPanic.bind (check_noPanic _ _) fun _ _ => NoPanic.pure _
  all_goals exact NoPanic.reject _

/-! examples: the hypotheses are satisfiable, and a hostile fund-account revision is stopped by the guard -/

/-- honest fund account: pay 30 (fund cost 10), credited 20 -/
def exFundIn : SiteIn :=
  { cur := exCur, no := 6, vv := [70, 80], mv := [70, 70, 10], price := 10, burn := 0, sigOK := true }
example : (signRevise true .rhp3Fund exFundIn).isOk = true := by decide +kernel
example : ∃ r, signRevise true .rhp3Fund exFundIn = .ok (r, 20) := by
  refine ⟨{ exCur with revNo := 6, valid := [⟨1, 70⟩, ⟨2, 80⟩], missed := [⟨1, 70⟩, ⟨2, 70⟩, ⟨0, 10⟩] }, ?_⟩
  decide +kernel
/-- the renter moves the host's missed payout into the void while "paying": rejected by the payment
validator — without that call (mutant) the revision would be signed and `host_missed_loss_bounded` false -/
example : signRevise true .rhp3Fund { exFundIn with mv := [70, 0, 80] } = .reject .hostMissedNotIncreased := by
  decide +kernel
example : ("host_missed_loss_bounded", false) ∈
    siteClauses .rhp3Fund { exFundIn with mv := [70, 0, 80] }
      { exCur with revNo := 6, valid := [⟨1, 70⟩, ⟨2, 80⟩], missed := [⟨1, 70⟩, ⟨2, 0⟩, ⟨0, 80⟩] } 20 := by decide +kernel
/-- honest RHP2 write: pay 10, burn 5 -/
example : (signRevise true .rhp2Write
    { cur := exCur, no := 6, vv := [90, 60], mv := [90, 35, 25], price := 10, burn := 5, sigOK := true }).isOk = true := by
  decide +kernel

end Hostd.Revision
