import Hostd.Model.Mdm
import Hostd.Props.C02
/-!
C02 × C14 — the upload protocol of the RPC handlers.

The volumes engine proves `C02_sync_durable` ("durable once Sync returned") for its storage model and
lets its generator play the RPC layer.  This file states what the RPC layer has to contribute and ties
it to the commit order transcribed in `Hostd.Mdm.CommitShape`: a handler that calls `Sync` before it
commits the revision leaves no non-durable slot behind at the moment the reference exists.  That the
real handlers have this shape is observed by the `mdm` wire harness (monitor
`c02/rpc_commit_synced/<site>`, second engine of C02).
-/
namespace Hostd.Props.C02Rpc
open Hostd.Volumes Hostd.Props.C02

/-- committing a revision does not touch the volume files -/
theorem revise1_vols (s : State) (c : Nat) (chs : List Change) : (revise1 s c chs).1.vols = s.vols := by
  unfold revise1
  split
  · rfl
  · split
    · rfl
    · rfl
    · split <;> rfl

/-- what an upload-carrying handler does at its end, in the volumes model -/
def handlerCommit (sh : Hostd.Mdm.CommitShape) (s : State) (c : Nat) (chs : List Change) : State :=
  (revise1 (if sh.syncBeforeCommit then sync s else s) c chs).1

/-- **rpc_commit_synced.**  For a handler with the shape "Sync, then commit" (`rhp3CommitShape`,
`rhp2WriteShape`), under the storage invariant and with no other Sync in flight, every slot is durable
when the revision has been committed — in particular every slot the new revision references. -/
theorem rpc_commit_synced (sh : Hostd.Mdm.CommitShape) (hsh : sh.syncBeforeCommit = true) {s : State}
    (h : DataInv s) (hidle : s.inflight = []) (c : Nat) (chs : List Change) :
    ∀ v i sl, slotAt (handlerCommit sh s c chs).vols v i = some sl → sl.durable = true := by
  intro v i sl hsl
  simp only [handlerCommit, hsh, if_true, revise1_vols] at hsl
  exact C02_sync_durable h hidle v i sl hsl

theorem rhp3_commit_synced {s : State} (h : DataInv s) (hidle : s.inflight = []) (c : Nat) (chs : List Change) :
    ∀ v i sl, slotAt (handlerCommit Hostd.Mdm.rhp3CommitShape s c chs).vols v i = some sl → sl.durable = true :=
  rpc_commit_synced _ rfl h hidle c chs

theorem rhp2_write_synced {s : State} (h : DataInv s) (hidle : s.inflight = []) (c : Nat) (chs : List Change) :
    ∀ v i sl, slotAt (handlerCommit Hostd.Mdm.rhp2WriteShape s c chs).vols v i = some sl → sl.durable = true :=
  rpc_commit_synced _ rfl h hidle c chs

/-- the shape matters: a handler that commits without Sync (the mutant that drops `pe.sectors.Sync()`)
references a sector whose slot is not durable; after a power loss the read returns garbage -/
def noSyncOps : List Op :=
  [.vmAddVolume 1 3, .addC1 1 40, .newBuf (.dataOf 1), .reserve 0 1 0 (some (1, 0)), .finish 0 true,
   .revise1 1 [.append 1], .crash [(1, 0)]]

theorem commit_without_sync_witness :
    referenced (run Facts.code (init 0) noSyncOps) 1 = true ∧ (run Facts.code (init 0) noSyncOps).lostNow = [] ∧
      readContent (run Facts.code (init 0) noSyncOps) 1 = some .garbage := by decide

end Hostd.Props.C02Rpc
