import Hostd.Model.Txn
/-!
C09 — Persistent operations and chain-update batches are all-or-nothing.

All theorems are about `Hostd.Txn` (Model/Txn.lean).  Quantification: every
statement count, every failure index `k` (and `none` = no failure), every
database value, every statement effect.
-/
namespace Hostd.Txn

variable {α β : Type}

/-! ### helper lemmas about `exec` -/

theorem exec_nil (m : Sem α β) (k : Option Nat) (s : St α β) : exec m [] k s = (s, .done) := by
  simp [exec]

/-- mirror writes cannot fail and do not look at the failure index -/
theorem exec_mirrors (m : Sem α β) (ms : Shape) (hms : ∀ x ∈ ms, x.isMirror = true)
    (k : Option Nat) (s : St α β) :
    (exec m ms k s).2 = .done ∧ (exec m ms k s).1.db = s.db ∧ (exec m ms k s).1.tx = s.tx ∧
    (exec m ms k s).1.mirror = (if ms = [] then s.mirror else m.goal) := by
  induction ms generalizing s with
  | nil => simp [exec]
  | cons x rest ih =>
    have hx := hms x (by simp)
    have hrest : ∀ y ∈ rest, y.isMirror = true := fun y hy => hms y (by simp [hy])
    cases x <;> simp [Step.isMirror] at hx
    · -- cacheWrite
      simp only [exec, Step.fallible]
      have := ih hrest (applyStep m s .cacheWrite)
      obtain ⟨h1, h2, h3, h4⟩ := this
      refine ⟨h1, ?_, ?_, ?_⟩
      · simpa [applyStep] using h2
      · simpa [applyStep] using h3
      · by_cases hr : rest = []
        · subst hr; simp [exec, applyStep]
        · simp [hr] at h4; simpa using h4
    · -- memWrite
      simp only [exec, Step.fallible]
      have := ih hrest (applyStep m s .memWrite)
      obtain ⟨h1, h2, h3, h4⟩ := this
      refine ⟨h1, ?_, ?_, ?_⟩
      · simpa [applyStep] using h2
      · simpa [applyStep] using h3
      · by_cases hr : rest = []
        · subst hr; simp [exec, applyStep]
        · simp [hr] at h4; simpa using h4

/-- a failure among the statements of an open transaction: rolled back, nothing else touched -/
theorem exec_stmts_fail (m : Sem α β) (rest : Shape) (n j : Nat) (s : St α β) (v : α)
    (hs : s.tx = some v) (hj : j < n) :
    (exec m (List.replicate n .stmt ++ rest) (some j) s).2 = .failed ∧
    (exec m (List.replicate n .stmt ++ rest) (some j) s).1.db = s.db ∧
    (exec m (List.replicate n .stmt ++ rest) (some j) s).1.mirror = s.mirror ∧
    (exec m (List.replicate n .stmt ++ rest) (some j) s).1.tx = none ∧
    (exec m (List.replicate n .stmt ++ rest) (some j) s).1.written = s.written ∧
    (exec m (List.replicate n .stmt ++ rest) (some j) s).1.synced = s.synced := by
  induction n generalizing j s v with
  | zero => omega
  | succ n ih =>
    cases j with
    | zero => simp [List.replicate_succ, exec, Step.fallible, abort]
    | succ j =>
      simp only [List.replicate_succ, List.cons_append, exec, Step.fallible, if_true]
      have hs' : (applyStep m s .stmt).tx = some (m.eff s.nst v) := by simp [applyStep, hs]
      have := ih j (applyStep m s .stmt) (m.eff s.nst v) hs' (by omega)
      simpa [applyStep, hs] using this

/-- the failure index lies beyond the statements: they all run inside the transaction -/
theorem exec_stmts_pass (m : Sem α β) (rest : Shape) (n : Nat) (k : Option Nat) (s : St α β) (v : α)
    (hs : s.tx = some v) (hk : ∀ j, k = some j → n ≤ j) :
    exec m (List.replicate n .stmt ++ rest) k s =
      exec m rest (k.map (· - n)) { s with tx := some (iter m.eff s.nst n v), nst := s.nst + n } := by
  induction n generalizing k s v with
  | zero =>
    cases s; cases k <;> simp_all [iter]
  | succ n ih =>
    simp only [List.replicate_succ, List.cons_append]
    have hs' : (applyStep m s .stmt).tx = some (m.eff s.nst v) := by simp [applyStep, hs]
    cases k with
    | none =>
      simp only [exec, Step.fallible, if_true]
      rw [ih none (applyStep m s .stmt) (m.eff s.nst v) hs' (by simp)]
      simp [applyStep, hs, iter, Nat.add_assoc, Nat.add_comm 1 n]
    | some j =>
      have hj := hk j rfl
      cases j with
      | zero => omega
      | succ j =>
        simp only [exec, Step.fallible, if_true]
        rw [ih (some j) (applyStep m s .stmt) (m.eff s.nst v) hs' (by intro j' h; cases h; omega)]
        simp [applyStep, hs, iter, Nat.add_assoc, Nat.add_comm 1 n]

/-- number of database calls of `beginTx stmt^n commit` -/
theorem fallibleCount_singleTx (n : Nat) (ms : Shape) (hms : ∀ x ∈ ms, x.isMirror = true) :
    fallibleCount (singleTx n ms) = n + 2 := by
  have h1 : (List.replicate n Step.stmt).filter Step.fallible = List.replicate n Step.stmt := by
    apply List.filter_eq_self.mpr; intro a ha; rw [List.eq_of_mem_replicate ha]; rfl
  have h2 : ms.filter Step.fallible = [] := by
    apply List.filter_eq_nil_iff.mpr
    intro a ha; have := hms a ha
    cases a <;> simp_all [Step.isMirror, Step.fallible]
  simp [fallibleCount, singleTx, List.filter_cons, Step.fallible, List.filter_append, h1, h2]

/-- The outcome of one transaction followed by mirror writes, from any state
without an open transaction.  Either the failure index hits one of the `n+2`
database calls — then database and mirror are what they were — or everything
ran. -/
theorem exec_singleTx (m : Sem α β) (n : Nat) (ms : Shape) (hms : ∀ x ∈ ms, x.isMirror = true)
    (k : Option Nat) (s : St α β) (_hs : s.tx = none) :
    ((∃ j, k = some j ∧ j < n + 2) ∧
      (exec m (singleTx n ms) k s).2 = .failed ∧ (exec m (singleTx n ms) k s).1.db = s.db ∧
      (exec m (singleTx n ms) k s).1.mirror = s.mirror ∧ (exec m (singleTx n ms) k s).1.tx = none)
    ∨
    ((∀ j, k = some j → n + 2 ≤ j) ∧
      (exec m (singleTx n ms) k s).2 = .done ∧
      (exec m (singleTx n ms) k s).1.db = iter m.eff s.nst n s.db ∧
      (exec m (singleTx n ms) k s).1.mirror = (if ms = [] then s.mirror else m.goal) ∧
      (exec m (singleTx n ms) k s).1.tx = none) := by
  unfold singleTx
  -- the step after beginTx
  have hb : (applyStep m s .beginTx).tx = some s.db := by simp [applyStep]
  cases k with
  | none =>
    right
    simp only [exec, Step.fallible, if_true]
    rw [exec_stmts_pass m _ n none _ s.db hb (by simp)]
    simp only [exec, Step.fallible, if_true, Option.map_none]
    obtain ⟨h1, h2, h3, h4⟩ := exec_mirrors m ms hms none
      (applyStep m { applyStep m s .beginTx with tx := some (iter m.eff (applyStep m s .beginTx).nst n s.db),
                                                   nst := (applyStep m s .beginTx).nst + n } .commit)
    refine ⟨by simp, h1, ?_, ?_, ?_⟩
    · rw [h2]; simp [applyStep]
    · rw [h4]; simp [applyStep]
    · rw [h3]; simp [applyStep]
  | some j =>
    cases j with
    | zero =>
      left
      refine ⟨⟨0, rfl, by omega⟩, ?_⟩
      simp [exec, Step.fallible, abort]
    | succ j =>
      simp only [exec, Step.fallible, if_true]
      by_cases hjn : j < n
      · left
        obtain ⟨h1, h2, h3, h4, _, _⟩ := exec_stmts_fail m (.commit :: ms) n j (applyStep m s .beginTx) s.db hb hjn
        refine ⟨⟨j + 1, rfl, by omega⟩, h1, ?_, ?_, h4⟩
        · rw [h2]; simp [applyStep]
        · rw [h3]; simp [applyStep]
      · rw [exec_stmts_pass m _ n (some j) _ s.db hb (by intro j' h; cases h; omega)]
        by_cases hje : j = n
        · left
          subst hje
          refine ⟨⟨j + 1, rfl, by omega⟩, ?_⟩
          simp [exec, Step.fallible, abort, applyStep]
        · right
          have hgt : n < j := by omega
          obtain ⟨d, hd⟩ : ∃ d, j - n = d + 1 := ⟨j - n - 1, by omega⟩
          simp only [Option.map_some, hd, exec, Step.fallible, if_true]
          obtain ⟨h1, h2, h3, h4⟩ := exec_mirrors m ms hms (some d)
            (applyStep m { applyStep m s .beginTx with tx := some (iter m.eff (applyStep m s .beginTx).nst n s.db),
                                                         nst := (applyStep m s .beginTx).nst + n } .commit)
          refine ⟨by intro j' h; cases h; omega, h1, ?_, ?_, ?_⟩
          · rw [h2]; simp [applyStep]
          · rw [h4]; simp [applyStep]
          · rw [h3]; simp [applyStep]

/-! ### single_tx_atomic -/

/-- shapes of the form `beginTx stmt* commit (cacheWrite|memWrite)*` -/
def SingleTxForm (sh : Shape) : Prop :=
  ∃ n ms, sh = singleTx n ms ∧ ∀ x ∈ ms, x.isMirror = true

/-- **single_tx_atomic.**  For every shape `beginTx stmt^n commit ms` whose
mirror writes `ms` come only after the commit, every statement semantics, every
database value and EVERY failure index `k`: started between operations, the
operation either fails with database and mirror both unchanged, or completes
with both fully updated; no transaction stays open.  (`hgoal`: the value the
manager writes into its copy is the view of what the statements produce —
that is C03's business; `hview`: an operation without mirror writes does not
change mirrored data.) -/
theorem single_tx_atomic (m : Sem α β) (view : α → β) (sh : Shape) (hsh : SingleTxForm sh)
    (d0 : α) (k : Option Nat) :
    ∀ n ms, sh = singleTx n ms → (∀ x ∈ ms, x.isMirror = true) →
    m.goal = view (iter m.eff 0 n d0) →
    (ms = [] → view (iter m.eff 0 n d0) = view d0) →
    let r := exec m sh k (quiescent view d0)
    (r.2 = .failed ∧ r.1.db = d0 ∧ r.1.mirror = view d0 ∧ r.1.tx = none) ∨
    (r.2 = .done ∧ r.1.db = iter m.eff 0 n d0 ∧ r.1.mirror = view (iter m.eff 0 n d0) ∧ r.1.tx = none) := by
  intro n ms hshape hms hgoal hview
  subst hshape
  have := exec_singleTx m n ms hms k (quiescent view d0) rfl
  rcases this with ⟨_, h1, h2, h3, h4⟩ | ⟨_, h1, h2, h3, h4⟩
  · left; exact ⟨h1, by simpa [quiescent] using h2, by simpa [quiescent] using h3, h4⟩
  · right
    refine ⟨h1, by simpa [quiescent] using h2, ?_, h4⟩
    rw [h3]
    by_cases hm : ms = []
    · simp [hm, quiescent, hview hm]
    · simp [hm, hgoal]

/-- … and so `mirror agrees with db` is preserved whatever `k` is. -/
theorem single_tx_agrees (m : Sem α β) (view : α → β) (n : Nat) (ms : Shape)
    (hms : ∀ x ∈ ms, x.isMirror = true) (d0 : α) (k : Option Nat)
    (hgoal : m.goal = view (iter m.eff 0 n d0))
    (hview : ms = [] → view (iter m.eff 0 n d0) = view d0) :
    agrees view (exec m (singleTx n ms) k (quiescent view d0)).1 := by
  have := single_tx_atomic m view (singleTx n ms) ⟨n, ms, rfl, hms⟩ d0 k n ms rfl hms hgoal hview
  simp only at this
  rcases this with ⟨_, h2, h3, _⟩ | ⟨_, h2, h3, _⟩ <;> simp [agrees, h2, h3]

/-- the operation reports failure exactly when the failure index is one of its `n+2` database calls -/
theorem single_tx_fails_iff (m : Sem α β) (view : α → β) (n : Nat) (ms : Shape)
    (hms : ∀ x ∈ ms, x.isMirror = true) (d0 : α) (k : Option Nat) :
    (exec m (singleTx n ms) k (quiescent view d0)).2 = .failed ↔ ∃ j, k = some j ∧ j < n + 2 := by
  rcases exec_singleTx m n ms hms k (quiescent view d0) rfl with ⟨hk, h1, _⟩ | ⟨hk, h1, _⟩
  · simp [h1, hk]
  · rw [h1]
    constructor
    · intro h; cases h
    · rintro ⟨j, hj, hlt⟩; have := hk j hj; omega

/-- non-vacuity: a 3-statement operation on a counter with a cache; failing the commit (k = 4) leaves 0/0,
no failure gives 3/3 -/
example : let m : Sem Nat Nat := { eff := fun _ v => v + 1, goal := 3 }
    ((exec m (singleTx 3 [.cacheWrite]) (some 4) (quiescent id 0)).1.db,
     (exec m (singleTx 3 [.cacheWrite]) (some 4) (quiescent id 0)).1.mirror,
     (exec m (singleTx 3 [.cacheWrite]) none (quiescent id 0)).1.db,
     (exec m (singleTx 3 [.cacheWrite]) none (quiescent id 0)).1.mirror) = (0, 0, 3, 3) := by decide

/-! ### the code's shapes -/

/-- The table read from the code passes the regular-expression check. -/
theorem shapeOK_codeShapes : ShapeOK codeShapes = true := by decide

/-- An entry that passes the check expands to the all-or-nothing form. -/
theorem entryOK_single_form (o : OpShape) (hk : o.kind = .single) (hok : entryOK o = true) (ns : List Nat) :
    SingleTxForm (o.expand ns) ∧ (o.mirrored = true → o.post ≠ []) := by
  simp only [entryOK, hk, Bool.and_eq_true, List.isEmpty_iff, List.all_eq_true, Bool.or_eq_true,
    Bool.not_eq_true'] at hok
  obtain ⟨⟨hpre, hpost⟩, hmir⟩ := hok
  constructor
  · cases ns with
    | nil => exact ⟨0, o.post, by simp [OpShape.expand, hk, hpre], hpost⟩
    | cons n _ => exact ⟨n, o.post, by simp [OpShape.expand, hk, hpre], hpost⟩
  · intro hm hp
    rcases hmir with h | h
    · simp [hm] at h
    · simp [hp] at h

/-- **single_tx_atomic for any table that passes the shape check**: every
`single` or `indexer` entry, every statement count, every failure index. -/
theorem table_atomic (t : List OpShape) (ht : ShapeOK t = true) (o : OpShape) (ho : o ∈ t)
    (hk : o.kind = .single ∨ o.kind = .indexer)
    (m : Sem α β) (view : α → β) (n : Nat) (d0 : α) (k : Option Nat)
    (hgoal : m.goal = view (iter m.eff 0 n d0))
    (hview : o.mirrored = false → view (iter m.eff 0 n d0) = view d0) :
    let r := exec m (o.expand [n]) k (quiescent view d0)
    ((r.2 = .failed ∧ r.1.db = d0 ∧ r.1.mirror = view d0) ∨
     (r.2 = .done ∧ r.1.db = iter m.eff 0 n d0 ∧ r.1.mirror = view (iter m.eff 0 n d0))) ∧
    agrees view r.1 ∧ r.1.tx = none := by
  simp only [ShapeOK, List.all_eq_true] at ht
  have hok := ht o ho
  -- what the check says about the entry, for both kinds
  have hfacts : o.pre = [] ∧ (∀ x ∈ o.post, x.isMirror = true) ∧ (o.mirrored = true → o.post ≠ []) := by
    rcases hk with hk | hk
    · simp only [entryOK, hk, Bool.and_eq_true, List.isEmpty_iff, List.all_eq_true, Bool.or_eq_true,
        Bool.not_eq_true'] at hok
      obtain ⟨⟨hpre, hpost⟩, hmir⟩ := hok
      refine ⟨hpre, hpost, ?_⟩
      intro hm hp
      rcases hmir with h | h
      · simp [hm] at h
      · simp [hp] at h
    · simp only [entryOK, hk, Bool.and_eq_true, List.isEmpty_iff, List.all_eq_true, Bool.not_eq_true'] at hok
      obtain ⟨⟨hpre, hpost⟩, hne⟩ := hok
      exact ⟨hpre, hpost, fun _ hp => by simp [hp] at hne⟩
  obtain ⟨hpre, hpost, hmir⟩ := hfacts
  have hexp : o.expand [n] = singleTx n o.post := by
    rcases hk with hk | hk <;> simp [OpShape.expand, hk, hpre]
  have hv : o.post = [] → view (iter m.eff 0 n d0) = view d0 := by
    intro hp
    apply hview
    cases hm : o.mirrored with
    | false => rfl
    | true => exact absurd hp (hmir hm)
  have h := single_tx_atomic m view (singleTx n o.post) ⟨n, o.post, rfl, hpost⟩ d0 k n o.post rfl hpost hgoal hv
  simp only at h
  rw [hexp]
  rcases h with ⟨h1, h2, h3, h4⟩ | ⟨h1, h2, h3, h4⟩
  · exact ⟨Or.inl ⟨h1, h2, h3⟩, by simp [agrees, h2, h3], h4⟩
  · exact ⟨Or.inr ⟨h1, h2, h3⟩, by simp [agrees, h2, h3], h4⟩

/-- … for the table read from the code -/
theorem codeShapes_atomic (o : OpShape) (ho : o ∈ codeShapes) (hk : o.kind = .single)
    (m : Sem α β) (view : α → β) (n : Nat) (d0 : α) (k : Option Nat)
    (hgoal : m.goal = view (iter m.eff 0 n d0))
    (hview : o.mirrored = false → view (iter m.eff 0 n d0) = view d0) :
    let r := exec m (o.expand [n]) k (quiescent view d0)
    ((r.2 = .failed ∧ r.1.db = d0 ∧ r.1.mirror = view d0) ∨
     (r.2 = .done ∧ r.1.db = iter m.eff 0 n d0 ∧ r.1.mirror = view (iter m.eff 0 n d0))) ∧
    agrees view r.1 ∧ r.1.tx = none :=
  table_atomic codeShapes shapeOK_codeShapes o ho (Or.inl hk) m view n d0 k hgoal hview

/-! ### the repaired shapes (known-findings.d/txn-fix-2,3,4), selectable per repair -/

theorem repaired_entries_ok : repairedShapes.all (fun p => entryOK p.2) = true := by decide

/-- Whatever subset of the repairs has been made, the table the driver uses
for that tree (`codeShapes` plus the repaired forms of `UpdateSettings`,
`pin.Update`, `syncDB`) passes the shape check … -/
theorem shapeOK_shapeTable (fixed : List String) : ShapeOK (shapeTable fixed) = true := by
  simp only [ShapeOK, shapeTable, List.all_append, Bool.and_eq_true]
  refine ⟨shapeOK_codeShapes, ?_⟩
  rw [List.all_eq_true]
  intro o ho
  obtain ⟨p, hp, rfl⟩ := List.mem_map.mp ho
  exact List.all_eq_true.mp repaired_entries_ok p (List.mem_filter.mp hp).1

/-- … and every `single`/`indexer` entry of it is all-or-nothing at every failure index. -/
theorem shapeTable_atomic (fixed : List String) (o : OpShape) (ho : o ∈ shapeTable fixed)
    (hk : o.kind = .single ∨ o.kind = .indexer)
    (m : Sem α β) (view : α → β) (n : Nat) (d0 : α) (k : Option Nat)
    (hgoal : m.goal = view (iter m.eff 0 n d0))
    (hview : o.mirrored = false → view (iter m.eff 0 n d0) = view d0) :
    let r := exec m (o.expand [n]) k (quiescent view d0)
    ((r.2 = .failed ∧ r.1.db = d0 ∧ r.1.mirror = view d0) ∨
     (r.2 = .done ∧ r.1.db = iter m.eff 0 n d0 ∧ r.1.mirror = view (iter m.eff 0 n d0))) ∧
    agrees view r.1 ∧ r.1.tx = none :=
  table_atomic (shapeTable fixed) (shapeOK_shapeTable fixed) o ho hk m view n d0 k hgoal hview

/-- with all three repairs selected the three operations are in the checked table, in their repaired form,
and nothing is left in the table of deviant shapes; with none selected they are all deviant -/
example : (["S.UpdateSettings", "P.Update", "I.SyncDB"].map fun n =>
      ((findShapeIn ["settings", "pin", "syncdb"] n).map fun o => (entryOK o, o.post))) =
    [some (true, [.memWrite]), some (true, [.memWrite]), some (true, [.memWrite])] ∧
    deviantTable ["settings", "pin", "syncdb"] = [] ∧
    (["S.UpdateSettings", "P.Update", "I.SyncDB"].map fun n => (findShapeIn [] n).map entryOK) =
    [some false, some false, some false] := by decide

/-- the table is not empty and has manager entries with mirrors -/
example : codeShapes.length = 51 ∧ (codeShapes.filter (·.mirrored)).length = 9 := by decide

/-! ### the deviant shapes: mirror written before the store call -/

theorem deviant_not_ok : deviantShapes.all (fun o => !entryOK o) = true := by decide

/-- `memWrite beginTx stmt^n commit`: EVERY failing database call leaves the
mirror already updated while the database is unchanged. -/
theorem mem_first_not_atomic (m : Sem α β) (view : α → β) (n : Nat) (d0 : α) (j : Nat) (hj : j < n + 2) :
    let r := exec m (.memWrite :: singleTx n []) (some j) (quiescent view d0)
    r.2 = .failed ∧ r.1.db = d0 ∧ r.1.mirror = m.goal := by
  simp only [exec, Step.fallible]
  rcases exec_singleTx m n [] (by simp) (some j) (applyStep m (quiescent view d0) .memWrite) rfl with
    ⟨_, h1, h2, h3, _⟩ | ⟨hk, _⟩
  · exact ⟨h1, by simpa [applyStep, quiescent] using h2, by simpa [applyStep] using h3⟩
  · have := hk j rfl; omega

/-- hence such an operation breaks `mirror agrees with db` as soon as it changes the mirrored value -/
theorem mem_first_disagrees (m : Sem α β) (view : α → β) (n : Nat) (d0 : α) (j : Nat) (hj : j < n + 2)
    (hne : m.goal ≠ view d0) :
    ¬ agrees view (exec m (.memWrite :: singleTx n []) (some j) (quiescent view d0)).1 := by
  have := mem_first_not_atomic m view n d0 j hj
  simp only at this
  obtain ⟨_, h2, h3⟩ := this
  simp [agrees, h2, h3, hne]

example : let m : Sem Nat Nat := { eff := fun _ v => v + 1, goal := 1 }
    ¬ agrees id (exec m (.memWrite :: singleTx 1 []) (some 1) (quiescent id 0)).1 :=
  mem_first_disagrees _ id 1 0 1 (by omega) (by decide)

/-! ### batched_ops (DESIGN §6.2) -/

/-- effect of the first `j` batches (statement indices continue across batches) -/
def applyBatches (eff : Nat → α → α) : Nat → List Nat → Nat → α → α
  | _, _, 0, d => d
  | _, [], _ + 1, d => d
  | start, n :: ns, j + 1, d => applyBatches eff (start + n) ns j (iter eff start n d)

theorem exec_append_done (m : Sem α β) (a b : Shape) (s : St α β)
    (k : Option Nat) (h : (exec m a k s).2 = .done) (hk : ∀ j, k = some j → fallibleCount a ≤ j) :
    exec m (a ++ b) k s = exec m b (k.map (· - fallibleCount a)) (exec m a k s).1 := by
  induction a generalizing k s with
  | nil => cases k <;> simp [exec, fallibleCount]
  | cons x rest ih =>
    by_cases hx : x.fallible = true
    · have hfc : fallibleCount (x :: rest) = fallibleCount rest + 1 := by
        simp [fallibleCount, hx]
      cases k with
      | none =>
        simp only [List.cons_append, exec, hx, if_true] at h ⊢
        rw [ih _ none h (by simp)]; simp
      | some j =>
        cases j with
        | zero => have := hk 0 rfl; omega
        | succ j =>
          simp only [List.cons_append, exec, hx, if_true] at h ⊢
          rw [ih _ (some j) h (by intro j' hj'; cases hj'; have := hk (j + 1) rfl; omega)]
          simp only [Option.map_some, hfc]
          congr 2
          omega
    · have hx' : x.fallible = false := by simpa using hx
      have hfc : fallibleCount (x :: rest) = fallibleCount rest := by
        simp [fallibleCount, hx']
      simp only [List.cons_append, exec, hx', Bool.false_eq_true, if_false] at h ⊢
      rw [ih _ k h (by intro j hj; have := hk j hj; omega), hfc]

theorem exec_append_failed (m : Sem α β) (a b : Shape) (s : St α β)
    (k : Option Nat) (h : (exec m a k s).2 = .failed) :
    exec m (a ++ b) k s = exec m a k s := by
  induction a generalizing k s with
  | nil => simp [exec] at h
  | cons x rest ih =>
    by_cases hx : x.fallible = true
    · cases k with
      | none =>
        simp only [List.cons_append, exec, hx, if_true] at h ⊢
        exact ih _ none h
      | some j =>
        cases j with
        | zero => simp [exec, hx]
        | succ j =>
          simp only [List.cons_append, exec, hx, if_true] at h ⊢
          exact ih _ (some j) h
    · have hx' : x.fallible = false := by simpa using hx
      simp only [List.cons_append, exec, hx', Bool.false_eq_true, if_false] at h ⊢
      exact ih _ k h

/-- **batched_ops, part 1: each batch is atomic.**  Whatever the failure index,
the database ends as the result of the first `j` complete batches for some
`j ≤ number of batches` — never inside a batch — and no transaction stays open;
without a failure all batches are applied. -/
theorem batched_prefix (m : Sem α β) (ns : List Nat) (k : Option Nat) (s : St α β) (hs : s.tx = none) :
    ∃ j, j ≤ ns.length ∧
      (exec m (batches ns) k s).1.db = applyBatches m.eff s.nst ns j s.db ∧
      (exec m (batches ns) k s).1.tx = none ∧
      ((exec m (batches ns) k s).2 = .done → j = ns.length) := by
  induction ns generalizing k s with
  | nil => exact ⟨0, by simp, by simp [batches, exec, applyBatches], by simp [batches, exec, hs], by simp⟩
  | cons n ns ih =>
    simp only [batches]
    rcases exec_singleTx m n [] (by simp) k s hs with ⟨_, h1, h2, _, h4⟩ | ⟨hk, h1, h2, _, h4⟩
    · refine ⟨0, by simp, ?_, ?_, ?_⟩
      · rw [exec_append_failed m _ _ s k h1, h2]; simp [applyBatches]
      · rw [exec_append_failed m _ _ s k h1, h4]
      · rw [exec_append_failed m _ _ s k h1, h1]; intro h; cases h
    · have hfc := fallibleCount_singleTx n [] (by simp)
      rw [exec_append_done m _ _ s k h1 (by rw [hfc]; exact hk)]
      -- state after the first batch
      have hnst : (exec m (singleTx n []) k s).1.nst = s.nst + n := by
        unfold singleTx
        have hb : (applyStep m s .beginTx).tx = some s.db := by simp [applyStep]
        cases k with
        | none =>
          simp only [exec, Step.fallible, if_true]
          rw [exec_stmts_pass m _ n none _ s.db hb (by simp)]
          simp [exec, Step.fallible, applyStep]
        | some j =>
          have := hk j rfl
          obtain ⟨j', rfl⟩ : ∃ j', j = j' + 1 := ⟨j - 1, by omega⟩
          simp only [exec, Step.fallible, if_true]
          rw [exec_stmts_pass m _ n (some j') _ s.db hb (by intro x hx; cases hx; omega)]
          obtain ⟨d, hd⟩ : ∃ d, j' - n = d + 1 := ⟨j' - n - 1, by omega⟩
          simp [exec, Step.fallible, applyStep, hd]
      obtain ⟨j, hj, hdb, htx, hdone⟩ := ih (k.map (· - fallibleCount (singleTx n []))) (exec m (singleTx n []) k s).1 h4
      refine ⟨j + 1, by simp; omega, ?_, htx, ?_⟩
      · rw [hdb, h2, hnst]; simp [applyBatches]
      · intro h; have := hdone h; simp; omega

/-- the loop the batched operations run: one batch per iteration until nothing is eligible -/
def loop (batch : α → α) (isDone : α → Bool) : Nat → α → α
  | 0, d => d
  | fuel + 1, d => if isDone d then d else loop batch isDone fuel (batch d)

def batchIter (batch : α → α) : Nat → α → α
  | 0, d => d
  | j + 1, d => batchIter batch j (batch d)

/-- more fuel than eligible rows does not change the result of the loop -/
theorem loop_fuel_irrel (batch : α → α) (isDone : α → Bool) (rem : α → Nat)
    (hdone : ∀ d, isDone d = true ↔ rem d = 0)
    (hdec : ∀ d, isDone d = false → rem (batch d) < rem d) :
    ∀ f d, rem d ≤ f → loop batch isDone f d = loop batch isDone (rem d) d := by
  intro f
  induction f using Nat.strongRecOn with
  | _ f ih =>
    intro d h
    cases f with
    | zero =>
      have : rem d = 0 := by omega
      simp [this]
    | succ f =>
      cases hd : isDone d with
      | true =>
        have h0 : rem d = 0 := (hdone d).mp hd
        simp [loop, hd, h0]
      | false =>
        have hlt := hdec d hd
        obtain ⟨r, hr⟩ : ∃ r, rem d = r + 1 := ⟨rem d - 1, by omega⟩
        simp only [loop, hd, hr, Bool.false_eq_true, if_false]
        rw [ih f (by omega) (batch d) (by omega)]
        by_cases hrf : r = f
        · subst hrf; rw [ih r (by omega) (batch d) (by omega)]
        · rw [ih r (by omega) (batch d) (by omega)]

/-- **batched_ops, part 2: a retry converges.**  `rem` = eligible rows left (a
batch removes at least one while any is left); the operation is
`loop batch isDone (rem d) d`.  If an interrupted run got through `j` batches,
running the operation again from there ends in the same state as the
uninterrupted run. -/
theorem batched_retry_converges (batch : α → α) (isDone : α → Bool) (rem : α → Nat)
    (hdone : ∀ d, isDone d = true ↔ rem d = 0)
    (hdec : ∀ d, isDone d = false → rem (batch d) < rem d)
    (j : Nat) (d0 : α) (hj : ∀ i, i < j → isDone (batchIter batch i d0) = false) :
    loop batch isDone (rem (batchIter batch j d0)) (batchIter batch j d0) = loop batch isDone (rem d0) d0 := by
  induction j generalizing d0 with
  | zero => rfl
  | succ j ih =>
    have h0 : isDone d0 = false := hj 0 (by omega)
    have hlt := hdec d0 h0
    obtain ⟨r, hr⟩ : ∃ r, rem d0 = r + 1 := ⟨rem d0 - 1, by omega⟩
    have hstep : loop batch isDone (rem d0) d0 = loop batch isDone (rem (batch d0)) (batch d0) := by
      rw [hr]; simp only [loop, h0, Bool.false_eq_true, if_false]
      exact loop_fuel_irrel batch isDone rem hdone hdec r (batch d0) (by omega)
    rw [hstep]
    exact ih (batch d0) (fun i hi => by have := hj (i + 1) (by omega); simpa [batchIter] using this)

/-- non-vacuity: 700 eligible rows, batches of 256 (`sqlSectorBatchSize`): interrupted after one batch, the
retry ends where the uninterrupted run ends -/
example : let batch : Nat → Nat := fun d => d - 256
    loop batch (· == 0) (batchIter batch 1 700) (batchIter batch 1 700) = loop batch (· == 0) 700 700 :=
  batched_retry_converges (fun d => d - 256) (· == 0) id (by intro d; simp) (by intro d h; simp at h; simp; omega)
    1 700 (by intro i hi; have : i = 0 := by omega
              subst this; decide)

/-- **batched_ops** (DESIGN §6.2), both halves together: whatever the failure
index, a batched loop stops on a batch boundary with no open transaction, and —
for a loop whose batches remove eligible rows until none is left — running the
operation again from any such boundary ends where the uninterrupted run ends. -/
theorem batched_ops (m : Sem α β) (view : α → β) (ns : List Nat) (k : Option Nat) (d0 : α)
    (batch : α → α) (isDone : α → Bool) (rem : α → Nat)
    (hdone : ∀ d, isDone d = true ↔ rem d = 0) (hdec : ∀ d, isDone d = false → rem (batch d) < rem d) :
    (∃ j, j ≤ ns.length ∧
      (exec m (batches ns) k (quiescent view d0)).1.db = applyBatches m.eff 0 ns j d0 ∧
      (exec m (batches ns) k (quiescent view d0)).1.tx = none ∧
      ((exec m (batches ns) k (quiescent view d0)).2 = .done → j = ns.length)) ∧
    (∀ j, (∀ i, i < j → isDone (batchIter batch i d0) = false) →
      loop batch isDone (rem (batchIter batch j d0)) (batchIter batch j d0) = loop batch isDone (rem d0) d0) :=
  ⟨batched_prefix m ns k (quiescent view d0) rfl,
   fun j hj => batched_retry_converges batch isDone rem hdone hdec j d0 hj⟩

/-- the batched entries of the table have no mirror and nothing around the transactions -/
theorem codeShapes_batched (o : OpShape) (_ho : o ∈ codeShapes) (hk : o.kind = .batched)
    (m : Sem α β) (ns : List Nat) (k : Option Nat) (view : α → β) (d0 : α) :
    ∃ j, j ≤ ns.length ∧
      (exec m (o.expand ns) k (quiescent view d0)).1.db = applyBatches m.eff 0 ns j d0 ∧
      (exec m (o.expand ns) k (quiescent view d0)).1.tx = none ∧
      ((exec m (o.expand ns) k (quiescent view d0)).2 = .done → j = ns.length) := by
  have hexp : o.expand ns = batches ns := by simp [OpShape.expand, hk]
  rw [hexp]
  exact batched_prefix m ns k (quiescent view d0) rfl

/-! ### the indexer loop as it is written: follow-up actions between the commit and the in-memory tip -/

/-- `beginTx stmt^n commit` (the batch), then another `beginTx stmt^p commit`
(the ProcessActions calls) and only then the mirror write: a failure at ANY
database call of the follow-up part reports an error with the batch committed
and the mirror still at its old value. -/
theorem post_commit_fallible_not_atomic (m : Sem α β) (view : α → β) (n p : Nat) (d0 : α) (j : Nat)
    (hj1 : n + 2 ≤ j) (hj2 : j < n + 2 + (p + 2)) :
    (exec m (singleTx n [] ++ singleTx p [.memWrite]) (some j) (quiescent view d0)).2 = .failed ∧
    (exec m (singleTx n [] ++ singleTx p [.memWrite]) (some j) (quiescent view d0)).1.db = iter m.eff 0 n d0 ∧
    (exec m (singleTx n [] ++ singleTx p [.memWrite]) (some j) (quiescent view d0)).1.mirror = view d0 := by
  rcases exec_singleTx m n [] (by simp) (some j) (quiescent view d0) rfl with ⟨⟨j', hj', hlt⟩, _⟩ | ⟨hk, h1, h2, h3, h4⟩
  · cases hj'; omega
  · have hfc := fallibleCount_singleTx n [] (by simp)
    rw [exec_append_done m _ _ _ (some j) h1 (by rw [hfc]; exact hk)]
    simp only [Option.map_some, hfc]
    rcases exec_singleTx m p [.memWrite] (by simp [Step.isMirror]) (some (j - (n + 2)))
        (exec m (singleTx n []) (some j) (quiescent view d0)).1 h4 with ⟨_, g1, g2, g3, _⟩ | ⟨gk, _⟩
    · refine ⟨g1, ?_, ?_⟩
      · rw [g2, h2]; rfl
      · rw [g3, h3]; simp [quiescent]
    · have := gk (j - (n + 2)) rfl; omega

/-- … so the in-memory tip disagrees with the persisted marker whenever the batch moved it -/
theorem post_commit_fallible_disagrees (m : Sem α β) (view : α → β) (n p : Nat) (d0 : α) (j : Nat)
    (hj1 : n + 2 ≤ j) (hj2 : j < n + 2 + (p + 2)) (hmoved : view (iter m.eff 0 n d0) ≠ view d0) :
    ¬ agrees view (exec m (singleTx n [] ++ singleTx p [.memWrite]) (some j) (quiescent view d0)).1 := by
  obtain ⟨_, h2, h3⟩ := post_commit_fallible_not_atomic m view n p d0 j hj1 hj2
  simp only [agrees, h2, h3]
  exact fun h => hmoved h.symm

/-- the entry of `index.Manager.syncDB` in the table of deviant shapes has this form -/
example : (deviantShapes.filter (·.name == "I.SyncDB")).map (fun o => o.expand [3]) =
    [singleTx 3 [] ++ singleTx 1 [.memWrite]] := by decide

/-- with the tip written directly after the commit (the proposed repair) the batch is of the all-or-nothing form -/
example : entryOK { name := "I.SyncDB", src := "", kind := .indexer, pre := [], post := [.memWrite], mirrored := true } = true := by
  decide

/-- shapes without data steps leave the data plane alone -/
theorem exec_preserves_data (m : Sem α β) (sh : Shape) (hsh : ∀ x ∈ sh, x ≠ .dataWrite ∧ x ≠ .sync)
    (k : Option Nat) (s : St α β) :
    (exec m sh k s).1.written = s.written ∧ (exec m sh k s).1.synced = s.synced := by
  induction sh generalizing k s with
  | nil => simp [exec]
  | cons x rest ih =>
    have hx := hsh x (by simp)
    have hrest : ∀ y ∈ rest, y ≠ .dataWrite ∧ y ≠ .sync := fun y hy => hsh y (by simp [hy])
    have happ : (applyStep m s x).written = s.written ∧ (applyStep m s x).synced = s.synced := by
      cases x <;> simp [applyStep] at hx ⊢ <;> (try (cases s.tx <;> simp))
    by_cases hf : x.fallible = true
    · cases k with
      | none =>
        simp only [exec, hf, if_true]
        have := ih hrest none (applyStep m s x)
        exact ⟨this.1.trans happ.1, this.2.trans happ.2⟩
      | some j =>
        cases j with
        | zero => simp [exec, hf, abort]
        | succ j =>
          simp only [exec, hf, if_true]
          have := ih hrest (some j) (applyStep m s x)
          exact ⟨this.1.trans happ.1, this.2.trans happ.2⟩
    · have hf' : x.fallible = false := by simpa using hf
      simp only [exec, hf', Bool.false_eq_true, if_false]
      have := ih hrest k (applyStep m s x)
      exact ⟨this.1.trans happ.1, this.2.trans happ.2⟩

theorem singleTx_no_data (n : Nat) : ∀ x ∈ singleTx n [], x ≠ Step.dataWrite ∧ x ≠ Step.sync := by
  intro x hx
  simp only [singleTx, List.mem_cons, List.mem_append, List.mem_replicate, List.not_mem_nil, or_false] at hx
  rcases hx with h | ⟨_, h⟩ | h <;> subst h <;> simp

/-! ### store_sector_rollback -/

/-- **store_sector_rollback.**  `StoreSector` = reservation transaction, then
`fn` (data write + sync), and on a failure of `fn` the compensating
transaction `undo`.  For every failure index: a failure leaves the database as
before (the slot is released: `undo` inverts the reservation) and a success
means reserved, written and synced. -/
theorem store_sector_rollback (m : Sem α β) (view : α → β) (undo : α → α) (n : Nat) (d0 : α) (k : Option Nat)
    (hundo : undo (iter m.eff 0 n d0) = d0) :
    let r := storeSector m undo n k (quiescent view d0)
    (r.2 = .failed ∧ r.1.db = d0 ∧ r.1.tx = none ∧ r.1.synced = false) ∨
    (r.2 = .done ∧ r.1.db = iter m.eff 0 n d0 ∧ r.1.tx = none ∧ r.1.written = true ∧ r.1.synced = true) := by
  simp only [storeSector]
  rcases exec_singleTx m n [] (by simp) k (quiescent view d0) rfl with ⟨_, h1, h2, _, h4⟩ | ⟨hk, h1, h2, _, h4⟩
  · -- failure inside the reservation transaction: fn is never called
    left
    have hsy : (exec m (singleTx n []) k (quiescent view d0)).1.synced = false := by
      rw [(exec_preserves_data m _ (singleTx_no_data n) k _).2]; rfl
    generalize hr : exec m (singleTx n []) k (quiescent view d0) = r at h1 h2 h4 hsy
    obtain ⟨s1, res⟩ := r
    simp only at h1 h2 h4 hsy
    subst h1
    exact ⟨rfl, by simpa [quiescent] using h2, h4, hsy⟩
  · -- the reservation committed; the failure index, if any, is at the data write or the sync
    have hsy : (exec m (singleTx n []) k (quiescent view d0)).1.synced = false := by
      rw [(exec_preserves_data m _ (singleTx_no_data n) k _).2]; rfl
    generalize hr : exec m (singleTx n []) k (quiescent view d0) = r at h1 h2 h4 hsy
    obtain ⟨s1, res⟩ := r
    simp only at h1 h2 h4 hsy
    subst h1
    simp only
    have hdb : s1.db = iter m.eff 0 n d0 := by simpa [quiescent] using h2
    cases k with
    | none =>
      right
      simp [exec, Step.fallible, applyStep, hdb, h4]
    | some j =>
      have hge := hk j rfl
      by_cases h0 : j = n + 2
      · left; subst h0
        simp [exec, Step.fallible, abort, hdb, hundo, hsy]
      · by_cases h1 : j = n + 3
        · left; subst h1
          have : n + 3 - (n + 2) = 1 := by omega
          simp [exec, Step.fallible, abort, applyStep, this, hdb, hundo, hsy]
        · right
          obtain ⟨d, hd⟩ : ∃ d, j - (n + 2) = d + 2 := ⟨j - (n + 2) - 2, by omega⟩
          simp [exec, Step.fallible, applyStep, hd, hdb, h4]

/-! ### chain batches: chain_batch_atomic and resume_converges -/

theorem iter_id (eff : Nat → α → α) (start n : Nat) (v : α) (h : ∀ i, start ≤ i → eff i = id) :
    iter eff start n v = v := by
  induction n generalizing start v with
  | zero => rfl
  | succ n ih =>
    simp only [iter, h start (Nat.le_refl _), id]
    exact ih (start + 1) v (fun i hi => h i (by omega))

/-- statement semantics of one indexer batch: the first statement stands for
all data updates + `SetLastIndex` (how the work is spread over the statements
does not matter), the remaining ones are the identity -/
def chainSem {σ : Type} (delta : Nat → Nat → σ → σ) (target : Nat) : Sem (σ × Nat) Nat :=
  { eff := fun i => if i = 0 then fun d => (delta d.2 target d.1, target) else id, goal := target }

theorem chainSem_iter {σ : Type} (delta : Nat → Nat → σ → σ) (target n : Nat) (st : σ) (marker : Nat) :
    iter (chainSem delta target).eff 0 (n + 1) (st, marker) = (delta marker target st, target) := by
  simp only [iter]
  rw [iter_id (chainSem delta target).eff 1 n _ (by
    intro i hi
    have h0 : i ≠ 0 := by omega
    simp [chainSem, h0])]
  simp [chainSem]

/-- **chain_batch_atomic.**  One `UpdateChainState` call of the indexer
(`index/update.go:54-82`): wallet, contract and announcement state `σ` and the
processed-tip marker are one database value, the statements move them from the
marker's position to `target`, the in-memory tip is written after the commit.
For every number of statements and every failure index the three either all
stay or all move. -/
theorem chain_batch_atomic {σ : Type} (delta : Nat → Nat → σ → σ) (target n : Nat)
    (st : σ) (marker : Nat) (k : Option Nat) :
    ((exec (chainSem delta target) (singleTx (n + 1) [.memWrite]) k (quiescent Prod.snd (st, marker))).2 = .failed ∧
     (exec (chainSem delta target) (singleTx (n + 1) [.memWrite]) k (quiescent Prod.snd (st, marker))).1.db = (st, marker) ∧
     (exec (chainSem delta target) (singleTx (n + 1) [.memWrite]) k (quiescent Prod.snd (st, marker))).1.mirror = marker) ∨
    ((exec (chainSem delta target) (singleTx (n + 1) [.memWrite]) k (quiescent Prod.snd (st, marker))).2 = .done ∧
     (exec (chainSem delta target) (singleTx (n + 1) [.memWrite]) k (quiescent Prod.snd (st, marker))).1.db
        = (delta marker target st, target) ∧
     (exec (chainSem delta target) (singleTx (n + 1) [.memWrite]) k (quiescent Prod.snd (st, marker))).1.mirror = target) := by
  have hiter := chainSem_iter delta target n st marker
  have := single_tx_atomic (chainSem delta target) Prod.snd (singleTx (n + 1) [.memWrite])
    ⟨n + 1, [.memWrite], rfl, by simp [Step.isMirror]⟩
    (st, marker) k (n + 1) [.memWrite] rfl (by simp [Step.isMirror]) (by rw [hiter]; rfl) (by simp)
  simp only at this
  rcases this with ⟨h1, h2, h3, _⟩ | ⟨h1, h2, h3, _⟩
  · exact Or.inl ⟨h1, h2, h3⟩
  · exact Or.inr ⟨h1, by rw [h2, hiter], by rw [h3, hiter]⟩

/-- Invariant of the indexer: the persistent chain state is the state of the
marker's position and the in-memory tip equals the marker — preserved by
failed batches, successful batches of any size and restarts.  `H` is the
path-independence of the per-engine updates (C01 for contracts, C16 for wallet
and announcement): applying the updates between two positions to the state of
the first gives the state of the second. -/
theorem resume_invariant {σ : Type} (delta : Nat → Nat → σ → σ) (spec : Nat → σ)
    (H : ∀ p q, delta p q (spec p) = spec q) (evs : List Ev) (s : Idx σ)
    (hs : s.db = spec s.marker ∧ s.mem = s.marker) :
    (idxRun delta s evs).db = spec (idxRun delta s evs).marker ∧
    (idxRun delta s evs).mem = (idxRun delta s evs).marker := by
  induction evs generalizing s with
  | nil => simpa [idxRun] using hs
  | cons e rest ih =>
    simp only [idxRun, List.foldl_cons]
    apply ih
    cases e with
    | batch target fails =>
      cases fails with
      | true => simpa [idxStep] using hs
      | false =>
        simp only [idxStep, Bool.false_eq_true, if_false]
        rw [hs.2, hs.1, H]
        simp
    | restart => exact ⟨by simpa [idxStep] using hs.1, by simp [idxStep]⟩

/-- **resume_converges.**  Whatever happened on the way — batches of any size
that failed or were killed at any point (`single_tx_atomic` makes each of them
a no-op), restarts from the persisted marker — once the marker has reached
`tip` the state equals the one the uninterrupted run (a single successful
batch to `tip`) produces. -/
theorem resume_converges {σ : Type} (delta : Nat → Nat → σ → σ) (spec : Nat → σ)
    (H : ∀ p q, delta p q (spec p) = spec q) (evs : List Ev) (tip : Nat)
    (hend : (idxRun delta { db := spec 0, marker := 0, mem := 0 } evs).marker = tip) :
    (idxRun delta { db := spec 0, marker := 0, mem := 0 } evs).db =
      (idxRun delta { db := spec 0, marker := 0, mem := 0 } [.batch tip false]).db := by
  have h := (resume_invariant delta spec H evs { db := spec 0, marker := 0, mem := 0 } ⟨rfl, rfl⟩).1
  rw [h, hend]
  simp [idxRun, idxStep, H]

/-- non-vacuity: chain state = number of blocks applied; a failed batch, a
restart, then two batches end like one uninterrupted batch -/
example : (idxRun (fun p q s => s + q - p) { db := 0, marker := 0, mem := 0 }
    [.batch 3 true, .restart, .batch 2 false, .batch 7 true, .batch 7 false]).db = 7 := by decide

/-- … whereas a marker kept in a SEPARATE transaction does not converge: the
data of 5 blocks committed, the marker write lost, the resumed run applies the
same 5 blocks again. -/
example : (idxRun (fun p q s => s + q - p) { db := 5, marker := 0, mem := 0 } [.restart, .batch 5 false]).db = 10 := by
  decide

/-- **a batch with reverts** moves data and marker together like any other: whatever the relation between the
position the indexer stands on and the target (ahead, behind = reverts only, or on another fork = mixed), a
successful batch leaves `db = delta mem target db`, `marker = target`, `mem = target`, a failed one nothing. -/
theorem batch_with_reverts_moves_marker {σ : Type} (delta : Nat → Nat → σ → σ) (s : Idx σ) (target : Nat) (fails : Bool) :
    idxStep delta s (.batch target fails) =
      (if fails then s else { db := delta s.mem target s.db, marker := target, mem := target }) := by
  cases fails <;> simp [idxStep]

/-- positions 0 … 5 on one chain, state = number of blocks applied. A reorg brings the indexer from 5 back to 3
(reverts-only batch), the process dies, restarts and indexes up to 6: converges … -/
example : (idxRun (fun p q s => s + q - p) { db := 0, marker := 0, mem := 0 }
    [.batch 5 false, .batch 3 false, .restart, .batch 6 false]).db = 6 := by decide

/-- … whereas an indexer that does not write the marker in a reverts-only batch restarts from the stale marker
5 with the state of 3 and ends somewhere else -/
example : ([Ev.batch 5 false, .batch 3 false, .restart, .batch 6 false].foldl
    (idxStepNoMarkerOnRevert (fun p q s => s + q - p) (fun p q => q < p)) { db := 0, marker := 0, mem := 0 }).db = 4 := by
  decide

end Hostd.Txn
