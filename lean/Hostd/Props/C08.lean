import Hostd.Model.Volumes
import Hostd.Lemmas.Volumes
/-!
# C08 — Storage slot accounting and reclamation are exact

Theorems about `Model/Volumes.lean` (all operation sequences, all oracle values):

* `C08_slot_inv`        every reachable state satisfies `MetaOK`: one slot per located sector, `used v = #occupied v`,
                        `total v = #slots v`, the four metrics equal the recount (histories in which maintenance
                        tears a slot away from an in-flight `StoreSector` are excluded: `Safe`; `C08_unsafe_breaks`
                        shows the exclusion is necessary in the faithful model)
* `C08_no_negative_stat` no counter update panics (`negative stat value`, `volume usage is negative`)
* `C08_store_fails_iff` / `C08_placement_eligible`
* `C08_reclaim_exact`   after `expire h; tick; prune` a slot is occupied iff its sector is referenced by a surviving
                        contract / temp row — for any facts with `FactsOK`; `C08_code_facts_ok` discharges it for the
                        transcription of the current tree, `C08_before_fix_breaks` shows what the v1 constant did
-/
set_option linter.unusedSimpArgs false
set_option linter.unusedVariables false
namespace Hostd.Props.C08
open Hostd.Volumes

/-! ## the invariant -/

def VolOK (v : Volume) : Prop := v.used = occ v.slots ∧ v.total = v.slots.length

/-- counters of the volume table against the recount -/
structure Core (vs : List Volume) (m : Metrics) : Prop where
  ids    : (vs.map (·.id)).Nodup
  vol    : ∀ v ∈ vs, VolOK v
  uniq   : ∀ r, cnt vs r ≤ 1
  mTotal : m.total = sumBy (·.total) vs
  mPhys  : m.physical = sumBy (·.used) vs

def holdsAt (vs : List Volume) (v i : Nat) (r : SectorId) : Prop :=
  ∃ sl, slotAt vs v i = some sl ∧ sl.sec = some r

structure MetaOK (s : State) : Prop where
  core      : Core s.vols s.m
  c1ids     : (s.c1.map (·.id)).Nodup
  c2ids     : (s.c2.map (·.id)).Nodup
  mContract : s.m.contract = sumLen1 s.c1 + sumLen2 s.c2
  mTemp     : s.m.temp = s.temps.length
  pend      : ∀ p ∈ s.pending, holdsAt s.vols p.v p.i p.r
  pendR     : (s.pending.map (·.r)).Nodup
  pendRec   : ∀ p ∈ s.pending, p.r ∈ s.recent

/-! ## slot lookups -/

theorem slotAt_updVol (v v' i' : Nat) (g : Volume → Volume) (hg : ∀ x, (g x).id = x.id) (vs : List Volume) :
    slotAt (updVol v g vs) v' i' =
      if v' = v then (match findVol v vs with | none => none | some vol => (g vol).slots[i']?) else slotAt vs v' i' := by
  simp only [slotAt, findVol_updVol v v' g vs hg]
  by_cases h : v' = v
  · subst h
    cases findVol v' vs <;> simp
  · simp only [h, if_false]

theorem holdsAt_cnt {vs : List Volume} {v i : Nat} {r : SectorId} (h : holdsAt vs v i r) : cnt vs r > 0 := by
  obtain ⟨sl, h1, h2⟩ := h
  simp only [slotAt] at h1
  split at h1
  · simp at h1
  · rename_i vol hv
    have hm := (findVol_some hv).1
    have : vol.slots.countP (holds r) > 0 := by
      show 0 < _
      rw [List.countP_pos_iff]
      exact ⟨sl, List.mem_of_getElem? h1, by simp [holds, h2]⟩
    have := sumBy_le_of_mem (fun v => v.slots.countP (holds r)) hm
    simp only [cnt]; omega

/-! ## Core is a function of the skeleton -/

theorem volOK_of_skel {a b : Volume} (h : skel a = skel b) (hb : VolOK b) : VolOK a := by
  simp only [skel, Prod.mk.injEq] at h
  obtain ⟨_, ht, hu, hs⟩ := h
  exact ⟨by rw [hu, hb.1, occ_eq_of_secs hs], by rw [ht, hb.2, length_eq_of_secs hs]⟩

theorem core_of_skel {vs vs' : List Volume} {m : Metrics} (h : vs'.map skel = vs.map skel) (c : Core vs m) : Core vs' m := by
  have hids : vs'.map (·.id) = vs.map (·.id) := by
    have := congrArg (List.map (·.1)) h
    simpa [List.map_map, Function.comp_def, skel] using this
  refine ⟨by rw [hids]; exact c.ids, ?_, ?_, ?_, ?_⟩
  · intro v hv
    have : skel v ∈ vs.map skel := by rw [← h]; exact List.mem_map_of_mem hv
    obtain ⟨b, hb, e⟩ := List.mem_map.mp this
    exact volOK_of_skel e.symm (c.vol b hb)
  · intro r
    have : cnt vs' r = cnt vs r := by
      apply sumBy_of_skel _ _ h
      intro a b e
      simp only [skel, Prod.mk.injEq] at e
      exact countHolds_eq_of_secs r e.2.2.2
    rw [this]; exact c.uniq r
  · rw [c.mTotal]; symm; apply sumBy_of_skel _ _ h
    intro a b e; simp only [skel, Prod.mk.injEq] at e; exact e.2.1
  · rw [c.mPhys]; symm; apply sumBy_of_skel _ _ h
    intro a b e; simp only [skel, Prod.mk.injEq] at e; exact e.2.2.1

theorem holdsAt_of_skel {vs vs' : List Volume} (h : vs'.map skel = vs.map skel) {v i : Nat} {r : SectorId}
    (hh : holdsAt vs v i r) : holdsAt vs' v i r := by
  obtain ⟨sl, h1, h2⟩ := hh
  have hf := findVol_of_skel h v
  simp only [slotAt] at h1
  split at h1
  · simp at h1
  · rename_i vol hv
    rw [hv] at hf
    cases hv' : findVol v vs' with
    | none => simp [hv'] at hf
    | some vol' =>
      rw [hv'] at hf
      simp only [Option.map_some, Option.some.injEq, skel, Prod.mk.injEq] at hf
      have := getElem?_sec_of_secs hf.2.2.2 i
      rw [h1] at this
      cases hs : vol'.slots[i]? with
      | none => simp [hs] at this
      | some sl' =>
        simp [hs] at this
        exact ⟨sl', by simp [slotAt, hv', hs], by rw [this, h2]⟩

/-! ## one slot of one volume changes -/

def modVol (i : Nat) (f : Slot → Slot) (u : Nat → Nat) (x : Volume) : Volume :=
  { x with slots := modAt i f x.slots, used := u x.used }

theorem modVol_id (i : Nat) (f : Slot → Slot) (u : Nat → Nat) (x : Volume) : (modVol i f u x).id = x.id := rfl

theorem eq_of_findVol {vs : List Volume} (hn : (vs.map (·.id)).Nodup) {v : Nat} {vol x : Volume}
    (hv : findVol v vs = some vol) (hx : x ∈ vs) (hid : x.id = v) : x = vol := by
  have := findVol_of_mem hn hx
  rw [hid, hv] at this
  exact (Option.some.inj this).symm

theorem core_mod {vs : List Volume} {m m' : Metrics} {v i : Nat} {vol : Volume} {sl : Slot}
    (c : Core vs m) (hv : findVol v vs = some vol) (hs : vol.slots[i]? = some sl)
    (f : Slot → Slot) (u : Nat → Nat)
    (hocc : u vol.used + (if isOcc sl then 1 else 0) = vol.used + (if isOcc (f sl) then 1 else 0))
    (hmt : m'.total = m.total) (hmp : m'.physical + vol.used = m.physical + u vol.used)
    (hu : ∀ r', cnt vs r' + (if holds r' (f sl) then 1 else 0) ≤ 1 + (if holds r' sl then 1 else 0)) :
    Core (updVol v (modVol i f u) vs) m' := by
  have hvm := (findVol_some hv).1
  have hvo := c.vol vol hvm
  refine ⟨by rw [updVol_ids _ _ _ (modVol_id i f u)]; exact c.ids, ?_, ?_, ?_, ?_⟩
  · intro y hy
    rcases mem_updVol hy with ⟨h1, _⟩ | ⟨x, hx, hid, rfl⟩
    · exact c.vol y h1
    · have := eq_of_findVol c.ids hv hx hid
      subst this
      have h1 := countP_modAt isOcc i f x.slots sl hs
      simp only [VolOK, modVol, modAt_length, occ] at hvo ⊢
      exact ⟨by omega, hvo.2⟩
  · intro r'
    have h1 := sumBy_updVol (fun v => v.slots.countP (holds r')) v (modVol i f u) vs c.ids vol hv
    have h2 := countP_modAt (holds r') i f vol.slots sl hs
    have h3 := hu r'
    simp only [cnt, modVol] at h1 h3 ⊢
    omega
  · rw [hmt, c.mTotal]; symm
    apply sumBy_updVol_same
    intros; rfl
  · have h1 := sumBy_updVol (·.used) v (modVol i f u) vs c.ids vol hv
    have := c.mPhys
    simp only [modVol] at h1
    omega

theorem slotAt_modVol (vs : List Volume) (v i v' i' : Nat) (f : Slot → Slot) (u : Nat → Nat) :
    slotAt (updVol v (modVol i f u) vs) v' i' =
      if v' = v ∧ i' = i then (slotAt vs v' i').map f else slotAt vs v' i' := by
  rw [slotAt_updVol _ _ _ _ (modVol_id i f u)]
  by_cases h : v' = v
  · subst h
    simp only [true_and, if_true, slotAt]
    cases findVol v' vs with
    | none => simp
    | some vol => simp only [modVol, modAt_getElem?]
  · simp [h]

theorem placeAt_eq (vs : List Volume) (v i : Nat) (r : SectorId) :
    placeAt vs v i r = updVol v (modVol i (setSec (some r)) (· + 1)) vs := rfl
theorem clearAt_eq (vs : List Volume) (v i : Nat) :
    clearAt vs v i = updVol v (modVol i (setSec none) (· - 1)) vs := rfl
theorem modSlot_eq (vs : List Volume) (v i : Nat) (f : Slot → Slot) :
    modSlot v i f vs = updVol v (modVol i f id) vs := rfl

theorem slotAt_split {vs : List Volume} {v i : Nat} {sl : Slot} (h : slotAt vs v i = some sl) :
    ∃ vol, findVol v vs = some vol ∧ vol.slots[i]? = some sl := by
  simp only [slotAt] at h
  split at h
  · simp at h
  · exact ⟨_, ‹_›, h⟩

theorem core_place {vs : List Volume} {m : Metrics} {v i : Nat} {r : SectorId} {sl : Slot}
    (c : Core vs m) (hs : slotAt vs v i = some sl) (hfree : sl.sec = none) (hr : cnt vs r = 0) :
    Core (placeAt vs v i r) { m with physical := m.physical + 1 } := by
  obtain ⟨vol, hv, hs⟩ := slotAt_split hs
  rw [placeAt_eq]
  apply core_mod c hv hs
  · simp [isOcc, setSec, hfree]
  · rfl
  · simp only; omega
  · intro r'
    have := c.uniq r'
    by_cases e : r' = r
    · subst e; simp [holds, setSec, hfree, hr]
    · have : holds r' (setSec (some r) sl) = false := by simp [holds, setSec]; exact fun h => e h.symm
      simp only [this]; simp; omega

theorem core_clear {vs : List Volume} {m : Metrics} {v i : Nat} {r : SectorId}
    (c : Core vs m) (hh : holdsAt vs v i r) :
    Core (clearAt vs v i) { m with physical := m.physical - 1 } ∧ m.physical ≥ 1 ∧
      ∃ vol, findVol v vs = some vol ∧ vol.used ≥ 1 := by
  obtain ⟨sl, hs, hsec⟩ := hh
  obtain ⟨vol, hv, hs⟩ := slotAt_split hs
  have hvm := (findVol_some hv).1
  have hvo := c.vol vol hvm
  have hpos : vol.used ≥ 1 := by
    rw [hvo.1]
    show 0 < occ vol.slots
    simp only [occ]; rw [List.countP_pos_iff]
    exact ⟨sl, List.mem_of_getElem? hs, by simp [isOcc, hsec]⟩
  have hle := sumBy_le_of_mem (·.used) hvm
  have hp := c.mPhys
  refine ⟨?_, by omega, vol, hv, hpos⟩
  rw [clearAt_eq]
  apply core_mod c hv hs
  · simp [isOcc, setSec, hsec]; omega
  · rfl
  · simp only; omega
  · intro r'
    have := c.uniq r'
    simp only [holds, setSec]
    simp; split <;> omega

/-! ## pending reservations survive changes elsewhere -/

theorem holdsAt_modVol_other {vs : List Volume} {v i v' i' : Nat} {r' : SectorId} (f : Slot → Slot) (u : Nat → Nat)
    (h : holdsAt vs v' i' r') (hne : ¬ (v' = v ∧ i' = i)) : holdsAt (updVol v (modVol i f u) vs) v' i' r' := by
  obtain ⟨sl, h1, h2⟩ := h
  exact ⟨sl, by rw [slotAt_modVol]; simp [hne, h1], h2⟩

theorem holdsAt_modVol_sec {vs : List Volume} {v i v' i' : Nat} {r' : SectorId} (f : Slot → Slot) (u : Nat → Nat)
    (hf : ∀ x, (f x).sec = x.sec) (h : holdsAt vs v' i' r') : holdsAt (updVol v (modVol i f u) vs) v' i' r' := by
  obtain ⟨sl, h1, h2⟩ := h
  by_cases hne : v' = v ∧ i' = i
  · exact ⟨f sl, by rw [slotAt_modVol, if_pos hne, h1]; rfl, by rw [hf, h2]⟩
  · exact ⟨sl, by rw [slotAt_modVol]; simp [hne, h1], h2⟩

/-- two located sectors in the same slot are the same sector -/
theorem holdsAt_inj {vs : List Volume} {v i : Nat} {r r' : SectorId} (h : holdsAt vs v i r) (h' : holdsAt vs v i r') : r = r' := by
  obtain ⟨sl, h1, h2⟩ := h
  obtain ⟨sl', h1', h2'⟩ := h'
  rw [h1] at h1'; cases h1'
  rw [h2] at h2'; exact Option.some.inj h2'

/-! ## contracts -/

theorem sumLen1_setRoots {cs : List C1} (hn : (cs.map (·.id)).Nodup) {c : Nat} {con : C1} (hc : findC1 c cs = some con)
    (roots : List SectorId) : sumLen1 (setRoots1 c roots cs) + con.roots.length = sumLen1 cs + roots.length := by
  induction cs with
  | nil => simp [findC1] at hc
  | cons x xs ih =>
    simp only [List.map_cons, List.nodup_cons] at hn
    simp only [findC1] at hc
    by_cases hx : x.id = c
    · simp only [hx, if_true] at hc
      simp at hc; subst hc
      have : setRoots1 c roots xs = xs := by
        simp only [setRoots1]
        conv => rhs; rw [← List.map_id xs]
        apply List.map_congr_left
        intro y hy
        have : y.id ≠ c := by
          intro e; apply hn.1; simp only [List.mem_map]; exact ⟨y, hy, by rw [e, hx]⟩
        simp [this]
      simp only [setRoots1, List.map_cons, hx, if_true, sumLen1] at this ⊢
      rw [this]; omega
    · simp only [hx, if_false] at hc
      have := ih hn.2 hc
      simp only [setRoots1, List.map_cons, hx, if_false, sumLen1] at this ⊢
      omega

theorem sumLen2_setRoots {cs : List C2} (hn : (cs.map (·.id)).Nodup) {c : Nat} {con : C2} (hc : findC2 c cs = some con)
    (roots : List SectorId) : sumLen2 (setRoots2 c roots cs) + con.roots.length = sumLen2 cs + roots.length := by
  induction cs with
  | nil => simp [findC2] at hc
  | cons x xs ih =>
    simp only [List.map_cons, List.nodup_cons] at hn
    simp only [findC2] at hc
    by_cases hx : x.id = c
    · simp only [hx, if_true] at hc
      simp at hc; subst hc
      have : setRoots2 c roots xs = xs := by
        simp only [setRoots2]
        conv => rhs; rw [← List.map_id xs]
        apply List.map_congr_left
        intro y hy
        have : y.id ≠ c := by
          intro e; apply hn.1; simp only [List.mem_map]; exact ⟨y, hy, by rw [e, hx]⟩
        simp [this]
      simp only [setRoots2, List.map_cons, hx, if_true, sumLen2] at this ⊢
      rw [this]; omega
    · simp only [hx, if_false] at hc
      have := ih hn.2 hc
      simp only [setRoots2, List.map_cons, hx, if_false, sumLen2] at this ⊢
      omega

theorem setRoots1_ids (c : Nat) (roots : List SectorId) (cs : List C1) : (setRoots1 c roots cs).map (·.id) = cs.map (·.id) := by
  induction cs with
  | nil => rfl
  | cons x xs ih => simp only [setRoots1, List.map_cons] at ih ⊢; rw [ih]; split <;> rfl
theorem setRoots2_ids (c : Nat) (roots : List SectorId) (cs : List C2) : (setRoots2 c roots cs).map (·.id) = cs.map (·.id) := by
  induction cs with
  | nil => rfl
  | cons x xs ih => simp only [setRoots2, List.map_cons] at ih ⊢; rw [ih]; split <;> rfl

theorem findC1_mem {c : Nat} {cs : List C1} {con : C1} (h : findC1 c cs = some con) : con ∈ cs := by
  induction cs with
  | nil => simp [findC1] at h
  | cons x xs ih =>
    simp only [findC1] at h
    split at h
    · simp at h; simp [h]
    · simp [ih h]
theorem findC2_mem {c : Nat} {cs : List C2} {con : C2} (h : findC2 c cs = some con) : con ∈ cs := by
  induction cs with
  | nil => simp [findC2] at h
  | cons x xs ih =>
    simp only [findC2] at h
    split at h
    · simp at h; simp [h]
    · simp [ih h]

theorem sumLen1_mem_le {cs : List C1} {con : C1} (h : con ∈ cs) : con.roots.length ≤ sumLen1 cs := by
  induction cs with
  | nil => simp at h
  | cons x xs ih =>
    simp at h; simp only [sumLen1]
    rcases h with rfl | h
    · omega
    · have := ih h; omega
theorem sumLen2_mem_le {cs : List C2} {con : C2} (h : con ∈ cs) : con.roots.length ≤ sumLen2 cs := by
  induction cs with
  | nil => simp at h
  | cons x xs ih =>
    simp at h; simp only [sumLen2]
    rcases h with rfl | h
    · omega
    · have := ih h; omega

theorem sumLen1_expire (p : C1 → Bool) (cs : List C1) :
    sumLen1 (cs.map fun c => if p c then { c with roots := [] } else c) + sumLen1 (cs.filter p) = sumLen1 cs := by
  induction cs with
  | nil => rfl
  | cons x xs ih =>
    simp only [List.map_cons, List.filter_cons]
    by_cases h : p x <;> simp [h, sumLen1] <;> omega
theorem sumLen2_expire (p : C2 → Bool) (cs : List C2) :
    sumLen2 (cs.map fun c => if p c then { c with roots := [] } else c) + sumLen2 (cs.filter p) = sumLen2 cs := by
  induction cs with
  | nil => rfl
  | cons x xs ih =>
    simp only [List.map_cons, List.filter_cons]
    by_cases h : p x <;> simp [h, sumLen2] <;> omega

theorem sumLen1_map_roots (g : C1 → C1) (hg : ∀ c, (g c).roots = c.roots) (cs : List C1) : sumLen1 (cs.map g) = sumLen1 cs := by
  induction cs with
  | nil => rfl
  | cons x xs ih => simp only [List.map_cons, sumLen1, ih, hg]
theorem sumLen2_map_roots (g : C2 → C2) (hg : ∀ c, (g c).roots = c.roots) (cs : List C2) : sumLen2 (cs.map g) = sumLen2 cs := by
  induction cs with
  | nil => rfl
  | cons x xs ih => simp only [List.map_cons, sumLen2, ih, hg]

theorem sumLen1_append (a b : List C1) : sumLen1 (a ++ b) = sumLen1 a + sumLen1 b := by
  induction a with
  | nil => simp [sumLen1]
  | cons x xs ih => simp only [List.cons_append, sumLen1, ih]; omega
theorem sumLen2_append (a b : List C2) : sumLen2 (a ++ b) = sumLen2 a + sumLen2 b := by
  induction a with
  | nil => simp [sumLen2]
  | cons x xs ih => simp only [List.cons_append, sumLen2, ih]; omega

theorem findC1_none_ids {c : Nat} {cs : List C1} (h : findC1 c cs = none) : c ∉ cs.map (·.id) := by
  induction cs with
  | nil => simp
  | cons x xs ih =>
    simp only [findC1] at h
    split at h
    · simp at h
    · simp only [List.map_cons, List.mem_cons, not_or]
      exact ⟨fun e => ‹¬ x.id = c› e.symm, ih h⟩
theorem findC2_none_ids {c : Nat} {cs : List C2} (h : findC2 c cs = none) : c ∉ cs.map (·.id) := by
  induction cs with
  | nil => simp
  | cons x xs ih =>
    simp only [findC2] at h
    split at h
    · simp at h
    · simp only [List.map_cons, List.mem_cons, not_or]
      exact ⟨fun e => ‹¬ x.id = c› e.symm, ih h⟩

/-! ## the operations, one by one -/

/-- schedules excluded from `C08_slot_inv`: maintenance that tears a slot away from a `StoreSector`
call which is between its slot commit and the end of its data write (see `C08_unsafe_breaks`) -/
def Safe (s : State) : Op → Prop
  | .tick => s.pending = []
  | .removeSector r _ => ∀ p ∈ s.pending, p.r ≠ r
  | .removeVolume v force => force = true → ∀ p ∈ s.pending, p.v ≠ v
  | .migrate v _ _ => ∀ p ∈ s.pending, p.v ≠ v
  | .vmResize v _ _ => ∀ p ∈ s.pending, p.v ≠ v
  | .vmRemove v _ _ => ∀ p ∈ s.pending, p.v ≠ v
  | .vmResizeStale _ v _ _ => ∀ p ∈ s.pending, p.v ≠ v
  | .removeRows v force _ => force = true → ∀ p ∈ s.pending, p.v ≠ v
  | .migratePart v _ _ => ∀ p ∈ s.pending, p.v ≠ v
  | _ => True

theorem metaOK_frame {s s' : State} (h : MetaOK s) (hv : s'.vols = s.vols) (hm : s'.m = s.m) (h1 : s'.c1 = s.c1)
    (h2 : s'.c2 = s.c2) (ht : s'.temps = s.temps) (hp : s'.pending = s.pending) (hr : ∀ x ∈ s.recent, x ∈ s'.recent) :
    MetaOK s' := by
  refine ⟨by rw [hv, hm]; exact h.core, by rw [h1]; exact h.c1ids, by rw [h2]; exact h.c2ids,
    by rw [hm, h1, h2]; exact h.mContract, by rw [hm, ht]; exact h.mTemp, ?_, by rw [hp]; exact h.pendR, ?_⟩
  · intro p hp'; rw [hv]; exact h.pend p (hp ▸ hp')
  · intro p hp'; exact hr _ (h.pendRec p (hp ▸ hp'))

/-- volume table replaced by one with the same skeleton (flags, file contents, fsync state differ) -/
theorem metaOK_skel {s s' : State} (h : MetaOK s) (hv : s'.vols.map skel = s.vols.map skel) (hm : s'.m = s.m) (h1 : s'.c1 = s.c1)
    (h2 : s'.c2 = s.c2) (ht : s'.temps = s.temps) (hp : ∀ p ∈ s'.pending, p ∈ s.pending) (hpr : (s'.pending.map (·.r)).Nodup)
    (hr : ∀ x ∈ s.recent, x ∈ s'.recent) : MetaOK s' := by
  refine ⟨by rw [hm]; exact core_of_skel hv h.core, by rw [h1]; exact h.c1ids, by rw [h2]; exact h.c2ids,
    by rw [hm, h1, h2]; exact h.mContract, by rw [hm, ht]; exact h.mTemp, ?_, hpr, ?_⟩
  · intro p hp'; exact holdsAt_of_skel hv (h.pend p (hp p hp'))
  · intro p hp'; exact hr _ (h.pendRec p (hp p hp'))

theorem addVolume_ok {s : State} (h : MetaOK s) (id : Nat) (ro : Bool) : MetaOK (addVolume s id ro).1 := by
  simp only [addVolume]
  split
  · exact h
  · rename_i hf
    have hnone : findVol id s.vols = none := by
      cases hx : findVol id s.vols <;> simp [hx] at hf ⊢
    have c := h.core
    refine ⟨⟨?_, ?_, ?_, ?_, ?_⟩, h.c1ids, h.c2ids, h.mContract, h.mTemp, ?_, h.pendR, h.pendRec⟩
    · simp only [List.map_append, List.map_cons, List.map_nil]
      rw [List.nodup_append]
      refine ⟨c.ids, by simp, ?_⟩
      intro a ha b hb
      simp at hb; subst hb
      obtain ⟨x, hx, rfl⟩ := List.mem_map.mp ha
      exact findVol_none hnone x hx
    · intro v hv
      simp at hv
      rcases hv with hv | rfl
      · exact c.vol v hv
      · simp [VolOK, occ]
    · intro r; have := c.uniq r
      simp only [cnt, sumBy_append, sumBy] at this ⊢; simp; exact this
    · simp only [sumBy_append, sumBy]; simp; exact c.mTotal
    · simp only [sumBy_append, sumBy]; simp; exact c.mPhys
    · intro p hp
      obtain ⟨sl, h1, h2⟩ := h.pend p hp
      obtain ⟨vol, hv, hs⟩ := slotAt_split h1
      exact ⟨sl, by simp [slotAt, findVol_append_of_some hv, hs], h2⟩

theorem occ_append (a b : List Slot) : occ (a ++ b) = occ a + occ b := by simp [occ]
theorem occ_replicate_empty (k : Nat) : occ (List.replicate k ({} : Slot)) = 0 := by
  simp only [occ, List.countP_eq_zero]; intro a ha; rw [List.eq_of_mem_replicate ha]; simp [isOcc]

theorem grow_ok {s : State} (h : MetaOK s) (v n : Nat) : MetaOK (grow s v n).1 := by
  simp only [grow]
  split
  · exact h
  · split
    · exact h
    · rename_i vol hv
      split
      · exact h
      · rename_i hlt
        have c := h.core
        have hvm := (findVol_some hv).1
        have hvo := c.vol vol hvm
        let g : Volume → Volume := fun x => { x with slots := x.slots ++ List.replicate (n - x.total) {}, total := n }
        have hgid : ∀ x, (g x).id = x.id := fun _ => rfl
        refine ⟨⟨?_, ?_, ?_, ?_, ?_⟩, h.c1ids, h.c2ids, h.mContract, h.mTemp, ?_, h.pendR, h.pendRec⟩
        · show ((updVol v g s.vols).map (·.id)).Nodup
          rw [updVol_ids _ _ _ hgid]; exact c.ids
        · intro y hy
          rcases mem_updVol hy with ⟨h1, _⟩ | ⟨x, hx, hid, rfl⟩
          · exact c.vol y h1
          · have := c.vol x hx
            simp only [VolOK, occ_append, occ_replicate_empty, List.length_append, List.length_replicate] at this ⊢
            have e := eq_of_findVol c.ids hv hx hid
            subst e
            omega
        · intro r
          have : cnt (updVol v g s.vols) r = cnt s.vols r := by
            apply sumBy_updVol_same
            intro x _ _
            simp only [g, List.countP_append]
            have : List.countP (holds r) (List.replicate (n - x.total) ({} : Slot)) = 0 := by
              rw [List.countP_eq_zero]; intro a ha; rw [List.eq_of_mem_replicate ha]; simp [holds]
            omega
          show cnt (updVol v g s.vols) r ≤ 1
          rw [this]; exact c.uniq r
        · have h1 : sumBy (·.total) (updVol v g s.vols) + vol.total = sumBy (·.total) s.vols + n :=
            sumBy_updVol (·.total) v g s.vols c.ids vol hv
          have := c.mTotal
          show s.m.total + (n - vol.total) = sumBy (·.total) (updVol v g s.vols)
          omega
        · have : sumBy (·.used) (updVol v g s.vols) = sumBy (·.used) s.vols := by
            apply sumBy_updVol_same; intros; rfl
          show s.m.physical = sumBy (·.used) (updVol v g s.vols)
          rw [this]; exact c.mPhys
        · intro p hp
          obtain ⟨sl, h1, h2⟩ := h.pend p hp
          obtain ⟨pv, hpv, hs⟩ := slotAt_split h1
          refine ⟨sl, ?_, h2⟩
          show slotAt (updVol v g s.vols) p.v p.i = some sl
          rw [slotAt_updVol _ _ _ _ hgid]
          by_cases e : p.v = v
          · simp only [e, if_true, hv]
            rw [e, hv] at hpv; cases hpv
            have : p.i < vol.slots.length := by
              have := List.getElem?_eq_some_iff.mp hs; exact this.1
            simp only [g, List.getElem?_append_left this]; exact hs
          · simp only [e, if_false]; exact h1

theorem setFlags_ok {s : State} (h : MetaOK s) (v : Nat) (g : Volume → Volume) (hg : ∀ x, skel (g x) = skel x) :
    MetaOK { s with vols := updVol v g s.vols } :=
  metaOK_skel h (updVol_skel v g hg s.vols) rfl rfl rfl rfl (fun _ hp => hp) h.pendR (fun _ hx => hx)

theorem setReadOnly_ok {s : State} (h : MetaOK s) (v : Nat) (b : Bool) : MetaOK (setReadOnly s v b) :=
  setFlags_ok h v _ (fun _ => rfl)
theorem setAvailable_ok {s : State} (h : MetaOK s) (v : Nat) (b : Bool) : MetaOK (setAvailable s v b) :=
  setFlags_ok h v _ (fun _ => rfl)

theorem nodup_map_inj {α β : Type} {f : α → β} {l : List α} (hn : (l.map f).Nodup) {a b : α} (ha : a ∈ l) (hb : b ∈ l)
    (e : f a = f b) : a = b := by
  induction l with
  | nil => simp at ha
  | cons x xs ih =>
    simp only [List.map_cons, List.nodup_cons, List.mem_map, not_exists, not_and] at hn
    simp at ha hb
    rcases ha with rfl | ha <;> rcases hb with rfl | hb
    · rfl
    · exact absurd e.symm (hn.1 b hb)
    · exact absurd e (hn.1 a ha)
    · exact ih hn.2 ha hb

theorem nodup_map_filter {α β : Type} {f : α → β} {l : List α} (p : α → Bool) (hn : (l.map f).Nodup) : ((l.filter p).map f).Nodup :=
  List.Nodup.sublist ((List.filter_sublist).map f) hn

theorem occ_take_drop (n : Nat) (l : List Slot) : occ l = occ (l.take n) + occ (l.drop n) := by
  conv => lhs; rw [← List.take_append_drop n l]
  exact occ_append _ _

theorem shrink_ok {s : State} (h : MetaOK s) (v n : Nat) : MetaOK (shrink s v n).1 := by
  simp only [shrink]
  split
  · exact h
  split
  · exact h
  rename_i vol hv
  split
  · exact h
  rename_i hocc
  split
  · exact h
  rename_i hle
  split
  · exact h
  rename_i hmt
  have c := h.core
  have hvm := (findVol_some hv).1
  have hvo := c.vol vol hvm
  have hocc0 : occ (vol.slots.drop n) = 0 := by simpa using hocc
  let g : Volume → Volume := fun x => { x with slots := x.slots.take n, total := n }
  have hgid : ∀ x, (g x).id = x.id := fun _ => rfl
  refine ⟨⟨?_, ?_, ?_, ?_, ?_⟩, h.c1ids, h.c2ids, h.mContract, h.mTemp, ?_, h.pendR, h.pendRec⟩
  · show ((updVol v g s.vols).map (·.id)).Nodup
    rw [updVol_ids _ _ _ hgid]; exact c.ids
  · intro y hy
    rcases mem_updVol hy with ⟨h1, _⟩ | ⟨x, hx, hid, rfl⟩
    · exact c.vol y h1
    · have e := eq_of_findVol c.ids hv hx hid
      subst e
      have := occ_take_drop n x.slots
      simp only [VolOK, g, List.length_take] at hvo ⊢
      omega
  · intro r
    have : cnt (updVol v g s.vols) r ≤ cnt s.vols r := by
      simp only [cnt, updVol, sumBy_map]
      apply sumBy_le_sumBy
      intro x _
      split
      · simp only [g]
        exact List.Sublist.countP_le (List.take_sublist n x.slots)
      · exact Nat.le_refl _
    exact Nat.le_trans this (c.uniq r)
  · have h1 : sumBy (·.total) (updVol v g s.vols) + vol.total = sumBy (·.total) s.vols + n :=
      sumBy_updVol (·.total) v g s.vols c.ids vol hv
    have := c.mTotal
    show s.m.total - (vol.total - n) = sumBy (·.total) (updVol v g s.vols)
    omega
  · have : sumBy (·.used) (updVol v g s.vols) = sumBy (·.used) s.vols := by
      apply sumBy_updVol_same; intros; rfl
    show s.m.physical = sumBy (·.used) (updVol v g s.vols)
    rw [this]; exact c.mPhys
  · intro p hp
    obtain ⟨sl, h1, h2⟩ := h.pend p hp
    obtain ⟨pv, hpv, hs⟩ := slotAt_split h1
    refine ⟨sl, ?_, h2⟩
    show slotAt (updVol v g s.vols) p.v p.i = some sl
    rw [slotAt_updVol _ _ _ _ hgid]
    by_cases e : p.v = v
    · simp only [e, if_true, hv]
      rw [e, hv] at hpv; cases hpv
      have hi : p.i < n := by
        apply Classical.byContradiction; intro hge
        have hge : n ≤ p.i := Nat.le_of_not_lt hge
        have hmem : sl ∈ vol.slots.drop n := by
          have : (vol.slots.drop n)[p.i - n]? = some sl := by
            rw [List.getElem?_drop]; rw [show n + (p.i - n) = p.i by omega]; exact hs
          exact List.mem_of_getElem? this
        have : 0 < occ (vol.slots.drop n) := by
          simp only [occ]; rw [List.countP_pos_iff]; exact ⟨sl, hmem, by simp [isOcc, h2]⟩
        omega
      simp only [g, List.getElem?_take, hi, if_true]; exact hs
    · simp only [e, if_false]; exact h1

theorem removeVolume_ok {s : State} (h : MetaOK s) (v : Nat) (force : Bool) (hs : Safe s (.removeVolume v force)) :
    MetaOK (removeVolume s v force).1 := by
  simp only [removeVolume]
  split
  · exact h
  rename_i vol hv
  split
  · exact h
  rename_i hforce
  split
  · exact h
  split
  · exact h
  have c := h.core
  have hvm := (findVol_some hv).1
  have hvo := c.vol vol hvm
  have hpv : ∀ p ∈ s.pending, p.v ≠ v := by
    cases force with
    | true => exact hs rfl
    | false =>
      intro p hp e
      obtain ⟨sl, h1, h2⟩ := h.pend p hp
      obtain ⟨pv, hpv, hsl⟩ := slotAt_split h1
      rw [e, hv] at hpv; cases hpv
      have : 0 < occ vol.slots := by
        simp only [occ]; rw [List.countP_pos_iff]; exact ⟨sl, List.mem_of_getElem? hsl, by simp [isOcc, h2]⟩
      simp at hforce; omega
  refine ⟨⟨?_, ?_, ?_, ?_, ?_⟩, h.c1ids, h.c2ids, h.mContract, h.mTemp, ?_, h.pendR, h.pendRec⟩
  · exact List.Nodup.sublist ((List.filter_sublist).map _) c.ids
  · intro y hy; exact c.vol y (List.mem_filter.mp hy).1
  · intro r; exact Nat.le_trans (sumBy_filter_le _ _ _) (c.uniq r)
  · have := sumBy_filter_id (·.total) v s.vols c.ids vol hv
    have := c.mTotal
    simp only [VolOK] at hvo
    show s.m.total - vol.slots.length = sumBy (·.total) (s.vols.filter fun x => x.id != v)
    omega
  · have := sumBy_filter_id (·.used) v s.vols c.ids vol hv
    have := c.mPhys
    simp only [VolOK] at hvo
    show s.m.physical - occ vol.slots = sumBy (·.used) (s.vols.filter fun x => x.id != v)
    omega
  · intro p hp
    obtain ⟨sl, h1, h2⟩ := h.pend p hp
    refine ⟨sl, ?_, h2⟩
    show slotAt (s.vols.filter fun x => x.id != v) p.v p.i = some sl
    simp only [slotAt, findVol_filter_ne s.vols (hpv p hp)]
    exact h1

theorem eligibleAt_slot {vs : List Volume} {v i : Nat} (h : eligibleAt vs v i = true) :
    ∃ sl, slotAt vs v i = some sl ∧ sl.sec = none := by
  simp only [eligibleAt] at h
  split at h
  · simp at h
  · rename_i vol hv
    simp only [Bool.and_eq_true] at h
    obtain ⟨_, h2⟩ := h
    split at h2
    · rename_i sl hs
      exact ⟨sl, by simp [slotAt, hv, hs], by simpa [isFree] using h2⟩
    · simp at h2

theorem reserve_ok {s : State} (h : MetaOK s) (w : Nat) (r : SectorId) (b : BufId) (ch : Option (Nat × Nat)) :
    MetaOK (reserve s w r b ch).1 := by
  simp only [reserve]
  split
  · exact h
  split
  · exact metaOK_frame h rfl rfl rfl rfl rfl rfl (fun x hx => List.mem_cons_of_mem _ hx)
  rename_i hloc
  split
  · exact h
  split
  · exact h
  rename_i v i
  split
  · exact h
  rename_i hel
  obtain ⟨sl, hsl, hfree⟩ := eligibleAt_slot (by simpa using hel)
  have hcnt : cnt s.vols r = 0 := (located_false_iff _ _).mp (by simpa using hloc)
  refine ⟨core_place h.core hsl hfree hcnt, h.c1ids, h.c2ids, h.mContract, h.mTemp, ?_, ?_, ?_⟩
  · intro p hp
    simp only [List.mem_cons] at hp
    rcases hp with rfl | hp
    · rw [placeAt_eq]
      exact ⟨setSec (some r) sl, by rw [slotAt_modVol]; simp [hsl], rfl⟩
    · rw [placeAt_eq]
      apply holdsAt_modVol_other _ _ (h.pend p hp)
      intro ⟨e1, e2⟩
      obtain ⟨sl', h1, h2⟩ := h.pend p hp
      rw [e1, e2, hsl] at h1; cases h1
      rw [hfree] at h2; cases h2
  · simp only [List.map_cons, List.nodup_cons]
    refine ⟨?_, h.pendR⟩
    intro hm
    obtain ⟨p, hp, e⟩ := List.mem_map.mp hm
    have := holdsAt_cnt (h.pend p hp)
    rw [e] at this; omega
  · intro p hp
    simp only [List.mem_cons] at hp
    rcases hp with rfl | hp
    · simp
    · exact List.mem_cons_of_mem _ (h.pendRec p hp)

theorem findPending_spec {w : Nat} {ps : List Pending} {p : Pending} (h : findPending w ps = some p) : p ∈ ps ∧ p.w = w := by
  induction ps with
  | nil => simp [findPending] at h
  | cons x xs ih =>
    simp only [findPending] at h
    split at h
    · simp at h; subst h; simp [*]
    · have := ih h; simp [this]

theorem modSlot_skel (v i : Nat) (f : Slot → Slot) (hf : ∀ x, (f x).sec = x.sec) (vs : List Volume) :
    (modSlot v i f vs).map skel = vs.map skel := by
  apply updVol_skel
  intro x
  simp only [skel]
  rw [modAt_secs i f hf]

theorem finish_ok {s : State} (h : MetaOK s) (w : Nat) (ok : Bool) : MetaOK (finish s w ok).1 := by
  simp only [finish]
  split
  · exact h
  rename_i p hp
  obtain ⟨hpm, hpw⟩ := findPending_spec hp
  have hsub : ∀ q ∈ s.pending.filter (fun q => q.w != w), q ∈ s.pending := fun q hq => (List.mem_filter.mp hq).1
  have hnd : ((s.pending.filter (fun q => q.w != w)).map (·.r)).Nodup := nodup_map_filter _ h.pendR
  have h0 : MetaOK { s with pending := s.pending.filter (fun q => q.w != w) } :=
    metaOK_skel h rfl rfl rfl rfl rfl hsub hnd (fun _ hx => hx)
  split
  · exact h0
  rename_i vol hv
  split
  · split
    · exact h0
    · rename_i c hc
      refine metaOK_skel h ?_ rfl rfl rfl rfl hsub hnd (fun _ hx => hx)
      exact modSlot_skel p.v p.i (fun sl => { sl with content := c, durable := false }) (fun _ => rfl) s.vols
  · split
    · exact h0
    split
    · exact h0
    obtain ⟨hc, _, _⟩ := core_clear h.core (h.pend p hpm)
    refine ⟨hc, h.c1ids, h.c2ids, h.mContract, h.mTemp, ?_, hnd, fun q hq => h.pendRec q (hsub q hq)⟩
    intro q hq
    have hqm := hsub q hq
    rw [clearAt_eq]
    apply holdsAt_modVol_other _ _ (h.pend q hqm)
    intro ⟨e1, e2⟩
    have hq' := h.pend q hqm
    rw [e1, e2] at hq'
    have er := holdsAt_inj hq' (h.pend p hpm)
    have := nodup_map_inj h.pendR hqm hpm er
    subst this
    simp [hpw] at hq

theorem core_m {vs : List Volume} {m m' : Metrics} (c : Core vs m) (ht : m'.total = m.total) (hp : m'.physical = m.physical) :
    Core vs m' := ⟨c.ids, c.vol, c.uniq, by rw [ht]; exact c.mTotal, by rw [hp]; exact c.mPhys⟩

theorem revise1_ok {s : State} (h : MetaOK s) (c : Nat) (chs : List Change) : MetaOK (revise1 s c chs).1 := by
  simp only [revise1]
  split
  · exact h
  rename_i con hc
  split
  · exact h
  · exact h
  rename_i roots' _
  split
  · exact h
  have h1 := sumLen1_setRoots h.c1ids hc roots'
  have h2 := sumLen1_mem_le (findC1_mem hc)
  have := h.mContract
  exact ⟨core_m h.core rfl rfl, by rw [show (_ : State).c1 = setRoots1 c roots' s.c1 from rfl, setRoots1_ids]; exact h.c1ids, h.c2ids,
    by show s.m.contract + roots'.length - con.roots.length = sumLen1 (setRoots1 c roots' s.c1) + sumLen2 s.c2; omega,
    h.mTemp, h.pend, h.pendR, h.pendRec⟩

theorem revise2_ok {s : State} (h : MetaOK s) (c : Nat) (roots : List SectorId) : MetaOK (revise2 s c roots).1 := by
  simp only [revise2]
  split
  · exact h
  rename_i con hc
  split
  · exact h
  split
  · exact h
  have h1 := sumLen2_setRoots h.c2ids hc roots
  have h2 := sumLen2_mem_le (findC2_mem hc)
  have := h.mContract
  exact ⟨core_m h.core rfl rfl, h.c1ids, by rw [show (_ : State).c2 = setRoots2 c roots s.c2 from rfl, setRoots2_ids]; exact h.c2ids,
    by show s.m.contract + roots.length - con.roots.length = sumLen1 s.c1 + sumLen2 (setRoots2 c roots s.c2); omega,
    h.mTemp, h.pend, h.pendR, h.pendRec⟩

theorem addTemp_ok {s : State} (h : MetaOK s) (r : SectorId) (exp : Nat) : MetaOK (addTemp s r exp).1 := by
  simp only [addTemp]
  split
  · exact h
  · exact ⟨core_m h.core rfl rfl, h.c1ids, h.c2ids, h.mContract, by simp [h.mTemp], h.pend, h.pendR, h.pendRec⟩

theorem addTemps_ok {s : State} (h : MetaOK s) (l : List Temp) : MetaOK (addTemps s l).1 := by
  simp only [addTemps]
  split
  · exact h
  · exact ⟨core_m h.core rfl rfl, h.c1ids, h.c2ids, h.mContract, by simp [h.mTemp], h.pend, h.pendR, h.pendRec⟩

theorem addC1_ok {s : State} (h : MetaOK s) (id wEnd : Nat) : MetaOK (addC1 s id wEnd).1 := by
  simp only [addC1]
  split
  · exact h
  · rename_i hf
    have hnone : findC1 id s.c1 = none := by cases hx : findC1 id s.c1 <;> simp [hx] at hf ⊢
    refine ⟨core_m h.core rfl rfl, ?_, h.c2ids, ?_, h.mTemp, h.pend, h.pendR, h.pendRec⟩
    · simp only [List.map_append, List.map_cons, List.map_nil]
      rw [List.nodup_append]
      refine ⟨h.c1ids, by simp, ?_⟩
      intro a ha b hb
      simp at hb; subst hb
      intro e; subst e
      exact findC1_none_ids hnone ha
    · simp only [sumLen1_append, sumLen1]; simp; exact h.mContract

theorem addC2_ok {s : State} (h : MetaOK s) (id expH : Nat) : MetaOK (addC2 s id expH).1 := by
  simp only [addC2]
  split
  · exact h
  · rename_i hf
    have hnone : findC2 id s.c2 = none := by cases hx : findC2 id s.c2 <;> simp [hx] at hf ⊢
    refine ⟨core_m h.core rfl rfl, h.c1ids, ?_, ?_, h.mTemp, h.pend, h.pendR, h.pendRec⟩
    · simp only [List.map_append, List.map_cons, List.map_nil]
      rw [List.nodup_append]
      refine ⟨h.c2ids, by simp, ?_⟩
      intro a ha b hb
      simp at hb; subst hb
      intro e; subst e
      exact findC2_none_ids hnone ha
    · simp only [sumLen2_append, sumLen2]; simp; exact h.mContract

theorem nodup_map_ids1 (g : C1 → C1) (hg : ∀ c, (g c).id = c.id) (cs : List C1) (h : (cs.map (·.id)).Nodup) :
    ((cs.map g).map (·.id)).Nodup := by
  have : (cs.map g).map (·.id) = cs.map (·.id) := by simp [List.map_map, Function.comp_def, hg]
  rw [this]; exact h
theorem nodup_map_ids2 (g : C2 → C2) (hg : ∀ c, (g c).id = c.id) (cs : List C2) (h : (cs.map (·.id)).Nodup) :
    ((cs.map g).map (·.id)).Nodup := by
  have : (cs.map g).map (·.id) = cs.map (·.id) := by simp [List.map_map, Function.comp_def, hg]
  rw [this]; exact h

theorem setStatus1_ok {s : State} (h : MetaOK s) (id : Nat) (st : S1) : MetaOK (setStatus1 s id st) := by
  refine ⟨h.core, ?_, h.c2ids, ?_, h.mTemp, h.pend, h.pendR, h.pendRec⟩
  · exact nodup_map_ids1 _ (by intro c; split <;> rfl) _ h.c1ids
  · simp only [setStatus1]
    rw [sumLen1_map_roots]; exact h.mContract
    intro c; split <;> rfl

theorem setStatus2_ok {s : State} (h : MetaOK s) (id : Nat) (st : S2) : MetaOK (setStatus2 s id st) := by
  refine ⟨h.core, h.c1ids, ?_, ?_, h.mTemp, h.pend, h.pendR, h.pendRec⟩
  · exact nodup_map_ids2 _ (by intro c; split <;> rfl) _ h.c2ids
  · simp only [setStatus2]
    rw [sumLen2_map_roots]; exact h.mContract
    intro c; split <;> rfl

theorem expire1_ok {s : State} (f : Facts) (h : MetaOK s) (ht : Nat) : MetaOK (expire1 f s ht).1 := by
  simp only [expire1]
  split
  · exact h
  have h1 := sumLen1_expire (dead1 f ht) s.c1
  have := h.mContract
  refine ⟨core_m h.core rfl rfl, ?_, h.c2ids, ?_, h.mTemp, h.pend, h.pendR, h.pendRec⟩
  · exact nodup_map_ids1 _ (by intro c; split <;> rfl) _ h.c1ids
  · simp only; omega

theorem expire2_ok {s : State} (f : Facts) (h : MetaOK s) (ht : Nat) : MetaOK (expire2 f s ht).1 := by
  simp only [expire2]
  split
  · exact h
  have h1 := sumLen2_expire (dead2 f ht) s.c2
  have := h.mContract
  refine ⟨core_m h.core rfl rfl, h.c1ids, ?_, ?_, h.mTemp, h.pend, h.pendR, h.pendRec⟩
  · exact nodup_map_ids2 _ (by intro c; split <;> rfl) _ h.c2ids
  · simp only; omega

theorem filter_length_add {α : Type} (p : α → Bool) (l : List α) : (l.filter p).length + (l.filter (fun x => !p x)).length = l.length := by
  induction l with
  | nil => rfl
  | cons x xs ih => simp only [List.filter_cons]; cases p x <;> simp <;> omega

theorem expireTemp_ok {s : State} (h : MetaOK s) (ht : Nat) : MetaOK (expireTemp s ht).1 := by
  simp only [expireTemp]
  split
  · exact h
  have h1 := filter_length_add (deadT ht) s.temps
  have := h.mTemp
  refine ⟨core_m h.core rfl rfl, h.c1ids, h.c2ids, h.mContract, ?_, h.pend, h.pendR, h.pendRec⟩
  show s.m.temp - (s.temps.filter (deadT ht)).length = (s.temps.filter fun t => !deadT ht t).length
  omega

theorem tick_ok {s : State} (h : MetaOK s) (hs : s.pending = []) : MetaOK (tick s) :=
  ⟨h.core, h.c1ids, h.c2ids, h.mContract, h.mTemp, by simp [tick, hs], by simp [tick, hs], by simp [tick, hs]⟩

/-! ### prune -/

theorem countP_map_le {α : Type} (p : α → Bool) (f : α → α) (hf : ∀ x, p (f x) = true → p x = true) (l : List α) :
    (l.map f).countP p ≤ l.countP p := by
  induction l with
  | nil => simp
  | cons x xs ih =>
    simp only [List.map_cons, List.countP_cons]
    have := hf x
    cases h1 : p (f x) <;> cases h2 : p x <;> simp_all <;> omega

theorem pruneSlot_sec (s : State) (x : Slot) : (pruneSlot s x).sec = x.sec ∨ (pruneSlot s x).sec = none := by
  simp only [pruneSlot]
  split
  · split
    · right; rfl
    · left; rfl
  · left; rfl

theorem findVol_map (id : Nat) (g : Volume → Volume) (hg : ∀ x, (g x).id = x.id) (vs : List Volume) :
    findVol id (vs.map g) = (findVol id vs).map g := by
  induction vs with
  | nil => rfl
  | cons x xs ih =>
    simp only [List.map_cons, findVol, hg]
    split
    · rfl
    · exact ih

theorem prune_ok {s : State} (h : MetaOK s) : MetaOK (prune s).1 := by
  simp only [prune]
  split
  · exact h
  split
  · exact h
  have c := h.core
  have hocc : ∀ v : Volume, occ (v.slots.map (pruneSlot s)) ≤ occ v.slots := by
    intro v
    apply countP_map_le
    intro x hx
    rcases pruneSlot_sec s x with e | e
    · simpa [isOcc, e] using hx
    · simp [isOcc, e] at hx
  have hid : ∀ x, (pruneVol s x).id = x.id := fun _ => rfl
  refine ⟨⟨?_, ?_, ?_, ?_, ?_⟩, h.c1ids, h.c2ids, h.mContract, h.mTemp, ?_, h.pendR, h.pendRec⟩
  · show ((s.vols.map (pruneVol s)).map (·.id)).Nodup
    have : (s.vols.map (pruneVol s)).map (·.id) = s.vols.map (·.id) := by simp [List.map_map, Function.comp_def, hid]
    rw [this]; exact c.ids
  · intro y hy
    obtain ⟨x, hx, rfl⟩ := List.mem_map.mp hy
    have hv := c.vol x hx
    have := hocc x
    simp only [VolOK, pruneVol, List.length_map] at hv ⊢
    omega
  · intro r
    have : cnt (s.vols.map (pruneVol s)) r ≤ cnt s.vols r := by
      simp only [cnt, sumBy_map]
      apply sumBy_le_sumBy
      intro x _
      simp only [pruneVol]
      apply countP_map_le
      intro y hy
      rcases pruneSlot_sec s y with e | e
      · simpa [holds, e] using hy
      · simp [holds, e] at hy
    exact Nat.le_trans this (c.uniq r)
  · show s.m.total = sumBy (·.total) (s.vols.map (pruneVol s))
    rw [sumBy_map]; exact c.mTotal
  · show s.m.physical - sumBy (prunedIn s) s.vols = sumBy (·.used) (s.vols.map (pruneVol s))
    rw [sumBy_map]
    have := sumBy_sub (·.used) (prunedIn s) s.vols (by
      intro v hv
      have := c.vol v hv
      simp only [VolOK, prunedIn] at this ⊢
      omega)
    have hp := c.mPhys
    simp only [pruneVol, prunedIn] at this ⊢
    omega
  · intro p hp
    obtain ⟨sl, h1, h2⟩ := h.pend p hp
    obtain ⟨vol, hv, hs⟩ := slotAt_split h1
    refine ⟨sl, ?_, h2⟩
    show slotAt (s.vols.map (pruneVol s)) p.v p.i = some sl
    simp only [slotAt, findVol_map _ _ hid, hv, Option.map_some, pruneVol, List.getElem?_map, hs]
    have : pruneSlot s sl = sl := by
      simp only [pruneSlot, h2, prunable]
      have := h.pendRec p hp
      have hc : s.recent.contains p.r = true := by simpa using this
      simp [hc]
      intro _ hn; exact absurd this hn
    simp [this]

/-! ### RemoveSector -/

theorem idxOf_spec {r : SectorId} {l : List Slot} {k j : Nat} (h : idxOf r l k = some j) :
    k ≤ j ∧ ∃ sl, l[j - k]? = some sl ∧ sl.sec = some r := by
  induction l generalizing k with
  | nil => simp [idxOf] at h
  | cons x xs ih =>
    simp only [idxOf] at h
    split at h
    · rename_i hx
      simp at h; subst h
      exact ⟨Nat.le_refl _, x, by simp, by simpa [holds] using hx⟩
    · obtain ⟨h1, sl, h2, h3⟩ := ih h
      refine ⟨by omega, sl, ?_, h3⟩
      rw [show j - k = (j - (k + 1)) + 1 by omega]
      simpa using h2

theorem findLoc_spec {vs : List Volume} (hn : (vs.map (·.id)).Nodup) {r : SectorId} {v i : Nat} (h : findLoc vs r = some (v, i)) :
    holdsAt vs v i r := by
  induction vs with
  | nil => simp [findLoc] at h
  | cons x xs ih =>
    simp only [List.map_cons, List.nodup_cons] at hn
    simp only [findLoc] at h
    split at h
    · rename_i j hj
      simp at h
      obtain ⟨rfl, rfl⟩ := h
      obtain ⟨_, sl, h2, h3⟩ := idxOf_spec hj
      exact ⟨sl, by simpa [slotAt, findVol] using h2, h3⟩
    · obtain ⟨sl, h1, h2⟩ := ih hn.2 h
      obtain ⟨vol, hv, hs⟩ := slotAt_split h1
      have : x.id ≠ v := by
        intro e; apply hn.1
        simp only [List.mem_map]; exact ⟨vol, (findVol_some hv).1, by rw [(findVol_some hv).2, e]⟩
      exact ⟨sl, by simp [slotAt, findVol, this, hv, hs], h2⟩

theorem syncVol_skel (v : Nat) (vs : List Volume) : (syncVol v vs).map skel = vs.map skel := by
  apply updVol_skel
  intro x
  simp [skel, List.map_map, Function.comp_def]

theorem removeSector_ok {s : State} (h : MetaOK s) (r : SectorId) (data : Bool) (hs : Safe s (.removeSector r data)) :
    MetaOK (removeSector s r data).1 := by
  simp only [removeSector]
  split
  · exact h
  have h' : MetaOK { s with recent := r :: s.recent } :=
    metaOK_frame h rfl rfl rfl rfl rfl rfl (fun x hx => List.mem_cons_of_mem _ hx)
  split
  · exact h'
  rename_i v i hloc
  split
  · exact h'
  split
  · exact h'
  split
  · exact h'
  have hh : holdsAt s.vols v i r := findLoc_spec h.core.ids hloc
  obtain ⟨hc, _, _⟩ := core_clear h.core hh
  have hpend : ∀ p ∈ s.pending, holdsAt (clearAt s.vols v i) p.v p.i p.r := by
    intro p hp
    rw [clearAt_eq]
    apply holdsAt_modVol_other _ _ (h.pend p hp)
    intro ⟨e1, e2⟩
    have hq := h.pend p hp
    rw [e1, e2] at hq
    exact hs p hp (holdsAt_inj hq hh)
  have hrec : ∀ p ∈ s.pending, p.r ∈ r :: s.recent := fun p hp => List.mem_cons_of_mem _ (h.pendRec p hp)
  cases data with
  | false =>
    exact ⟨core_m hc rfl rfl, h.c1ids, h.c2ids, h.mContract, h.mTemp, hpend, h.pendR, hrec⟩
  | true =>
    have hsk : (syncVol v (modSlot v i zeroSlot (clearAt s.vols v i))).map skel = (clearAt s.vols v i).map skel := by
      rw [syncVol_skel, modSlot_skel v i zeroSlot (fun _ => rfl)]
    exact ⟨core_m (core_of_skel hsk hc) rfl rfl, h.c1ids, h.c2ids, h.mContract, h.mTemp,
      fun p hp => holdsAt_of_skel hsk (hpend p hp), h.pendR, hrec⟩

/-! ### migration -/

theorem secAt_of_skel {vs vs' : List Volume} (h : vs'.map skel = vs.map skel) (v i : Nat) :
    (slotAt vs' v i).map (·.sec) = (slotAt vs v i).map (·.sec) := by
  have hf := findVol_of_skel h v
  simp only [slotAt]
  cases hv : findVol v vs with
  | none =>
    rw [hv] at hf
    cases hv' : findVol v vs' with
    | none => rfl
    | some _ => simp [hv'] at hf
  | some vol =>
    rw [hv] at hf
    cases hv' : findVol v vs' with
    | none => simp [hv'] at hf
    | some vol' =>
      rw [hv'] at hf
      simp only [Option.map_some, Option.some.injEq, skel, Prod.mk.injEq] at hf
      exact getElem?_sec_of_secs hf.2.2.2 i

theorem freeAt_of_skel {vs vs' : List Volume} (h : vs'.map skel = vs.map skel) {v i : Nat}
    (hf : ∃ sl, slotAt vs v i = some sl ∧ sl.sec = none) : ∃ sl, slotAt vs' v i = some sl ∧ sl.sec = none := by
  obtain ⟨sl, h1, h2⟩ := hf
  have := secAt_of_skel h v i
  rw [h1] at this
  cases hs : slotAt vs' v i with
  | none => simp [hs] at this
  | some sl' => simp [hs] at this; exact ⟨sl', rfl, by rw [this, h2]⟩

theorem cnt_modVol {vs : List Volume} (hn : (vs.map (·.id)).Nodup) {v i : Nat} {vol : Volume} {sl : Slot}
    (hv : findVol v vs = some vol) (hs : vol.slots[i]? = some sl) (f : Slot → Slot) (u : Nat → Nat) (r' : SectorId) :
    cnt (updVol v (modVol i f u) vs) r' + (if holds r' sl then 1 else 0) = cnt vs r' + (if holds r' (f sl) then 1 else 0) := by
  have h1 := sumBy_updVol (fun v => v.slots.countP (holds r')) v (modVol i f u) vs hn vol hv
  have h2 := countP_modAt (holds r') i f vol.slots sl hs
  simp only [cnt, modVol] at h1 ⊢
  omega

theorem nextOcc_spec {l : List Slot} {k c i : Nat} {r : SectorId} (h : nextOcc l k c = some (i, r)) :
    k ≤ i ∧ ∃ sl, l[i - k]? = some sl ∧ sl.sec = some r := by
  induction l generalizing k with
  | nil => simp [nextOcc] at h
  | cons x xs ih =>
    simp only [nextOcc] at h
    have step : nextOcc xs (k + 1) c = some (i, r) → k ≤ i ∧ ∃ sl, (x :: xs)[i - k]? = some sl ∧ sl.sec = some r := by
      intro h'
      obtain ⟨h1, sl, h2, h3⟩ := ih h'
      refine ⟨by omega, sl, ?_, h3⟩
      rw [show i - k = (i - (k + 1)) + 1 by omega]
      simpa using h2
    split at h
    · split at h
      · rename_i r' hr'
        simp at h
        obtain ⟨rfl, rfl⟩ := h
        exact ⟨Nat.le_refl _, x, by simp, hr'⟩
      · exact step h
    · exact step h

theorem validTo_slot {vs : List Volume} {v start tv ti : Nat} (h : validTo vs v start tv ti = true) :
    ∃ sl, slotAt vs tv ti = some sl ∧ sl.sec = none := by
  simp only [validTo] at h
  split at h
  · exact eligibleAt_slot h
  · simp only [Bool.and_eq_true, decide_eq_true_eq] at h
    obtain ⟨⟨⟨_, rfl⟩, _⟩, h4⟩ := h
    split at h4
    · rename_i sl hs
      exact ⟨sl, hs, by simpa [isFree] using h4⟩
    · simp at h4

theorem moveMeta_eq {vs : List Volume} {m : Metrics} (c : Core vs m) {v i : Nat} {r : SectorId} (hh : holdsAt vs v i r) (tv ti : Nat) :
    moveMeta vs v i tv ti r = placeAt (clearAt vs v i) tv ti r := by
  simp only [moveMeta]
  split
  · rename_i e
    subst e
    obtain ⟨_, _, vol, hv, hpos⟩ := core_clear c hh
    simp only [placeAt, clearAt, updVol, List.map_map]
    apply List.map_congr_left
    intro x hx
    simp only [Function.comp]
    by_cases hid : x.id = v
    · have := eq_of_findVol c.ids hv hx hid
      subst this
      simp only [hid, if_true]
      have : x.used - 1 + 1 = x.used := by omega
      simp [this]
    · simp [hid]
  · rfl

theorem core_move {vs : List Volume} {m : Metrics} {v i tv ti : Nat} {r : SectorId} {sl : Slot}
    (c : Core vs m) (hh : holdsAt vs v i r) (ht : slotAt vs tv ti = some sl) (hfree : sl.sec = none) :
    Core (moveMeta vs v i tv ti r) m := by
  rw [moveMeta_eq c hh]
  obtain ⟨hc, hp, _⟩ := core_clear c hh
  obtain ⟨sl0, hs0, hsec0⟩ := hh
  have hne : ¬ (tv = v ∧ ti = i) := by
    intro ⟨e1, e2⟩
    rw [e1, e2, hs0] at ht; cases ht
    rw [hfree] at hsec0; cases hsec0
  have ht' : slotAt (clearAt vs v i) tv ti = some sl := by
    rw [clearAt_eq, slotAt_modVol]; simp [hne, ht]
  obtain ⟨vol, hv, hs⟩ := slotAt_split hs0
  have hcnt : cnt (clearAt vs v i) r = 0 := by
    have := cnt_modVol c.ids hv hs (setSec none) (· - 1) r
    have hu := c.uniq r
    rw [clearAt_eq]
    simp [holds, hsec0, setSec] at this
    omega
  have := core_place hc ht' hfree hcnt
  exact core_m this rfl (by simp only; omega)

theorem holdsAt_move {vs : List Volume} {m : Metrics} (c : Core vs m) {v i tv ti pv pi : Nat} {r pr : SectorId} {sl : Slot}
    (hh : holdsAt vs v i r) (ht : slotAt vs tv ti = some sl) (hfree : sl.sec = none)
    (hq : holdsAt vs pv pi pr) (hne : ¬ (pv = v ∧ pi = i)) : holdsAt (moveMeta vs v i tv ti r) pv pi pr := by
  rw [moveMeta_eq c hh, placeAt_eq, clearAt_eq]
  apply holdsAt_modVol_other
  · exact holdsAt_modVol_other _ _ hq hne
  · intro ⟨e1, e2⟩
    obtain ⟨sl', h1, h2⟩ := hq
    rw [e1, e2, ht] at h1; cases h1
    rw [hfree] at h2; cases h2

theorem moveOne_pending (s : State) (v i : Nat) (r : SectorId) (mv : Move) : (moveOne s v i r mv).1.pending = s.pending := by
  simp only [moveOne]
  split
  · rfl
  split
  · rfl
  split
  · rfl
  split <;> rfl

theorem moveOne_ok {s : State} (h : MetaOK s) {v i : Nat} {r : SectorId} (mv : Move) (hh : holdsAt s.vols v i r)
    (ht : ∃ sl, slotAt s.vols mv.toV mv.toI = some sl ∧ sl.sec = none) (hs : ∀ p ∈ s.pending, p.v ≠ v) :
    MetaOK (moveOne s v i r mv).1 := by
  simp only [moveOne]
  split
  · exact h
  split
  · exact h
  rename_i sl0 hsl0
  have h1 : MetaOK { s with heap := s.heap ++ [sl0.content], cache := cacheAdd s.cacheSize r s.heap.length s.cache } :=
    metaOK_frame h rfl rfl rfl rfl rfl rfl (fun _ hx => hx)
  split
  · exact h1
  have hsk : (syncVol mv.toV (modSlot mv.toV mv.toI (fun x => { x with content := sl0.content, durable := false }) s.vols)).map skel
      = s.vols.map skel := by
    rw [syncVol_skel, modSlot_skel mv.toV mv.toI (fun x => { x with content := sl0.content, durable := false }) (fun _ => rfl)]
  have h2 : MetaOK { s with
      vols := syncVol mv.toV (modSlot mv.toV mv.toI (fun x => { x with content := sl0.content, durable := false }) s.vols)
      heap := s.heap ++ [sl0.content]
      cache := cacheAdd s.cacheSize r s.heap.length s.cache } :=
    metaOK_skel h hsk rfl rfl rfl rfl (fun _ hp => hp) h.pendR (fun _ hx => hx)
  split
  · exact h2
  have hh' := holdsAt_of_skel hsk hh
  obtain ⟨slt, ht1, ht2⟩ := freeAt_of_skel hsk ht
  refine ⟨core_move h2.core hh' ht1 ht2, h.c1ids, h.c2ids, h.mContract, h.mTemp, ?_, h.pendR, h.pendRec⟩
  intro p hp
  apply holdsAt_move h2.core hh' ht1 ht2 (h2.pend p hp)
  intro ⟨e1, _⟩
  exact hs p hp e1

theorem migrateGo_ok {v start : Nat} (moves : List Move) : ∀ {s : State} (cursor nOk nFail : Nat), MetaOK s →
    (∀ p ∈ s.pending, p.v ≠ v) → MetaOK (migrateGo s v start cursor nOk nFail moves).1 := by
  induction moves with
  | nil =>
    intro s cursor nOk nFail h _
    simp only [migrateGo]
    split
    · exact h
    split
    · exact h
    split <;> exact h
  | cons mv rest ih =>
    intro s cursor nOk nFail h hs
    simp only [migrateGo]
    split
    · exact h
    rename_i vol hv
    split
    · exact h
    rename_i i r hn
    split
    · exact h
    split
    · exact h
    rename_i hvalid
    obtain ⟨_, sl, hsl, hsec⟩ := nextOcc_spec hn
    have hh : holdsAt s.vols v i r := ⟨sl, by simpa [slotAt, hv] using hsl, hsec⟩
    have ht := validTo_slot (by simpa using hvalid)
    have hm := moveOne_ok h mv hh ht hs
    have hp := moveOne_pending s v i r mv
    generalize hmo : moveOne s v i r mv = res at hm hp
    obtain ⟨s', ok⟩ := res
    simp only at hm hp ⊢
    split
    · exact hm
    split
    · split
      · exact hm
      · exact ih _ _ _ hm (by rw [hp]; exact hs)
    · exact ih _ _ _ hm (by rw [hp]; exact hs)

theorem migrate_ok {s : State} (h : MetaOK s) (v start : Nat) (moves : List Move) (hs : ∀ p ∈ s.pending, p.v ≠ v) :
    MetaOK (migrate s v start moves).1 := migrateGo_ok moves _ _ _ h hs

theorem migrateGo_pending {v start : Nat} (moves : List Move) : ∀ (s : State) (cursor nOk nFail : Nat),
    (migrateGo s v start cursor nOk nFail moves).1.pending = s.pending := by
  induction moves with
  | nil =>
    intro s cursor nOk nFail
    simp only [migrateGo]
    split
    · rfl
    split
    · rfl
    split <;> rfl
  | cons mv rest ih =>
    intro s cursor nOk nFail
    simp only [migrateGo]
    split
    · rfl
    split
    · rfl
    rename_i i r _
    split
    · rfl
    split
    · rfl
    have hp := moveOne_pending s v i r mv
    generalize moveOne s v i r mv = res at hp
    obtain ⟨s', ok⟩ := res
    simp only at hp ⊢
    split
    · exact hp
    split
    · split
      · exact hp
      · rw [ih]; exact hp
    · rw [ih]; exact hp

/-! ### operations that only touch file contents, flags or process memory -/

theorem crashSlots_secs (v : Nat) (lost : List (Nat × Nat)) (l : List Slot) (k : Nat) :
    (crashSlots v lost l k).map (·.sec) = l.map (·.sec) := by
  induction l generalizing k with
  | nil => rfl
  | cons x xs ih =>
    simp only [crashSlots, List.map_cons, ih]
    split <;> rfl

theorem map_skel_of (g : Volume → Volume) (hg : ∀ x, skel (g x) = skel x) (vs : List Volume) : (vs.map g).map skel = vs.map skel := by
  simp [List.map_map, Function.comp_def, hg]

theorem crash_ok {s : State} (h : MetaOK s) (lost : List (Nat × Nat)) : MetaOK (crash s lost).1 := by
  simp only [crash]
  split
  · exact h
  · refine metaOK_skel h ?_ rfl rfl rfl rfl (by simp) (by simp) (fun _ hx => hx)
    apply map_skel_of
    intro x
    simp only [skel, crashSlots_secs]

theorem restart_ok {s : State} (h : MetaOK s) : MetaOK (restart s).1 := by
  simp only [restart]
  split
  · exact h
  · apply crash_ok
    refine metaOK_skel h ?_ rfl rfl rfl rfl (fun _ hp => hp) h.pendR (fun _ hx => hx)
    apply map_skel_of
    intro x
    simp [skel, List.map_map, Function.comp_def]

theorem sync_ok {s : State} (h : MetaOK s) : MetaOK (sync s) := by
  refine metaOK_skel h ?_ rfl rfl rfl rfl (fun _ hp => hp) h.pendR (fun _ hx => hx)
  show (s.changed.foldl (fun vs v => syncVol v vs) s.vols).map skel = s.vols.map skel
  generalize s.changed = l
  generalize s.vols = vs
  induction l generalizing vs with
  | nil => rfl
  | cons x xs ih => simp only [List.foldl_cons]; rw [ih, syncVol_skel]

theorem read_ok {s : State} (h : MetaOK s) (r : SectorId) : MetaOK (Hostd.Volumes.read s r).1 := by
  simp only [Hostd.Volumes.read]
  split
  · exact metaOK_frame h rfl rfl rfl rfl rfl rfl (fun _ hx => hx)
  split
  · exact h
  have h' : MetaOK { s with recent := r :: s.recent } :=
    metaOK_frame h rfl rfl rfl rfl rfl rfl (fun x hx => List.mem_cons_of_mem _ hx)
  split
  · exact h'
  split
  · exact h'
  · exact metaOK_frame h rfl rfl rfl rfl rfl rfl (fun x hx => List.mem_cons_of_mem _ hx)

theorem mutate_ok {s : State} (h : MetaOK s) (b : BufId) (c : Content) : MetaOK (mutate s b c).1 := by
  simp only [mutate]
  split
  · exact metaOK_frame h rfl rfl rfl rfl rfl rfl (fun _ hx => hx)
  · exact h

/-! ### VolumeManager orchestration -/

theorem setReadOnly_pending (s : State) (v : Nat) (b : Bool) : (setReadOnly s v b).pending = s.pending := rfl

theorem vmAddVolume_ok {s : State} (h : MetaOK s) (id n : Nat) : MetaOK (vmAddVolume s id n).1 := by
  simp only [vmAddVolume]
  split
  · exact h
  have ha := addVolume_ok h id false
  generalize addVolume s id false = res at ha
  obtain ⟨s1, r⟩ := res
  cases r <;> first | exact ha | exact grow_ok (setAvailable_ok ha id true) id n

theorem vmResize_ok {s : State} (h : MetaOK s) (v n : Nat) (moves : List Move) (hs : ∀ p ∈ s.pending, p.v ≠ v) :
    MetaOK (vmResize s v n moves).1 := by
  simp only [vmResize]
  split
  · exact h
  rename_i vol hv
  split
  · -- shrinking
    have h1 : MetaOK (if (!vol.readOnly) = true then setReadOnly s v true else s) := by
      split
      · exact setReadOnly_ok h v true
      · exact h
    have hp1 : (if (!vol.readOnly) = true then setReadOnly s v true else s).pending = s.pending := by split <;> rfl
    generalize (if (!vol.readOnly) = true then setReadOnly s v true else s) = s1 at h1 hp1
    have h2 := migrate_ok h1 v n moves (by rw [hp1]; exact hs)
    generalize migrate s1 v n moves = res at h2
    obtain ⟨s2, r⟩ := res
    simp only at h2 ⊢
    have key : ∀ (x : State × Res), MetaOK x.1 →
        MetaOK (if (!vol.readOnly) = true then setReadOnly x.1 v false else x.1) := by
      intro x hx
      split
      · exact setReadOnly_ok hx v false
      · exact hx
    apply key
    split
    · exact shrink_ok h2 v n
    · exact h2
    · exact h2
  · split
    · exact grow_ok h v n
    · exact h

theorem vmRemove_ok {s : State} (h : MetaOK s) (v : Nat) (force : Bool) (moves : List Move) (hs : ∀ p ∈ s.pending, p.v ≠ v) :
    MetaOK (vmRemove s v force moves).1 := by
  simp only [vmRemove]
  split
  · exact h
  have h1 := setReadOnly_ok h v true
  have h2 := migrate_ok h1 v 0 moves (by rw [setReadOnly_pending]; exact hs)
  have hp2 : (migrate (setReadOnly s v true) v 0 moves).1.pending = s.pending := by
    simp only [migrate]; rw [migrateGo_pending]; rfl
  generalize migrate (setReadOnly s v true) v 0 moves = res at h2 hp2
  obtain ⟨s2, r⟩ := res
  simp only at h2 hp2 ⊢
  split
  · split
    · exact h2
    · apply removeVolume_ok h2
      intro _ p hp
      rw [hp2] at hp
      exact hs p hp
  · exact h2

/-! ### Sync in two phases, resize from a stale total -/

theorem syncBegin_ok {s : State} (h : MetaOK s) : MetaOK (syncBegin s).1 := by
  simp only [syncBegin]; split
  · exact h
  · exact metaOK_frame h rfl rfl rfl rfl rfl rfl (fun _ hx => hx)

theorem syncEnd_ok {s : State} (h : MetaOK s) : MetaOK (syncEnd s).1 := by
  simp only [syncEnd]; split
  · split
    · exact metaOK_frame h rfl rfl rfl rfl rfl rfl (fun _ hx => hx)
    · exact h
  · exact h

theorem syncFsync_ok (f : Facts) {s : State} (h : MetaOK s) (v : Nat) : MetaOK (syncFsync f s v).1 := by
  simp only [syncFsync]; split
  · exact h
  split
  · split
    · exact metaOK_skel h (syncVol_skel v s.vols) rfl rfl rfl rfl (fun _ hp => hp) h.pendR (fun _ hx => hx)
    · exact h
  · split
    · exact metaOK_skel h (syncVol_skel v s.vols) rfl rfl rfl rfl (fun _ hp => hp) h.pendR (fun _ hx => hx)
    · exact h

theorem syncClear_ok (f : Facts) {s : State} (h : MetaOK s) (v : Nat) : MetaOK (syncClear f s v).1 := by
  simp only [syncClear]; split
  · exact h
  split
  · split
    · exact metaOK_frame h rfl rfl rfl rfl rfl rfl (fun _ hx => hx)
    · exact h
  · split
    · exact metaOK_frame h rfl rfl rfl rfl rfl rfl (fun _ hx => hx)
    · exact h

theorem syncFsyncFail_ok (f : Facts) {s : State} (h : MetaOK s) (v : Nat) : MetaOK (syncFsyncFail f s v).1 := by
  simp only [syncFsyncFail]; split
  · exact h
  split
  · split
    · exact metaOK_frame h rfl rfl rfl rfl rfl rfl (fun _ hx => hx)
    · exact h
  · split
    · exact metaOK_frame h rfl rfl rfl rfl rfl rfl (fun _ hx => hx)
    · exact h

theorem foldSyncVol_skel (l : List Nat) (vs : List Volume) : (l.foldl (fun vs w => syncVol w vs) vs).map skel = vs.map skel := by
  induction l generalizing vs with
  | nil => rfl
  | cons x xs ih => simp only [List.foldl_cons]; rw [ih, syncVol_skel]

theorem syncPartial_ok (f : Facts) {s : State} (h : MetaOK s) (oks : List Nat) (fail : Option Nat) : MetaOK (syncPartial f s oks fail).1 := by
  simp only [syncPartial]
  repeat' split
  all_goals first
    | exact h
    | exact metaOK_skel h (foldSyncVol_skel oks s.vols) rfl rfl rfl rfl (fun _ hp => hp) h.pendR (fun _ hx => hx)

theorem truncSlots_secs (cut n : Nat) (l : List Slot) (k : Nat) : (truncSlots cut n l k).map (·.sec) = l.map (·.sec) := by
  induction l generalizing k with
  | nil => rfl
  | cons x xs ih =>
    simp only [truncSlots, List.map_cons, ih]
    split <;> rfl

theorem truncFile_skel (v cut n : Nat) (vs : List Volume) : (truncFile v cut n vs).map skel = vs.map skel := by
  apply updVol_skel
  intro x
  simp only [skel, truncSlots_secs]

theorem vmResizeStale_ok (f : Facts) {s : State} (h : MetaOK s) (cur v n : Nat) (moves : List Move)
    (hs : ∀ p ∈ s.pending, p.v ≠ v) : MetaOK (vmResizeStale f s cur v n moves).1 := by
  simp only [vmResizeStale]
  split
  · exact h
  rename_i vol hv
  split
  · exact vmResize_ok h v n moves hs
  split
  · have h1 : MetaOK (if min (cur + resizeBatch) n < vol.total then { s with vols := truncFile v (min (cur + resizeBatch) n) n s.vols } else s) := by
      split
      · exact metaOK_skel h (truncFile_skel _ _ _ _) rfl rfl rfl rfl (fun _ hp => hp) h.pendR (fun _ hx => hx)
      · exact h
    split
    · exact grow_ok h1 v n
    · exact h1
  split
  · split
    · exact h
    · exact vmResize_ok h v n moves hs
  · exact h

/-! ### the batched loops, one transaction at a time -/

theorem splitIdx_countP (p : Slot → Bool) (gone : List Nat) (l : List Slot) (k : Nat) :
    l.countP p = (splitIdx gone l k).1.countP p + (splitIdx gone l k).2.countP p := by
  induction l generalizing k with
  | nil => simp [splitIdx]
  | cons x xs ih =>
    simp only [splitIdx]
    have := ih (k + 1)
    split <;> simp only [List.countP_cons] <;> omega

theorem splitIdx_length (gone : List Nat) (l : List Slot) (k : Nat) :
    l.length = (splitIdx gone l k).1.length + (splitIdx gone l k).2.length := by
  induction l generalizing k with
  | nil => simp [splitIdx]
  | cons x xs ih =>
    simp only [splitIdx]
    have := ih (k + 1)
    split <;> simp only [List.length_cons] <;> omega

theorem splitIdx_mem (gone : List Nat) (l : List Slot) (k : Nat) : ∀ x ∈ (splitIdx gone l k).1, x ∈ l := by
  induction l generalizing k with
  | nil => simp [splitIdx]
  | cons y ys ih =>
    intro x hx
    simp only [splitIdx] at hx
    split at hx
    · exact List.mem_cons_of_mem _ (ih (k + 1) x hx)
    · simp only [List.mem_cons] at hx ⊢
      rcases hx with rfl | hx
      · exact Or.inl rfl
      · exact Or.inr (ih (k + 1) x hx)

/-- the shape of `batchRemoveVolumeSectors` for which a removal that stops between two batches leaves
the counters exact: no occupied row is deleted (not forced), or `used_sectors` follows the deleted rows -/
def RemoveShapeOK (f : Facts) (force : Bool) : Prop := force = false ∨ f.removeUpdatesUsed = true

theorem removeRows_ok (f : Facts) {s : State} (h : MetaOK s) (v : Nat) (force : Bool) (gone : List Nat)
    (hshape : RemoveShapeOK f force) (hs : force = true → ∀ p ∈ s.pending, p.v ≠ v) : MetaOK (removeRows f s v force gone).1 := by
  simp only [removeRows]
  split
  · exact h
  rename_i vol hv
  split
  · exact h
  rename_i hforce
  split
  · exact h
  split
  · exact h
  have c := h.core
  have hvm := (findVol_some hv).1
  have hvo := c.vol vol hvm
  have hocc := splitIdx_countP isOcc gone vol.slots 0
  have hlen := splitIdx_length gone vol.slots 0
  simp only [VolOK, occ] at hvo
  -- non-forced: the volume holds nothing
  have hempty : force = false → vol.slots.countP isOcc = 0 := by
    intro hf; subst hf; simpa [occ] using hforce
  have hpv : ∀ p ∈ s.pending, p.v ≠ v := by
    cases force with
    | true => exact hs rfl
    | false =>
      intro p hp e
      obtain ⟨sl, h1, h2⟩ := h.pend p hp
      obtain ⟨pv, hpv, hsl⟩ := slotAt_split h1
      rw [e, hv] at hpv; cases hpv
      have : 0 < vol.slots.countP isOcc := by
        rw [List.countP_pos_iff]; exact ⟨sl, List.mem_of_getElem? hsl, by simp [isOcc, h2]⟩
      have := hempty rfl; omega
  have hused : (if f.removeUpdatesUsed = true then vol.used - occ (splitIdx gone vol.slots 0).2 else vol.used)
      = vol.used - occ (splitIdx gone vol.slots 0).2 := by
    rcases hshape with hf | hf
    · have := hempty hf
      simp only [occ] at *
      split <;> omega
    · simp [hf]
  let g : Volume → Volume := fun x => { x with slots := (splitIdx gone vol.slots 0).1, total := x.total - (splitIdx gone vol.slots 0).2.length
                                               used := if f.removeUpdatesUsed then x.used - occ (splitIdx gone vol.slots 0).2 else x.used }
  have hgid : ∀ x, (g x).id = x.id := fun _ => rfl
  refine ⟨⟨?_, ?_, ?_, ?_, ?_⟩, h.c1ids, h.c2ids, h.mContract, h.mTemp, ?_, h.pendR, h.pendRec⟩
  · show ((updVol v g s.vols).map (·.id)).Nodup
    rw [updVol_ids _ _ _ hgid]; exact c.ids
  · intro y hy
    rcases mem_updVol hy with ⟨h1, _⟩ | ⟨x, hx, hid, rfl⟩
    · exact c.vol y h1
    · have e := eq_of_findVol c.ids hv hx hid
      rw [e]
      refine ⟨?_, ?_⟩
      · show (if f.removeUpdatesUsed = true then vol.used - occ (splitIdx gone vol.slots 0).2 else vol.used) = occ (splitIdx gone vol.slots 0).1
        rw [hused]; simp only [occ]; omega
      · show vol.total - (splitIdx gone vol.slots 0).2.length = (splitIdx gone vol.slots 0).1.length
        omega
  · intro r
    have : cnt (updVol v g s.vols) r ≤ cnt s.vols r := by
      simp only [cnt, updVol, sumBy_map]
      apply sumBy_le_sumBy
      intro x hx
      split
      · rename_i hid
        have e := eq_of_findVol c.ids hv hx hid
        rw [e]
        have := splitIdx_countP (holds r) gone vol.slots 0
        simp only [g]; omega
      · exact Nat.le_refl _
    exact Nat.le_trans this (c.uniq r)
  · have h1 : sumBy (·.total) (updVol v g s.vols) + vol.total = sumBy (·.total) s.vols + (vol.total - (splitIdx gone vol.slots 0).2.length) :=
      sumBy_updVol (·.total) v g s.vols c.ids vol hv
    have := c.mTotal
    show s.m.total - (splitIdx gone vol.slots 0).2.length = sumBy (·.total) (updVol v g s.vols)
    omega
  · have h1 : sumBy (·.used) (updVol v g s.vols) + vol.used = sumBy (·.used) s.vols + (g vol).used :=
      sumBy_updVol (·.used) v g s.vols c.ids vol hv
    have h2 : (g vol).used = vol.used - occ (splitIdx gone vol.slots 0).2 := hused
    have := c.mPhys
    show s.m.physical - occ (splitIdx gone vol.slots 0).2 = sumBy (·.used) (updVol v g s.vols)
    simp only [occ] at *
    omega
  · intro p hp
    obtain ⟨sl, h1, h2⟩ := h.pend p hp
    refine ⟨sl, ?_, h2⟩
    show slotAt (updVol v g s.vols) p.v p.i = some sl
    rw [slotAt_updVol _ _ _ _ hgid]
    simp only [hpv p hp, if_false]; exact h1

theorem sumLen1_map_le (g : C1 → C1) (hg : ∀ c, (g c).roots.length ≤ c.roots.length) (cs : List C1) : sumLen1 (cs.map g) ≤ sumLen1 cs := by
  induction cs with
  | nil => simp [sumLen1]
  | cons x xs ih => simp only [List.map_cons, sumLen1]; have := hg x; omega
theorem sumLen2_map_le (g : C2 → C2) (hg : ∀ c, (g c).roots.length ≤ c.roots.length) (cs : List C2) : sumLen2 (cs.map g) ≤ sumLen2 cs := by
  induction cs with
  | nil => simp [sumLen2]
  | cons x xs ih => simp only [List.map_cons, sumLen2]; have := hg x; omega

theorem sumLen1_map_le' (keep : List (Nat × List SectorId)) (cs : List C1)
    (h : ∀ c ∈ cs, (keptRoots keep c.id c.roots).length ≤ c.roots.length) :
    sumLen1 (cs.map fun c => { c with roots := keptRoots keep c.id c.roots }) ≤ sumLen1 cs := by
  induction cs with
  | nil => simp [sumLen1]
  | cons x xs ih =>
    simp only [List.map_cons, sumLen1]
    have := h x (by simp)
    have := ih (fun c hc => h c (by simp [hc]))
    omega
theorem sumLen2_map_le' (keep : List (Nat × List SectorId)) (cs : List C2)
    (h : ∀ c ∈ cs, (keptRoots keep c.id c.roots).length ≤ c.roots.length) :
    sumLen2 (cs.map fun c => { c with roots := keptRoots keep c.id c.roots }) ≤ sumLen2 cs := by
  induction cs with
  | nil => simp [sumLen2]
  | cons x xs ih =>
    simp only [List.map_cons, sumLen2]
    have := h x (by simp)
    have := ih (fun c hc => h c (by simp [hc]))
    omega

theorem expire1Part_ok (f : Facts) {s : State} (h : MetaOK s) (ht : Nat) (keep : List (Nat × List SectorId)) :
    MetaOK (expire1Part f s ht keep).1 := by
  simp only [expire1Part]
  split
  · exact h
  rename_i hvalid
  split
  · exact h
  have hv' : ∀ c ∈ s.c1, (keptRoots keep c.id c.roots).length ≤ c.roots.length := by
    have := hvalid
    simp at this
    exact fun c hc => (this c hc).1
  have hle := sumLen1_map_le' keep s.c1 hv'
  have := h.mContract
  refine ⟨core_m h.core rfl rfl, ?_, h.c2ids, ?_, h.mTemp, h.pend, h.pendR, h.pendRec⟩
  · exact nodup_map_ids1 (fun c => { c with roots := keptRoots keep c.id c.roots }) (fun _ => rfl) _ h.c1ids
  · simp only; omega

theorem expire2Part_ok (f : Facts) {s : State} (h : MetaOK s) (ht : Nat) (keep : List (Nat × List SectorId)) :
    MetaOK (expire2Part f s ht keep).1 := by
  simp only [expire2Part]
  split
  · exact h
  rename_i hvalid
  split
  · exact h
  have hv' : ∀ c ∈ s.c2, (keptRoots keep c.id c.roots).length ≤ c.roots.length := by
    have := hvalid
    simp at this
    exact fun c hc => (this c hc).1
  have hle := sumLen2_map_le' keep s.c2 hv'
  have := h.mContract
  refine ⟨core_m h.core rfl rfl, h.c1ids, ?_, ?_, h.mTemp, h.pend, h.pendR, h.pendRec⟩
  · exact nodup_map_ids2 (fun c => { c with roots := keptRoots keep c.id c.roots }) (fun _ => rfl) _ h.c2ids
  · simp only; omega

theorem expireTempPart_ok {s : State} (h : MetaOK s) (ht : Nat) (keep : List Temp) : MetaOK (expireTempPart s ht keep).1 := by
  simp only [expireTempPart]
  split
  · exact h
  rename_i hvalid
  split
  · exact h
  have hk : keep.length ≤ s.temps.length := by
    have := hvalid
    simp at this
    exact this.1.1
  have := h.mTemp
  exact ⟨core_m h.core rfl rfl, h.c1ids, h.c2ids, h.mContract, by simp only; omega, h.pend, h.pendR, h.pendRec⟩

/-- one slot of a prunable sector released -/
theorem pruneOne_ok {s : State} (h : MetaOK s) {v i : Nat} {r : SectorId} (hh : holdsAt s.vols v i r) (hp : prunable s r = true) :
    MetaOK { s with vols := clearAt s.vols v i, m := { s.m with physical := s.m.physical - 1 } } := by
  obtain ⟨hc, _, _⟩ := core_clear h.core hh
  refine ⟨hc, h.c1ids, h.c2ids, h.mContract, h.mTemp, ?_, h.pendR, h.pendRec⟩
  intro p hpm
  rw [clearAt_eq]
  apply holdsAt_modVol_other _ _ (h.pend p hpm)
  intro ⟨e1, e2⟩
  have hq := h.pend p hpm
  rw [e1, e2] at hq
  have er := holdsAt_inj hq hh
  have hrec := h.pendRec p hpm
  rw [er] at hrec
  simp [prunable] at hp
  exact hp.2 hrec

theorem prunePart_ok (cleared : List (Nat × Nat)) : ∀ {s : State}, MetaOK s → MetaOK (prunePart s cleared).1 := by
  induction cleared with
  | nil => intro s h; exact h
  | cons x xs ih =>
    intro s h
    obtain ⟨v, i⟩ := x
    simp only [prunePart]
    split
    · rename_i sl vol hsl hvol
      split
      · rename_i r hr
        split
        · exact h
        rename_i hp
        split
        · exact h
        split
        · exact h
        have hpr : prunable s r = true := by simpa using hp
        have h1 := pruneOne_ok h ⟨sl, hsl, hr⟩ hpr
        -- `prunable` only looks at references and `recent`
        exact ih h1
      · exact h
    · exact h

theorem migratePart_ok {s : State} (h : MetaOK s) (v start : Nat) (moves : List Move) (hs : ∀ p ∈ s.pending, p.v ≠ v) :
    MetaOK (migratePart s v start moves).1 := by
  have := migrate_ok h v start moves hs
  simp only [migratePart]
  split
  · rename_i s' heq; rw [heq] at this; exact this
  · exact this

/-! ## every step preserves the invariant -/

/-- shape conditions on the code (see `RemoveShapeOK`) -/
def ShapeOK (f : Facts) : Op → Prop
  | .removeRows _ force _ => RemoveShapeOK f force
  | _ => True

theorem step_ok (f : Facts) {s : State} (h : MetaOK s) (op : Op) (hs : Safe s op) (hsh : ShapeOK f op := by trivial) : MetaOK (step f s op).1 := by
  cases op with
  | addVolume id ro => exact addVolume_ok h id ro
  | grow v n => exact grow_ok h v n
  | shrink v n => exact shrink_ok h v n
  | removeVolume v force => exact removeVolume_ok h v force hs
  | setReadOnly v b => exact setReadOnly_ok h v b
  | setAvailable v b => exact setAvailable_ok h v b
  | reserve w r b ch => exact reserve_ok h w r b ch
  | finish w ok => exact finish_ok h w ok
  | revise1 c chs => exact revise1_ok h c chs
  | revise2 c roots => exact revise2_ok h c roots
  | addTemp r exp => exact addTemp_ok h r exp
  | addTemps l => exact addTemps_ok h l
  | addC1 id wEnd => exact addC1_ok h id wEnd
  | addC2 id expH => exact addC2_ok h id expH
  | setStatus1 id st => exact setStatus1_ok h id st
  | setStatus2 id st => exact setStatus2_ok h id st
  | expire1 ht => exact expire1_ok f h ht
  | expire2 ht => exact expire2_ok f h ht
  | expireTemp ht => exact expireTemp_ok h ht
  | tick => exact tick_ok h hs
  | prune => exact prune_ok h
  | removeSector r data => exact removeSector_ok h r data hs
  | migrate v start moves => exact migrate_ok h v start moves hs
  | read r => exact read_ok h r
  | newBuf c => exact metaOK_frame h rfl rfl rfl rfl rfl rfl (fun _ hx => hx)
  | mutate b c => exact mutate_ok h b c
  | sync => exact sync_ok h
  | resizeCache n => exact metaOK_frame h rfl rfl rfl rfl rfl rfl (fun _ hx => hx)
  | crash lost => exact crash_ok h lost
  | restart => exact restart_ok h
  | vmAddVolume id n => exact vmAddVolume_ok h id n
  | vmResize v n moves => exact vmResize_ok h v n moves hs
  | vmRemove v force moves => exact vmRemove_ok h v force moves hs
  | syncBegin => exact syncBegin_ok h
  | syncFsync v => exact syncFsync_ok f h v
  | syncClear v => exact syncClear_ok f h v
  | syncEnd => exact syncEnd_ok h
  | vmResizeStale cur v n moves => exact vmResizeStale_ok f h cur v n moves hs
  | syncFsyncFail v => exact syncFsyncFail_ok f h v
  | syncPartial oks fail => exact syncPartial_ok f h oks fail
  | removeRows v force gone => exact removeRows_ok f h v force gone hsh hs
  | expire1Part ht keep => exact expire1Part_ok f h ht keep
  | expire2Part ht keep => exact expire2Part_ok f h ht keep
  | expireTempPart ht keep => exact expireTempPart_ok h ht keep
  | prunePart cleared => exact prunePart_ok cleared h
  | migratePart v start moves => exact migratePart_ok h v start moves hs

/-- every step of the history respects `Safe` in the state it is executed in -/
def SafeRun (f : Facts) : State → List Op → Prop
  | _, [] => True
  | s, op :: ops => Safe s op ∧ ShapeOK f op ∧ SafeRun f (step f s op).1 ops

theorem init_ok (n : Nat) : MetaOK (init n) := by
  refine ⟨⟨?_, ?_, ?_, ?_, ?_⟩, ?_, ?_, ?_, ?_, ?_, ?_, ?_⟩ <;> simp [init, cnt, sumBy, sumLen1, sumLen2]

/-- **C08, accounting clause.** In every state reachable from the empty store by any operation
sequence (any oracle values, any failure injections) each located sector occupies exactly one slot,
`used_sectors` / `total_sectors` of every volume equal the recount and the total, physical, contract
and temp sector metrics equal the sums. -/
theorem C08_slot_inv (f : Facts) (ops : List Op) : ∀ (s : State), MetaOK s → SafeRun f s ops → MetaOK (run f s ops) := by
  induction ops with
  | nil => intro s h _; exact h
  | cons op ops ih =>
    intro s h hs
    simp only [run, List.foldl_cons]
    exact ih _ (step_ok f h op hs.1 hs.2.1) hs.2.2

theorem C08_slot_inv_init (f : Facts) (cache : Nat) (ops : List Op) (hs : SafeRun f (init cache) ops) :
    MetaOK (run f (init cache) ops) := C08_slot_inv f ops _ (init_ok cache) hs

/-! ## placement -/

theorem eligibleAt_iff (vs : List Volume) (v i : Nat) :
    eligibleAt vs v i = true ↔
      ∃ vol sl, findVol v vs = some vol ∧ vol.available = true ∧ vol.readOnly = false ∧ vol.slots[i]? = some sl ∧ sl.sec = none := by
  simp only [eligibleAt]
  constructor
  · intro h
    split at h
    · simp at h
    · rename_i vol hv
      simp only [Bool.and_eq_true, writable, Bool.not_eq_true'] at h
      obtain ⟨⟨ha, hr⟩, h2⟩ := h
      split at h2
      · rename_i sl hs
        exact ⟨vol, sl, hv, ha, hr, hs, by simpa [isFree] using h2⟩
      · simp at h2
  · intro ⟨vol, sl, hv, ha, hr, hs, hf⟩
    simp [hv, writable, ha, hr, hs, isFree, hf]

theorem hasEligible_of_eligibleAt {vs : List Volume} {v i : Nat} (h : eligibleAt vs v i = true) : hasEligible vs = true := by
  obtain ⟨vol, sl, hv, ha, hr, hs, hf⟩ := (eligibleAt_iff vs v i).mp h
  simp only [hasEligible, List.any_eq_true]
  refine ⟨vol, (findVol_some hv).1, ?_⟩
  simp only [Bool.and_eq_true, writable, ha, hr, hasFree, List.any_eq_true]
  exact ⟨by simp, sl, List.mem_of_getElem? hs, by simp [isFree, hf]⟩

theorem eligibleAt_of_hasEligible {vs : List Volume} (hn : (vs.map (·.id)).Nodup) (h : hasEligible vs = true) :
    ∃ v i, eligibleAt vs v i = true := by
  simp only [hasEligible, List.any_eq_true, Bool.and_eq_true, writable, hasFree, Bool.not_eq_true'] at h
  obtain ⟨vol, hm, ⟨ha, hr⟩, sl, hsl, hf⟩ := h
  obtain ⟨i, hi, rfl⟩ := List.mem_iff_getElem.mp hsl
  refine ⟨vol.id, i, (eligibleAt_iff _ _ _).mpr ⟨vol, vol.slots[i], findVol_of_mem hn hm, ha, hr, ?_, by simpa [isFree] using hf⟩⟩
  simp [hi]

/-- **C08, placement clause (1).** `StoreSector` answers "not enough storage" exactly when the root
has no location yet and no available, writable volume has an empty slot. -/
theorem C08_store_fails_iff (s : State) (w : Nat) (r : SectorId) (b : BufId) (ch : Option (Nat × Nat))
    (hw : s.pending.any (fun p => p.w == w) = false) :
    (reserve s w r b ch).2 = .notEnoughStorage ↔ (located s.vols r = false ∧ hasEligible s.vols = false) := by
  simp only [reserve, hw]
  cases hl : located s.vols r <;> cases he : hasEligible s.vols <;> simp
  cases ch with
  | none => simp
  | some p => obtain ⟨v, i⟩ := p; simp only []; split <;> simp

/-- … and (under the invariant) that is the case iff no slot is eligible at all. -/
theorem C08_store_fails_iff' (s : State) (hs : MetaOK s) (w : Nat) (r : SectorId) (b : BufId) (ch : Option (Nat × Nat))
    (hw : s.pending.any (fun p => p.w == w) = false) :
    (reserve s w r b ch).2 = .notEnoughStorage ↔ (located s.vols r = false ∧ ∀ v i, eligibleAt s.vols v i = false) := by
  rw [C08_store_fails_iff s w r b ch hw]
  constructor
  · intro ⟨h1, h2⟩
    refine ⟨h1, fun v i => ?_⟩
    cases h : eligibleAt s.vols v i
    · rfl
    · rw [hasEligible_of_eligibleAt h] at h2; cases h2
  · intro ⟨h1, h2⟩
    refine ⟨h1, ?_⟩
    cases h : hasEligible s.vols
    · rfl
    · obtain ⟨v, i, he⟩ := eligibleAt_of_hasEligible hs.core.ids h
      rw [h2 v i] at he; cases he

/-- **C08, placement clause (2).** A successful placement is on an empty slot of an available,
writable volume (whatever the implementation's `ORDER BY sector_writes` picked). -/
theorem C08_placement_eligible (s : State) (w : Nat) (r : SectorId) (b : BufId) (ch : Option (Nat × Nat)) (v i : Nat)
    (h : (reserve s w r b ch).2 = .placed v i) :
    ch = some (v, i) ∧ located s.vols r = false ∧
      ∃ vol sl, findVol v s.vols = some vol ∧ vol.available = true ∧ vol.readOnly = false ∧ vol.slots[i]? = some sl ∧ sl.sec = none := by
  simp only [reserve] at h
  split at h
  · simp at h
  split at h
  · simp at h
  rename_i hl
  split at h
  · simp at h
  split at h
  · simp at h
  rename_i v' i'
  split at h
  · simp at h
  rename_i he
  simp at h
  obtain ⟨rfl, rfl⟩ := h
  exact ⟨rfl, by simpa using hl, (eligibleAt_iff _ _ _).mp (by simpa using he)⟩

example : (reserve (vmAddVolume (init 0) 1 2).1 0 5 0 (some (1, 0))).2 = .placed 1 0 := by decide
example : (reserve (setReadOnly (vmAddVolume (init 0) 1 2).1 1 true) 0 5 0 (some (1, 0))).2 = .notEnoughStorage := by decide

/-! ## reclamation -/

/-- what the two contract-expiry queries must mean: the status test selects exactly the rejected contracts -/
def FactsOK (f : Facts) : Prop :=
  (∀ st, f.match1 st = (st == .rejected)) ∧ (∀ st, f.match2 st = (st == .rejected))

instance : DecidablePred FactsOK := fun f => by
  unfold FactsOK
  have d1 : Decidable (∀ st, f.match1 st = (st == .rejected)) :=
    decidable_of_iff ([S1.pending, .rejected, .active, .successful, .failed].all fun st => f.match1 st == (st == .rejected))
      (by simp only [List.all_eq_true, beq_iff_eq]; constructor
          · intro h st; exact h st (by cases st <;> simp)
          · intro h st _; exact h st)
  have d2 : Decidable (∀ st, f.match2 st = (st == .rejected)) :=
    decidable_of_iff ([S2.pending, .rejected, .active, .renewed, .successful, .failed].all fun st => f.match2 st == (st == .rejected))
      (by simp only [List.all_eq_true, beq_iff_eq]; constructor
          · intro h st; exact h st (by cases st <;> simp)
          · intro h st _; exact h st)
  exact instDecidableAnd

/-- per-run obligation: the transcription of the current tree's queries passes -/
theorem C08_code_facts_ok : FactsOK Facts.code := by decide

/-- the tree before fix 039186a (v1 integer constant bound in the v2 query) does not -/
theorem C08_before_fix_facts_not_ok : ¬ FactsOK Facts.beforeFix := by decide

/-- `r` is still referenced at height `h` by a contract that is neither rejected nor past its proof
window (v2: expiration height), or by temp storage expiring after `h` -/
def Survives (s : State) (h : Nat) (r : SectorId) : Prop :=
  (∃ c ∈ s.c1, r ∈ c.roots ∧ c.status ≠ .rejected ∧ ¬ c.wEnd < h) ∨
  (∃ c ∈ s.c2, r ∈ c.roots ∧ c.status ≠ .rejected ∧ ¬ c.expH < h) ∨
  (∃ t ∈ s.temps, t.sec = r ∧ t.exp > h)

theorem sumLen1_filter_le (p : C1 → Bool) (cs : List C1) : sumLen1 (cs.filter p) ≤ sumLen1 cs := by
  have := sumLen1_expire p cs; omega
theorem sumLen2_filter_le (p : C2 → Bool) (cs : List C2) : sumLen2 (cs.filter p) ≤ sumLen2 cs := by
  have := sumLen2_expire p cs; omega

/-- the state after the three expiry queries at height `h` -/
def expired (f : Facts) (s : State) (h : Nat) : State :=
  { s with
    c1 := s.c1.map (fun c => if dead1 f h c then { c with roots := [] } else c)
    c2 := s.c2.map (fun c => if dead2 f h c then { c with roots := [] } else c)
    temps := s.temps.filter (fun t => !deadT h t)
    m := { s.m with contract := s.m.contract - sumLen1 (s.c1.filter (dead1 f h)) - sumLen2 (s.c2.filter (dead2 f h))
                    temp := s.m.temp - (s.temps.filter (deadT h)).length } }

theorem expire_all_eq (f : Facts) {s : State} (hs : MetaOK s) (h : Nat) :
    (expireTemp (expire2 f (expire1 f s h).1 h).1 h).1 = expired f s h := by
  have hc := hs.mContract
  have h1 := sumLen1_filter_le (dead1 f h) s.c1
  have h2 := sumLen2_filter_le (dead2 f h) s.c2
  have e1 := sumLen1_expire (dead1 f h) s.c1
  have ht := hs.mTemp
  have h3 : (s.temps.filter (deadT h)).length ≤ s.temps.length := List.length_filter_le _ _
  have n1 : ¬ s.m.contract < sumLen1 (s.c1.filter (dead1 f h)) := by omega
  simp only [expire1, n1, if_false]
  have n2 : ¬ s.m.contract - sumLen1 (s.c1.filter (dead1 f h)) < sumLen2 (s.c2.filter (dead2 f h)) := by omega
  simp only [expire2, n2, if_false]
  have n3 : ¬ s.m.temp < (s.temps.filter (deadT h)).length := by omega
  simp only [expireTemp, n3, if_false, expired]

theorem prune_vols {s : State} (c : Core s.vols s.m) : (prune s).1.vols = s.vols.map (pruneVol s) := by
  have hle : ∀ v ∈ s.vols, prunedIn s v ≤ v.used := by
    intro v hv
    have := c.vol v hv
    simp only [VolOK, prunedIn] at this ⊢
    omega
  have n1 : (s.vols.any fun v => decide (v.used < prunedIn s v)) = false := by
    rw [List.any_eq_false]
    intro v hv
    have := hle v hv
    simp; omega
  have n2 : ¬ s.m.physical < sumBy (prunedIn s) s.vols := by
    have := sumBy_le_sumBy (prunedIn s) (·.used) s.vols hle
    have := c.mPhys
    omega
  simp only [prune, n1, n2, if_false, Bool.false_eq_true]

theorem holdsAt_pruned (s : State) (vs : List Volume) (v i : Nat) (r : SectorId) :
    holdsAt (vs.map (pruneVol s)) v i r ↔ holdsAt vs v i r ∧ prunable s r = false := by
  have hid : ∀ x, (pruneVol s x).id = x.id := fun _ => rfl
  simp only [holdsAt, slotAt, findVol_map _ _ hid]
  cases hv : findVol v vs with
  | none => simp
  | some vol =>
    simp only [Option.map_some, pruneVol, List.getElem?_map]
    cases hs : vol.slots[i]? with
    | none => simp
    | some sl =>
      simp only [Option.map_some, Option.some.injEq, exists_eq_left']
      simp only [pruneSlot]
      cases hsec : sl.sec with
      | none => simp [hsec]
      | some r' =>
        simp only []
        by_cases hp : prunable s r' = true
        · simp only [hp, if_true]
          constructor
          · intro h; simp at h
          · intro ⟨h1, h2⟩
            cases h1; simp [h2] at hp
        · have hp' : prunable s r' = false := by simpa using hp
          simp only [hp', Bool.false_eq_true, if_false, hsec]
          constructor
          · intro h; cases h; exact ⟨rfl, hp'⟩
          · intro h; exact h.1

theorem refd_expired (f : Facts) (hf : FactsOK f) (s : State) (h : Nat) (r : SectorId) :
    referenced (tick (expired f s h)) r = true ↔ Survives s h r := by
  simp only [referenced, refd1, refd2, refdT, tick, expired, Bool.or_eq_true, List.any_eq_true, List.mem_map, List.mem_filter,
    Survives]
  have d1 : ∀ c : C1, dead1 f h c = true ↔ (c.wEnd < h ∨ c.status = .rejected) := by
    intro c; simp [dead1, hf.1]
  have d2 : ∀ c : C2, dead2 f h c = true ↔ (c.expH < h ∨ c.status = .rejected) := by
    intro c; simp [dead2, hf.2]
  constructor
  · rintro ((⟨c', ⟨c, hc, rfl⟩, hr⟩ | ⟨c', ⟨c, hc, rfl⟩, hr⟩) | ⟨t, ⟨ht, hd⟩, hr⟩)
    · left
      by_cases hd : dead1 f h c = true
      · simp [hd] at hr
      · simp only [hd, if_false, Bool.false_eq_true] at hr
        have := fun e => hd ((d1 c).mpr e)
        exact ⟨c, hc, by simpa using hr, fun e => this (Or.inr e), fun e => this (Or.inl e)⟩
    · right; left
      by_cases hd : dead2 f h c = true
      · simp [hd] at hr
      · simp only [hd, if_false, Bool.false_eq_true] at hr
        have := fun e => hd ((d2 c).mpr e)
        exact ⟨c, hc, by simpa using hr, fun e => this (Or.inr e), fun e => this (Or.inl e)⟩
    · right; right
      refine ⟨t, ht, by simpa using hr, ?_⟩
      simp [deadT] at hd; omega
  · rintro (⟨c, hc, hr, hs, hw⟩ | ⟨c, hc, hr, hs, hw⟩ | ⟨t, ht, hr, he⟩)
    · left; left
      have hd : ¬ dead1 f h c = true := fun e => by rcases (d1 c).mp e with e | e; exact hw e; exact hs e
      exact ⟨_, ⟨c, hc, rfl⟩, by simp only [hd, if_false, Bool.false_eq_true]; simpa using hr⟩
    · left; right
      have hd : ¬ dead2 f h c = true := fun e => by rcases (d2 c).mp e with e | e; exact hw e; exact hs e
      exact ⟨_, ⟨c, hc, rfl⟩, by simp only [hd, if_false, Bool.false_eq_true]; simpa using hr⟩
    · right
      exact ⟨t, ⟨ht, by simp [deadT]; omega⟩, by simpa using hr⟩

/-- **C08, reclamation clause.** After expiry processing at height `h` followed by a prune (with the
prune interval elapsed), a slot holds sector `r` if and only if it held `r` before and `r` is still
referenced by a contract that is neither rejected nor past its proof window (v2: expiration), or by
temp storage expiring after `h`. Holds for any transcription of the queries passing `FactsOK`. -/
theorem C08_reclaim_exact (f : Facts) (hf : FactsOK f) (s : State) (hs : MetaOK s) (h v i : Nat) (r : SectorId) :
    holdsAt (reclaim f s h).vols v i r ↔ holdsAt s.vols v i r ∧ Survives s h r := by
  simp only [reclaim, expire_all_eq f hs h]
  have hc : Core (tick (expired f s h)).vols (tick (expired f s h)).m := core_m hs.core rfl rfl
  rw [prune_vols hc]
  show holdsAt (s.vols.map (pruneVol (tick (expired f s h)))) v i r ↔ _
  rw [holdsAt_pruned]
  have : prunable (tick (expired f s h)) r = false ↔ referenced (tick (expired f s h)) r = true := by
    simp [prunable, tick]
  rw [this, refd_expired f hf]

/-- instantiated for the current tree -/
theorem C08_reclaim_exact_code (s : State) (hs : MetaOK s) (h v i : Nat) (r : SectorId) :
    holdsAt (reclaim Facts.code s h).vols v i r ↔ holdsAt s.vols v i r ∧ Survives s h r :=
  C08_reclaim_exact Facts.code C08_code_facts_ok s hs h v i r

/-! ### witnesses -/

/-- one volume, sector 7 referenced only by a rejected v2 contract -/
def witV2 : State :=
  { vols := [{ id := 1, total := 1, used := 1, available := true, slots := [{ sec := some 7, content := .dataOf 7 }] }]
    stored := [7]
    c2 := [{ id := 1, status := .rejected, expH := 50, roots := [7] }]
    m := { total := 1, physical := 1, contract := 1 } }

/-- hypotheses of `C08_reclaim_exact` are satisfiable and the conclusion is not vacuous -/
example : located (reclaim Facts.code witV2 20).vols 7 = false := by decide
example : located (reclaim Facts.code { witV2 with c2 := [{ id := 1, status := .active, expH := 50, roots := [7] }] } 50).vols 7 = true := by decide
example : located (reclaim Facts.code { witV2 with c2 := [{ id := 1, status := .active, expH := 50, roots := [7] }] } 51).vols 7 = false := by decide

/-- with the v1 constant bound in the v2 query the slot of a rejected v2 contract's sector is never reclaimed -/
theorem C08_before_fix_breaks : located (reclaim Facts.beforeFix witV2 20).vols 7 = true := by decide

/-- `Safe` is necessary: `RemoveSector` on a sector whose upload is in flight, then the upload's data
write fails — the rollback decrements `used_sectors` a second time (faithful model of
`StoreSector`'s unconditional rollback). -/
def unsafeOps : List Op :=
  [.vmAddVolume 1 3, .newBuf (.dataOf 6), .reserve 0 6 0 (some (1, 0)), .finish 0 true,
   .newBuf (.dataOf 5), .reserve 1 5 1 (some (1, 1)), .removeSector 5 false, .finish 1 false]

theorem C08_unsafe_breaks :
    (run Facts.code (init 0) unsafeOps).vols.all (fun v => v.used == occ v.slots) = false := by decide

/-! ## no counter ever goes below zero -/

/-- panics that are argument checks ("developer errors"), not counter underflows -/
def DevError (why : String) : Prop :=
  why = "maxSectors must be greater than 0" ∨ why = "maxSectors must be less than totalSectors" ∨ why = "index out of range"

theorem grow_nopanic {s : State} (v n : Nat) {why : String} (hp : (grow s v n).2 = .panic why) : DevError why := by
  simp only [grow] at hp
  split at hp
  · simp at hp; exact Or.inl hp.symm
  split at hp
  · simp at hp
  split at hp <;> simp at hp

theorem shrink_nopanic {s : State} (h : MetaOK s) (v n : Nat) {why : String} (hp : (shrink s v n).2 = .panic why) : DevError why := by
  simp only [shrink] at hp
  split at hp
  · simp at hp; exact Or.inl hp.symm
  split at hp
  · simp at hp
  rename_i vol hv
  split at hp
  · simp at hp
  split at hp
  · simp at hp; exact Or.inr (Or.inl hp.symm)
  split at hp
  · rename_i hlt
    have := sumBy_le_of_mem (·.total) (findVol_some hv).1
    have := h.core.mTotal
    simp only at *
    omega
  · simp at hp

theorem removeVolume_nopanic {s : State} (h : MetaOK s) (v : Nat) (force : Bool) {why : String}
    (hp : (removeVolume s v force).2 = .panic why) : False := by
  simp only [removeVolume] at hp
  split at hp
  · simp at hp
  rename_i vol hv
  have hm := (findVol_some hv).1
  have hvo := h.core.vol vol hm
  have h1 := sumBy_le_of_mem (·.used) hm
  have h2 := sumBy_le_of_mem (·.total) hm
  have := h.core.mPhys
  have := h.core.mTotal
  simp only [VolOK] at hvo
  split at hp
  · simp at hp
  split at hp
  · simp only at *; omega
  split at hp
  · simp only at *; omega
  · simp at hp

theorem finish_nopanic {s : State} (h : MetaOK s) (w : Nat) (ok : Bool) {why : String} (hp : (finish s w ok).2 = .panic why) : False := by
  simp only [finish] at hp
  split at hp
  · simp at hp
  rename_i p hpp
  obtain ⟨hpm, _⟩ := findPending_spec hpp
  obtain ⟨_, hphys, vol', hv', hused⟩ := core_clear h.core (h.pend p hpm)
  split at hp
  · simp at hp
  rename_i vol hv
  have : vol = vol' := by
    have e : findVol p.v s.vols = some vol := hv
    rw [hv'] at e; exact (Option.some.inj e).symm
  subst this
  split at hp
  · split at hp <;> simp at hp
  split at hp
  · omega
  split at hp
  · simp only at *; omega
  · simp at hp

theorem revise1_nopanic {s : State} (h : MetaOK s) (c : Nat) (chs : List Change) {why : String}
    (hp : (revise1 s c chs).2 = .panic why) : DevError why := by
  simp only [revise1] at hp
  split at hp
  · simp at hp
  rename_i con hc
  split at hp
  · simp at hp
  · simp at hp; exact Or.inr (Or.inr hp.symm)
  split at hp
  · have := sumLen1_mem_le (findC1_mem hc)
    have := h.mContract
    omega
  · simp at hp

theorem revise2_nopanic {s : State} (h : MetaOK s) (c : Nat) (roots : List SectorId) {why : String}
    (hp : (revise2 s c roots).2 = .panic why) : False := by
  simp only [revise2] at hp
  split at hp
  · simp at hp
  rename_i con hc
  split at hp
  · simp at hp
  split at hp
  · have := sumLen2_mem_le (findC2_mem hc)
    have := h.mContract
    omega
  · simp at hp

theorem expire1_nopanic {s : State} (f : Facts) (h : MetaOK s) (ht : Nat) {why : String} (hp : (expire1 f s ht).2 = .panic why) : False := by
  simp only [expire1] at hp
  split at hp
  · have := sumLen1_filter_le (dead1 f ht) s.c1
    have := h.mContract
    omega
  · simp at hp

theorem expire2_nopanic {s : State} (f : Facts) (h : MetaOK s) (ht : Nat) {why : String} (hp : (expire2 f s ht).2 = .panic why) : False := by
  simp only [expire2] at hp
  split at hp
  · have := sumLen2_filter_le (dead2 f ht) s.c2
    have := h.mContract
    omega
  · simp at hp

theorem expireTemp_nopanic {s : State} (h : MetaOK s) (ht : Nat) {why : String} (hp : (expireTemp s ht).2 = .panic why) : False := by
  simp only [expireTemp] at hp
  split at hp
  · have : (s.temps.filter (deadT ht)).length ≤ s.temps.length := List.length_filter_le _ _
    have := h.mTemp
    omega
  · simp at hp

theorem prune_nopanic {s : State} (h : MetaOK s) {why : String} (hp : (prune s).2 = .panic why) : False := by
  have c := h.core
  have hle : ∀ v ∈ s.vols, prunedIn s v ≤ v.used := by
    intro v hv
    have := c.vol v hv
    simp only [VolOK, prunedIn] at this ⊢
    omega
  simp only [prune] at hp
  split at hp
  · rename_i h1
    obtain ⟨v, hv, hlt⟩ := List.any_eq_true.mp h1
    have := hle v hv
    simp at hlt; omega
  split at hp
  · have := sumBy_le_sumBy (prunedIn s) (·.used) s.vols hle
    have := c.mPhys
    omega
  · simp at hp

theorem removeSector_nopanic {s : State} (h : MetaOK s) (r : SectorId) (data : Bool) {why : String}
    (hp : (removeSector s r data).2 = .panic why) : False := by
  simp only [removeSector] at hp
  split at hp
  · simp at hp
  split at hp
  · simp at hp
  rename_i v i hloc
  have hh : holdsAt s.vols v i r := findLoc_spec h.core.ids hloc
  obtain ⟨_, hphys, vol', hv', hused⟩ := core_clear h.core hh
  split at hp
  · simp at hp
  rename_i vol hv
  have : vol = vol' := by
    have e : findVol v s.vols = some vol := hv
    rw [hv'] at e; exact (Option.some.inj e).symm
  subst this
  split at hp
  · omega
  split at hp
  · simp only at *; omega
  · simp at hp

theorem moveOne_m (s : State) (v i : Nat) (r : SectorId) (mv : Move) : (moveOne s v i r mv).1.m = s.m := by
  simp only [moveOne]
  split
  · rfl
  split
  · rfl
  split
  · rfl
  split <;> rfl

theorem migrateGo_nopanic {v start : Nat} (moves : List Move) : ∀ {s : State} (cursor nOk nFail : Nat), MetaOK s →
    (∀ p ∈ s.pending, p.v ≠ v) → ∀ {why : String}, (migrateGo s v start cursor nOk nFail moves).2 = .panic why → False := by
  induction moves with
  | nil =>
    intro s cursor nOk nFail _ _ why hp
    simp only [migrateGo] at hp
    split at hp
    · simp at hp
    split at hp
    · simp at hp
    split at hp <;> simp at hp
  | cons mv rest ih =>
    intro s cursor nOk nFail h hs why hp
    simp only [migrateGo] at hp
    split at hp
    · simp at hp
    rename_i vol hv
    split at hp
    · simp at hp
    rename_i i r hn
    split at hp
    · simp at hp
    split at hp
    · simp at hp
    rename_i hvalid
    obtain ⟨_, sl, hsl, hsec⟩ := nextOcc_spec hn
    have hh : holdsAt s.vols v i r := ⟨sl, by simpa [slotAt, hv] using hsl, hsec⟩
    have ht := validTo_slot (by simpa using hvalid)
    have hm := moveOne_ok h mv hh ht hs
    have hpd := moveOne_pending s v i r mv
    have hmm := moveOne_m s v i r mv
    obtain ⟨_, hphys, _⟩ := core_clear h.core hh
    generalize hmo : moveOne s v i r mv = res at hm hpd hmm hp
    obtain ⟨s', ok⟩ := res
    simp only at hm hpd hmm hp
    split at hp
    · simp at hp
    split at hp
    · split at hp
      · rename_i hz
        rw [hmm] at hz; omega
      · exact ih _ _ _ hm (by rw [hpd]; exact hs) hp
    · exact ih _ _ _ hm (by rw [hpd]; exact hs) hp

theorem migrate_nopanic {s : State} (h : MetaOK s) (v start : Nat) (moves : List Move) (hs : ∀ p ∈ s.pending, p.v ≠ v)
    {why : String} (hp : (migrate s v start moves).2 = .panic why) : False :=
  migrateGo_nopanic moves _ _ _ h hs hp

theorem vmResize_nopanic {s : State} (h : MetaOK s) (v n : Nat) (moves : List Move) (hs : ∀ p ∈ s.pending, p.v ≠ v)
    {why : String} (hp : (vmResize s v n moves).2 = .panic why) : DevError why := by
  simp only [vmResize] at hp
  split at hp
  · simp at hp
  rename_i vol hv
  split at hp
  · have h1 : MetaOK (if (!vol.readOnly) = true then setReadOnly s v true else s) := by
      split
      · exact setReadOnly_ok h v true
      · exact h
    have hp1 : (if (!vol.readOnly) = true then setReadOnly s v true else s).pending = s.pending := by split <;> rfl
    generalize (if (!vol.readOnly) = true then setReadOnly s v true else s) = s1 at h1 hp1 hp
    have h2 := migrate_ok h1 v n moves (by rw [hp1]; exact hs)
    have h3 : ∀ why, (migrate s1 v n moves).2 = .panic why → False :=
      fun why hx => migrate_nopanic h1 v n moves (by rw [hp1]; exact hs) hx
    generalize migrate s1 v n moves = res at h2 h3 hp
    obtain ⟨s2, r⟩ := res
    simp only at h2 h3 hp
    split at hp
    · exact shrink_nopanic h2 v n hp
    · simp at hp
    · rename_i hne1 hne2
      exact (h3 why hp).elim
  · split at hp
    · exact grow_nopanic v n hp
    · simp at hp

theorem vmRemove_nopanic {s : State} (h : MetaOK s) (v : Nat) (force : Bool) (moves : List Move) (hs : ∀ p ∈ s.pending, p.v ≠ v)
    {why : String} (hp : (vmRemove s v force moves).2 = .panic why) : False := by
  simp only [vmRemove] at hp
  split at hp
  · simp at hp
  have h1 := setReadOnly_ok h v true
  have h2 := migrate_ok h1 v 0 moves (by rw [setReadOnly_pending]; exact hs)
  have h3 : ∀ why, (migrate (setReadOnly s v true) v 0 moves).2 = .panic why → False :=
    fun why hx => migrate_nopanic h1 v 0 moves (by rw [setReadOnly_pending]; exact hs) hx
  generalize migrate (setReadOnly s v true) v 0 moves = res at h2 h3 hp
  obtain ⟨s2, r⟩ := res
  simp only at h2 h3 hp
  split at hp
  · split at hp
    · simp at hp
    · exact removeVolume_nopanic h2 v force hp
  · exact h3 why hp

theorem vmAddVolume_nopanic {s : State} (id n : Nat) {why : String} (hp : (vmAddVolume s id n).2 = .panic why) : DevError why := by
  simp only [vmAddVolume] at hp
  split at hp
  · simp at hp
  have ha : ∀ why, (addVolume s id false).2 = .panic why → False := by
    intro why hx
    simp only [addVolume] at hx
    split at hx <;> simp at hx
  generalize addVolume s id false = res at ha hp
  obtain ⟨s1, r⟩ := res
  cases r <;> simp only at hp <;> first
    | exact grow_nopanic id n hp
    | exact (ha _ rfl).elim
    | simp at hp

theorem removeRows_nopanic (f : Facts) {s : State} (h : MetaOK s) (v : Nat) (force : Bool) (gone : List Nat) {why : String}
    (hp : (removeRows f s v force gone).2 = .panic why) : False := by
  simp only [removeRows] at hp
  split at hp
  · simp at hp
  rename_i vol hv
  have hm := (findVol_some hv).1
  have hvo := h.core.vol vol hm
  have h1 := sumBy_le_of_mem (·.used) hm
  have h2 := sumBy_le_of_mem (·.total) hm
  have := h.core.mPhys
  have := h.core.mTotal
  have hocc := splitIdx_countP isOcc gone vol.slots 0
  have hlen := splitIdx_length gone vol.slots 0
  simp only [VolOK, occ] at hvo
  split at hp
  · simp at hp
  split at hp
  · simp only [occ] at *; omega
  split at hp
  · simp only at *; omega
  · simp at hp

theorem prunePart_nopanic (cleared : List (Nat × Nat)) : ∀ {s : State}, MetaOK s → ∀ {why : String},
    (prunePart s cleared).2 = .panic why → False := by
  induction cleared with
  | nil => intro s _ why hp; simp [prunePart] at hp
  | cons x xs ih =>
    intro s h why hp
    obtain ⟨v, i⟩ := x
    simp only [prunePart] at hp
    split at hp
    · rename_i sl vol hsl hvol
      split at hp
      · rename_i r hr
        obtain ⟨_, hphys, vol', hv', hused⟩ := core_clear h.core ⟨sl, hsl, hr⟩
        have : vol = vol' := by rw [hv'] at hvol; exact (Option.some.inj hvol).symm
        subst this
        split at hp
        · simp at hp
        rename_i hpr
        split at hp
        · omega
        split at hp
        · simp only at *; omega
        · exact ih (pruneOne_ok h ⟨sl, hsl, hr⟩ (by simpa using hpr)) hp
      · simp at hp
    · simp at hp

/-- **C08, no underflow.** Under the invariant no operation makes the store panic with
`negative stat value …` / `volume usage is negative`; the only panics left are argument checks. -/
theorem C08_no_negative_stat (f : Facts) {s : State} (h : MetaOK s) (op : Op) (hs : Safe s op) {why : String}
    (hp : (step f s op).2 = .panic why) : DevError why := by
  cases op with
  | addVolume id ro => simp only [step, addVolume] at hp; split at hp <;> simp at hp
  | grow v n => exact grow_nopanic v n hp
  | shrink v n => exact shrink_nopanic h v n hp
  | removeVolume v force => exact (removeVolume_nopanic h v force hp).elim
  | setReadOnly v b => simp [step] at hp
  | setAvailable v b => simp [step] at hp
  | reserve w r b ch =>
    simp only [step, reserve] at hp
    split at hp
    · simp at hp
    split at hp
    · simp at hp
    split at hp
    · simp at hp
    split at hp
    · simp at hp
    · split at hp <;> simp at hp
  | finish w ok => exact (finish_nopanic h w ok hp).elim
  | revise1 c chs => exact revise1_nopanic h c chs hp
  | revise2 c roots => exact (revise2_nopanic h c roots hp).elim
  | addTemp r exp => simp only [step, addTemp] at hp; split at hp <;> simp at hp
  | addTemps l => simp only [step, addTemps] at hp; split at hp <;> simp at hp
  | addC1 id wEnd => simp only [step, addC1] at hp; split at hp <;> simp at hp
  | addC2 id expH => simp only [step, addC2] at hp; split at hp <;> simp at hp
  | setStatus1 id st => simp [step] at hp
  | setStatus2 id st => simp [step] at hp
  | expire1 ht => exact (expire1_nopanic f h ht hp).elim
  | expire2 ht => exact (expire2_nopanic f h ht hp).elim
  | expireTemp ht => exact (expireTemp_nopanic h ht hp).elim
  | tick => simp [step] at hp
  | prune => exact (prune_nopanic h hp).elim
  | removeSector r data => exact (removeSector_nopanic h r data hp).elim
  | migrate v start moves => exact (migrate_nopanic h v start moves hs hp).elim
  | read r =>
    simp only [step, Hostd.Volumes.read] at hp
    split at hp
    · simp at hp
    split at hp
    · simp at hp
    split at hp
    · simp at hp
    · split at hp <;> simp at hp
  | newBuf c => simp [step] at hp
  | mutate b c => simp only [step, mutate] at hp; split at hp <;> simp at hp
  | sync => simp [step] at hp
  | resizeCache n => simp [step] at hp
  | crash lost => simp only [step, crash] at hp; split at hp <;> simp at hp
  | restart =>
    simp only [step, restart] at hp
    split at hp
    · simp at hp
    · simp only [crash] at hp; split at hp <;> simp at hp
  | vmAddVolume id n => exact vmAddVolume_nopanic id n hp
  | vmResize v n moves => exact vmResize_nopanic h v n moves hs hp
  | vmRemove v force moves => exact (vmRemove_nopanic h v force moves hs hp).elim
  | syncBegin => simp only [step, syncBegin] at hp; split at hp <;> simp at hp
  | syncFsync v =>
    simp only [step, syncFsync] at hp
    split at hp
    · simp at hp
    · split at hp <;> split at hp <;> simp at hp
  | syncClear v =>
    simp only [step, syncClear] at hp
    split at hp
    · simp at hp
    · split at hp <;> split at hp <;> simp at hp
  | syncEnd =>
    simp only [step, syncEnd] at hp
    split at hp
    · split at hp <;> simp at hp
    · simp at hp
  | syncFsyncFail v =>
    simp only [step, syncFsyncFail] at hp
    split at hp
    · simp at hp
    · split at hp <;> split at hp <;> simp at hp
  | syncPartial oks fail =>
    simp only [step, syncPartial] at hp
    repeat' split at hp
    all_goals simp at hp
  | removeRows v force gone => exact (removeRows_nopanic f h v force gone hp).elim
  | expire1Part ht keep =>
    simp only [step, expire1Part] at hp
    split at hp
    · simp at hp
    split at hp
    · have := h.mContract; omega
    · simp at hp
  | expire2Part ht keep =>
    simp only [step, expire2Part] at hp
    split at hp
    · simp at hp
    split at hp
    · have := h.mContract; omega
    · simp at hp
  | expireTempPart ht keep =>
    simp only [step, expireTempPart] at hp
    split at hp
    · simp at hp
    split at hp
    · have := h.mTemp; omega
    · simp at hp
  | prunePart cleared => exact (prunePart_nopanic cleared h hp).elim
  | migratePart v start moves =>
    simp only [step, migratePart] at hp
    split at hp
    · simp at hp
    · exact (migrate_nopanic h v start moves hs hp).elim
  | vmResizeStale cur v n moves =>
    simp only [step, vmResizeStale] at hp
    split at hp
    · simp at hp
    split at hp
    · exact vmResize_nopanic h v n moves hs hp
    split at hp
    · split at hp
      · exact grow_nopanic v n hp
      · simp at hp
    split at hp
    · split at hp
      · simp at hp; exact Or.inr (Or.inl hp.symm)
      · exact vmResize_nopanic h v n moves hs hp
    · simp at hp


/-! ## the repaired tree (`stepF`) -/

theorem unalias_ok {s : State} (h : MetaOK s) : MetaOK (unalias s) :=
  metaOK_frame h rfl rfl rfl rfl rfl rfl (fun _ hx => hx)

theorem fixCache_ok (f : Facts) {s : State} (h : MetaOK s) : MetaOK (fixCache f s) := by
  simp only [fixCache]; split
  · exact unalias_ok h
  · exact h

/-- under the invariant the conditional rollback and the unconditional one coincide (the slot of a
writer in flight still holds its sector) -/
theorem finishChecked_eq {s : State} (h : MetaOK s) (w : Nat) (ok : Bool) : finishChecked s w ok = finish s w ok := by
  simp only [finishChecked]
  split
  · rename_i hp; simp [finish, hp]
  rename_i p hp
  obtain ⟨hpm, _⟩ := findPending_spec hp
  obtain ⟨sl, hs, hsec⟩ := h.pend p hpm
  split
  · rfl
  · simp [hs, hsec]

theorem stepF_fst_ok (f : Facts) {s : State} (h : MetaOK s) (op : Op) (hs : Safe s op) (hsh : ShapeOK f op) : MetaOK (stepF f s op).1 := by
  simp only [stepF]
  apply fixCache_ok
  cases op with
  | finish w ok =>
    simp only [finishF]
    split
    · rw [finishChecked_eq h]; exact finish_ok h w ok
    · exact finish_ok h w ok
  | _ => exact step_ok f h _ hs hsh

def SafeRunF (f : Facts) : State → List Op → Prop
  | _, [] => True
  | s, op :: ops => Safe s op ∧ ShapeOK f op ∧ SafeRunF f (stepF f s op).1 ops

/-- `C08_slot_inv` for the tree selected by `f` (copying cache, conditional rollback) -/
theorem C08_slot_inv_F (f : Facts) (ops : List Op) : ∀ (s : State), MetaOK s → SafeRunF f s ops → MetaOK (runF f s ops) := by
  induction ops with
  | nil => intro s h _; exact h
  | cons op ops ih =>
    intro s h hs
    simp only [runF, List.foldl_cons]
    exact ih _ (stepF_fst_ok f h op hs.1 hs.2.1) hs.2.2

/-- with the conditional rollback the schedule of `C08_unsafe_breaks` keeps the counters exact -/
theorem C08_unsafe_fixed :
    (runF Facts.fixed (init 0) unsafeOps).vols.all (fun v => v.used == occ v.slots) = true := by decide


/-! ## every prefix of the batches of a loop satisfies the invariant -/

theorem removeRows_pending (f : Facts) (s : State) (v : Nat) (force : Bool) (gone : List Nat) :
    (removeRows f s v force gone).1.pending = s.pending := by
  simp only [removeRows]
  repeat' split
  all_goals rfl

/-- the first batches of a `RemoveVolume(v, force)` -/
def removeBatches (f : Facts) (v : Nat) (force : Bool) : State → List (List Nat) → State
  | s, [] => s
  | s, g :: gs => removeBatches f v force (removeRows f s v force g).1 gs

/-- **Interrupted removal.** Whatever rows the batches take and wherever the removal stops (crash,
error, a concurrent `StoreSector` that makes the next batch fail), the state after the batches done so
far satisfies `MetaOK` — for a removal that deletes no occupied row, or when `used_sectors` follows the
rows a forced batch deletes. -/
theorem C08_remove_batches_prefix (f : Facts) (v : Nat) (force : Bool) (hshape : RemoveShapeOK f force) (batches : List (List Nat)) :
    ∀ (s : State), MetaOK s → (force = true → ∀ p ∈ s.pending, p.v ≠ v) → MetaOK (removeBatches f v force s batches) := by
  induction batches with
  | nil => intro s h _; exact h
  | cons g gs ih =>
    intro s h hs
    simp only [removeBatches]
    exact ih _ (removeRows_ok f h v force g hshape hs) (by rw [removeRows_pending]; exact hs)

/-- the same for the other loops: their partial forms are operations of `step`, so `C08_slot_inv` covers every
prefix of batches of `ExpireContractSectors`, `ExpireV2ContractSectors`, `ExpireTempSectors`, `PruneSectors`
and `MigrateSectors` interleaved with anything else -/
theorem C08_partial_ops_ok (f : Facts) {s : State} (h : MetaOK s) :
    (∀ ht keep, MetaOK (expire1Part f s ht keep).1) ∧ (∀ ht keep, MetaOK (expire2Part f s ht keep).1) ∧
    (∀ ht keep, MetaOK (expireTempPart s ht keep).1) ∧ (∀ cleared, MetaOK (prunePart s cleared).1) :=
  ⟨fun ht keep => expire1Part_ok f h ht keep, fun ht keep => expire2Part_ok f h ht keep,
   fun ht keep => expireTempPart_ok h ht keep, fun cleared => prunePart_ok cleared h⟩

/-- current shape of the FORCED batch (`used_sectors` is not lowered): a forced removal that stops after a batch
which deleted an occupied row leaves `used_sectors` above the number of occupied slots -/
def forcedStopOps : List Op :=
  [.vmAddVolume 1 3, .newBuf (.dataOf 6), .reserve 0 6 0 (some (1, 0)), .finish 0 true, .removeRows 1 true [0, 1]]

theorem C08_forced_batch_breaks_used :
    (run Facts.fixed2 (init 0) forcedStopOps).vols.all (fun v => v.used == occ v.slots) = false := by decide

theorem C08_forced_batch_fixed :
    (run { Facts.fixed2 with removeUpdatesUsed := true } (init 0) forcedStopOps).vols.all (fun v => v.used == occ v.slots) = true := by decide

example : (run Facts.fixed2 (init 0) forcedStopOps).m.total = 1 ∧ (run Facts.fixed2 (init 0) forcedStopOps).m.lost = 1 := by decide


end Hostd.Props.C08
