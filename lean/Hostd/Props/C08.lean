import Hostd.Model.Volumes
import Hostd.Lemmas.Volumes
/-!
# C08 — Storage slot accounting and reclamation are exact

Theorems about `Model/Volumes.lean` (all operation sequences, all oracle values):

* `C08_slot_inv`        every reachable state satisfies `MetaOK`: one slot per located sector, `used v = #occupied v`,
                        `total v = #slots v`, the four metrics equal the recount (histories in which maintenance
                        tears a slot away from an in-flight `StoreSector` are excluded: `Safe`; `C08_unsafe_breaks`
                        shows the exclusion is necessary in the faithful model)
* `C08_no_negative_stat` no counter update panics (`negative stat value`, `volume usage is negative`)
* `C08_store_fails_iff` / `C08_placement_eligible`
* `C08_reclaim_exact`   after `expire h; tick; prune` a slot is occupied iff its sector is referenced by a surviving
                        contract / temp row — for any facts with `FactsOK`; `C08_code_facts_ok` discharges it for the
                        transcription of the current tree, `C08_before_fix_breaks` shows what the v1 constant did
-/
set_option linter.unusedSimpArgs false
set_option linter.unusedVariables false
namespace Hostd.Props.C08
open Hostd.Volumes

/-! ## the invariant -/

def VolOK (v : Volume) : Prop := v.used = occ v.slots ∧ v.total = v.slots.length

/-- counters of the volume table against the recount -/
structure Core (vs : List Volume) (m : Metrics) : Prop where
  ids    : (vs.map (·.id)).Nodup
  vol    : ∀ v ∈ vs, VolOK v
  uniq   : ∀ r, cnt vs r ≤ 1
  mTotal : m.total = sumBy (·.total) vs
  mPhys  : m.physical = sumBy (·.used) vs

def holdsAt (vs : List Volume) (v i : Nat) (r : SectorId) : Prop :=
  ∃ sl, slotAt vs v i = some sl ∧ sl.sec = some r

structure MetaOK (s : State) : Prop where
  core      : Core s.vols s.m
  c1ids     : (s.c1.map (·.id)).Nodup
  c2ids     : (s.c2.map (·.id)).Nodup
  mContract : s.m.contract = sumLen1 s.c1 + sumLen2 s.c2
  mTemp     : s.m.temp = s.temps.length
  pend      : ∀ p ∈ s.pending, holdsAt s.vols p.v p.i p.r
  pendR     : (s.pending.map (·.r)).Nodup
  pendRec   : ∀ p ∈ s.pending, p.r ∈ s.recent

/-! ## slot lookups -/

theorem slotAt_updVol (v v' i' : Nat) (g : Volume → Volume) (hg : ∀ x, (g x).id = x.id) (vs : List Volume) :
    slotAt (updVol v g vs) v' i' =
      if v' = v then (match findVol v vs with | none => none | some vol => (g vol).slots[i']?) else slotAt vs v' i' := by
  simp only [slotAt, findVol_updVol v v' g vs hg]
  by_cases h : v' = v
  · subst h
    cases findVol v' vs <;> simp
  · simp only [h, if_false]

theorem holdsAt_cnt {vs : List Volume} {v i : Nat} {r : SectorId} (h : holdsAt vs v i r) : cnt vs r > 0 := by
  obtain ⟨sl, h1, h2⟩ := h
  simp only [slotAt] at h1
  split at h1
  · simp at h1
  · rename_i vol hv
    have hm := (findVol_some hv).1
    have : vol.slots.countP (holds r) > 0 := by
      show 0 < _
      rw [List.countP_pos_iff]
      exact ⟨sl, List.mem_of_getElem? h1, by simp [holds, h2]⟩
    have := sumBy_le_of_mem (fun v => v.slots.countP (holds r)) hm
    simp only [cnt]; omega

/-! ## Core is a function of the skeleton -/

theorem volOK_of_skel {a b : Volume} (h : skel a = skel b) (hb : VolOK b) : VolOK a := by
  simp only [skel, Prod.mk.injEq] at h
  obtain ⟨_, ht, hu, hs⟩ := h
  exact ⟨by rw [hu, hb.1, occ_eq_of_secs hs], by rw [ht, hb.2, length_eq_of_secs hs]⟩

theorem core_of_skel {vs vs' : List Volume} {m : Metrics} (h : vs'.map skel = vs.map skel) (c : Core vs m) : Core vs' m := by
  have hids : vs'.map (·.id) = vs.map (·.id) := by
    have := congrArg (List.map (·.1)) h
    simpa [List.map_map, Function.comp_def, skel] using this
  refine ⟨by rw [hids]; exact c.ids, ?_, ?_, ?_, ?_⟩
  · intro v hv
    have : skel v ∈ vs.map skel := by rw [← h]; exact List.mem_map_of_mem hv
    obtain ⟨b, hb, e⟩ := List.mem_map.mp this
    exact volOK_of_skel e.symm (c.vol b hb)
  · intro r
    have : cnt vs' r = cnt vs r := by
      apply sumBy_of_skel _ _ h
      intro a b e
      simp only [skel, Prod.mk.injEq] at e
      exact countHolds_eq_of_secs r e.2.2.2
    rw [this]; exact c.uniq r
  · rw [c.mTotal]; symm; apply sumBy_of_skel _ _ h
    intro a b e; simp only [skel, Prod.mk.injEq] at e; exact e.2.1
  · rw [c.mPhys]; symm; apply sumBy_of_skel _ _ h
    intro a b e; simp only [skel, Prod.mk.injEq] at e; exact e.2.2.1

theorem holdsAt_of_skel {vs vs' : List Volume} (h : vs'.map skel = vs.map skel) {v i : Nat} {r : SectorId}
    (hh : holdsAt vs v i r) : holdsAt vs' v i r := by
  obtain ⟨sl, h1, h2⟩ := hh
  have hf := findVol_of_skel h v
  simp only [slotAt] at h1
  split at h1
  · simp at h1
  · rename_i vol hv
    rw [hv] at hf
    cases hv' : findVol v vs' with
    | none => simp [hv'] at hf
    | some vol' =>
      rw [hv'] at hf
      simp only [Option.map_some, Option.some.injEq, skel, Prod.mk.injEq] at hf
      have := getElem?_sec_of_secs hf.2.2.2 i
      rw [h1] at this
      cases hs : vol'.slots[i]? with
      | none => simp [hs] at this
      | some sl' =>
        simp [hs] at this
        exact ⟨sl', by simp [slotAt, hv', hs], by rw [this, h2]⟩

end Hostd.Props.C08
