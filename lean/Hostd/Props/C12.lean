import Hostd.Props.C07
/-!
C12 — Accepted formations and renewals respect the host's settings.

Theorems about `validateFormation` (rhp/v2 validateContractFormation), `validateRenewal2`
(rhp/v2 validateContractRenewal), `validateRenewal3` (rhp/v3 validateContractRenewal) and about the
handler paths `rpcForm2`, `rpcRenew2`, `rpcRenew3` (hard-fork guard → clearing revision → base cost
arithmetic → validator → figures handed to the contract manager) of Model/Revision.lean.

`contractClauses` is the clause list the driver evaluates on the implementation's verdicts.  Its three
window clauses carry the configuration hypothesis `noWrap` (`height + maxDuration + windowSize < 2^64`:
the uint64 additions of the code do not wrap); `…_window_partial` states them in plain arithmetic under
that hypothesis and `formation_wrap_witness` shows it cannot be dropped.  The closed forms
(`formRecorded`, `renew2Recorded`, `renew3Recorded`) are what `closed_form/…` monitors compare.
-/
set_option linter.unusedSimpArgs false
set_option linter.unusedVariables false
namespace Hostd.Revision

variable {sg : Sigs}

macro "res_ok'" " at " h:ident : tactic =>
  `(tactic| simp only [bind_ok_iff, check_ok_iff, out0_ok_iff, out1_ok_iff, out2_ok_iff, caddF_ok_iff, csubF_ok_iff,
      cadd_ok_iff, csub_ok_iff, cmulF_ok_iff,
      decide_eq_false_iff_not, exists_const, Decidable.not_not, Nat.not_le, gt_iff_lt, Nat.not_lt, pure_eq_ok,
      Bool.and_eq_false_imp, Bool.or_eq_false_iff, ne_eq, ge_iff_le, Res.ok.injEq, Prod.mk.injEq] at $h:ident)

theorem hostAddr_cons (a o : Out) (l : List Out) : hostAddr (a :: o :: l) = some o.addr := rfl
theorem voidOut_cons (a b o : Out) (l : List Out) : voidOut (a :: b :: o :: l) = some o := rfl

/-! ### uint64 window arithmetic -/

theorem uadd_eq {a b : Nat} (h : a + b < U64) : uadd a b = a + b := Nat.mod_eq_of_lt h

/-- under `noWrap` the three wrapped comparisons of the code are the mathematical ones -/
theorem window_of_checks {h ws we : Nat} {st : Settings} (hn : noWrap h st = true)
    (h1 : uadd h st.windowSize ≤ ws) (h2 : ws ≤ uadd h st.maxDuration) (h3 : uadd ws st.windowSize ≤ we) :
    h + st.windowSize ≤ ws ∧ ws ≤ h + st.maxDuration ∧ ws + st.windowSize ≤ we := by
  simp only [noWrap, decide_eq_true_eq] at hn
  rw [uadd_eq (by omega)] at h1
  rw [uadd_eq (by omega)] at h2
  rw [uadd_eq (by omega)] at h3
  exact ⟨h1, h2, h3⟩

/-- the clause list follows from the checked facts -/
theorem contractClauses_of_facts {fc : Rev} {h base locked : Nat} {st : Settings} {vh mh void : Out} {x y : Out}
    {r1 r2 : List Out}
    (h1 : uadd h st.windowSize ≤ fc.wStart) (h2 : fc.wStart ≤ uadd h st.maxDuration)
    (h3 : uadd fc.wStart st.windowSize ≤ fc.wEnd)
    (hv : fc.valid = x :: vh :: r1) (hm : fc.missed = y :: mh :: void :: r2)
    (ha1 : vh.addr = st.address) (ha2 : mh.addr = st.address) (ha3 : void.addr = voidAddr)
    (hl : locked ≤ st.maxCollateral) (hp : st.contractPrice + base ≤ vh.val) :
    ∀ c ∈ contractClauses fc h st base locked, c.2 = true := by
  intro c hc
  simp only [contractClauses, List.mem_cons, List.mem_nil_iff, or_false] at hc
  rcases hc with rfl | rfl | rfl | rfl | rfl | rfl | rfl | rfl
  · cases hn : noWrap h st
    · simp
    · simp; exact (window_of_checks hn h1 h2 h3).1
  · cases hn : noWrap h st
    · simp
    · simp; exact (window_of_checks hn h1 h2 h3).2.1
  · cases hn : noWrap h st
    · simp
    · simp; exact (window_of_checks hn h1 h2 h3).2.2
  · simp [hv, hostAddr_cons, ha1]
  · simp [hm, hostAddr_cons, ha2]
  · simp [hm, voidOut_cons, ha3]
  · simpa using hl
  · simp [hv, hostVal_cons, optLe, hp]

/-! ### validateContractFormation -/

/-- **C12 formation_accept.** For ALL contracts, heights and settings: an accepted formation satisfies
every clause (base storage revenue 0) and the returned collateral is `validHost − contractPrice`. -/
theorem formation_accept_safe {fc : Rev} {expUH h c : Nat} {st : Settings}
    (hh : validateFormation fc expUH h st = .ok c) :
    (∀ cl ∈ contractClauses fc h st 0 c, cl.2 = true) ∧
    formRecorded fc st = some { locked := c, rpcRevenue := st.contractPrice, storageRevenue := 0, risked := 0,
                                clearingRPC := 0 } ∧
    fc.unlockHash = expUH ∧ fc.filesize = 0 ∧ fc.revNo = 0 ∧ fc.root = 0 ∧
    hostVal fc.valid = hostVal fc.missed ∧ (voidOut fc.missed).map (·.val) = some 0 := by
  unfold validateFormation at hh
  res_ok' at hh
  obtain ⟨hfs, hno, hroot, h1, h2, h3, _, _, vh, ⟨x, r1, hv⟩, ha1, mh, ⟨y, r2, hm⟩, ha2, void, ⟨y', mh', r3, hm'⟩, ha3,
    hv0, hcp, heq, hmc, huh, _, rfl⟩ := hh
  rw [hm] at hm'; simp at hm'; obtain ⟨rfl, rfl, hr2⟩ := hm'
  subst hr2
  refine ⟨contractClauses_of_facts h1 h2 h3 hv hm ha1 ha2 ha3 (by omega) (by omega), ?_, huh, hfs, hno, hroot, ?_, ?_⟩
  · simp [formRecorded, hv, hostVal_cons]
  · simp [hv, hm, hostVal_cons, heq]
  · simp [hm, voidOut_cons, hv0]

/-- the window clauses in plain arithmetic, under the configuration hypothesis -/
theorem formation_window_partial {fc : Rev} {expUH h c : Nat} {st : Settings}
    (hh : validateFormation fc expUH h st = .ok c) (hn : h + st.maxDuration + st.windowSize < U64) :
    h + st.windowSize ≤ fc.wStart ∧ fc.wStart ≤ h + st.maxDuration ∧ fc.wStart + st.windowSize ≤ fc.wEnd := by
  unfold validateFormation at hh
  res_ok' at hh
  obtain ⟨_, _, _, h1, h2, h3, _⟩ := hh
  exact window_of_checks (by simp [noWrap, hn]) h1 h2 h3

/-- `validateContractFormation` never panics (lengths are compared before anything is indexed, the
final `Sub` is guarded by the `Cmp` above it) -/
theorem formation_no_panic (fc : Rev) (expUH h : Nat) (st : Settings) : NoPanic (validateFormation fc expUH h st) := by
  unfold validateFormation
  refine NoPanic.bind (check_noPanic _ _) fun _ _ => ?_
  refine NoPanic.bind (check_noPanic _ _) fun _ _ => ?_
  refine NoPanic.bind (check_noPanic _ _) fun _ _ => ?_
  refine NoPanic.bind (check_noPanic _ _) fun _ _ => ?_
  refine NoPanic.bind (check_noPanic _ _) fun _ _ => ?_
  refine NoPanic.bind (check_noPanic _ _) fun _ _ => ?_
  refine NoPanic.bind (check_noPanic _ _) fun _ hv => ?_
  refine NoPanic.bind (check_noPanic _ _) fun _ hm => ?_
  res_ok' at hv; res_ok' at hm
  refine NoPanic.bind (out1_noPanic (by omega)) fun _ _ => ?_
  refine NoPanic.bind (check_noPanic _ _) fun _ _ => ?_
  refine NoPanic.bind (out1_noPanic (by omega)) fun _ _ => ?_
  refine NoPanic.bind (check_noPanic _ _) fun _ _ => ?_
  refine NoPanic.bind (out2_noPanic (by omega)) fun _ _ => ?_
  refine NoPanic.bind (check_noPanic _ _) fun _ _ => ?_
  refine NoPanic.bind (check_noPanic _ _) fun _ _ => ?_
  refine NoPanic.bind (check_noPanic _ _) fun _ hp => ?_
  refine NoPanic.bind (check_noPanic _ _) fun _ _ => ?_
  refine NoPanic.bind (check_noPanic _ _) fun _ _ => ?_
  refine NoPanic.bind (check_noPanic _ _) fun _ _ => ?_
  res_ok' at hp
  intro s hs
  have := csub_panic_iff.mp hs
  omega

def exSettings : Settings where
  windowSize := 144
  maxDuration := 25920
  address := 2
  contractPrice := 200
  maxCollateral := 1000
  storagePrice := 3
  collateral := 2
  renewCost := 7
  baseRPCPrice := 1

def exForm : Rev where
  revNo := 0
  wStart := 1144
  wEnd := 1288
  unlockHash := 10
  ucHash := 10
  filesize := 0
  root := 0
  valid := [⟨1, 5000⟩, ⟨2, 700⟩]
  missed := [⟨1, 5000⟩, ⟨2, 700⟩, ⟨0, 0⟩]

example : validateFormation exForm 10 1000 exSettings = .ok 500 := by decide +kernel
example : noWrap 1000 exSettings = true := by decide +kernel

/-- without the configuration hypothesis the wrapped comparison accepts a window that starts before
`height + windowSize` (window size 2^64−1, i.e. a mis-configuration) -/
theorem formation_wrap_witness :
    validateFormation { exForm with wStart := 999, wEnd := 998 } 10 1000 { exSettings with windowSize := U64 - 1, maxDuration := 0 }
      = .ok 500 ∧ ¬ (1000 + (U64 - 1) ≤ 999) := by decide +kernel

/-! ### the shared first switch of the renewal validators -/

structure ShapeFacts (existing renewal : Rev) (expUH height : Nat) (st : Settings) (vh mh void : Out) : Prop where
  revNo : renewal.revNo = 0
  fs : renewal.filesize = existing.filesize
  root : renewal.root = existing.root
  wEnd : existing.wEnd ≤ renewal.wEnd
  w1 : uadd height st.windowSize ≤ renewal.wStart
  w2 : renewal.wStart ≤ uadd height st.maxDuration
  w3 : uadd renewal.wStart st.windowSize ≤ renewal.wEnd
  shape : ∃ x y r1 r2, renewal.valid = x :: vh :: r1 ∧ renewal.missed = y :: mh :: void :: r2
  lenV : renewal.valid.length = 2
  a1 : vh.addr = st.address
  a2 : mh.addr = st.address
  a3 : void.addr = voidAddr
  uh : renewal.unlockHash = expUH

theorem renewalShape_ok {existing renewal : Rev} {expUH height : Nat} {st : Settings} {vh mh void : Out}
    (h : renewalShape existing renewal expUH height st = .ok (vh, mh, void)) :
    ShapeFacts existing renewal expUH height st vh mh void := by
  unfold renewalShape at h
  res_ok' at h
  obtain ⟨hno, hfs, hroot, hwe, h1, h2, h3, hlv, _, vh', ⟨x, r1, hv⟩, ha1, mh', ⟨y, r2, hm⟩, ha2, void', ⟨y', mh'', r3, hm'⟩,
    ha3, huh, rfl, rfl, rfl⟩ := h
  rw [hm] at hm'; simp at hm'; obtain ⟨rfl, rfl, hr2⟩ := hm'
  subst hr2
  exact ⟨hno, hfs, hroot, hwe, h1, h2, h3, ⟨x, y, r1, r3, hv, hm⟩, hlv, ha1, ha2, ha3, huh⟩

theorem renewalShape_noPanic (existing renewal : Rev) (expUH height : Nat) (st : Settings) :
    NoPanic (renewalShape existing renewal expUH height st) := by
  unfold renewalShape
  refine NoPanic.bind (check_noPanic _ _) fun _ _ => ?_
  refine NoPanic.bind (check_noPanic _ _) fun _ _ => ?_
  refine NoPanic.bind (check_noPanic _ _) fun _ _ => ?_
  refine NoPanic.bind (check_noPanic _ _) fun _ _ => ?_
  refine NoPanic.bind (check_noPanic _ _) fun _ _ => ?_
  refine NoPanic.bind (check_noPanic _ _) fun _ _ => ?_
  refine NoPanic.bind (check_noPanic _ _) fun _ _ => ?_
  refine NoPanic.bind (check_noPanic _ _) fun _ hv => ?_
  refine NoPanic.bind (check_noPanic _ _) fun _ hm => ?_
  res_ok' at hv; res_ok' at hm
  refine NoPanic.bind (out1_noPanic (by omega)) fun _ _ => ?_
  refine NoPanic.bind (check_noPanic _ _) fun _ _ => ?_
  refine NoPanic.bind (out1_noPanic (by omega)) fun _ _ => ?_
  refine NoPanic.bind (check_noPanic _ _) fun _ _ => ?_
  refine NoPanic.bind (out2_noPanic (by omega)) fun _ _ => ?_
  refine NoPanic.bind (check_noPanic _ _) fun _ _ => ?_
  refine NoPanic.bind (check_noPanic _ _) fun _ _ => ?_
  exact NoPanic.pure _

/-! ### RHP2 validateContractRenewal -/

/-- **C12 renewal2_accept.** `base` is the base host revenue handed in by the handler (it already
contains the contract price, hence `contractPrice := 0` in the clause list); the returned figures are
`(base, (validHost − missedHost) ∸ base, validHost − base)`. -/
theorem renewal2_accept_safe {fx : Bool} {e r : Rev} {expUH base risk h a b c : Nat} {st : Settings}
    (hh : validateRenewal2 fx e r expUH base risk h st = .ok (a, b, c)) :
    (∀ cl ∈ contractClauses r h { st with contractPrice := 0 } base c, cl.2 = true) ∧
    (∃ vh mh void, hostVal r.valid = some vh ∧ hostVal r.missed = some mh ∧ voidOut r.missed = some void ∧
      mh ≤ vh ∧ vh - mh ≤ base + risk ∧ void.val = vh - mh ∧
      a = base ∧ b = (vh - mh) - base ∧ c = vh - base ∧ base ≤ vh) ∧
    r.revNo = 0 ∧ r.filesize = e.filesize ∧ r.root = e.root ∧ e.wEnd ≤ r.wEnd ∧ r.unlockHash = expUH := by
  unfold validateRenewal2 at hh
  res_ok' at hh
  obtain ⟨⟨vh, mh, void⟩, hsh, eb, ⟨_, rfl⟩, hle, hburn, hvoid, hbase, hmc, rfl, rfl, rfl⟩ := hh
  have sf := renewalShape_ok hsh
  obtain ⟨x, y, r1, r2, hv, hm⟩ := sf.shape
  refine ⟨contractClauses_of_facts sf.w1 sf.w2 sf.w3 hv hm sf.a1 sf.a2 sf.a3 hmc (by simpa using hbase), ?_,
    sf.revNo, sf.fs, sf.root, sf.wEnd, sf.uh⟩
  exact ⟨vh.val, mh.val, void, by simp [hv, hostVal_cons], by simp [hm, hostVal_cons], by simp [hm, voidOut_cons],
    hle, hburn, hvoid, rfl, rfl, rfl, hbase⟩

theorem renewal2_window_partial {fx : Bool} {e r : Rev} {expUH base risk h a b c : Nat} {st : Settings}
    (hh : validateRenewal2 fx e r expUH base risk h st = .ok (a, b, c)) (hn : h + st.maxDuration + st.windowSize < U64) :
    h + st.windowSize ≤ r.wStart ∧ r.wStart ≤ h + st.maxDuration ∧ r.wStart + st.windowSize ≤ r.wEnd := by
  unfold validateRenewal2 at hh
  res_ok' at hh
  obtain ⟨⟨vh, mh, void⟩, hsh, _⟩ := hh
  have sf := renewalShape_ok hsh
  exact window_of_checks (by simp [noWrap, hn]) sf.w1 sf.w2 sf.w3

theorem validateRenewal2_noPanic {fx : Bool} {e r : Rev} {expUH base risk h : Nat} {st : Settings}
    (H : fx = true ∨ base + risk < C128) : NoPanic (validateRenewal2 fx e r expUH base risk h st) := by
  unfold validateRenewal2
  refine NoPanic.bind (renewalShape_noPanic _ _ _ _ _) fun ⟨vh, mh, void⟩ _ => ?_
  refine NoPanic.bind (caddF_noPanic H) fun _ _ => ?_
  refine NoPanic.bind (check_noPanic _ _) fun _ _ => ?_
  refine NoPanic.bind (check_noPanic _ _) fun _ _ => ?_
  refine NoPanic.bind (check_noPanic _ _) fun _ _ => ?_
  refine NoPanic.bind (check_noPanic _ _) fun _ _ => ?_
  refine NoPanic.bind (check_noPanic _ _) fun _ _ => ?_
  exact NoPanic.pure _

theorem renewal2_no_panic_fixed (e r : Rev) (expUH base risk h : Nat) (st : Settings) :
    NoPanic (validateRenewal2 true e r expUH base risk h st) := validateRenewal2_noPanic (Or.inl rfl)
theorem renewal2_no_panic_partial {e r : Rev} {expUH base risk h : Nat} {st : Settings} (hb : base + risk < C128) :
    NoPanic (validateRenewal2 false e r expUH base risk h st) := validateRenewal2_noPanic (Or.inr hb)

/-! ### RHP3 validateContractRenewal -/

/-- **C12 renewal3_accept.** `base` = `RenewContractCost + WriteStoreCost·filesize·extension`; the
returned figures are `((validHost − missedHost) ∸ base, validHost − (contractPrice + base))` and the
host's missed payout is at least `contractPrice + locked − risked`. -/
theorem renewal3_accept_safe {fx : Bool} {e r : Rev} {expUH base risk h a b : Nat} {st : Settings}
    (hh : validateRenewal3 fx e r expUH base risk h st = .ok (a, b)) :
    (∀ cl ∈ contractClauses r h st base b, cl.2 = true) ∧
    (∃ vh mh void, hostVal r.valid = some vh ∧ hostVal r.missed = some mh ∧ voidOut r.missed = some void ∧
      mh ≤ vh ∧ vh - mh ≤ base + risk ∧ void.val = vh - mh ∧
      a = (vh - mh) - base ∧ b = vh - (st.contractPrice + base) ∧ st.contractPrice + base ≤ vh ∧
      st.contractPrice + b - a ≤ mh) ∧
    r.revNo = 0 ∧ r.filesize = e.filesize ∧ r.root = e.root ∧ e.wEnd ≤ r.wEnd ∧ r.unlockHash = expUH := by
  unfold validateRenewal3 at hh
  res_ok' at hh
  obtain ⟨⟨vh, mh, void⟩, hsh, eb, ⟨_, rfl⟩, hle, hburn, hvoid, mvp, ⟨_, rfl⟩, hbase, hmc, x, ⟨_, rfl⟩, mmp, ⟨_, rfl⟩,
    hmiss, rfl, rfl⟩ := hh
  have sf := renewalShape_ok hsh
  obtain ⟨x, y, r1, r2, hv, hm⟩ := sf.shape
  refine ⟨contractClauses_of_facts sf.w1 sf.w2 sf.w3 hv hm sf.a1 sf.a2 sf.a3 hmc (by simpa using hbase), ?_,
    sf.revNo, sf.fs, sf.root, sf.wEnd, sf.uh⟩
  exact ⟨vh.val, mh.val, void, by simp [hv, hostVal_cons], by simp [hm, hostVal_cons], by simp [hm, voidOut_cons],
    hle, hburn, hvoid, rfl, rfl, hbase, hmiss⟩

theorem renewal3_window_partial {fx : Bool} {e r : Rev} {expUH base risk h a b : Nat} {st : Settings}
    (hh : validateRenewal3 fx e r expUH base risk h st = .ok (a, b)) (hn : h + st.maxDuration + st.windowSize < U64) :
    h + st.windowSize ≤ r.wStart ∧ r.wStart ≤ h + st.maxDuration ∧ r.wStart + st.windowSize ≤ r.wEnd := by
  unfold validateRenewal3 at hh
  res_ok' at hh
  obtain ⟨⟨vh, mh, void⟩, hsh, _⟩ := hh
  have sf := renewalShape_ok hsh
  exact window_of_checks (by simp [noWrap, hn]) sf.w1 sf.w2 sf.w3

/-- `hr`: payouts are 128-bit values (true of every `types.Currency`). -/
theorem validateRenewal3_noPanic {fx : Bool} {e r : Rev} {expUH base risk h : Nat} {st : Settings}
    (hr : ∀ o ∈ r.valid, o.val < C128)
    (H : fx = true ∨ (base + risk < C128 ∧ st.contractPrice + base < C128)) :
    NoPanic (validateRenewal3 fx e r expUH base risk h st) := by
  unfold validateRenewal3
  refine NoPanic.bind (renewalShape_noPanic _ _ _ _ _) fun ⟨vh, mh, void⟩ hsh => ?_
  have sf := renewalShape_ok hsh
  obtain ⟨x, y, r1, r2, hv, hm⟩ := sf.shape
  have hvh : vh.val < C128 := hr vh (by rw [hv]; simp)
  refine NoPanic.bind (caddF_noPanic (H.imp id (·.1))) fun _ _ => ?_
  refine NoPanic.bind (check_noPanic _ _) fun _ h1 => ?_
  refine NoPanic.bind (check_noPanic _ _) fun _ _ => ?_
  refine NoPanic.bind (check_noPanic _ _) fun _ _ => ?_
  refine NoPanic.bind (caddF_noPanic (H.imp id (·.2))) fun mvp hmvp => ?_
  refine NoPanic.bind (check_noPanic _ _) fun _ h2 => ?_
  refine NoPanic.bind (check_noPanic _ _) fun _ _ => ?_
  res_ok' at h1; res_ok' at h2; res_ok' at hmvp
  obtain ⟨_, rfl⟩ := hmvp
  refine NoPanic.bind ?_ fun x hx => ?_
  · intro s hs
    have := cadd_panic_iff.mp hs
    omega
  res_ok' at hx
  obtain ⟨_, rfl⟩ := hx
  refine NoPanic.bind ?_ fun _ _ => ?_
  · intro s hs
    have := csub_panic_iff.mp hs
    omega
  refine NoPanic.bind (check_noPanic _ _) fun _ _ => ?_
  exact NoPanic.pure _

theorem renewal3_no_panic_fixed (e r : Rev) (expUH base risk h : Nat) (st : Settings)
    (hr : ∀ o ∈ r.valid, o.val < C128) : NoPanic (validateRenewal3 true e r expUH base risk h st) :=
  validateRenewal3_noPanic hr (Or.inl rfl)
theorem renewal3_no_panic_partial {e r : Rev} {expUH base risk h : Nat} {st : Settings}
    (hr : ∀ o ∈ r.valid, o.val < C128) (hb : base + risk < C128) (hp : st.contractPrice + base < C128) :
    NoPanic (validateRenewal3 false e r expUH base risk h st) := validateRenewal3_noPanic hr (Or.inr ⟨hb, hp⟩)

/-! examples and witnesses -/

def exExisting : Rev where
  revNo := 9
  wStart := 900
  wEnd := 1044
  unlockHash := 10
  ucHash := 10
  filesize := 4096
  root := 1
  valid := [⟨1, 5000⟩, ⟨2, 700⟩]
  missed := [⟨1, 5000⟩, ⟨2, 600⟩, ⟨0, 100⟩]

/-- renewal extending the window end by 244 blocks -/
def exRenewal : Rev where
  revNo := 0
  wStart := 1144
  wEnd := 1288
  unlockHash := 10
  ucHash := 10
  filesize := 4096
  root := 1
  valid := [⟨1, 9000000⟩, ⟨2, 4000000⟩]
  missed := [⟨1, 9000000⟩, ⟨2, 3000000⟩, ⟨0, 1000000⟩]

example : validateRenewal2 false exExisting exRenewal 10 3000000 2000000 1000 { exSettings with maxCollateral := 1000000 }
    = .ok (3000000, 0, 1000000) := by decide +kernel
example : validateRenewal3 false exExisting exRenewal 10 900000 2000000 1000 { exSettings with maxCollateral := 5000000 }
    = .ok (100000, 3099800) := by decide +kernel

/-- the validators panic when `baseRevenue + baseCollateral` overflows (`expectedBurn := base.Add(collateral)`) -/
theorem renewal2_panics_expected_burn :
    validateRenewal2 false exExisting exRenewal 10 (C128 - 1) 1 1000 exSettings = .panic .renExpectedBurn := by
  decide +kernel
theorem renewal3_panics_expected_burn :
    validateRenewal3 false exExisting exRenewal 10 (C128 - 1) 1 1000 exSettings = .panic .renExpectedBurn := by
  decide +kernel
theorem renewal3_panics_min_valid_payout :
    validateRenewal3 false exExisting { exRenewal with valid := [⟨1, 9⟩, ⟨2, C128 - 1⟩], missed := [⟨1, 9⟩, ⟨2, 200⟩, ⟨0, C128 - 201⟩] }
      10 (C128 - 100) 0 1000 exSettings = .panic .renMinValidPayout := by
  decide +kernel

/-! ### the handler paths: base cost arithmetic BEFORE validation -/

theorem renewBase_ok {fx : Bool} {flat price coll x y : Nat} {e r : Rev}
    (h : renewBase fx flat price coll e r = .ok (x, y)) :
    x = flat + baseCost price e r ∧ y = baseCost coll e r := by
  unfold renewBase at h
  unfold baseCost
  split at h
  · rename_i hgt
    res_ok' at h
    obtain ⟨a, ⟨_, rfl⟩, b, ⟨_, rfl⟩, c, ⟨hc, rfl⟩, d, ⟨_, rfl⟩, f, ⟨_, rfl⟩, rfl, rfl⟩ := h
    simp [hgt]
  · rename_i hgt
    res_ok' at h
    obtain ⟨rfl, rfl⟩ := h
    simp [hgt]

theorem cmulF_noPanic {fx : Bool} {s : Site} {t : Tag} {a b : Nat} (h : fx = true ∨ a * b < C128) :
    NoPanic (cmulF fx s t a b) := by
  intro s' hp; have := cmulF_panic_iff.mp hp
  rcases h with h | h
  · simp [h] at this
  · omega

/-- inputs on which the CURRENT base cost arithmetic cannot overflow -/
def BaseSafe (flat price coll : Nat) (e r : Rev) : Prop :=
  r.wEnd > e.wEnd →
    price * r.filesize < C128 ∧ price * r.filesize * (r.wEnd - e.wEnd) < C128 ∧
    flat + price * r.filesize * (r.wEnd - e.wEnd) < C128 ∧
    coll * r.filesize < C128 ∧ coll * r.filesize * (r.wEnd - e.wEnd) < C128

theorem renewBase_noPanic {fx : Bool} {flat price coll : Nat} {e r : Rev}
    (H : fx = true ∨ BaseSafe flat price coll e r) : NoPanic (renewBase fx flat price coll e r) := by
  unfold renewBase
  split
  · rename_i hgt
    have H' := H.imp id (fun h => h hgt)
    refine NoPanic.bind (cmulF_noPanic (H'.imp id (·.1))) fun a ha => ?_
    res_ok' at ha; obtain ⟨_, rfl⟩ := ha
    refine NoPanic.bind (cmulF_noPanic (H'.imp id (·.2.1))) fun b hb => ?_
    res_ok' at hb; obtain ⟨_, rfl⟩ := hb
    refine NoPanic.bind (caddF_noPanic (H'.imp id (·.2.2.1))) fun _ _ => ?_
    refine NoPanic.bind (cmulF_noPanic (H'.imp id (·.2.2.2.1))) fun c hc => ?_
    res_ok' at hc; obtain ⟨_, rfl⟩ := hc
    refine NoPanic.bind (cmulF_noPanic (H'.imp id (·.2.2.2.2))) fun _ _ => ?_
    exact NoPanic.pure _
  · exact NoPanic.pure _

/-- raw facts of an accepted RHP2 renewal validation -/
theorem validateRenewal2_ok {fx : Bool} {e r : Rev} {expUH base risk h a b c : Nat} {st : Settings}
    (hh : validateRenewal2 fx e r expUH base risk h st = .ok (a, b, c)) :
    ∃ vh mh void, ShapeFacts e r expUH h st vh mh void ∧ mh.val ≤ vh.val ∧ vh.val - mh.val ≤ base + risk ∧
      void.val = vh.val - mh.val ∧ base ≤ vh.val ∧ vh.val - base ≤ st.maxCollateral ∧
      a = base ∧ b = (vh.val - mh.val) - base ∧ c = vh.val - base := by
  unfold validateRenewal2 at hh
  res_ok' at hh
  obtain ⟨⟨vh, mh, void⟩, hsh, eb, ⟨_, rfl⟩, hle, hburn, hvoid, hbase, hmc, rfl, rfl, rfl⟩ := hh
  exact ⟨vh, mh, void, renewalShape_ok hsh, hle, hburn, hvoid, hbase, hmc, rfl, rfl, rfl⟩

theorem validateRenewal3_ok {fx : Bool} {e r : Rev} {expUH base risk h a b : Nat} {st : Settings}
    (hh : validateRenewal3 fx e r expUH base risk h st = .ok (a, b)) :
    ∃ vh mh void, ShapeFacts e r expUH h st vh mh void ∧ mh.val ≤ vh.val ∧ vh.val - mh.val ≤ base + risk ∧
      void.val = vh.val - mh.val ∧ st.contractPrice + base ≤ vh.val ∧
      vh.val - (st.contractPrice + base) ≤ st.maxCollateral ∧
      a = (vh.val - mh.val) - base ∧ b = vh.val - (st.contractPrice + base) := by
  unfold validateRenewal3 at hh
  res_ok' at hh
  obtain ⟨⟨vh, mh, void⟩, hsh, eb, ⟨_, rfl⟩, hle, hburn, hvoid, mvp, ⟨_, rfl⟩, hbase, hmc, x, ⟨_, rfl⟩, mmp, ⟨_, rfl⟩,
    hmiss, rfl, rfl⟩ := hh
  exact ⟨vh, mh, void, renewalShape_ok hsh, hle, hburn, hvoid, hbase, hmc, rfl, rfl⟩

/-- **C12 (rpcFormContract).** what the handler records for an accepted formation is the closed form
`formRecorded` (locked = validHost − contractPrice, RPC revenue = contractPrice), the contract
satisfies every clause and its proof window starts before the v2 hard fork. -/
theorem rpcForm2_accept_safe {rh expUH h : Nat} {fc : Rev} {st : Settings} {rec : Recorded}
    (hh : rpcForm2 rh fc expUH h st sg = .ok rec) :
    fc.wStart < rh ∧ (∀ cl ∈ contractClauses fc h st 0 rec.locked, cl.2 = true) ∧ formRecorded fc st = some rec := by
  unfold rpcForm2 rpcForm2Body at hh
  res_ok' at hh
  obtain ⟨_, hrh, _, c, hc, _, rfl⟩ := hh
  have := formation_accept_safe hc
  exact ⟨hrh, this.1, this.2.1⟩

theorem rpcForm2_no_panic (rh expUH h : Nat) (fc : Rev) (st : Settings) : NoPanic (rpcForm2 rh fc expUH h st sg) := by
  unfold rpcForm2 rpcForm2Body
  refine NoPanic.bind (check_noPanic _ _) fun _ _ => ?_
  refine NoPanic.bind (check_noPanic _ _) fun _ _ => ?_
  refine NoPanic.bind (check_noPanic _ _) fun _ _ => ?_
  refine NoPanic.bind (formation_no_panic _ _ _ _) fun _ _ => ?_
  refine NoPanic.bind (check_noPanic _ _) fun _ _ => ?_
  exact NoPanic.pure _

/-- **C12 (rpcRenewAndClearContract).** For ALL existing revisions, renewals, clearing values, heights and
settings: if the RHP2 handler reaches `RenewContract`, the renewal satisfies every clause with
base storage revenue `StoragePrice·filesize·extension`, and the recorded locked collateral, risked
collateral and usage are exactly the closed form `renew2Recorded`. -/
theorem rpcRenew2_accept_safe {fx : Bool} {rh expUH h : Nat} {e r : Rev} {fv : List Nat} {st : Settings} {rec : Recorded}
    (hh : rpcRenew2 fx rh e r fv expUH h st sg = .ok rec) :
    r.wStart < rh ∧
    (∀ cl ∈ contractClauses r h st (baseCost st.storagePrice e r) rec.locked, cl.2 = true) ∧
    renew2Recorded e r fv st = some rec ∧
    r.filesize = e.filesize ∧ r.root = e.root ∧ e.wEnd ≤ r.wEnd := by
  unfold rpcRenew2 rpcRenew2Body at hh
  res_ok' at hh
  obtain ⟨_, _, hrh, _, clearing, hclr, evr, _, fp, hfp, ⟨b1, b2⟩, hbase, ⟨a, b, c⟩, hval, storage, ⟨hsub, rfl⟩, _, _, tot, _, rfl⟩ := hh
  obtain ⟨rfl, rfl⟩ := renewBase_ok hbase
  obtain ⟨vh, mh, void, sf, hle, hburn, hvoid, hb, hmc, rfl, rfl, rfl⟩ := validateRenewal2_ok hval
  obtain ⟨x, y, r1, r2, hv, hm⟩ := sf.shape
  obtain ⟨cvh, fvh, hcvh, hfvh, rfl, _⟩ := validateClearing_returns hfp
  have hc := clearingRevision_ok hclr
  refine ⟨hrh, contractClauses_of_facts sf.w1 sf.w2 sf.w3 hv hm sf.a1 sf.a2 sf.a3 hmc hb, ?_, sf.fs, sf.root, sf.wEnd⟩
  -- closed form
  have hfv : ∃ f0 rest, fv = f0 :: fvh :: rest := by
    have h6 := hc.2.2.2.2.2.1
    cases hcv : clearing.valid with
    | nil => rw [hcv] at hfvh; simp [hostVal] at hfvh
    | cons o0 t =>
      cases t with
      | nil => rw [hcv] at hfvh; simp [hostVal] at hfvh
      | cons o1 t' =>
        rw [hcv] at hfvh h6
        simp [hostVal] at hfvh
        exact ⟨o0.val, vals t', by rw [← h6, ← hfvh]; simp⟩
  obtain ⟨f0, rest, rfl⟩ := hfv
  simp only [renew2Recorded, hv, hm, hostVal_cons, hcvh]
  congr 1
  simp only [Recorded.mk.injEq]
  refine ⟨by trivial, by trivial, by omega, by trivial, by trivial⟩

theorem rpcRenew2_window_partial {fx : Bool} {rh expUH h : Nat} {e r : Rev} {fv : List Nat} {st : Settings} {rec : Recorded}
    (hh : rpcRenew2 fx rh e r fv expUH h st sg = .ok rec) (hn : h + st.maxDuration + st.windowSize < U64) :
    h + st.windowSize ≤ r.wStart ∧ r.wStart ≤ h + st.maxDuration ∧ r.wStart + st.windowSize ≤ r.wEnd := by
  unfold rpcRenew2 rpcRenew2Body at hh
  res_ok' at hh
  obtain ⟨_, _, hrh, _, clearing, hclr, evr, _, fp, hfp, ⟨b1, b2⟩, hbase, ⟨a, b, c⟩, hval, _⟩ := hh
  exact renewal2_window_partial hval hn

/-- **C12 (handleRPCRenew).** the same for RHP3: base revenue `RenewContractCost + WriteStoreCost·filesize·extension`
(recorded as storage revenue), locked = validHost − (contractPrice + base). -/
theorem rpcRenew3_accept_safe {fx : Bool} {rh expUH h : Nat} {e k r : Rev} {st : Settings} {rec : Recorded}
    (hh : rpcRenew3 fx rh e k r expUH h st sg = .ok rec) :
    r.wStart < rh ∧
    (∀ cl ∈ contractClauses r h st (st.renewCost + baseCost st.storagePrice e r) rec.locked, cl.2 = true) ∧
    renew3Recorded e k r st = some rec ∧
    r.filesize = e.filesize ∧ r.root = e.root ∧ e.wEnd ≤ r.wEnd := by
  unfold rpcRenew3 at hh
  res_ok' at hh
  obtain ⟨hrh, _, fp, hfp, _, ⟨b1, b2⟩, hbase, ⟨a, b⟩, hval, _, tot, _, rfl⟩ := hh
  obtain ⟨rfl, rfl⟩ := renewBase_ok hbase
  obtain ⟨vh, mh, void, sf, hle, hburn, hvoid, hb, hmc, rfl, rfl⟩ := validateRenewal3_ok hval
  obtain ⟨x, y, r1, r2, hv, hm⟩ := sf.shape
  obtain ⟨cvh, fvh, hcvh, hfvh, rfl, _⟩ := validateClearing_returns hfp
  refine ⟨hrh, contractClauses_of_facts sf.w1 sf.w2 sf.w3 hv hm sf.a1 sf.a2 sf.a3 hmc hb, ?_, sf.fs, sf.root, sf.wEnd⟩
  simp only [renew3Recorded, hv, hm, hostVal_cons, hcvh, hfvh]

theorem rpcRenew3_window_partial {fx : Bool} {rh expUH h : Nat} {e k r : Rev} {st : Settings} {rec : Recorded}
    (hh : rpcRenew3 fx rh e k r expUH h st sg = .ok rec) (hn : h + st.maxDuration + st.windowSize < U64) :
    h + st.windowSize ≤ r.wStart ∧ r.wStart ≤ h + st.maxDuration ∧ r.wStart + st.windowSize ≤ r.wEnd := by
  unfold rpcRenew3 at hh
  res_ok' at hh
  obtain ⟨hrh, _, fp, hfp, _, ⟨b1, b2⟩, hbase, ⟨a, b⟩, hval, _⟩ := hh
  exact renewal3_window_partial hval hn

/-- the clearing revision accepted on the RHP3 path satisfies the clearing clauses of C07 -/
theorem rpcRenew3_clearing_safe {fx : Bool} {rh expUH h : Nat} {e k r : Rev} {st : Settings} {rec : Recorded}
    (hh : rpcRenew3 fx rh e k r expUH h st sg = .ok rec) (hU : e.revNo ≤ maxRev)
    (hwf : fx = false → e.valid.length = 2 ∧ e.revNo ≠ maxRev) :
    ∀ c ∈ clearingClauses e k 0, c.2 = true := by
  unfold rpcRenew3 at hh
  res_ok' at hh
  obtain ⟨hrh, _, fp, hfp, _⟩ := hh
  exact validateClearing_accept_safe hfp hU hwf

/-- nothing is recorded (and no host signature is released by `AddContract` / `RenewContract`) unless
the renter's signatures over the revisions verify -/
theorem rpcForm2_needs_signature {rh expUH h : Nat} {fc : Rev} {st : Settings} {rec : Recorded}
    (hh : rpcForm2 rh fc expUH h st sg = .ok rec) : sg.contract = true := by
  unfold rpcForm2 rpcForm2Body at hh
  res_ok' at hh
  obtain ⟨_, hrh, _, c, hc, hs, rfl⟩ := hh
  simpa using hs
theorem rpcRenew2_needs_signatures {fx : Bool} {rh expUH h : Nat} {e r : Rev} {fv : List Nat} {st : Settings} {rec : Recorded}
    (hh : rpcRenew2 fx rh e r fv expUH h st sg = .ok rec) : sg.clearing = true ∧ sg.contract = true := by
  unfold rpcRenew2 rpcRenew2Body at hh
  res_ok' at hh
  obtain ⟨_, _, hrh, _, clearing, hclr, evr, _, fp, hfp, ⟨b1, b2⟩, hbase, ⟨a, b, c⟩, hval, storage, _, h1, h2, _⟩ := hh
  exact ⟨by simpa using h1, by simpa using h2⟩
theorem rpcRenew3_needs_signatures {fx : Bool} {rh expUH h : Nat} {e k r : Rev} {st : Settings} {rec : Recorded}
    (hh : rpcRenew3 fx rh e k r expUH h st sg = .ok rec) : sg.clearing = true ∧ sg.contract = true := by
  unfold rpcRenew3 at hh
  res_ok' at hh
  obtain ⟨hrh, _, fp, hfp, h1, ⟨b1, b2⟩, hbase, ⟨a, b⟩, hval, h2, _⟩ := hh
  exact ⟨by simpa using h1, by simpa using h2⟩

/-! no_panic of the handler paths -/

/-- the final payment of an accepted clearing revision comes out of the renter's valid payout -/
theorem clearing_payment_le {fx : Bool} {cur fin : Rev} {pay r : Nat}
    (h : validateClearing fx cur fin pay = .ok r) : r ≤ total cur.valid := by
  unfold validateClearing at h
  res_ok' at h
  obtain ⟨_, _, _, _, _, _, _, _, _, _, _, cvr, ⟨cr, hcv0⟩, fmr, _, hle1,
    fvh, _, cvh, ⟨cv0, cvr', hcv⟩, hle2, heq, hpay, u, hloop, rfl⟩ := h
  rw [hcv] at hcv0; simp at hcv0; obtain ⟨rfl, _⟩ := hcv0
  rw [hcv]; simp; omega

/-- `he`: the host's own revision has a renter output (every contract the host holds was admitted by
`validateContractFormation` / `validateContractRenewal`: exactly two valid outputs). -/
theorem rpcRenew2_noPanic {fx : Bool} {rh expUH h : Nat} {e r : Rev} {fv : List Nat} {st : Settings}
    (he : 0 < e.valid.length) (hsupply : total e.valid + st.contractPrice < C128)
    (H : fx = true ∨ (2 ≤ e.valid.length ∧ BaseSafe st.contractPrice st.storagePrice st.collateral e r ∧
      st.contractPrice + baseCost st.storagePrice e r + baseCost st.collateral e r < C128)) :
    NoPanic (rpcRenew2 fx rh e r fv expUH h st sg) := by
  unfold rpcRenew2 rpcRenew2Body
  refine NoPanic.bind (check_noPanic _ _) fun _ _ => ?_
  refine NoPanic.bind (check_noPanic _ _) fun _ _ => ?_
  refine NoPanic.bind (check_noPanic _ _) fun _ _ => ?_
  refine NoPanic.bind (check_noPanic _ _) fun _ _ => ?_
  refine NoPanic.bind (clearingRevision_no_panic _ _) fun _ _ => ?_
  refine NoPanic.bind (out0_noPanic he) fun _ _ => ?_
  refine NoPanic.bind (validateClearing_noPanic (H.imp id (·.1))) fun fp hfp => ?_
  have hfpLe := clearing_payment_le hfp
  refine NoPanic.bind (renewBase_noPanic (H.imp id (·.2.1))) fun ⟨b1, b2⟩ hb => ?_
  obtain ⟨rfl, rfl⟩ := renewBase_ok hb
  refine NoPanic.bind (validateRenewal2_noPanic (H.imp id (·.2.2))) fun ⟨a, b, c⟩ hv => ?_
  obtain ⟨vh, mh, void, sf, hle, hburn, hvoid, hbb, hmc, rfl, rfl, rfl⟩ := validateRenewal2_ok hv
  refine NoPanic.bind ?_ fun _ _ => ?_
  · intro s hs
    have := csub_panic_iff.mp hs
    omega
  refine NoPanic.bind (check_noPanic _ _) fun _ _ => ?_
  refine NoPanic.bind (check_noPanic _ _) fun _ _ => ?_
  refine NoPanic.bind ?_ fun _ _ => NoPanic.pure _
  intro s hs
  have := cadd_panic_iff.mp hs
  omega

theorem rpcRenew3_noPanic {fx : Bool} {rh expUH h : Nat} {e k r : Rev} {st : Settings}
    (hr : ∀ o ∈ r.valid, o.val < C128) (hsupply : total e.valid + st.contractPrice < C128)
    (H : fx = true ∨ (2 ≤ e.valid.length ∧ BaseSafe st.renewCost st.storagePrice st.collateral e r ∧
      st.renewCost + baseCost st.storagePrice e r + baseCost st.collateral e r < C128 ∧
      st.contractPrice + (st.renewCost + baseCost st.storagePrice e r) < C128)) :
    NoPanic (rpcRenew3 fx rh e k r expUH h st sg) := by
  unfold rpcRenew3
  refine NoPanic.bind (check_noPanic _ _) fun _ _ => ?_
  refine NoPanic.bind (check_noPanic _ _) fun _ _ => ?_
  refine NoPanic.bind (validateClearing_noPanic (H.imp id (·.1))) fun fp hfp => ?_
  have hfpLe := clearing_payment_le hfp
  refine NoPanic.bind (check_noPanic _ _) fun _ _ => ?_
  refine NoPanic.bind (renewBase_noPanic (H.imp id (·.2.1))) fun ⟨b1, b2⟩ hb => ?_
  obtain ⟨rfl, rfl⟩ := renewBase_ok hb
  refine NoPanic.bind (validateRenewal3_noPanic hr (H.imp id (fun h => ⟨h.2.2.1, h.2.2.2⟩))) fun ⟨a, b⟩ _ => ?_
  refine NoPanic.bind (check_noPanic _ _) fun _ _ => ?_
  refine NoPanic.bind ?_ fun _ _ => NoPanic.pure _
  intro s hs
  have := cadd_panic_iff.mp hs
  omega

/-- **C12 no_panic, repaired variant** (`_partial`: the host's own revision has a renter output, and
`hsupply`: the existing contract's payout plus the contract price fit in 128 bits — total supply —
so that the `Usage.Add` after `RenewContract` cannot overflow; it is not part of the repair) -/
theorem rpcRenew2_no_panic_fixed_partial (rh expUH h : Nat) (e r : Rev) (fv : List Nat) (st : Settings)
    (he : 0 < e.valid.length) (hsupply : total e.valid + st.contractPrice < C128) :
    NoPanic (rpcRenew2 true rh e r fv expUH h st sg) := rpcRenew2_noPanic he hsupply (Or.inl rfl)
/-- **C12 no_panic, repaired variant** (payouts are 128-bit values; `hsupply` as above) -/
theorem rpcRenew3_no_panic_fixed_partial (rh expUH h : Nat) (e k r : Rev) (st : Settings) (hr : ∀ o ∈ r.valid, o.val < C128)
    (hsupply : total e.valid + st.contractPrice < C128) :
    NoPanic (rpcRenew3 true rh e k r expUH h st sg) := rpcRenew3_noPanic hr hsupply (Or.inl rfl)

/-- **C12 no_panic, current tree, partial**: no overflow in the base cost arithmetic, well-shaped existing revision -/
theorem rpcRenew2_no_panic_partial {rh expUH h : Nat} {e r : Rev} {fv : List Nat} {st : Settings}
    (he : 2 ≤ e.valid.length) (hsupply : total e.valid + st.contractPrice < C128)
    (hb : BaseSafe st.contractPrice st.storagePrice st.collateral e r)
    (hs : st.contractPrice + baseCost st.storagePrice e r + baseCost st.collateral e r < C128) :
    NoPanic (rpcRenew2 false rh e r fv expUH h st sg) := rpcRenew2_noPanic (by omega) hsupply (Or.inr ⟨he, hb, hs⟩)
theorem rpcRenew3_no_panic_partial {rh expUH h : Nat} {e k r : Rev} {st : Settings}
    (hr : ∀ o ∈ r.valid, o.val < C128) (he : 2 ≤ e.valid.length) (hsupply : total e.valid + st.contractPrice < C128)
    (hb : BaseSafe st.renewCost st.storagePrice st.collateral e r)
    (hs : st.renewCost + baseCost st.storagePrice e r + baseCost st.collateral e r < C128)
    (hp : st.contractPrice + (st.renewCost + baseCost st.storagePrice e r) < C128) :
    NoPanic (rpcRenew3 false rh e k r expUH h st sg) := rpcRenew3_noPanic hr hsupply (Or.inr ⟨he, hb, hs, hp⟩)

/-! witnesses: a remote peer crashes the CURRENT handlers before validation rejects its input -/

def exClearing : Rev :=
  { exExisting with revNo := maxRev, filesize := 0, root := 0, missed := [⟨1, 5000⟩, ⟨2, 700⟩] }

/-- honest existing contract; the renter claims `Filesize = 2^64−1` and a window end 2^64−1:
`StoragePrice.Mul64(Filesize).Mul64(extension)` overflows before `validateContractRenewal` would have
rejected the wrong file size (corpus/revision/c12_witnesses.trace) -/
theorem rpcRenew2_panics_base_overflow :
    rpcRenew2 false U64 exExisting { exRenewal with filesize := U64 - 1, wEnd := maxStorable } [4999, 701] 10 1000 exSettings ⟨true, true⟩
      = .panic .baseStorageMul2 := by decide +kernel
theorem rpcRenew3_panics_base_overflow :
    rpcRenew3 false U64 exExisting exClearing
      { exRenewal with filesize := U64 - 1, wEnd := maxStorable } 10 1000 exSettings ⟨true, true⟩ = .panic .baseStorageMul2 := by
  decide +kernel
/-- after the repair both are plain rejections -/
example : rpcRenew2 true U64 exExisting { exRenewal with filesize := U64 - 1, wEnd := maxStorable } [4999, 701] 10 1000 exSettings ⟨true, true⟩
    = .reject .costOverflow := by decide +kernel

example : BaseSafe 200 3 2 exExisting exRenewal := by intro _; decide +kernel
example : 2 ≤ exExisting.valid.length ∧ total exExisting.valid + exSettings.contractPrice < C128 := by decide +kernel
example : rpcForm2 U64 exForm 10 1000 exSettings ⟨true, true⟩
    = .ok { locked := 500, rpcRevenue := 200, storageRevenue := 0, risked := 0, clearingRPC := 0 } := by decide +kernel
example : rpcRenew3 false U64 exExisting exClearing exRenewal 10 1000 { exSettings with maxCollateral := 5000000 } ⟨true, true⟩
    = .ok { locked := 1001521, rpcRevenue := 200, storageRevenue := 2998279, risked := 0, clearingRPC := 0 } := by
  decide +kernel

/-- an invalid renter signature stops each handler before anything is recorded -/
example : rpcForm2 U64 exForm 10 1000 exSettings ⟨true, false⟩ = .reject .renterSig := by decide +kernel
example : rpcRenew3 false U64 exExisting exClearing exRenewal 10 1000 { exSettings with maxCollateral := 5000000 } ⟨false, true⟩
    = .reject .renterSig := by decide +kernel

/-- an accepted RHP2 renewal and what is recorded for it -/
example : rpcRenew2 false U64 exExisting exRenewal [4999, 701] 10 1000 { exSettings with maxCollateral := 2000000 } ⟨true, true⟩
    = .ok { locked := 1001528, rpcRevenue := 200, storageRevenue := 2998272, risked := 0, clearingRPC := 1 } := by
  decide +kernel

/-! ### the chain moves while an RPC is in flight (`rpcForm2At`, `rpcRenew2At`)

`h1`: height when the RPC id arrived, `h2 ≥ h1`: the tip once the request body has been read.  The handlers hand
`sh.chain.Tip().Height` (= `h2`) to the validators, so an accepted contract satisfies the window clauses for the
height in force when the host decides. -/

theorem rpcForm2At_same (b : Bool) (rh expUH h : Nat) (fc : Rev) (st : Settings) :
    rpcForm2At b rh fc expUH h h st sg = rpcForm2 rh fc expUH h st sg := by
  cases b <;> rfl

theorem rpcRenew2At_same (fx b : Bool) (rh expUH h : Nat) (e r : Rev) (fv : List Nat) (st : Settings) :
    rpcRenew2At fx b rh e r fv expUH h h st sg = rpcRenew2 fx rh e r fv expUH h st sg := by
  cases b <;> rfl

theorem rpcForm2Body_ok {rh expUH hv : Nat} {fc : Rev} {st : Settings} {rec : Recorded}
    (hh : rpcForm2Body rh fc expUH hv st sg = .ok rec) :
    fc.wStart < rh ∧ (∀ cl ∈ contractClauses fc hv st 0 rec.locked, cl.2 = true) ∧ formRecorded fc st = some rec := by
  unfold rpcForm2Body at hh
  res_ok' at hh
  obtain ⟨hrh, _, c, hc, _, rfl⟩ := hh
  have := formation_accept_safe hc
  exact ⟨hrh, this.1, this.2.1⟩

/-- **rpcFormContract validates against the CURRENT height**: whatever the height was when the RPC id arrived,
an accepted formation satisfies every clause — in particular the window clauses — for the tip `h2` at the time
the request was validated. -/
theorem rpcForm2_uses_current_height {rh expUH h1 h2 : Nat} {fc : Rev} {st : Settings} {rec : Recorded}
    (hh : rpcForm2At true rh fc expUH h1 h2 st sg = .ok rec) :
    fc.wStart < rh ∧ (∀ cl ∈ contractClauses fc h2 st 0 rec.locked, cl.2 = true) ∧ formRecorded fc st = some rec := by
  unfold rpcForm2At at hh
  res_ok' at hh
  exact rpcForm2Body_ok (by simpa using hh.2)

theorem rpcForm2_window_current_partial {rh expUH h1 h2 : Nat} {fc : Rev} {st : Settings} {rec : Recorded}
    (hh : rpcForm2At true rh fc expUH h1 h2 st sg = .ok rec) (hn : h2 + st.maxDuration + st.windowSize < U64) :
    h2 + st.windowSize ≤ fc.wStart ∧ fc.wStart ≤ h2 + st.maxDuration ∧ fc.wStart + st.windowSize ≤ fc.wEnd := by
  unfold rpcForm2At rpcForm2Body at hh
  res_ok' at hh
  obtain ⟨_, _, _, c, hc, _⟩ := hh
  exact formation_window_partial (by simpa using hc) hn

theorem rpcRenew2Body_ok {fx : Bool} {rh expUH hv : Nat} {e r : Rev} {fv : List Nat} {st : Settings} {rec : Recorded}
    (hh : rpcRenew2Body fx rh e r fv expUH hv st sg = .ok rec) :
    r.wStart < rh ∧ (∀ cl ∈ contractClauses r hv st (baseCost st.storagePrice e r) rec.locked, cl.2 = true) ∧
    renew2Recorded e r fv st = some rec := by
  -- the body with the rpcLoop check in front is `rpcRenew2` at a height below the require height … or not; prove directly
  unfold rpcRenew2Body at hh
  res_ok' at hh
  obtain ⟨_, hrh, _, clearing, hclr, evr, _, fp, hfp, ⟨b1, b2⟩, hbase, ⟨a, b, c⟩, hval, storage, ⟨hsub, rfl⟩, _, _, tot, _, rfl⟩ := hh
  obtain ⟨rfl, rfl⟩ := renewBase_ok hbase
  obtain ⟨vh, mh, void, sf, hle, hburn, hvoid, hb, hmc, rfl, rfl, rfl⟩ := validateRenewal2_ok hval
  obtain ⟨x, y, r1, r2, hv', hm⟩ := sf.shape
  obtain ⟨cvh, fvh, hcvh, hfvh, rfl, _⟩ := validateClearing_returns hfp
  have hc := clearingRevision_ok hclr
  refine ⟨hrh, contractClauses_of_facts sf.w1 sf.w2 sf.w3 hv' hm sf.a1 sf.a2 sf.a3 hmc hb, ?_⟩
  have hfv : ∃ f0 rest, fv = f0 :: fvh :: rest := by
    have h6 := hc.2.2.2.2.2.1
    cases hcv : clearing.valid with
    | nil => rw [hcv] at hfvh; simp [hostVal] at hfvh
    | cons o0 t =>
      cases t with
      | nil => rw [hcv] at hfvh; simp [hostVal] at hfvh
      | cons o1 t' =>
        rw [hcv] at hfvh h6
        simp [hostVal] at hfvh
        exact ⟨o0.val, vals t', by rw [← h6, ← hfvh]; simp⟩
  obtain ⟨f0, rest, rfl⟩ := hfv
  simp only [renew2Recorded, hv', hm, hostVal_cons, hcvh]
  congr 1
  simp only [Recorded.mk.injEq]
  refine ⟨by trivial, by trivial, by omega, by trivial, by trivial⟩

/-- **rpcRenewAndClearContract validates against the CURRENT height** -/
theorem rpcRenew2_uses_current_height {fx : Bool} {rh expUH h1 h2 : Nat} {e r : Rev} {fv : List Nat} {st : Settings}
    {rec : Recorded} (hh : rpcRenew2At fx true rh e r fv expUH h1 h2 st sg = .ok rec) :
    r.wStart < rh ∧ (∀ cl ∈ contractClauses r h2 st (baseCost st.storagePrice e r) rec.locked, cl.2 = true) ∧
    renew2Recorded e r fv st = some rec := by
  unfold rpcRenew2At at hh
  res_ok' at hh
  exact rpcRenew2Body_ok (by simpa using hh.2)

/-- the stale-height shape (seed C12-e): the validator is handed the height captured when the RPC id arrived.
One block connects while the host waits for the request body (1000 -> 1001): a formation whose window starts
at 1144 = 1000 + 144 is accepted although 1144 < 1001 + 144; the code as it is refuses it. -/
theorem stale_height_witness :
    rpcForm2At false U64 exForm 10 1000 1001 exSettings ⟨true, true⟩
      = .ok { locked := 500, rpcRevenue := 200, storageRevenue := 0, risked := 0, clearingRPC := 0 } ∧
    ("window_start_not_too_soon", false) ∈ contractClauses exForm 1001 exSettings 0 500 ∧
    rpcForm2At true U64 exForm 10 1000 1001 exSettings ⟨true, true⟩ = .reject .tooSoon ∧
    -- the same for a renewal
    (rpcRenew2At false false U64 exExisting exRenewal [4999, 701] 10 1000 1001 { exSettings with maxCollateral := 2000000 } ⟨true, true⟩).isOk = true ∧
    rpcRenew2At false true U64 exExisting exRenewal [4999, 701] 10 1000 1001 { exSettings with maxCollateral := 2000000 } ⟨true, true⟩
      = .reject .tooSoon := by
  decide +kernel

/-- RHP3 by design validates against the price table the renter pays with: `height` of `rpcRenew3` is
`pt.HostBlockHeight`, the tip when the table was issued.  If the tip has moved on since (at most for the validity
of the table), the window is measured from the table's height, not from the tip: -/
theorem rpcRenew3_pricetable_height_witness :
    (rpcRenew3 false U64 exExisting exClearing exRenewal 10 1000 { exSettings with maxCollateral := 5000000 } ⟨true, true⟩).isOk = true ∧
    ("window_start_not_too_soon", false) ∈
      contractClauses exRenewal 1001 { exSettings with maxCollateral := 5000000 } (7 + baseCost 3 exExisting exRenewal) 1001521 := by
  decide +kernel

/-! ### the proof window end must be storable (heights are stored as int64; /repo c506708) -/

/-- **an accepted formation has a window end the contract store can record** -/
theorem rpcForm2_window_end_storable {b : Bool} {rh expUH h1 h2 : Nat} {fc : Rev} {st : Settings} {rec : Recorded}
    (hh : rpcForm2At b rh fc expUH h1 h2 st sg = .ok rec) : fc.wEnd ≤ maxStorable := by
  unfold rpcForm2At rpcForm2Body at hh
  res_ok' at hh
  exact hh.2.2.1

theorem rpcRenew2_window_end_storable {fx b : Bool} {rh expUH h1 h2 : Nat} {e r : Rev} {fv : List Nat} {st : Settings}
    {rec : Recorded} (hh : rpcRenew2At fx b rh e r fv expUH h1 h2 st sg = .ok rec) : r.wEnd ≤ maxStorable := by
  unfold rpcRenew2At rpcRenew2Body at hh
  res_ok' at hh
  exact hh.2.2.2.1

theorem rpcRenew3_window_end_storable {fx : Bool} {rh expUH h : Nat} {e k r : Rev} {st : Settings} {rec : Recorded}
    (hh : rpcRenew3 fx rh e k r expUH h st sg = .ok rec) : r.wEnd ≤ maxStorable := by
  unfold rpcRenew3 at hh
  res_ok' at hh
  exact hh.2.1

/-- without the guard: the validators themselves accept a window end of 2^64−1 (nothing bounds it from above),
the handlers refuse it; 2^63−1 is still accepted -/
theorem window_end_guard_witness :
    validateFormation { exForm with wEnd := U64 - 1 } 10 1000 exSettings = .ok 500 ∧
    rpcForm2 U64 { exForm with wEnd := U64 - 1 } 10 1000 exSettings ⟨true, true⟩ = .reject .windowEndUnstorable ∧
    rpcForm2 U64 { exForm with wEnd := maxStorable + 1 } 10 1000 exSettings ⟨true, true⟩ = .reject .windowEndUnstorable ∧
    (rpcForm2 U64 { exForm with wEnd := maxStorable } 10 1000 exSettings ⟨true, true⟩).isOk = true ∧
    rpcRenew3 true U64 exExisting exClearing { exRenewal with wEnd := U64 - 1 } 10 1000 exSettings ⟨true, true⟩
      = .reject .windowEndUnstorable := by
  decide +kernel

end Hostd.Revision
