import Hostd.Lemmas.ChainAlg
/-!
C05 — Aggregate metrics always equal recomputation from the contracts.

`MInv s : s.m = recompute s.cs` is proved to be preserved by every operation of the model, for any
transition table whose cells are metric-correct (`CellsOK`), and `CellsOK codeTable` is proved by
case analysis over all (version, function, prior status) cells.  Under `MInv` no metric subtraction
underflows (the "negative stat" panic of metrics.go is unreachable).
-/
namespace Hostd.Chain

def MInv (s : State) : Prop := s.m = recompute s.cs

/-- A table cell is metric-correct when, started from metrics that contain the contract's current
contribution, its helper calls neither underflow nor leave anything but the contribution of the
contract in its new status. -/
def CellsOK (T : Table) : Prop :=
  ∀ (c : Contract) (fn : Fn) (g : Go) (rest : Metrics), T c.ver fn c.status = .go g →
    fireM T fn c ((contrib c).add rest) = .ok ((contrib { c with status := g.target }).add rest)

set_option maxRecDepth 4000 in
theorem codeTable_cellsOK : CellsOK codeTable := by
  intro c fn g rest h
  obtain ⟨id, ver, status, confirmed, confH, resH, rev, confRev, neg, wStart, wEnd, locked, usage⟩ := c
  cases ver <;> cases fn <;> cases status <;> simp [codeTable] at h <;> subst h <;>
    simp [fireM, codeTable, countMove, countGet, countSet, metricOps, metricOp, contrib, Metrics.add,
      bind, Except.bind, pure, Except.pure] <;>
    (try simp [Rev6.add, Nat.add_comm]) <;> (try omega)


theorem contrib_congr {c c' : Contract} (h1 : c'.status = c.status) (h2 : c'.locked = c.locked)
    (h3 : c'.usage = c.usage) : contrib c' = contrib c := by
  unfold contrib; rw [h1, h2, h3]

/-- an operation preserves the metrics invariant -/
def Pres (f : State → Except Fault State) : Prop :=
  ∀ s s', MInv s → f s = .ok s' → MInv s'

theorem Pres.bind {f g : State → Except Fault State} (hf : Pres f) (hg : Pres g) :
    Pres (fun s => f s >>= g) := by
  intro s s' hs h
  cases hfs : f s with
  | error e =>
    change f s >>= g = _ at h
    rw [hfs] at h
    have h' : (Except.error e : Except Fault State) = Except.ok s' := h
    cases h'
  | ok s1 =>
    change f s >>= g = _ at h
    rw [hfs] at h
    have h' : g s1 = Except.ok s' := h
    exact hg s1 s' (hf s s1 hs hfs) h'

theorem Pres.pure : Pres (fun s => Except.ok s) := by
  intro s s' hs h; cases h; exact hs

/-- the contract part of a transition changes nothing the contribution depends on except the status -/
theorem fireC_contrib {T : Table} {fn : Fn} {h : Nat} {c c' : Contract} (hc : fireC T fn h c = .ok c') :
    (c'.ver = c.ver ∧ c'.id = c.id) ∧
    ((T c.ver fn c.status = .skip ∧ c' = c) ∨
     (∃ g, T c.ver fn c.status = .go g ∧ contrib c' = contrib { c with status := g.target })) := by
  unfold fireC at hc
  split at hc
  · cases hc; exact ⟨⟨rfl, rfl⟩, Or.inl ⟨by assumption, rfl⟩⟩
  · cases hc
  · cases hc
  · rename_i g hg
    cases hc
    exact ⟨⟨rfl, rfl⟩, Or.inr ⟨g, hg, contrib_congr rfl rfl rfl⟩⟩

theorem fire_pres {T : Table} (hT : CellsOK T) (ver : Ver) (fn : Fn) (h : Nat) (id : Nat) :
    Pres (fun s => fire T ver fn h s id) := by
  intro s s' hs hf
  simp only [fire] at hf
  split at hf
  · cases hf
  · rename_i c hfind
    simp only [bind, Except.bind] at hf
    split at hf
    · cases hf
    · rename_i c' hc
      split at hf
      · cases hf
      · rename_i m' hm
        cases hf
        obtain ⟨hv, hi⟩ := findC_some_ver_id hfind
        obtain ⟨⟨hv', hi'⟩, hcase⟩ := fireC_contrib hc
        obtain ⟨rest, hr1, hr2⟩ := recompute_setC (c' := c') hfind (by rw [hv', hv]) (by rw [hi', hi])
        unfold MInv at hs ⊢
        simp only
        rw [hr2]
        rw [hs, hr1] at hm
        rcases hcase with ⟨hskip, rfl⟩ | ⟨g, hg, hcon⟩
        · simp [fireM, hskip] at hm
          rw [← hm]
        · rw [hT c fn g rest hg] at hm
          cases hm
          rw [hcon]

/-- under the invariant the metric part of a transition never hits the negative-stat guard -/
theorem fireM_no_underflow {T : Table} (hT : CellsOK T) {s : State} (hs : MInv s) {ver : Ver} {id : Nat}
    {c : Contract} (hfind : findC ver id s.cs = some c) (fn : Fn) :
    ∃ m', fireM T fn c s.m = .ok m' := by
  obtain ⟨rest, hr1, _⟩ := recompute_setC (c' := c) hfind (findC_some_ver_id hfind).1 (findC_some_ver_id hfind).2
  unfold MInv at hs
  rw [hs, hr1]
  cases hcell : T c.ver fn c.status with
  | go g => exact ⟨_, hT c fn g rest hcell⟩
  | skip => exact ⟨(contrib c).add rest, by simp [fireM, hcell]⟩
  | panic => exact ⟨(contrib c).add rest, by simp [fireM, hcell]⟩
  | error => exact ⟨(contrib c).add rest, by simp [fireM, hcell]⟩

theorem fireAll_pres {T : Table} (hT : CellsOK T) (ver : Ver) (fn : Fn) (h : Nat) (ids : List Nat) :
    Pres (fireAll T ver fn h ids) := by
  induction ids with
  | nil => intro s s' hs hf; simp [fireAll] at hf; cases hf; exact hs
  | cons id rest ih =>
    intro s s' hs hf
    simp only [fireAll, bind, Except.bind] at hf
    split at hf
    · cases hf
    · rename_i s1 h1
      exact ih s1 s' (fire_pres hT ver fn h id s s1 hs h1) hf

/-- an update of a contract that leaves status, collateral and usage alone preserves the invariant -/
theorem setC_same_contrib_pres {s : State} {ver : Ver} {id : Nat} {c c' : Contract}
    (hs : MInv s) (hfind : findC ver id s.cs = some c) (hv : c'.ver = c.ver) (hi : c'.id = c.id)
    (hcon : contrib c' = contrib c) : MInv { s with cs := setC c' s.cs } := by
  obtain ⟨hv0, hi0⟩ := findC_some_ver_id hfind
  obtain ⟨rest, hr1, hr2⟩ := recompute_setC (c' := c') hfind (by rw [hv, hv0]) (by rw [hi, hi0])
  unfold MInv at hs ⊢
  simp only
  rw [hr2, hcon, ← hr1, hs]

theorem setConfRev_pres (ver : Ver) (x : Nat × Nat) : Pres (fun s => setConfRev ver s x) := by
  intro s s' hs hf
  simp only [setConfRev] at hf
  split at hf
  · cases hf
  · rename_i c hfind
    cases hf
    have hk : (setRev c x.2).ver = c.ver ∧ (setRev c x.2).id = c.id ∧ contrib (setRev c x.2) = contrib c := by
      unfold setRev; cases c.ver <;> exact ⟨rfl, rfl, contrib_congr rfl rfl rfl⟩
    exact setC_same_contrib_pres hs hfind hk.1 hk.2.1 hk.2.2

theorem setConfRevAll_pres (ver : Ver) (xs : List (Nat × Nat)) : Pres (setConfRevAll ver xs) := by
  induction xs with
  | nil => intro s s' hs hf; simp [setConfRevAll] at hf; cases hf; exact hs
  | cons x rest ih =>
    intro s s' hs hf
    simp only [setConfRevAll, bind, Except.bind] at hf
    split at hf
    · cases hf
    · rename_i s1 h1
      exact ih s1 s' (setConfRev_pres ver x s s1 hs h1) hf

theorem upsertElem_pres (x : Nat × Nat) : Pres (fun s => upsertElem s x) := by
  intro s s' hs hf
  simp only [upsertElem] at hf
  split at hf
  · cases hf
  · rename_i c hfind
    cases hf
    exact setC_same_contrib_pres hs hfind rfl rfl (contrib_congr rfl rfl rfl)

theorem deleteElem_pres (id : Nat) : Pres (fun s => deleteElem s id) := by
  intro s s' hs hf
  simp only [deleteElem] at hf
  split at hf
  · cases hf
  · rename_i c hfind
    cases hf
    exact setC_same_contrib_pres hs hfind rfl rfl (contrib_congr rfl rfl rfl)

theorem formV2All_pres {T : Table} (hT : CellsOK T) (h : Nat) (xs : List (Nat × Nat)) :
    Pres (formV2All T h xs) := by
  induction xs with
  | nil => intro s s' hs hf; simp [formV2All] at hf; cases hf; exact hs
  | cons x rest ih =>
    intro s s' hs hf
    simp only [formV2All, bind, Except.bind] at hf
    split at hf
    · cases hf
    · rename_i s1 h1
      split at hf
      · cases hf
      · rename_i s2 h2
        exact ih s2 s' (fire_pres hT .v2 .aForm h x.1 s1 s2 (upsertElem_pres x s s1 hs h1) h2) hf

theorem unformV2All_pres {T : Table} (hT : CellsOK T) (h : Nat) (ids : List Nat) :
    Pres (unformV2All T h ids) := by
  induction ids with
  | nil => intro s s' hs hf; simp [unformV2All] at hf; cases hf; exact hs
  | cons x rest ih =>
    intro s s' hs hf
    simp only [unformV2All, bind, Except.bind] at hf
    split at hf
    · cases hf
    · rename_i s1 h1
      split at hf
      · cases hf
      · rename_i s2 h2
        exact ih s2 s' (fire_pres hT .v2 .rForm h x s1 s2 (deleteElem_pres x s s1 hs h1) h2) hf

theorem applyContracts_pres {T : Table} (hT : CellsOK T) (h : Nat) (ch : Changes) :
    Pres (applyContracts T h ch) := by
  unfold applyContracts
  exact (fireAll_pres hT .v1 .aForm h ch.form1).bind <| (setConfRevAll_pres .v1 ch.rev1).bind <|
    (fireAll_pres hT .v1 .aSucc h ch.succ1).bind <| (fireAll_pres hT .v1 .aFail h ch.fail1).bind <|
    (formV2All_pres hT h ch.form2).bind <| (setConfRevAll_pres .v2 ch.rev2).bind <|
    (fireAll_pres hT .v2 .aSucc h ch.succ2).bind <| (fireAll_pres hT .v2 .aRenew h ch.renew2).bind <|
    (fireAll_pres hT .v2 .aFail h ch.fail2)

theorem revertContracts_pres {T : Table} (hT : CellsOK T) (h : Nat) (ch : Changes) :
    Pres (revertContracts T h ch) := by
  unfold revertContracts
  exact (fireAll_pres hT .v1 .rForm h ch.form1).bind <| (setConfRevAll_pres .v1 ch.rev1).bind <|
    (fireAll_pres hT .v1 .rSucc h ch.succ1).bind <| (fireAll_pres hT .v1 .rFail h ch.fail1).bind <|
    (unformV2All_pres hT h _).bind <| (setConfRevAll_pres .v2 ch.rev2).bind <|
    (fireAll_pres hT .v2 .rSucc h ch.succ2).bind <| (fireAll_pres hT .v2 .rRenew h ch.renew2).bind <|
    (fireAll_pres hT .v2 .rFail h ch.fail2)

theorem rejectContracts_pres {T : Table} (hT : CellsOK T) (height : Nat) :
    Pres (rejectContracts T height) := by
  intro s s' hs hf
  unfold rejectContracts at hf
  exact ((fireAll_pres hT .v1 .reject 0 (rejectIds .v1 height s.cs)).bind
    (fireAll_pres hT .v2 .reject 0 (rejectIds .v2 height s.cs))) s s' hs hf

theorem applyBlock_pres {T : Table} (hT : CellsOK T) (rb h : Nat) (ch : Changes) :
    Pres (applyBlock T rb h ch) := by
  unfold applyBlock
  apply (applyContracts_pres hT h ch).bind
  intro s s' hs hf
  split at hf
  · exact rejectContracts_pres hT _ s s' hs hf
  · cases hf; exact hs

/-- usage increments are routed to the bucket the contract's status selects -/
theorem addUsage_pres (ver : Ver) (id newRev : Nat) (u : Usage) : Pres (addUsage ver id newRev u) := by
  intro s s' hs hf
  simp only [addUsage] at hf
  split at hf
  · cases hf
  · rename_i c hfind
    cases hf
    obtain ⟨hv0, hi0⟩ := findC_some_ver_id hfind
    obtain ⟨rest, hr1, hr2⟩ := recompute_setC (c' := { c with rev := newRev, usage := c.usage.add u }) hfind hv0 hi0
    unfold MInv at hs ⊢
    simp only
    rw [hr2, hs, hr1]
    obtain ⟨id, ver', status, confirmed, confH, resH, rev, confRev, neg, wStart, wEnd, locked, usage⟩ := c
    simp only at hv0
    subst hv0
    cases status <;> cases ver' <;>
      simp [contrib, Metrics.add, Usage.add, Usage.rev6, Rev6.add] <;> (try omega)

theorem addContract_pres (c : Contract) : Pres (addContract c) := by
  intro s s' hs hf
  simp only [addContract] at hf
  split at hf
  · cases hf
  · cases hf
    unfold MInv at hs ⊢
    simp only
    rw [hs]
    generalize s.cs = cs
    induction cs with
    | nil => simp [recompute, contrib, Metrics.add, Rev6.add]
    | cons x xs ih => simp [recompute, ih]

theorem resetChain_pres (s : State) (hs : MInv s) : MInv (resetChain s) := by
  unfold MInv resetChain at *
  simp only
  rw [hs]
  generalize s.cs = cs
  induction cs with
  | nil => rfl
  | cons x xs ih =>
    simp only [List.map, recompute, ih]
    congr 1
    split
    · exact (contrib_congr rfl rfl rfl).symm
    · rfl

/-! ### every history -/

/-- the operations of the chain engine -/
inductive Op where
  | add (c : Contract)
  | apply (h : Nat) (ch : Changes)
  | revert (h : Nat) (ch : Changes)
  | reject (height : Nat)
  | usage (ver : Ver) (id rev : Nat) (u : Usage)
  | resetChain

/-- one operation; a faulting operation is rolled back (the state is unchanged) -/
def stepOp (T : Table) (rb : Nat) (s : State) : Op → State
  | .add c => match addContract c s with | .ok s' => s' | .error _ => s
  | .apply h ch => match applyBlock T rb h ch s with | .ok s' => s' | .error _ => s
  | .revert h ch => match revertContracts T h ch s with | .ok s' => s' | .error _ => s
  | .reject height => match rejectContracts T height s with | .ok s' => s' | .error _ => s
  | .usage ver id rev u => match addUsage ver id rev u s with | .ok s' => s' | .error _ => s
  | .resetChain => resetChain s

def runOps (T : Table) (rb : Nat) (s : State) (ops : List Op) : State := ops.foldl (stepOp T rb) s

theorem stepOp_MInv {T : Table} (hT : CellsOK T) (rb : Nat) (s : State) (op : Op) (hs : MInv s) :
    MInv (stepOp T rb s op) := by
  cases op with
  | add c => simp only [stepOp]; split; exact addContract_pres c s _ hs ‹_›; exact hs
  | apply h ch => simp only [stepOp]; split; exact applyBlock_pres hT rb h ch s _ hs ‹_›; exact hs
  | revert h ch => simp only [stepOp]; split; exact revertContracts_pres hT h ch s _ hs ‹_›; exact hs
  | reject height => simp only [stepOp]; split; exact rejectContracts_pres hT height s _ hs ‹_›; exact hs
  | usage ver id rev u => simp only [stepOp]; split; exact addUsage_pres ver id rev u s _ hs ‹_›; exact hs
  | resetChain => exact resetChain_pres s hs

/-- **C05**: after any history of chain applies/reverts/rejections (well-formed or not), contract
additions, usage updates in any status and chain resets, the metrics equal the recomputation
from the contract list. -/
theorem C05_metrics_eq_recompute {T : Table} (hT : CellsOK T) (rb : Nat) (ops : List Op) (s : State)
    (hs : MInv s) : MInv (runOps T rb s ops) := by
  induction ops generalizing s with
  | nil => exact hs
  | cons op rest ih => exact ih _ (stepOp_MInv hT rb s op hs)

/-- C05 for the code's table, from the empty store. -/
theorem C05_code (rb : Nat) (ops : List Op) :
    (runOps codeTable rb {} ops).m = recompute (runOps codeTable rb {} ops).cs :=
  C05_metrics_eq_recompute codeTable_cellsOK rb ops {} rfl

/-- **C05, no negative metric**: in every reachable state the metric part of any transition on any
stored contract succeeds, i.e. the negative-stat guard (which would abort the host) cannot fire. -/
theorem C05_no_negative (rb : Nat) (ops : List Op) (ver : Ver) (id : Nat) (c : Contract) (fn : Fn)
    (hfind : findC ver id (runOps codeTable rb {} ops).cs = some c) :
    ∃ m', fireM codeTable fn c (runOps codeTable rb {} ops).m = .ok m' :=
  fireM_no_underflow codeTable_cellsOK (C05_metrics_eq_recompute codeTable_cellsOK rb ops {} rfl) hfind fn

/-! ### non-vacuity -/

def exC : Contract := { id := 1, ver := .v1, neg := 0, wStart := 5, wEnd := 9, rev := 1, locked := 7,
                        usage := { rpc := 3, storage := 4, regRead := 2, risked := 1 } }
def exOps : List Op :=
  [.add exC, .apply 1 { form1 := [1] }, .usage .v1 1 2 { egress := 5, regWrite := 1 },
   .apply 6 { succ1 := [1] }, .revert 6 { succ1 := [1] }]

example : (runOps codeTable 3 {} exOps).m =
    { active := 1, locked := 7, risked := 1, pot := { rpc := 3, storage := 4, egress := 5, regRead := 2, regWrite := 1 } } := by
  decide

end Hostd.Chain
