import Hostd.Model.Lock
/-!
C15 — Contract locks are exclusive, hand off to one waiter, and never leak.

All theorems are about `Hostd.Lock` (the transition system the driver replays
the real locker's event sequences on).  They hold for every reachable state,
any number of threads, any number of contract ids, every interleaving of the
critical sections `lockFresh, lockWait, recv, cancelCommit, cancelFinish,
unlock` — in particular for cancellations racing with the hand-off token
(`cancelCommit t; unlock h; cancelFinish t`).
-/
namespace Hostd.Lock
set_option linter.unusedSimpArgs false

/-! ### helper lemmas -/

theorem cnt_set (p : PC → Bool) (l : List PC) (t : Nat) (old new : PC) (h : l[t]? = some old) :
    cnt p (l.set t new) + (if p old then 1 else 0) = cnt p l + (if p new then 1 else 0) := by
  induction l generalizing t with
  | nil => simp at h
  | cons x r ih =>
    cases t with
    | zero =>
      simp at h; subst h; simp [cnt]; omega
    | succ t =>
      simp at h; have := ih t h; simp [cnt]; omega

theorem stale_le (i g : Nat) (l : List PC) :
    cnt (PC.isStale i g) l ≤ cnt (PC.isWait i) l + cnt (PC.isCC i) l := by
  induction l with
  | nil => simp [cnt]
  | cons x r ih =>
    cases x <;> simp [cnt, PC.isStale, PC.isWait, PC.isCC] <;> (try split) <;> (try split) <;> omega

theorem cnt_replicate_idle (p : PC → Bool) (hp : p .idle = false) (n : Nat) :
    cnt p (List.replicate n .idle) = 0 := by
  induction n with
  | zero => rfl
  | succ n ih => simp [List.replicate, cnt, hp, ih]

theorem cnt_pos_of_mem (p : PC → Bool) (l : List PC) (t : Nat) (x : PC) (h : l[t]? = some x) (hp : p x = true) :
    1 ≤ cnt p l := by
  induction l generalizing t with
  | nil => simp at h
  | cons y r ih =>
    cases t with
    | zero => simp at h; subst h; simp [cnt, hp]
    | succ t => simp at h; have := ih t h; simp [cnt]; omega

theorem cnt_zero_all (p : PC → Bool) (l : List PC) (h : ∀ x ∈ l, p x = false) : cnt p l = 0 := by
  induction l with
  | nil => rfl
  | cons y r ih =>
    have h1 := h y (by simp)
    have h2 := ih (fun x hx => h x (by simp [hx]))
    simp [cnt, h1, h2]

/-- two different positions satisfying `p` ⇒ count ≥ 2 -/
theorem cnt_two (p : PC → Bool) (l : List PC) (t u : Nat) (x y : PC) (hne : t ≠ u)
    (hx : l[t]? = some x) (hy : l[u]? = some y) (px : p x = true) (py : p y = true) : 2 ≤ cnt p l := by
  induction l generalizing t u with
  | nil => simp at hx
  | cons z r ih =>
    cases t with
    | zero =>
      cases u with
      | zero => exact absurd rfl hne
      | succ u =>
        simp at hx hy; subst hx
        have := cnt_pos_of_mem p r u y hy py
        simp [cnt, px]; omega
    | succ t =>
      cases u with
      | zero =>
        simp at hx hy; subst hy
        have := cnt_pos_of_mem p r t x hx px
        simp [cnt, py]; omega
      | succ u =>
        simp at hx hy
        have := ih t u (by omega) hx hy
        simp [cnt]; omega

/-! ### the invariant -/

/-- What the locker guarantees about contract `i`. -/
def InvAt (s : State) (i : Nat) : Prop :=
  match s.ent i with
  | none => holders s i = 0 ∧ waiters s i = 0 ∧ cancelling s i = 0
  | some g =>
      holders s i + (s.obj i g).tokens = 1 ∧
      (s.obj i g).n = ((holders s i + waiters s i + cancelling s i : Nat) : Int) ∧
      1 ≤ (s.obj i g).n ∧
      stale s i g = 0

def Invariant (s : State) : Prop := ∀ i, InvAt s i

/-- States reachable from `newLocker()` with `n` callers by any schedule. -/
inductive Reachable (n : Nat) : State → Prop
  | init : Reachable n (init n)
  | step {s s' : State} {a : Act} : Reachable n s → step s a = .ok s' → Reachable n s'

theorem init_invariant (n : Nat) : Invariant (init n) := by
  intro i
  simp only [InvAt, init, holders, waiters, cancelling]
  exact ⟨cnt_replicate_idle _ rfl n, cnt_replicate_idle _ rfl n, cnt_replicate_idle _ rfl n⟩

/-- bundle of the count changes caused by `pcs.set t new` -/
theorem cnts (l : List PC) (t : Nat) (old new : PC) (h : l[t]? = some old) (i : Nat) :
    (cnt (PC.isHold i) (l.set t new) + (if old.isHold i then 1 else 0)
        = cnt (PC.isHold i) l + (if new.isHold i then 1 else 0)) ∧
    (cnt (PC.isWait i) (l.set t new) + (if old.isWait i then 1 else 0)
        = cnt (PC.isWait i) l + (if new.isWait i then 1 else 0)) ∧
    (cnt (PC.isCC i) (l.set t new) + (if old.isCC i then 1 else 0)
        = cnt (PC.isCC i) l + (if new.isCC i then 1 else 0)) ∧
    (∀ g, cnt (PC.isStale i g) (l.set t new) + (if old.isStale i g then 1 else 0)
        = cnt (PC.isStale i g) l + (if new.isStale i g then 1 else 0)) :=
  ⟨cnt_set _ l t old new h, cnt_set _ l t old new h, cnt_set _ l t old new h,
   fun _ => cnt_set _ l t old new h⟩


/-- simp set that exposes the counts of a state built by `step` -/
macro "lock_simp" : tactic =>
  `(tactic| simp [InvAt, setPc, setEnt, setObj, holders, waiters, cancelling, stale, PC.isHold, PC.isWait,
        PC.isCC, PC.isStale, chanCap] at *)

theorem step_preserves (s s' : State) (a : Act) (h : step s a = .ok s') (inv : Invariant s) :
    Invariant s' := by
  intro i
  have invi := inv i
  cases a with
  | lockFresh t id =>
    simp only [step] at h
    split at h <;> try contradiction
    rename_i hpc
    split at h <;> try contradiction
    rename_i hent
    injection h with h; subst h
    obtain ⟨cH, cW, cC, cS⟩ := cnts s.pcs t _ (.holding id) hpc i
    have sl := stale_le i (s.next id) s.pcs
    by_cases hi : i = id
    · subst hi
      have cS' := cS (s.next i)
      simp only [InvAt, hent] at invi
      lock_simp
      omega
    · have hi' : ¬ id = i := fun e => hi e.symm
      simp [InvAt, setPc, setEnt, setObj, holders, waiters, cancelling, stale, PC.isHold, PC.isWait,
        PC.isCC, PC.isStale, hi, hi'] at *
      simp only [cH, cW, cC, cS]; exact invi
  | lockWait t id =>
    simp only [step] at h
    split at h <;> try contradiction
    rename_i hpc
    split at h <;> try contradiction
    rename_i g hent
    injection h with h; subst h
    obtain ⟨cH, cW, cC, cS⟩ := cnts s.pcs t _ (.waiting id g) hpc i
    by_cases hi : i = id
    · subst hi
      have cS' := cS g
      simp only [InvAt, hent] at invi
      lock_simp
      simp [hent]
      omega
    · have hi' : ¬ id = i := fun e => hi e.symm
      simp [InvAt, setPc, setEnt, setObj, holders, waiters, cancelling, stale, PC.isHold, PC.isWait,
        PC.isCC, PC.isStale, hi, hi'] at *
      simp only [cH, cW, cC, cS]; exact invi
  | recv t =>
    simp only [step] at h
    split at h <;> try contradiction
    rename_i id g hpc
    split at h <;> try contradiction
    rename_i htok
    injection h with h; subst h
    obtain ⟨cH, cW, cC, cS⟩ := cnts s.pcs t _ (.holding id) hpc i
    by_cases hi : i = id
    · subst hi
      cases hent : s.ent i with
      | none =>
        -- a waiter exists, so the entry cannot be absent
        have hw := cnt_pos_of_mem (PC.isWait i) s.pcs t _ hpc (by simp [PC.isWait])
        simp only [InvAt, hent] at invi
        lock_simp
        omega
      | some g' =>
        have hgg : g = g' := by
          -- the waiter's pointer is the current object
          apply Classical.byContradiction; intro hne
          have hs := cnt_pos_of_mem (PC.isStale i g') s.pcs t _ hpc (by simp [PC.isStale, hne])
          simp only [InvAt, hent] at invi
          lock_simp
          omega
        subst hgg
        have cS' := cS g
        simp only [InvAt, hent] at invi
        lock_simp
        simp [hent]
        omega
    · have hi' : ¬ id = i := fun e => hi e.symm
      simp [InvAt, setPc, setEnt, setObj, holders, waiters, cancelling, stale, PC.isHold, PC.isWait,
        PC.isCC, PC.isStale, hi, hi'] at *
      simp only [cH, cW, cC, cS]; exact invi
  | cancelCommit t =>
    simp only [step] at h
    split at h <;> try contradiction
    rename_i id g hpc
    injection h with h; subst h
    obtain ⟨cH, cW, cC, cS⟩ := cnts s.pcs t _ (.cancelCommitted id g) hpc i
    by_cases hi : i = id
    · subst hi
      cases hent : s.ent i with
      | none =>
        have hw := cnt_pos_of_mem (PC.isWait i) s.pcs t _ hpc (by simp [PC.isWait])
        simp only [InvAt, hent] at invi
        lock_simp
        omega
      | some g' =>
        have cS' := cS g'
        simp only [InvAt, hent] at invi
        lock_simp
        simp [hent]
        omega
    · have hi' : ¬ id = i := fun e => hi e.symm
      simp [InvAt, setPc, setEnt, setObj, holders, waiters, cancelling, stale, PC.isHold, PC.isWait,
        PC.isCC, PC.isStale, hi, hi'] at *
      simp only [cH, cW, cC, cS]; exact invi
  | cancelFinish t =>
    simp only [step] at h
    split at h <;> try contradiction
    rename_i id g hpc
    injection h with h; subst h
    obtain ⟨cH, cW, cC, cS⟩ := cnts s.pcs t _ .idle hpc i
    by_cases hi : i = id
    · subst hi
      cases hent : s.ent i with
      | none =>
        have hw := cnt_pos_of_mem (PC.isCC i) s.pcs t _ hpc (by simp [PC.isCC])
        simp only [InvAt, hent] at invi
        lock_simp
        omega
      | some g' =>
        have hgg : g = g' := by
          apply Classical.byContradiction; intro hne
          have hs := cnt_pos_of_mem (PC.isStale i g') s.pcs t _ hpc (by simp [PC.isStale, hne])
          simp only [InvAt, hent] at invi
          lock_simp
          omega
        subst hgg
        have cS' := cS g
        have hcc := cnt_pos_of_mem (PC.isCC i) s.pcs t _ hpc (by simp [PC.isCC])
        simp only [InvAt, hent] at invi
        by_cases hz : (s.obj i g).n - 1 = 0
        · lock_simp
          simp [hz]
          omega
        · lock_simp
          simp [hz, hent]
          omega
    · have hi' : ¬ id = i := fun e => hi e.symm
      by_cases hz : (s.obj id g).n - 1 = 0
      · simp [InvAt, setPc, setEnt, setObj, holders, waiters, cancelling, stale, PC.isHold, PC.isWait,
          PC.isCC, PC.isStale, hi, hi', hz] at *
        simp only [cH, cW, cC, cS]; exact invi
      · simp [InvAt, setPc, setEnt, setObj, holders, waiters, cancelling, stale, PC.isHold, PC.isWait,
          PC.isCC, PC.isStale, hi, hi', hz] at *
        simp only [cH, cW, cC, cS]; exact invi
  | unlock t =>
    simp only [step] at h
    split at h <;> try contradiction
    rename_i id hpc
    split at h <;> try contradiction
    rename_i g hent
    obtain ⟨cH, cW, cC, cS⟩ := cnts s.pcs t _ .idle hpc i
    have hh := cnt_pos_of_mem (PC.isHold id) s.pcs t _ hpc (by simp [PC.isHold])
    split at h
    · rename_i hz
      injection h with h; subst h
      by_cases hi : i = id
      · subst hi
        have cS' := cS g
        simp only [InvAt, hent] at invi
        lock_simp
        omega
      · have hi' : ¬ id = i := fun e => hi e.symm
        simp [InvAt, setPc, setEnt, setObj, holders, waiters, cancelling, stale, PC.isHold, PC.isWait,
          PC.isCC, PC.isStale, hi, hi'] at *
        simp only [cH, cW, cC, cS]; exact invi
    · rename_i hz
      split at h <;> try contradiction
      rename_i hcap
      injection h with h; subst h
      by_cases hi : i = id
      · subst hi
        have cS' := cS g
        simp only [InvAt, hent] at invi
        lock_simp
        simp [hent]
        omega
      · have hi' : ¬ id = i := fun e => hi e.symm
        simp [InvAt, setPc, setEnt, setObj, holders, waiters, cancelling, stale, PC.isHold, PC.isWait,
          PC.isCC, PC.isStale, hi, hi'] at *
        simp only [cH, cW, cC, cS]; exact invi

/-! ### C15: the invariant holds in every reachable state -/

theorem reachable_invariant {n : Nat} {s : State} (h : Reachable n s) : Invariant s := by
  induction h with
  | init => exact init_invariant n
  | step _ hs ih => exact step_preserves _ _ _ hs ih

/-- Headline invariant: for every reachable state, any number of threads and ids:
entry present ⇒ holders + tokens = 1 ∧ n = holders + waiting + cancelCommitted ∧ n ≥ 1;
entry absent ⇒ nobody holds, waits or is cancelling. -/
theorem C15_invariant {n : Nat} {s : State} (h : Reachable n s) (i : Nat) :
    (∀ g, s.ent i = some g →
        holders s i + (s.obj i g).tokens = 1 ∧
        (s.obj i g).n = ((holders s i + waiters s i + cancelling s i : Nat) : Int) ∧
        1 ≤ (s.obj i g).n) ∧
    (s.ent i = none → holders s i = 0 ∧ waiters s i = 0 ∧ cancelling s i = 0) := by
  have inv := reachable_invariant h i
  constructor
  · intro g hg
    simp only [InvAt, hg] at inv
    exact ⟨inv.1, inv.2.1, inv.2.2.1⟩
  · intro hn
    simp only [InvAt, hn] at inv
    exact inv

/-- The pointer a waiting / cancelling thread kept across the unlocked window is
the object currently in the map: `l.n--` and `delete(lr.locks, id)` on the
cancel path always hit the same object. -/
theorem C15_pointer_never_stale {n : Nat} {s : State} (h : Reachable n s) (t i g : Nat)
    (ht : s.pcs[t]? = some (.waiting i g) ∨ s.pcs[t]? = some (.cancelCommitted i g)) :
    s.ent i = some g := by
  have inv := reachable_invariant h i
  cases hent : s.ent i with
  | none =>
    simp only [InvAt, hent] at inv
    rcases ht with ht | ht
    · have := cnt_pos_of_mem (PC.isWait i) s.pcs t _ ht (by simp [PC.isWait])
      simp only [waiters] at inv; omega
    · have := cnt_pos_of_mem (PC.isCC i) s.pcs t _ ht (by simp [PC.isCC])
      simp only [cancelling] at inv; omega
  | some g' =>
    simp only [InvAt, hent] at inv
    apply Classical.byContradiction; intro hne
    have hne' : ¬ g = g' := fun e => hne (by rw [e])
    rcases ht with ht | ht
    · have := cnt_pos_of_mem (PC.isStale i g') s.pcs t _ ht (by simp [PC.isStale, hne'])
      simp only [stale] at inv; omega
    · have := cnt_pos_of_mem (PC.isStale i g') s.pcs t _ ht (by simp [PC.isStale, hne'])
      simp only [stale] at inv; omega

/-! ### mutual exclusion -/

theorem C15_mutual_exclusion {n : Nat} {s : State} (h : Reachable n s) (i : Nat) : holders s i ≤ 1 := by
  have inv := reachable_invariant h i
  cases hent : s.ent i with
  | none => simp only [InvAt, hent] at inv; omega
  | some g => simp only [InvAt, hent] at inv; omega

/-- the same, about threads: two callers holding the lock of contract `i` are the same caller -/
theorem C15_mutual_exclusion_threads {n : Nat} {s : State} (h : Reachable n s) (i t u : Nat)
    (ht : s.pcs[t]? = some (.holding i)) (hu : s.pcs[u]? = some (.holding i)) : t = u := by
  apply Classical.byContradiction; intro hne
  have h2 := cnt_two (PC.isHold i) s.pcs t u _ _ hne ht hu (by simp [PC.isHold]) (by simp [PC.isHold])
  have h1 := C15_mutual_exclusion h i
  simp only [holders] at h1; omega

/-! ### Unlock by the holder never panics and its send never blocks -/

theorem C15_unlock_never_blocks {n : Nat} {s : State} (h : Reachable n s) (t i : Nat)
    (ht : s.pcs[t]? = some (.holding i)) : ∃ s', step s (.unlock t) = .ok s' := by
  have inv := reachable_invariant h i
  have hh := cnt_pos_of_mem (PC.isHold i) s.pcs t _ ht (by simp [PC.isHold])
  cases hent : s.ent i with
  | none => simp only [InvAt, hent, holders] at inv; omega
  | some g =>
    simp only [InvAt, hent, holders] at inv
    have htok : (s.obj i g).tokens = 0 := by omega
    simp only [step, ht, hent]
    by_cases hz : (s.obj i g).n - 1 = 0
    · simp [hz]
    · simp [hz, htok, chanCap]

/-- whenever somebody holds the lock the channel is empty (so the send has room) -/
theorem C15_holder_implies_channel_empty {n : Nat} {s : State} (h : Reachable n s) (i g : Nat)
    (hent : s.ent i = some g) (hh : 1 ≤ holders s i) : (s.obj i g).tokens = 0 := by
  have inv := reachable_invariant h i
  simp only [InvAt, hent] at inv; omega

/-! ### one unlock admits at most one waiter -/

/-- `1` when step `a` from `s` is an admission of a waiter of contract `i` (`<-l.ch` returned) -/
def admits (i : Nat) (s : State) : Act → Nat
  | .recv t => match s.pcs[t]? with
    | some (.waiting j _) => if j = i then 1 else 0
    | _ => 0
  | _ => 0

/-- `1` when step `a` from `s` is an `Unlock(i)` -/
def releasesAt (i : Nat) (s : State) : Act → Nat
  | .unlock t => match s.pcs[t]? with
    | some (.holding j) => if j = i then 1 else 0
    | _ => 0
  | _ => 0

def admissions (i : Nat) : State → List Act → Nat
  | _, [] => 0
  | s, a :: rest => match step s a with
    | .ok s' => admits i s a + admissions i s' rest
    | .error _ => 0

def releases (i : Nat) : State → List Act → Nat
  | _, [] => 0
  | s, a :: rest => match step s a with
    | .ok s' => releasesAt i s a + releases i s' rest
    | .error _ => 0

/-- Effect of one Unlock: the holder is gone, at most one token was added, the channel holds at most one. -/
theorem C15_unlock_adds_at_most_one_token {n : Nat} {s s' : State} (h : Reachable n s) (t i : Nat)
    (ht : s.pcs[t]? = some (.holding i)) (hs : step s (.unlock t) = .ok s') :
    holders s' i = 0 ∧ curTokens s' i ≤ curTokens s i + 1 ∧ curTokens s' i ≤ 1 := by
  have inv := reachable_invariant h i
  have inv' := reachable_invariant (Reachable.step h hs) i
  obtain ⟨cH, _, _, _⟩ := cnts s.pcs t _ .idle ht i
  have hh := cnt_pos_of_mem (PC.isHold i) s.pcs t _ ht (by simp [PC.isHold])
  simp only [step, ht] at hs
  cases hent : s.ent i with
  | none => simp only [InvAt, hent, holders] at inv; omega
  | some g =>
    simp only [hent] at hs
    simp only [InvAt, hent] at inv
    by_cases hz : (s.obj i g).n - 1 = 0
    · simp only [hz, if_true] at hs
      injection hs with hs; subst hs
      lock_simp
      simp [curTokens, hent, setEnt, setPc, setObj]
      omega
    · simp only [hz, if_false] at hs
      split at hs <;> try contradiction
      injection hs with hs; subst hs
      lock_simp
      simp [curTokens, hent, setEnt, setPc, setObj] at *
      omega

/-- one step: admissions are paid for by a token that an Unlock put there -/
theorem admit_step (i : Nat) (s s' : State) (a : Act) (inv : Invariant s) (hs : step s a = .ok s') :
    admits i s a + curTokens s' i ≤ releasesAt i s a + curTokens s i := by
  have invi := inv i
  cases a with
  | lockFresh t id =>
    simp only [step] at hs
    split at hs <;> try contradiction
    split at hs <;> try contradiction
    rename_i hent
    injection hs with hs; subst hs
    by_cases hi : i = id
    · subst hi; simp [admits, releasesAt, curTokens, setPc, setEnt, setObj, hent]
    · simp [admits, releasesAt, curTokens, setPc, setEnt, setObj, hi]
  | lockWait t id =>
    simp only [step] at hs
    split at hs <;> try contradiction
    split at hs <;> try contradiction
    rename_i g hent
    injection hs with hs; subst hs
    by_cases hi : i = id
    · subst hi; simp [admits, releasesAt, curTokens, setPc, setEnt, setObj, hent]
    · simp [admits, releasesAt, curTokens, setPc, setEnt, setObj, hi]
  | recv t =>
    simp only [step] at hs
    split at hs <;> try contradiction
    rename_i id g hpc
    split at hs <;> try contradiction
    rename_i htok
    injection hs with hs; subst hs
    by_cases hi : i = id
    · subst hi
      cases hent : s.ent i with
      | none =>
        have hw := cnt_pos_of_mem (PC.isWait i) s.pcs t _ hpc (by simp [PC.isWait])
        simp only [InvAt, hent, waiters] at invi; omega
      | some g' =>
        have hgg : g = g' := by
          apply Classical.byContradiction; intro hne
          have hs := cnt_pos_of_mem (PC.isStale i g') s.pcs t _ hpc (by simp [PC.isStale, hne])
          simp only [InvAt, hent, stale] at invi; omega
        subst hgg
        simp [admits, releasesAt, curTokens, setPc, setEnt, setObj, hent, hpc]
        omega
    · have hi' : ¬ id = i := fun e => hi e.symm
      cases hent : s.ent i <;> simp [admits, releasesAt, curTokens, setPc, setEnt, setObj, hi, hi', hpc, hent]
  | cancelCommit t =>
    simp only [step] at hs
    split at hs <;> try contradiction
    injection hs with hs; subst hs
    simp [admits, releasesAt, curTokens, setPc]
  | cancelFinish t =>
    simp only [step] at hs
    split at hs <;> try contradiction
    rename_i id g hpc
    injection hs with hs; subst hs
    by_cases hz : (s.obj id g).n - 1 = 0
    · by_cases hi : i = id
      · subst hi; simp [admits, releasesAt, curTokens, setPc, setEnt, setObj, hz]
      · cases hent : s.ent i <;> simp [admits, releasesAt, curTokens, setPc, setEnt, setObj, hz, hi, hent]
    · by_cases hi : i = id
      · subst hi
        cases hent : s.ent i with
        | none => simp [admits, releasesAt, curTokens, setPc, setEnt, setObj, hz, hent]
        | some g' =>
          by_cases hg : g' = g
          · subst hg; simp [admits, releasesAt, curTokens, setPc, setEnt, setObj, hz, hent]
          · simp [admits, releasesAt, curTokens, setPc, setEnt, setObj, hz, hent, hg]
      · cases hent : s.ent i <;> simp [admits, releasesAt, curTokens, setPc, setEnt, setObj, hz, hi, hent]
  | unlock t =>
    simp only [step] at hs
    split at hs <;> try contradiction
    rename_i id hpc
    split at hs <;> try contradiction
    rename_i g hent
    split at hs
    · rename_i hz
      injection hs with hs; subst hs
      by_cases hi : i = id
      · subst hi; simp [admits, releasesAt, curTokens, setPc, setEnt, setObj, hent, hpc]
      · have hi' : ¬ id = i := fun e => hi e.symm
        cases hent' : s.ent i <;>
          simp [admits, releasesAt, curTokens, setPc, setEnt, setObj, hi, hi', hpc, hent']
    · split at hs <;> try contradiction
      injection hs with hs; subst hs
      by_cases hi : i = id
      · subst hi; simp [admits, releasesAt, curTokens, setPc, setEnt, setObj, hent, hpc]; omega
      · have hi' : ¬ id = i := fun e => hi e.symm
        cases hent' : s.ent i <;>
          simp [admits, releasesAt, curTokens, setPc, setEnt, setObj, hi, hi', hpc, hent']

theorem admissions_le (i : Nat) (acts : List Act) (s s' : State) (inv : Invariant s)
    (he : exec s acts = some s') :
    admissions i s acts + curTokens s' i ≤ releases i s acts + curTokens s i := by
  induction acts generalizing s with
  | nil => simp [exec] at he; subst he; simp [admissions, releases]
  | cons a rest ih =>
    simp only [exec] at he
    cases hs : step s a with
    | error e => simp [hs] at he
    | ok s1 =>
      simp only [hs] at he
      have h1 := admit_step i s s1 a inv hs
      have h2 := ih s1 (step_preserves _ _ _ hs inv) he
      simp only [admissions, releases, hs]
      omega

/-- **One unlock admits at most one waiter**, over any window of any execution: from a
reachable state, along any schedule, the number of waiters of contract `i` that were
admitted is at most the number of `Unlock(i)` calls plus the token (at most one) that was
already in the channel. -/
theorem C15_one_unlock_one_waiter {n : Nat} {s s' : State} (h : Reachable n s) (i : Nat)
    (acts : List Act) (he : exec s acts = some s') :
    admissions i s acts ≤ releases i s acts + curTokens s i ∧ curTokens s i ≤ 1 := by
  have h1 := admissions_le i acts s s' (reachable_invariant h) he
  have inv := reachable_invariant h i
  refine ⟨by omega, ?_⟩
  cases hent : s.ent i with
  | none => simp [curTokens, hent]
  | some g => simp only [InvAt, hent] at inv; simp [curTokens, hent]; omega

/-- from the initial state: admissions ≤ unlocks -/
theorem C15_admissions_le_unlocks (n i : Nat) (acts : List Act) (s' : State)
    (he : exec (init n) acts = some s') : admissions i (init n) acts ≤ releases i (init n) acts := by
  have h1 := admissions_le i acts (init n) s' (init_invariant n) he
  have : curTokens (init n) i = 0 := by simp [curTokens, init]
  omega

/-! ### no stuck state, progress of waiters -/

theorem cnt_pos_exists (p : PC → Bool) (l : List PC) (h : 1 ≤ cnt p l) :
    ∃ (t : Nat) (x : PC), l[t]? = some x ∧ p x = true := by
  induction l with
  | nil => simp [cnt] at h
  | cons y r ih =>
    by_cases hy : p y = true
    · refine ⟨0, y, ?_, hy⟩
      simp
    · simp [cnt, hy] at h
      obtain ⟨t, x, hx, hp⟩ := ih (by omega)
      refine ⟨t + 1, x, ?_, hp⟩
      simpa using hx

/-- A waiter exists ⇒ a holder exists or the token is in the channel. -/
theorem C15_no_stuck_state {n : Nat} {s : State} (h : Reachable n s) (i : Nat) (hw : 1 ≤ waiters s i) :
    holders s i = 1 ∨ curTokens s i = 1 := by
  have inv := reachable_invariant h i
  cases hent : s.ent i with
  | none => simp only [InvAt, hent] at inv; omega
  | some g =>
    simp only [InvAt, hent] at inv
    simp only [curTokens, hent]; omega

/-- A waiting caller obtains the lock after the holder releases it - *partial*: what is
proved is enabledness in every reachable state, for every waiter `t`: either the token is
already there (`recv t` is enabled now) or some caller holds the lock, its `Unlock` is
enabled (never blocks, never panics), puts a token into the channel, and `recv t` is enabled
in the very next state.  Together with `C15_no_stuck_state` this excludes lost hand-offs.
Missing for the full clause: *inevitability for an individual waiter*.  With several
waiters (or a caller arriving between the send and the receive) the token goes to whichever
`recv` runs first; which one that is is decided by the Go runtime (`select`, channel receive
queue), which the model leaves nondeterministic, and no fairness assumption is made. -/
theorem C15_waiter_progress_partial {n : Nat} {s : State} (h : Reachable n s) (t i g : Nat)
    (ht : s.pcs[t]? = some (.waiting i g)) :
    (∃ s', step s (.recv t) = .ok s') ∨
    (∃ u s' s'', s.pcs[u]? = some (.holding i) ∧ step s (.unlock u) = .ok s' ∧
        step s' (.recv t) = .ok s'') := by
  have hent := C15_pointer_never_stale h t i g (Or.inl ht)
  have inv := reachable_invariant h i
  simp only [InvAt, hent] at inv
  have hw := cnt_pos_of_mem (PC.isWait i) s.pcs t _ ht (by simp [PC.isWait])
  by_cases htok : (s.obj i g).tokens = 0
  · right
    have hh : 1 ≤ cnt (PC.isHold i) s.pcs := by simp only [holders] at inv; omega
    obtain ⟨u, x, hx, hp⟩ := cnt_pos_exists _ _ hh
    cases x <;> simp [PC.isHold] at hp
    rename_i j
    have hp' : i = j := hp.symm
    subst hp'
    have hne : u ≠ t := by
      intro e; subst e; rw [ht] at hx; cases hx
    have hz : ¬ (s.obj i g).n - 1 = 0 := by
      simp only [holders, waiters] at inv; omega
    have hcap : ¬ (s.obj i g).tokens ≥ chanCap := by simp [htok, chanCap]
    have h1 : step s (.unlock u) = .ok (setPc (setObj s i g { n := (s.obj i g).n - 1, tokens := (s.obj i g).tokens + 1 }) u .idle) := by
      simp only [step, hx, hent, hz, hcap, if_false]
    have hp2 : (setPc (setObj s i g { n := (s.obj i g).n - 1, tokens := (s.obj i g).tokens + 1 }) u .idle).pcs[t]?
        = some (.waiting i g) := by
      simp only [setPc, setObj]
      rw [List.getElem?_set_ne hne]; exact ht
    have h2 : ∃ s'', step (setPc (setObj s i g { n := (s.obj i g).n - 1, tokens := (s.obj i g).tokens + 1 }) u .idle)
        (.recv t) = .ok s'' := by
      simp only [step, hp2]
      simp [setPc, setObj]
    obtain ⟨s'', h2⟩ := h2
    exact ⟨u, _, s'', hx, h1, h2⟩
  · left
    simp [step, ht, htok]

/-- A waiting caller whose context ends returns with the error: for a waiter the two cancel
steps are enabled one after the other and leave the caller idle (whatever state the other
threads are in: no hypothesis on `s`; `cancelFinish` stays enabled under any interleaving by
`C15_cancel_finish_enabled`). -/
theorem C15_cancel_returns (s : State) (t i g : Nat) (ht : s.pcs[t]? = some (.waiting i g)) :
    ∃ s'', exec s [.cancelCommit t, .cancelFinish t] = some s'' ∧ s''.pcs[t]? = some .idle := by
  have hlt : t < s.pcs.length := by
    have := ht; rw [List.getElem?_eq_some_iff] at this; exact this.1
  have h1 : step s (.cancelCommit t) = .ok (setPc s t (.cancelCommitted i g)) := by
    simp only [step, ht]
  have hp2 : (setPc s t (.cancelCommitted i g)).pcs[t]? = some (.cancelCommitted i g) := by
    simp [setPc, hlt]
  have h2 : ∃ s'', step (setPc s t (.cancelCommitted i g)) (.cancelFinish t) = .ok s'' ∧
      s''.pcs[t]? = some .idle := by
    simp only [step, hp2]
    by_cases hz : (s.obj i g).n - 1 = 0 <;>
      exact ⟨_, rfl, by simp [setPc, setEnt, setObj, hz, hlt]⟩
  obtain ⟨s'', h2, h3⟩ := h2
  exact ⟨s'', by simp only [exec, h1, h2], h3⟩

/-- a thread that committed to the cancel branch can always finish it (it never blocks:
the critical section only needs the mutex) -/
theorem C15_cancel_finish_enabled (s : State) (t i g : Nat)
    (ht : s.pcs[t]? = some (.cancelCommitted i g)) : ∃ s', step s (.cancelFinish t) = .ok s' := by
  simp [step, ht]

/-! ### no leak -/

theorem C15_entry_absent_iff_unreferenced {n : Nat} {s : State} (h : Reachable n s) (i : Nat) :
    s.ent i = none ↔ holders s i + waiters s i + cancelling s i = 0 := by
  have inv := reachable_invariant h i
  cases hent : s.ent i with
  | none => simp only [InvAt, hent] at inv; simp; omega
  | some g => simp only [InvAt, hent] at inv; simp; omega

/-- After all callers have returned and released, no entry is left in the map … -/
theorem C15_no_leak {n : Nat} {s : State} (h : Reachable n s) (hidle : ∀ x ∈ s.pcs, x = .idle) (i : Nat) :
    s.ent i = none := by
  rw [C15_entry_absent_iff_unreferenced h i]
  have z : ∀ (p : PC → Bool), p .idle = false → cnt p s.pcs = 0 := fun p hp =>
    cnt_zero_all p s.pcs (fun x hx => by rw [hidle x hx]; exact hp)
  simp [holders, waiters, cancelling, z _ (rfl : PC.isHold i .idle = false),
    z _ (rfl : PC.isWait i .idle = false), z _ (rfl : PC.isCC i .idle = false)]

theorem C15_no_leak_len {n : Nat} {s : State} (h : Reachable n s) (hidle : ∀ x ∈ s.pcs, x = .idle)
    (k : Nat) : lenLocks s k = 0 := by
  simp [lenLocks, C15_no_leak h hidle]

/-- … and the next `Lock` of any contract by any caller succeeds immediately (takes the
`lockFresh` branch, which returns without waiting). -/
theorem C15_relock_immediate {n : Nat} {s : State} (h : Reachable n s) (hidle : ∀ x ∈ s.pcs, x = .idle)
    (t i : Nat) (ht : t < s.pcs.length) :
    lockAct s t i = .lockFresh t i ∧
    ∃ s', step s (.lockFresh t i) = .ok s' ∧ s'.pcs[t]? = some (.holding i) := by
  have hent := C15_no_leak h hidle i
  have hpc : s.pcs[t]? = some .idle := by
    rw [List.getElem?_eq_getElem ht]; congr 1; exact hidle _ (List.getElem_mem ht)
  refine ⟨by simp [lockAct, hent], ?_⟩
  simp only [step, hpc, hent]
  exact ⟨_, rfl, by simp [setPc, setEnt, setObj, ht]⟩

/-- Per contract, not only when everybody is idle: a contract nobody holds, waits for or is
cancelling on can be locked immediately by an idle caller. -/
theorem C15_relock_immediate_per_contract {n : Nat} {s : State} (h : Reachable n s) (t i : Nat)
    (hpc : s.pcs[t]? = some .idle) (hfree : holders s i + waiters s i + cancelling s i = 0) :
    ∃ s', step s (lockAct s t i) = .ok s' ∧ s'.pcs[t]? = some (.holding i) := by
  have hent := (C15_entry_absent_iff_unreferenced h i).2 hfree
  have hlt : t < s.pcs.length := by
    have := hpc; rw [List.getElem?_eq_some_iff] at this; exact this.1
  simp only [lockAct, step, hpc, hent]
  exact ⟨_, rfl, by simp [setPc, setEnt, setObj, hlt]⟩

/-! ### Manager.Lock / LockV2Contract error paths: the lock is released -/

theorem C15_manager_error_path_releases {n : Nat} {s : State} (h : Reachable n s) (t i : Nat)
    (ht : s.pcs[t]? = some (.holding i)) :
    ∃ s', mgrAfterAcquire s t false = .ok s' ∧ s'.pcs[t]? = some .idle ∧ holders s' i = 0 ∧
      Reachable n s' := by
  obtain ⟨s', hs⟩ := C15_unlock_never_blocks h t i ht
  have he := C15_unlock_adds_at_most_one_token h t i ht hs
  have hlt : t < s.pcs.length := by
    have := ht; rw [List.getElem?_eq_some_iff] at this; exact this.1
  refine ⟨s', by simp [mgrAfterAcquire, hs], ?_, he.1, Reachable.step h hs⟩
  simp only [step, ht] at hs
  split at hs <;> try contradiction
  split at hs
  · injection hs with hs; subst hs; simp [setPc, setEnt, setObj, hlt]
  · split at hs <;> try contradiction
    injection hs with hs; subst hs; simp [setPc, setEnt, setObj, hlt]

/-! ### the lock users (CheckIntegrity, V2CheckIntegrity, …) as actions of the system

A lock user is: acquire (`lockFresh`, or `lockWait` … `recv`), run a body that does not touch the
locker, release on every return path (`userAfterAcquire`, `Model/Lock.lean`; the table `lockUsers`
is tied to the source tree by the driver).  Its steps are steps of the transition system, so every
theorem above - in particular `C15_no_leak` and `C15_relock_immediate` - covers histories with any
number of users on any paths. -/

theorem C15_user_releases_on_every_path {n : Nat} {s : State} (h : Reachable n s) (t i : Nat) (p : UserPath)
    (ht : s.pcs[t]? = some (.holding i)) :
    ∃ s', userAfterAcquire s t p = .ok s' ∧ s'.pcs[t]? = some .idle ∧ holders s' i = 0 ∧ Reachable n s' := by
  obtain ⟨s', hs, h1, h2, h3⟩ := C15_manager_error_path_releases h t i ht
  refine ⟨s', ?_, h1, h2, h3⟩
  simpa [userAfterAcquire, mgrAfterAcquire] using hs

/-- A user alone on a free contract (any return path): afterwards the contract has no entry in the
locker's table and is lockable immediately - what the harness probes after every return. -/
theorem C15_user_no_leak {n : Nat} {s : State} (h : Reachable n s) (t i : Nat) (p : UserPath)
    (hpc : s.pcs[t]? = some .idle) (hfree : holders s i + waiters s i + cancelling s i = 0) :
    ∃ s1 s2, step s (lockAct s t i) = .ok s1 ∧ userAfterAcquire s1 t p = .ok s2 ∧
      s2.ent i = none ∧ s2.pcs[t]? = some .idle ∧
      ∃ s3, step s2 (lockAct s2 t i) = .ok s3 ∧ s3.pcs[t]? = some (.holding i) := by
  obtain ⟨s1, hs1, hp1⟩ := C15_relock_immediate_per_contract h t i hpc hfree
  have r1 := Reachable.step h hs1
  obtain ⟨s2, hs2, hp2, hh2, r2⟩ := C15_user_releases_on_every_path r1 t i p hp1
  -- after the release nobody refers to the contract: counts of `s1` are those of `s` plus the holder
  have hent : s.ent i = none := (C15_entry_absent_iff_unreferenced h i).2 hfree
  have hlt : t < s.pcs.length := by
    have := hpc; rw [List.getElem?_eq_some_iff] at this; exact this.1
  have hs1' : s1 = setPc (setEnt ({ setObj s i (s.next i) { n := 1, tokens := 0 } with
      next := fun j => if j = i then s.next i + 1 else s.next j }) i (some (s.next i))) t (.holding i) := by
    simp only [lockAct, hent, step, hpc] at hs1
    injection hs1 with hs1; exact hs1.symm
  have hfree2 : holders s2 i + waiters s2 i + cancelling s2 i = 0 := by
    have e1 : s1.pcs = s.pcs.set t (.holding i) := by rw [hs1']; simp [setPc, setEnt, setObj]
    have hpc1 : s1.pcs[t]? = some (.holding i) := hp1
    have hpc1' : (s.pcs.set t (.holding i))[t]? = some (.holding i) := by rw [← e1]; exact hp1
    have e2 : s2.pcs = (s.pcs.set t (.holding i)).set t .idle := by
      rw [← e1]
      simp only [userAfterAcquire, step, hpc1] at hs2
      split at hs2 <;> try contradiction
      split at hs2
      · injection hs2 with hs2; subst hs2; simp [setPc, setEnt, setObj]
      · split at hs2 <;> try contradiction
        injection hs2 with hs2; subst hs2; simp [setPc, setObj]
    have e3 : s2.pcs = s.pcs.set t .idle := by rw [e2]; simp
    obtain ⟨_, cW, cC, _⟩ := cnts s.pcs t _ .idle hpc i
    simp only [holders, waiters, cancelling, e3] at hh2 ⊢
    simp only [holders, waiters, cancelling] at hfree
    simp [PC.isWait, PC.isCC] at cW cC
    omega
  have hent2 := (C15_entry_absent_iff_unreferenced r2 i).2 hfree2
  obtain ⟨s3, hs3, hp3⟩ := C15_relock_immediate_per_contract r2 t i hp2 hfree2
  exact ⟨s1, s2, hs1, hs2, hent2, hp2, s3, hs3, hp3⟩

/-! ### non-vacuity: concrete schedules (each is a path of the system, so `Reachable`) -/

theorem exec_reachable {n : Nat} {s s' : State} (h : Reachable n s) (acts : List Act)
    (he : exec s acts = some s') : Reachable n s' := by
  induction acts generalizing s with
  | nil => simp [exec] at he; subst he; exact h
  | cons a rest ih =>
    simp only [exec] at he
    cases hs : step s a with
    | error e => simp [hs] at he
    | ok s1 => simp only [hs] at he; exact ih (Reachable.step h hs) he

/-- summary of a state over ids `0,1`: (pcs, entry of id 0 as (g,n,tokens), entry of id 1) -/
structure View where
  pcs : List PC
  e0  : Option (Nat × Int × Nat)
  e1  : Option (Nat × Int × Nat)
deriving DecidableEq, Repr

def view (s : State) : View :=
  ⟨s.pcs, (s.ent 0).map (fun g => (g, (s.obj 0 g).n, (s.obj 0 g).tokens)),
          (s.ent 1).map (fun g => (g, (s.obj 1 g).n, (s.obj 1 g).tokens))⟩

/-- **The hand-off token racing with a cancellation, sole waiter** (lock.go:67-73 vs 40-45):
thread 1 waits, its `select` commits to `ctx.Done()`, the holder's `Unlock` then sends the
token into the channel nobody will read, thread 1 decrements to zero and deletes the entry -
the token dies with the object: nothing leaks, nobody is admitted. -/
def raceSole : List Act :=
  [.lockFresh 0 0, .lockWait 1 0, .cancelCommit 1, .unlock 0, .cancelFinish 1]

example : (exec (init 2) raceSole).map view = some ⟨[.idle, .idle], none, none⟩ := by decide

/-- the token is really sent while thread 1 is between the two cancel steps -/
example : (exec (init 2) (raceSole.take 4)).map view
    = some ⟨[.idle, .cancelCommitted 0 0], some (0, 1, 1), none⟩ := by decide

/-- **Same race with a second waiter**: the cancelled waiter must not consume or destroy the
token; the other waiter receives it. -/
def raceTwo : List Act :=
  [.lockFresh 0 0, .lockWait 1 0, .lockWait 2 0, .cancelCommit 1, .unlock 0, .cancelFinish 1, .recv 2]

example : (exec (init 3) (raceTwo.take 6)).map view
    = some ⟨[.idle, .idle, .waiting 0 0], some (0, 1, 1), none⟩ := by decide
example : (exec (init 3) raceTwo).map view
    = some ⟨[.idle, .idle, .holding 0], some (0, 1, 0), none⟩ := by decide
/-- … and after the last unlock the map is empty and a new object (generation 1) is created by the next Lock -/
example : (exec (init 3) (raceTwo ++ [.unlock 2, .lockFresh 1 0])).map view
    = some ⟨[.idle, .holding 0, .idle], some (1, 1, 0), none⟩ := by decide

/-- hypotheses of the theorems are satisfiable in non-trivial states: a holder with two
waiters on contract 0 while contract 1 is held by somebody else -/
def busy : List Act := [.lockFresh 0 0, .lockWait 1 0, .lockWait 2 0, .lockFresh 3 1]
example : (exec (init 4) busy).map view
    = some ⟨[.holding 0, .waiting 0 0, .waiting 0 0, .holding 1], some (0, 3, 0), some (0, 1, 0)⟩ := by decide
example : ∃ s, exec (init 4) busy = some s ∧ Reachable 4 s ∧ holders s 0 = 1 ∧ waiters s 0 = 2 ∧
    s.pcs[1]? = some (.waiting 0 0) ∧ s.pcs[0]? = some (.holding 0) := by
  cases h : exec (init 4) busy with
  | none =>
    have : (exec (init 4) busy).isSome = true := by decide
    rw [h] at this; cases this
  | some s =>
    refine ⟨s, rfl, exec_reachable Reachable.init busy h, ?_⟩
    have hv : (exec (init 4) busy).map (fun s => (holders s 0, waiters s 0, s.pcs[1]?, s.pcs[0]?))
        = some (1, 2, some (.waiting 0 0), some (.holding 0)) := by decide
    rw [h] at hv
    simp at hv
    exact hv

/-- the second alternative of `C15_waiter_progress_partial` happens: waiter 1 has no token yet, the
holder's unlock sends one, waiter 1 (or 2) can receive it; a cancelled waiter returns -/
example : (exec (init 4) (busy ++ [.unlock 0, .recv 1])).map view
    = some ⟨[.idle, .holding 0, .waiting 0 0, .holding 1], some (0, 2, 0), some (0, 1, 0)⟩ := by decide
example : (exec (init 4) (busy ++ [.unlock 0, .recv 2])).isSome = true := by decide
example : (exec (init 4) (busy ++ [.cancelCommit 2, .cancelFinish 2])).map view
    = some ⟨[.holding 0, .waiting 0 0, .idle, .holding 1], some (0, 2, 0), some (0, 1, 0)⟩ := by decide
/-- a Manager error path (lock.go:96): acquire, store lookup fails, release -/
example : ((exec (init 2) [.lockFresh 0 0, .lockWait 1 0]).bind fun s =>
    match mgrAfterAcquire s 0 false with
    | .ok s' => some (view s')
    | .error _ => none) = some ⟨[.idle, .waiting 0 0], some (0, 1, 1), none⟩ := by decide

/-- steps that are NOT transitions are rejected by the checker: a second `lockFresh` while held,
`recv` without a token, `unlock` by a non-holder; a double unlock faults as in the code -/
example : enabled (init 2) (.lockFresh 0 0) = true := by decide
example : (exec (init 2) [.lockFresh 0 0, .lockFresh 1 0]).isNone = true := by decide
example : (exec (init 2) [.lockFresh 0 0, .lockWait 1 0, .recv 1]).isNone = true := by decide
example : (exec (init 2) [.lockFresh 0 0, .unlock 1]).isNone = true := by decide
/-- all idle after a full round, map empty (the `no_leak` hypothesis is reachable non-trivially) -/
example : (exec (init 3) (raceTwo ++ [.unlock 2])).map view = some ⟨[.idle, .idle, .idle], none, none⟩ := by
  decide
/-- one unlock, one admission -/
example : admissions 0 (init 3) raceTwo = 1 ∧ releases 0 (init 3) raceTwo = 1 := by decide

/-- every user path is exercised by the example: uncontended user, then relock -/
example : (exec (init 2) [.lockFresh 0 0]).bind (fun s =>
    match userAfterAcquire s 0 .merkleMismatch with
    | .ok s' => some (view s')
    | .error _ => none) = some ⟨[.idle, .idle], none, none⟩ := by decide
/-- a user admitted by the hand-off releases to the next waiter -/
example : (exec (init 3) [.lockFresh 0 0, .lockWait 1 0, .lockWait 2 0, .unlock 0, .recv 1]).bind (fun s =>
    match userAfterAcquire s 1 .countMismatch with
    | .ok s' => some (view s')
    | .error _ => none) = some ⟨[.idle, .idle, .waiting 0 0], some (0, 1, 1), none⟩ := by decide
example : lockUsers.length = 9 ∧ (lockUsers.filter (·.driven)).length = 4 := by decide

end Hostd.Lock
