import Hostd.Lemmas.Revision
/-!
C07 — The host only counter-signs economically safe revisions.

All theorems are about `Hostd.Revision` (Model/Revision.lean), the model the
driver `drv_revision` executes against the implementation's observations; the
clause lists `revisionClauses` / `clearingClauses` are the very predicates the
driver evaluates on the implementation's verdicts (MONITOR accept_safe/…).

`fx = false` is the current tree, `fx = true` the proposed repair.

* `…_accept_safe`        acceptance ⇒ every clause, for ALL inputs, both variants; the hypothesis
                         `fx = false → …` is what the CURRENT code needs in addition (a well-formed
                         current revision) — hence the corollaries
* `…_accept_safe_fixed`  (full strength, repaired variant) and
* `…_accept_safe_partial` (current tree, excluding hypothesis), with
* `…_unsafe_witness`     concrete inputs showing the hypothesis is needed for the current tree;
* `…_no_panic_fixed`     no input makes the repaired validators panic;
* `…_no_panic_partial`   the current validators do not panic on inputs satisfying `…Safe`;
* `…_panics_…`           concrete inputs on which the current validators panic (replayed on the
                         real functions by corpus/revision/c07_witnesses.trace).
-/
set_option linter.unusedSimpArgs false
set_option linter.unusedVariables false
namespace Hostd.Revision

/-- simp set that turns `f … = .ok r` into the conjunction of everything the code checked -/
macro "res_ok" " at " h:ident : tactic =>
  `(tactic| simp only [bind_ok_iff, check_ok_iff, out0_ok_iff, out1_ok_iff, out2_ok_iff, caddF_ok_iff, csubF_ok_iff,
      cadd_ok_iff, csub_ok_iff, cmulF_ok_iff,
      decide_eq_false_iff_not, exists_const, Decidable.not_not, Nat.not_le, gt_iff_lt, Nat.not_lt, pure_eq_ok,
      Bool.and_eq_false_imp, Bool.or_eq_false_iff, ne_eq, ge_iff_le, Res.ok.injEq] at $h:ident)

theorem C128_pos : 0 < C128 := by decide +kernel

/-! ### validateStdRevision -/

/-- everything a successful `validateStdRevision` establishes -/
structure StdFacts (fx : Bool) (cur rev : Rev) : Prop where
  revNo : cur.revNo < rev.revNo
  uh : rev.unlockHash = cur.unlockHash
  uc : rev.ucHash = cur.ucHash
  ws : rev.wStart = cur.wStart
  we : rev.wEnd = cur.wEnd
  lenV : rev.valid.length = cur.valid.length
  lenM : rev.missed.length = cur.missed.length
  addrV : addrs rev.valid = addrs cur.valid
  addrM : addrs rev.missed = addrs cur.missed
  sumV : total rev.valid = total cur.valid
  sumM : total rev.missed = if fx then total cur.missed else total cur.valid
  ltV : total cur.valid < C128
  ltM : total rev.missed < C128
  renter : ∃ rvr rv' cvr cv' rmr rm' cmr cm', rev.valid = rvr :: rv' ∧ cur.valid = cvr :: cv' ∧
      rev.missed = rmr :: rm' ∧ cur.missed = cmr :: cm' ∧ rvr.val ≤ cvr.val ∧ rmr.val ≤ cmr.val ∧ rvr.val = rmr.val
  shape : fx = true → 2 ≤ cur.valid.length ∧ 2 ≤ cur.missed.length

theorem oldMissedSum_ok {fx : Bool} {cur : Rev} {a b : Nat} (h : oldMissedSum fx cur a = .ok b) :
    b = if fx then total cur.missed else a := by
  unfold oldMissedSum at h
  cases fx
  · simp at h; simp [h]
  · simp at h
    have := (sumVals_ok_iff C128_pos).mp h
    simp; omega

theorem validateStd_ok {fx : Bool} {cur rev : Rev} {u : Unit} (h : validateStd fx cur rev = .ok u) :
    StdFacts fx cur rev := by
  unfold validateStd at h
  res_ok at h
  obtain ⟨hs1, hs2, hs3, old, hold, oldM, holdM, vp, hvp, mp, hmp, rfl, rfl, huh, huc, hno, hws, hwe, hlv, hlm,
    rvr, ⟨rv', hrv⟩, cvr, ⟨cv', hcv⟩, hle1, rmr, ⟨rm', hrm⟩, cmr, ⟨cm', hcm⟩, hle2, heq⟩ := h
  have h1 := (sumVals_ok_iff C128_pos).mp hold
  have h2 := addrLoop_ok_eq hvp hlv
  have h3 := addrLoop_ok_eq hmp hlm
  have h4 := oldMissedSum_ok holdM
  refine ⟨hno, huh, huc, hws, hwe, hlv, hlm, h2.1, h3.1, by omega, ?_, by omega, h3.2.2,
    ⟨rvr, rv', cvr, cv', rmr, rm', cmr, cm', hrv, hcv, hrm, hcm, hle1, hle2, heq⟩, ?_⟩
  · rw [← h3.2.1, h4]; cases fx <;> simp; omega
  · intro hfx; subst hfx
    simp at hs1; omega

theorem renterVal_cons (o : Out) (l : List Out) : renterVal (o :: l) = some o.val := rfl
theorem hostVal_cons (a o : Out) (l : List Out) : hostVal (a :: o :: l) = some o.val := rfl

/-- the clause list of C07 follows from the structural facts plus the two host-payout bounds -/
theorem revisionClauses_of_facts {fx : Bool} {cur rev : Rev} {price maxBurn : Nat} (hs : StdFacts fx cur rev)
    (hwf : fx = false → total cur.missed = total cur.valid)
    (hhv : ∃ a b, hostVal cur.valid = some a ∧ hostVal rev.valid = some b ∧ a + price ≤ b)
    (hhm : ∃ a b, hostVal cur.missed = some a ∧ hostVal rev.missed = some b ∧ a ≤ b + maxBurn) :
    ∀ c ∈ revisionClauses cur rev price maxBurn, c.2 = true := by
  obtain ⟨rvr, rv', cvr, cv', rmr, rm', cmr, cm', hrv, hcv, hrm, hcm, hle1, hle2, _⟩ := hs.renter
  obtain ⟨a, b, ha, hb, hab⟩ := hhv
  obtain ⟨a', b', ha', hb', hab'⟩ := hhm
  have hsumM : total rev.missed = total cur.missed := by
    rw [hs.sumM]; cases fx
    · simp; exact (hwf rfl).symm
    · simp
  intro c hc
  simp only [revisionClauses, List.mem_cons, List.mem_nil_iff, or_false] at hc
  rcases hc with rfl | rfl | rfl | rfl | rfl | rfl | rfl | rfl | rfl | rfl | rfl | rfl
  · simpa using hs.revNo
  · simpa using hs.uh
  · simpa using hs.uc
  · simpa using ⟨hs.ws, hs.we⟩
  · simpa using ⟨hs.lenV, hs.lenM⟩
  · simpa using ⟨hs.addrV, hs.addrM⟩
  · simpa using hs.sumV
  · simpa using hsumM
  · simp [hrv, hcv, renterVal_cons, optLe, hle1]
  · simp [hrm, hcm, renterVal_cons, optLe, hle2]
  · simp [ha, hb, optAdd, optLe, hab]
  · simp [ha', hb', optAdd, optLe, hab']

/-! ### accept_safe: ValidateRevision, ValidateProgramRevision, ValidatePaymentRevision -/

/-- **C07 accept_safe (ValidateRevision).** For ALL current/proposed revisions, payment and collateral:
acceptance implies every clause of the property with `price = payment`, `maxBurn = collateral`. -/
theorem validateRevision_accept_safe {fx : Bool} {cur rev : Rev} {pay coll : Nat} {r : Nat × Nat}
    (h : validateRevision fx cur rev pay coll = .ok r)
    (hwf : fx = false → total cur.missed = total cur.valid) :
    ∀ c ∈ revisionClauses cur rev pay coll, c.2 = true := by
  unfold validateRevision at h
  res_ok at h
  obtain ⟨u, hstd, cvr, _, _, cmr, _, _, cmh, ⟨x1, r1, hcm⟩, _, rvr, _, _, rvh, ⟨x2, r2, hrv⟩, cvh, ⟨x3, r3, hcv⟩, h1,
    rmh, ⟨x4, r4, hrm⟩, h2, _, h3, h4, _⟩ := h
  apply revisionClauses_of_facts (validateStd_ok hstd) hwf
  · exact ⟨cvh.val, rvh.val, by simp [hcv, hostVal_cons], by simp [hrv, hostVal_cons], by omega⟩
  · exact ⟨cmh.val, rmh.val, by simp [hcm, hostVal_cons], by simp [hrm, hostVal_cons], by omega⟩

/-- the values `ValidateRevision` returns are the host's valid gain and missed loss -/
theorem validateRevision_returns {fx : Bool} {cur rev : Rev} {pay coll t b : Nat}
    (h : validateRevision fx cur rev pay coll = .ok (t, b)) :
    ∃ cvh rvh cmh rmh, hostVal cur.valid = some cvh ∧ hostVal rev.valid = some rvh ∧
      hostVal cur.missed = some cmh ∧ hostVal rev.missed = some rmh ∧
      t = rvh - cvh ∧ b = cmh - rmh ∧ pay ≤ t ∧ b ≤ coll := by
  unfold validateRevision at h
  res_ok at h
  obtain ⟨u, hstd, cvr, _, _, cmr, _, _, cmh, ⟨x1, r1, hcm⟩, _, rvr, _, _, rvh, ⟨x2, r2, hrv⟩, cvh, ⟨x3, r3, hcv⟩, h1,
    rmh, ⟨x4, r4, hrm⟩, h2, _, h3, h4, heq⟩ := h
  simp only [Res.ok.injEq, Prod.mk.injEq] at heq
  refine ⟨cvh.val, rvh.val, cmh.val, rmh.val, by simp [hcv, hostVal_cons], by simp [hrv, hostVal_cons],
    by simp [hcm, hostVal_cons], by simp [hrm, hostVal_cons], by omega, by omega, by omega, by omega⟩

/-- **C07 accept_safe (ValidateProgramRevision).** price 0 (the RPC budget pays), the host may burn
at most `storage + collateral`. -/
theorem validateProgram_accept_safe {fx : Bool} {cur rev : Rev} {storage coll r : Nat}
    (h : validateProgram fx cur rev storage coll = .ok r)
    (hwf : fx = false → total cur.missed = total cur.valid) :
    ∀ c ∈ revisionClauses cur rev 0 (storage + coll), c.2 = true := by
  unfold validateProgram at h
  res_ok at h
  obtain ⟨u, hstd, _, cmh, ⟨x1, r1, hcm⟩, rmh, ⟨x2, r2, hrm⟩, h1, eb, ⟨_, rfl⟩, h2, _, _, _, _, _, _, _, _, _, _, _,
    cvh, ⟨x3, r3, hcv⟩, rvh, ⟨x4, r4, hrv⟩, h3, _⟩ := h
  apply revisionClauses_of_facts (validateStd_ok hstd) hwf
  · exact ⟨cvh.val, rvh.val, by simp [hcv, hostVal_cons], by simp [hrv, hostVal_cons], by omega⟩
  · exact ⟨cmh.val, rmh.val, by simp [hcm, hostVal_cons], by simp [hrm, hostVal_cons], by omega⟩

/-- **C07 accept_safe (ValidatePaymentRevision).** the host's valid AND missed payouts grow by exactly
the payment (nothing is put at risk). -/
theorem validatePayment_accept_safe {fx : Bool} {cur rev : Rev} {pay : Nat} {u : Unit}
    (h : validatePayment fx cur rev pay = .ok u)
    (hwf : fx = false → total cur.missed = total cur.valid) :
    ∀ c ∈ revisionClauses cur rev pay 0, c.2 = true := by
  unfold validatePayment at h
  res_ok at h
  obtain ⟨u, hstd, _, _, _, _, _, _, _, _, _, _, _, _, _, _, rvh, ⟨x1, r1, hrv⟩, cvh, ⟨x2, r2, hcv⟩, c, ⟨_, rfl⟩, h1,
    rmh, ⟨x3, r3, hrm⟩, cmh, ⟨x4, r4, hcm⟩, d, ⟨_, rfl⟩, h2⟩ := h
  apply revisionClauses_of_facts (validateStd_ok hstd) hwf
  · exact ⟨cvh.val, rvh.val, by simp [hcv, hostVal_cons], by simp [hrv, hostVal_cons], by omega⟩
  · exact ⟨cmh.val, rmh.val, by simp [hcm, hostVal_cons], by simp [hrm, hostVal_cons], by omega⟩

/-- full strength for the repaired validators -/
theorem revision_accept_safe_fixed {cur rev : Rev} {pay coll : Nat} {r : Nat × Nat}
    (h : validateRevision true cur rev pay coll = .ok r) : ∀ c ∈ revisionClauses cur rev pay coll, c.2 = true :=
  validateRevision_accept_safe h (by simp)
theorem program_accept_safe_fixed {cur rev : Rev} {storage coll r : Nat}
    (h : validateProgram true cur rev storage coll = .ok r) :
    ∀ c ∈ revisionClauses cur rev 0 (storage + coll), c.2 = true :=
  validateProgram_accept_safe h (by simp)
theorem payment_accept_safe_fixed {cur rev : Rev} {pay : Nat} {u : Unit}
    (h : validatePayment true cur rev pay = .ok u) : ∀ c ∈ revisionClauses cur rev pay 0, c.2 = true :=
  validatePayment_accept_safe h (by simp)

/-- current tree: all clauses, for every current revision whose valid and missed sums agree
(what is missing: the code compares the proposed missed sum with the current VALID sum) -/
theorem revision_accept_safe_partial {cur rev : Rev} {pay coll : Nat} {r : Nat × Nat}
    (h : validateRevision false cur rev pay coll = .ok r) (hwf : total cur.missed = total cur.valid) :
    ∀ c ∈ revisionClauses cur rev pay coll, c.2 = true :=
  validateRevision_accept_safe h (fun _ => hwf)
theorem program_accept_safe_partial {cur rev : Rev} {storage coll r : Nat}
    (h : validateProgram false cur rev storage coll = .ok r) (hwf : total cur.missed = total cur.valid) :
    ∀ c ∈ revisionClauses cur rev 0 (storage + coll), c.2 = true :=
  validateProgram_accept_safe h (fun _ => hwf)
theorem payment_accept_safe_partial {cur rev : Rev} {pay : Nat} {u : Unit}
    (h : validatePayment false cur rev pay = .ok u) (hwf : total cur.missed = total cur.valid) :
    ∀ c ∈ revisionClauses cur rev pay 0, c.2 = true :=
  validatePayment_accept_safe h (fun _ => hwf)

/-- well-formedness of the current revision is preserved by every accepted revision, so it holds
along any chain of accepted revisions that starts from a consensus-valid contract -/
theorem wellformed_preserved {fx : Bool} {cur rev : Rev} {u : Unit} (h : validateStd fx cur rev = .ok u)
    (hwf : total cur.missed = total cur.valid) : total rev.missed = total rev.valid := by
  have hs := validateStd_ok h
  rw [hs.sumM, hs.sumV]; cases fx <;> simp [hwf]

/-! non-vacuity and witnesses -/

/-- an honest RHP2 write: pay 10, burn 5 -/
def exCur : Rev where
  revNo := 5
  wStart := 100
  wEnd := 200
  unlockHash := 10
  ucHash := 10
  filesize := 0
  root := 0
  valid := [⟨1, 100⟩, ⟨2, 50⟩]
  missed := [⟨1, 100⟩, ⟨2, 40⟩, ⟨0, 10⟩]
def exRev : Rev := { exCur with revNo := 6, valid := [⟨1, 90⟩, ⟨2, 60⟩], missed := [⟨1, 90⟩, ⟨2, 35⟩, ⟨0, 25⟩] }

example : validateRevision false exCur exRev 10 5 = .ok (10, 5) := by decide +kernel
example : validateRevision true exCur exRev 10 5 = .ok (10, 5) := by decide +kernel
example : total exCur.missed = total exCur.valid := by decide +kernel
example : validateProgram false exCur { exCur with revNo := 6, missed := [⟨1, 100⟩, ⟨2, 33⟩, ⟨0, 17⟩] } 3 4 = .ok 7 := by decide +kernel
example : validatePayment false exCur { exCur with revNo := 6, valid := [⟨1, 90⟩, ⟨2, 60⟩], missed := [⟨1, 90⟩, ⟨2, 50⟩, ⟨0, 10⟩] } 10
    = .ok () := by decide +kernel

/-- the current tree accepts a revision that changes the missed payout sum when the current
revision's sums differ (corpus: c07_witnesses.trace, line `vrev … missed_sum`) -/
def wMissedCur : Rev := { exCur with missed := [⟨1, 100⟩, ⟨2, 40⟩, ⟨0, 0⟩] }
def wMissedRev : Rev := { exCur with revNo := 6, missed := [⟨1, 100⟩, ⟨2, 40⟩, ⟨0, 10⟩] }
theorem revision_accept_unsafe_witness :
    validateRevision false wMissedCur wMissedRev 0 0 = .ok (0, 0) ∧
    ("missed_sum_unchanged", false) ∈ revisionClauses wMissedCur wMissedRev 0 0 := by decide +kernel
example : validateRevision true wMissedCur wMissedRev 0 0 = .reject .missedSum := by decide +kernel

/-! ### ValidateClearingRevision -/

theorem clearLoop_ok {v c m : List Out} {u : Unit} (h : clearLoop v c m = .ok u) :
    v.length ≤ c.length ∧ v.length ≤ m.length ∧ addrs v = addrs (c.take v.length) ∧ v = m.take v.length := by
  induction v generalizing c m with
  | nil => simp
  | cons x xs ih =>
    cases c with
    | nil => simp [clearLoop] at h
    | cons c cs =>
      cases m with
      | nil => simp [clearLoop] at h
      | cons m ms =>
        simp only [clearLoop] at h
        res_ok at h
        obtain ⟨h1, h2, h3, h4⟩ := h
        have := ih h4
        refine ⟨by simp; omega, by simp; omega, by simp [h1, this.2.2.1], ?_⟩
        have hx : x = m := by
          cases x; cases m; simp at h2 h3; simp [h2, h3]
        simp [hx]; exact this.2.2.2

/-- **C07 clearing_safe.** For ALL inputs: an accepted clearing revision zeroes the file, carries the
maximum revision number, has missed = valid payouts, keeps window/unlock data/addresses, does not
raise the renter's payout, pays the host at least `finalPayment` and keeps the payout sum.
`hU`: revision numbers are uint64.  The current tree additionally needs a current revision with
exactly two valid outputs that is not already locked. -/
theorem validateClearing_accept_safe {fx : Bool} {cur fin : Rev} {pay r : Nat}
    (h : validateClearing fx cur fin pay = .ok r) (hU : cur.revNo ≤ maxRev)
    (hwf : fx = false → cur.valid.length = 2 ∧ cur.revNo ≠ maxRev) :
    ∀ c ∈ clearingClauses cur fin pay, c.2 = true := by
  unfold validateClearing at h
  res_ok at h
  obtain ⟨hs1, hs2, hfs, hroot, hws, hwe, hlm, hlv, hno, huh, huc, cvr, ⟨cr, hcv0⟩, fmr, ⟨fr, hfm0⟩, hle1,
    fvh, ⟨fv0, fvr, hfv⟩, cvh, ⟨cv0, cvr', hcv⟩, hle2, heq, hpay, u, hloop, hret⟩ := h
  have hlen : cur.valid.length = 2 ∧ cur.revNo ≠ maxRev := by
    cases fx
    · exact hwf rfl
    · exact ⟨hs1 rfl, hs2 rfl⟩
  have hl := clearLoop_ok hloop
  -- concrete shapes
  rw [hcv] at hcv0; simp at hcv0; obtain ⟨rfl, _⟩ := hcv0
  have hcvr' : cvr' = [] := by
    have := hlen.1; rw [hcv] at this; simpa using this
  subst hcvr'
  have hfvr : fvr = [] := by rw [hfv] at hlv; rw [hlm] at hlv; simpa using hlv
  subst hfvr
  have hmv : fin.missed = fin.valid := by
    have h4 := hl.2.2.2
    rw [hlv, List.take_length] at h4
    exact h4.symm
  have hfm : fmr = fv0 := by rw [hmv, hfv] at hfm0; simp at hfm0; exact hfm0.1.symm
  subst hfm
  have haddr : addrs fin.valid = addrs cur.valid := by
    have h3 := hl.2.2.1
    rw [hfv, hcv] at h3; rw [hfv, hcv]; simpa using h3
  intro c hc
  simp only [clearingClauses, List.mem_cons, List.mem_nil_iff, or_false] at hc
  rcases hc with rfl | rfl | rfl | rfl | rfl | rfl | rfl | rfl | rfl | rfl | rfl
  · simpa using ⟨hfs, hroot⟩
  · simpa using hno
  · simpa using hmv
  · simp [hno]; have := hlen.2; omega
  · simpa using huh
  · simpa using huc
  · simpa using ⟨hws.symm, hwe.symm⟩
  · simpa using haddr
  · simp [hfv, hcv]; omega
  · simp [hfv, hcv, renterVal_cons, optLe, hle1]
  · simp [hfv, hcv, hostVal_cons, optAdd, optLe]; omega

theorem clearing_accept_safe_fixed {cur fin : Rev} {pay r : Nat}
    (h : validateClearing true cur fin pay = .ok r) (hU : cur.revNo ≤ maxRev) :
    ∀ c ∈ clearingClauses cur fin pay, c.2 = true :=
  validateClearing_accept_safe h hU (by simp)

theorem clearing_accept_safe_partial {cur fin : Rev} {pay r : Nat}
    (h : validateClearing false cur fin pay = .ok r) (hU : cur.revNo ≤ maxRev)
    (h2 : cur.valid.length = 2) (hlock : cur.revNo ≠ maxRev) :
    ∀ c ∈ clearingClauses cur fin pay, c.2 = true :=
  validateClearing_accept_safe h hU (fun _ => ⟨h2, hlock⟩)

/-- the value `ValidateClearingRevision` returns is the host's gain -/
theorem validateClearing_returns {fx : Bool} {cur fin : Rev} {pay r : Nat}
    (h : validateClearing fx cur fin pay = .ok r) :
    ∃ cvh fvh, hostVal cur.valid = some cvh ∧ hostVal fin.valid = some fvh ∧ r = fvh - cvh ∧ pay ≤ r := by
  unfold validateClearing at h
  res_ok at h
  obtain ⟨_, _, _, _, _, _, _, _, _, _, _, cvr, _, fmr, _, hle1,
    fvh, ⟨fv0, fvr, hfv⟩, cvh, ⟨cv0, cvr', hcv⟩, hle2, heq, hpay, u, hloop, hret⟩ := h
  exact ⟨cvh.val, fvh.val, by simp [hcv, hostVal_cons], by simp [hfv, hostVal_cons], by omega, by omega⟩

def exFin : Rev := { exCur with revNo := maxRev, valid := [⟨1, 99⟩, ⟨2, 51⟩], missed := [⟨1, 99⟩, ⟨2, 51⟩] }
example : validateClearing false exCur exFin 1 = .ok 1 := by decide +kernel
example : validateClearing true exCur exFin 1 = .ok 1 := by decide +kernel

/-- the current tree accepts a "clearing" of an already locked contract (revision number does not
increase) and of a current revision with three valid outputs (output dropped, sum changed) -/
theorem clearing_accept_unsafe_witness :
    (validateClearing false { exCur with revNo := maxRev } exFin 1 = .ok 1 ∧
      ("revno_increases", false) ∈ clearingClauses { exCur with revNo := maxRev } exFin 1) ∧
    (validateClearing false { exCur with valid := [⟨1, 100⟩, ⟨2, 50⟩, ⟨3, 7⟩] } exFin 1 = .ok 1 ∧
      ("valid_sum_unchanged", false) ∈ clearingClauses { exCur with valid := [⟨1, 100⟩, ⟨2, 50⟩, ⟨3, 7⟩] } exFin 1) := by
  decide +kernel

/-! ### Revise / ClearingRevision build the candidate from renter-supplied VALUES only -/

theorem reviseLoop_ok {vs : List Nat} {os res : List Out} (h : reviseLoop vs os = .ok res) :
    vs.length ≤ os.length ∧ vals res = vs ∧ addrs res = addrs (os.take vs.length) := by
  induction vs generalizing os res with
  | nil => simp [reviseLoop] at h; subst h; simp
  | cons v vs ih =>
    cases os with
    | nil => simp [reviseLoop] at h
    | cons o os =>
      simp only [reviseLoop] at h
      res_ok at h
      obtain ⟨rest, hr, rfl⟩ := h
      have := ih hr
      simp [this.2.1, this.2.2]; omega

theorem reviseLoop_noPanic {vs : List Nat} {os : List Out} (h : vs.length ≤ os.length) :
    NoPanic (reviseLoop vs os) := by
  induction vs generalizing os with
  | nil => intro s; simp [reviseLoop]
  | cons v vs ih =>
    cases os with
    | nil => simp at h
    | cons o os =>
      simp only [reviseLoop]
      exact NoPanic.bind (ih (by simpa using h)) fun _ _ => NoPanic.pure _

/-- `Revise`: the result differs from the current revision only in the revision number (strictly
larger) and the output VALUES, which are exactly the supplied ones. -/
theorem revise_ok {cur res : Rev} {no : Nat} {vv mv : List Nat} (h : revise cur no vv mv = .ok res) :
    res.revNo = no ∧ cur.revNo < no ∧ cur.revNo ≠ maxRev ∧
    vals res.valid = vv ∧ vals res.missed = mv ∧
    addrs res.valid = addrs cur.valid ∧ addrs res.missed = addrs cur.missed ∧
    res.wStart = cur.wStart ∧ res.wEnd = cur.wEnd ∧ res.unlockHash = cur.unlockHash ∧ res.ucHash = cur.ucHash ∧
    res.filesize = cur.filesize ∧ res.root = cur.root := by
  unfold revise at h
  res_ok at h
  obtain ⟨h1, h2, h3, h4, v, hv, m, hm, rfl⟩ := h
  have a := reviseLoop_ok hv
  have b := reviseLoop_ok hm
  rw [h3, List.take_length] at a
  rw [h4, List.take_length] at b
  simp [a.2.1, a.2.2, b.2.1, b.2.2, h1, h2]

theorem revise_no_panic (cur : Rev) (no : Nat) (vv mv : List Nat) : NoPanic (revise cur no vv mv) := by
  unfold revise
  refine NoPanic.bind (check_noPanic _ _) fun _ _ => ?_
  refine NoPanic.bind (check_noPanic _ _) fun _ _ => ?_
  refine NoPanic.bind (check_noPanic _ _) fun _ h3 => ?_
  refine NoPanic.bind (check_noPanic _ _) fun _ h4 => ?_
  res_ok at h3; res_ok at h4
  refine NoPanic.bind (reviseLoop_noPanic (by omega)) fun _ _ => ?_
  exact NoPanic.bind (reviseLoop_noPanic (by omega)) fun _ _ => NoPanic.pure _

/-- `ClearingRevision`: locks the contract, zeroes the file, missed = valid, addresses kept. -/
theorem clearingRevision_ok {cur res : Rev} {vv : List Nat} (h : clearingRevision cur vv = .ok res) :
    res.revNo = maxRev ∧ cur.revNo ≠ maxRev ∧ res.filesize = 0 ∧ res.root = 0 ∧ res.missed = res.valid ∧
    vals res.valid = vv ∧ addrs res.valid = addrs cur.valid ∧
    res.wStart = cur.wStart ∧ res.wEnd = cur.wEnd ∧ res.unlockHash = cur.unlockHash ∧ res.ucHash = cur.ucHash := by
  unfold clearingRevision at h
  res_ok at h
  obtain ⟨h1, h3, v, hv, rfl⟩ := h
  have a := reviseLoop_ok hv
  rw [h3, List.take_length] at a
  simp [a.2.1, a.2.2, h1]

theorem clearingRevision_no_panic (cur : Rev) (vv : List Nat) : NoPanic (clearingRevision cur vv) := by
  unfold clearingRevision
  refine NoPanic.bind (check_noPanic _ _) fun _ _ => ?_
  refine NoPanic.bind (check_noPanic _ _) fun _ h3 => ?_
  res_ok at h3
  exact NoPanic.bind (reviseLoop_noPanic (by omega)) fun _ _ => NoPanic.pure _

example : (revise exCur 6 [90, 60] [90, 35, 25]) = .ok exRev := by decide +kernel

/-! ### no_panic -/

theorem sumVals_noPanic {fx : Bool} {s : Site} {l : List Out} (h : fx = true ∨ total l < C128) :
    NoPanic (sumVals fx s l 0) := by
  intro s' hp
  have := (sumVals_panic_iff C128_pos).mp hp
  rcases h with h | h
  · simp [h] at this
  · omega

theorem out0_noPanic {s : Site} {l : List Out} (h : 0 < l.length) : NoPanic (out0 s l) := by
  intro s' hp; have := out0_panic_iff.mp hp; simp [this.1] at h
theorem out1_noPanic {s : Site} {l : List Out} (h : 2 ≤ l.length) : NoPanic (out1 s l) := by
  intro s' hp; have := out1_panic_iff.mp hp; omega
theorem out2_noPanic {s : Site} {l : List Out} (h : 3 ≤ l.length) : NoPanic (out2 s l) := by
  intro s' hp; have := out2_panic_iff.mp hp; omega
theorem caddF_noPanic {fx : Bool} {s : Site} {t : Tag} {a b : Nat} (h : fx = true ∨ a + b < C128) :
    NoPanic (caddF fx s t a b) := by
  intro s' hp; have := caddF_panic_iff.mp hp
  rcases h with h | h
  · simp [h] at this
  · omega
theorem csubF_noPanic {fx : Bool} {s : Site} {t : Tag} {a b : Nat} (h : fx = true ∨ b ≤ a) :
    NoPanic (csubF fx s t a b) := by
  intro s' hp; have := csubF_panic_iff.mp hp
  rcases h with h | h
  · simp [h] at this
  · omega

/-- inputs on which the CURRENT `validateStdRevision` cannot panic: the proposal has no more
outputs than the current revision, no output sum overflows 2^128, both current lists are non-empty -/
structure StdSafe (cur rev : Rev) : Prop where
  lenV : rev.valid.length ≤ cur.valid.length
  lenM : rev.missed.length ≤ cur.missed.length
  sumC : total cur.valid < C128
  sumV : total rev.valid < C128
  sumM : total rev.missed < C128
  neV : 0 < cur.valid.length
  neM : 0 < cur.missed.length

theorem validateStd_noPanic {fx : Bool} {cur rev : Rev} (H : fx = true ∨ StdSafe cur rev) :
    NoPanic (validateStd fx cur rev) := by
  unfold validateStd
  refine NoPanic.bind (check_noPanic _ _) fun _ h1 => ?_
  refine NoPanic.bind (check_noPanic _ _) fun _ h2 => ?_
  refine NoPanic.bind (check_noPanic _ _) fun _ h3 => ?_
  res_ok at h1; res_ok at h2; res_ok at h3
  have hlen : rev.valid.length ≤ cur.valid.length ∧ rev.missed.length ≤ cur.missed.length ∧
      0 < cur.valid.length ∧ 0 < cur.missed.length := by
    rcases H with H | H
    · have := h1 H; have := h2 H; have := h3 H; omega
    · exact ⟨H.lenV, H.lenM, H.neV, H.neM⟩
  refine NoPanic.bind (sumVals_noPanic (H.imp id (·.sumC))) fun _ _ => ?_
  refine NoPanic.bind ?_ fun _ _ => ?_
  · unfold oldMissedSum
    cases fx
    · exact NoPanic.ok _
    · exact sumVals_noPanic (Or.inl rfl)
  refine NoPanic.bind (addrLoop_noPanic hlen.1 (H.imp id (fun h => by simpa using h.sumV))) fun _ _ => ?_
  refine NoPanic.bind (addrLoop_noPanic hlen.2.1 (H.imp id (fun h => by simpa using h.sumM))) fun _ _ => ?_
  refine NoPanic.bind (check_noPanic _ _) fun _ _ => ?_
  refine NoPanic.bind (check_noPanic _ _) fun _ _ => ?_
  refine NoPanic.bind (check_noPanic _ _) fun _ _ => ?_
  refine NoPanic.bind (check_noPanic _ _) fun _ _ => ?_
  refine NoPanic.bind (check_noPanic _ _) fun _ _ => ?_
  refine NoPanic.bind (check_noPanic _ _) fun _ _ => ?_
  refine NoPanic.bind (check_noPanic _ _) fun _ _ => ?_
  refine NoPanic.bind (check_noPanic _ _) fun _ h4 => ?_
  refine NoPanic.bind (check_noPanic _ _) fun _ h5 => ?_
  res_ok at h4; res_ok at h5
  refine NoPanic.bind (out0_noPanic (by omega)) fun _ _ => ?_
  refine NoPanic.bind (out0_noPanic (by omega)) fun _ _ => ?_
  refine NoPanic.bind (check_noPanic _ _) fun _ _ => ?_
  refine NoPanic.bind (out0_noPanic (by omega)) fun _ _ => ?_
  refine NoPanic.bind (out0_noPanic (by omega)) fun _ _ => ?_
  refine NoPanic.bind (check_noPanic _ _) fun _ _ => ?_
  exact check_noPanic _ _

/-- lengths available after a successful `validateStdRevision` -/
theorem std_lengths {fx : Bool} {cur rev : Rev} {u : Unit} (h : validateStd fx cur rev = .ok u)
    (H : fx = true ∨ (2 ≤ cur.valid.length ∧ 2 ≤ cur.missed.length)) :
    2 ≤ cur.valid.length ∧ 2 ≤ cur.missed.length ∧ 2 ≤ rev.valid.length ∧ 2 ≤ rev.missed.length := by
  have hs := validateStd_ok h
  have : 2 ≤ cur.valid.length ∧ 2 ≤ cur.missed.length := by
    rcases H with H | H
    · exact hs.shape H
    · exact H
  have := hs.lenV; have := hs.lenM
  omega

/-- **C07 no_panic (ValidateRevision)**, both variants: the repaired validator never panics; the current
one does not panic on `StdSafe` inputs whose current revision has renter and host outputs. -/
theorem validateRevision_noPanic {fx : Bool} {cur rev : Rev} {pay coll : Nat}
    (H : fx = true ∨ (StdSafe cur rev ∧ 2 ≤ cur.valid.length ∧ 2 ≤ cur.missed.length)) :
    NoPanic (validateRevision fx cur rev pay coll) := by
  unfold validateRevision
  refine NoPanic.bind (validateStd_noPanic (H.imp id (·.1))) fun _ hstd => ?_
  have hl := std_lengths hstd (H.imp id (·.2))
  refine NoPanic.bind (out0_noPanic (by omega)) fun _ _ => ?_
  refine NoPanic.bind (check_noPanic _ _) fun _ _ => ?_
  refine NoPanic.bind (out0_noPanic (by omega)) fun _ _ => ?_
  refine NoPanic.bind (check_noPanic _ _) fun _ _ => ?_
  refine NoPanic.bind (out1_noPanic (by omega)) fun _ _ => ?_
  refine NoPanic.bind (check_noPanic _ _) fun _ _ => ?_
  refine NoPanic.bind (out0_noPanic (by omega)) fun _ _ => ?_
  refine NoPanic.bind (check_noPanic _ _) fun _ _ => ?_
  refine NoPanic.bind (out1_noPanic (by omega)) fun _ _ => ?_
  refine NoPanic.bind (out1_noPanic (by omega)) fun _ _ => ?_
  refine NoPanic.bind (check_noPanic _ _) fun _ _ => ?_
  refine NoPanic.bind (out1_noPanic (by omega)) fun _ _ => ?_
  refine NoPanic.bind (check_noPanic _ _) fun _ _ => ?_
  refine NoPanic.bind (check_noPanic _ _) fun _ _ => ?_
  refine NoPanic.bind (check_noPanic _ _) fun _ _ => ?_
  refine NoPanic.bind (check_noPanic _ _) fun _ _ => ?_
  exact NoPanic.pure _

theorem validateProgram_noPanic {fx : Bool} {cur rev : Rev} {storage coll : Nat}
    (H : fx = true ∨ (StdSafe cur rev ∧ 2 ≤ cur.valid.length ∧ 3 ≤ cur.missed.length ∧ storage + coll < C128)) :
    NoPanic (validateProgram fx cur rev storage coll) := by
  unfold validateProgram
  refine NoPanic.bind (validateStd_noPanic (H.imp id (·.1))) fun _ hstd => ?_
  refine NoPanic.bind (check_noPanic _ _) fun _ h1 => ?_
  res_ok at h1
  have hl := std_lengths hstd (H.imp id (fun h => ⟨h.2.1, by omega⟩))
  have hs := validateStd_ok hstd
  have h3 : 3 ≤ cur.missed.length ∧ 3 ≤ rev.missed.length := by
    have := hs.lenM
    rcases H with H | H
    · have := h1 H; omega
    · omega
  refine NoPanic.bind (out1_noPanic (by omega)) fun _ _ => ?_
  refine NoPanic.bind (out1_noPanic (by omega)) fun _ _ => ?_
  refine NoPanic.bind (check_noPanic _ _) fun _ _ => ?_
  refine NoPanic.bind (caddF_noPanic (H.imp id (·.2.2.2))) fun _ _ => ?_
  refine NoPanic.bind (check_noPanic _ _) fun _ _ => ?_
  refine NoPanic.bind (out2_noPanic (by omega)) fun _ _ => ?_
  refine NoPanic.bind (out2_noPanic (by omega)) fun _ _ => ?_
  refine NoPanic.bind (check_noPanic _ _) fun _ _ => ?_
  refine NoPanic.bind (check_noPanic _ _) fun _ _ => ?_
  refine NoPanic.bind (out0_noPanic (by omega)) fun _ _ => ?_
  refine NoPanic.bind (out0_noPanic (by omega)) fun _ _ => ?_
  refine NoPanic.bind (check_noPanic _ _) fun _ _ => ?_
  refine NoPanic.bind (out1_noPanic (by omega)) fun _ _ => ?_
  refine NoPanic.bind (out1_noPanic (by omega)) fun _ _ => ?_
  refine NoPanic.bind (check_noPanic _ _) fun _ _ => ?_
  refine NoPanic.bind (out0_noPanic (by omega)) fun _ _ => ?_
  refine NoPanic.bind (out0_noPanic (by omega)) fun _ _ => ?_
  refine NoPanic.bind (check_noPanic _ _) fun _ _ => ?_
  exact NoPanic.pure _

/-- current `ValidatePaymentRevision`: additionally the payment must not exceed either renter payout
nor overflow either host payout (the call sites pass `payment = current − proposed renter payout`) -/
theorem validatePayment_noPanic {fx : Bool} {cur rev : Rev} {pay : Nat}
    (H : fx = true ∨ (StdSafe cur rev ∧ 2 ≤ cur.valid.length ∧ 2 ≤ cur.missed.length ∧
      (∀ v, renterVal cur.valid = some v → pay ≤ v) ∧ (∀ v, renterVal cur.missed = some v → pay ≤ v) ∧
      (∀ v, hostVal cur.valid = some v → v + pay < C128) ∧ (∀ v, hostVal cur.missed = some v → v + pay < C128))) :
    NoPanic (validatePayment fx cur rev pay) := by
  unfold validatePayment
  refine NoPanic.bind (validateStd_noPanic (H.imp id (·.1))) fun _ hstd => ?_
  have hl := std_lengths hstd (H.imp id (fun h => ⟨h.2.1, h.2.2.1⟩))
  refine NoPanic.bind (out0_noPanic (by omega)) fun _ _ => ?_
  refine NoPanic.bind (out0_noPanic (by omega)) fun cvr hcvr => ?_
  refine NoPanic.bind (csubF_noPanic (H.imp id fun h => ?_)) fun _ _ => ?_
  · obtain ⟨rest, hr⟩ := out0_ok_iff.mp hcvr
    exact h.2.2.2.1 _ (by rw [hr]; rfl)
  refine NoPanic.bind (check_noPanic _ _) fun _ _ => ?_
  refine NoPanic.bind (out0_noPanic (by omega)) fun _ _ => ?_
  refine NoPanic.bind (out0_noPanic (by omega)) fun cmr hcmr => ?_
  refine NoPanic.bind (csubF_noPanic (H.imp id fun h => ?_)) fun _ _ => ?_
  · obtain ⟨rest, hr⟩ := out0_ok_iff.mp hcmr
    exact h.2.2.2.2.1 _ (by rw [hr]; rfl)
  refine NoPanic.bind (check_noPanic _ _) fun _ _ => ?_
  refine NoPanic.bind (out1_noPanic (by omega)) fun _ _ => ?_
  refine NoPanic.bind (out1_noPanic (by omega)) fun cvh hcvh => ?_
  refine NoPanic.bind (caddF_noPanic (H.imp id fun h => ?_)) fun _ _ => ?_
  · obtain ⟨a, rest, hr⟩ := out1_ok_iff.mp hcvh
    exact h.2.2.2.2.2.1 _ (by rw [hr]; rfl)
  refine NoPanic.bind (check_noPanic _ _) fun _ _ => ?_
  refine NoPanic.bind (out1_noPanic (by omega)) fun _ _ => ?_
  refine NoPanic.bind (out1_noPanic (by omega)) fun cmh hcmh => ?_
  refine NoPanic.bind (caddF_noPanic (H.imp id fun h => ?_)) fun _ _ => ?_
  · obtain ⟨a, rest, hr⟩ := out1_ok_iff.mp hcmh
    exact h.2.2.2.2.2.2 _ (by rw [hr]; rfl)
  exact check_noPanic _ _

theorem clearLoop_noPanic {v c m : List Out} (h1 : v.length ≤ c.length) (h2 : v.length ≤ m.length) :
    NoPanic (clearLoop v c m) := by
  induction v generalizing c m with
  | nil => intro s; simp [clearLoop]
  | cons x xs ih =>
    cases c with
    | nil => simp at h1
    | cons c cs =>
      cases m with
      | nil => simp at h2
      | cons m ms =>
        simp only [clearLoop]
        refine NoPanic.bind (check_noPanic _ _) fun _ _ => ?_
        refine NoPanic.bind (check_noPanic _ _) fun _ _ => ?_
        refine NoPanic.bind (check_noPanic _ _) fun _ _ => ?_
        exact ih (by simpa using h1) (by simpa using h2)

theorem validateClearing_noPanic {fx : Bool} {cur fin : Rev} {pay : Nat}
    (H : fx = true ∨ 2 ≤ cur.valid.length) : NoPanic (validateClearing fx cur fin pay) := by
  unfold validateClearing
  refine NoPanic.bind (check_noPanic _ _) fun _ h1 => ?_
  refine NoPanic.bind (check_noPanic _ _) fun _ _ => ?_
  refine NoPanic.bind (check_noPanic _ _) fun _ _ => ?_
  refine NoPanic.bind (check_noPanic _ _) fun _ _ => ?_
  refine NoPanic.bind (check_noPanic _ _) fun _ _ => ?_
  refine NoPanic.bind (check_noPanic _ _) fun _ _ => ?_
  refine NoPanic.bind (check_noPanic _ _) fun _ h2 => ?_
  refine NoPanic.bind (check_noPanic _ _) fun _ h3 => ?_
  refine NoPanic.bind (check_noPanic _ _) fun _ _ => ?_
  refine NoPanic.bind (check_noPanic _ _) fun _ _ => ?_
  refine NoPanic.bind (check_noPanic _ _) fun _ _ => ?_
  res_ok at h1; res_ok at h2; res_ok at h3
  have hc : 2 ≤ cur.valid.length := by
    rcases H with H | H
    · have := h1 H; omega
    · exact H
  refine NoPanic.bind (out0_noPanic (by omega)) fun _ _ => ?_
  refine NoPanic.bind (out0_noPanic (by omega)) fun _ _ => ?_
  refine NoPanic.bind (check_noPanic _ _) fun _ _ => ?_
  refine NoPanic.bind (out1_noPanic (by omega)) fun _ _ => ?_
  refine NoPanic.bind (out1_noPanic (by omega)) fun _ _ => ?_
  refine NoPanic.bind (check_noPanic _ _) fun _ _ => ?_
  refine NoPanic.bind (check_noPanic _ _) fun _ _ => ?_
  refine NoPanic.bind (check_noPanic _ _) fun _ _ => ?_
  refine NoPanic.bind (clearLoop_noPanic (by omega) (by omega)) fun _ _ => ?_
  exact NoPanic.pure _

/-- **C07 no_panic, repaired variant: NO input makes validation panic.** -/
theorem std_no_panic_fixed (cur rev : Rev) : NoPanic (validateStd true cur rev) :=
  validateStd_noPanic (Or.inl rfl)
theorem revision_no_panic_fixed (cur rev : Rev) (pay coll : Nat) : NoPanic (validateRevision true cur rev pay coll) :=
  validateRevision_noPanic (Or.inl rfl)
theorem program_no_panic_fixed (cur rev : Rev) (storage coll : Nat) :
    NoPanic (validateProgram true cur rev storage coll) := validateProgram_noPanic (Or.inl rfl)
theorem payment_no_panic_fixed (cur rev : Rev) (pay : Nat) : NoPanic (validatePayment true cur rev pay) :=
  validatePayment_noPanic (Or.inl rfl)
theorem clearing_no_panic_fixed (cur fin : Rev) (pay : Nat) : NoPanic (validateClearing true cur fin pay) :=
  validateClearing_noPanic (Or.inl rfl)

/-- **C07 no_panic, current tree, partial:** under the excluding hypotheses -/
theorem revision_no_panic_partial {cur rev : Rev} {pay coll : Nat} (hs : StdSafe cur rev)
    (hv : 2 ≤ cur.valid.length) (hm : 2 ≤ cur.missed.length) : NoPanic (validateRevision false cur rev pay coll) :=
  validateRevision_noPanic (Or.inr ⟨hs, hv, hm⟩)
theorem program_no_panic_partial {cur rev : Rev} {storage coll : Nat} (hs : StdSafe cur rev)
    (hv : 2 ≤ cur.valid.length) (hm : 3 ≤ cur.missed.length) (hc : storage + coll < C128) :
    NoPanic (validateProgram false cur rev storage coll) :=
  validateProgram_noPanic (Or.inr ⟨hs, hv, hm, hc⟩)
theorem clearing_no_panic_partial {cur fin : Rev} {pay : Nat} (hv : 2 ≤ cur.valid.length) :
    NoPanic (validateClearing false cur fin pay) :=
  validateClearing_noPanic (Or.inr hv)

example : StdSafe exCur exRev := by constructor <;> decide

/-! the negation for the current tree: concrete panicking inputs (corpus/revision/c07_witnesses.trace
replays exactly these on the real functions) -/

/-- (a) a proposal with more outputs than the current revision: `current.ValidProofOutputs[2]` -/
theorem revision_panics_more_outputs :
    validateRevision false exCur { exRev with valid := exRev.valid ++ [⟨3, 0⟩] } 10 5 = .panic .stdCurValidIndex := by
  decide +kernel
/-- (b) the renter-supplied output sum overflows 2^128 (reachable through `Revise`, which copies the
renter's values): `validPayout.Add` -/
theorem revision_panics_sum_overflow :
    (revise exCur 6 [C128 - 1, 60] [90, 35, 25]).bind (fun r => validateRevision false exCur r 10 5)
      = .panic .stdValidSum := by decide +kernel
/-- (c) zero outputs: `revision.ValidRenterPayout()` -/
theorem revision_panics_zero_outputs :
    validateRevision false { exCur with valid := [], missed := [] } { exCur with revNo := 6, valid := [], missed := [] } 0 0
      = .panic .stdRevValidRenter := by decide +kernel
/-- a single output: `current.MissedHostPayout()` -/
theorem revision_panics_one_output :
    validateRevision false { exCur with valid := [⟨1, 5⟩], missed := [⟨1, 5⟩] }
      { exCur with revNo := 6, valid := [⟨1, 5⟩], missed := [⟨1, 5⟩] } 0 0 = .panic .revCurMissedHost := by decide +kernel
/-- `ValidateProgramRevision` with two missed outputs: `revision.MissedProofOutputs[2]` -/
theorem program_panics_two_missed :
    validateProgram false { exCur with missed := [⟨1, 100⟩, ⟨2, 50⟩] }
      { exCur with revNo := 6, missed := [⟨1, 100⟩, ⟨2, 50⟩] } 0 0 = .panic .progRevVoid := by decide +kernel
/-- `ValidateProgramRevision`: `storage.Add(collateral)` -/
theorem program_panics_cost_overflow :
    validateProgram false exCur { exCur with revNo := 6 } (C128 - 1) 1 = .panic .progExpectedBurn := by decide +kernel
/-- `ValidatePaymentRevision`: `current.ValidRenterPayout().Sub(payment)` -/
theorem payment_panics_underflow :
    validatePayment false exCur { exCur with revNo := 6 } 101 = .panic .payValidRenterSub := by decide +kernel
/-- `ValidateClearingRevision` on a current revision with one valid output: `current.ValidHostPayout()` -/
theorem clearing_panics_one_output :
    validateClearing false { exCur with valid := [⟨1, 150⟩] } exFin 0 = .panic .clrCurValidHost := by decide +kernel

/-- none of them panics after the repair -/
example : validateRevision true exCur { exRev with valid := exRev.valid ++ [⟨3, 0⟩] } 10 5 = .reject .validCount := by decide +kernel
example : (revise exCur 6 [C128 - 1, 60] [90, 35, 25]).bind (fun r => validateRevision true exCur r 10 5)
    = .reject .sumOverflow := by decide +kernel
example : validateProgram true { exCur with missed := [⟨1, 100⟩, ⟨2, 50⟩] }
    { exCur with revNo := 6, missed := [⟨1, 100⟩, ⟨2, 50⟩] } 0 0 = .reject .curShape := by decide +kernel

end Hostd.Revision
