import Hostd.Model.Volumes
import Hostd.Lemmas.Volumes
import Hostd.Props.C08
/-!
# C02 — Referenced sector data stays retrievable and intact

`DataInv` is the read-intact invariant of `Model/Volumes.lean` (data layer): every occupied slot that
is not being written holds its sector's data, non-durable data is known to be unsynced, every
referenced sector that was not dropped by a forced removal / `RemoveSector` has a slot, is synced and
is not in flight, and a cached buffer holds the data of its key.

* `C02_read_intact_partial`  `MetaOK ∧ DataInv` holds in every state reachable by histories whose steps
                             satisfy `Safe` (the excluded schedules are listed there, explicitly);
* `C02_read_of_inv`          under the invariant a read of a referenced, not-lost root returns its data,
                             from a durable slot;
* `C02_*_witness`            for the excluded schedules on which the CURRENT CODE breaks the property:
                             Lean-checked counterexamples (`decide`) — replayed on the real
                             `VolumeManager` by `corpus/volumes/c02_*.trace`;
* lemmas: migration at every failure index, shrink, prune, lost-sector accounting.
-/
set_option linter.unusedSimpArgs false
set_option linter.unusedVariables false
namespace Hostd.Props.C02
open Hostd.Volumes Hostd.Props.C08

/-! ## definitions -/

def pendingAt (s : State) (v i : Nat) (r : SectorId) : Prop := ∃ p ∈ s.pending, p.v = v ∧ p.i = i ∧ p.r = r
def isPending (s : State) (r : SectorId) : Prop := ∃ p ∈ s.pending, p.r = r

structure DataInv (s : State) : Prop where
  /-- an occupied slot holds its sector's data unless a writer is between slot commit and data write -/
  slotData : ∀ v i sl r, slotAt s.vols v i = some sl → sl.sec = some r → pendingAt s v i r ∨ sl.content = .dataOf r
  /-- data that is not fsynced belongs to a sector written since the last Sync -/
  slotDur : ∀ v i sl r, slotAt s.vols v i = some sl → sl.sec = some r → sl.durable = false → r ∈ s.unsynced ∨ pendingAt s v i r
  /-- referenced ⇒ lost by an operator action, or stored, synced and not in flight -/
  refSafe : ∀ r, referenced s r = true → r ∈ s.lostNow ∨ (located s.vols r = true ∧ r ∉ s.unsynced ∧ ¬ isPending s r)
  /-- acknowledged within the prune interval ⇒ stored and not in flight -/
  freshSafe : ∀ r ∈ s.fresh, located s.vols r = true ∧ ¬ isPending s r
  freshRec : ∀ r ∈ s.fresh, r ∈ s.recent
  /-- a cached buffer holds the data of its key -/
  cacheGood : ∀ e ∈ s.cache, s.heap[e.2]? = some (.dataOf e.1)
  locStored : ∀ r, located s.vols r = true → s.stored.contains r = true
  /-- unsynced file content only exists in volumes marked as changed — or in a volume whose flag a
  running (serialised) Sync has just cleared and is about to fsync -/
  dirtyChanged : ∀ v i sl, slotAt s.vols v i = some sl → sl.durable = false → v ∈ s.changed ∨ v ∈ s.inflight
  /-- `StoreSector` calls in flight belong to distinct writers -/
  pendW : (s.pending.map (·.w)).Nodup

def Inv (s : State) : Prop := MetaOK s ∧ DataInv s

/-- a caller may reference `r`: it already is referenced, or it was acknowledged within the prune
interval and `Sync` has returned since its data was written (what rhp/v2 and rhp/v3 do) -/
def Committable (s : State) (r : SectorId) : Prop := referenced s r = true ∨ (r ∈ s.fresh ∧ r ∉ s.unsynced)

def newRoots : List Change → List SectorId
  | [] => []
  | .append r :: cs => r :: newRoots cs
  | .update _ r :: cs => r :: newRoots cs
  | _ :: cs => newRoots cs

def freeAt (vs : List Volume) (v i : Nat) : Prop := ∀ sl, slotAt vs v i = some sl → sl.sec = none

/-- **Schedules excluded from `C02_read_intact_partial`.** Beyond `C08.Safe`:
* `mutate`: the buffer is not one the sector cache holds a pointer to        (current code: `C02_cache_alias_witness`)
* `crash`: no writer between slot commit and data write, and only free slots lose unsynced content
                                                                             (current code: `C02_crash_reupload_witness`)
* `reserve`: no second upload of a root while its first upload is in flight  (current code: `C02_two_writers_witness`)
* references are created by the upload protocol only (`Committable`)         (`VolumeManager.StoreSector` does not: `C02_unsynced_temp_witness`)
* the buffer handed to `Write` holds the data of the root when it is written (caller obligation)
* no read of a root whose upload is in flight (it is neither acknowledged nor referenced)
* the atomic `sync` is not run while another Sync is between its two phases (`Sync` is serialised) -/
def Safe (s : State) (op : Op) : Prop :=
  C08.Safe s op ∧
  match op with
  | .mutate b _ => ∀ e ∈ s.cache, e.2 ≠ b
  | .crash lost => s.pending = [] ∧ ∀ p ∈ lost, freeAt s.vols p.1 p.2
  | .reserve _ r _ _ => ¬ isPending s r
  | .finish w ok => ok = true → ∀ p, findPending w s.pending = some p → s.heap[p.buf]? = some (.dataOf p.r)
  | .revise1 _ chs => ∀ r ∈ newRoots chs, Committable s r
  | .revise2 _ roots => ∀ r ∈ roots, Committable s r
  | .addTemp r _ => Committable s r
  | .addTemps l => ∀ t ∈ l, Committable s t.sec
  | .read r => ¬ isPending s r
  | .sync => s.inflight = []
  | _ => True

/-! ## located / holdsAt -/

theorem located_of_holdsAt {vs : List Volume} {v i : Nat} {r : SectorId} (h : holdsAt vs v i r) : located vs r = true :=
  (located_true_iff vs r).mpr (holdsAt_cnt h)

theorem idxOf_of_any {r : SectorId} {l : List Slot} (k : Nat) (h : l.any (holds r) = true) : ∃ j, idxOf r l k = some j := by
  induction l generalizing k with
  | nil => simp at h
  | cons x xs ih =>
    simp only [idxOf]
    split
    · exact ⟨k, rfl⟩
    · rename_i hx
      simp only [List.any_cons, Bool.or_eq_true] at h
      rcases h with h | h
      · exact absurd h hx
      · exact ih (k + 1) h

theorem findLoc_of_located {vs : List Volume} {r : SectorId} (h : located vs r = true) : ∃ v i, findLoc vs r = some (v, i) := by
  induction vs with
  | nil => simp [located] at h
  | cons x xs ih =>
    simp only [findLoc]
    cases hi : idxOf r x.slots 0 with
    | some j => exact ⟨x.id, j, rfl⟩
    | none =>
      simp only [located, List.any_cons, Bool.or_eq_true] at h
      rcases h with h | h
      · obtain ⟨j, hj⟩ := idxOf_of_any 0 h
        rw [hj] at hi; cases hi
      · exact ih h

theorem holdsAt_of_located {vs : List Volume} (hn : (vs.map (·.id)).Nodup) {r : SectorId} (h : located vs r = true) :
    ∃ v i, holdsAt vs v i r := by
  obtain ⟨v, i, hl⟩ := findLoc_of_located h
  exact ⟨v, i, findLoc_spec hn hl⟩

/-! ## how the slot table changes -/

theorem slotAt_syncVol (vs : List Volume) (w v i : Nat) :
    slotAt (syncVol w vs) v i = if v = w then (slotAt vs v i).map (fun sl => { sl with durable := true }) else slotAt vs v i := by
  have key := slotAt_updVol w v i (fun x : Volume => { x with slots := x.slots.map fun sl => { sl with durable := true } })
    (fun _ => rfl) vs
  simp only [syncVol]
  rw [key]
  by_cases h : v = w
  · subst h
    simp only [if_true, slotAt]
    cases findVol v vs <;> simp
  · simp [h]

theorem slotAt_map (g : Volume → Volume) (hg : ∀ x, (g x).id = x.id) (vs : List Volume) (v i : Nat) :
    slotAt (vs.map g) v i = match findVol v vs with | none => none | some vol => (g vol).slots[i]? := by
  simp only [slotAt, findVol_map _ _ hg]
  cases findVol v vs <;> rfl

theorem slotAt_filter (vs : List Volume) (w v i : Nat) {sl : Slot}
    (h : slotAt (vs.filter fun x => x.id != w) v i = some sl) : v ≠ w ∧ slotAt vs v i = some sl := by
  obtain ⟨vol, hv, hs⟩ := slotAt_split h
  have hm := (findVol_some hv)
  have hne : v ≠ w := by
    have := (List.mem_filter.mp hm.1).2
    rw [← hm.2]; simpa using this
  refine ⟨hne, ?_⟩
  rw [findVol_filter_ne vs hne] at hv
  simp [slotAt, hv, hs]

theorem slotAt_append_new (vs : List Volume) (nv : Volume) (hn : nv.slots = []) (v i : Nat) {sl : Slot}
    (h : slotAt (vs ++ [nv]) v i = some sl) : slotAt vs v i = some sl := by
  obtain ⟨vol, hv, hs⟩ := slotAt_split h
  cases hf : findVol v vs with
  | some vol' =>
    rw [findVol_append_of_some hf] at hv; cases hv
    simp [slotAt, hf, hs]
  | none =>
    rw [findVol_append_of_none hf] at hv
    simp only [findVol] at hv
    split at hv
    · cases hv; rw [hn] at hs; simp at hs
    · cases hv

theorem crashSlots_get (v : Nat) (lost : List (Nat × Nat)) (l : List Slot) (k j : Nat) :
    (crashSlots v lost l k)[j]? = (l[j]?).map fun x =>
      if lost.contains (v, k + j) then { x with content := .garbage, durable := true } else { x with durable := true } := by
  induction l generalizing k j with
  | nil => simp [crashSlots]
  | cons x xs ih =>
    cases j with
    | zero => simp [crashSlots]
    | succ j =>
      simp only [crashSlots, List.getElem?_cons_succ, ih]
      rw [show k + 1 + j = k + (j + 1) by omega]

/-! ## located under the table transformations -/

theorem cnt_of_skel {vs vs' : List Volume} (h : vs'.map skel = vs.map skel) (r : SectorId) : cnt vs' r = cnt vs r := by
  apply sumBy_of_skel _ _ h
  intro a b e
  simp only [skel, Prod.mk.injEq] at e
  exact countHolds_eq_of_secs r e.2.2.2

theorem located_eq_of_cnt {vs vs' : List Volume} {r : SectorId} (h : cnt vs' r = cnt vs r) : located vs' r = located vs r := by
  cases h1 : located vs r <;> cases h2 : located vs' r <;> try rfl
  · have := (located_false_iff vs r).mp h1; have := (located_true_iff vs' r).mp h2; omega
  · have := (located_true_iff vs r).mp h1; have := (located_false_iff vs' r).mp h2; omega

theorem located_of_skel {vs vs' : List Volume} (h : vs'.map skel = vs.map skel) (r : SectorId) : located vs' r = located vs r :=
  located_eq_of_cnt (cnt_of_skel h r)

theorem located_mono_of_cnt {vs vs' : List Volume} {r : SectorId} (h : cnt vs' r ≤ cnt vs r) (hl : located vs' r = true) :
    located vs r = true := by
  have := (located_true_iff vs' r).mp hl
  exact (located_true_iff vs r).mpr (by omega)

/-- changing one slot: sectors other than the ones entering/leaving that slot keep their location count -/
theorem cnt_modVol_other {vs : List Volume} (hn : (vs.map (·.id)).Nodup) {v i : Nat} {sl : Slot}
    (hs : slotAt vs v i = some sl) (f : Slot → Slot) (u : Nat → Nat) (r' : SectorId)
    (h1 : holds r' sl = holds r' (f sl)) : cnt (updVol v (modVol i f u) vs) r' = cnt vs r' := by
  obtain ⟨vol, hv, hsl⟩ := slotAt_split hs
  have := cnt_modVol hn hv hsl f u r'
  rw [h1] at this
  omega

theorem updVol_noop {vs : List Volume} {v : Nat} (g : Volume → Volume) (h : findVol v vs = none) : updVol v g vs = vs := by
  have := findVol_none h
  simp only [updVol]
  conv => rhs; rw [← List.map_id vs]
  apply List.map_congr_left
  intro x hx
  simp [this x hx]

theorem modVol_noop {vs : List Volume} {v i : Nat} (f : Slot → Slot) (hs : slotAt vs v i = none)
    (hn : (vs.map (·.id)).Nodup) : (updVol v (modVol i f id) vs) = vs := by
  cases hv : findVol v vs with
  | none => exact updVol_noop _ hv
  | some vol =>
    simp only [updVol]
    conv => rhs; rw [← List.map_id vs]
    apply List.map_congr_left
    intro x hx
    by_cases hid : x.id = v
    · have := eq_of_findVol hn hv hx hid
      subst this
      simp only [hid, if_true, modVol, id]
      have : x.slots[i]? = none := by simpa [slotAt, hv] using hs
      rw [modAt_of_none i f x.slots this]
      cases x; simp_all
    · simp [hid]

/-! ## operations that leave the slot table alone -/

theorem heap_append_get {h : List Content} {b : Nat} {c x : Content} (hb : h[b]? = some c) : (h ++ [x])[b]? = some c := by
  have : b < h.length := (List.getElem?_eq_some_iff.mp hb).1
  rw [List.getElem?_append_left this]; exact hb

/-- vols, pending, unsynced unchanged; references may only shrink or grow by committable roots;
fresh shrinks; recent, lostNow, stored, changed grow; heap grows at the end; the cache is given -/
theorem dataInv_frame {s s' : State} (h : DataInv s)
    (hv : s'.vols = s.vols) (hp : s'.pending = s.pending) (hu : s'.unsynced = s.unsynced)
    (hl : ∀ r ∈ s.lostNow, r ∈ s'.lostNow)
    (hr : ∀ r, referenced s' r = true → Committable s r)
    (hf : ∀ r ∈ s'.fresh, located s.vols r = true ∧ ¬ isPending s r) (hrec : ∀ r ∈ s'.fresh, r ∈ s'.recent)
    (hc : ∀ e ∈ s'.cache, s'.heap[e.2]? = some (.dataOf e.1))
    (hst : ∀ r, s.stored.contains r = true → s'.stored.contains r = true)
    (hch : ∀ v ∈ s.changed, v ∈ s'.changed)
    (hin : ∀ v ∈ s.inflight, v ∈ s'.inflight := by intro _ hx; exact hx) : DataInv s' := by
  have hpa : ∀ v i r, pendingAt s v i r → pendingAt s' v i r := by
    intro v i r ⟨p, hp', e⟩; exact ⟨p, hp ▸ hp', e⟩
  have hip : ∀ r, isPending s' r → isPending s r := by
    intro r ⟨p, hp', e⟩; exact ⟨p, hp ▸ hp', e⟩
  refine ⟨?_, ?_, ?_, ?_, hrec, hc, ?_, ?_, by rw [hp]; exact h.pendW⟩
  · intro v i sl r h1 h2
    rw [hv] at h1
    rcases h.slotData v i sl r h1 h2 with h3 | h3
    · exact Or.inl (hpa v i r h3)
    · exact Or.inr h3
  · intro v i sl r h1 h2 h3
    rw [hv] at h1; rw [hu]
    rcases h.slotDur v i sl r h1 h2 h3 with h4 | h4
    · exact Or.inl h4
    · exact Or.inr (hpa v i r h4)
  · intro r hr'
    rw [hv, hu]
    rcases hr r hr' with h1 | ⟨h1, h2⟩
    · rcases h.refSafe r h1 with h3 | ⟨h3, h4, h5⟩
      · exact Or.inl (hl r h3)
      · exact Or.inr ⟨h3, h4, fun e => h5 (hip r e)⟩
    · obtain ⟨h3, h4⟩ := h.freshSafe r h1
      exact Or.inr ⟨h3, h2, fun e => h4 (hip r e)⟩
  · intro r hr'
    rw [hv]
    obtain ⟨h3, h4⟩ := hf r hr'
    exact ⟨h3, fun e => h4 (hip r e)⟩
  · intro r hr'
    rw [hv] at hr'
    exact hst r (h.locStored r hr')
  · intro v i sl h1 h2
    rw [hv] at h1
    exact (h.dirtyChanged v i sl h1 h2).imp (hch v) (hin v)

theorem committable_of_ref {s : State} {r : SectorId} (h : referenced s r = true) : Committable s r := Or.inl h

/-! ### references -/

theorem mem_set_cases {l : List Nat} {i x a : Nat} (h : a ∈ l.set i x) : a ∈ l ∨ a = x := by
  rcases List.mem_or_eq_of_mem_set h with h | h
  · exact Or.inl h
  · exact Or.inr h

theorem applyChange_mem {stored roots roots' : List SectorId} {c : Change} (h : applyChange stored roots c = .ok roots')
    {a : SectorId} (ha : a ∈ roots') : a ∈ roots ∨ a ∈ newRoots [c] := by
  cases c with
  | append r =>
    simp only [applyChange] at h
    split at h
    · cases h; simp [newRoots] at ha ⊢; exact ha
    · cases h
  | trim n =>
    simp only [applyChange] at h
    split at h
    · cases h; exact Or.inl (List.mem_of_mem_take ha)
    · cases h
  | update i r =>
    simp only [applyChange] at h
    split at h
    · cases h
      rcases mem_set_cases ha with h1 | h1
      · exact Or.inl h1
      · simp [newRoots, h1]
    · cases h
  | swap i j =>
    simp only [applyChange] at h
    split at h
    · split at h
      · cases h; exact Or.inl ha
      · cases h
    · split at h
      · rename_i x y hx hy
        cases h
        rcases mem_set_cases ha with h1 | h1
        · rcases mem_set_cases h1 with h2 | h2
          · exact Or.inl h2
          · exact Or.inl (h2 ▸ List.mem_of_getElem? hy)
        · exact Or.inl (h1 ▸ List.mem_of_getElem? hx)
      · cases h

theorem newRoots_cons (c : Change) (cs : List Change) : newRoots (c :: cs) = newRoots [c] ++ newRoots cs := by
  cases c <;> simp [newRoots]

theorem applyChanges_mem {stored : List SectorId} {chs : List Change} : ∀ {roots roots' : List SectorId},
    applyChanges stored roots chs = .ok roots' → ∀ {a : SectorId}, a ∈ roots' → a ∈ roots ∨ a ∈ newRoots chs := by
  induction chs with
  | nil => intro roots roots' h a ha; simp only [applyChanges] at h; cases h; exact Or.inl ha
  | cons c cs ih =>
    intro roots roots' h a ha
    simp only [applyChanges] at h
    cases h1 : applyChange stored roots c with
    | ok r1 =>
      rw [h1] at h
      rcases ih h ha with h2 | h2
      · rcases applyChange_mem h1 h2 with h3 | h3
        · exact Or.inl h3
        · right; rw [newRoots_cons]; exact List.mem_append_left _ h3
      · right; rw [newRoots_cons]; exact List.mem_append_right _ h2
    | err => rw [h1] at h; cases h
    | panic => rw [h1] at h; cases h

theorem refd1_setRoots {s : State} {c : Nat} {roots : List SectorId} {r : SectorId}
    (h : (setRoots1 c roots s.c1).any (fun x => x.roots.contains r) = true) : r ∈ roots ∨ refd1 s r = true := by
  simp only [List.any_eq_true, setRoots1, List.mem_map] at h
  obtain ⟨x, ⟨y, hy, rfl⟩, hx⟩ := h
  split at hx
  · left; simpa using hx
  · right; simp only [refd1, List.any_eq_true]; exact ⟨y, hy, hx⟩

theorem refd2_setRoots {s : State} {c : Nat} {roots : List SectorId} {r : SectorId}
    (h : (setRoots2 c roots s.c2).any (fun x => x.roots.contains r) = true) : r ∈ roots ∨ refd2 s r = true := by
  simp only [List.any_eq_true, setRoots2, List.mem_map] at h
  obtain ⟨x, ⟨y, hy, rfl⟩, hx⟩ := h
  split at hx
  · left; simpa using hx
  · right; simp only [refd2, List.any_eq_true]; exact ⟨y, hy, hx⟩

theorem refd1_of_mem {s : State} {con : C1} (hc : con ∈ s.c1) {r : SectorId} (hr : r ∈ con.roots) : referenced s r = true := by
  simp only [referenced, refd1, Bool.or_eq_true, List.any_eq_true]
  exact Or.inl (Or.inl ⟨con, hc, by simpa using hr⟩)
theorem refd2_of_mem {s : State} {con : C2} (hc : con ∈ s.c2) {r : SectorId} (hr : r ∈ con.roots) : referenced s r = true := by
  simp only [referenced, refd2, Bool.or_eq_true, List.any_eq_true]
  exact Or.inl (Or.inr ⟨con, hc, by simpa using hr⟩)

theorem revise1_data {s : State} (h : DataInv s) (c : Nat) (chs : List Change) (hs : ∀ r ∈ newRoots chs, Committable s r) :
    DataInv (revise1 s c chs).1 := by
  simp only [revise1]
  split
  · exact h
  rename_i con hc
  split
  · exact h
  · exact h
  rename_i roots' happ
  split
  · exact h
  refine dataInv_frame h rfl rfl rfl (fun _ hx => hx) ?_ h.freshSafe h.freshRec h.cacheGood (fun _ hx => hx) (fun _ hx => hx)
  intro r hr
  simp only [referenced, Bool.or_eq_true] at hr
  rcases hr with (hr | hr) | hr
  · rcases refd1_setRoots hr with h1 | h1
    · rcases applyChanges_mem happ h1 with h2 | h2
      · exact Or.inl (refd1_of_mem (findC1_mem hc) h2)
      · exact hs r h2
    · exact Or.inl (by simp [referenced, h1])
  · exact Or.inl (by simp only [referenced, Bool.or_eq_true]; exact Or.inl (Or.inr hr))
  · exact Or.inl (by simp only [referenced, Bool.or_eq_true]; exact Or.inr hr)

theorem revise2_data {s : State} (h : DataInv s) (c : Nat) (roots : List SectorId) (hs : ∀ r ∈ roots, Committable s r) :
    DataInv (revise2 s c roots).1 := by
  simp only [revise2]
  split
  · exact h
  split
  · exact h
  split
  · exact h
  refine dataInv_frame h rfl rfl rfl (fun _ hx => hx) ?_ h.freshSafe h.freshRec h.cacheGood (fun _ hx => hx) (fun _ hx => hx)
  intro r hr
  simp only [referenced, Bool.or_eq_true] at hr
  rcases hr with (hr | hr) | hr
  · exact Or.inl (by simp only [referenced, Bool.or_eq_true]; exact Or.inl (Or.inl hr))
  · rcases refd2_setRoots hr with h1 | h1
    · exact hs r h1
    · exact Or.inl (by simp [referenced, h1])
  · exact Or.inl (by simp only [referenced, Bool.or_eq_true]; exact Or.inr hr)

theorem addTemp_data {s : State} (h : DataInv s) (r : SectorId) (exp : Nat) (hs : Committable s r) : DataInv (addTemp s r exp).1 := by
  simp only [addTemp]
  split
  · exact h
  refine dataInv_frame h rfl rfl rfl (fun _ hx => hx) ?_ h.freshSafe h.freshRec h.cacheGood (fun _ hx => hx) (fun _ hx => hx)
  intro r' hr
  simp only [referenced, refdT, Bool.or_eq_true, List.any_append, List.any_cons, List.any_nil, Bool.or_false] at hr
  rcases hr with hr | hr | hr
  · exact Or.inl (by simp only [referenced, Bool.or_eq_true]; exact Or.inl hr)
  · exact Or.inl (by simp only [referenced, refdT, Bool.or_eq_true]; exact Or.inr hr)
  · have : r = r' := by simpa using hr
    exact this ▸ hs

theorem addTemps_data {s : State} (h : DataInv s) (l : List Temp) (hs : ∀ t ∈ l, Committable s t.sec) : DataInv (addTemps s l).1 := by
  simp only [addTemps]
  split
  · exact h
  refine dataInv_frame h rfl rfl rfl (fun _ hx => hx) ?_ h.freshSafe h.freshRec h.cacheGood (fun _ hx => hx) (fun _ hx => hx)
  intro r' hr
  simp only [referenced, refdT, Bool.or_eq_true, List.any_append] at hr
  rcases hr with hr | hr | hr
  · exact Or.inl (by simp only [referenced, Bool.or_eq_true]; exact Or.inl hr)
  · exact Or.inl (by simp only [referenced, refdT, Bool.or_eq_true]; exact Or.inr hr)
  · simp only [List.any_eq_true] at hr
    obtain ⟨t, ht, e⟩ := hr
    have : t.sec = r' := by simpa using e
    exact this ▸ hs t ht

/-- the references only shrink (status changes, new empty contracts, expiry) -/
theorem dataInv_refs_shrink {s s' : State} (h : DataInv s)
    (hv : s'.vols = s.vols) (hp : s'.pending = s.pending) (hu : s'.unsynced = s.unsynced) (hl : s'.lostNow = s.lostNow)
    (hf : s'.fresh = s.fresh) (hrec : s'.recent = s.recent) (hc : s'.cache = s.cache) (hh : s'.heap = s.heap)
    (hst : s'.stored = s.stored) (hch : s'.changed = s.changed)
    (hr : ∀ r, referenced s' r = true → referenced s r = true) (hin : s'.inflight = s.inflight := by rfl) : DataInv s' :=
  dataInv_frame h hv hp hu (fun r hx => hl ▸ hx) (fun r hx => Or.inl (hr r hx)) (fun r hx => h.freshSafe r (hf ▸ hx))
    (fun r hx => by rw [hrec]; exact h.freshRec r (hf ▸ hx)) (fun e he => by rw [hh]; exact h.cacheGood e (hc ▸ he))
    (fun r hx => hst ▸ hx) (fun v hx => hch ▸ hx) (fun v hx => hin ▸ hx)

theorem any_map_roots1 (g : C1 → C1) (hg : ∀ c a, a ∈ (g c).roots → a ∈ c.roots) (cs : List C1) (r : SectorId)
    (h : (cs.map g).any (fun c => c.roots.contains r) = true) : cs.any (fun c => c.roots.contains r) = true := by
  simp only [List.any_eq_true, List.mem_map] at h ⊢
  obtain ⟨x, ⟨y, hy, rfl⟩, hx⟩ := h
  exact ⟨y, hy, by simpa using hg y r (by simpa using hx)⟩
theorem any_map_roots2 (g : C2 → C2) (hg : ∀ c a, a ∈ (g c).roots → a ∈ c.roots) (cs : List C2) (r : SectorId)
    (h : (cs.map g).any (fun c => c.roots.contains r) = true) : cs.any (fun c => c.roots.contains r) = true := by
  simp only [List.any_eq_true, List.mem_map] at h ⊢
  obtain ⟨x, ⟨y, hy, rfl⟩, hx⟩ := h
  exact ⟨y, hy, by simpa using hg y r (by simpa using hx)⟩

theorem refs_of_c1_shrink {s s' : State} (h1 : ∀ r, refd1 s' r = true → refd1 s r = true) (h2 : s'.c2 = s.c2) (h3 : s'.temps = s.temps)
    (r : SectorId) (h : referenced s' r = true) : referenced s r = true := by
  simp only [referenced, refd2, refdT, Bool.or_eq_true, h2, h3] at h ⊢
  rcases h with (h | h) | h
  · exact Or.inl (Or.inl (h1 r h))
  · exact Or.inl (Or.inr h)
  · exact Or.inr h
theorem refs_of_c2_shrink {s s' : State} (h1 : s'.c1 = s.c1) (h2 : ∀ r, refd2 s' r = true → refd2 s r = true) (h3 : s'.temps = s.temps)
    (r : SectorId) (h : referenced s' r = true) : referenced s r = true := by
  simp only [referenced, refd1, refdT, Bool.or_eq_true, h1, h3] at h ⊢
  rcases h with (h | h) | h
  · exact Or.inl (Or.inl h)
  · exact Or.inl (Or.inr (h2 r h))
  · exact Or.inr h

theorem setStatus1_data {s : State} (h : DataInv s) (id : Nat) (st : S1) : DataInv (setStatus1 s id st) :=
  dataInv_refs_shrink h rfl rfl rfl rfl rfl rfl rfl rfl rfl rfl
    (refs_of_c1_shrink (fun r hr => any_map_roots1 _ (by intro c a ha; split at ha <;> exact ha) _ r hr) rfl rfl)
theorem setStatus2_data {s : State} (h : DataInv s) (id : Nat) (st : S2) : DataInv (setStatus2 s id st) :=
  dataInv_refs_shrink h rfl rfl rfl rfl rfl rfl rfl rfl rfl rfl
    (refs_of_c2_shrink rfl (fun r hr => any_map_roots2 _ (by intro c a ha; split at ha <;> exact ha) _ r hr) rfl)

theorem addC1_data {s : State} (h : DataInv s) (id wEnd : Nat) : DataInv (addC1 s id wEnd).1 := by
  simp only [addC1]
  split
  · exact h
  · refine dataInv_refs_shrink h rfl rfl rfl rfl rfl rfl rfl rfl rfl rfl (refs_of_c1_shrink ?_ rfl rfl)
    intro r hr
    simpa [refd1, List.any_append] using hr
theorem addC2_data {s : State} (h : DataInv s) (id expH : Nat) : DataInv (addC2 s id expH).1 := by
  simp only [addC2]
  split
  · exact h
  · refine dataInv_refs_shrink h rfl rfl rfl rfl rfl rfl rfl rfl rfl rfl (refs_of_c2_shrink rfl ?_ rfl)
    intro r hr
    simpa [refd2, List.any_append] using hr

theorem expire1_data {s : State} (f : Facts) (h : DataInv s) (ht : Nat) : DataInv (expire1 f s ht).1 := by
  simp only [expire1]
  split
  · exact h
  · exact dataInv_refs_shrink h rfl rfl rfl rfl rfl rfl rfl rfl rfl rfl
      (refs_of_c1_shrink (fun r hr => any_map_roots1 _ (by intro c a ha; split at ha; simp at ha; exact ha) _ r hr) rfl rfl)
theorem expire2_data {s : State} (f : Facts) (h : DataInv s) (ht : Nat) : DataInv (expire2 f s ht).1 := by
  simp only [expire2]
  split
  · exact h
  · exact dataInv_refs_shrink h rfl rfl rfl rfl rfl rfl rfl rfl rfl rfl
      (refs_of_c2_shrink rfl (fun r hr => any_map_roots2 _ (by intro c a ha; split at ha; simp at ha; exact ha) _ r hr) rfl)
theorem expireTemp_data {s : State} (h : DataInv s) (ht : Nat) : DataInv (expireTemp s ht).1 := by
  simp only [expireTemp]
  split
  · exact h
  · refine dataInv_refs_shrink h rfl rfl rfl rfl rfl rfl rfl rfl rfl rfl ?_
    intro r hr
    simp only [referenced, refd1, refd2, refdT, Bool.or_eq_true, List.any_eq_true, List.mem_filter] at hr ⊢
    rcases hr with hr | ⟨t, ⟨ht', _⟩, e⟩
    · exact Or.inl hr
    · exact Or.inr ⟨t, ht', e⟩

theorem tick_data {s : State} (h : DataInv s) : DataInv (tick s) :=
  dataInv_frame h rfl rfl rfl (fun _ hx => hx) (fun r hr => Or.inl hr) (by simp [tick]) (by simp [tick]) h.cacheGood
    (fun _ hx => hx) (fun _ hx => hx)

theorem newBuf_data {s : State} (h : DataInv s) (c : Content) : DataInv (newBuf s c).1 :=
  dataInv_frame h rfl rfl rfl (fun _ hx => hx) (fun r hr => Or.inl hr) h.freshSafe h.freshRec
    (fun e he => heap_append_get (h.cacheGood e he)) (fun _ hx => hx) (fun _ hx => hx)

theorem mutate_data {s : State} (h : DataInv s) (b : BufId) (c : Content) (hs : ∀ e ∈ s.cache, e.2 ≠ b) : DataInv (mutate s b c).1 := by
  simp only [mutate]
  split
  · refine dataInv_frame h rfl rfl rfl (fun _ hx => hx) (fun r hr => Or.inl hr) h.freshSafe h.freshRec ?_ (fun _ hx => hx) (fun _ hx => hx)
    intro e he
    show (s.heap.set b c)[e.2]? = _
    rw [List.getElem?_set_ne (fun e' => hs e he e'.symm)]
    exact h.cacheGood e he
  · exact h

theorem resizeCache_data {s : State} (h : DataInv s) (n : Nat) : DataInv (resizeCache s n) :=
  dataInv_frame h rfl rfl rfl (fun _ hx => hx) (fun r hr => Or.inl hr) h.freshSafe h.freshRec
    (fun e he => h.cacheGood e (List.mem_of_mem_take he)) (fun _ hx => hx) (fun _ hx => hx)

/-! ## StoreSector -/

theorem cnt_placeAt {vs : List Volume} (hn : (vs.map (·.id)).Nodup) {v i : Nat} {sl : Slot} (hs : slotAt vs v i = some sl)
    (hfree : sl.sec = none) (r r' : SectorId) : cnt (placeAt vs v i r) r' = cnt vs r' + (if r' = r then 1 else 0) := by
  obtain ⟨vol, hv, hsl⟩ := slotAt_split hs
  have := cnt_modVol hn hv hsl (setSec (some r)) (· + 1) r'
  rw [placeAt_eq]
  simp only [holds, hfree, setSec] at this
  by_cases e : r' = r
  · subst e; simpa using this
  · have e' : ¬ r = r' := fun x => e x.symm
    simpa [e, e'] using this

theorem cnt_clearAt {vs : List Volume} (hn : (vs.map (·.id)).Nodup) {v i : Nat} {r : SectorId} (hh : holdsAt vs v i r) (r' : SectorId) :
    cnt (clearAt vs v i) r' + (if r' = r then 1 else 0) = cnt vs r' := by
  obtain ⟨sl, hs, hsec⟩ := hh
  obtain ⟨vol, hv, hsl⟩ := slotAt_split hs
  have := cnt_modVol hn hv hsl (setSec none) (· - 1) r'
  rw [clearAt_eq]
  simp only [holds, hsec, setSec] at this
  by_cases e : r' = r
  · subst e; simpa using this
  · have e' : ¬ r = r' := fun x => e x.symm
    simpa [e, e'] using this

theorem located_place {vs : List Volume} (hn : (vs.map (·.id)).Nodup) {v i : Nat} {sl : Slot} (hs : slotAt vs v i = some sl)
    (hfree : sl.sec = none) (r r' : SectorId) : located (placeAt vs v i r) r' = true ↔ (r' = r ∨ located vs r' = true) := by
  rw [located_true_iff, located_true_iff, cnt_placeAt hn hs hfree]
  by_cases e : r' = r <;> simp [e]

theorem located_clear {vs : List Volume} {m : Metrics} (c : Core vs m) {v i : Nat} {r : SectorId} (hh : holdsAt vs v i r) (r' : SectorId) :
    located (clearAt vs v i) r' = true ↔ (r' ≠ r ∧ located vs r' = true) := by
  have h1 := cnt_clearAt c.ids hh r'
  have h2 := c.uniq r'
  rw [located_true_iff, located_true_iff]
  by_cases e : r' = r
  · subst e; simp at h1 ⊢; omega
  · simp [e] at h1 ⊢; omega

theorem isPending_cons {s : State} {p : Pending} {r : SectorId} {ps : List Pending} (hps : s.pending = p :: ps)
    : isPending s r ↔ (p.r = r ∨ ∃ q ∈ ps, q.r = r) := by
  simp only [isPending, hps, List.mem_cons]
  constructor
  · rintro ⟨q, rfl | hq, e⟩
    · exact Or.inl e
    · exact Or.inr ⟨q, hq, e⟩
  · rintro (e | ⟨q, hq, e⟩)
    · exact ⟨p, Or.inl rfl, e⟩
    · exact ⟨q, Or.inr hq, e⟩

theorem reserve_data {s : State} (hm : MetaOK s) (h : DataInv s) (w : Nat) (r : SectorId) (b : BufId) (ch : Option (Nat × Nat))
    (hs : ¬ isPending s r) : DataInv (reserve s w r b ch).1 := by
  simp only [reserve]
  split
  · exact h
  rename_i hw
  split
  · rename_i hloc
    refine dataInv_frame h rfl rfl rfl (fun _ hx => hx) (fun r hr => Or.inl hr) ?_ ?_ h.cacheGood ?_ (fun _ hx => hx)
    · intro r' hr'
      simp only [List.mem_cons] at hr'
      rcases hr' with rfl | hr'
      · exact ⟨hloc, hs⟩
      · exact h.freshSafe r' hr'
    · intro r' hr'
      simp only [List.mem_cons] at hr' ⊢
      rcases hr' with rfl | hr'
      · exact Or.inl rfl
      · exact Or.inr (h.freshRec r' hr')
    · intro r' hx
      simp only [addNew]; split
      · exact hx
      · simp only [List.contains_cons, Bool.or_eq_true]; exact Or.inr hx
  rename_i hloc
  split
  · exact h
  split
  · exact h
  rename_i v i
  split
  · exact h
  rename_i hel
  obtain ⟨sl, hsl, hfree⟩ := eligibleAt_slot (by simpa using hel)
  have hnl : located s.vols r = false := by simpa using hloc
  have hids := hm.core.ids
  have hpend' : ∀ r', (∃ q ∈ (⟨w, r, v, i, b⟩ :: s.pending : List Pending), q.r = r') ↔ (r = r' ∨ isPending s r') := by
    intro r'
    simp only [List.mem_cons, isPending]
    constructor
    · rintro ⟨q, rfl | hq, e⟩
      · exact Or.inl e
      · exact Or.inr ⟨q, hq, e⟩
    · rintro (e | ⟨q, hq, e⟩)
      · exact ⟨_, Or.inl rfl, e⟩
      · exact ⟨q, Or.inr hq, e⟩
  have hslot : ∀ v' i' sl', slotAt (placeAt s.vols v i r) v' i' = some sl' →
      (v' = v ∧ i' = i ∧ sl' = setSec (some r) sl) ∨ (¬ (v' = v ∧ i' = i) ∧ slotAt s.vols v' i' = some sl') := by
    intro v' i' sl' h1
    rw [placeAt_eq, slotAt_modVol] at h1
    by_cases e : v' = v ∧ i' = i
    · simp only [e, and_self, if_true] at h1
      rw [hsl] at h1
      simp at h1
      exact Or.inl ⟨e.1, e.2, h1.symm⟩
    · simp only [e, if_false] at h1
      exact Or.inr ⟨e, h1⟩
  have hpa : ∀ v' i' r', pendingAt s v' i' r' →
      pendingAt { s with pending := ⟨w, r, v, i, b⟩ :: s.pending } v' i' r' := by
    intro v' i' r' ⟨q, hq, e⟩; exact ⟨q, List.mem_cons_of_mem _ hq, e⟩
  refine ⟨?_, ?_, ?_, ?_, ?_, h.cacheGood, ?_, ?_, ?_⟩
  · intro v' i' sl' r' h1 h2
    rcases hslot v' i' sl' h1 with ⟨rfl, rfl, rfl⟩ | ⟨_, h3⟩
    · left
      have : r' = r := by simpa [setSec] using h2.symm
      exact ⟨⟨w, r, v', i', b⟩, List.mem_cons_self, rfl, rfl, this.symm⟩
    · rcases h.slotData v' i' sl' r' h3 h2 with h4 | h4
      · exact Or.inl (hpa _ _ _ h4)
      · exact Or.inr h4
  · intro v' i' sl' r' h1 h2 h3
    rcases hslot v' i' sl' h1 with ⟨rfl, rfl, rfl⟩ | ⟨_, h4⟩
    · right
      have : r' = r := by simpa [setSec] using h2.symm
      exact ⟨⟨w, r, v', i', b⟩, List.mem_cons_self, rfl, rfl, this.symm⟩
    · rcases h.slotDur v' i' sl' r' h4 h2 h3 with h5 | h5
      · exact Or.inl h5
      · exact Or.inr (hpa _ _ _ h5)
  · intro r' hr'
    rcases h.refSafe r' hr' with h1 | ⟨h1, h2, h3⟩
    · exact Or.inl h1
    · right
      refine ⟨(located_place hids hsl hfree r r').mpr (Or.inr h1), h2, ?_⟩
      intro hp
      rcases (hpend' r').mp hp with e | e
      · rw [← e, hnl] at h1; cases h1
      · exact h3 e
  · intro r' hr'
    obtain ⟨h1, h3⟩ := h.freshSafe r' hr'
    refine ⟨(located_place hids hsl hfree r r').mpr (Or.inr h1), ?_⟩
    intro hp
    rcases (hpend' r').mp hp with e | e
    · rw [← e, hnl] at h1; cases h1
    · exact h3 e
  · intro r' hr'
    exact List.mem_cons_of_mem _ (h.freshRec r' hr')
  · intro r' hr'
    rcases (located_place hids hsl hfree r r').mp hr' with rfl | h1
    · simp only [addNew]; split
      · assumption
      · simp
    · have := h.locStored r' h1
      simp only [addNew]; split
      · exact this
      · simp only [List.contains_cons, Bool.or_eq_true]; exact Or.inr this
  · intro v' i' sl' h1 h2
    rcases hslot v' i' sl' h1 with ⟨rfl, rfl, rfl⟩ | ⟨_, h3⟩
    · exact h.dirtyChanged v' i' sl hsl (by simpa [setSec] using h2)
    · exact h.dirtyChanged v' i' sl' h3 h2
  · simp only [List.map_cons, List.nodup_cons]
    refine ⟨?_, h.pendW⟩
    intro hmem
    obtain ⟨q, hq, e⟩ := List.mem_map.mp hmem
    have : (s.pending.any fun p => p.w == w) = true := List.any_eq_true.mpr ⟨q, hq, by simp [e]⟩
    exact hw this

theorem slot_cases_modVol {vs : List Volume} {v i v' i' : Nat} {f : Slot → Slot} {u : Nat → Nat} {sl' : Slot}
    (h : slotAt (updVol v (modVol i f u) vs) v' i' = some sl') :
    (v' = v ∧ i' = i ∧ ∃ sl, slotAt vs v i = some sl ∧ sl' = f sl) ∨ (¬ (v' = v ∧ i' = i) ∧ slotAt vs v' i' = some sl') := by
  rw [slotAt_modVol] at h
  by_cases e : v' = v ∧ i' = i
  · simp only [e, and_self, if_true] at h
    cases hs : slotAt vs v i with
    | none => rw [hs] at h; simp at h
    | some sl => rw [hs] at h; simp at h; exact Or.inl ⟨e.1, e.2, sl, rfl, h.symm⟩
  · simp only [e, if_false] at h
    exact Or.inr ⟨e, h⟩

theorem mem_cacheAdd {size : Nat} {r : SectorId} {b : BufId} {c : List (SectorId × BufId)} {e : SectorId × BufId}
    (h : e ∈ cacheAdd size r b c) : e = (r, b) ∨ e ∈ c := by
  simp only [cacheAdd] at h
  have := List.mem_of_mem_take h
  simp only [List.mem_cons, List.mem_filter] at this
  rcases this with h1 | h1
  · exact Or.inl h1
  · exact Or.inr h1.1

theorem mem_addNew {a x : Nat} {l : List Nat} (h : x ∈ l) : x ∈ addNew a l := by
  simp only [addNew]; split
  · exact h
  · exact List.mem_cons_of_mem _ h
theorem self_mem_addNew (a : Nat) (l : List Nat) : a ∈ addNew a l := by
  simp only [addNew]; split
  · rename_i h; simpa using h
  · exact List.mem_cons_self

theorem finish_data {s : State} (hm : MetaOK s) (h : DataInv s) (w : Nat) (ok : Bool)
    (hs : ok = true → ∀ p, findPending w s.pending = some p → s.heap[p.buf]? = some (.dataOf p.r)) :
    DataInv (finish s w ok).1 := by
  simp only [finish]
  split
  · exact h
  rename_i p hp
  obtain ⟨hpm, hpw⟩ := findPending_spec hp
  have hph := hm.pend p hpm
  obtain ⟨slp, hslp, hsecp⟩ := hph
  obtain ⟨volp, hvolp, _⟩ := slotAt_split hslp
  -- the other writers keep their reservations
  have hrest : ∀ q ∈ s.pending, q ≠ p → q ∈ s.pending.filter (fun q => q.w != w) := by
    intro q hq hne
    refine List.mem_filter.mpr ⟨hq, ?_⟩
    simp only [bne_iff_ne, ne_eq]
    intro e
    exact hne (nodup_map_inj h.pendW hq hpm (e.trans hpw.symm))
  have hnotp : ∀ q ∈ s.pending.filter (fun q => q.w != w), q ≠ p := by
    intro q hq e; subst e
    have := (List.mem_filter.mp hq).2
    simp [hpw] at this
  have hsub : ∀ q ∈ s.pending.filter (fun q => q.w != w), q ∈ s.pending := fun q hq => (List.mem_filter.mp hq).1
  have hpaOther : ∀ v i r, pendingAt s v i r → ¬ (v = p.v ∧ i = p.i) →
      ∃ q ∈ s.pending.filter (fun q => q.w != w), q.v = v ∧ q.i = i ∧ q.r = r := by
    intro v i r ⟨q, hq, e1, e2, e3⟩ hne
    refine ⟨q, hrest q hq ?_, e1, e2, e3⟩
    intro e; subst e; exact hne ⟨e1.symm, e2.symm⟩
  have hipSub : ∀ r, (∃ q ∈ s.pending.filter (fun q => q.w != w), q.r = r) → isPending s r := by
    intro r ⟨q, hq, e⟩; exact ⟨q, hsub q hq, e⟩
  have hpw' : ((s.pending.filter (fun q => q.w != w)).map (·.w)).Nodup := nodup_map_filter _ h.pendW
  rw [hvolp]
  simp only
  split
  · -- data written
    rename_i hok
    have hheap := hs hok p hp
    rw [hheap]
    simp only
    have hsk := modSlot_skel p.v p.i (fun sl => { sl with content := Content.dataOf p.r, durable := false }) (fun _ => rfl) s.vols
    refine ⟨?_, ?_, ?_, ?_, ?_, ?_, ?_, ?_, hpw'⟩
    · intro v i sl' r h1 h2
      rw [modSlot_eq] at h1
      rcases slot_cases_modVol h1 with ⟨rfl, rfl, sl, h3, rfl⟩ | ⟨hne, h3⟩
      · right
        rw [hslp] at h3; cases h3
        have : r = p.r := by
          have : slp.sec = some r := h2
          rw [hsecp] at this; exact (Option.some.inj this).symm
        rw [this]
      · rcases h.slotData v i sl' r h3 h2 with h4 | h4
        · exact Or.inl (hpaOther v i r h4 hne)
        · exact Or.inr h4
    · intro v i sl' r h1 h2 h3
      rw [modSlot_eq] at h1
      rcases slot_cases_modVol h1 with ⟨rfl, rfl, sl, h4, rfl⟩ | ⟨hne, h4⟩
      · left
        rw [hslp] at h4; cases h4
        have : slp.sec = some r := h2
        rw [hsecp] at this
        rw [← Option.some.inj this]; exact List.mem_cons_self
      · rcases h.slotDur v i sl' r h4 h2 h3 with h5 | h5
        · exact Or.inl (List.mem_cons_of_mem _ h5)
        · exact Or.inr (hpaOther v i r h5 hne)
    · intro r hr
      rcases h.refSafe r hr with h1 | ⟨h1, h2, h3⟩
      · exact Or.inl h1
      · right
        refine ⟨by rw [located_of_skel hsk]; exact h1, ?_, fun e => h3 (hipSub r e)⟩
        intro hmem
        simp only [List.mem_cons] at hmem
        rcases hmem with rfl | hmem
        · exact h3 ⟨p, hpm, rfl⟩
        · exact h2 hmem
    · intro r hr
      simp only [List.mem_cons] at hr
      rcases hr with rfl | hr
      · refine ⟨by rw [located_of_skel hsk]; exact located_of_holdsAt ⟨slp, hslp, hsecp⟩, ?_⟩
        rintro ⟨q, hq, e⟩
        exact hnotp q hq (nodup_map_inj hm.pendR (hsub q hq) hpm e)
      · obtain ⟨h1, h3⟩ := h.freshSafe r hr
        exact ⟨by rw [located_of_skel hsk]; exact h1, fun e => h3 (hipSub r e)⟩
    · intro r hr
      simp only [List.mem_cons] at hr
      rcases hr with rfl | hr
      · exact hm.pendRec p hpm
      · exact h.freshRec r hr
    · intro e he
      rcases mem_cacheAdd he with rfl | he
      · exact hheap
      · exact h.cacheGood e he
    · intro r hr
      rw [located_of_skel hsk] at hr
      exact h.locStored r hr
    · intro v i sl' h1 h2
      rw [modSlot_eq] at h1
      rcases slot_cases_modVol h1 with ⟨rfl, rfl, sl, h4, rfl⟩ | ⟨hne, h4⟩
      · exact Or.inl (self_mem_addNew _ _)
      · exact (h.dirtyChanged v i sl' h4 h2).imp mem_addNew id
  · -- rollback
    obtain ⟨hcl, hphys, volq, hvolq, hused⟩ := core_clear hm.core ⟨slp, hslp, hsecp⟩
    rw [hvolp] at hvolq; cases hvolq
    have hu0 : ¬ volp.used = 0 := by omega
    have hp0 : ¬ s.m.physical = 0 := by omega
    simp only [hu0, hp0, if_false]
    have hhold : holdsAt s.vols p.v p.i p.r := ⟨slp, hslp, hsecp⟩
    refine ⟨?_, ?_, ?_, ?_, h.freshRec, h.cacheGood, ?_, ?_, hpw'⟩
    · intro v i sl' r h1 h2
      rw [clearAt_eq] at h1
      rcases slot_cases_modVol h1 with ⟨rfl, rfl, sl, h3, rfl⟩ | ⟨hne, h3⟩
      · simp [setSec] at h2
      · rcases h.slotData v i sl' r h3 h2 with h4 | h4
        · exact Or.inl (hpaOther v i r h4 hne)
        · exact Or.inr h4
    · intro v i sl' r h1 h2 h3
      rw [clearAt_eq] at h1
      rcases slot_cases_modVol h1 with ⟨rfl, rfl, sl, h4, rfl⟩ | ⟨hne, h4⟩
      · simp [setSec] at h2
      · rcases h.slotDur v i sl' r h4 h2 h3 with h5 | h5
        · exact Or.inl h5
        · exact Or.inr (hpaOther v i r h5 hne)
    · intro r hr
      rcases h.refSafe r hr with h1 | ⟨h1, h2, h3⟩
      · exact Or.inl h1
      · right
        have hne : r ≠ p.r := fun e => h3 ⟨p, hpm, e.symm⟩
        exact ⟨(located_clear hm.core hhold r).mpr ⟨hne, h1⟩, h2, fun e => h3 (hipSub r e)⟩
    · intro r hr
      obtain ⟨h1, h3⟩ := h.freshSafe r hr
      have hne : r ≠ p.r := fun e => h3 ⟨p, hpm, e.symm⟩
      exact ⟨(located_clear hm.core hhold r).mpr ⟨hne, h1⟩, fun e => h3 (hipSub r e)⟩
    · intro r hr
      exact h.locStored r ((located_clear hm.core hhold r).mp hr).2
    · intro v i sl' h1 h2
      rw [clearAt_eq] at h1
      rcases slot_cases_modVol h1 with ⟨rfl, rfl, sl, h4, rfl⟩ | ⟨hne, h4⟩
      · exact h.dirtyChanged _ _ sl h4 (by simpa [setSec] using h2)
      · exact h.dirtyChanged v i sl' h4 h2

/-! ## prune, RemoveSector, volumes -/

/-- builds `DataInv` for a state that differs from `s` in the slot table (and possibly in ghost /
process fields), given how every new slot relates to an old one -/
theorem dataInv_slots {s s' : State} (h : DataInv s)
    (hslot : ∀ v i sl' , slotAt s'.vols v i = some sl' → (sl'.sec = none ∧ sl'.durable = true) ∨
        ∃ sl, slotAt s.vols v i = some sl ∧ (sl'.sec = none ∨ (sl'.sec = sl.sec ∧ sl'.content = sl.content)) ∧
          (sl'.durable = false → sl.durable = false))
    (hloc : ∀ r, located s'.vols r = true → located s.vols r = true)
    (hkeep : ∀ r, located s.vols r = true → located s'.vols r = true ∨ (r ∈ s'.lostNow ∧ r ∉ s'.fresh) ∨
        (referenced s r = false ∧ r ∉ s.fresh))
    (hp : s'.pending = s.pending) (hu : s'.unsynced = s.unsynced) (hl : ∀ r ∈ s.lostNow, r ∈ s'.lostNow)
    (hr : ∀ r, referenced s' r = referenced s r)
    (hf : ∀ r ∈ s'.fresh, r ∈ s.fresh) (hrec : ∀ r ∈ s.recent, r ∈ s'.recent)
    (hc : ∀ e ∈ s'.cache, s'.heap[e.2]? = some (.dataOf e.1))
    (hst : ∀ r, s.stored.contains r = true → s'.stored.contains r = true)
    (hch : ∀ v ∈ s.changed, v ∈ s'.changed)
    (hin : ∀ v ∈ s.inflight, v ∈ s'.inflight := by intro _ hx; exact hx) : DataInv s' := by
  have hpa : ∀ v i r, pendingAt s v i r → pendingAt s' v i r := by
    intro v i r ⟨p, hp', e⟩; exact ⟨p, hp ▸ hp', e⟩
  have hip : ∀ r, isPending s' r → isPending s r := by
    intro r ⟨p, hp', e⟩; exact ⟨p, hp ▸ hp', e⟩
  refine ⟨?_, ?_, ?_, ?_, fun r hx => hrec r (h.freshRec r (hf r hx)), hc, fun r hx => hst r (h.locStored r (hloc r hx)), ?_,
    by rw [hp]; exact h.pendW⟩
  · intro v i sl' r h1 h2
    rcases hslot v i sl' h1 with ⟨h3, _⟩ | ⟨sl, h3, e1, _⟩
    · rw [h3] at h2; cases h2
    · rcases e1 with e1 | ⟨e1, e2⟩
      · rw [e1] at h2; cases h2
      · rcases h.slotData v i sl r h3 (e1 ▸ h2) with h4 | h4
        · exact Or.inl (hpa v i r h4)
        · exact Or.inr (e2 ▸ h4)
  · intro v i sl' r h1 h2 hd
    rcases hslot v i sl' h1 with ⟨h3, _⟩ | ⟨sl, h3, e1, e3⟩
    · rw [h3] at h2; cases h2
    · rcases e1 with e1 | ⟨e1, _⟩
      · rw [e1] at h2; cases h2
      · rw [hu]
        rcases h.slotDur v i sl r h3 (e1 ▸ h2) (e3 hd) with h4 | h4
        · exact Or.inl h4
        · exact Or.inr (hpa v i r h4)
  · intro r hr'
    rw [hr] at hr'
    rcases h.refSafe r hr' with h1 | ⟨h1, h2, h3⟩
    · exact Or.inl (hl r h1)
    · rcases hkeep r h1 with h4 | h4 | h4
      · exact Or.inr ⟨h4, hu ▸ h2, fun e => h3 (hip r e)⟩
      · exact Or.inl h4.1
      · rw [h4.1] at hr'; cases hr'
  · intro r hr'
    obtain ⟨h1, h3⟩ := h.freshSafe r (hf r hr')
    rcases hkeep r h1 with h4 | h4 | h4
    · exact ⟨h4, fun e => h3 (hip r e)⟩
    · exact absurd hr' h4.2
    · exact absurd (hf r hr') h4.2
  · intro v i sl' h1 hd
    rcases hslot v i sl' h1 with ⟨_, h3⟩ | ⟨sl, h3, _, e3⟩
    · rw [h3] at hd; cases hd
    · exact (h.dirtyChanged v i sl h3 (e3 hd)).imp (hch v) (hin v)

theorem same_slot {vs : List Volume} {v i : Nat} {sl : Slot} (h : slotAt vs v i = some sl) :
    (sl.sec = none ∧ sl.durable = true) ∨
      ∃ sl0, slotAt vs v i = some sl0 ∧ (sl.sec = none ∨ (sl.sec = sl0.sec ∧ sl.content = sl0.content)) ∧ (sl.durable = false → sl0.durable = false) :=
  Or.inr ⟨sl, h, Or.inr ⟨rfl, rfl⟩, fun x => x⟩

theorem pruneSlot_content (s : State) (sl : Slot) : (pruneSlot s sl).content = sl.content := by
  simp only [pruneSlot]
  split
  · split <;> rfl
  · rfl
theorem pruneSlot_durable (s : State) (sl : Slot) : (pruneSlot s sl).durable = sl.durable := by
  simp only [pruneSlot]
  split
  · split <;> rfl
  · rfl

theorem prune_data {s : State} (hm : MetaOK s) (h : DataInv s) : DataInv (prune s).1 := by
  have hv := prune_vols hm.core
  simp only [prune] at hv ⊢
  split
  · exact h
  split
  · exact h
  rename_i h1 h2
  simp only [h1, h2, if_false, Bool.false_eq_true] at hv
  have hid : ∀ x, (pruneVol s x).id = x.id := fun _ => rfl
  have keepRef : ∀ r, located s.vols r = true → (referenced s r = true ∨ r ∈ s.recent) →
      located (s.vols.map (pruneVol s)) r = true := by
    intro r hl hk
    obtain ⟨v, i, hh⟩ := holdsAt_of_located hm.core.ids hl
    apply located_of_holdsAt (v := v) (i := i)
    rw [holdsAt_pruned]
    refine ⟨hh, ?_⟩
    simp only [prunable]
    rcases hk with hk | hk
    · simp [hk]
    · have : s.recent.contains r = true := by simpa using hk
      simp [this]
      intro _; exact hk
  refine ⟨?_, ?_, ?_, ?_, h.freshRec, h.cacheGood, ?_, ?_, h.pendW⟩
  · intro v i sl' r h3 h4
    simp only [slotAt_map _ hid] at h3
    split at h3
    · cases h3
    · rename_i vol hvol
      simp only [pruneVol, List.getElem?_map] at h3
      cases hs : vol.slots[i]? with
      | none => rw [hs] at h3; cases h3
      | some sl =>
        rw [hs] at h3; simp at h3; subst h3
        have hsl : slotAt s.vols v i = some sl := by simp [slotAt, hvol, hs]
        rcases pruneSlot_sec s sl with e | e
        · rw [pruneSlot_content]; exact h.slotData v i sl r hsl (e ▸ h4)
        · rw [e] at h4; cases h4
  · intro v i sl' r h3 h4 hd
    simp only [slotAt_map _ hid] at h3
    split at h3
    · cases h3
    · rename_i vol hvol
      simp only [pruneVol, List.getElem?_map] at h3
      cases hs : vol.slots[i]? with
      | none => rw [hs] at h3; cases h3
      | some sl =>
        rw [hs] at h3; simp at h3; subst h3
        have hsl : slotAt s.vols v i = some sl := by simp [slotAt, hvol, hs]
        rcases pruneSlot_sec s sl with e | e
        · exact h.slotDur v i sl r hsl (e ▸ h4) (pruneSlot_durable s sl ▸ hd)
        · rw [e] at h4; cases h4
  · intro r hr
    rcases h.refSafe r hr with h3 | ⟨h3, h4, h5⟩
    · exact Or.inl h3
    · exact Or.inr ⟨keepRef r h3 (Or.inl hr), h4, h5⟩
  · intro r hr
    obtain ⟨h3, h5⟩ := h.freshSafe r hr
    exact ⟨keepRef r h3 (Or.inr (h.freshRec r hr)), h5⟩
  · intro r hr
    obtain ⟨v, i, hh⟩ := holdsAt_of_located (by
      have : (s.vols.map (pruneVol s)).map (·.id) = s.vols.map (·.id) := by simp [List.map_map, Function.comp_def, hid]
      rw [this]; exact hm.core.ids) hr
    rw [holdsAt_pruned] at hh
    exact h.locStored r (located_of_holdsAt hh.1)
  · intro v i sl' h3 hd
    simp only [slotAt_map _ hid] at h3
    split at h3
    · cases h3
    · rename_i vol hvol
      simp only [pruneVol, List.getElem?_map] at h3
      cases hs : vol.slots[i]? with
      | none => rw [hs] at h3; cases h3
      | some sl =>
        rw [hs] at h3; simp at h3; subst h3
        have hsl : slotAt s.vols v i = some sl := by simp [slotAt, hvol, hs]
        exact h.dirtyChanged v i sl hsl (pruneSlot_durable s sl ▸ hd)

theorem holdsAt_occList {vs : List Volume} {v i : Nat} {r : SectorId} {vol : Volume} (hh : holdsAt vs v i r)
    (hv : findVol v vs = some vol) : r ∈ occList vol.slots := by
  obtain ⟨sl, h1, h2⟩ := hh
  simp only [slotAt, hv] at h1
  simp only [occList, List.mem_filterMap]
  exact ⟨sl, List.mem_of_getElem? h1, h2⟩

theorem referenced_congr {s s' : State} (h1 : s'.c1 = s.c1) (h2 : s'.c2 = s.c2) (h3 : s'.temps = s.temps) (r : SectorId) :
    referenced s' r = referenced s r := by
  simp only [referenced, refd1, refd2, refdT, h1, h2, h3]

theorem removeSector_data {s : State} (hm : MetaOK s) (h : DataInv s) (r : SectorId) (data : Bool)
    (hs : ∀ p ∈ s.pending, p.r ≠ r) : DataInv (removeSector s r data).1 := by
  simp only [removeSector]
  split
  · exact h
  have h' : DataInv { s with recent := r :: s.recent } :=
    dataInv_frame h rfl rfl rfl (fun _ hx => hx) (fun r hr => Or.inl hr) h.freshSafe
      (fun x hx => List.mem_cons_of_mem _ (h.freshRec x hx)) h.cacheGood (fun _ hx => hx) (fun _ hx => hx)
  split
  · exact h'
  rename_i v i hloc
  split
  · exact h'
  split
  · exact h'
  split
  · exact h'
  have hh : holdsAt s.vols v i r := findLoc_spec hm.core.ids hloc
  have hloc' : ∀ r', located (clearAt s.vols v i) r' = true ↔ (r' ≠ r ∧ located s.vols r' = true) := located_clear hm.core hh
  -- the slot table after the operation, whatever `data` is
  have key : ∀ (vs' : List Volume), (vs'.map skel = (clearAt s.vols v i).map skel) →
      (∀ v' i' sl', slotAt vs' v' i' = some sl' → (sl'.sec = none ∧ sl'.durable = true) ∨
        ∃ sl, slotAt s.vols v' i' = some sl ∧ (sl'.sec = none ∨ (sl'.sec = sl.sec ∧ sl'.content = sl.content)) ∧
          (sl'.durable = false → sl.durable = false)) →
      ∀ (cache' : List (SectorId × BufId)), (∀ e ∈ cache', e ∈ s.cache) →
      DataInv { s with recent := r :: s.recent, vols := vs', m := { s.m with physical := s.m.physical - 1, lost := s.m.lost + 1 },
                       cache := cache', fresh := s.fresh.filter (fun x => x != r), lostNow := r :: s.lostNow } := by
    intro vs' hsk hslot cache' hcache
    apply dataInv_slots h hslot
    · intro r' hr'
      rw [located_of_skel hsk] at hr'
      exact ((hloc' r').mp hr').2
    · intro r' hr'
      by_cases e : r' = r
      · right; left; subst e; simp
      · left; rw [located_of_skel hsk]; exact (hloc' r').mpr ⟨e, hr'⟩
    · rfl
    · rfl
    · intro x hx; exact List.mem_cons_of_mem _ hx
    · intro x; rfl
    · intro x hx; exact (List.mem_filter.mp hx).1
    · intro x hx; exact List.mem_cons_of_mem _ hx
    · intro e he; exact h.cacheGood e (hcache e he)
    · intro _ hx; exact hx
    · intro _ hx; exact hx
  cases data with
  | false =>
    simp only [Bool.false_eq_true, ↓reduceIte]
    apply key (clearAt s.vols v i) rfl ?_ s.cache (fun _ he => he)
    intro v' i' sl' h1
    rw [clearAt_eq] at h1
    rcases slot_cases_modVol h1 with ⟨rfl, rfl, sl, h3, rfl⟩ | ⟨_, h3⟩
    · exact Or.inr ⟨sl, h3, Or.inl rfl, fun x => x⟩
    · exact same_slot h3
  | true =>
    simp only [↓reduceIte]
    apply key _ (by rw [syncVol_skel, modSlot_skel v i zeroSlot (fun _ => rfl)]) ?_ (cacheRemove r s.cache)
      (fun e he => (List.mem_filter.mp he).1)
    intro v' i' sl' h1
    rw [slotAt_syncVol] at h1
    have inner : ∀ sl'', slotAt (modSlot v i zeroSlot (clearAt s.vols v i)) v' i' = some sl'' →
        (sl''.sec = none ∧ sl''.durable = true) ∨
        ∃ sl, slotAt s.vols v' i' = some sl ∧ (sl''.sec = none ∨ (sl''.sec = sl.sec ∧ sl''.content = sl.content)) ∧
          (sl''.durable = false → sl.durable = false) := by
      intro sl'' h2
      rw [modSlot_eq] at h2
      rcases slot_cases_modVol h2 with ⟨rfl, rfl, sl1, h3, rfl⟩ | ⟨_, h3⟩
      · rw [clearAt_eq] at h3
        rcases slot_cases_modVol h3 with ⟨_, _, sl0, h4, rfl⟩ | ⟨hne, _⟩
        · left; exact ⟨rfl, rfl⟩
        · exact absurd ⟨rfl, rfl⟩ hne
      · rw [clearAt_eq] at h3
        rcases slot_cases_modVol h3 with ⟨rfl, rfl, sl0, h4, rfl⟩ | ⟨_, h4⟩
        · exact Or.inr ⟨sl0, h4, Or.inl rfl, fun x => x⟩
        · exact same_slot h4
    by_cases e : v' = v
    · simp only [e, if_true] at h1
      cases h2 : slotAt (modSlot v i zeroSlot (clearAt s.vols v i)) v i' with
      | none => rw [h2] at h1; cases h1
      | some sl'' =>
        rw [h2] at h1; simp at h1; subst h1
        rcases inner sl'' (e ▸ h2) with h3 | ⟨sl, h3, h4, _⟩
        · exact Or.inl ⟨h3.1, rfl⟩
        · exact Or.inr ⟨sl, h3, h4, fun x => by simp at x⟩
    · simp only [e, if_false] at h1
      exact inner sl' h1

theorem removeVolume_data {s : State} (hm : MetaOK s) (h : DataInv s) (v : Nat) (force : Bool) : DataInv (removeVolume s v force).1 := by
  simp only [removeVolume]
  split
  · exact h
  rename_i vol hv
  split
  · exact h
  split
  · exact h
  split
  · exact h
  apply dataInv_slots h
  · intro v' i' sl' h1
    exact same_slot (slotAt_filter _ _ _ _ h1).2
  · intro r hr
    exact located_mono_of_cnt (sumBy_filter_le _ _ _) hr
  · intro r hr
    obtain ⟨v', i', hh⟩ := holdsAt_of_located hm.core.ids hr
    by_cases e : v' = v
    · right; left
      subst e
      have hmem := holdsAt_occList hh hv
      refine ⟨List.mem_append_left _ hmem, ?_⟩
      intro hf
      have := (List.mem_filter.mp hf).2
      have hc : (occList vol.slots).contains r = true := by simpa using hmem
      simp [hc] at this
      exact this hmem
    · left
      obtain ⟨sl, h1, h2⟩ := hh
      apply located_of_holdsAt (v := v') (i := i')
      refine ⟨sl, ?_, h2⟩
      show slotAt (s.vols.filter fun x => x.id != v) v' i' = some sl
      simp only [slotAt, findVol_filter_ne s.vols e]; exact h1
  · rfl
  · rfl
  · intro x hx; exact List.mem_append_right _ hx
  · intro x; rfl
  · intro x hx; exact (List.mem_filter.mp hx).1
  · intro _ hx; exact hx
  · exact h.cacheGood
  · intro _ hx; exact hx
  · intro _ hx; exact hx

theorem slotAt_updVol_slots {vs : List Volume} (v : Nat) (g : Volume → Volume) (hg : ∀ x, (g x).id = x.id)
    (hs : ∀ x, (g x).slots = x.slots) (v' i' : Nat) : slotAt (updVol v g vs) v' i' = slotAt vs v' i' := by
  rw [slotAt_updVol _ _ _ _ hg]
  by_cases e : v' = v
  · subst e
    simp only [if_true, slotAt]
    cases findVol v' vs <;> simp [hs]
  · simp [e]

theorem flags_data {s : State} (h : DataInv s) (v : Nat) (g : Volume → Volume) (hg : ∀ x, (g x).id = x.id)
    (hs : ∀ x, (g x).slots = x.slots) (hk : ∀ x, skel (g x) = skel x) : DataInv { s with vols := updVol v g s.vols } := by
  have hl : ∀ r, located (updVol v g s.vols) r = located s.vols r := fun r => located_of_skel (updVol_skel v g hk s.vols) r
  apply dataInv_slots h
  · intro v' i' sl' h1
    rw [slotAt_updVol_slots v g hg hs] at h1
    exact same_slot h1
  · intro r hr; rw [hl] at hr; exact hr
  · intro r hr; left; rw [hl]; exact hr
  · rfl
  · rfl
  · intro _ hx; exact hx
  · intro x; rfl
  · intro _ hx; exact hx
  · intro _ hx; exact hx
  · exact h.cacheGood
  · intro _ hx; exact hx
  · intro _ hx; exact hx

theorem setReadOnly_data {s : State} (h : DataInv s) (v : Nat) (b : Bool) : DataInv (setReadOnly s v b) :=
  flags_data h v _ (fun _ => rfl) (fun _ => rfl) (fun _ => rfl)
theorem setAvailable_data {s : State} (h : DataInv s) (v : Nat) (b : Bool) : DataInv (setAvailable s v b) :=
  flags_data h v _ (fun _ => rfl) (fun _ => rfl) (fun _ => rfl)

theorem addVolume_data {s : State} (h : DataInv s) (id : Nat) (ro : Bool) : DataInv (addVolume s id ro).1 := by
  simp only [addVolume]
  split
  · exact h
  have hl : ∀ r, located (s.vols ++ [{ id := id, readOnly := ro }]) r = located s.vols r := by
    intro r; simp [located, List.any_append]
  apply dataInv_slots h
  · intro v' i' sl' h1
    exact same_slot (slotAt_append_new _ _ rfl _ _ h1)
  · intro r hr; rw [hl] at hr; exact hr
  · intro r hr; left; rw [hl]; exact hr
  · rfl
  · rfl
  · intro _ hx; exact hx
  · intro x; rfl
  · intro _ hx; exact hx
  · intro _ hx; exact hx
  · exact h.cacheGood
  · intro _ hx; exact hx
  · intro _ hx; exact hx

theorem grow_data {s : State} (hm : MetaOK s) (h : DataInv s) (v n : Nat) : DataInv (grow s v n).1 := by
  simp only [grow]
  split
  · exact h
  split
  · exact h
  rename_i vol hv
  split
  · exact h
  let g : Volume → Volume := fun x => { x with slots := x.slots ++ List.replicate (n - x.total) {}, total := n }
  have hgid : ∀ x, (g x).id = x.id := fun _ => rfl
  have hcnt : ∀ r, cnt (updVol v g s.vols) r = cnt s.vols r := by
    intro r
    apply sumBy_updVol_same
    intro x _ _
    simp only [g, List.countP_append]
    have : List.countP (holds r) (List.replicate (n - x.total) ({} : Slot)) = 0 := by
      rw [List.countP_eq_zero]; intro a ha; rw [List.eq_of_mem_replicate ha]; simp [holds]
    omega
  have hl : ∀ r, located (updVol v g s.vols) r = located s.vols r := fun r => located_eq_of_cnt (hcnt r)
  apply dataInv_slots (s' := { s with vols := updVol v g s.vols, m := { s.m with total := s.m.total + (n - vol.total) } }) h
  · intro v' i' sl' h1
    rw [slotAt_updVol _ _ _ _ hgid] at h1
    by_cases e : v' = v
    · simp only [e, if_true, hv, g] at h1
      by_cases hi : i' < vol.slots.length
      · rw [List.getElem?_append_left hi] at h1
        exact same_slot (by simp [slotAt, e, hv, h1])
      · rw [List.getElem?_append_right (by omega)] at h1
        have := List.mem_of_getElem? h1
        rw [List.eq_of_mem_replicate this]
        exact Or.inl ⟨rfl, rfl⟩
    · simp only [e, if_false] at h1
      exact same_slot h1
  · intro r hr; rw [hl] at hr; exact hr
  · intro r hr; left; rw [hl]; exact hr
  · rfl
  · rfl
  · intro _ hx; exact hx
  · intro x; rfl
  · intro _ hx; exact hx
  · intro _ hx; exact hx
  · exact h.cacheGood
  · intro _ hx; exact hx
  · intro _ hx; exact hx

theorem shrink_data {s : State} (hm : MetaOK s) (h : DataInv s) (v n : Nat) : DataInv (shrink s v n).1 := by
  simp only [shrink]
  split
  · exact h
  split
  · exact h
  rename_i vol hv
  split
  · exact h
  rename_i hocc
  split
  · exact h
  split
  · exact h
  have hocc0 : occ (vol.slots.drop n) = 0 := by simpa using hocc
  let g : Volume → Volume := fun x => { x with slots := x.slots.take n, total := n }
  have hgid : ∀ x, (g x).id = x.id := fun _ => rfl
  have hslot : ∀ v' i' sl', slotAt (updVol v g s.vols) v' i' = some sl' → slotAt s.vols v' i' = some sl' := by
    intro v' i' sl' h1
    rw [slotAt_updVol _ _ _ _ hgid] at h1
    by_cases e : v' = v
    · simp only [e, if_true, hv, g, List.getElem?_take] at h1
      split at h1
      · simp [slotAt, e, hv, h1]
      · cases h1
    · simp only [e, if_false] at h1; exact h1
  -- occupied slots survive
  have hkeep : ∀ v' i' r, holdsAt s.vols v' i' r → holdsAt (updVol v g s.vols) v' i' r := by
    intro v' i' r ⟨sl, h1, h2⟩
    refine ⟨sl, ?_, h2⟩
    rw [slotAt_updVol _ _ _ _ hgid]
    by_cases e : v' = v
    · subst e
      obtain ⟨vol', hv', hs'⟩ := slotAt_split h1
      rw [hv] at hv'; cases hv'
      simp only [if_true, hv, g, List.getElem?_take]
      have hi : i' < n := by
        apply Classical.byContradiction; intro hge
        have hge : n ≤ i' := Nat.le_of_not_lt hge
        have hmem : sl ∈ vol.slots.drop n := by
          have : (vol.slots.drop n)[i' - n]? = some sl := by
            rw [List.getElem?_drop]; rw [show n + (i' - n) = i' by omega]; exact hs'
          exact List.mem_of_getElem? this
        have : 0 < occ (vol.slots.drop n) := by
          simp only [occ]; rw [List.countP_pos_iff]; exact ⟨sl, hmem, by simp [isOcc, h2]⟩
        omega
      simp [hi, hs']
    · simp only [e, if_false]; exact h1
  apply dataInv_slots (s' := { s with vols := updVol v g s.vols, m := { s.m with total := s.m.total - (vol.total - n) } }) h
  · intro v' i' sl' h1
    exact same_slot (hslot v' i' sl' h1)
  · intro r hr
    obtain ⟨v', i', sl, h1, h2⟩ := holdsAt_of_located (by rw [updVol_ids _ _ _ hgid]; exact hm.core.ids) hr
    exact located_of_holdsAt ⟨sl, hslot v' i' sl h1, h2⟩
  · intro r hr
    left
    obtain ⟨v', i', hh⟩ := holdsAt_of_located hm.core.ids hr
    exact located_of_holdsAt (hkeep v' i' r hh)
  · rfl
  · rfl
  · intro _ hx; exact hx
  · intro x; rfl
  · intro _ hx; exact hx
  · intro _ hx; exact hx
  · exact h.cacheGood
  · intro _ hx; exact hx
  · intro _ hx; exact hx

/-! ## reads, Sync, process death -/

theorem cacheGet_mem {r : SectorId} {c : List (SectorId × BufId)} {b : BufId} (h : cacheGet r c = some b) : (r, b) ∈ c := by
  induction c with
  | nil => simp [cacheGet] at h
  | cons x xs ih =>
    obtain ⟨k, b'⟩ := x
    simp only [cacheGet] at h
    split at h
    · rename_i e; cases h; simp [e]
    · exact List.mem_cons_of_mem _ (ih h)

/-- content of the slot a not-in-flight located sector sits in -/
theorem content_of_holds {s : State} (h : DataInv s) {v i : Nat} {r : SectorId} {sl : Slot} (hs : slotAt s.vols v i = some sl)
    (hsec : sl.sec = some r) (hnp : ¬ isPending s r) : sl.content = .dataOf r := by
  rcases h.slotData v i sl r hs hsec with ⟨p, hp, _, _, e⟩ | h1
  · exact absurd ⟨p, hp, e⟩ hnp
  · exact h1

theorem read_data {s : State} (hm : MetaOK s) (h : DataInv s) (r : SectorId) (hs : ¬ isPending s r) :
    DataInv (Hostd.Volumes.read s r).1 := by
  simp only [Hostd.Volumes.read]
  split
  · rename_i b hb
    refine dataInv_frame h rfl rfl rfl (fun _ hx => hx) (fun r hr => Or.inl hr) h.freshSafe h.freshRec ?_ (fun _ hx => hx) (fun _ hx => hx)
    intro e he
    simp only [cacheTouch, List.mem_cons, List.mem_filter] at he
    rcases he with rfl | he
    · exact h.cacheGood _ (cacheGet_mem hb)
    · exact h.cacheGood e he.1
  split
  · exact h
  have h' : DataInv { s with recent := r :: s.recent } :=
    dataInv_frame h rfl rfl rfl (fun _ hx => hx) (fun r hr => Or.inl hr) h.freshSafe
      (fun x hx => List.mem_cons_of_mem _ (h.freshRec x hx)) h.cacheGood (fun _ hx => hx) (fun _ hx => hx)
  split
  · exact h'
  rename_i v i hloc
  split
  · exact h'
  rename_i sl hsl
  obtain ⟨sl0, h0, hsec⟩ := findLoc_spec hm.core.ids hloc
  have hsl' : slotAt s.vols v i = some sl := hsl
  rw [hsl'] at h0; cases h0
  have hcont := content_of_holds h hsl' hsec hs
  refine dataInv_frame h rfl rfl rfl (fun _ hx => hx) (fun r hr => Or.inl hr) h.freshSafe
    (fun x hx => List.mem_cons_of_mem _ (h.freshRec x hx)) ?_ (fun _ hx => hx) (fun _ hx => hx)
  intro e he
  rcases mem_cacheAdd he with rfl | he
  · show (s.heap ++ [sl.content])[s.heap.length]? = _
    simp [hcont]
  · exact heap_append_get (h.cacheGood e he)

theorem slotAt_foldSync (l : List Nat) (vs : List Volume) (v i : Nat) :
    slotAt (l.foldl (fun vs w => syncVol w vs) vs) v i =
      if v ∈ l then (slotAt vs v i).map (fun sl => { sl with durable := true }) else slotAt vs v i := by
  induction l generalizing vs with
  | nil => simp
  | cons w ws ih =>
    simp only [List.foldl_cons, ih, slotAt_syncVol, List.mem_cons]
    by_cases e1 : v = w <;> by_cases e2 : v ∈ ws <;> simp [e1, e2]
    all_goals (cases slotAt vs w i <;> simp)

theorem foldSync_skel (l : List Nat) (vs : List Volume) : (l.foldl (fun vs w => syncVol w vs) vs).map skel = vs.map skel := by
  induction l generalizing vs with
  | nil => rfl
  | cons x xs ih => simp only [List.foldl_cons]; rw [ih, syncVol_skel]

theorem sync_data {s : State} (h : DataInv s) (hidle : s.inflight = []) : DataInv (sync s) := by
  have hsk := foldSync_skel s.changed s.vols
  have hslot : ∀ v i sl', slotAt (sync s).vols v i = some sl' →
      sl'.durable = true ∧ ∃ sl, slotAt s.vols v i = some sl ∧ sl'.sec = sl.sec ∧ sl'.content = sl.content := by
    intro v i sl' h1
    simp only [sync, slotAt_foldSync] at h1
    split at h1
    · cases hs : slotAt s.vols v i with
      | none => rw [hs] at h1; cases h1
      | some sl => rw [hs] at h1; simp at h1; subst h1; exact ⟨rfl, sl, rfl, rfl, rfl⟩
    · rename_i hn
      refine ⟨?_, sl', h1, rfl, rfl⟩
      cases hd : sl'.durable with
      | true => rfl
      | false =>
        rcases h.dirtyChanged v i sl' h1 hd with hx | hx
        · exact absurd hx hn
        · rw [hidle] at hx; cases hx
  refine ⟨?_, ?_, ?_, ?_, h.freshRec, h.cacheGood, ?_, ?_, h.pendW⟩
  · intro v i sl' r h1 h2
    obtain ⟨_, sl, h3, e1, e2⟩ := hslot v i sl' h1
    rw [e2]; exact h.slotData v i sl r h3 (e1 ▸ h2)
  · intro v i sl' r h1 h2 hd
    rw [(hslot v i sl' h1).1] at hd; cases hd
  · intro r hr
    rcases h.refSafe r hr with h1 | ⟨h1, _, h3⟩
    · exact Or.inl h1
    · exact Or.inr ⟨by show located (sync s).vols r = true; simp only [sync]; rw [located_of_skel hsk]; exact h1, by simp [sync], h3⟩
  · intro r hr
    obtain ⟨h1, h3⟩ := h.freshSafe r hr
    exact ⟨by show located (sync s).vols r = true; simp only [sync]; rw [located_of_skel hsk]; exact h1, h3⟩
  · intro r hr
    have : located (sync s).vols r = located s.vols r := by simp only [sync]; exact located_of_skel hsk r
    rw [this] at hr; exact h.locStored r hr
  · intro v i sl' h1 hd
    rw [(hslot v i sl' h1).1] at hd; cases hd

theorem crash_data {s : State} (h : DataInv s) (lost : List (Nat × Nat)) (hp : s.pending = [])
    (hfree : ∀ p ∈ lost, freeAt s.vols p.1 p.2) : DataInv (crash s lost).1 := by
  simp only [crash]
  split
  · exact h
  have hid : ∀ x : Volume, ({ x with slots := crashSlots x.id lost x.slots 0, available := true } : Volume).id = x.id := fun _ => rfl
  have hsk : (s.vols.map fun v => { v with slots := crashSlots v.id lost v.slots 0, available := true }).map skel = s.vols.map skel := by
    apply map_skel_of
    intro x
    simp only [skel, crashSlots_secs]
  have hslot : ∀ v i sl', slotAt (s.vols.map fun v => { v with slots := crashSlots v.id lost v.slots 0, available := true }) v i = some sl' →
      sl'.durable = true ∧ ∃ sl, slotAt s.vols v i = some sl ∧ sl'.sec = sl.sec ∧ (sl.sec ≠ none → sl'.content = sl.content) := by
    intro v i sl' h1
    rw [slotAt_map _ hid] at h1
    split at h1
    · cases h1
    · rename_i vol hv
      have hvid := (findVol_some hv).2
      simp only [crashSlots_get, Nat.zero_add] at h1
      cases hs : vol.slots[i]? with
      | none => rw [hs] at h1; cases h1
      | some sl =>
        rw [hs] at h1
        simp only [Option.map_some, Option.some.injEq] at h1
        have hsl : slotAt s.vols v i = some sl := by simp [slotAt, hv, hs]
        by_cases hl : lost.contains (vol.id, i) = true
        · simp only [hl, if_true] at h1; subst h1
          refine ⟨rfl, sl, hsl, rfl, ?_⟩
          intro hne
          have : (vol.id, i) ∈ lost := by simpa using hl
          have := hfree _ this sl (by rw [hvid]; exact hsl)
          exact absurd this hne
        · simp only [hl, if_false] at h1; subst h1
          exact ⟨rfl, sl, hsl, rfl, fun _ => rfl⟩
  have nopend : ∀ r, ¬ isPending s r := by
    intro r ⟨p, hp', _⟩; rw [hp] at hp'; cases hp'
  refine ⟨?_, ?_, ?_, ?_, ?_, ?_, ?_, ?_, by simp⟩
  · intro v i sl' r h1 h2
    obtain ⟨_, sl, h3, e1, e2⟩ := hslot v i sl' h1
    right
    have hsec : sl.sec = some r := e1 ▸ h2
    rw [e2 (by rw [hsec]; simp)]
    exact content_of_holds h h3 hsec (nopend r)
  · intro v i sl' r h1 h2 hd
    rw [(hslot v i sl' h1).1] at hd; cases hd
  · intro r hr
    rcases h.refSafe r hr with h1 | ⟨h1, _, _⟩
    · exact Or.inl h1
    · refine Or.inr ⟨by rw [located_of_skel hsk]; exact h1, by simp, ?_⟩
      rintro ⟨p, hp', _⟩; cases hp'
  · intro r hr; cases hr
  · intro r hr; cases hr
  · intro e he; cases he
  · intro r hr
    rw [located_of_skel hsk] at hr; exact h.locStored r hr
  · intro v i sl' h1 hd
    rw [(hslot v i sl' h1).1] at hd; cases hd

theorem restart_data {s : State} (h : DataInv s) : DataInv (restart s).1 := by
  simp only [restart]
  split
  · exact h
  rename_i hp
  have hp' : s.pending = [] := by
    cases hx : s.pending with
    | nil => rfl
    | cons a b => simp [hx] at hp
  have hid : ∀ x : Volume, ({ x with slots := x.slots.map fun sl => { sl with durable := true } } : Volume).id = x.id := fun _ => rfl
  have hsk : (s.vols.map fun v => { v with slots := v.slots.map fun sl => { sl with durable := true } }).map skel = s.vols.map skel := by
    apply map_skel_of
    intro x
    simp [skel, List.map_map, Function.comp_def]
  have hslot : ∀ v i sl', slotAt (s.vols.map fun v => { v with slots := v.slots.map fun sl => { sl with durable := true } }) v i = some sl' →
      sl'.durable = true ∧ ∃ sl, slotAt s.vols v i = some sl ∧ sl'.sec = sl.sec ∧ sl'.content = sl.content := by
    intro v i sl' h1
    rw [slotAt_map _ hid] at h1
    split at h1
    · cases h1
    · rename_i vol hv
      simp only [List.getElem?_map] at h1
      cases hs : vol.slots[i]? with
      | none => rw [hs] at h1; cases h1
      | some sl =>
        rw [hs] at h1; simp at h1; subst h1
        exact ⟨rfl, sl, by simp [slotAt, hv, hs], rfl, rfl⟩
  have h1 : DataInv { s with vols := s.vols.map fun v => { v with slots := v.slots.map fun sl => { sl with durable := true } } } := ?_
  · exact crash_data h1 [] hp' (by intro p hp; cases hp)
  refine ⟨?_, ?_, ?_, ?_, h.freshRec, h.cacheGood, ?_, ?_, h.pendW⟩
  · intro v i sl' r h1 h2
    obtain ⟨_, sl, h3, e1, e2⟩ := hslot v i sl' h1
    rw [e2]; exact h.slotData v i sl r h3 (e1 ▸ h2)
  · intro v i sl' r h1 h2 hd
    rw [(hslot v i sl' h1).1] at hd; cases hd
  · intro r hr
    rcases h.refSafe r hr with h1 | ⟨h1, h2, h3⟩
    · exact Or.inl h1
    · exact Or.inr ⟨by rw [located_of_skel hsk]; exact h1, h2, h3⟩
  · intro r hr
    obtain ⟨h1, h3⟩ := h.freshSafe r hr
    exact ⟨by rw [located_of_skel hsk]; exact h1, h3⟩
  · intro r hr
    rw [located_of_skel hsk] at hr; exact h.locStored r hr
  · intro v i sl' h1 hd
    rw [(hslot v i sl' h1).1] at hd; cases hd

/-! ## migration -/

theorem not_pending_of_holds {s : State} (hm : MetaOK s) {v i : Nat} {r : SectorId} (hh : holdsAt s.vols v i r)
    (hs : ∀ p ∈ s.pending, p.v ≠ v) : ¬ isPending s r := by
  rintro ⟨p, hp, e⟩
  have hq := hm.pend p hp
  rw [e] at hq
  have h1 : located (clearAt s.vols v i) r = true := by
    apply located_of_holdsAt (v := p.v) (i := p.i)
    rw [clearAt_eq]
    exact holdsAt_modVol_other _ _ hq (fun ⟨e1, _⟩ => hs p hp e1)
  have := (located_clear hm.core hh r).mp h1
  exact this.1 rfl

/-- the metadata swap of a successful migration, target already holding a durable copy -/
theorem move_data {s : State} (hm : MetaOK s) (h : DataInv s) {v i tv ti : Nat} {r : SectorId} {slt : Slot}
    (hh : holdsAt s.vols v i r) (ht : slotAt s.vols tv ti = some slt) (hfree : slt.sec = none)
    (hcont : slt.content = .dataOf r) (hdur : slt.durable = true) :
    DataInv { s with vols := moveMeta s.vols v i tv ti r } := by
  rw [moveMeta_eq hm.core hh]
  obtain ⟨sl0, hs0, hsec0⟩ := hh
  have hne : ¬ (tv = v ∧ ti = i) := by
    intro ⟨e1, e2⟩
    rw [e1, e2, hs0] at ht; cases ht
    rw [hfree] at hsec0; cases hsec0
  have ht' : slotAt (clearAt s.vols v i) tv ti = some slt := by
    rw [clearAt_eq, slotAt_modVol]; simp [hne, ht]
  have hslot : ∀ v' i' sl', slotAt (placeAt (clearAt s.vols v i) tv ti r) v' i' = some sl' →
      (v' = tv ∧ i' = ti ∧ sl' = setSec (some r) slt) ∨
      (v' = v ∧ i' = i ∧ sl'.sec = none ∧ sl'.durable = sl0.durable) ∨
      slotAt s.vols v' i' = some sl' := by
    intro v' i' sl' h1
    rw [placeAt_eq] at h1
    rcases slot_cases_modVol h1 with ⟨e1, e2, sl, h3, rfl⟩ | ⟨_, h3⟩
    · rw [ht'] at h3; cases h3
      exact Or.inl ⟨e1, e2, rfl⟩
    · rw [clearAt_eq] at h3
      rcases slot_cases_modVol h3 with ⟨e1, e2, sl, h4, rfl⟩ | ⟨_, h4⟩
      · rw [hs0] at h4; cases h4
        exact Or.inr (Or.inl ⟨e1, e2, rfl, rfl⟩)
      · exact Or.inr (Or.inr h4)
  have hcnt : ∀ r', cnt (placeAt (clearAt s.vols v i) tv ti r) r' = cnt s.vols r' := by
    intro r'
    have hn' : ((clearAt s.vols v i).map (·.id)).Nodup := by
      rw [clearAt_eq, updVol_ids _ _ _ (modVol_id _ _ _)]; exact hm.core.ids
    rw [cnt_placeAt hn' ht' hfree]
    have := cnt_clearAt hm.core.ids ⟨sl0, hs0, hsec0⟩ r'
    omega
  have hloc : ∀ r', located (placeAt (clearAt s.vols v i) tv ti r) r' = located s.vols r' := fun r' => located_eq_of_cnt (hcnt r')
  refine ⟨?_, ?_, ?_, ?_, h.freshRec, h.cacheGood, ?_, ?_, h.pendW⟩
  · intro v' i' sl' r' h1 h2
    rcases hslot v' i' sl' h1 with ⟨_, _, rfl⟩ | ⟨_, _, e, _⟩ | h3
    · right
      have : r' = r := by simpa [setSec] using h2.symm
      rw [this]; exact hcont
    · rw [e] at h2; cases h2
    · exact h.slotData v' i' sl' r' h3 h2
  · intro v' i' sl' r' h1 h2 hd
    rcases hslot v' i' sl' h1 with ⟨_, _, rfl⟩ | ⟨_, _, e, _⟩ | h3
    · simp [setSec, hdur] at hd
    · rw [e] at h2; cases h2
    · exact h.slotDur v' i' sl' r' h3 h2 hd
  · intro r' hr
    rcases h.refSafe r' hr with h1 | ⟨h1, h2, h3⟩
    · exact Or.inl h1
    · exact Or.inr ⟨by rw [hloc]; exact h1, h2, h3⟩
  · intro r' hr
    obtain ⟨h1, h3⟩ := h.freshSafe r' hr
    exact ⟨by rw [hloc]; exact h1, h3⟩
  · intro r' hr
    rw [hloc] at hr; exact h.locStored r' hr
  · intro v' i' sl' h1 hd
    rcases hslot v' i' sl' h1 with ⟨_, _, rfl⟩ | ⟨e1, e2, _, e4⟩ | h3
    · simp [setSec, hdur] at hd
    · rw [e1]; exact h.dirtyChanged v i sl0 hs0 (e4 ▸ hd)
    · exact h.dirtyChanged v' i' sl' h3 hd

theorem moveOne_data {s : State} (hm : MetaOK s) (h : DataInv s) {v i : Nat} {r : SectorId} (mv : Move) (hh : holdsAt s.vols v i r)
    (ht : ∃ sl, slotAt s.vols mv.toV mv.toI = some sl ∧ sl.sec = none) (hs : ∀ p ∈ s.pending, p.v ≠ v) :
    DataInv (moveOne s v i r mv).1 := by
  have hnp := not_pending_of_holds hm hh hs
  simp only [moveOne]
  split
  · exact h
  split
  · exact h
  rename_i sl0 hsl0
  obtain ⟨sl0', hs0', hsec0⟩ := hh
  have e0 : slotAt s.vols v i = some sl0 := hsl0
  rw [e0] at hs0'; cases hs0'
  have hcont := content_of_holds h e0 hsec0 hnp
  have hne : ¬ (sl0.content ≠ Content.dataOf r) := fun x => x hcont
  simp only [hne, if_false]
  -- after readLocation + WriteSector + Sync
  have hsk : (syncVol mv.toV (modSlot mv.toV mv.toI (fun x => { x with content := sl0.content, durable := false }) s.vols)).map skel
      = s.vols.map skel := by
    rw [syncVol_skel, modSlot_skel mv.toV mv.toI (fun x => { x with content := sl0.content, durable := false }) (fun _ => rfl)]
  obtain ⟨slt, hslt, hfree⟩ := ht
  have h2 : DataInv { s with
      vols := syncVol mv.toV (modSlot mv.toV mv.toI (fun x => { x with content := sl0.content, durable := false }) s.vols)
      heap := s.heap ++ [sl0.content]
      cache := cacheAdd s.cacheSize r s.heap.length s.cache } := by
    apply dataInv_slots h
    · intro v' i' sl' h1
      rw [slotAt_syncVol] at h1
      have inner : ∀ sl'', slotAt (modSlot mv.toV mv.toI (fun x => { x with content := sl0.content, durable := false }) s.vols) v' i' = some sl'' →
          (v' = mv.toV ∧ sl''.sec = none) ∨ slotAt s.vols v' i' = some sl'' := by
        intro sl'' h3
        rw [modSlot_eq] at h3
        rcases slot_cases_modVol h3 with ⟨e1, e2, sl, h4, rfl⟩ | ⟨_, h4⟩
        · rw [hslt] at h4; cases h4
          exact Or.inl ⟨e1, hfree⟩
        · exact Or.inr h4
      by_cases e : v' = mv.toV
      · simp only [e, if_true] at h1
        cases h3 : slotAt (modSlot mv.toV mv.toI (fun x => { x with content := sl0.content, durable := false }) s.vols) mv.toV i' with
        | none => rw [h3] at h1; cases h1
        | some sl'' =>
          rw [h3] at h1; simp at h1; subst h1
          rcases inner sl'' (e ▸ h3) with ⟨_, h4⟩ | h4
          · exact Or.inl ⟨h4, rfl⟩
          · exact Or.inr ⟨sl'', h4, Or.inr ⟨rfl, rfl⟩, fun x => by simp at x⟩
      · simp only [e, if_false] at h1
        rcases inner sl' h1 with ⟨e', _⟩ | h4
        · exact absurd e' e
        · exact same_slot h4
    · intro r' hr; rw [located_of_skel hsk] at hr; exact hr
    · intro r' hr; left; rw [located_of_skel hsk]; exact hr
    · rfl
    · rfl
    · intro _ hx; exact hx
    · intro x; rfl
    · intro _ hx; exact hx
    · intro _ hx; exact hx
    · intro e he
      rcases mem_cacheAdd he with rfl | he
      · show (s.heap ++ [sl0.content])[s.heap.length]? = _
        simp [hcont]
      · exact heap_append_get (h.cacheGood e he)
    · intro _ hx; exact hx
    · intro _ hx; exact hx
  split
  · exact h2
  -- the swap
  have hm2 : MetaOK { s with
      vols := syncVol mv.toV (modSlot mv.toV mv.toI (fun x => { x with content := sl0.content, durable := false }) s.vols)
      heap := s.heap ++ [sl0.content]
      cache := cacheAdd s.cacheSize r s.heap.length s.cache } :=
    metaOK_skel hm hsk rfl rfl rfl rfl (fun _ hp => hp) hm.pendR (fun _ hx => hx)
  have hh2 := holdsAt_of_skel hsk (⟨sl0, e0, hsec0⟩ : holdsAt s.vols v i r)
  have ht2 : slotAt (syncVol mv.toV (modSlot mv.toV mv.toI (fun x => { x with content := sl0.content, durable := false }) s.vols)) mv.toV mv.toI
      = some { slt with content := sl0.content, durable := true } := by
    rw [slotAt_syncVol, modSlot_eq, slotAt_modVol]
    simp [hslt]
  exact move_data hm2 h2 hh2 ht2 hfree hcont rfl

theorem migrateGo_data {v start : Nat} (moves : List Move) : ∀ {s : State} (cursor nOk nFail : Nat), MetaOK s → DataInv s →
    (∀ p ∈ s.pending, p.v ≠ v) → DataInv (migrateGo s v start cursor nOk nFail moves).1 := by
  induction moves with
  | nil =>
    intro s cursor nOk nFail _ h _
    simp only [migrateGo]
    split
    · exact h
    split
    · exact h
    split <;> exact h
  | cons mv rest ih =>
    intro s cursor nOk nFail hm h hs
    simp only [migrateGo]
    split
    · exact h
    rename_i vol hv
    split
    · exact h
    rename_i i r hn
    split
    · exact h
    split
    · exact h
    rename_i hvalid
    obtain ⟨_, sl, hsl, hsec⟩ := nextOcc_spec hn
    have hh : holdsAt s.vols v i r := ⟨sl, by simpa [slotAt, hv] using hsl, hsec⟩
    have ht := validTo_slot (by simpa using hvalid)
    have hm' := moveOne_ok hm mv hh ht hs
    have hd' := moveOne_data hm h mv hh ht hs
    have hp := moveOne_pending s v i r mv
    generalize hmo : moveOne s v i r mv = res at hm' hd' hp
    obtain ⟨s', ok⟩ := res
    simp only at hm' hd' hp ⊢
    split
    · exact hd'
    split
    · split
      · exact hd'
      · exact ih _ _ _ hm' hd' (by rw [hp]; exact hs)
    · exact ih _ _ _ hm' hd' (by rw [hp]; exact hs)

theorem migrate_data {s : State} (hm : MetaOK s) (h : DataInv s) (v start : Nat) (moves : List Move) (hs : ∀ p ∈ s.pending, p.v ≠ v) :
    DataInv (migrate s v start moves).1 := migrateGo_data moves _ _ _ hm h hs

/-! ## VolumeManager orchestration -/

theorem vmAddVolume_inv {s : State} (h : Inv s) (id n : Nat) : Inv (vmAddVolume s id n).1 := by
  simp only [vmAddVolume]
  split
  · exact h
  have ha : Inv (addVolume s id false).1 := ⟨addVolume_ok h.1 id false, addVolume_data h.2 id false⟩
  generalize addVolume s id false = res at ha
  obtain ⟨s1, r⟩ := res
  cases r <;> first
    | exact ha
    | exact ⟨grow_ok (setAvailable_ok ha.1 id true) id n, grow_data (setAvailable_ok ha.1 id true) (setAvailable_data ha.2 id true) id n⟩

theorem vmResize_inv {s : State} (h : Inv s) (v n : Nat) (moves : List Move) (hs : ∀ p ∈ s.pending, p.v ≠ v) :
    Inv (vmResize s v n moves).1 := by
  simp only [vmResize]
  split
  · exact h
  rename_i vol hv
  split
  · have h1 : Inv (if (!vol.readOnly) = true then setReadOnly s v true else s) := by
      split
      · exact ⟨setReadOnly_ok h.1 v true, setReadOnly_data h.2 v true⟩
      · exact h
    have hp1 : (if (!vol.readOnly) = true then setReadOnly s v true else s).pending = s.pending := by split <;> rfl
    generalize (if (!vol.readOnly) = true then setReadOnly s v true else s) = s1 at h1 hp1
    have h2 : Inv (migrate s1 v n moves).1 :=
      ⟨migrate_ok h1.1 v n moves (by rw [hp1]; exact hs), migrate_data h1.1 h1.2 v n moves (by rw [hp1]; exact hs)⟩
    generalize migrate s1 v n moves = res at h2
    obtain ⟨s2, r⟩ := res
    simp only at h2 ⊢
    have key : ∀ (x : State × Res), Inv x.1 →
        Inv (if (!vol.readOnly) = true then setReadOnly x.1 v false else x.1) := by
      intro x hx
      split
      · exact ⟨setReadOnly_ok hx.1 v false, setReadOnly_data hx.2 v false⟩
      · exact hx
    apply key
    split
    · exact ⟨shrink_ok h2.1 v n, shrink_data h2.1 h2.2 v n⟩
    · exact h2
    · exact h2
  · split
    · exact ⟨grow_ok h.1 v n, grow_data h.1 h.2 v n⟩
    · exact h

theorem vmRemove_inv {s : State} (h : Inv s) (v : Nat) (force : Bool) (moves : List Move) (hs : ∀ p ∈ s.pending, p.v ≠ v) :
    Inv (vmRemove s v force moves).1 := by
  simp only [vmRemove]
  split
  · exact h
  have h1 : Inv (setReadOnly s v true) := ⟨setReadOnly_ok h.1 v true, setReadOnly_data h.2 v true⟩
  have h2 : Inv (migrate (setReadOnly s v true) v 0 moves).1 :=
    ⟨migrate_ok h1.1 v 0 moves (by rw [setReadOnly_pending]; exact hs), migrate_data h1.1 h1.2 v 0 moves (by rw [setReadOnly_pending]; exact hs)⟩
  have hp2 : (migrate (setReadOnly s v true) v 0 moves).1.pending = s.pending := by
    simp only [migrate]; rw [migrateGo_pending]; rfl
  generalize migrate (setReadOnly s v true) v 0 moves = res at h2 hp2
  obtain ⟨s2, r⟩ := res
  simp only at h2 hp2 ⊢
  split
  · split
    · exact h2
    · refine ⟨removeVolume_ok h2.1 v force ?_, removeVolume_data h2.1 h2.2 v force⟩
      intro _ p hp
      rw [hp2] at hp
      exact hs p hp
  · exact h2

/-! ## Sync in two phases; resize from a stale total -/

/-- the shape of the code for which the invariant is inductive: the dirty flag is cleared BEFORE the
fsync (and Sync calls are serialised), and `ResizeVolume` reads the size under the status guard.
The current code has neither: `C02_sync_flag_race_witness`, `C02_resize_stale_witness`. -/
def ShapeOK (f : Facts) : Op → Prop
  | .syncFsync _ => f.syncSerial = true
  | .syncClear _ => f.syncSerial = true
  | .vmResizeStale _ _ _ _ => f.resizeStatLocked = true
  | .syncFsyncFail _ => f.syncSerial = true
  | .syncPartial _ _ => f.syncKeepsRest = true
  | .removeRows _ force _ => RemoveShapeOK f force
  | _ => True

theorem syncBegin_data {s : State} (h : DataInv s) : DataInv (syncBegin s).1 := by
  simp only [syncBegin]; split
  · exact h
  · exact dataInv_frame h rfl rfl rfl (fun _ hx => hx) (fun r hr => Or.inl hr) h.freshSafe h.freshRec h.cacheGood
      (fun _ hx => hx) (fun _ hx => hx)

theorem syncEnd_data {s : State} (h : DataInv s) : DataInv (syncEnd s).1 := by
  simp only [syncEnd]; split
  · split
    · exact dataInv_frame h rfl rfl rfl (fun _ hx => hx) (fun r hr => Or.inl hr) h.freshSafe h.freshRec h.cacheGood
        (fun _ hx => hx) (fun _ hx => hx)
    · exact h
  · exact h

/-- repaired shape, first phase: the flag moves from `changed` to `inflight` -/
theorem syncClear_data {f : Facts} (hf : f.syncSerial = true) {s : State} (h : DataInv s) (v : Nat) : DataInv (syncClear f s v).1 := by
  simp only [syncClear, hf, if_true]; split
  · exact h
  split
  · refine ⟨h.slotData, h.slotDur, h.refSafe, h.freshSafe, h.freshRec, h.cacheGood, h.locStored, ?_, h.pendW⟩
    intro v' i sl h1 h2
    rcases h.dirtyChanged v' i sl h1 h2 with hx | hx
    · by_cases e : v' = v
      · exact Or.inr (e ▸ List.mem_cons_self)
      · exact Or.inl (List.mem_filter.mpr ⟨hx, by simpa using e⟩)
    · exact Or.inr (List.mem_cons_of_mem _ hx)
  · exact h

theorem hasDirty_of_slot {vs : List Volume} {v i : Nat} {sl : Slot} {r : SectorId} (h1 : slotAt vs v i = some sl)
    (h2 : sl.sec = some r) (h3 : sl.durable = false) : hasDirty vs r = true := by
  obtain ⟨vol, hv, hs⟩ := slotAt_split h1
  simp only [hasDirty, List.any_eq_true]
  exact ⟨vol, (findVol_some hv).1, sl, List.mem_of_getElem? hs, by simp [h2, h3]⟩

/-- repaired shape, second phase: the fsync returned -/
theorem syncFsync_data {f : Facts} (hf : f.syncSerial = true) {s : State} (h : DataInv s) (v : Nat) : DataInv (syncFsync f s v).1 := by
  simp only [syncFsync, hf, if_true]; split
  · exact h
  split
  · have hsk := syncVol_skel v s.vols
    have hslot : ∀ v' i sl', slotAt (syncVol v s.vols) v' i = some sl' →
        ∃ sl, slotAt s.vols v' i = some sl ∧ sl'.sec = sl.sec ∧ sl'.content = sl.content ∧
          (sl'.durable = false → sl.durable = false ∧ v' ≠ v) := by
      intro v' i sl' h1
      rw [slotAt_syncVol] at h1
      by_cases e : v' = v
      · simp only [e, if_true] at h1
        cases hs : slotAt s.vols v i with
        | none => rw [hs] at h1; cases h1
        | some sl => rw [hs] at h1; simp at h1; subst h1; exact ⟨sl, e ▸ hs, rfl, rfl, fun x => by simp at x⟩
      · simp only [e, if_false] at h1
        exact ⟨sl', h1, rfl, rfl, fun x => ⟨x, e⟩⟩
    refine ⟨?_, ?_, ?_, ?_, h.freshRec, h.cacheGood, ?_, ?_, h.pendW⟩
    · intro v' i sl' r h1 h2
      obtain ⟨sl, h3, e1, e2, _⟩ := hslot v' i sl' h1
      rw [e2]; exact h.slotData v' i sl r h3 (e1 ▸ h2)
    · intro v' i sl' r h1 h2 hd
      obtain ⟨sl, h3, e1, _, e4⟩ := hslot v' i sl' h1
      rcases h.slotDur v' i sl r h3 (e1 ▸ h2) (e4 hd).1 with hx | hx
      · exact Or.inl (List.mem_filter.mpr ⟨hx, hasDirty_of_slot h1 h2 hd⟩)
      · exact Or.inr hx
    · intro r hr
      rcases h.refSafe r hr with hx | ⟨h1, h2, h3⟩
      · exact Or.inl hx
      · exact Or.inr ⟨by rw [located_of_skel hsk]; exact h1, fun hm => h2 (List.mem_filter.mp hm).1, h3⟩
    · intro r hr
      obtain ⟨h1, h3⟩ := h.freshSafe r hr
      exact ⟨by rw [located_of_skel hsk]; exact h1, h3⟩
    · intro r hr
      rw [located_of_skel hsk] at hr; exact h.locStored r hr
    · intro v' i sl' h1 hd
      obtain ⟨sl, h3, _, _, e4⟩ := hslot v' i sl' h1
      obtain ⟨hd', hne⟩ := e4 hd
      rcases h.dirtyChanged v' i sl h3 hd' with hx | hx
      · exact Or.inl hx
      · exact Or.inr (List.mem_filter.mpr ⟨hx, by simpa using hne⟩)
  · exact h

/-- repaired shape: the fsync of the volume in flight failed; its flag is set again -/
theorem syncFsyncFail_data {f : Facts} (hf : f.syncSerial = true) {s : State} (h : DataInv s) (v : Nat) :
    DataInv (syncFsyncFail f s v).1 := by
  simp only [syncFsyncFail, hf, if_true]; split
  · exact h
  split
  · refine ⟨h.slotData, h.slotDur, h.refSafe, h.freshSafe, h.freshRec, h.cacheGood, h.locStored, ?_, h.pendW⟩
    intro v' i sl h1 h2
    rcases h.dirtyChanged v' i sl h1 h2 with hx | hx
    · exact Or.inl (mem_addNew hx)
    · by_cases e : v' = v
      · exact Or.inl (e ▸ self_mem_addNew _ _)
      · exact Or.inr (List.mem_filter.mpr ⟨hx, by simpa using e⟩)
  · exact h

/-- an uncontended Sync, some fsyncs done, possibly one failed: the volumes not fsynced keep their flag -/
theorem syncPartial_data {f : Facts} (hf : f.syncKeepsRest = true) {s : State} (h : DataInv s) (oks : List Nat) (fail : Option Nat) :
    DataInv (syncPartial f s oks fail).1 := by
  by_cases hidle : (!s.inflight.isEmpty || s.syncer.isSome) = true
  · simp only [syncPartial, hidle, if_true]; exact h
  have hin : s.inflight = [] := by
    cases hx : s.inflight with
    | nil => rfl
    | cons a b => simp [hx] at hidle
  suffices key : DataInv { s with vols := oks.foldl (fun vs w => syncVol w vs) s.vols
                                  changed := s.changed.filter (fun v => !oks.contains v)
                                  unsynced := s.unsynced.filter (hasDirty (oks.foldl (fun vs w => syncVol w vs) s.vols)) } by
    simp only [syncPartial, hf, if_true, hidle]
    repeat' split
    all_goals first
      | exact h
      | exact key
  have hsk := foldSync_skel oks s.vols
  have hslot : ∀ v i sl', slotAt (oks.foldl (fun vs w => syncVol w vs) s.vols) v i = some sl' →
      ∃ sl, slotAt s.vols v i = some sl ∧ sl'.sec = sl.sec ∧ sl'.content = sl.content ∧
        (sl'.durable = false → sl.durable = false ∧ v ∉ oks) := by
    intro v i sl' h1
    rw [slotAt_foldSync] at h1
    split at h1
    · cases hs : slotAt s.vols v i with
      | none => rw [hs] at h1; cases h1
      | some sl => rw [hs] at h1; simp at h1; subst h1; exact ⟨sl, rfl, rfl, rfl, fun x => by simp at x⟩
    · rename_i hn
      exact ⟨sl', h1, rfl, rfl, fun x => ⟨x, hn⟩⟩
  refine ⟨?_, ?_, ?_, ?_, h.freshRec, h.cacheGood, ?_, ?_, h.pendW⟩
  · intro v i sl' r h1 h2
    obtain ⟨sl, h3, e1, e2, _⟩ := hslot v i sl' h1
    rw [e2]; exact h.slotData v i sl r h3 (e1 ▸ h2)
  · intro v i sl' r h1 h2 hd
    obtain ⟨sl, h3, e1, _, e4⟩ := hslot v i sl' h1
    rcases h.slotDur v i sl r h3 (e1 ▸ h2) (e4 hd).1 with hx | hx
    · exact Or.inl (List.mem_filter.mpr ⟨hx, hasDirty_of_slot h1 h2 hd⟩)
    · exact Or.inr hx
  · intro r hr
    rcases h.refSafe r hr with hx | ⟨h1, h2, h3⟩
    · exact Or.inl hx
    · exact Or.inr ⟨by rw [located_of_skel hsk]; exact h1, fun hm => h2 (List.mem_filter.mp hm).1, h3⟩
  · intro r hr
    obtain ⟨h1, h3⟩ := h.freshSafe r hr
    exact ⟨by rw [located_of_skel hsk]; exact h1, h3⟩
  · intro r hr
    rw [located_of_skel hsk] at hr; exact h.locStored r hr
  · intro v i sl' h1 hd
    obtain ⟨sl, h3, _, _, e4⟩ := hslot v i sl' h1
    obtain ⟨hd', hno⟩ := e4 hd
    rcases h.dirtyChanged v i sl h3 hd' with hx | hx
    · exact Or.inl (List.mem_filter.mpr ⟨hx, by simpa using hno⟩)
    · rw [hin] at hx; cases hx

/-- with the size read under the status guard a resize never works from a stale total -/
theorem vmResizeStale_fixed {f : Facts} (hf : f.resizeStatLocked = true) (s : State) (cur v n : Nat) (moves : List Move) :
    vmResizeStale f s cur v n moves = vmResize s v n moves := by
  simp only [vmResizeStale, vmResize, hf, Bool.true_or, if_true]
  split <;> rfl

/-! ## the batched loops, one transaction at a time -/

theorem removeRows_data (f : Facts) {s : State} (hm : MetaOK s) (h : DataInv s) (v : Nat) (force : Bool) (gone : List Nat)
    (hs : force = true → ∀ p ∈ s.pending, p.v ≠ v) : DataInv (removeRows f s v force gone).1 := by
  simp only [removeRows]
  split
  · exact h
  rename_i vol hv
  split
  · exact h
  rename_i hforce
  split
  · exact h
  split
  · exact h
  have c := hm.core
  have hvm := (findVol_some hv).1
  have hpv : ∀ p ∈ s.pending, p.v ≠ v := by
    cases force with
    | true => exact hs rfl
    | false =>
      intro p hp e
      obtain ⟨sl, h1, h2⟩ := hm.pend p hp
      obtain ⟨pv, hpv, hsl⟩ := slotAt_split h1
      rw [e, hv] at hpv; cases hpv
      have : 0 < occ vol.slots := by
        simp only [occ]; rw [List.countP_pos_iff]; exact ⟨sl, List.mem_of_getElem? hsl, by simp [isOcc, h2]⟩
      simp at hforce; omega
  let g : Volume → Volume := fun x => { x with slots := (splitIdx gone vol.slots 0).1, total := x.total - (splitIdx gone vol.slots 0).2.length
                                               used := if f.removeUpdatesUsed then x.used - occ (splitIdx gone vol.slots 0).2 else x.used }
  have hgid : ∀ x, (g x).id = x.id := fun _ => rfl
  -- a slot of the new table is a slot of the old one (in `v` possibly at another position)
  have hslot : ∀ v' i sl', slotAt (updVol v g s.vols) v' i = some sl' →
      (v' ≠ v ∧ slotAt s.vols v' i = some sl') ∨ (v' = v ∧ ∃ i0, slotAt s.vols v i0 = some sl') := by
    intro v' i sl' h1
    rw [slotAt_updVol _ _ _ _ hgid] at h1
    by_cases e : v' = v
    · right
      simp only [e, if_true, hv, g] at h1
      have hmem := splitIdx_mem gone vol.slots 0 sl' (List.mem_of_getElem? h1)
      obtain ⟨i0, hi0⟩ := List.getElem?_of_mem hmem
      exact ⟨e, i0, by simp [slotAt, hv, hi0]⟩
    · left; simp only [e, if_false] at h1; exact ⟨e, h1⟩
  have nopendV : ∀ i r, ¬ pendingAt s v i r := by
    intro i r ⟨p, hp, e, _⟩; exact hpv p hp e
  have hcntle : ∀ r, cnt (updVol v g s.vols) r ≤ cnt s.vols r := by
    intro r
    simp only [cnt, updVol, sumBy_map]
    apply sumBy_le_sumBy
    intro x hx
    split
    · rename_i hid
      have e := eq_of_findVol c.ids hv hx hid
      rw [e]
      have := splitIdx_countP (holds r) gone vol.slots 0
      simp only [g]; omega
    · exact Nat.le_refl _
  have hcnt : ∀ r, cnt s.vols r = cnt (updVol v g s.vols) r + (splitIdx gone vol.slots 0).2.countP (holds r) := by
    intro r
    have h1 := sumBy_updVol (fun x => x.slots.countP (holds r)) v g s.vols c.ids vol hv
    have h2 := splitIdx_countP (holds r) gone vol.slots 0
    simp only [cnt, g] at h1 ⊢
    omega
  have hkeep : ∀ r, located s.vols r = true → located (updVol v g s.vols) r = true ∨ r ∈ occList (splitIdx gone vol.slots 0).2 := by
    intro r hr
    have h1 := (located_true_iff _ _).mp hr
    have h2 := hcnt r
    by_cases hz : (splitIdx gone vol.slots 0).2.countP (holds r) = 0
    · left; exact (located_true_iff _ _).mpr (by omega)
    · right
      have : 0 < (splitIdx gone vol.slots 0).2.countP (holds r) := by omega
      obtain ⟨sl, hsl, hh⟩ := List.countP_pos_iff.mp this
      simp only [occList, List.mem_filterMap]
      exact ⟨sl, hsl, by simpa [holds] using hh⟩
  refine ⟨?_, ?_, ?_, ?_, ?_, h.cacheGood, ?_, ?_, h.pendW⟩
  · intro v' i sl' r h1 h2
    rcases hslot v' i sl' h1 with ⟨_, h3⟩ | ⟨e, i0, h3⟩
    · exact h.slotData v' i sl' r h3 h2
    · rcases h.slotData v i0 sl' r h3 h2 with h4 | h4
      · exact absurd h4 (nopendV i0 r)
      · exact Or.inr h4
  · intro v' i sl' r h1 h2 hd
    rcases hslot v' i sl' h1 with ⟨_, h3⟩ | ⟨e, i0, h3⟩
    · exact h.slotDur v' i sl' r h3 h2 hd
    · rcases h.slotDur v i0 sl' r h3 h2 hd with h4 | h4
      · exact Or.inl h4
      · exact absurd h4 (nopendV i0 r)
  · intro r hr
    rcases h.refSafe r hr with h1 | ⟨h1, h2, h3⟩
    · exact Or.inl (List.mem_append_right _ h1)
    · rcases hkeep r h1 with h4 | h4
      · exact Or.inr ⟨h4, h2, h3⟩
      · exact Or.inl (List.mem_append_left _ h4)
  · intro r hr
    have hr' := List.mem_filter.mp hr
    obtain ⟨h1, h3⟩ := h.freshSafe r hr'.1
    rcases hkeep r h1 with h4 | h4
    · exact ⟨h4, h3⟩
    · have hc2 : (occList (splitIdx gone vol.slots 0).2).contains r = true := by simpa using h4
      have := hr'.2
      simp [hc2] at this
      exact absurd h4 this
  · intro r hr
    exact h.freshRec r (List.mem_filter.mp hr).1
  · intro r hr
    exact h.locStored r (located_mono_of_cnt (hcntle r) hr)
  · intro v' i sl' h1 hd
    rcases hslot v' i sl' h1 with ⟨_, h3⟩ | ⟨e, i0, h3⟩
    · exact h.dirtyChanged v' i sl' h3 hd
    · rw [e]; exact h.dirtyChanged v i0 sl' h3 hd

theorem expire1Part_data (f : Facts) {s : State} (h : DataInv s) (ht : Nat) (keep : List (Nat × List SectorId)) :
    DataInv (expire1Part f s ht keep).1 := by
  simp only [expire1Part]
  split
  · exact h
  rename_i hvalid
  split
  · exact h
  have hv' : ∀ c ∈ s.c1, ∀ a ∈ keptRoots keep c.id c.roots, a ∈ c.roots := by
    have := hvalid
    simp at this
    exact fun c hc => (this c hc).2.1
  refine dataInv_refs_shrink h rfl rfl rfl rfl rfl rfl rfl rfl rfl rfl (refs_of_c1_shrink ?_ rfl rfl)
  intro r hr
  simp only [refd1, List.any_eq_true, List.mem_map] at hr ⊢
  obtain ⟨x, ⟨y, hy, rfl⟩, hx⟩ := hr
  exact ⟨y, hy, by simpa using hv' y hy r (by simpa using hx)⟩

theorem expire2Part_data (f : Facts) {s : State} (h : DataInv s) (ht : Nat) (keep : List (Nat × List SectorId)) :
    DataInv (expire2Part f s ht keep).1 := by
  simp only [expire2Part]
  split
  · exact h
  rename_i hvalid
  split
  · exact h
  have hv' : ∀ c ∈ s.c2, ∀ a ∈ keptRoots keep c.id c.roots, a ∈ c.roots := by
    have := hvalid
    simp at this
    exact fun c hc => (this c hc).2.1
  refine dataInv_refs_shrink h rfl rfl rfl rfl rfl rfl rfl rfl rfl rfl (refs_of_c2_shrink rfl ?_ rfl)
  intro r hr
  simp only [refd2, List.any_eq_true, List.mem_map] at hr ⊢
  obtain ⟨x, ⟨y, hy, rfl⟩, hx⟩ := hr
  exact ⟨y, hy, by simpa using hv' y hy r (by simpa using hx)⟩

theorem expireTempPart_data {s : State} (h : DataInv s) (ht : Nat) (keep : List Temp) : DataInv (expireTempPart s ht keep).1 := by
  simp only [expireTempPart]
  split
  · exact h
  rename_i hvalid
  split
  · exact h
  have hk : ∀ t ∈ keep, t ∈ s.temps := by
    have := hvalid
    simp at this
    exact this.1.2
  refine dataInv_refs_shrink h rfl rfl rfl rfl rfl rfl rfl rfl rfl rfl ?_
  intro r hr
  simp only [referenced, refd1, refd2, refdT, Bool.or_eq_true, List.any_eq_true] at hr ⊢
  rcases hr with hr | ⟨t, ht', e⟩
  · exact Or.inl hr
  · exact Or.inr ⟨t, hk t ht', e⟩

/-- one slot of a prunable sector released -/
theorem pruneOne_data {s : State} (hm : MetaOK s) (h : DataInv s) {v i : Nat} {r : SectorId} (hh : holdsAt s.vols v i r)
    (hp : prunable s r = true) :
    DataInv { s with vols := clearAt s.vols v i, m := { s.m with physical := s.m.physical - 1 } } := by
  have hnr : referenced s r = false ∧ r ∉ s.recent := by simpa [prunable] using hp
  have hloc' := located_clear hm.core hh
  apply dataInv_slots h
  · intro v' i' sl' h1
    rw [clearAt_eq] at h1
    rcases slot_cases_modVol h1 with ⟨rfl, rfl, sl, h3, rfl⟩ | ⟨_, h3⟩
    · exact Or.inr ⟨sl, h3, Or.inl rfl, fun x => x⟩
    · exact same_slot h3
  · intro r' hr'; exact ((hloc' r').mp hr').2
  · intro r' hr'
    by_cases e : r' = r
    · -- unreferenced and not fresh: nobody relies on it
      right; right
      subst e
      exact ⟨hnr.1, fun hf => hnr.2 (h.freshRec _ hf)⟩
    · left; exact (hloc' r').mpr ⟨e, hr'⟩
  · rfl
  · rfl
  · intro _ hx; exact hx
  · intro x; rfl
  · intro _ hx; exact hx
  · intro _ hx; exact hx
  · exact h.cacheGood
  · intro _ hx; exact hx
  · intro _ hx; exact hx


theorem prunePart_data (cleared : List (Nat × Nat)) : ∀ {s : State}, MetaOK s → DataInv s → DataInv (prunePart s cleared).1 := by
  induction cleared with
  | nil => intro s _ h; exact h
  | cons x xs ih =>
    intro s hm h
    obtain ⟨v, i⟩ := x
    simp only [prunePart]
    split
    · rename_i sl vol hsl hvol
      split
      · rename_i r hr
        split
        · exact h
        rename_i hp
        split
        · exact h
        split
        · exact h
        have hpr : prunable s r = true := by simpa using hp
        exact ih (pruneOne_ok hm ⟨sl, hsl, hr⟩ hpr) (pruneOne_data hm h ⟨sl, hsl, hr⟩ hpr)
      · exact h
    · exact h

theorem migratePart_data {s : State} (hm : MetaOK s) (h : DataInv s) (v start : Nat) (moves : List Move)
    (hs : ∀ p ∈ s.pending, p.v ≠ v) : DataInv (migratePart s v start moves).1 := by
  have := migrate_data hm h v start moves hs
  simp only [migratePart]
  split
  · rename_i s' heq; rw [heq] at this; exact this
  · exact this

theorem shape8_of_shape {f : Facts} {op : Op} (h : ShapeOK f op) : C08.ShapeOK f op := by
  cases op <;> first | exact h | trivial

/-! ## the partial theorem -/

theorem step_inv (f : Facts) {s : State} (h : Inv s) (op : Op) (hs : Safe s op) (hsh : ShapeOK f op) : Inv (step f s op).1 := by
  obtain ⟨hm, hd⟩ := h
  obtain ⟨hs8, hs2⟩ := hs
  refine ⟨step_ok f hm op hs8 (shape8_of_shape hsh), ?_⟩
  cases op with
  | addVolume id ro => exact addVolume_data hd id ro
  | grow v n => exact grow_data hm hd v n
  | shrink v n => exact shrink_data hm hd v n
  | removeVolume v force => exact removeVolume_data hm hd v force
  | setReadOnly v b => exact setReadOnly_data hd v b
  | setAvailable v b => exact setAvailable_data hd v b
  | reserve w r b ch => exact reserve_data hm hd w r b ch hs2
  | finish w ok => exact finish_data hm hd w ok hs2
  | revise1 c chs => exact revise1_data hd c chs hs2
  | revise2 c roots => exact revise2_data hd c roots hs2
  | addTemp r exp => exact addTemp_data hd r exp hs2
  | addTemps l => exact addTemps_data hd l hs2
  | addC1 id wEnd => exact addC1_data hd id wEnd
  | addC2 id expH => exact addC2_data hd id expH
  | setStatus1 id st => exact setStatus1_data hd id st
  | setStatus2 id st => exact setStatus2_data hd id st
  | expire1 ht => exact expire1_data f hd ht
  | expire2 ht => exact expire2_data f hd ht
  | expireTemp ht => exact expireTemp_data hd ht
  | tick => exact tick_data hd
  | prune => exact prune_data hm hd
  | removeSector r data => exact removeSector_data hm hd r data hs8
  | migrate v start moves => exact migrate_data hm hd v start moves hs8
  | read r => exact read_data hm hd r hs2
  | newBuf c => exact newBuf_data hd c
  | mutate b c => exact mutate_data hd b c hs2
  | sync => exact sync_data hd hs2
  | resizeCache n => exact resizeCache_data hd n
  | crash lost => exact crash_data hd lost hs2.1 hs2.2
  | restart => exact restart_data hd
  | vmAddVolume id n => exact (vmAddVolume_inv ⟨hm, hd⟩ id n).2
  | vmResize v n moves => exact (vmResize_inv ⟨hm, hd⟩ v n moves hs8).2
  | vmRemove v force moves => exact (vmRemove_inv ⟨hm, hd⟩ v force moves hs8).2
  | syncBegin => exact syncBegin_data hd
  | syncFsync v => exact syncFsync_data hsh hd v
  | syncClear v => exact syncClear_data hsh hd v
  | syncEnd => exact syncEnd_data hd
  | syncFsyncFail v => exact syncFsyncFail_data hsh hd v
  | syncPartial oks fail => exact syncPartial_data hsh hd oks fail
  | removeRows v force gone => exact removeRows_data f hm hd v force gone hs8
  | expire1Part ht keep => exact expire1Part_data f hd ht keep
  | expire2Part ht keep => exact expire2Part_data f hd ht keep
  | expireTempPart ht keep => exact expireTempPart_data hd ht keep
  | prunePart cleared => exact prunePart_data cleared hm hd
  | migratePart v start moves => exact migratePart_data hm hd v start moves hs8
  | vmResizeStale cur v n moves =>
    show DataInv (vmResizeStale f s cur v n moves).1
    rw [vmResizeStale_fixed hsh]
    exact (vmResize_inv ⟨hm, hd⟩ v n moves hs8).2

/-- every step of the history satisfies `Safe` (and `ShapeOK`) in the state it runs in -/
def SafeRun (f : Facts) : State → List Op → Prop
  | _, [] => True
  | s, op :: ops => Safe s op ∧ ShapeOK f op ∧ SafeRun f (step f s op).1 ops

theorem init_inv (n : Nat) : Inv (init n) := by
  refine ⟨init_ok n, ⟨?_, ?_, ?_, ?_, ?_, ?_, ?_, ?_, ?_⟩⟩ <;>
    simp [init, slotAt, findVol, referenced, refd1, refd2, refdT, located]

/-- **C02 (partial).** The read-intact invariant holds in every state reachable by a history all of
whose steps satisfy `Safe` — any number of volumes, any cache size, any interleaving of writers at
`StoreSector`'s critical sections, migrations with failures at any index, prune, grow/shrink/remove,
restarts and crashes. The schedules `Safe` excludes are listed at its definition; for four of them
the current code violates the property (witnesses below). -/
theorem C02_read_intact_partial (f : Facts) (ops : List Op) : ∀ (s : State), Inv s → SafeRun f s ops → Inv (run f s ops) := by
  induction ops with
  | nil => intro s h _; exact h
  | cons op ops ih =>
    intro s h hs
    simp only [run, List.foldl_cons]
    exact ih _ (step_inv f h op hs.1 hs.2.1) hs.2.2

theorem C02_read_intact_partial_init (f : Facts) (cache : Nat) (ops : List Op) (hs : SafeRun f (init cache) ops) :
    Inv (run f (init cache) ops) := C02_read_intact_partial f ops _ (init_inv cache) hs

/-- **What the invariant buys.** A referenced root that was not dropped by a forced removal /
`RemoveSector` is served with its own data — from the cache or from a slot that is fsynced. -/
theorem C02_read_of_inv {s : State} (h : Inv s) (r : SectorId) (href : referenced s r = true) (hl : r ∉ s.lostNow) :
    readContent s r = some (.dataOf r) ∧
      ∀ v i sl, slotAt s.vols v i = some sl → sl.sec = some r → sl.content = .dataOf r ∧ sl.durable = true := by
  obtain ⟨hm, hd⟩ := h
  rcases hd.refSafe r href with h1 | ⟨hloc, hns, hnp⟩
  · exact absurd h1 hl
  constructor
  · simp only [readContent, Hostd.Volumes.read]
    cases hc : cacheGet r s.cache with
    | some b => simpa using hd.cacheGood _ (cacheGet_mem hc)
    | none =>
      have hst := hd.locStored r hloc
      simp only [hst, Bool.not_true, Bool.false_eq_true, if_false]
      obtain ⟨v, i, hfl⟩ := findLoc_of_located hloc
      obtain ⟨sl, hsl, hsec⟩ := findLoc_spec hm.core.ids hfl
      simp only [hfl, hsl]
      simp [content_of_holds hd hsl hsec hnp]
  · intro v i sl hsl hsec
    refine ⟨content_of_holds hd hsl hsec hnp, ?_⟩
    cases hdur : sl.durable with
    | true => rfl
    | false =>
      rcases hd.slotDur v i sl r hsl hsec hdur with h2 | ⟨p, hp, _, _, e⟩
      · exact absurd h2 hns
      · exact absurd ⟨p, hp, e⟩ hnp

/-! ## the hypotheses are satisfiable, the conclusion is not vacuous -/

/-- upload (write, Sync, append to a contract), restart, read, resize with a migration, prune, crash -/
def goodOps : List Op :=
  [.vmAddVolume 1 3, .vmAddVolume 2 2, .addC1 1 40, .newBuf (.dataOf 1), .reserve 0 1 0 (some (1, 2)), .finish 0 true, .sync,
   .revise1 1 [.append 1], .restart, .read 1,
   .vmResize 1 2 [{ fromI := 2, toV := 2, toI := 0, inj := 0, ok := true }], .tick, .prune, .read 1]

example : SafeRun Facts.code (init 4) goodOps := by
  simp only [goodOps, SafeRun, Safe, C08.Safe, ShapeOK, isPending, Committable, newRoots]
  decide

example : readContent (run Facts.code (init 4) goodOps) 1 = some (.dataOf 1) := by decide
example : located (run Facts.code (init 4) goodOps).vols 1 = true ∧ referenced (run Facts.code (init 4) goodOps) 1 = true := by decide

/-! ## counterexamples: the schedules `Safe` excludes and the CURRENT CODE mishandles -/

/-- (ii) `ReadSector(1)` → patch the returned buffer in place → `Write(root 2, same buffer)` with the
sector cache enabled (rhp/v3 `executeUpdateSector`, rhp/v2 `rpcWrite` update) -/
def aliasOps : List Op :=
  [.vmAddVolume 1 3, .addC1 1 40, .newBuf (.dataOf 1), .reserve 0 1 0 (some (1, 0)), .finish 0 true, .sync,
   .revise1 1 [.append 1], .restart, .read 1, .mutate 1 (.dataOf 2), .reserve 0 2 1 (some (1, 1)), .finish 0 true, .sync]

theorem C02_cache_alias_witness :
    referenced (run Facts.code (init 4) aliasOps) 1 = true ∧ (run Facts.code (init 4) aliasOps).lostNow = [] ∧
      readContent (run Facts.code (init 4) aliasOps) 1 = some (.dataOf 2) := by decide

/-- the same calls with the cache disabled are fine -/
example : readContent (run Facts.code (init 0) aliasOps) 1 = some (.dataOf 1) := by decide

/-- (iii) the process dies between `StoreSector`'s slot commit and the data write; the re-upload of
the same root takes the `exists` fast path -/
def crashReuploadOps : List Op :=
  [.vmAddVolume 1 3, .addC1 1 40, .newBuf (.dataOf 1), .reserve 1 1 0 (some (1, 0)), .crash [],
   .newBuf (.dataOf 1), .reserve 0 1 1 none, .sync, .revise1 1 [.append 1]]

theorem C02_crash_reupload_witness :
    referenced (run Facts.code (init 0) crashReuploadOps) 1 = true ∧ (run Facts.code (init 0) crashReuploadOps).lostNow = [] ∧
      readContent (run Facts.code (init 0) crashReuploadOps) 1 = some .zero := by decide

/-- second upload acknowledged by the `exists` fast path, then the first writer's data write fails -/
def twoWritersOps : List Op :=
  [.vmAddVolume 1 3, .addC1 1 40, .newBuf (.dataOf 1), .reserve 1 1 0 (some (1, 0)),
   .newBuf (.dataOf 1), .reserve 0 1 1 none, .finish 1 false, .sync, .revise1 1 [.append 1]]

theorem C02_two_writers_witness :
    referenced (run Facts.code (init 0) twoWritersOps) 1 = true ∧ (run Facts.code (init 0) twoWritersOps).lostNow = [] ∧
      readContent (run Facts.code (init 0) twoWritersOps) 1 = none := by decide

/-- `VolumeManager.StoreSector`: write + temp reference without fsync; power loss -/
def unsyncedTempOps : List Op :=
  [.vmAddVolume 1 3, .newBuf (.dataOf 1), .reserve 0 1 0 (some (1, 0)), .finish 0 true, .addTemp 1 60, .crash [(1, 0)]]

theorem C02_unsynced_temp_witness :
    referenced (run Facts.code (init 0) unsyncedTempOps) 1 = true ∧ (run Facts.code (init 0) unsyncedTempOps).lostNow = [] ∧
      readContent (run Facts.code (init 0) unsyncedTempOps) 1 = some .garbage := by decide

/-! ## separate lemmas -/

/-- migration preserves the invariant whatever the callbacks do: any number of sectors, failure
before the copy (`inj = 1`), after copy and fsync (`inj = 2`), or none, at every index -/
theorem C02_migration_preserves_inv {s : State} (h : Inv s) (v start : Nat) (moves : List Move)
    (hs : ∀ p ∈ s.pending, p.v ≠ v) : Inv (migrate s v start moves).1 :=
  ⟨migrate_ok h.1 v start moves hs, migrate_data h.1 h.2 v start moves hs⟩

/-- shrinking never drops an occupied slot -/
theorem C02_shrink_keeps_occupied {s : State} (v n v' i' : Nat) (r : SectorId) (hh : holdsAt s.vols v' i' r) :
    holdsAt (shrink s v n).1.vols v' i' r := by
  simp only [shrink]
  split
  · exact hh
  split
  · exact hh
  rename_i vol hv
  split
  · exact hh
  rename_i hocc
  split
  · exact hh
  split
  · exact hh
  have hocc0 : occ (vol.slots.drop n) = 0 := by simpa using hocc
  obtain ⟨sl, h1, h2⟩ := hh
  refine ⟨sl, ?_, h2⟩
  show slotAt (updVol v (fun x => { x with slots := x.slots.take n, total := n }) s.vols) v' i' = some sl
  rw [slotAt_updVol v v' i' (fun x : Volume => { x with slots := x.slots.take n, total := n }) (fun _ => rfl)]
  by_cases e : v' = v
  · subst e
    obtain ⟨vol', hv', hs'⟩ := slotAt_split h1
    rw [hv] at hv'; cases hv'
    simp only [if_true, hv, List.getElem?_take]
    have hi : i' < n := by
      apply Classical.byContradiction; intro hge
      have hge : n ≤ i' := Nat.le_of_not_lt hge
      have hmem : sl ∈ vol.slots.drop n := by
        have : (vol.slots.drop n)[i' - n]? = some sl := by
          rw [List.getElem?_drop]; rw [show n + (i' - n) = i' by omega]; exact hs'
        exact List.mem_of_getElem? this
      have : 0 < occ (vol.slots.drop n) := by
        simp only [occ]; rw [List.countP_pos_iff]; exact ⟨sl, hmem, by simp [isOcc, h2]⟩
      omega
    simp [hi, hs']
  · simp only [e, if_false]; exact h1

/-- prune only clears slots of sectors that are neither referenced nor recently accessed -/
theorem C02_prune_only_unreferenced {s : State} (hm : MetaOK s) (v i : Nat) (r : SectorId) (hh : holdsAt s.vols v i r)
    (hk : referenced s r = true ∨ r ∈ s.recent) : holdsAt (prune s).1.vols v i r := by
  rw [prune_vols hm.core, holdsAt_pruned]
  refine ⟨hh, ?_⟩
  simp only [prunable]
  rcases hk with hk | hk
  · simp [hk]
  · have : s.recent.contains r = true := by simpa using hk
    simp [this]
    intro _; exact hk

/-- `RemoveSector` counts exactly the one location it drops -/
theorem C02_lost_counted_removeSector (s : State) (r : SectorId) (data : Bool) (h : (removeSector s r data).2 = .ok) :
    (removeSector s r data).1.m.lost = s.m.lost + 1 ∧ r ∈ (removeSector s r data).1.lostNow := by
  by_cases h1 : ¬ r ∈ s.stored
  · simp [removeSector, h1] at h
  have h1 : r ∈ s.stored := Classical.not_not.mp h1
  cases h2 : findLoc s.vols r with
  | none => simp [removeSector, h1, h2] at h
  | some p =>
    obtain ⟨v, i⟩ := p
    cases h3 : findVol v s.vols with
    | none => simp [removeSector, h1, h2, h3] at h
    | some vol =>
      by_cases h4 : vol.used = 0
      · simp [removeSector, h1, h2, h3, h4] at h
      by_cases h5 : s.m.physical = 0
      · simp [removeSector, h1, h2, h3, h4, h5] at h
      simp [removeSector, h1, h2, h3, h4, h5]

/-- `Store.RemoveVolume` counts every occupied location of the volume as lost — and a removal
without `force` only succeeds when there is none -/
theorem C02_lost_counted_removeVolume (s : State) (v : Nat) (force : Bool) (vol : Volume) (hv : findVol v s.vols = some vol)
    (h : (removeVolume s v force).2 = .ok) :
    (removeVolume s v force).1.m.lost = s.m.lost + occ vol.slots ∧ (force = false → occ vol.slots = 0) ∧
      (∀ r ∈ occList vol.slots, r ∈ (removeVolume s v force).1.lostNow) := by
  by_cases h1 : (!force && decide (occ vol.slots > 0)) = true
  · simp [removeVolume, hv, h1] at h
  by_cases h2 : s.m.physical < occ vol.slots
  · simp [removeVolume, hv, h1, h2] at h
  by_cases h3 : s.m.total < vol.slots.length
  · simp [removeVolume, hv, h1, h2, h3] at h
  refine ⟨by simp [removeVolume, hv, h1, h2, h3], ?_, ?_⟩
  · intro hf
    subst hf
    simp at h1
    omega
  · intro r hr
    simp [removeVolume, hv, h1, h2, h3]
    exact Or.inl hr

/-- a removal without `force` never loses a sector: `lostSectors` is unchanged -/
theorem C02_nonforced_removal_no_loss (s : State) (v : Nat) : (removeVolume s v false).1.m.lost = s.m.lost := by
  simp only [removeVolume]
  split
  · rfl
  rename_i vol hv
  by_cases h : occ vol.slots > 0
  · simp [h]
  · have h0 : occ vol.slots = 0 := by omega
    simp only [h0]
    split
    · rfl
    split
    · rfl
    split
    · rfl
    · simp

/-- … and so does `VolumeManager.RemoveVolume(force = false)` as a whole (migration included) -/
theorem C02_vm_nonforced_removal_no_loss (s : State) (v : Nat) (moves : List Move) :
    (vmRemove s v false moves).1.m.lost = s.m.lost := by
  have hmig : ∀ (moves : List Move) (s : State) (c a b : Nat), (migrateGo s v 0 c a b moves).1.m.lost = s.m.lost := by
    intro moves
    induction moves with
    | nil =>
      intro s c a b
      simp only [migrateGo]
      split
      · rfl
      split
      · rfl
      split <;> rfl
    | cons mv rest ih =>
      intro s c a b
      simp only [migrateGo]
      split
      · rfl
      split
      · rfl
      rename_i i r _
      split
      · rfl
      split
      · rfl
      have hm := moveOne_m s v i r mv
      generalize moveOne s v i r mv = res at hm
      obtain ⟨s', ok⟩ := res
      simp only at hm ⊢
      split
      · rw [hm]
      split
      · split
        · rw [hm]
        · rw [ih, hm]
      · rw [ih, hm]
  simp only [vmRemove]
  split
  · rfl
  have h2 : (migrate (setReadOnly s v true) v 0 moves).1.m.lost = s.m.lost := by
    simp only [migrate]; rw [hmig]; rfl
  generalize migrate (setReadOnly s v true) v 0 moves = res at h2
  obtain ⟨s2, r⟩ := res
  simp only at h2 ⊢
  split
  · split
    · exact h2
    · rw [C02_nonforced_removal_no_loss]; exact h2
  · exact h2


/-! ## the repaired tree (`stepF`) -/

theorem unaliasGo_spec (cache : List (SectorId × BufId)) : ∀ (heap : List Content),
    (∀ e ∈ cache, heap[e.2]? = some (.dataOf e.1)) →
    (∀ e ∈ (unaliasGo heap cache).2, (unaliasGo heap cache).1[e.2]? = some (.dataOf e.1)) ∧
    (∀ (b : Nat) (c : Content), heap[b]? = some c → (unaliasGo heap cache).1[b]? = some c) ∧
    (∀ e ∈ (unaliasGo heap cache).2, heap.length ≤ e.2) := by
  induction cache with
  | nil => intro heap _; simp [unaliasGo]
  | cons x xs ih =>
    intro heap hc
    obtain ⟨r, b⟩ := x
    have hb : heap[b]? = some (.dataOf r) := hc (r, b) (by simp)
    simp only [unaliasGo, hb]
    have hc' : ∀ e ∈ xs, (heap ++ [Content.dataOf r])[e.2]? = some (.dataOf e.1) :=
      fun e he => heap_append_get (hc e (List.mem_cons_of_mem _ he))
    obtain ⟨h1, h2, h3⟩ := ih (heap ++ [Content.dataOf r]) hc'
    refine ⟨?_, ?_, ?_⟩
    · intro e he
      simp only [List.mem_cons] at he
      rcases he with rfl | he
      · exact h2 heap.length (.dataOf r) (by simp)
      · exact h1 e he
    · intro b' c hb'
      exact h2 b' c (heap_append_get hb')
    · intro e he
      simp only [List.mem_cons] at he
      rcases he with rfl | he
      · exact Nat.le_refl _
      · have := h3 e he; simp at this; omega

theorem unalias_data {s : State} (h : DataInv s) : DataInv (unalias s) := by
  obtain ⟨h1, _, _⟩ := unaliasGo_spec s.cache s.heap h.cacheGood
  exact dataInv_frame h rfl rfl rfl (fun _ hx => hx) (fun r hr => Or.inl hr) h.freshSafe h.freshRec h1 (fun _ hx => hx) (fun _ hx => hx)

/-- copy semantics: after `unalias` no buffer that existed before is shared with the cache, so a caller
patching a buffer it was handed cannot touch a cached sector (the `mutate` clause of `Safe` is then met
by every real caller) -/
theorem unalias_fresh {s : State} (h : DataInv s) : ∀ e ∈ (unalias s).cache, s.heap.length ≤ e.2 :=
  (unaliasGo_spec s.cache s.heap h.cacheGood).2.2

theorem fixCache_inv (f : Facts) {s : State} (h : Inv s) : Inv (fixCache f s) := by
  simp only [fixCache]; split
  · exact ⟨unalias_ok h.1, unalias_data h.2⟩
  · exact h

theorem stepF_inv (f : Facts) {s : State} (h : Inv s) (op : Op) (hs : Safe s op) (hsh : ShapeOK f op) : Inv (stepF f s op).1 := by
  simp only [stepF]
  apply fixCache_inv
  cases op with
  | finish w ok =>
    have := step_inv f h (.finish w ok) hs hsh
    simp only [finishF]
    split
    · rw [finishChecked_eq h.1]; exact this
    · exact this
  | _ => exact step_inv f h _ hs hsh

def SafeRunF (f : Facts) : State → List Op → Prop
  | _, [] => True
  | s, op :: ops => Safe s op ∧ ShapeOK f op ∧ SafeRunF f (stepF f s op).1 ops

/-- `C02_read_intact_partial` for the tree selected by `f` -/
theorem C02_read_intact_partial_F (f : Facts) (ops : List Op) : ∀ (s : State), Inv s → SafeRunF f s ops → Inv (runF f s ops) := by
  induction ops with
  | nil => intro s h _; exact h
  | cons op ops ih =>
    intro s h hs
    simp only [runF, List.foldl_cons]
    exact ih _ (stepF_inv f h op hs.1 hs.2.1) hs.2.2

/-- with a copying cache the RHP update pattern of `C02_cache_alias_witness` leaves the old root intact -/
theorem C02_cache_alias_fixed :
    readContent (runF Facts.fixed (init 4) aliasOps) 1 = some (.dataOf 1) ∧
      readContent (runF Facts.fixed (init 4) aliasOps) 2 = some (.dataOf 2) := by decide


/-! ## `Sync` and `ResizeVolume`: durability clause, counterexamples for the current shape -/

/-- **Durable once Sync returned.** Under the invariant (in particular: every volume holding unsynced
data is marked dirty) an uncontended `Sync()` leaves no unsynced slot behind. -/
theorem C02_sync_durable {s : State} (h : DataInv s) (hidle : s.inflight = []) :
    ∀ v i sl, slotAt (sync s).vols v i = some sl → sl.durable = true := by
  intro v i sl' h1
  simp only [sync, slotAt_foldSync] at h1
  split at h1
  · cases hs : slotAt s.vols v i with
    | none => rw [hs] at h1; cases h1
    | some sl => rw [hs] at h1; simp at h1; subst h1; rfl
  · rename_i hn
    cases hd : sl'.durable with
    | true => rfl
    | false =>
      rcases h.dirtyChanged v i sl' h1 hd with hx | hx
      · exact absurd hx hn
      · rw [hidle] at hx; cases hx

/-- current shape of `VolumeManager.Sync` (fsync, then `delete(changedVolumes, id)`): RPC S syncs volume 1,
RPC B's upload of sector 2 lands in volume 1 after S's fsync returned and marks the volume dirty before S
clears the flag; B's own Sync finds nothing to do and returns; B's reference is committed; power loss. -/
def syncRaceOps : List Op :=
  [.vmAddVolume 1 3, .addC1 1 40, .newBuf (.dataOf 1), .reserve 0 1 0 (some (1, 0)), .finish 0 true,
   .syncBegin, .syncFsync 1,
   .newBuf (.dataOf 2), .reserve 0 2 1 (some (1, 1)), .finish 0 true,
   .syncClear 1, .syncEnd,
   .sync, .revise1 1 [.append 2], .crash [(1, 1)]]

theorem C02_sync_flag_race_witness :
    referenced (run Facts.code (init 0) syncRaceOps) 2 = true ∧ (run Facts.code (init 0) syncRaceOps).lostNow = [] ∧
      readContent (run Facts.code (init 0) syncRaceOps) 2 = some .garbage := by decide

/-- the dirty-flag invariant is what breaks: after S's `syncClear` volume 1 holds unsynced data but is not marked -/
example : (run Facts.code (init 0) (syncRaceOps.take 12)).changed = [] ∧
    nonDurable (run Facts.code (init 0) (syncRaceOps.take 12)).vols 1 1 = true := by decide

/-- repaired shape (flag cleared first, Sync serialised): the same two RPCs; B's flag survives, B's own
Sync fsyncs, nothing unsynced is left for a crash to take -/
def syncRaceFixedOps : List Op :=
  [.vmAddVolume 1 3, .addC1 1 40, .newBuf (.dataOf 1), .reserve 0 1 0 (some (1, 0)), .finish 0 true,
   .syncBegin, .syncClear 1, .syncFsync 1,
   .newBuf (.dataOf 2), .reserve 0 2 1 (some (1, 1)), .finish 0 true,
   .syncEnd,
   .sync, .revise1 1 [.append 2]]

example : SafeRun Facts.fixed2 (init 0) syncRaceFixedOps := by
  simp only [syncRaceFixedOps, SafeRun, Safe, C08.Safe, ShapeOK, isPending, Committable, newRoots]
  decide

theorem C02_sync_flag_race_fixed :
    readContent (run Facts.fixed2 (init 0) syncRaceFixedOps) 2 = some (.dataOf 2) ∧
      nonDurable (run Facts.fixed2 (init 0) (syncRaceFixedOps.take 13)).vols 1 1 = false := by decide

/-- current shape of `ResizeVolume` (size read before the status check): resize R2 (target 3) read total = 2,
then resize R1 grew the volume to 6 and sector 5 was uploaded to slot 4 and referenced; R2 passes the status
check and "grows" 2 → 3: its first batch truncates the data file to 3 sectors. -/
def resizeStaleOps : List Op :=
  [.vmAddVolume 1 2, .addC1 1 40, .vmResize 1 6 [],
   .newBuf (.dataOf 1), .reserve 0 1 0 (some (1, 0)), .finish 0 true,
   .newBuf (.dataOf 5), .reserve 0 5 1 (some (1, 4)), .finish 0 true,
   .sync, .revise1 1 [.append 1, .append 5],
   .vmResizeStale 2 1 3 []]

theorem C02_resize_stale_witness :
    referenced (run Facts.code (init 0) resizeStaleOps) 5 = true ∧ (run Facts.code (init 0) resizeStaleOps).lostNow = [] ∧
      (run Facts.code (init 0) resizeStaleOps).m.lost = 0 ∧
      readContent (run Facts.code (init 0) resizeStaleOps) 5 = some .garbage ∧
      readContent (run Facts.code (init 0) resizeStaleOps) 1 = some (.dataOf 1) := by decide

/-- with the size read under the status guard the same calls shrink 6 → 3 (a shrink 6 → 3 that has to
migrate slot 4 first; with no migration oracle given the model stops there): nothing is truncated -/
theorem C02_resize_stale_fixed :
    readContent (run Facts.fixed2 (init 0) resizeStaleOps) 5 = some (.dataOf 5) := by decide


/-! ## a failing fsync inside Sync -/

/-- a Sync that took all dirty flags up front and, when an fsync fails, re-flags only the failing volume -/
def Facts.syncDropsRest : Facts := { Facts.fixed2 with syncKeepsRest := false }

/-- two dirty volumes; the first fsync attempted (volume 1) fails, the RPC fails; the renter retries, both
sectors are already stored (no new flag); the next Sync fsyncs volume 1 only and returns nil; the references
are committed; power loss -/
def syncFailOps (retrySynced : List Nat) (lost : List (Nat × Nat)) : List Op :=
  [.vmAddVolume 1 1, .vmAddVolume 2 1, .addC1 1 40,
   .newBuf (.dataOf 1), .reserve 0 1 0 (some (1, 0)), .finish 0 true,
   .newBuf (.dataOf 2), .reserve 0 2 1 (some (2, 0)), .finish 0 true,
   .syncPartial [] (some 1),
   .newBuf (.dataOf 1), .reserve 0 1 2 none, .newBuf (.dataOf 2), .reserve 0 2 3 none,
   .syncPartial retrySynced none,
   .revise1 1 [.append 1, .append 2], .crash lost]

theorem C02_sync_fail_drops_flags_witness :
    referenced (run Facts.syncDropsRest (init 0) (syncFailOps [1] [(2, 0)])) 2 = true ∧
      (run Facts.syncDropsRest (init 0) (syncFailOps [1] [(2, 0)])).lostNow = [] ∧
      readContent (run Facts.syncDropsRest (init 0) (syncFailOps [1] [(2, 0)])) 2 = some .garbage := by decide

/-- the code as it is: volume 2 keeps its flag, the retry's Sync has to fsync it too (a Sync that skipped it is
not a behaviour of the model: `badOracle`), and then nothing unsynced is left -/
theorem C02_sync_fail_keeps_flags :
    (step Facts.fixed2 (run Facts.fixed2 (init 0) ((syncFailOps [1] []).take 14)) (.syncPartial [1] none)).2
        = .badOracle "Sync skipped a dirty volume" ∧
      readContent (run Facts.fixed2 (init 0) (syncFailOps [1, 2] [])) 2 = some (.dataOf 2) ∧
      nonDurable (run Facts.fixed2 (init 0) ((syncFailOps [1, 2] []).take 15)).vols 2 0 = false := by decide


end Hostd.Props.C02
