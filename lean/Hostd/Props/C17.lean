import Hostd.Model.Wallet
/-!
C17 — Stored Merkle proofs stay valid at the processed tip.

Model: `Hostd/Model/Wallet.lean`, Part 3 (`applyBlockE`/`revertBlockE` = the element calls of
`contracts.Manager.UpdateChainState` in the order of host/contracts/update.go, on the abstract "basis"
model of Merkle proofs).  The best chain is a stack of `CBlock`s (tip first).

* `C17_step`                      one well-formed apply/revert never faults and re-establishes `EInv`;
* `C17_elements_at_tip`           for EVERY well-formed history (any length, any reorg pattern) processing never
                                  faults (no `revertAbsent` panic) and `EInv` holds at the final tip: no stored
                                  element is corrupt, every stored element has basis = tip, contract elements =
                                  contracts confirmed on the best chain, index elements sound/complete/bounded;
* `C17_index_elements_last_144`   at an all-time-high tip the index elements are exactly the blocks of the best chain
                                  in the window (tip-144, tip] (all of them while tip ≤ 144);
* `C17_reverted_elements_gone`    a reverted block leaves no index element and no contract element behind;
* `C17_any_batch_partition`       the result does not depend on how the update stream is cut into batches;
* `C17_revert_order_matters`, `C17_skipped_update_corrupts`, examples: the model depends on the call order.
-/
namespace Hostd.Wallet

def tipOf : List CBlock → Nat | [] => 0 | b :: _ => b.blk
def tipH : List CBlock → Nat | [] => 0 | b :: _ => b.h

def WFchain : List CBlock → Prop
  | [] => True
  | b :: below => WFchain below ∧ b.parent = tipOf below ∧ b.blk ≠ 0 ∧ (∀ x ∈ below, x.blk ≠ b.blk) ∧
      (below ≠ [] → b.h = tipH below + 1) ∧ b.formed.Nodup ∧ (∀ c ∈ b.formed, ∀ x ∈ below, c ∉ x.formed)

def nextChain (stk : List CBlock) : EOp → List CBlock
  | .apply b => b :: stk
  | .revert _ => stk.tail

def wfEStep (stk : List CBlock) : EOp → Prop
  | .apply b => WFchain (b :: stk)
  | .revert b => stk.head? = some b ∧ stk.tail ≠ []

def WFeops : List CBlock → List EOp → Prop
  | _, [] => True
  | stk, op :: ops => wfEStep stk op ∧ WFeops (nextChain stk op) ops

def finalChain : List CBlock → List EOp → List CBlock
  | stk, [] => stk
  | stk, op :: ops => finalChain (nextChain stk op) ops

def maxH (M : Nat) : List EOp → Nat
  | [] => M
  | .apply b :: ops => maxH (max M b.h) ops
  | .revert _ :: ops => maxH M ops

structure EInv (M : Nat) (stk : List CBlock) (s : EState) : Prop where
  idxSound    : ∀ x ∈ s.idx, x.e.corrupt = false ∧ x.e.basis = tipOf stk ∧ x.e.born = x.blk ∧ ∃ b ∈ stk, b.blk = x.blk ∧ b.h = x.h
  idxNodup    : (s.idx.map (·.blk)).Nodup
  idxComplete : ∀ b ∈ stk, (M < b.h + chainIndexBuffer ∨ M ≤ chainIndexBuffer) → ∃ x ∈ s.idx, x.blk = b.blk ∧ x.h = b.h
  idxBounded  : ∀ x ∈ s.idx, tipH stk < x.h + chainIndexBuffer ∨ tipH stk ≤ chainIndexBuffer
  conSound    : ∀ x ∈ s.con, x.e.corrupt = false ∧ x.e.basis = tipOf stk ∧ ∃ b ∈ stk, b.blk = x.e.born ∧ x.c ∈ b.formed
  conNodup    : (s.con.map (·.c)).Nodup
  conComplete : ∀ b ∈ stk, ∀ c ∈ b.formed, ∃ x ∈ s.con, x.c = c
  maxOk       : tipH stk ≤ M

theorem mem_apply_idx {s : EState} {b : CBlock} {x : IdxElem} :
    x ∈ (applyBlockE s b).idx ↔
      ((∃ y ∈ s.idx, y.blk ≠ b.blk ∧ x = { y with e := applyProof b.blk b.parent y.e }) ∨
        x = ⟨b.h, b.blk, ⟨b.blk, b.blk, false⟩⟩) ∧ (b.h > chainIndexBuffer → b.h - chainIndexBuffer < x.h) := by
  unfold applyBlockE
  simp only []
  split <;> simp [List.mem_filter, List.mem_append, List.mem_map] <;> grind

theorem mem_apply_con {s : EState} {b : CBlock} {x : ConElem} :
    x ∈ (applyBlockE s b).con ↔
      ((∃ y ∈ s.con, y.c ∉ b.formed ∧ x = { y with e := applyProof b.blk b.parent y.e }) ∨
        (x.c ∈ b.formed ∧ x.e = ⟨b.blk, b.blk, false⟩)) := by
  unfold applyBlockE
  simp only [List.mem_map, List.mem_append, List.mem_filter]
  constructor
  · rintro ⟨y, (⟨hy, hc⟩ | ⟨c, hc, rfl⟩), rfl⟩
    · left; exact ⟨y, hy, by simpa using hc, rfl⟩
    · right; simp [applyProof, hc]
  · rintro (⟨y, hy, hc, rfl⟩ | ⟨hc, he⟩)
    · exact ⟨y, Or.inl ⟨hy, by simpa using hc⟩, rfl⟩
    · refine ⟨⟨x.c, ⟨b.blk, b.blk, false⟩⟩, Or.inr ⟨x.c, hc, rfl⟩, ?_⟩
      cases x; simp_all [applyProof]

theorem applyProof_move {b p : Nat} {e : Elem} (h1 : e.corrupt = false) (h2 : e.born ≠ b) (h3 : e.basis = p) :
    applyProof b p e = { e with basis := b } := by
  simp [applyProof, h1, h2, h3]

theorem mem_tip {stk : List CBlock} {b : CBlock} (h : b ∈ stk) : stk ≠ [] := by
  intro h'; subst h'; cases h

theorem nodup_map_filter {α β : Type} {f : α → β} {p : α → Bool} {l : List α} (h : (l.map f).Nodup) :
    ((l.filter p).map f).Nodup :=
  h.sublist (List.filter_sublist.map f)

theorem apply_inv {M : Nat} {stk : List CBlock} {s : EState} {b : CBlock}
    (hw : WFchain (b :: stk)) (hi : EInv M stk s) : EInv (max M b.h) (b :: stk) (applyBlockE s b) := by
  obtain ⟨hw0, hpar, hnz, hfresh, hh, hnd, hform⟩ := hw
  constructor
  · -- idxSound
    intro x hx
    obtain ⟨hx, -⟩ := mem_apply_idx.mp hx
    rcases hx with ⟨y, hy, hne, rfl⟩ | rfl
    · obtain ⟨c1, c2, c3, b', hb', e1, e2⟩ := hi.idxSound y hy
      rw [applyProof_move c1 (by omega) (by rw [c2, hpar])]
      exact ⟨c1, rfl, c3, b', List.mem_cons_of_mem _ hb', e1, e2⟩
    · exact ⟨rfl, rfl, rfl, b, List.mem_cons_self, rfl, rfl⟩
  · -- idxNodup
    have h2 : ((s.idx.map (fun x : IdxElem => { x with e := applyProof b.blk b.parent x.e })).map (·.blk)) = s.idx.map (·.blk) := by
      simp [List.map_map, Function.comp_def]
    have h3 : (((s.idx.map (fun x : IdxElem => { x with e := applyProof b.blk b.parent x.e })).filter (fun x : IdxElem => x.blk != b.blk) ++
        [(⟨b.h, b.blk, ⟨b.blk, b.blk, false⟩⟩ : IdxElem)]).map (·.blk)).Nodup := by
      rw [List.map_append, List.nodup_append]
      refine ⟨?_, by simp, ?_⟩
      · exact nodup_map_filter (h2 ▸ hi.idxNodup)
      · intro a ha c hc
        simp only [List.mem_map, List.mem_filter] at ha
        obtain ⟨y, ⟨-, hy⟩, rfl⟩ := ha
        simp at hc; subst hc
        simpa using hy
    unfold applyBlockE
    simp only []
    split
    · exact nodup_map_filter h3
    · exact h3
  · -- idxComplete
    intro b' hb' hM
    rcases List.mem_cons.mp hb' with rfl | hb'
    · refine ⟨⟨b'.h, b'.blk, ⟨b'.blk, b'.blk, false⟩⟩, mem_apply_idx.mpr ⟨Or.inr rfl, ?_⟩, rfl, rfl⟩
      simp only [chainIndexBuffer]; omega
    · obtain ⟨y, hy, e1, e2⟩ := hi.idxComplete b' hb' (by simp only [chainIndexBuffer] at *; omega)
      refine ⟨{ y with e := applyProof b.blk b.parent y.e }, mem_apply_idx.mpr ⟨Or.inl ⟨y, hy, ?_, rfl⟩, ?_⟩, e1, e2⟩
      · rw [e1]; exact hfresh b' hb'
      · simp only [chainIndexBuffer] at *; omega
  · -- idxBounded
    intro x hx
    obtain ⟨-, hx⟩ := mem_apply_idx.mp hx
    simp only [tipH, chainIndexBuffer] at *; omega
  · -- conSound
    intro x hx
    rcases mem_apply_con.mp hx with ⟨y, hy, hne, rfl⟩ | ⟨hc, he⟩
    · obtain ⟨c1, c2, b', hb', e1, e2⟩ := hi.conSound y hy
      rw [applyProof_move c1 (by have := hfresh b' hb'; omega) (by rw [c2, hpar])]
      exact ⟨c1, rfl, b', List.mem_cons_of_mem _ hb', e1, e2⟩
    · rw [he]; exact ⟨rfl, rfl, b, List.mem_cons_self, rfl, hc⟩
  · -- conNodup
    unfold applyBlockE
    simp only [List.map_map, List.map_append, Function.comp_def, List.map_id']
    rw [List.nodup_append]
    refine ⟨nodup_map_filter hi.conNodup, hnd, ?_⟩
    intro a ha c hc
    simp only [List.mem_map, List.mem_filter] at ha
    obtain ⟨y, ⟨-, hy⟩, rfl⟩ := ha
    intro h; subst h
    simp at hy; exact hy hc
  · -- conComplete
    intro b' hb' c hc
    rcases List.mem_cons.mp hb' with rfl | hb'
    · exact ⟨⟨c, ⟨b'.blk, b'.blk, false⟩⟩, mem_apply_con.mpr (Or.inr ⟨hc, rfl⟩), rfl⟩
    · obtain ⟨y, hy, e⟩ := hi.conComplete b' hb' c hc
      exact ⟨{ y with e := applyProof b.blk b.parent y.e },
        mem_apply_con.mpr (Or.inl ⟨y, hy, fun h => hform _ (e ▸ h) b' hb' hc, rfl⟩), e⟩
  · -- maxOk
    simp only [tipH]; omega

/-! ### revert step -/

theorem mapExcept_ok {α β : Type} {f : α → Except Fault β} {g : α → β} :
    ∀ {l : List α}, (∀ a ∈ l, f a = .ok (g a)) → mapExcept f l = .ok (l.map g)
  | [], _ => rfl
  | a :: rest, h => by
      have h1 := h a List.mem_cons_self
      have h2 := mapExcept_ok (f := f) (g := g) (l := rest) (fun x hx => h x (List.mem_cons_of_mem _ hx))
      simp [mapExcept, h1, h2, bind, Except.bind, pure, Except.pure]

theorem revertProof_move {b p : Nat} {e : Elem} (h1 : e.corrupt = false) (h2 : e.born ≠ b) (h3 : e.basis = b) :
    revertProof b p e = .ok { e with basis := p } := by
  simp [revertProof, h1, h2, h3]

/-- the state a well-formed revert produces -/
def revertedState (s : EState) (b : CBlock) : EState :=
  { idx := (s.idx.filter (fun x => !(x.h == b.h && x.blk == b.blk))).map (fun x => { x with e := { x.e with basis := b.parent } }),
    con := (s.con.filter (fun x => !b.formed.contains x.c)).map (fun x => { x with e := { x.e with basis := b.parent } }) }

theorem revert_ok {M : Nat} {stk : List CBlock} {s : EState} {b : CBlock}
    (hw : WFchain (b :: stk)) (hi : EInv M (b :: stk) s) : revertBlockE s b = .ok (revertedState s b) := by
  obtain ⟨hw0, hpar, hnz, hfresh, hh, hnd, hform⟩ := hw
  have h1 : mapExcept (fun x : IdxElem => do let e ← revertProof b.blk b.parent x.e; pure { x with e := e })
      (s.idx.filter (fun x => !(x.h == b.h && x.blk == b.blk))) = .ok (revertedState s b).idx := by
    apply mapExcept_ok
    intro x hx
    obtain ⟨hx, hne⟩ := List.mem_filter.mp hx
    obtain ⟨c1, c2, c3, b', hb', e1, e2⟩ := hi.idxSound x hx
    have : x.e.born ≠ b.blk := by
      rcases List.mem_cons.mp hb' with rfl | hb'
      · simp [e1, e2] at hne
      · have := hfresh b' hb'; omega
    rw [revertProof_move c1 this c2]; rfl
  have h2 : mapExcept (fun x : ConElem => do let e ← revertProof b.blk b.parent x.e; pure { x with e := e })
      (s.con.filter (fun x => !b.formed.contains x.c)) = .ok (revertedState s b).con := by
    apply mapExcept_ok
    intro x hx
    obtain ⟨hx, hne⟩ := List.mem_filter.mp hx
    obtain ⟨c1, c2, b', hb', e1, e2⟩ := hi.conSound x hx
    have : x.e.born ≠ b.blk := by
      rcases List.mem_cons.mp hb' with rfl | hb'
      · simp [e2] at hne
      · have := hfresh b' hb'; omega
    rw [revertProof_move c1 this c2]; rfl
  unfold revertBlockE
  dsimp only
  rw [h1, h2]
  rfl

theorem mem_reverted_idx {s : EState} {b : CBlock} {x : IdxElem} :
    x ∈ (revertedState s b).idx ↔
      ∃ y ∈ s.idx, (y.h = b.h → y.blk ≠ b.blk) ∧ x = { y with e := { y.e with basis := b.parent } } := by
  unfold revertedState
  simp only [List.mem_map, List.mem_filter]
  constructor
  · rintro ⟨y, ⟨hy, hc⟩, rfl⟩
    exact ⟨y, hy, by simp at hc; omega, rfl⟩
  · rintro ⟨y, hy, hc, rfl⟩
    exact ⟨y, ⟨hy, by simp; omega⟩, rfl⟩

theorem mem_reverted_con {s : EState} {b : CBlock} {x : ConElem} :
    x ∈ (revertedState s b).con ↔
      ∃ y ∈ s.con, y.c ∉ b.formed ∧ x = { y with e := { y.e with basis := b.parent } } := by
  unfold revertedState
  simp only [List.mem_map, List.mem_filter]
  constructor
  · rintro ⟨y, ⟨hy, hc⟩, rfl⟩
    exact ⟨y, hy, by simpa using hc, rfl⟩
  · rintro ⟨y, hy, hc, rfl⟩
    exact ⟨y, ⟨hy, by simpa using hc⟩, rfl⟩

theorem revert_inv {M : Nat} {stk : List CBlock} {s : EState} {b : CBlock}
    (hw : WFchain (b :: stk)) (hne : stk ≠ []) (hi : EInv M (b :: stk) s) : EInv M stk (revertedState s b) := by
  obtain ⟨hw0, hpar, hnz, hfresh, hh, hnd, hform⟩ := hw
  have hh := hh hne
  constructor
  · -- idxSound
    intro x hx
    obtain ⟨y, hy, hn, rfl⟩ := mem_reverted_idx.mp hx
    obtain ⟨c1, c2, c3, b', hb', e1, e2⟩ := hi.idxSound y hy
    refine ⟨c1, hpar, c3, b', ?_, e1, e2⟩
    rcases List.mem_cons.mp hb' with rfl | hb'
    · exact absurd e1.symm (hn e2.symm)
    · exact hb'
  · -- idxNodup
    unfold revertedState
    simp only [List.map_map, Function.comp_def]
    exact nodup_map_filter hi.idxNodup
  · -- idxComplete
    intro b' hb' hM
    obtain ⟨y, hy, e1, e2⟩ := hi.idxComplete b' (List.mem_cons_of_mem _ hb') hM
    refine ⟨{ y with e := { y.e with basis := b.parent } }, mem_reverted_idx.mpr ⟨y, hy, ?_, rfl⟩, e1, e2⟩
    intro _ h
    exact hfresh b' hb' (by omega)
  · -- idxBounded
    intro x hx
    obtain ⟨y, hy, -, rfl⟩ := mem_reverted_idx.mp hx
    have := hi.idxBounded y hy
    simp only [tipH, chainIndexBuffer] at *; omega
  · -- conSound
    intro x hx
    obtain ⟨y, hy, hn, rfl⟩ := mem_reverted_con.mp hx
    obtain ⟨c1, c2, b', hb', e1, e2⟩ := hi.conSound y hy
    refine ⟨c1, hpar, b', ?_, e1, e2⟩
    rcases List.mem_cons.mp hb' with rfl | hb'
    · exact absurd e2 hn
    · exact hb'
  · -- conNodup
    unfold revertedState
    simp only [List.map_map, Function.comp_def]
    exact nodup_map_filter hi.conNodup
  · -- conComplete
    intro b' hb' c hc
    obtain ⟨y, hy, e⟩ := hi.conComplete b' (List.mem_cons_of_mem _ hb') c hc
    exact ⟨{ y with e := { y.e with basis := b.parent } },
      mem_reverted_con.mpr ⟨y, hy, fun h => hform _ (e ▸ h) b' hb' hc, rfl⟩, e⟩
  · -- maxOk
    have := hi.maxOk
    simp only [tipH] at this; omega

/-! ### the theorems -/

theorem wfEStep_revert_shape {stk : List CBlock} {b : CBlock} (h : wfEStep stk (.revert b)) :
    ∃ below, stk = b :: below ∧ below ≠ [] := by
  obtain ⟨h1, h2⟩ := h
  cases stk with
  | nil => simp at h1
  | cons x below =>
    simp at h1; subst h1
    exact ⟨below, rfl, h2⟩

/-- C17, one step: a well-formed apply or revert never faults and re-establishes the invariant at the new tip. -/
theorem C17_step {M : Nat} {stk : List CBlock} {s : EState} {op : EOp}
    (hw : WFchain stk) (hi : EInv M stk s) (hop : wfEStep stk op) :
    ∃ s', stepE s op = .ok s' ∧ EInv (maxH M [op]) (nextChain stk op) s' ∧ WFchain (nextChain stk op) := by
  cases op with
  | apply b => exact ⟨_, rfl, apply_inv hop hi, hop⟩
  | revert b =>
    obtain ⟨below, rfl, hne⟩ := wfEStep_revert_shape hop
    exact ⟨_, revert_ok hw hi, revert_inv hw hne hi, hw.1⟩

theorem maxH_cons (M : Nat) (op : EOp) (ops : List EOp) : maxH M (op :: ops) = maxH (maxH M [op]) ops := by
  cases op <;> rfl

/-- C17: for every well-formed history, from every state satisfying the invariant, processing never faults
(no `revertAbsent` panic) and the invariant holds for the final best chain: no stored element is corrupt, every
stored element has basis = tip, the contract elements are exactly the contracts confirmed on the best chain,
the index elements are sound, complete and bounded. -/
theorem C17_elements_at_tip {ops : List EOp} : ∀ {M : Nat} {stk : List CBlock} {s : EState},
    WFchain stk → EInv M stk s → WFeops stk ops →
    ∃ s', runE s ops = .ok s' ∧ EInv (maxH M ops) (finalChain stk ops) s' ∧ WFchain (finalChain stk ops) := by
  induction ops with
  | nil => intro M stk s hw hi _; exact ⟨s, rfl, hi, hw⟩
  | cons op ops ih =>
    intro M stk s hw hi hops
    obtain ⟨hop, hrest⟩ := hops
    obtain ⟨s1, e1, hi1, hw1⟩ := C17_step hw hi hop
    obtain ⟨s', e2, hi2, hw2⟩ := ih hw1 hi1 hrest
    refine ⟨s', ?_, ?_, hw2⟩
    · simp only [runE, e1, bind, Except.bind]; exact e2
    · rw [maxH_cons]; exact hi2

theorem EInv_empty : EInv 0 [] {} := by
  constructor <;> simp [tipH]

/-- C17 from the empty database and the empty chain -/
theorem C17_elements_at_tip_from_genesis {ops : List EOp} (h : WFeops [] ops) :
    ∃ s', runE {} ops = .ok s' ∧ EInv (maxH 0 ops) (finalChain [] ops) s' ∧ WFchain (finalChain [] ops) :=
  C17_elements_at_tip (by trivial) EInv_empty h

/-- what the invariant says in words about the proofs -/
theorem C17_all_proofs_valid_at_tip {M : Nat} {stk : List CBlock} {s : EState} (hi : EInv M stk s) :
    (∀ x ∈ s.idx, x.e.corrupt = false ∧ x.e.basis = tipOf stk) ∧
    (∀ x ∈ s.con, x.e.corrupt = false ∧ x.e.basis = tipOf stk) ∧
    (∀ c, (∃ x ∈ s.con, x.c = c) ↔ ∃ b ∈ stk, c ∈ b.formed) := by
  refine ⟨fun x hx => ⟨(hi.idxSound x hx).1, (hi.idxSound x hx).2.1⟩,
    fun x hx => ⟨(hi.conSound x hx).1, (hi.conSound x hx).2.1⟩, fun c => ⟨?_, ?_⟩⟩
  · rintro ⟨x, hx, rfl⟩
    obtain ⟨-, -, b, hb, -, hc⟩ := hi.conSound x hx
    exact ⟨b, hb, hc⟩
  · rintro ⟨b, hb, hc⟩
    exact hi.conComplete b hb c hc

/-- C17: when the tip is an all-time high the stored index elements are exactly the blocks of the best chain
in the window `(tip-144, tip]` (all blocks while the tip height is ≤ 144). -/
theorem C17_index_elements_last_144 {M : Nat} {stk : List CBlock} {s : EState}
    (hi : EInv M stk s) (htop : tipH stk = M) :
    (∀ b ∈ stk, (∃ x ∈ s.idx, x.blk = b.blk ∧ x.h = b.h) ↔
        (tipH stk < b.h + chainIndexBuffer ∨ tipH stk ≤ chainIndexBuffer)) ∧
    (∀ x ∈ s.idx, ∃ b ∈ stk, b.blk = x.blk ∧ b.h = x.h ∧
        (tipH stk < b.h + chainIndexBuffer ∨ tipH stk ≤ chainIndexBuffer)) ∧
    (s.idx.map (·.blk)).Nodup := by
  refine ⟨fun b hb => ⟨?_, ?_⟩, ?_, hi.idxNodup⟩
  · rintro ⟨x, hx, -, e2⟩
    have := hi.idxBounded x hx
    rw [e2] at this; exact this
  · intro h
    exact hi.idxComplete b hb (htop ▸ h)
  · intro x hx
    obtain ⟨-, -, -, b, hb, e1, e2⟩ := hi.idxSound x hx
    exact ⟨b, hb, e1, e2, e2 ▸ hi.idxBounded x hx⟩

/-- C17: a reverted block leaves nothing behind. -/
theorem C17_reverted_elements_gone {M : Nat} {stk : List CBlock} {s : EState} {b : CBlock}
    (hw : WFchain stk) (hi : EInv M stk s) (hop : wfEStep stk (.revert b)) :
    ∃ s', stepE s (.revert b) = .ok s' ∧ (∀ x ∈ s'.idx, x.blk ≠ b.blk) ∧ (∀ x ∈ s'.con, x.c ∉ b.formed) := by
  obtain ⟨s', e, hi', -⟩ := C17_step hw hi hop
  obtain ⟨below, rfl, hne⟩ := wfEStep_revert_shape hop
  obtain ⟨-, -, -, hfresh, -, -, hform⟩ := hw
  refine ⟨s', e, fun x hx => ?_, fun x hx hc => ?_⟩
  · obtain ⟨-, -, -, b', hb', e1, -⟩ := hi'.idxSound x hx
    rw [← e1]; exact hfresh b' hb'
  · obtain ⟨-, -, b', hb', -, hc'⟩ := hi'.conSound x hx
    exact hform _ hc b' hb' hc'

/-! ### batching -/

theorem runE_append (s : EState) (xs ys : List EOp) :
    runE s (xs ++ ys) = (runE s xs >>= fun s1 => runE s1 ys) := by
  induction xs generalizing s with
  | nil => rfl
  | cons op xs ih =>
    simp only [List.cons_append, runE, bind, Except.bind]
    cases stepE s op with
    | error e => rfl
    | ok s1 => exact ih s1

/-- C17: the result does not depend on how the update stream is cut into `UpdateChainState` batches. -/
theorem C17_any_batch_partition (s : EState) (bs : List Batch) :
    runBatches s bs = runE s (bs.flatMap batchOps) := by
  induction bs generalizing s with
  | nil => rfl
  | cons b bs ih =>
    rw [List.flatMap_cons, runE_append]
    simp only [runBatches, bind, Except.bind]
    cases runE s (batchOps b) with
    | error e => rfl
    | ok s1 => exact ih s1

theorem C17_elements_at_tip_batches {bs : List Batch} {M : Nat} {stk : List CBlock} {s : EState}
    (hw : WFchain stk) (hi : EInv M stk s) (hops : WFeops stk (bs.flatMap batchOps)) :
    ∃ s', runBatches s bs = .ok s' ∧
      EInv (maxH M (bs.flatMap batchOps)) (finalChain stk (bs.flatMap batchOps)) s' ∧
      WFchain (finalChain stk (bs.flatMap batchOps)) := by
  rw [C17_any_batch_partition]
  exact C17_elements_at_tip hw hi hops

/-! ### order sensitivity and non-vacuity -/

/-- `RevertUpdate.UpdateElementProof` panics on the reverted block's own chain index element: the code must
drop that element (RevertContractChainIndexElement) BEFORE UpdateChainIndexElementProofs(cru). -/
theorem C17_revert_order_matters (b : CBlock) :
    revertProof b.blk b.parent ⟨b.blk, b.blk, false⟩ = .error .revertAbsent := by
  simp [revertProof]

/-- the revert loop with the two index calls swapped (update the proofs first, delete afterwards) -/
def revertBlockE_updateFirst (s : EState) (b : CBlock) : Except Fault EState := do
  let idx2 ← mapExcept (fun x => do let e ← revertProof b.blk b.parent x.e; pure { x with e := e }) s.idx
  let con2 ← mapExcept (fun x => do let e ← revertProof b.blk b.parent x.e; pure { x with e := e }) s.con
  pure { idx := idx2.filter (fun x => !(x.h == b.h && x.blk == b.blk)),
         con := con2.filter (fun x => !b.formed.contains x.c) }

theorem mapExcept_ok_inv {α β : Type} {f : α → Except Fault β} :
    ∀ {l : List α} {bs : List β}, mapExcept f l = .ok bs → ∀ a ∈ l, ∃ b, f a = .ok b
  | [], _, _ => by intro a ha; cases ha
  | a :: rest, bs, h => by
      intro x hx
      unfold mapExcept at h
      cases hfa : f a with
      | error e => simp [hfa, bind, Except.bind] at h
      | ok b0 =>
        cases hr : mapExcept f rest with
        | error e => simp [hfa, hr, bind, Except.bind] at h
        | ok bs0 =>
          rcases List.mem_cons.mp hx with rfl | hx
          · exact ⟨b0, hfa⟩
          · exact mapExcept_ok_inv hr x hx

/-- in general: whenever the reverted block's own index element is stored (always the case while the block is
inside the retained window), the swapped order faults instead of succeeding -/
theorem C17_revert_order_matters_general {M : Nat} {stk : List CBlock} {s : EState} {b : CBlock}
    (hi : EInv M (b :: stk) s) (hwin : M < b.h + chainIndexBuffer ∨ M ≤ chainIndexBuffer) :
    ∀ s', revertBlockE_updateFirst s b ≠ .ok s' := by
  intro s' h
  obtain ⟨x, hx, e1, -⟩ := hi.idxComplete b List.mem_cons_self hwin
  have hborn := (hi.idxSound x hx).2.2.1
  unfold revertBlockE_updateFirst at h
  cases h1 : mapExcept (fun x : IdxElem => do let e ← revertProof b.blk b.parent x.e; pure { x with e := e }) s.idx with
  | error e => rw [h1] at h; cases h
  | ok l =>
    obtain ⟨y, hy⟩ := mapExcept_ok_inv h1 x hx
    simp [revertProof, hborn, e1, bind, Except.bind] at hy

/-- a skipped update is not repaired by the next one: the proof becomes garbage -/
theorem C17_skipped_update_corrupts (b1 b2 p : Nat) (e : Elem)
    (hc : e.corrupt = false) (hb : e.basis = p) (hp : p ≠ b1) (hborn : e.born ≠ b2) :
    (applyProof b2 b1 e).corrupt = true := by
  subst hb
  simp [applyProof, hc, hborn, hp]

/-- … and once garbage, always garbage (neither apply nor revert repairs it) -/
theorem corrupt_sticky (b p : Nat) (e : Elem) (hc : e.corrupt = true) :
    (applyProof b p e).corrupt = true ∧ ∀ e', revertProof b p e = .ok e' → e'.corrupt = true := by
  constructor
  · simp [applyProof, hc]
  · intro e' h
    unfold revertProof at h
    split at h
    · cases h
    · simp at h; subst h; exact hc

instance decWFchain : (l : List CBlock) → Decidable (WFchain l)
  | [] => isTrue trivial
  | b :: below =>
    have : Decidable (WFchain below) := decWFchain below
    inferInstanceAs (Decidable (WFchain below ∧ b.parent = tipOf below ∧ b.blk ≠ 0 ∧ (∀ x ∈ below, x.blk ≠ b.blk) ∧
      (below ≠ [] → b.h = tipH below + 1) ∧ b.formed.Nodup ∧ (∀ c ∈ b.formed, ∀ x ∈ below, c ∉ x.formed)))

instance decWfEStep (stk : List CBlock) : (op : EOp) → Decidable (wfEStep stk op)
  | .apply b => inferInstanceAs (Decidable (WFchain (b :: stk)))
  | .revert b => inferInstanceAs (Decidable (stk.head? = some b ∧ stk.tail ≠ []))

instance decWFeops : (stk : List CBlock) → (ops : List EOp) → Decidable (WFeops stk ops)
  | _, [] => isTrue trivial
  | stk, op :: ops =>
    have : Decidable (WFeops (nextChain stk op) ops) := decWFeops (nextChain stk op) ops
    inferInstanceAs (Decidable (wfEStep stk op ∧ WFeops (nextChain stk op) ops))

namespace Ex
def g   : CBlock := ⟨0, 1, 0, []⟩
def a1  : CBlock := ⟨1, 2, 1, [7]⟩
def a2  : CBlock := ⟨2, 3, 2, []⟩
def a2' : CBlock := ⟨2, 4, 2, [8]⟩      -- competing block at height 2
def a3  : CBlock := ⟨3, 5, 4, []⟩
def a3' : CBlock := ⟨3, 6, 3, [8]⟩      -- contract 8 confirmed again, in another block on another branch

/-- genesis, two applies (one forms contract 7), revert of the tip, a competing branch of two blocks (forms 8),
then a reorg back to the first branch (a2 is crossed a second time) where 8 is confirmed in a3' -/
def hist : List EOp :=
  [.apply g, .apply a1, .apply a2, .revert a2, .apply a2', .apply a3, .revert a3, .revert a2', .apply a2, .apply a3']
end Ex

open Ex in
/-- the hypotheses are satisfiable: the history is well-formed from the empty chain -/
example : WFeops [] hist := by decide

open Ex in
example : finalChain [] hist = [a3', a2, a1, g] ∧ maxH 0 hist = 3 := by decide

open Ex in
/-- the model evaluates to the state the theorem predicts: every element has basis 6 = the final tip -/
example : runE {} hist = .ok
    { idx := [⟨0, 1, ⟨6, 1, false⟩⟩, ⟨1, 2, ⟨6, 2, false⟩⟩, ⟨2, 3, ⟨6, 3, false⟩⟩, ⟨3, 6, ⟨6, 6, false⟩⟩],
      con := [⟨7, ⟨6, 2, false⟩⟩, ⟨8, ⟨6, 6, false⟩⟩] } := by rfl

open Ex in
example : ∃ s', runE {} hist = .ok s' ∧ (∀ x ∈ s'.idx, x.e.basis = tipOf (finalChain [] hist) ∧ x.e.corrupt = false) ∧
    (∀ x ∈ s'.con, x.e.basis = tipOf (finalChain [] hist) ∧ x.e.corrupt = false) :=
  ⟨_, rfl, by decide⟩

open Ex in
/-- with the two index calls of the revert loop swapped the very first revert of that history panics -/
example : ∃ s, runE {} (hist.take 3) = .ok s ∧ revertBlockE s a2 = .ok (revertedState s a2) ∧
    revertBlockE_updateFirst s a2 = .error .revertAbsent :=
  ⟨_, rfl, rfl, rfl⟩

open Ex in
/-- a revert that does not pop the tip is rejected by the hypotheses … and indeed corrupts the proofs -/
example : ¬ WFeops [] [.apply g, .apply a1, .apply a2, .revert a1] ∧
    ∃ s, runE {} [.apply g, .apply a1, .apply a2, .revert a1] = .ok s ∧ ∃ x ∈ s.idx, x.e.corrupt = true := by
  refine ⟨by decide, _, rfl, by decide⟩

open Ex in
/-- the theorems applied to that history (the all-time maximum 3 equals the tip height, so the window theorem applies) -/
example : ∃ s', runE {} hist = .ok s' ∧ EInv 3 [a3', a2, a1, g] s' ∧
    (∀ b ∈ [a3', a2, a1, g], ∃ x ∈ s'.idx, x.blk = b.blk ∧ x.h = b.h) := by
  obtain ⟨s', e, hi, -⟩ := C17_elements_at_tip_from_genesis (ops := hist) (by decide)
  have hi : EInv 3 [a3', a2, a1, g] s' := hi
  refine ⟨s', e, hi, fun b hb => ((C17_index_elements_last_144 hi rfl).1 b hb).mpr ?_⟩
  right; decide

namespace Ex
/-- a linear chain of `n` blocks (heights 0 … n-1), then `k` reverts from the tip -/
def lin (n : Nat) : List EOp := (List.range n).map (fun i => .apply ⟨i, i + 1, i, []⟩)
def linRev (n k : Nat) : List EOp := ((List.range n).reverse.take k).map (fun i => .revert ⟨i, i + 1, i, []⟩)
/-- number of stored chain index elements after each step -/
def idxLens : EState → List EOp → List Nat
  | _, [] => []
  | s, op :: ops =>
    match stepE s op with
    | .ok s1 => s1.idx.length :: idxLens s1 ops
    | .error _ => []
end Ex

open Ex in
set_option maxRecDepth 100000 in
/-- 150 blocks then 3 reverts: a well-formed history that exercises DeleteExpiredChainIndexElements -/
example : WFeops [] (lin 150 ++ linRev 150 3) := by decide +kernel

open Ex in
set_option maxRecDepth 100000 in
/-- the window: 144 elements at height 143, 145 at height 144 (nothing is deleted up to 144), 144 from height 145 on,
and FEWER than 144 after reverts (the deleted elements do not come back) — hence `M` in `idxComplete`. -/
example : (idxLens {} (lin 150 ++ linRev 150 3)).drop 143 = [144, 145, 144, 144, 144, 144, 144, 143, 142, 141] := by
  decide +kernel

/-! ### the getter `contracts.Manager.V2FileContractElement` (Store.V2ContractElement)

It returns the stored element of a contract together with the basis the caller has to hand to the pool
(`last_scanned_index`).  Read from ONE store state (one query joining `global_settings`), the pair is a snapshot:
under the invariant the returned element verifies against the returned basis.  Read from two store states — element
first, basis after the indexer committed another batch — it is torn. -/

/-- the pair as read from one store state (the chain `stk` is what `last_scanned_index` stands for) -/
def getElem (stk : List CBlock) (s : EState) (c : Nat) : Option (Nat × Elem) :=
  (s.con.find? (fun x => x.c == c)).map fun x => (tipOf stk, x.e)

/-- the pair when the element is read from one store state and the basis from a later one -/
def getElemTorn (s1 : EState) (stk2 : List CBlock) (c : Nat) : Option (Nat × Elem) :=
  (s1.con.find? (fun x => x.c == c)).map fun x => (tipOf stk2, x.e)

/-- **C17, getter.**  The (basis, element) pair read from one store state is a snapshot: the element's proof is
not corrupt and verifies against exactly the returned basis. -/
theorem C17_getter_snapshot {M : Nat} {stk : List CBlock} {s : EState} (hi : EInv M stk s) {c b : Nat} {e : Elem}
    (h : getElem stk s c = some (b, e)) : e.basis = b ∧ e.corrupt = false := by
  simp only [getElem, Option.map_eq_some_iff] at h
  obtain ⟨x, hx, hxe⟩ := h
  have hm : x ∈ s.con := List.mem_of_find?_eq_some hx
  obtain ⟨h1, h2, _⟩ := hi.conSound x hm
  cases hxe
  exact ⟨h2, h1⟩

/-- the torn shape: contract 7 is confirmed in block 2; the element is read, the indexer commits block 3, the basis
is read: the pair names basis 3 but the proof verifies against 2 -/
theorem C17_getter_torn_witness :
    let g : CBlock := ⟨0, 1, 0, []⟩
    let a : CBlock := ⟨1, 2, 1, [7]⟩
    let b : CBlock := ⟨2, 3, 2, []⟩
    ∃ s1 s2, runE {} [.apply g, .apply a] = .ok s1 ∧ runE s1 [.apply b] = .ok s2 ∧
      getElem [a, g] s1 7 = some (2, ⟨2, 2, false⟩) ∧ getElem [b, a, g] s2 7 = some (3, ⟨3, 2, false⟩) ∧
      getElemTorn s1 [b, a, g] 7 = some (3, ⟨2, 2, false⟩) := by
  refine ⟨_, _, rfl, rfl, ?_, ?_, ?_⟩ <;> decide

end Hostd.Wallet
