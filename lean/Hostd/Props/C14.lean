import Hostd.Model.Mdm
/-!
C14 — No peer input can crash the host or change state when rejected.

All statements are about `Hostd.Mdm` (Model/Mdm.lean), the model the driver
`drv_mdm` executes against the observations of the real code.

Structure of the file
* core lemmas: `Safe steps → run … ≠ panic` (`run_no_panic`), accounting invariants;
* `slices_in_bounds_*`: for ALL operands, with the repaired guards, every slice /
  index expression reached behind passing guards satisfies `lo ≤ hi ≤ cap`
  (this is exactly `Safe`), for the accessors, every MDM instruction, the RHP2
  handlers, the ContractUpdater, the cost multiplications, the registry recorder;
* `*_no_panic`: corollaries per accessor / handler;
* the CURRENT code (`Fixes.none`): the property is FALSE — concrete witnesses
  (`*_panics`, by `decide`) — and what remains true is stated as `*_partial`
  under the hypothesis that excludes the defect;
* `reject_noop*`: a refused / failed request leaves revision and root list
  unchanged, never costs more than the budget, and costs nothing when it was
  refused before execution.
-/
namespace Hostd.Mdm
set_option linter.unusedSimpArgs false
set_option linter.unusedVariables false

/-! ### helper lemmas -/

theorem run_no_panic (steps : List Step) (h : Safe steps) : ∀ (a : Acc) (s : Site), run a steps ≠ .panic s := by
  induction steps with
  | nil => intro a s; simp [run]
  | cons st r ih =>
    intro a s
    cases st with
    | guard ok =>
      simp only [Safe] at h
      cases ok with
      | true => simp only [run]; exact ih (h rfl) a s
      | false => simp [run]
    | slice lo hi cap site =>
      simp only [Safe] at h
      simp only [run, h.1, and_self, if_true]; exact ih h.2 a s
    | need ok site =>
      simp only [Safe] at h
      simp only [run, h.1, if_true]; exact ih h.2 a s
    | mul p n site =>
      simp only [Safe] at h
      simp only [run, h.1, if_true]; exact ih h.2 a s
    | pay c st =>
      simp only [Safe] at h
      simp only [run]
      split
      · exact ih h _ s
      · simp

/-- products of a small unit price with a uint64 operand fit 128 bits -/
theorem mul_small {p n : Nat} (hp : p < 1099511627776) (hn : n < U64) : p * n < U128 := by
  have h1 : p * n < 1099511627776 * U64 := Nat.mul_lt_mul'' hp hn
  have h2 : 1099511627776 * U64 ≤ U128 := by decide
  omega

theorem mul_small2 {p n : Nat} (hp : p < 1099511627776) (hn : n < U64) : p * SectorSize * n < U128 := by
  have h0 : p * SectorSize < 1099511627776 * SectorSize := Nat.mul_lt_mul_of_lt_of_le hp (Nat.le_refl _) (by decide)
  have h1 : p * SectorSize * n < 1099511627776 * SectorSize * U64 := Nat.mul_lt_mul'' h0 hn
  have h2 : 1099511627776 * SectorSize * U64 ≤ U128 := by decide
  omega

theorem mul_smallS {p : Nat} (hp : p < 1099511627776) : p * SectorSize < U128 :=
  mul_small hp (by decide)

theorem mul_small32 {p : Nat} (hp : p < 1099511627776) : p * 32 < U128 :=
  mul_small hp (by decide)

/-- closes the arithmetic side conditions left after unfolding `Safe` -/
macro "safe_auto" : tactic =>
  `(tactic| (repeat' (first | (intro _) | (apply And.intro) | omega | trivial)))

/-- `run` never changes the budget, never spends beyond it, and the refundable part stays below what was spent -/
theorem run_acc (steps : List Step) : ∀ (a a' : Acc), a.spent ≤ a.budget → a.storage ≤ a.spent →
    (run a steps = .pass a' ∨ run a steps = .reject a') →
    a'.budget = a.budget ∧ a'.spent ≤ a'.budget ∧ a'.storage ≤ a'.spent ∧ a.spent ≤ a'.spent := by
  induction steps with
  | nil => intro a a' h1 h2 h; simp [run] at h; subst h; omega
  | cons st r ih =>
    intro a a' h1 h2 h
    cases st with
    | guard ok =>
      cases ok with
      | true => simp only [run, if_true] at h; exact ih a a' h1 h2 h
      | false => simp [run] at h; subst h; omega
    | slice lo hi cap site =>
      simp only [run] at h
      split at h
      · exact ih a a' h1 h2 h
      · simp at h
    | need ok site =>
      cases ok with
      | true => simp only [run, if_true] at h; exact ih a a' h1 h2 h
      | false => simp [run] at h
    | mul p n site =>
      simp only [run] at h
      split at h
      · exact ih a a' h1 h2 h
      · simp at h
    | pay c st =>
      simp only [run] at h
      split at h
      · rename_i hc
        have := ih { a with spent := a.spent + c, storage := a.storage + min st c, paid := a.paid + 1 } a' (by simpa using hc) (by simp; omega) h
        simp at this; omega
      · simp at h; subst h; omega

/-! ## 1. programData accessors -/

/-- **slices_in_bounds (accessors, repaired guard).**  For every accessor, every
offset, length and program-data size, each slice expression behind the bounds
check is within the program data and each fixed-size conversion has enough bytes. -/
theorem slices_in_bounds_pd (f : Fixes) (hf : f.pdOverflow = true) (hk : f.unlockKeyMin = true)
    (fn : PdFn) (off n len : Nat) (hlen : len < U64) : Safe (pdSteps f fn off n len) := by
  cases fn <;>
    simp only [pdSteps, pdSector, pdBytes, pdUint64, pdHash, pdSignature, pdFixed, pdUnlockKey, pdCheck, hf, hk, Safe,
      if_true, List.cons_append, List.nil_append, decide_eq_true_eq] <;>
    simp only [wrap, U64, SectorSize] at * <;>
    safe_auto

/-- **no_panic (accessors, repaired guard).** -/
theorem pd_no_panic (f : Fixes) (hf : f.pdOverflow = true) (hk : f.unlockKeyMin = true)
    (fn : PdFn) (off n len : Nat) (hlen : len < U64) (a : Acc) (s : Site) :
    run a (pdSteps f fn off n len) ≠ .panic s :=
  run_no_panic _ (slices_in_bounds_pd f hf hk fn off n len hlen) a s

/-- when the repaired accessor succeeds the bytes handed out are `[lo,hi) ⊆ [0,len)`, start at `off`
(`off+16` for the key of `UnlockKey`) and have the requested size -/
theorem pd_span_ok (f : Fixes) (hf : f.pdOverflow = true) (hk : f.unlockKeyMin = true)
    (fn : PdFn) (off n len : Nat) (hlen : len < U64) (a a' : Acc)
    (h : run a (pdSteps f fn off n len) = .pass a') :
    (pdSpan fn off n).1 ≤ (pdSpan fn off n).2 ∧ (pdSpan fn off n).2 ≤ len := by
  cases fn <;>
    simp only [pdSteps, pdSector, pdBytes, pdUint64, pdHash, pdSignature, pdFixed, pdUnlockKey, pdCheck, hf, hk,
      if_true, List.cons_append, List.nil_append, run, pdSpan] at h ⊢ <;>
    (repeat' split at h) <;> simp_all <;>
    simp only [wrap, U64, SectorSize] at * <;> omega

/-- **partial (accessors, guard as written).**  The current check `offset+n > len`
is sound whenever the addition does not wrap (and `UnlockKey` is asked for at least
the 16 specifier bytes). -/
theorem slices_in_bounds_pd_partial (f : Fixes) (fn : PdFn) (off n len : Nat) (hlen : len < U64)
    (hnowrap : off + n < U64 ∧ off + SectorSize < U64 ∧ off + 64 < U64)
    (hkey : fn = .unlockKey → 16 ≤ n) : Safe (pdSteps f fn off n len) := by
  cases hf : f.pdOverflow <;> cases hk : f.unlockKeyMin <;> cases fn <;>
    simp only [pdSteps, pdSector, pdBytes, pdUint64, pdHash, pdSignature, pdFixed, pdUnlockKey, pdCheck, hf, hk, Safe,
      if_true, if_false, List.cons_append, List.nil_append, decide_eq_true_eq, Bool.false_eq_true] <;>
    simp only [wrap, U64, SectorSize] at * <;>
    (try have hkey' := hkey rfl) <;> (try have hkey' := hkey trivial) <;>
    safe_auto

/-! ### the current accessors DO panic: witnesses -/

example : pdCheck Fixes.none (U64 - 1) 8 16 = true := by decide   -- the overflowed check passes

theorem pdUint64_panics : run { budget := 0 } (pdUint64 Fixes.none (U64 - 1) 16) = .panic .pdUint64 := by decide
theorem pdHash_panics : run { budget := 0 } (pdHash Fixes.none (U64 - 32) 32) = .panic .pdHash := by decide
theorem pdSignature_panics : run { budget := 0 } (pdSignature Fixes.none (U64 - 64) 64) = .panic .pdSignature := by decide
theorem pdBytes_panics : run { budget := 0 } (pdBytes Fixes.none 1 (U64 - 1) 64) = .panic .pdBytes := by decide
theorem pdSector_panics : run { budget := 0 } (pdSector Fixes.none (U64 - SectorSize) 8) = .panic .pdSector := by decide
/-- `UnlockKey(0, 8)`: `pd[16:8]` -/
theorem pdUnlockKey_panics : run { budget := 0 } (pdUnlockKey Fixes.none 0 8 64) = .panic .pdUnlockKey := by decide
/-- …so `slices_in_bounds` is false for the accessors as written -/
theorem slices_in_bounds_pd_current_false : ¬ (∀ fn off n len, len < U64 → off < U64 → n < U64 → Safe (pdSteps Fixes.none fn off n len)) := by
  intro h
  exact run_no_panic _ (h .uint64 (U64 - 1) 0 16 (by decide) (by decide) (by decide)) { budget := 0 } .pdUint64 pdUint64_panics

/-! ## 2. MDM instructions -/

/-- every repair that concerns the MDM -/
def MdmFixed (f : Fixes) : Prop :=
  f.pdOverflow = true ∧ f.unlockKeyMin = true ∧ f.readSector = true ∧ f.readOffset = true ∧ f.dropSectors = true

/-- what is known about the environment: uint64 operands, sane unit prices (< 2^40 hastings per byte/unit) -/
structure EnvOK (e : Env) : Prop where
  pdLen : e.pdLen < U64
  rd : ∀ o, e.rd o < U64
  duration : e.duration < U64
  pDrop : e.prices.dropUnit < 1099511627776
  pRead : e.prices.readLen < 1099511627776
  pDown : e.prices.download < 1099511627776
  pUp : e.prices.upload < 1099511627776
  pStore : e.prices.writeStore < 1099511627776
  pColl : e.prices.collateral < 1099511627776

/-- immediates of the instruction are uint64 -/
def Instr.immOK : Instr → Prop
  | .storeSector _ d => d < U64
  | .updateSector o l _ _ => o < U64 ∧ l < U64
  | _ => True

/-- the products the cost functions form, for an environment satisfying `EnvOK` -/
structure MulFacts (e : Env) : Prop where
  m1 : ∀ o, e.prices.dropUnit * e.rd o < U128
  m2 : ∀ o, e.prices.readLen * e.rd o < U128
  m3 : ∀ o, e.prices.download * e.rd o < U128
  m4 : ∀ l, l < U64 → e.prices.upload * l < U128
  m5 : e.prices.writeStore * SectorSize < U128
  m6 : ∀ d, d < U64 → e.prices.writeStore * SectorSize * d < U128
  m7 : e.prices.collateral * SectorSize < U128
  m8 : ∀ d, d < U64 → e.prices.collateral * SectorSize * d < U128

theorem mulFacts (e : Env) (he : EnvOK e) : MulFacts e where
  m1 := fun o => mul_small he.pDrop (he.rd o)
  m2 := fun o => mul_small he.pRead (he.rd o)
  m3 := fun o => mul_small he.pDown (he.rd o)
  m4 := fun _ hl => mul_small he.pUp hl
  m5 := mul_smallS he.pStore
  m6 := fun _ hd => mul_small2 he.pStore hd
  m7 := mul_smallS he.pColl
  m8 := fun _ hd => mul_small2 he.pColl hd

/-- **slices_in_bounds (instructions, repaired guards).**  For every instruction,
all operands, all program data and any number of contract sectors, every slice /
index expression, proof range and cost multiplication behind passing guards is in bounds. -/
theorem slices_in_bounds_instr (f : Fixes) (hf : MdmFixed f) (e : Env) (he : EnvOK e) (n : Nat)
    (i : Instr) (hi : i.immOK) : Safe (instrSteps f e n i) := by
  obtain ⟨h1, h2, h3, h4, h5⟩ := hf
  obtain ⟨m1, m2, m3, m4, m5, m6, m7, m8⟩ := mulFacts e he
  have m6d := m6 _ he.duration
  have m8d := m8 _ he.duration
  have m4s := m4 SectorSize (by decide)
  have m4t := m4 32 (by decide)
  obtain ⟨hl, hrd, hd, -, -, -, -, -, -⟩ := he
  cases i with
  | appendSector dataOff proof =>
    cases proof <;>
    simp only [instrSteps, pdSector, pdCheck, h1, Safe, if_true, List.cons_append, List.nil_append, List.append_nil,
      decide_eq_true_eq, Bool.false_eq_true, if_false, m5, m6d, m7, m8d, m4s, true_and] <;>
    simp only [wrap, U64, SectorSize] at hl ⊢ <;> safe_auto
  | appendSectorRoot rootOff proof present =>
    cases proof <;>
    simp only [instrSteps, pdHash, pdFixed, pdCheck, h1, Safe, if_true, List.cons_append, List.nil_append, List.append_nil,
      decide_eq_true_eq, Bool.false_eq_true, if_false, m5, m6d, m7, m8d, true_and] <;>
    simp only [wrap, U64, SectorSize] at hl ⊢ <;> safe_auto
  | dropSectors countOff proof =>
    have hc := hrd countOff
    cases proof <;>
    simp only [instrSteps, pdUint64, pdFixed, pdCheck, h1, h5, Safe, if_true, List.cons_append, List.nil_append, List.append_nil,
      decide_eq_true_eq, Bool.false_eq_true, if_false, Bool.true_and, Bool.false_and, m1, true_and] <;>
    (try split) <;>
    (try simp only [Safe, List.cons_append, List.nil_append, decide_eq_true_eq, rootRangeOK, Bool.or_eq_true, Bool.not_eq_true',
      Bool.or_eq_false_iff, decide_eq_false_iff_not, ne_eq] at *) <;>
    simp only [wrap, U64, SectorSize] at hl hc ⊢ <;> safe_auto
  | hasSector rootOff =>
    simp only [instrSteps, pdHash, pdFixed, pdCheck, h1, Safe, if_true, List.cons_append, List.nil_append,
      decide_eq_true_eq, m4t, true_and] <;>
    simp only [wrap, U64, SectorSize] at hl ⊢ <;> safe_auto
  | readOffset offOff lenOff proof =>
    have ho := hrd offOff
    have hn := hrd lenOff
    cases proof <;>
    simp only [instrSteps, pdUint64, pdFixed, pdCheck, h1, h4, Safe, if_true, List.cons_append, List.nil_append, List.append_nil,
      decide_eq_true_eq, Bool.false_eq_true, if_false, proofRangeOK, aligned, Bool.not_true, Bool.not_false, Bool.false_or,
      Bool.true_or, Bool.and_eq_true, Bool.or_eq_true, Bool.not_eq_true', Bool.or_eq_false_iff, decide_eq_false_iff_not, ne_eq,
      m2, m3, true_and] <;>
    simp only [wrap, U64, SectorSize, LeafSize, LeavesPerSector] at hl ho hn ⊢ <;> safe_auto
  | readSector lenOff offOff rootOff proof present =>
    have ho := hrd offOff
    have hn := hrd lenOff
    cases proof <;>
    simp only [instrSteps, pdUint64, pdHash, pdFixed, pdCheck, h1, h3, Safe, if_true, List.cons_append, List.nil_append, List.append_nil,
      decide_eq_true_eq, Bool.false_eq_true, if_false, proofRangeOK, aligned, Bool.not_true, Bool.not_false, Bool.false_or,
      Bool.true_or, Bool.and_eq_true, Bool.or_eq_true, Bool.not_eq_true', Bool.or_eq_false_iff, decide_eq_false_iff_not, ne_eq,
      m2, m3, true_and] <;>
    simp only [wrap, U64, SectorSize, LeafSize, LeavesPerSector] at hl ho hn ⊢ <;> safe_auto
  | swapSector aOff bOff proof =>
    simp only [instrSteps, pdUint64, pdFixed, pdCheck, h1, Safe, if_true, List.cons_append, List.nil_append,
      decide_eq_true_eq, Bool.and_eq_true] <;>
    simp only [wrap, U64, SectorSize] at hl ⊢ <;> safe_auto
  | updateSector offset length dataOff proof =>
    simp only [Instr.immOK] at hi
    have m4l := m4 length hi.2
    simp only [instrSteps, pdBytes, pdCheck, h1, Safe, if_true, List.cons_append, List.nil_append,
      decide_eq_true_eq, m4l, true_and] <;>
    simp only [wrap, U64, SectorSize] at hl hi ⊢ <;> safe_auto
  | storeSector dataOff duration =>
    simp only [Instr.immOK] at hi
    have m6s := m6 duration hi
    simp only [instrSteps, pdSector, pdCheck, h1, Safe, if_true, List.cons_append, List.nil_append,
      decide_eq_true_eq, m5, m6s, m4s, true_and] <;>
    simp only [wrap, U64, SectorSize] at hl ⊢ <;> safe_auto
  | revision => simp [instrSteps, Safe]
  | readRegistry pkOff pkLen tweakOff version algOk found =>
    simp only [instrSteps, pdUnlockKey, pdHash, pdFixed, pdCheck, h1, h2, Safe, if_true, List.cons_append, List.nil_append,
      decide_eq_true_eq] <;>
    simp only [wrap, U64, SectorSize] at hl ⊢ <;> safe_auto
  | updateRegistry tweakOff revOff sigOff pkOff pkLen dataOff dataLen algOk putOk =>
    simp only [instrSteps, pdUnlockKey, pdHash, pdUint64, pdSignature, pdBytes, pdFixed, pdCheck, h1, h2, Safe, if_true,
      List.cons_append, List.nil_append, decide_eq_true_eq] <;>
    simp only [wrap, U64, SectorSize] at hl ⊢ <;> safe_auto

/-- program-level hypotheses -/
structure ProgOK (pdLen : Nat) (rd : Nat → Nat) (prices : Prices) (duration : Nat) (prog : List CInstr) : Prop where
  env : ∀ c s, EnvOK { pdLen := pdLen, rd := rd, prices := prices, duration := duration, cost := c, storage := s }
  imm : ∀ ci ∈ prog, ci.i.immOK

/-- **no_panic (executor).**  With the repaired guards no program makes `executeProgram` panic. -/
theorem exec_no_panic (f : Fixes) (hf : MdmFixed f) (pdLen : Nat) (rd : Nat → Nat) (prices : Prices) (duration : Nat)
    (prog : List CInstr) (hp : ProgOK pdLen rd prices duration prog) :
    ∀ (a : Acc) (roots : List Nat) (k : Nat) (outs : List (Option Nat)) (k' : Nat) (s : Site),
      execInstrs f pdLen rd prices duration a roots k outs prog ≠ .panic k' s := by
  induction prog with
  | nil => intro a roots k outs k' s; simp [execInstrs]
  | cons ci rest ih =>
    intro a roots k outs k' s
    have hsafe := slices_in_bounds_instr f hf
      { pdLen := pdLen, rd := rd, prices := prices, duration := duration, cost := ci.cost, storage := ci.storage }
      (hp.env ci.cost ci.storage) roots.length ci.i (hp.imm ci (by simp))
    simp only [execInstrs]
    split
    · rename_i s' heq; exact absurd heq (run_no_panic _ hsafe a s')
    · simp
    · exact ih ⟨hp.env, fun c hc => hp.imm c (by simp [hc])⟩ _ _ _ _ k' s

/-- **no_panic (RHP3 execute-program handler).** -/
theorem handle_no_panic (f : Fixes) (hf : MdmFixed f) (hs : f.revisionSum = true) (hr : f.rollbackRefundsUsage = true)
    (s : HostState) (r : Request)
    (hp : ProgOK r.pdLen r.rd r.prices r.duration r.prog) (k : Nat) (site : Site) :
    (handle f s r).1 ≠ .panic k site := by
  unfold handle
  split
  · rename_i h; simp [hs] at h
  split
  · have hne := exec_no_panic f hf r.pdLen r.rd r.prices r.duration r.prog hp
      { budget := r.budget, spent := r.initCost } s.roots 0 []
    generalize execInstrs f r.pdLen r.rd r.prices r.duration { budget := r.budget, spent := r.initCost } s.roots 0 [] r.prog = eo at hne
    cases eo with
    | panic k' s' => exact absurd rfl (hne k' s')
    | failed k' a outs => simp [settle, refundOf, hr]
    | done a roots outs =>
      simp only [settle]
      split
      · cases r.fin <;> simp [hs]
      · simp
  · simp

/-! ### the current instructions DO panic: witnesses (replayed on the real executor by the corpus) -/

def rdOf (l : List (Nat × Nat)) : Nat → Nat := fun o => ((l.find? (·.1 == o)).map (·.2)).getD 0

/-- ReadSector, `offset = 2^64-1`, `length = 2`: `offset+length` wraps to 1 ≤ SectorSize, then `sector[2^64-1 : 1]` -/
theorem readSector_panics :
    run { budget := 100 } (instrSteps Fixes.none { pdLen := 48, rd := rdOf [(0, 2), (8, U64 - 1)] } 3
      (.readSector 0 8 16 false true)) = .panic .executeReadSector := by decide

/-- ReadOffset, `length = SectorSize+1`: there is no upper bound, `sector[0 : SectorSize+1]` -/
theorem readOffset_panics_len :
    run { budget := 100 } (instrSteps Fixes.none { pdLen := 16, rd := rdOf [(0, 0), (8, SectorSize + 1)] } 3
      (.readOffset 0 8 false)) = .panic .executeReadOffset := by decide

/-- ReadOffset with proof, `length = 1`: `BuildProof(sector, 0, 0)` panics (empty range) -/
theorem readOffset_panics_proof :
    run { budget := 100 } (instrSteps Fixes.none { pdLen := 16, rd := rdOf [(0, 0), (8, 1)] } 3
      (.readOffset 0 8 true)) = .panic .executeReadOffset := by decide

/-- DropSectors with proof, `count = 0`: `BuildSectorRangeProof(roots, n, n)` panics -/
theorem dropSectors_panics_zero :
    run { budget := 100 } (instrSteps Fixes.none { pdLen := 8, rd := rdOf [(0, 0)] } 3
      (.dropSectors 0 true)) = .panic .executeDropSectors := by decide

/-- DropSectors with proof, `count = 5 > n = 3`: `SectorCount()-count` wraps, the proof is built before `TrimSectors` validates -/
theorem dropSectors_panics_over :
    run { budget := 100 } (instrSteps Fixes.none { pdLen := 8, rd := rdOf [(0, 5)] } 3
      (.dropSectors 0 true)) = .panic .executeDropSectors := by decide

/-- a wire-level operand offset near 2^64 reaches the accessor panic through DropSectors -/
theorem dropSectors_panics_operand :
    run { budget := 100 } (instrSteps Fixes.none { pdLen := 8, rd := rdOf [] } 3
      (.dropSectors (U64 - 1) false)) = .panic .pdUint64 := by decide

/-- SwapSector builds its proof before validating, but `BuildDiffProof` ignores out-of-range
indices: an out-of-range swap is rejected, not a panic (the suspicion of DESIGN §3 is refuted) -/
theorem swapSector_out_of_range_rejects :
    run { budget := 100 } (instrSteps Fixes.none { pdLen := 16, rd := rdOf [(0, 1), (8, 7)], cost := 5 } 3
      (.swapSector 0 8 true)) = .reject { budget := 100, spent := 5, paid := 1 } := by decide

/-- **partial (instructions as written).**  What excludes the defects of the current
code: no accessor addition wraps, ReadSector's `offset+length` does not wrap, ReadOffset
stays inside the sector (and is aligned and non-empty when a proof is requested),
DropSectors with proof drops between 1 and `n` sectors. -/
def CurrentOK (e : Env) (n : Nat) : Instr → Prop
  | .appendSector o _ => o + SectorSize < U64
  | .appendSectorRoot o _ _ => o + 32 < U64
  | .dropSectors o proof => o + 8 < U64 ∧ (proof = true → 0 < e.rd o ∧ e.rd o ≤ n)
  | .hasSector o => o + 32 < U64
  | .readOffset oo lo proof => oo + 8 < U64 ∧ lo + 8 < U64 ∧ e.rd lo ≤ SectorSize - e.rd oo % SectorSize ∧
      (proof = true → e.rd lo ≠ 0 ∧ e.rd lo % LeafSize = 0 ∧ e.rd oo % LeafSize = 0)
  | .readSector lo oo ro _ _ => lo + 8 < U64 ∧ oo + 8 < U64 ∧ ro + 32 < U64 ∧ e.rd oo + e.rd lo < U64
  | .swapSector a b _ => a + 8 < U64 ∧ b + 8 < U64
  | .updateSector _ l d _ => d + l < U64
  | .storeSector o _ => o + SectorSize < U64
  | .revision => True
  | .readRegistry pk pl tw _ _ _ => pk + pl < U64 ∧ 16 ≤ pl ∧ tw + 32 < U64
  | .updateRegistry tw rv sg pk pl d dl _ _ => tw + 32 < U64 ∧ rv + 8 < U64 ∧ sg + 64 < U64 ∧ pk + pl < U64 ∧ 16 ≤ pl ∧ d + dl < U64

theorem slices_in_bounds_instr_partial' (f : Fixes) (h1 : f.pdOverflow = false) (h2 : f.unlockKeyMin = false)
    (h3 : f.readSector = false) (h4 : f.readOffset = false) (h5 : f.dropSectors = false)
    (e : Env) (he : EnvOK e) (n : Nat) (hn : n < U64)
    (i : Instr) (hi : i.immOK) (hc : CurrentOK e n i) : Safe (instrSteps f e n i) := by
  obtain ⟨m1, m2, m3, m4, m5, m6, m7, m8⟩ := mulFacts e he
  have m6d := m6 _ he.duration
  have m8d := m8 _ he.duration
  have m4s := m4 SectorSize (by decide)
  have m4t := m4 32 (by decide)
  obtain ⟨hl, hrd, hd, -, -, -, -, -, -⟩ := he
  cases i with
  | appendSector dataOff proof =>
    simp only [CurrentOK] at hc
    cases proof <;>
    simp only [instrSteps, pdSector, pdCheck, h1, Safe, if_true, List.cons_append, List.nil_append, List.append_nil,
      decide_eq_true_eq, Bool.false_eq_true, if_false, m5, m6d, m7, m8d, m4s, true_and] <;>
    simp only [wrap, U64, SectorSize] at hl hc ⊢ <;> safe_auto
  | appendSectorRoot rootOff proof present =>
    simp only [CurrentOK] at hc
    cases proof <;>
    simp only [instrSteps, pdHash, pdFixed, pdCheck, h1, Safe, if_true, List.cons_append, List.nil_append, List.append_nil,
      decide_eq_true_eq, Bool.false_eq_true, if_false, m5, m6d, m7, m8d, true_and] <;>
    simp only [wrap, U64, SectorSize] at hl hc ⊢ <;> safe_auto
  | dropSectors countOff proof =>
    have hcnt := hrd countOff
    simp only [CurrentOK] at hc
    cases proof
    · simp only [instrSteps, pdUint64, pdFixed, pdCheck, h1, h5, Safe, if_true, List.cons_append, List.nil_append, List.append_nil,
        decide_eq_true_eq, Bool.false_eq_true, if_false, m1, true_and]
      simp only [wrap, U64, SectorSize] at hl hc hcnt hn ⊢
      safe_auto
    · have hc2 := hc.2 rfl
      simp only [instrSteps, pdUint64, pdFixed, pdCheck, h1, h5, Safe, if_true, List.cons_append, List.nil_append, List.append_nil,
        decide_eq_true_eq, Bool.false_eq_true, if_false, m1, true_and, rootRangeOK, wsub, Bool.or_eq_true, Bool.not_eq_true',
        Bool.or_eq_false_iff, decide_eq_false_iff_not]
      simp only [wrap, U64, SectorSize] at hl hc hcnt hn ⊢
      intro _
      refine ⟨⟨by omega, by omega⟩, by omega, Or.inr ⟨⟨by omega, ?_⟩, ?_⟩, fun _ => ⟨⟨by omega, by omega⟩, trivial⟩⟩
      · exact decide_eq_false (by omega)
      · exact decide_eq_false (by omega)
  | hasSector rootOff =>
    simp only [CurrentOK] at hc
    simp only [instrSteps, pdHash, pdFixed, pdCheck, h1, Safe, if_true, List.cons_append, List.nil_append,
      decide_eq_true_eq, Bool.false_eq_true, if_false, m4t, true_and] <;>
    simp only [wrap, U64, SectorSize] at hl hc ⊢ <;> safe_auto
  | readOffset offOff lenOff proof =>
    have ho := hrd offOff
    have hln := hrd lenOff
    simp only [CurrentOK] at hc
    cases proof <;>
    simp only [instrSteps, pdUint64, pdFixed, pdCheck, h1, h4, Safe, if_true, List.cons_append, List.nil_append, List.append_nil,
      decide_eq_true_eq, Bool.false_eq_true, if_false, proofRangeOK, aligned, Bool.not_true, Bool.not_false, Bool.false_or,
      Bool.true_or, Bool.and_eq_true, Bool.or_eq_true, Bool.not_eq_true', Bool.or_eq_false_iff, decide_eq_false_iff_not, ne_eq,
      m2, m3, true_and] <;>
    simp only [wrap, U64, SectorSize, LeafSize, LeavesPerSector] at hl hc ho hln ⊢ <;>
    (try have hc2 := hc.2.2.2 rfl) <;> (try have hc2 := hc.2.2.2 trivial) <;>
    (try simp only [decide_eq_false_iff_not, decide_eq_true_eq]) <;>
    safe_auto
  | readSector lenOff offOff rootOff proof present =>
    have ho := hrd offOff
    have hln := hrd lenOff
    simp only [CurrentOK] at hc
    cases proof <;>
    simp only [instrSteps, pdUint64, pdHash, pdFixed, pdCheck, h1, h3, Safe, if_true, List.cons_append, List.nil_append, List.append_nil,
      decide_eq_true_eq, Bool.false_eq_true, if_false, proofRangeOK, aligned, Bool.not_true, Bool.not_false, Bool.false_or,
      Bool.true_or, Bool.and_eq_true, Bool.or_eq_true, Bool.not_eq_true', Bool.or_eq_false_iff, decide_eq_false_iff_not, ne_eq,
      m2, m3, true_and] <;>
    simp only [wrap, U64, SectorSize, LeafSize, LeavesPerSector] at hl hc ho hln ⊢ <;> safe_auto
  | swapSector aOff bOff proof =>
    simp only [CurrentOK] at hc
    simp only [instrSteps, pdUint64, pdFixed, pdCheck, h1, Safe, if_true, List.cons_append, List.nil_append,
      decide_eq_true_eq, Bool.and_eq_true, Bool.false_eq_true, if_false] <;>
    simp only [wrap, U64, SectorSize] at hl hc ⊢ <;> safe_auto
  | updateSector offset length dataOff proof =>
    simp only [Instr.immOK] at hi
    have m4l := m4 length hi.2
    simp only [CurrentOK] at hc
    simp only [instrSteps, pdBytes, pdCheck, h1, Safe, if_true, List.cons_append, List.nil_append,
      decide_eq_true_eq, Bool.false_eq_true, if_false, m4l, true_and] <;>
    simp only [wrap, U64, SectorSize] at hl hc hi ⊢ <;> safe_auto
  | storeSector dataOff duration =>
    simp only [Instr.immOK] at hi
    have m6s := m6 duration hi
    simp only [CurrentOK] at hc
    simp only [instrSteps, pdSector, pdCheck, h1, Safe, if_true, List.cons_append, List.nil_append,
      decide_eq_true_eq, Bool.false_eq_true, if_false, m5, m6s, m4s, true_and] <;>
    simp only [wrap, U64, SectorSize] at hl hc ⊢ <;> safe_auto
  | revision => simp [instrSteps, Safe]
  | readRegistry pkOff pkLen tweakOff version algOk found =>
    simp only [CurrentOK] at hc
    simp only [instrSteps, pdUnlockKey, pdHash, pdFixed, pdCheck, h1, h2, Safe, if_true, List.cons_append, List.nil_append,
      decide_eq_true_eq, Bool.false_eq_true, if_false] <;>
    simp only [wrap, U64, SectorSize] at hl hc ⊢ <;> safe_auto
  | updateRegistry tweakOff revOff sigOff pkOff pkLen dataOff dataLen algOk putOk =>
    simp only [CurrentOK] at hc
    simp only [instrSteps, pdUnlockKey, pdHash, pdUint64, pdSignature, pdBytes, pdFixed, pdCheck, h1, h2, Safe, if_true,
      List.cons_append, List.nil_append, decide_eq_true_eq, Bool.false_eq_true, if_false] <;>
    simp only [wrap, U64, SectorSize] at hl hc ⊢ <;> safe_auto

/-- **partial (instructions as written)** for the pinned snapshot -/
theorem slices_in_bounds_instr_partial (e : Env) (he : EnvOK e) (n : Nat) (hn : n < U64)
    (i : Instr) (hi : i.immOK) (hc : CurrentOK e n i) : Safe (instrSteps Fixes.none e n i) :=
  slices_in_bounds_instr_partial' Fixes.none rfl rfl rfl rfl rfl e he n hn i hi hc

/-- non-vacuity of the partial theorem: an ordinary aligned read satisfies `CurrentOK` -/
example : CurrentOK { pdLen := 16, rd := rdOf [(0, 128), (8, 64)] } 3 (.readOffset 0 8 true) := by
  simp only [CurrentOK]; decide

/-! ## 3. reject_noop -/

/-- booking the announced refund does not touch the budget accounting -/
theorem bookCost_eq (a a' : Acc) (ci : CInstr) :
    (bookCost a a' ci).budget = a'.budget ∧ (bookCost a a' ci).spent = a'.spent ∧ (bookCost a a' ci).storage = a'.storage := by
  unfold bookCost; split <;> simp

/-- accounting invariant of the executor: the budget is never exceeded -/
theorem exec_acc (f : Fixes) (pdLen : Nat) (rd : Nat → Nat) (prices : Prices) (duration : Nat) (prog : List CInstr) :
    ∀ (a : Acc) (roots : List Nat) (k : Nat) (outs : List (Option Nat)), a.spent ≤ a.budget → a.storage ≤ a.spent →
      (∀ a' roots' outs', execInstrs f pdLen rd prices duration a roots k outs prog = .done a' roots' outs' →
          a'.budget = a.budget ∧ a'.spent ≤ a'.budget ∧ a'.storage ≤ a'.spent) ∧
      (∀ k' a' outs', execInstrs f pdLen rd prices duration a roots k outs prog = .failed k' a' outs' →
          a'.budget = a.budget ∧ a'.spent ≤ a'.budget ∧ a'.storage ≤ a'.spent ∧ k ≤ k' ∧ k' < k + prog.length) := by
  induction prog with
  | nil =>
    intro a roots k outs h1 h2
    constructor
    · intro a' roots' outs' h; simp [execInstrs] at h; obtain ⟨rfl, _, _⟩ := h; omega
    · intro k' a' outs' h; simp [execInstrs] at h
  | cons ci rest ih =>
    intro a roots k outs h1 h2
    simp only [execInstrs]
    split
    · constructor <;> (intros; simp_all)
    · rename_i a1 heq
      have := run_acc _ a a1 h1 h2 (Or.inr heq)
      constructor
      · intro a' roots' outs' h; simp at h
      · intro k' a' outs' h
        simp at h; obtain ⟨rfl, rfl, _⟩ := h
        obtain ⟨hb1, hb2, hb3⟩ := bookCost_eq a a1 ci
        simp; omega
    · rename_i a1 heq
      have hr := run_acc _ a a1 h1 h2 (Or.inl heq)
      obtain ⟨hb1, hb2, hb3⟩ := bookCost_eq a a1 ci
      have := ih (bookCost a a1 ci)
        (applyRoots { pdLen := pdLen, rd := rd, prices := prices, duration := duration, cost := ci.cost, storage := ci.storage } roots (1000 + k) ci.i)
        (k + 1)
        (outLen { pdLen := pdLen, rd := rd, prices := prices, duration := duration, cost := ci.cost, storage := ci.storage } roots.length ci.i :: outs)
        (by omega) (by omega)
      constructor
      · intro a' roots' outs' h
        have := this.1 a' roots' outs' h; omega
      · intro k' a' outs' h
        have := this.2 k' a' outs' h
        simp; omega

/-- **reject_noop (refused before execution).**  A request refused before any
instruction ran (payment refused, insufficient balance or budget, contract
required but missing) leaves revision, root list and balance exactly as they were. -/
theorem reject_noop_refused (f : Fixes) (s s' : HostState) (r : Request)
    (h : handle f s r = (.refused, s')) : s' = s := by
  unfold handle at h
  split at h
  · simp at h
  split at h
  · generalize execInstrs f r.pdLen r.rd r.prices r.duration { budget := r.budget, spent := r.initCost } s.roots 0 [] r.prog = eo at h
    cases eo with
    | panic k' s' => simp [settle] at h
    | failed k' a outs => simp only [settle] at h; split at h <;> simp at h
    | done a roots outs =>
      simp only [settle] at h
      split at h
      · cases hfin : r.fin <;> simp [hfin] at h
        split at h <;> simp at h
      · simp at h
  · simp at h; exact h.symm

/-- **reject_noop (failed program).**  A program that failed at instruction `k`
(or whose finalisation was refused, `k = prog.length`) leaves the contract
revision and the sector root list unchanged (the updater worked on a private
copy), is charged at most its budget, and is charged nothing when it is the
finalisation that was refused. -/
theorem reject_noop_failed (f : Fixes) (s s' : HostState) (r : Request) (k : Nat) (outs : List (Option Nat))
    (h : handle f s r = (.failed k outs, s')) :
    s'.rev = s.rev ∧ s'.roots = s.roots ∧ s'.balance ≤ s.balance ∧ s.balance - s'.balance ≤ r.budget ∧
    (k = r.prog.length → s' = s) ∧ k ≤ r.prog.length := by
  unfold handle at h
  split at h
  · simp at h
  split at h
  · rename_i hadm
    have hinit : r.initCost ≤ r.budget := by
      simp only [admitted, Bool.and_eq_true, decide_eq_true_eq] at hadm; exact hadm.1.2
    have hacc := exec_acc f r.pdLen r.rd r.prices r.duration r.prog { budget := r.budget, spent := r.initCost } s.roots 0 []
      (by simpa using hinit) (by simp)
    generalize execInstrs f r.pdLen r.rd r.prices r.duration { budget := r.budget, spent := r.initCost } s.roots 0 [] r.prog = eo at h hacc
    cases eo with
    | panic k' s' => simp [settle] at h
    | failed k' a outs' =>
      have := hacc.2 k' a outs' rfl
      simp only [settle] at h
      split at h
      · rename_i href
        simp at h
        obtain ⟨⟨rfl, _⟩, rfl⟩ := h
        simp at this ⊢
        refine ⟨by omega, ?_, by omega⟩
        intro hk; omega
      · simp at h
    | done a roots outs' =>
      simp only [settle] at h
      split at h
      · cases hfin : r.fin <;> simp [hfin] at h
        · obtain ⟨⟨rfl, _⟩, rfl⟩ := h; simp
        · split at h
          · simp at h; obtain ⟨⟨rfl, _⟩, rfl⟩ := h; simp
          · simp at h
      · simp at h
  · simp at h

/-- a panic is not a state change in the model either (the process is gone; nothing was committed) -/
theorem panic_state (f : Fixes) (s s' : HostState) (r : Request) (k : Nat) (site : Site)
    (h : handle f s r = (.panic k site, s')) : s' = s := by
  unfold handle at h
  split at h
  · simp at h; exact h.2.symm
  split at h
  · generalize execInstrs f r.pdLen r.rd r.prices r.duration { budget := r.budget, spent := r.initCost } s.roots 0 [] r.prog = eo at h
    cases eo with
    | panic k' s'' => simp [settle] at h; exact h.2.symm
    | failed k' a outs => simp only [settle] at h; split at h <;> simp at h; exact h.2.symm
    | done a roots outs =>
      simp only [settle] at h
      split at h
      · cases hfin : r.fin <;> simp [hfin] at h
        split at h
        · simp at h
        · simp at h; exact h.2.symm
      · simp at h
  · simp at h

/-- an accepted program is charged exactly what it spent, never more than its budget -/
theorem accept_charge (f : Fixes) (s s' : HostState) (r : Request) (outs : List (Option Nat))
    (h : handle f s r = (.accept outs, s')) : s'.balance ≤ s.balance ∧ s.balance - s'.balance ≤ r.budget := by
  unfold handle at h
  split at h
  · simp at h
  split at h
  · rename_i hadm
    have hinit : r.initCost ≤ r.budget := by
      simp only [admitted, Bool.and_eq_true, decide_eq_true_eq] at hadm; exact hadm.1.2
    have hacc := exec_acc f r.pdLen r.rd r.prices r.duration r.prog { budget := r.budget, spent := r.initCost } s.roots 0 []
      (by simpa using hinit) (by simp)
    generalize execInstrs f r.pdLen r.rd r.prices r.duration { budget := r.budget, spent := r.initCost } s.roots 0 [] r.prog = eo at h hacc
    cases eo with
    | panic k' s' => simp [settle] at h
    | failed k' a outs' => simp only [settle] at h; split at h <;> simp at h
    | done a roots outs' =>
      have := hacc.1 a roots outs' rfl
      simp at this
      simp only [settle] at h
      split at h
      · cases hfin : r.fin <;> simp [hfin] at h
        · obtain ⟨_, rfl⟩ := h; simp; omega
        · split at h <;> simp at h
      · simp at h; obtain ⟨_, rfl⟩ := h; simp; omega
  · simp at h

/-- non-vacuity: a two-instruction program whose second instruction (swap out of range) fails:
the append of the first instruction is discarded, the storage part is refunded -/
example :
    handle Fixes.none { rev := 6, roots := [1, 2, 3], balance := 1000 }
      { budget := 500, initCost := 1, hasContract := true, pdLen := SectorSize + 16,
        rd := rdOf [(SectorSize, 0), (SectorSize + 8, 9)],
        prog := [ { i := .appendSector 0 false, cost := 100, storage := 60 }, { i := .swapSector SectorSize (SectorSize + 8) false, cost := 7 } ] }
      = (.failed 1 [some 0], { rev := 6, roots := [1, 2, 3], balance := 1000 - (1 + 100 + 7 - 60) }) := by decide

example :
    (handle Fixes.none { rev := 6, roots := [1, 2, 3], balance := 1000 }
      { budget := 500, initCost := 1, hasContract := true, pdLen := SectorSize + 16,
        rd := rdOf [(SectorSize, 0), (SectorSize + 8, 3)],
        prog := [ { i := .appendSector 0 false, cost := 100, storage := 60 }, { i := .swapSector SectorSize (SectorSize + 8) false, cost := 7 } ] }).2
      = { rev := 7, roots := [1000, 2, 3, 1], balance := 1000 - 108 } := by decide

/-! ## 4. RHP2 handlers -/

theorem safe_append (a b : List Step) (ha : Safe a) (hb : Safe b) : Safe (a ++ b) := by
  induction a with
  | nil => simpa using hb
  | cons st r ih =>
    cases st <;> simp only [List.cons_append, Safe] at ha ⊢
    · intro h; exact ih (ha h)
    · exact ⟨ha.1, ih ha.2⟩
    · exact ⟨ha.1, ih ha.2⟩
    · exact ⟨ha.1, ih ha.2⟩
    · exact ih ha

theorem v2Pay_safe (f : Fixes) (hs : f.revisionSum = true) (p : V2Pay) : Safe (v2PaySteps f p) := by
  cases p <;> simp [v2PaySteps, hs, Safe]

/-- **slices_in_bounds (rpcSectorRoots, repaired).** `roots[start:end]` and the proof range are legal for all offsets and counts. -/
theorem slices_in_bounds_v2Roots (f : Fixes) (hf : f.v2Roots = true) (hs : f.revisionSum = true)
    (n off num : Nat) (hn : n < U64) (pay : V2Pay) (sigOk : Bool) :
    Safe ((v2RootsSteps f n off num pay sigOk).1 ++ (v2RootsSteps f n off num pay sigOk).2) := by
  cases pay <;>
    simp only [v2RootsSteps, v2PaySteps, hf, hs, Safe, if_true, List.cons_append, List.nil_append, List.append_nil,
      decide_eq_true_eq, rootRangeOK, Bool.or_eq_true, Bool.not_eq_true', Bool.or_eq_false_iff, decide_eq_false_iff_not,
      ne_eq, Bool.false_eq_true, false_imp_iff, implies_true] <;>
    simp only [wrap, U64, MaxInt] at * <;> safe_auto

theorem v2Roots_no_panic (f : Fixes) (hf : f.v2Roots = true) (hs : f.revisionSum = true)
    (n off num : Nat) (hn : n < U64) (pay : V2Pay) (sigOk : Bool) (s : Site) :
    v2Roots f n off num pay sigOk ≠ .panic s := by
  have hsafe := slices_in_bounds_v2Roots f hf hs n off num hn pay sigOk
  unfold v2Roots v2Class
  generalize v2RootsSteps f n off num pay sigOk = pp at hsafe
  obtain ⟨pre, post⟩ := pp
  simp only at hsafe ⊢
  -- `Safe (pre ++ post)`: a panic in `pre` is a panic of the whole, a panic in `post` happens behind `pre`
  have key : ∀ (pre : List Step) (a : Acc), Safe (pre ++ post) →
      (∀ s, run a pre ≠ .panic s) ∧ (∀ a', run a pre = .pass a' → Safe post) := by
    intro pre
    induction pre with
    | nil => intro a h; simp [run]; simpa using h
    | cons st r ih =>
      intro a h
      cases st with
      | guard ok =>
        cases ok with
        | true => simp only [List.cons_append, Safe] at h; simp only [run, if_true]; exact ih a (h trivial)
        | false => simp [run]
      | slice lo hi cap site =>
        simp only [List.cons_append, Safe] at h
        simp only [run, h.1, and_self, if_true]; exact ih a h.2
      | need ok site =>
        simp only [List.cons_append, Safe] at h
        simp only [run, h.1, if_true]; exact ih a h.2
      | mul p n site =>
        simp only [List.cons_append, Safe] at h
        simp only [run, h.1, if_true]; exact ih a h.2
      | pay c st =>
        simp only [List.cons_append, Safe] at h
        simp only [run]
        split
        · exact ih _ h
        · simp
  have hk := key pre { budget := 0 } hsafe
  split
  · rename_i s' heq; exact absurd heq (hk.1 s')
  · simp
  · rename_i a' heq
    have hp := hk.2 a' heq
    split
    · rename_i s' heq'; exact absurd heq' (run_no_panic _ hp _ s')
    · simp
    · simp

/-- the current `rpcSectorRoots` panics AFTER committing the payment revision when no roots are requested -/
theorem v2Roots_panics_zero : v2Roots Fixes.none 3 0 0 .ok true = .panic .rpcSectorRoots := by decide
/-- …while an offset near 2^64 is caught by the later MaxInt checks -/
example : v2Roots Fixes.none 3 (U64 - 1) 2 .ok true = .reject := by decide
example : v2Roots Fixes.none 3 0 2 .ok true = .accept := by decide
example : v2Roots Fixes.none 0 0 0 .ok true = .accept := by decide

/-- **partial (rpcSectorRoots as written)**: at least one root requested -/
theorem v2Roots_partial (n off num : Nat) (hn : n < U64) (hnum : num ≠ 0) (pay : V2Pay) (hpay : pay ≠ .sumOverflow) (sigOk : Bool) :
    Safe ((v2RootsSteps Fixes.none n off num pay sigOk).1 ++ (v2RootsSteps Fixes.none n off num pay sigOk).2) := by
  cases pay <;>
    simp only [v2RootsSteps, v2PaySteps, Fixes.none, Safe, if_true, List.cons_append, List.nil_append, List.append_nil,
      decide_eq_true_eq, rootRangeOK, Bool.or_eq_true, Bool.not_eq_true', Bool.or_eq_false_iff, decide_eq_false_iff_not,
      ne_eq, Bool.false_eq_true, false_imp_iff, implies_true, if_false] <;>
    simp only [wrap, U64, MaxInt] at * <;> (try contradiction) <;> safe_auto

/-- a section the host may slice -/
def SecOK (proof : Bool) (s : Section) : Prop :=
  s.off ≤ SectorSize ∧ s.len ≤ SectorSize - s.off ∧ s.len ≠ 0 ∧ (proof = true → s.off % LeafSize = 0 ∧ s.len % LeafSize = 0)

/-- **slices_in_bounds (rpcRead).**  `sector[off : off+len]` and `BuildProof` are legal for validated sections -/
theorem slices_in_bounds_v2Read (proof : Bool) (secs : List Section) (h : ∀ s ∈ secs, SecOK proof s) :
    Safe (v2ReadPost proof secs) := by
  induction secs with
  | nil => simp [v2ReadPost, Safe]
  | cons s r ih =>
    have hs := h s (by simp)
    have hr := ih (fun x hx => h x (by simp [hx]))
    obtain ⟨h1, h2, h3, h4⟩ := hs
    cases proof <;>
      simp only [v2ReadPost, Safe, List.cons_append, List.nil_append, if_true, if_false, Bool.false_eq_true,
        proofRangeOK, decide_eq_true_eq, Bool.or_eq_true, Bool.not_eq_true', Bool.or_eq_false_iff, decide_eq_false_iff_not] <;>
      simp only [wrap, U64, SectorSize, LeafSize, LeavesPerSector] at * <;>
      (try have h4' := h4 rfl) <;> (try have h4' := h4 trivial) <;>
      (intro _; refine ⟨?_, ?_⟩) <;> (try exact hr) <;> (try (refine ⟨?_, hr⟩)) <;> (try omega) <;> safe_auto

/-- with the repaired host-side check, passing the validation implies every section is sliceable -/
theorem v2ReadPre_pass (f : Fixes) (hf : f.v2Read = true) (proof : Bool) (secs : List Section) :
    ∀ (tail : List Step) (a a' : Acc), run a (v2ReadPre f proof secs ++ tail) = .pass a' → ∀ s ∈ secs, SecOK proof s := by
  induction secs with
  | nil => intro tail a a' _ s hs; simp at hs
  | cons x r ih =>
    intro tail a a' h s hs
    simp only [v2ReadPre, hf, if_true, List.cons_append, List.nil_append, List.append_assoc, run] at h
    split at h
    · rename_i g1
      split at h
      · rename_i g2
        split at h
        · rename_i g3
          split at h
          · rename_i g4
            simp only [List.mem_cons] at hs
            rcases hs with rfl | hs
            · simp only [decide_eq_true_eq, aligned, Bool.or_eq_true, Bool.not_eq_true', Bool.and_eq_true] at g1 g2 g3 g4
              refine ⟨g4.1, g4.2, g2, ?_⟩
              intro hp; subst hp; simpa using g3
            · exact ih tail a a' h s hs
          · simp at h
        · simp at h
      · simp at h
    · simp at h

theorem guards_safe_v2ReadPre (f : Fixes) (proof : Bool) (secs : List Section) : Safe (v2ReadPre f proof secs) := by
  induction secs with
  | nil => simp [v2ReadPre, Safe]
  | cons x r ih =>
    cases hf : f.v2Read <;>
    simp only [v2ReadPre, hf, Safe, List.cons_append, List.nil_append, if_true, if_false, Bool.false_eq_true] <;>
    (repeat' intro _) <;> exact ih

theorem v2Read_no_panic (f : Fixes) (hf : f.v2Read = true) (hs : f.revisionSum = true)
    (secs : List Section) (proof : Bool) (pay : V2Pay) (sigOk : Bool) (s : Site) :
    v2Read f secs proof pay sigOk ≠ .panic s := by
  unfold v2Read
  split; · simp
  unfold v2Class
  have hpre : Safe (v2ReadPre f proof secs ++ [Step.guard sigOk] ++ v2PaySteps f pay) := by
    apply safe_append
    · apply safe_append _ _ (guards_safe_v2ReadPre f proof secs); simp [Safe]
    · exact v2Pay_safe f hs pay
  split
  · rename_i s' heq; exact absurd heq (run_no_panic _ hpre _ s')
  · simp
  · rename_i a' heq
    have hok := v2ReadPre_pass f hf proof secs ([Step.guard sigOk] ++ v2PaySteps f pay) _ a' (by simpa [List.append_assoc] using heq)
    have hp := slices_in_bounds_v2Read proof secs hok
    split
    · rename_i s' heq'; exact absurd heq' (run_no_panic _ hp _ s')
    · simp
    · simp

/-- the current `rpcRead` relies on core's `offset+length > SectorSize`, which wraps -/
theorem v2Read_panics : v2Read Fixes.none [ { present := true, off := U64 - 64, len := 128 } ] true .ok true = .panic .rpcRead := by decide
example : v2Read Fixes.all [ { present := true, off := U64 - 64, len := 128 } ] true .ok true = .reject := by decide
example : v2Read Fixes.none [ { present := true, off := 0, len := 64 } ] true .ok true = .accept := by decide
example : v2Read Fixes.none [ { present := false, off := 0, len := 64 } ] true .ok true = .rejectPaid := by decide

/-- **partial (rpcRead as written)**: no section wraps -/
theorem v2ReadPre_pass_partial (proof : Bool) (secs : List Section) (hw : ∀ s ∈ secs, s.off + s.len < U64) :
    ∀ (tail : List Step) (a a' : Acc), run a (v2ReadPre Fixes.none proof secs ++ tail) = .pass a' → ∀ s ∈ secs, SecOK proof s := by
  induction secs with
  | nil => intro tail a a' _ s hs; simp at hs
  | cons x r ih =>
    intro tail a a' h s hs
    have hx := hw x (by simp)
    simp only [v2ReadPre, Fixes.none, if_false, Bool.false_eq_true, List.cons_append, List.nil_append, List.append_assoc, run] at h
    split at h
    · rename_i g1
      split at h
      · rename_i g2
        split at h
        · rename_i g3
          simp only [List.mem_cons] at hs
          rcases hs with rfl | hs
          · simp only [decide_eq_true_eq, aligned, Bool.or_eq_true, Bool.not_eq_true', Bool.and_eq_true] at g1 g2 g3
            simp only [SecOK, wrap, U64, SectorSize] at *
            refine ⟨by omega, by omega, g2, ?_⟩
            intro hp; subst hp; simpa using g3
          · exact ih (fun y hy => hw y (by simp [hy])) tail a a' h s hs
        · simp at h
      · simp at h
    · simp at h

/-- **slices_in_bounds (rpcWrite host loop)**: the host re-validates every index right before using it — true for the code as written -/
theorem slices_in_bounds_v2WriteLoop (acts : List WAction) : ∀ n, Safe (v2WriteLoop n acts) := by
  induction acts with
  | nil => intro n; simp [v2WriteLoop, Safe]
  | cons a r ih =>
    intro n
    cases a with
    | append dl => simp only [v2WriteLoop, List.cons_append, List.nil_append, Safe]; intro _; exact ih _
    | trim k =>
      simp only [v2WriteLoop, List.cons_append, List.nil_append, Safe, decide_eq_true_eq]
      intro _; exact ⟨by omega, ih _⟩
    | swap a b =>
      simp only [v2WriteLoop, List.cons_append, List.nil_append, Safe, decide_eq_true_eq, Bool.and_eq_true]
      intro _; exact ⟨by omega, by omega, ih _⟩
    | update idx off dl =>
      simp only [v2WriteLoop, List.cons_append, List.nil_append, Safe, decide_eq_true_eq]
      intro _; refine ⟨by omega, ?_⟩; intro _ _; refine ⟨by omega, ?_⟩; intro _; exact ⟨by omega, ih _⟩
    | unknown => simp [v2WriteLoop, Safe]

theorem guards_safe_v2WritePre (proof : Bool) (acts : List WAction) : ∀ n, Safe (v2WritePre proof n acts) := by
  induction acts with
  | nil => intro n; simp [v2WritePre, Safe]
  | cons a r ih =>
    intro n
    cases a <;> simp only [v2WritePre, List.cons_append, List.nil_append, Safe] <;> (repeat' intro _) <;>
      first | exact ih _ | trivial | simp_all

/-- **no_panic (rpcWrite, repaired)** -/
theorem v2Write_no_panic (f : Fixes) (hf : f.v2WriteUpdateProof = true) (hs : f.revisionSum = true)
    (n : Nat) (acts : List WAction) (proof : Bool) (pay : V2Pay) (sigOk : Bool) (s : Site) :
    v2Write f n acts proof pay sigOk ≠ .panic s := by
  unfold v2Write
  have hsafe : Safe (v2WriteSteps f n acts proof pay) := by
    unfold v2WriteSteps
    apply safe_append
    · apply safe_append
      · apply safe_append _ _ (guards_safe_v2WritePre proof acts n)
        split <;> simp [hf, Safe]
      · exact v2Pay_safe f hs pay
    · exact slices_in_bounds_v2WriteLoop acts n
  split
  · rename_i s' heq; exact absurd heq (run_no_panic _ hsafe _ s')
  · simp
  · split <;> (try split) <;> simp

/-- the current `rpcWrite`: an update action together with `MerkleProof = true` reaches
`sectorsChanged`'s `panic("unknown or unsupported action type")` in core via `RPCWriteCost` -/
theorem v2Write_panics_updateProof : v2Write Fixes.none 3 [.update 0 0 64] true .ok true = .panic .rpcWrite := by decide
example : v2Write Fixes.none 3 [.swap 0 9] true .ok true = .reject := by decide
example : v2Write Fixes.none 3 [.trim 9] true .ok true = .reject := by decide
example : v2Write Fixes.none 3 [.append SectorSize, .swap 0 3, .trim 2] true .ok true = .accept := by decide

/-- **partial (rpcWrite as written)**: no update action in a request that asks for a proof -/
theorem v2Write_partial (n : Nat) (acts : List WAction) (proof : Bool) (pay : V2Pay) (hpay : pay ≠ .sumOverflow)
    (h : (proof && hasUpdate acts) = false) : Safe (v2WriteSteps Fixes.none n acts proof pay) := by
  unfold v2WriteSteps
  apply safe_append
  · apply safe_append
    · apply safe_append _ _ (guards_safe_v2WritePre proof acts n)
      simp [h, Safe]
    · cases pay <;> simp_all [v2PaySteps, Safe, Fixes.none]
  · exact slices_in_bounds_v2WriteLoop acts n

/-- **no_panic (rpcFormContract, repaired)** -/
theorem v2Form_no_panic (f : Fixes) (hf : f.v2FormKeyLen = true) (txns fcs keyLen : Nat) (algOk : Bool) (s : Site) :
    v2Form f txns fcs keyLen algOk ≠ .panic s := by
  unfold v2Form
  have hsafe : Safe ([ Step.guard (decide (txns ≠ 0) && decide (fcs = 1)), .guard algOk ] ++
      (if f.v2FormKeyLen then [ Step.guard (decide (keyLen = 32)) ] else []) ++
      [ .need (decide (32 ≤ keyLen)) .rpcFormContract ]) := by
    simp only [hf, if_true, List.cons_append, List.nil_append, Safe, decide_eq_true_eq]
    intro _ _ h; exact ⟨by omega, trivial⟩
  simp only
  split
  · rename_i s' heq; exact absurd heq (run_no_panic _ hsafe _ s')
  · simp
  · simp

/-- the current `rpcFormContract` converts the renter key to a 32-byte array without checking its length -/
theorem v2Form_panics_shortKey : v2Form Fixes.none 1 1 5 true = .panic .rpcFormContract := by decide
example : v2Form Fixes.none 1 1 32 true = .either := by decide
example : v2Form Fixes.none 1 2 5 true = .reject := by decide

/-- the payment revision whose output sum exceeds 2^128 (validateStdRevision; owned by C07, reachable here) -/
theorem v2_sumOverflow_panics : v2Roots Fixes.none 3 0 1 .sumOverflow true = .panic .validateStdRevision := by decide
theorem payByContract_sumOverflow_panics :
    (handle Fixes.none { rev := 6, roots := [1], balance := 100 }
      { pay := .sumOverflow, budget := 50, hasContract := false, pdLen := 32, rd := rdOf [], prog := [ { i := .hasSector 0, cost := 10 } ] }).1
      = .panic 0 .validateStdRevision := by decide
theorem finalize_sumOverflow_panics :
    (handle Fixes.none { rev := 6, roots := [1], balance := 100 }
      { budget := 50, hasContract := true, pdLen := SectorSize, rd := rdOf [], prog := [ { i := .appendSector 0 false, cost := 10 } ],
        fin := .sumOverflow }).1 = .panic 1 .validateStdRevision := by decide

/-! ## 5. ContractUpdater -/

/-- **slices_in_bounds (ContractUpdater)** — holds for the code as written: every index is
checked against `len(cu.sectorRoots)` right before use -/
theorem slices_in_bounds_updater (n : Nat) (op : UOp) : Safe (updaterSteps n op) := by
  cases op <;> simp only [updaterSteps, Safe, decide_eq_true_eq, Bool.and_eq_true] <;> safe_auto

theorem updater_no_panic (roots : List Nat) (fresh : Nat) (op : UOp) (s : Site) :
    (updater roots fresh op).1 ≠ .panic s := by
  unfold updater
  split
  · simp
  · intro h; simp only at h
    exact run_no_panic _ (slices_in_bounds_updater roots.length op) _ s h

/-- **reject_noop (ContractUpdater)**: a rejected updater call leaves the private list as it was;
the manager's list is never touched before `Commit` (the updater is a value here, a deep copy in Go) -/
theorem updater_reject_noop (roots : List Nat) (fresh : Nat) (op : UOp) (a : Acc)
    (h : (updater roots fresh op).1 = .reject a) : (updater roots fresh op).2 = roots := by
  unfold updater at h ⊢
  split
  · rename_i a' heq; simp [heq] at h
  · rfl

example : updater [1, 2, 3] 9 (.swap 1 5) = (.reject { budget := 0 }, [1, 2, 3]) := by decide
example : updater [1, 2, 3] 9 (.swap 2 0) = (.pass { budget := 0 }, [3, 2, 1]) := by decide
example : updater [1, 2, 3] 9 (.trim 3) = (.pass { budget := 0 }, []) := by decide
example : updater [1, 2, 3] 9 (.trim 4) = (.reject { budget := 0 }, [1, 2, 3]) := by decide

/-! ## 6. registry access recorder -/

theorem recorder_no_panic (f : Fixes) (hf : f.regRecorder = true) (r w : Nat) : Safe (recorderFlush f r w) := by
  unfold recorderFlush; split <;> simp [Safe, hf]

/-- `registry.NewManager` never sets `recorder.store`: the first flush after any recorded access
(10 s ticker, or `Manager.Close`) dereferences a nil interface -/
theorem recorder_panics : run { budget := 0 } (recorderFlush Fixes.none 1 0) = .panic .recorderFlush := by decide
/-- partial: without recorded accesses the flush returns early -/
theorem recorder_partial (f : Fixes) : Safe (recorderFlush f 0 0) := by simp [recorderFlush, Safe]

/-! ## 7. cost multiplications in front of the operand validation -/

/-- **slices_in_bounds (costs)**: with unit prices below 2^40 H no renter-chosen uint64 operand overflows `Currency.Mul64` -/
theorem cost_no_panic (fn : CostFn) (p1 p2 arg : Nat) (h1 : p1 < 1099511627776) (h2 : p2 < 1099511627776) (ha : arg < U64) :
    Safe (costSteps fn p1 p2 arg) := by
  cases fn <;> simp only [costSteps, Safe] <;>
    first
      | exact ⟨mul_small h1 ha, mul_small h2 ha, trivial⟩
      | exact ⟨mul_small h1 ha, trivial⟩
      | exact ⟨mul_smallS h1, mul_small2 h1 ha, trivial⟩
      | exact ⟨mul_smallS h1, mul_small2 h1 ha, mul_smallS h2, mul_small2 h2 ha, trivial⟩

/-- an operator who configured a unit price of 2^65 H/byte makes `ReadOffsetCost(length)` panic on a renter-chosen length -/
theorem cost_panics_huge_price : run { budget := 0 } (costSteps .readOffset (2 * U64) 0 (U64 - 1)) = .panic .executeReadOffset := by decide

/-! ## 8. the other paid RHP3 RPCs: FundAccount, AccountBalance, LatestRevision, UpdatePriceTable -/

theorem payStage_safe (f : Fixes) (hs : f.revisionSum = true) (s : HostState) (r : PaidReq) : Safe (payStage f s r) := by
  unfold payStage
  apply safe_append
  · cases r.pay <;> simp [hs, Safe]
  · split <;> simp [Safe]

/-- **no_panic (FundAccount, AccountBalance, LatestRevision, UpdatePriceTable; repaired).**  For every
price-table id, payment mode, amount (including 0 and amounts below the cost of the RPC) no handler panics. -/
theorem paid_no_panic (f : Fixes) (hs : f.revisionSum = true) (hf : f.fundCost = true) (s : HostState) (r : PaidReq) (site : Site) :
    (paid f s r).1 ≠ .panic site := by
  have hp := payStage_safe f hs s r
  unfold paid
  cases r.rpc <;> simp only
  · -- fund
    have hsafe : Safe ([ Step.guard r.uidOk, .guard r.byContract ] ++ payStage f s r ++
        (if f.fundCost then [ Step.guard (decide (r.cost ≤ r.amount)) ]
         else [ .need (decide (r.cost ≤ r.amount)) .processFundAccountPayment ])) := by
      apply safe_append
      · apply safe_append _ _ _ hp; simp [Safe]
      · simp [hf, Safe]
    split
    · rename_i s' heq; exact absurd heq (run_no_panic _ hsafe _ s')
    · simp
    · simp
  · -- balance
    have hsafe : Safe ([ Step.guard r.uidOk ] ++ payStage f s r) := safe_append _ _ (by simp [Safe]) hp
    split
    · rename_i s' heq; exact absurd heq (run_no_panic _ hsafe _ s')
    · simp
    · unfold spendCost; split <;> simp
  · -- revision
    have hsafe : Safe ([ Step.guard r.uidOk ] ++ payStage f s r) := safe_append _ _ (by simp [Safe]) hp
    split; · simp
    split; · simp
    split
    · rename_i s' heq; exact absurd heq (run_no_panic _ hsafe _ s')
    · simp
    · simp
  · -- price table
    split
    · rename_i s' heq; exact absurd heq (run_no_panic _ hp _ s')
    · simp
    · unfold spendCost; split <;> simp

/-- the current `processFundAccountPayment`: a correctly signed contract revision that transfers less than
`FundAccountCost` (default 1 H: a zero transfer) reaches `totalAmount.Sub(pt.FundAccountCost)` -/
theorem fundAccount_panics :
    (paid { Fixes.all with fundCost := false } { rev := 6, roots := [1, 2, 3], balance := 100 }
      { rpc := .fund, byContract := true, amount := 0, cost := 1 }).1 = .panic .processFundAccountPayment := by decide

example : paid Fixes.all { rev := 6, roots := [1, 2, 3], balance := 100 } { rpc := .fund, byContract := true, amount := 0, cost := 1 }
    = (.reject, { rev := 6, roots := [1, 2, 3], balance := 100 }) := by decide
example : paid Fixes.none { rev := 6, roots := [1, 2, 3], balance := 100 } { rpc := .fund, byContract := true, amount := 50, cost := 1 }
    = (.accept, { rev := 7, roots := [1, 2, 3], balance := 149 }) := by decide

/-- **partial (FundAccount as written)**: the transfer covers the cost -/
theorem fundAccount_partial (f : Fixes) (hs : f.revisionSum = true) (s : HostState) (r : PaidReq) (hr : r.rpc = .fund)
    (hc : r.cost ≤ r.amount) (site : Site) : (paid f s r).1 ≠ .panic site := by
  have hp := payStage_safe f hs s r
  unfold paid
  rw [hr]; simp only
  have hsafe : Safe ([ Step.guard r.uidOk, .guard r.byContract ] ++ payStage f s r ++
      (if f.fundCost then [ Step.guard (decide (r.cost ≤ r.amount)) ]
       else [ .need (decide (r.cost ≤ r.amount)) .processFundAccountPayment ])) := by
    apply safe_append
    · apply safe_append _ _ _ hp; simp [Safe]
    · split <;> simp [Safe, hc]
  split
  · rename_i s' heq; exact absurd heq (run_no_panic _ hsafe _ s')
  · simp
  · simp

/-- **reject_noop (paid RPCs).**  A rejected request never touches the sector roots; paid from an
ephemeral account it leaves everything as it was; paid by contract, either nothing changed or exactly
the (valid, separately accepted) payment revision moved `amount` into the refund account. -/
theorem paid_reject_noop (f : Fixes) (s s' : HostState) (r : PaidReq) (h : paid f s r = (.reject, s')) :
    s'.roots = s.roots ∧ (r.byContract = false → s' = s) ∧
    (s' = s ∨ (r.byContract = true ∧ s'.rev = s.rev + 1 ∧ s'.balance = s.balance + r.amount)) := by
  unfold paid at h
  have hspend : ∀ t, spendCost s r = (.reject, t) →
      t.roots = s.roots ∧ (r.byContract = false → t = s) ∧
      (t = s ∨ (r.byContract = true ∧ t.rev = s.rev + 1 ∧ t.balance = s.balance + r.amount)) := by
    intro t ht
    unfold spendCost afterContractPayment at ht
    cases hb : r.byContract <;> simp [hb] at ht <;> split at ht <;> simp at ht <;> subst ht <;> simp
  cases hr : r.rpc <;> simp only [hr] at h
  · split at h <;> simp at h
    subst h; simp
  · split at h
    · simp at h
    · simp at h; subst h; simp
    · exact hspend s' h
  · split at h
    · simp at h; subst h; simp
    · split at h
      · simp at h
      · split at h <;> simp at h
  · split at h
    · simp at h
    · simp at h; subst h; simp
    · exact hspend s' h

/-- an accepted paid RPC costs an ephemeral account exactly `cost ≤ amount` and changes neither revision nor roots -/
theorem paid_accept_charge (f : Fixes) (s s' : HostState) (r : PaidReq) (hrpc : r.rpc = .balance ∨ r.rpc = .priceTable)
    (hb : r.byContract = false) (h : paid f s r = (.accept, s')) :
    s'.rev = s.rev ∧ s'.roots = s.roots ∧ s'.balance = s.balance - r.cost ∧ r.cost ≤ r.amount := by
  unfold paid at h
  rcases hrpc with hr | hr <;> simp only [hr] at h <;> split at h <;> (try simp at h) <;>
    (unfold spendCost afterContractPayment at h; simp [hb] at h; split at h <;> simp at h; subst h; simp; assumption)

/-! ## 9. contract renewal and formation: handleRPCRenew, rpcRenewAndClearContract, rpcFormContract -/

/-- **slices_in_bounds (RHP3 RPCRenewContract).**  For every transaction-set size, every number of file
contracts / revisions in its last transaction, every renter key and signature length and every output
count of the clearing revision and of the renewed contract, each index and each slice→array conversion
of `handleRPCRenew` (and of the validators it calls) sits behind a guard that makes it legal. -/
theorem slices_in_bounds_renew3 (f : Fixes) (r : RenewReq) : Safe (renew3Steps f r) := by
  cases hw : f.windowEndFits <;>
  simp only [renew3Steps, storableGuard, hw, clearingSteps, contractSteps, revSigSteps, Safe, List.cons_append, List.nil_append,
    decide_eq_true_eq, Bool.and_eq_true, ne_eq, if_true, if_false, Bool.false_eq_true] <;>
  safe_auto

/-- **slices_in_bounds (RHP2 RPCRenewAndClearContract).** -/
theorem slices_in_bounds_renew2 (f : Fixes) (r : RenewReq) : Safe (renew2Steps f r) := by
  cases hw : f.windowEndFits <;>
  simp only [renew2Steps, storableGuard, hw, clearingSteps, contractSteps, Safe, List.cons_append, List.nil_append,
    decide_eq_true_eq, Bool.and_eq_true, ne_eq, if_true, if_false, Bool.false_eq_true] <;>
  safe_auto

/-- **slices_in_bounds (RHP2 RPCFormContract, with the key-length check of 1ee75c4).** -/
theorem slices_in_bounds_form2 (f : Fixes) (hf : f.v2FormKeyLen = true) (r : RenewReq) : Safe (form2Steps f r) := by
  cases hw : f.windowEndFits <;>
  simp only [form2Steps, storableGuard, hw, contractSteps, revSigSteps, hf, if_true, if_false, Bool.false_eq_true, Safe, List.cons_append, List.nil_append,
    decide_eq_true_eq, Bool.and_eq_true, ne_eq] <;>
  safe_auto

/-- **no_panic (renewal and formation handlers).** -/
theorem renew_no_panic (f : Fixes) (hf : f.v2FormKeyLen = true) (k : RenewKind) (s : HostState) (r : RenewReq) (site : Site) :
    (renew f k s r).1 ≠ .panic site := by
  have hsafe : Safe (renewSteps f k r) := by
    cases k
    · exact slices_in_bounds_renew3 f r
    · exact slices_in_bounds_renew2 f r
    · exact slices_in_bounds_form2 f hf r
  unfold renew
  split
  · rename_i s' heq; exact absurd heq (run_no_panic _ hsafe _ s')
  · simp
  · split <;> simp

/-- **reject_noop (renewal and formation).**  A rejected renewal or formation leaves revision, sector
roots and balance of the contract exactly as they were. -/
theorem renew_reject_noop (f : Fixes) (k : RenewKind) (s s' : HostState) (r : RenewReq)
    (h : renew f k s r = (.reject, s')) : s' = s := by
  unfold renew at h
  split at h
  · simp at h
  · simp at h; exact h.symm
  · split at h <;> simp at h

/-- an accepted request passed every guard: in particular the renter key is an ed25519 key of exactly 32 bytes
and the revision signature has exactly 64 bytes (the conversions cannot be reached otherwise) -/
theorem renew3_accept_key (f : Fixes) (s s' : HostState) (r : RenewReq) (h : renew f .renew3 s r = (.accept, s')) :
    r.algOk = true ∧ r.keyLen = 32 ∧ r.txns ≠ 0 ∧ r.fcs = 1 ∧ r.revs = 1 := by
  unfold renew at h
  split at h
  · simp at h
  · simp at h
  rename_i a heq
  simp only [renewSteps, renew3Steps, List.cons_append, run] at heq
  by_cases h1 : r.readable = true <;> simp [h1] at heq
  by_cases h2 : r.txns = 0 <;> simp [h2] at heq
  by_cases h3 : r.fcs = 1 <;> simp [h3] at heq
  by_cases h4 : r.revs = 1 <;> simp [h4] at heq
  by_cases h5 : r.algOk = true ∧ r.keyLen = 32
  · exact ⟨h5.1, h5.2, h2, h3, h4⟩
  · have : ¬ (r.algOk = true ∧ r.keyLen = 32) := h5
    rw [if_neg this] at heq
    simp at heq

/-- what the guard is for: with `&&` in place of `||` in handleRPCRenew's key check (a 5-byte ed25519 key
passes) the conversion `*(*types.PublicKey)(req.RenterKey.Key)` is reached and panics -/
example : run { budget := 0 }
    [ Step.guard (true || decide ((5 : Nat) = 32)), .need (decide (32 ≤ (5 : Nat))) .handleRPCRenew ] = .panic .handleRPCRenew := by decide

example : (renew Fixes.all .renew3 { rev := 6, roots := [1, 2, 3], balance := 10 } {}).1 = .accept := by decide
example : renew Fixes.all .renew3 { rev := 6, roots := [1, 2, 3], balance := 10 } { keyLen := 5 }
    = (.reject, { rev := 6, roots := [1, 2, 3], balance := 10 }) := by decide
example : (renew Fixes.all .renew2 { rev := 6, roots := [1, 2, 3], balance := 10 } { clrValid := 3 }).1 = .reject := by decide
example : (renew Fixes.all .renew3 { rev := 6, roots := [1, 2, 3], balance := 10 } { txns := 0 }).1 = .reject := by decide
example : (renew Fixes.all .form2 { rev := 6, roots := [1, 2, 3], balance := 10 } { fcMissed := 2 }).1 = .reject := by decide
/-- before 1ee75c4 `rpcFormContract` converted a short key -/
example : (renew Fixes.none .form2 { rev := 6, roots := [1, 2, 3], balance := 10 } { keyLen := 5 }).1 = .panic .rpcFormContract := by decide

/-! ## 10. rollback: the refund arithmetic of `programExecutor.rollback` (cost vs usage buckets)

`payForExecution` adds an instruction's cost to `pe.cost` and its usage to the budget.  For sector
instructions `cost.Storage` is booked as `usage.StorageRevenue`; registry instructions book it as
`RegistryRead`/`RegistryWrite`.  `rollback()` refunds `pe.usage.StorageRevenue`; `budget.Refund`
subtracts per bucket and panics on underflow. -/

/-- **rollback_no_panic.**  With the refund taken from the usage bucket (the code as written) the
rollback branch never panics, whatever program prefix ran and whatever the instructions announced. -/
theorem rollback_no_panic (f : Fixes) (hr : f.rollbackRefundsUsage = true) (s : HostState) (r : Request)
    (k : Nat) (a : Acc) (outs : List (Option Nat)) (k' : Nat) (site : Site) :
    (settle f s r (.failed k a outs)).1 ≠ .panic k' site := by
  simp [settle, refundOf, hr]

/-- for every program and every instruction at which it fails: refund ≤ StorageRevenue bucket ≤ spent ≤ budget -/
theorem rollback_refund_le_spent (f : Fixes) (hr : f.rollbackRefundsUsage = true) (r : Request) (roots : List Nat)
    (hinit : r.initCost ≤ r.budget) (k : Nat) (a : Acc) (outs : List (Option Nat))
    (h : execInstrs f r.pdLen r.rd r.prices r.duration { budget := r.budget, spent := r.initCost } roots 0 [] r.prog = .failed k a outs) :
    refundOf f a ≤ a.storage ∧ a.storage ≤ a.spent ∧ a.spent ≤ r.budget := by
  have hacc := (exec_acc f r.pdLen r.rd r.prices r.duration r.prog { budget := r.budget, spent := r.initCost } roots 0 []
    (by simpa using hinit) (by simp)).2 k a outs h
  simp at hacc
  simp only [refundOf, hr, if_true]
  omega

/-- **accounting clause of reject_noop, exact form.**  A program that failed at instruction `k` is charged
what ran minus the refund: the balance drops by `spent - refund` of the accumulator at the failure. -/
theorem failed_charge_exact (f : Fixes) (s s' : HostState) (r : Request) (k : Nat) (outs : List (Option Nat))
    (h : handle f s r = (.failed k outs, s')) (hk : k < r.prog.length ∨ needsFinalization r.prog = false) :
    ∃ a, execInstrs f r.pdLen r.rd r.prices r.duration { budget := r.budget, spent := r.initCost } s.roots 0 [] r.prog = .failed k a outs ∧
      s'.balance = s.balance - (a.spent - refundOf f a) ∧ refundOf f a ≤ a.storage := by
  unfold handle at h
  split at h
  · simp at h
  split at h
  · rename_i hadm
    have hinit : r.initCost ≤ r.budget := by
      simp only [admitted, Bool.and_eq_true, decide_eq_true_eq] at hadm; exact hadm.1.2
    have hacc := exec_acc f r.pdLen r.rd r.prices r.duration r.prog { budget := r.budget, spent := r.initCost } s.roots 0 []
      (by simpa using hinit) (by simp)
    generalize hgen : execInstrs f r.pdLen r.rd r.prices r.duration { budget := r.budget, spent := r.initCost } s.roots 0 [] r.prog = eo at h hacc
    cases eo with
    | panic k' s' => simp [settle] at h
    | failed k' a outs' =>
      simp only [settle] at h
      split at h
      · rename_i href
        simp at h
        obtain ⟨⟨rfl, rfl⟩, rfl⟩ := h
        exact ⟨a, rfl, rfl, href⟩
      · simp at h
    | done a roots outs' =>
      have hd := hacc.1 a roots outs' rfl
      simp only [settle] at h
      split at h
      · rename_i hfin
        rcases hk with hk | hk
        · cases hfr : r.fin <;> simp [hfr] at h
          · omega
          · split at h <;> simp at h; omega
        · simp [hk] at hfin
      · simp at h
  · simp at h

/-- the variant that refunds the announced `pe.cost.Storage`: a single paid ReadRegistry of a key that was never
written (no contract, paid from an account) fails after payment; its storage cost sits in the RegistryRead bucket,
the StorageRevenue bucket is empty, `budget.Refund` underflows in the deferred rollback -/
theorem refund_announced_panics :
    (handle { Fixes.all with rollbackRefundsUsage := false } { rev := 6, roots := [1, 2, 3], balance := 1000 }
      { budget := 500, initCost := 1, hasContract := false, pdLen := 80, rd := rdOf [],
        prog := [ { i := .readRegistry 32 48 0 1 true false, cost := 100, storage := 0, cstorage := 40 } ] }).1
      = .panic 0 .rollback := by decide

/-- the code as written charges the same request for what ran (nothing is refundable) -/
example :
    handle Fixes.all { rev := 6, roots := [1, 2, 3], balance := 1000 }
      { budget := 500, initCost := 1, hasContract := false, pdLen := 80, rd := rdOf [],
        prog := [ { i := .readRegistry 32 48 0 1 true false, cost := 100, storage := 0, cstorage := 40 } ] }
      = (.failed 0 [], { rev := 6, roots := [1, 2, 3], balance := 1000 - 101 }) := by decide

/-- for sector instructions the two buckets coincide, so both variants refund the same amount -/
example :
    handle { Fixes.all with rollbackRefundsUsage := false } { rev := 6, roots := [1, 2, 3], balance := 1000 }
      { budget := 500, initCost := 1, hasContract := true, pdLen := SectorSize + 16, rd := rdOf [(SectorSize, 0), (SectorSize + 8, 9)],
        prog := [ { i := .appendSector 0 false, cost := 100, storage := 60, cstorage := 60 }, { i := .swapSector SectorSize (SectorSize + 8) false, cost := 7 } ] }
      = (.failed 1 [some 0], { rev := 6, roots := [1, 2, 3], balance := 1000 - (1 + 100 + 7 - 60) }) := by decide

/-! ## 11. a rejected renewal / formation has not been broadcast -/

/-- a run that passes has passed every guard on its way -/
theorem run_pass_guards (l : List Step) : ∀ (a a' : Acc), run a l = .pass a' → ∀ g, Step.guard g ∈ l → g = true := by
  induction l with
  | nil => intro a a' _ g hg; simp at hg
  | cons st r ih =>
    intro a a' h g hg
    cases st with
    | guard ok =>
      cases ok with
      | true =>
        simp only [run, if_true] at h
        rcases List.mem_cons.mp hg with hg | hg
        · injection hg
        · exact ih a a' h g hg
      | false => simp [run] at h
    | slice lo hi cap site =>
      simp only [run] at h
      split at h
      · rcases List.mem_cons.mp hg with hg | hg
        · cases hg
        · exact ih a a' h g hg
      · simp at h
    | need ok site =>
      cases ok with
      | true =>
        simp only [run, if_true] at h
        rcases List.mem_cons.mp hg with hg | hg
        · cases hg
        · exact ih a a' h g hg
      | false => simp [run] at h
    | mul p n site =>
      simp only [run] at h
      split at h
      · rcases List.mem_cons.mp hg with hg | hg
        · cases hg
        · exact ih a a' h g hg
      · simp at h
    | pay c st =>
      simp only [run] at h
      split at h
      · rcases List.mem_cons.mp hg with hg | hg
        · cases hg
        · exact ih _ a' h g hg
      · simp at h

/-- **reject_noop (broadcast).**  With the window-end check in the handlers, a renewal or formation is never
answered with an error after its transaction set went to the pool: whatever is broadcast is also recorded. -/
theorem renew_no_reject_after_broadcast (f : Fixes) (hw : f.windowEndFits = true) (k : RenewKind) (s : HostState) (r : RenewReq) :
    (renew f k s r).1 ≠ .rejectBroadcast := by
  unfold renew
  split
  · simp
  · simp
  · rename_i a heq
    have hmem : Step.guard r.storable ∈ renewSteps f k r := by
      cases k <;> simp [renewSteps, renew3Steps, renew2Steps, form2Steps, storableGuard, hw]
    have hst : r.storable = true := run_pass_guards _ _ _ heq _ hmem
    simp [hst]

/-- the handlers as written: an empty contract renewed (or a contract formed) with `WindowEnd = 2^64-1` passes every
validator (no file size, so no base cost), the transaction set is broadcast, and `RenewContract`/`AddContract`
then fails in the store ("uint64 values with high bit set are not supported"): the renter gets an error, the host
keeps the old contract, the chain gets the renewal -/
theorem renew_reject_after_broadcast_witness :
    (renew { Fixes.all with windowEndFits := false } .renew3 { rev := 6, roots := [], balance := 10 } { storable := false }).1 = .rejectBroadcast := by
  decide

example : (renew Fixes.all .renew3 { rev := 6, roots := [], balance := 10 } { storable := false }).1 = .reject := by decide
example : (renew Fixes.all .form2 { rev := 6, roots := [], balance := 10 } { storable := false }).1 = .reject := by decide

end Hostd.Mdm
