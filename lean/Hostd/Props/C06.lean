import Hostd.Lemmas.ChainAlg
/-!
C06 — Lifecycle actions are exactly those the chain position requires.

The seven `sel*` predicates of `Model/Chain.lean` transcribe the WHERE clauses of
`Store.ContractActions`.  On every row satisfying the reachable-state row invariant `RowInv`
(proved to hold along every well-formed history in `Props/C01.lean`: `C01_rowInv`) they select
exactly the contracts the property names, stated in terms of the contract's status.
-/
namespace Hostd.Chain

/-- what every reachable contract row satisfies (columns agree with the status) -/
structure RowInv (c : Contract) : Prop where
  conf_iff : c.confirmed = true ↔ (c.status = .active ∨ c.status = .successful ∨ c.status = .failed ∨ c.status = .renewed)
  res1 : c.ver = .v1 → (c.resH.isSome = true ↔ c.status = .successful)
  res2 : c.ver = .v2 → (c.resH.isSome = true ↔ (c.status = .successful ∨ c.status = .failed ∨ c.status = .renewed))
  elem2 : c.ver = .v2 → (c.confRev.isSome = true ↔ c.confirmed = true)
  no_renew1 : c.ver = .v1 → c.status ≠ .renewed

/-- the latest revision the host signed is not the one recorded on chain -/
def revisionPending (c : Contract) : Prop := c.confRev ≠ some c.rev

theorem rebroadcast1_exact (c : Contract) (hr : RowInv c) :
    selRebroadcast1 c = true ↔ c.ver = .v1 ∧ c.status = .pending := by
  have := hr.conf_iff
  unfold selRebroadcast1
  cases hs : c.status <;> cases hc : c.confirmed <;> simp_all

theorem rebroadcast2_exact (c : Contract) (hr : RowInv c) :
    selRebroadcast2 c = true ↔ c.ver = .v2 ∧ c.status = .pending := by
  have := hr.conf_iff
  unfold selRebroadcast2
  cases hs : c.status <;> cases hc : c.confirmed <;> simp_all

/-- v1: confirmed (any post-confirmation status), latest revision not on chain, window opens within the buffer -/
theorem revision1_exact (c : Contract) (h buf : Nat) (hr : RowInv c) :
    selRevision1 h buf c = true ↔
      c.ver = .v1 ∧ (c.status = .active ∨ c.status = .successful ∨ c.status = .failed) ∧
      revisionPending c ∧ h ≤ c.wStart ∧ c.wStart ≤ h + buf := by
  have h1 := hr.conf_iff
  have h2 := hr.no_renew1
  unfold selRevision1 revisionPending
  cases hv : c.ver <;> cases hs : c.status <;> cases hc : c.confirmed <;> simp_all <;> (try (constructor <;> (intro hx; (try (refine ⟨?_, ?_⟩)) <;> (try omega) <;> simp_all)))

/-- v2: confirmed and unresolved, latest revision not on chain, proof height within the buffer -/
theorem revision2_exact (c : Contract) (h buf : Nat) (hr : RowInv c) :
    selRevision2 h buf c = true ↔
      c.ver = .v2 ∧ c.status = .active ∧ revisionPending c ∧ h ≤ c.wStart ∧ c.wStart ≤ h + buf := by
  have h1 := hr.conf_iff
  have h2 := hr.res2
  have h3 := hr.elem2
  unfold selRevision2 revisionPending
  cases hv : c.ver <;> cases hs : c.status <;> cases hc : c.confirmed <;> cases hres : c.resH <;>
    cases he : c.confRev <;> simp_all <;> (try (constructor <;> (intro hx; (try (refine ⟨?_, ?_⟩)) <;> (try omega) <;> simp_all)))

/-- v1: a failed contract has `resolution_height = NULL`, so the query relies on the chain position:
a missed resolution sits in block `window_end`, hence `wEnd ≤ h` whenever the status is failed. -/
theorem proof1_exact (c : Contract) (h : Nat) (hr : RowInv c) (hfail : c.status = .failed → c.wEnd ≤ h) :
    selProof1 h c = true ↔ c.ver = .v1 ∧ c.status = .active ∧ c.wStart ≤ h ∧ h < c.wEnd := by
  have h1 := hr.conf_iff
  have h2 := hr.res1
  have h3 := hr.no_renew1
  unfold selProof1
  cases hv : c.ver <;> cases hs : c.status <;> cases hc : c.confirmed <;> cases hres : c.resH <;> simp_all <;> (try omega)

theorem proof2_exact (c : Contract) (h : Nat) (hr : RowInv c) :
    selProof2 h c = true ↔ c.ver = .v2 ∧ c.status = .active ∧ c.wStart ≤ h ∧ h < c.wEnd := by
  have h1 := hr.conf_iff
  have h2 := hr.res2
  have h3 := hr.elem2
  unfold selProof2
  cases hv : c.ver <;> cases hs : c.status <;> cases hc : c.confirmed <;> cases hres : c.resH <;>
    cases he : c.confRev <;> simp_all

theorem expire2_exact (c : Contract) (h : Nat) (hr : RowInv c) :
    selExpire2 h c = true ↔ c.ver = .v2 ∧ c.status = .active ∧ c.wEnd ≤ h := by
  have h1 := hr.conf_iff
  have h2 := hr.res2
  have h3 := hr.elem2
  unfold selExpire2
  cases hv : c.ver <;> cases hs : c.status <;> cases hc : c.confirmed <;> cases hres : c.resH <;>
    cases he : c.confRev <;> simp_all

/-- a selection returns exactly the ids of the stored contracts satisfying its predicate -/
theorem selIds_exact (p : Contract → Bool) (cs : List Contract) (id : Nat) :
    id ∈ selIds p cs ↔ ∃ c ∈ cs, p c = true ∧ c.id = id := by
  simp only [selIds, List.mem_map, List.mem_filter]
  constructor
  · rintro ⟨a, ⟨h1, h2⟩, h3⟩; exact ⟨a, h1, h2, h3⟩
  · rintro ⟨a, h1, h2, h3⟩; exact ⟨a, ⟨h1, h2⟩, h3⟩

/-- **C06** at a tip `h` with submission buffer `buf`: every lifecycle selection over a store whose
rows satisfy the row invariant (and whose failed v1 contracts are past their window, as on any
chain) is exactly the set the property names. -/
theorem C06_actions_exact (cs : List Contract) (h buf : Nat) (hall : ∀ c ∈ cs, RowInv c)
    (hfail : ∀ c ∈ cs, c.status = .failed → c.wEnd ≤ h) (id : Nat) :
    (id ∈ selIds selRebroadcast1 cs ↔ ∃ c ∈ cs, c.id = id ∧ c.ver = .v1 ∧ c.status = .pending) ∧
    (id ∈ selIds (selProof1 h) cs ↔ ∃ c ∈ cs, c.id = id ∧ c.ver = .v1 ∧ c.status = .active ∧ c.wStart ≤ h ∧ h < c.wEnd) ∧
    (id ∈ selIds selRebroadcast2 cs ↔ ∃ c ∈ cs, c.id = id ∧ c.ver = .v2 ∧ c.status = .pending) ∧
    (id ∈ selIds (selRevision2 h buf) cs ↔ ∃ c ∈ cs, c.id = id ∧ c.ver = .v2 ∧ c.status = .active ∧ revisionPending c ∧ h ≤ c.wStart ∧ c.wStart ≤ h + buf) ∧
    (id ∈ selIds (selProof2 h) cs ↔ ∃ c ∈ cs, c.id = id ∧ c.ver = .v2 ∧ c.status = .active ∧ c.wStart ≤ h ∧ h < c.wEnd) ∧
    (id ∈ selIds (selExpire2 h) cs ↔ ∃ c ∈ cs, c.id = id ∧ c.ver = .v2 ∧ c.status = .active ∧ c.wEnd ≤ h) := by
  refine ⟨?_, ?_, ?_, ?_, ?_, ?_⟩ <;> rw [selIds_exact] <;> constructor <;> rintro ⟨c, hc, h1, h2⟩
  · exact ⟨c, hc, h2, (rebroadcast1_exact c (hall c hc)).mp h1⟩
  · exact ⟨c, hc, (rebroadcast1_exact c (hall c hc)).mpr h2, h1⟩
  · exact ⟨c, hc, h2, (proof1_exact c h (hall c hc) (hfail c hc)).mp h1⟩
  · exact ⟨c, hc, (proof1_exact c h (hall c hc) (hfail c hc)).mpr h2, h1⟩
  · exact ⟨c, hc, h2, (rebroadcast2_exact c (hall c hc)).mp h1⟩
  · exact ⟨c, hc, (rebroadcast2_exact c (hall c hc)).mpr h2, h1⟩
  · exact ⟨c, hc, h2, (revision2_exact c h buf (hall c hc)).mp h1⟩
  · exact ⟨c, hc, (revision2_exact c h buf (hall c hc)).mpr h2, h1⟩
  · exact ⟨c, hc, h2, (proof2_exact c h (hall c hc)).mp h1⟩
  · exact ⟨c, hc, (proof2_exact c h (hall c hc)).mpr h2, h1⟩
  · exact ⟨c, hc, h2, (expire2_exact c h (hall c hc)).mp h1⟩
  · exact ⟨c, hc, (expire2_exact c h (hall c hc)).mpr h2, h1⟩

/-! ### non-vacuity -/
def exRow : Contract := { id := 4, ver := .v2, status := .active, confirmed := true, confH := some 3,
                          rev := 5, confRev := some 2, wStart := 20, wEnd := 30 }
example : RowInv exRow := by
  constructor <;> simp [exRow]
example : selRevision2 18 3 exRow = true ∧ selProof2 25 exRow = true ∧ selExpire2 30 exRow = true := by decide

end Hostd.Chain
