import Hostd.Lemmas.ChainAlg
import Hostd.Lemmas.ChainProj
import Hostd.Props.C06
/-!
C01 — Contract chain state is a function of the best chain.

Per-contract theorems (the model's Apply/RevertContracts act on each contract through
`evApply`/`evRevert`, RejectContracts through `rejectC`; see `Model/Chain.lean`):

* `C01_best_chain`  for every well-formed history of block connections and disconnections (any
  length, any reorg pattern, crossing the same block any number of times) processing never faults
  and the contract's row equals, modulo the one-way rejection, the row obtained by processing only
  the blocks of the resulting best chain, in order, without the rejection rule;
* `C01_rowInv`      every such row satisfies the row invariant C06 relies on;
* `C01_revert_undoes_apply`  disconnecting a block undoes exactly what connecting it did;
* `C01_rejection_rule`  after a block at height `h ≥ rb` is connected an unconfirmed contract with
  `neg < h - rb` is rejected, and a rejected contract becomes active when its formation confirms.
-/
namespace Hostd.Chain

/-- forget the one-way rejection -/
def norm (c : Contract) : Contract := { c with status := clsOf c.status }

/-- chain-consistent row of the specification (which never rejects) -/
structure Good (c : Contract) : Prop where
  not_rejected : c.status ≠ .rejected
  pend : c.status = .pending → c.confirmed = false ∧ c.resH = none ∧ (c.ver = .v2 → c.confH = none ∧ c.confRev = none)
  conf : c.status ≠ .pending → c.confirmed = true
  act : c.status = .active → c.resH = none
  elem2 : c.ver = .v2 → c.status ≠ .pending → c.confRev.isSome = true
  v1 : c.ver = .v1 → c.status ≠ .renewed ∧ c.confH = none
  res1 : c.ver = .v1 → (c.resH.isSome = true ↔ c.status = .successful)
  res2 : c.ver = .v2 → (c.resH.isSome = true ↔ (c.status = .successful ∨ c.status = .failed ∨ c.status = .renewed))

/-- a contract as `AddContract`/`AddV2Contract` stores it -/
def Fresh (c : Contract) : Prop :=
  c.status = .pending ∧ c.confirmed = false ∧ c.confH = none ∧ c.resH = none ∧ (c.ver = .v2 → c.confRev = none)

theorem fresh_good {c : Contract} (h : Fresh c) : Good c := by
  obtain ⟨h1, h2, h3, h4, h5⟩ := h
  constructor <;> simp_all

/-- the spec: process the blocks of the chain (top of the list = tip), oldest first, no rejection -/
def specTop (c0 : Contract) : List (Nat × List Ev) → Except Fault Contract
  | [] => .ok c0
  | (h, es) :: below => do
      let X ← specTop c0 below
      evsApply codeTable h X es

/-- every block of the chain carries events consensus can emit at that point -/
def WFstack (c0 : Contract) : List (Nat × List Ev) → Prop
  | [] => True
  | (_, es) :: below => WFstack c0 below ∧ ∃ X, specTop c0 below = .ok X ∧ evsValid X es = true

/-! ### one-step lemmas (finite case analysis over the table) -/

theorem evApply_good {X : Contract} {e : Ev} (h : Nat) (hg : Good X) (hv : evValid X e = true) :
    ∃ X', evApply codeTable h X e = .ok X' ∧ Good X' := by
  obtain ⟨id, ver, status, confirmed, confH, resH, rev, confRev, neg, wStart, wEnd, locked, usage⟩ := X
  obtain ⟨g1, g2, g3, g4, g5, g6, g7, g8⟩ := hg
  cases e <;> cases ver <;> cases status <;> simp [evValid] at hv <;>
    simp [evApply, fireC, codeTable, colBool, colOpt, setRev] <;>
    (constructor <;> simp_all)

theorem evApply_congr {c X : Contract} {e : Ev} (h : Nat) (hn : norm c = norm X) (hg : Good X)
    (hv : evValid X e = true) :
    ∃ c1 X1, evApply codeTable h c e = .ok c1 ∧ evApply codeTable h X e = .ok X1 ∧ norm c1 = norm X1 := by
  obtain ⟨id, ver, status, confirmed, confH, resH, rev, confRev, neg, wStart, wEnd, locked, usage⟩ := X
  obtain ⟨id', ver', status', confirmed', confH', resH', rev', confRev', neg', wStart', wEnd', locked', usage'⟩ := c
  simp only [norm, Contract.mk.injEq] at hn
  obtain ⟨rfl, rfl, hst, rfl, rfl, rfl, rfl, rfl, rfl, rfl, rfl, rfl, rfl⟩ := hn
  cases e <;> cases ver' <;> cases status <;> simp [evValid] at hv <;>
    cases status' <;> simp [clsOf] at hst <;>
    simp [evApply, fireC, codeTable, colBool, colOpt, setRev, norm, clsOf]

theorem rejectC_norm {c X : Contract} (height : Nat) (hn : norm c = norm X) (hg : Good X) :
    ∃ c2, rejectC codeTable height c = .ok c2 ∧ norm c2 = norm X := by
  obtain ⟨id, ver, status, confirmed, confH, resH, rev, confRev, neg, wStart, wEnd, locked, usage⟩ := X
  obtain ⟨id', ver', status', confirmed', confH', resH', rev', confRev', neg', wStart', wEnd', locked', usage'⟩ := c
  simp only [norm, Contract.mk.injEq] at hn
  obtain ⟨rfl, rfl, hst, rfl, rfl, rfl, rfl, rfl, rfl, rfl, rfl, rfl, rfl⟩ := hn
  obtain ⟨g1, g2, g3, g4, g5, g6, g7, g8⟩ := hg
  unfold rejectC
  split
  · rename_i hsel
    cases ver' <;> cases status <;> cases status' <;> simp [clsOf] at hst <;>
      simp_all [rejectSel, fireC, codeTable, colBool, colOpt, norm, clsOf]
  · exact ⟨_, rfl, by simp [norm, hst]⟩

theorem evRevert_inverts {c X' X : Contract} {e e' : Ev} (h : Nat) (hg : Good X') (hv : evValid X' e = true)
    (ha : evApply codeTable h X' e = .ok X) (hn : norm c = norm X) (hm : evMatch X' e e' = true) :
    ∃ c', evRevert codeTable h c e' = .ok c' ∧ norm c' = norm X' := by
  obtain ⟨id, ver, status, confirmed, confH, resH, rev, confRev, neg, wStart, wEnd, locked, usage⟩ := X'
  obtain ⟨g1, g2, g3, g4, g5, g6, g7, g8⟩ := hg
  cases e <;> cases e' <;> simp [evMatch] at hm <;>
    cases ver <;> cases status <;> simp [evValid] at hv <;>
    simp [evApply, fireC, codeTable, colBool, colOpt, setRev] at ha <;> subst ha <;>
    (obtain ⟨id', ver', status', confirmed', confH', resH', rev', confRev', neg', wStart', wEnd', locked', usage'⟩ := c
     simp only [norm, Contract.mk.injEq] at hn
     obtain ⟨rfl, rfl, hst, rfl, rfl, rfl, rfl, rfl, rfl, rfl, rfl, rfl, rfl⟩ := hn
     cases status' <;> simp [clsOf] at hst <;>
       simp_all [evRevert, fireC, codeTable, colBool, colOpt, setRev, norm, clsOf])

/-! ### the same for the (at most two) events of one block -/

theorem evsValid_cases {X : Contract} {es : List Ev} (hv : evsValid X es = true) :
    es = [] ∨ (∃ e, es = [e] ∧ evValid X e = true) ∨
    (∃ n r, es = [.revise n, r] ∧ (r = .succ ∨ r = .renew) ∧ X.status = .active ∧ X.ver = .v2) := by
  match es with
  | [] => exact Or.inl rfl
  | [e] => exact Or.inr (Or.inl ⟨e, rfl, by simpa [evsValid] using hv⟩)
  | [e1, e2] =>
    cases e1 <;> cases e2 <;> simp [evsValid] at hv
    · exact Or.inr (Or.inr ⟨_, _, rfl, Or.inl rfl, hv.1, hv.2⟩)
    · exact Or.inr (Or.inr ⟨_, _, rfl, Or.inr rfl, hv.1, hv.2⟩)
  | e1 :: e2 :: e3 :: rest => cases e1 <;> cases e2 <;> simp [evsValid] at hv

theorem evsApply_good {X : Contract} {es : List Ev} (h : Nat) (hg : Good X) (hv : evsValid X es = true) :
    ∃ X', evsApply codeTable h X es = .ok X' ∧ Good X' := by
  rcases evsValid_cases hv with rfl | ⟨e, rfl, hv1⟩ | ⟨n, r, rfl, hr, hst, hver⟩
  · exact ⟨X, rfl, hg⟩
  · obtain ⟨X', hX', hg'⟩ := evApply_good h hg hv1
    exact ⟨X', by rw [evsApply_single, hX'], hg'⟩
  · obtain ⟨id, ver, status, confirmed, confH, resH, rev, confRev, neg, wStart, wEnd, locked, usage⟩ := X
    obtain ⟨g1, g2, g3, g4, g5, g6, g7, g8⟩ := hg
    simp only at hst hver
    subst hst hver
    rcases hr with rfl | rfl <;>
      simp [evsApply, evApply, fireC, codeTable, colBool, colOpt, setRev, bind, Except.bind] <;>
      (constructor <;> simp_all)

theorem evsApply_congr {c X : Contract} {es : List Ev} (h : Nat) (hn : norm c = norm X) (hg : Good X)
    (hv : evsValid X es = true) :
    ∃ c1 X1, evsApply codeTable h c es = .ok c1 ∧ evsApply codeTable h X es = .ok X1 ∧ norm c1 = norm X1 := by
  rcases evsValid_cases hv with rfl | ⟨e, rfl, hv1⟩ | ⟨n, r, rfl, hr, hst, hver⟩
  · exact ⟨c, X, rfl, rfl, hn⟩
  · obtain ⟨c1, X1, h1, h2, h3⟩ := evApply_congr h hn hg hv1
    exact ⟨c1, X1, by rw [evsApply_single, h1], by rw [evsApply_single, h2], h3⟩
  · obtain ⟨id, ver, status, confirmed, confH, resH, rev, confRev, neg, wStart, wEnd, locked, usage⟩ := X
    obtain ⟨id', ver', status', confirmed', confH', resH', rev', confRev', neg', wStart', wEnd', locked', usage'⟩ := c
    simp only [norm, Contract.mk.injEq] at hn
    obtain ⟨rfl, rfl, hst', rfl, rfl, rfl, rfl, rfl, rfl, rfl, rfl, rfl, rfl⟩ := hn
    simp only at hst hver
    subst hst hver
    rcases hr with rfl | rfl <;> cases status' <;> simp [clsOf] at hst' <;>
      simp [evsApply, evApply, fireC, codeTable, colBool, colOpt, setRev, norm, clsOf, bind, Except.bind]

theorem evsRevert_inverts {c X' X : Contract} {es es' : List Ev} (h : Nat) (hg : Good X')
    (hv : evsValid X' es = true) (ha : evsApply codeTable h X' es = .ok X) (hn : norm c = norm X)
    (hm : evsMatch X' es es' = true) :
    ∃ c', evsRevert codeTable h c es' = .ok c' ∧ norm c' = norm X' := by
  rcases evsValid_cases hv with rfl | ⟨e, rfl, hv1⟩ | ⟨n, r, rfl, hr, hst, hver⟩
  · cases es' with
    | nil => simp [evsApply] at ha; subst ha; exact ⟨c, rfl, hn⟩
    | cons _ _ => simp [evsMatch] at hm
  · match es', hm with
    | [e'], hm =>
      rw [evsApply_single] at ha
      have hm1 : evMatch X' e e' = true := by simpa [evsMatch] using hm
      obtain ⟨c', hc', hn'⟩ := evRevert_inverts h hg hv1 ha hn hm1
      exact ⟨c', by rw [evsRevert_single, hc'], hn'⟩
    | [], hm => simp [evsMatch] at hm
    | _ :: _ :: _, hm => simp [evsMatch] at hm
  · match es', hm with
    | [], hm => simp [evsMatch] at hm
    | [_], hm => simp [evsMatch] at hm
    | _ :: _ :: _ :: _, hm => simp [evsMatch] at hm
    | [e1', e2'], hm =>
      obtain ⟨id, ver, status, confirmed, confH, resH, rev, confRev, neg, wStart, wEnd, locked, usage⟩ := X'
      obtain ⟨g1, g2, g3, g4, g5, g6, g7, g8⟩ := hg
      simp only at hst hver
      subst hst hver
      rcases hr with rfl | rfl <;> cases e1' <;> cases e2' <;> simp [evsMatch, evMatch] at hm <;>
        simp [evsApply, evApply, fireC, codeTable, colBool, colOpt, setRev, bind, Except.bind] at ha <;> subst ha <;>
        (obtain ⟨id', ver', status', confirmed', confH', resH', rev', confRev', neg', wStart', wEnd', locked', usage'⟩ := c
         simp only [norm, Contract.mk.injEq] at hn
         obtain ⟨rfl, rfl, hst', rfl, rfl, rfl, rfl, rfl, rfl, rfl, rfl, rfl, rfl⟩ := hn
         cases status' <;> simp [clsOf] at hst' <;>
           simp_all [evsRevert, evRevert, fireC, codeTable, colBool, colOpt, setRev, norm, clsOf, bind, Except.bind])

/-! ### the spec of a well-formed chain exists and is a good row -/

theorem specTop_good {c0 : Contract} (hf : Fresh c0) :
    ∀ stk, WFstack c0 stk → ∃ X, specTop c0 stk = .ok X ∧ Good X
  | [], _ => ⟨c0, rfl, fresh_good hf⟩
  | (h, es) :: below, hw => by
    obtain ⟨_, X, hX, hv⟩ := hw
    obtain ⟨X0, hX0, hg0⟩ := specTop_good hf below ‹_›
    have hXX : X0 = X := by rw [hX0] at hX; exact Except.ok.inj hX
    subst hXX
    obtain ⟨X', hX', hg'⟩ := evsApply_good h hg0 hv
    exact ⟨X', by simp [specTop, hX0, bind, Except.bind, hX'], hg'⟩

/-! ### histories -/

/-- the chain after one operation -/
def nextStk (stk : List (Nat × List Ev)) : HOp → List (Nat × List Ev)
  | .apply h es => (h, es) :: stk
  | .revert _ _ => stk.tail

/-- an operation is well-formed on the chain `stk`: a connected block carries events valid for the
chain state below it; a disconnected block is the tip, and its events undo the events the tip was
connected with (revisions carrying the revision number recorded below the tip) -/
def wfStep (c0 : Contract) (stk : List (Nat × List Ev)) : HOp → Prop
  | .apply _ es => ∃ X, specTop c0 stk = .ok X ∧ evsValid X es = true
  | .revert h es' => ∃ es below Xb, stk = (h, es) :: below ∧ specTop c0 below = .ok Xb ∧ evsMatch Xb es es' = true

def WFops (c0 : Contract) : List (Nat × List Ev) → List HOp → Prop
  | _, [] => True
  | stk, op :: ops => wfStep c0 stk op ∧ WFops c0 (nextStk stk op) ops

/-- executable form of `wfStep`/`WFops` (used for the non-vacuity examples and by the driver) -/
def wfStepB (c0 : Contract) (stk : List (Nat × List Ev)) : HOp → Bool
  | .apply _ es =>
    match specTop c0 stk with
    | .ok X => evsValid X es
    | .error _ => false
  | .revert h es' =>
    match stk with
    | (h', es) :: below =>
      h == h' && (match specTop c0 below with
        | .ok Xb => evsMatch Xb es es'
        | .error _ => false)
    | [] => false

def wfOpsB (c0 : Contract) : List (Nat × List Ev) → List HOp → Bool
  | _, [] => true
  | stk, op :: ops => wfStepB c0 stk op && wfOpsB c0 (nextStk stk op) ops

theorem wfStepB_sound {c0 : Contract} {stk : List (Nat × List Ev)} {op : HOp} (h : wfStepB c0 stk op = true) :
    wfStep c0 stk op := by
  cases op with
  | apply hh es =>
    simp only [wfStepB] at h
    cases hs : specTop c0 stk with
    | error e => rw [hs] at h; cases h
    | ok X => rw [hs] at h; exact ⟨X, hs, h⟩
  | revert hh es' =>
    cases stk with
    | nil => simp [wfStepB] at h
    | cons top below =>
      obtain ⟨h', es⟩ := top
      simp only [wfStepB, Bool.and_eq_true, beq_iff_eq] at h
      obtain ⟨rfl, h2⟩ := h
      cases hs : specTop c0 below with
      | error e => rw [hs] at h2; cases h2
      | ok Xb => rw [hs] at h2; exact ⟨es, below, Xb, rfl, hs, h2⟩

theorem wfOpsB_sound {c0 : Contract} : ∀ (stk : List (Nat × List Ev)) (ops : List HOp),
    wfOpsB c0 stk ops = true → WFops c0 stk ops
  | _, [], _ => trivial
  | stk, op :: ops, h => by
    simp only [wfOpsB, Bool.and_eq_true] at h
    exact ⟨wfStepB_sound h.1, wfOpsB_sound _ ops h.2⟩

def finalStk : List (Nat × List Ev) → List HOp → List (Nat × List Ev)
  | stk, [] => stk
  | stk, op :: ops => finalStk (nextStk stk op) ops

def runH (rb : Nat) : Contract → List HOp → Except Fault Contract
  | c, [] => .ok c
  | c, op :: ops => do
      let c1 ← stepH codeTable rb c op
      runH rb c1 ops

theorem step_inv {c0 c : Contract} (rb : Nat) (hf : Fresh c0) {stk : List (Nat × List Ev)} {op : HOp}
    (hw : WFstack c0 stk) (hop : wfStep c0 stk op)
    (hn : ∃ X, specTop c0 stk = .ok X ∧ norm c = norm X) :
    WFstack c0 (nextStk stk op) ∧
    ∃ c1 X1, stepH codeTable rb c op = .ok c1 ∧ specTop c0 (nextStk stk op) = .ok X1 ∧ norm c1 = norm X1 := by
  obtain ⟨X, hX, hnX⟩ := hn
  obtain ⟨X', hX', hg⟩ := specTop_good hf stk hw
  rw [hX] at hX'; cases hX'
  cases op with
  | apply h es =>
    obtain ⟨Xv, hXv, hv⟩ := hop
    rw [hX] at hXv; cases hXv
    refine ⟨⟨hw, X, hX, hv⟩, ?_⟩
    obtain ⟨c1, X1, hc1, hX1, hn1⟩ := evsApply_congr h hnX hg hv
    obtain ⟨X1', hX1', hg1⟩ := evsApply_good h hg hv
    rw [hX1] at hX1'; cases hX1'
    have hspec : specTop c0 ((h, es) :: stk) = .ok X1 := by
      simp [specTop, hX, bind, Except.bind, hX1]
    by_cases hrb : h ≥ rb
    · obtain ⟨c2, hc2, hn2⟩ := rejectC_norm (h - rb) hn1 hg1
      exact ⟨c2, X1, by simp [stepH, hrb, bind, Except.bind, hc1, hc2], hspec, hn2⟩
    · exact ⟨c1, X1, by simp [stepH, hrb, bind, Except.bind, pure, Except.pure, hc1], hspec, hn1⟩
  | revert h es' =>
    obtain ⟨es, below, Xb, rfl, hXb, hm⟩ := hop
    obtain ⟨hwb, Xb2, hXb2, hvb⟩ := hw
    rw [hXb] at hXb2; cases hXb2
    refine ⟨hwb, ?_⟩
    obtain ⟨Xb', hXb', hgb⟩ := specTop_good hf below hwb
    rw [hXb] at hXb'; cases hXb'
    have hap : evsApply codeTable h Xb es = .ok X := by
      simpa [specTop, hXb, bind, Except.bind] using hX
    obtain ⟨c', hc', hn'⟩ := evsRevert_inverts h hgb hvb hap hnX hm
    exact ⟨c', Xb, by simp [stepH, hc'], hXb, hn'⟩

/-- **C01 (per contract), path independence and totality.**  For every well-formed history —
any interleaving of block connections and disconnections — processing succeeds and the resulting
row equals, up to the one-way rejection, the row obtained by processing only the blocks of the
final best chain in order. -/
theorem C01_best_chain {c0 : Contract} (rb : Nat) (hf : Fresh c0) (ops : List HOp) :
    ∀ (stk : List (Nat × List Ev)) (c : Contract), WFstack c0 stk →
      (∃ X, specTop c0 stk = .ok X ∧ norm c = norm X) → WFops c0 stk ops →
      ∃ c' X', runH rb c ops = .ok c' ∧ specTop c0 (finalStk stk ops) = .ok X' ∧ Good X' ∧ norm c' = norm X' := by
  induction ops with
  | nil =>
    intro stk c hw ⟨X, hX, hn⟩ _
    obtain ⟨X', hX', hg⟩ := specTop_good hf stk hw
    rw [hX] at hX'; cases hX'
    exact ⟨c, X, rfl, hX, hg, hn⟩
  | cons op rest ih =>
    intro stk c hw hn hwf
    obtain ⟨hop, hrest⟩ := hwf
    obtain ⟨hw1, c1, X1, hc1, hX1, hn1⟩ := step_inv rb hf hw hop hn
    obtain ⟨c', X', hrun, hspec, hg, hn'⟩ := ih (nextStk stk op) c1 hw1 ⟨X1, hX1, hn1⟩ hrest
    exact ⟨c', X', by simp [runH, bind, Except.bind, hc1, hrun], hspec, hg, hn'⟩

/-- C01 from the moment the host stored the contract -/
theorem C01_best_chain_fresh {c0 : Contract} (rb : Nat) (hf : Fresh c0) (ops : List HOp) (hwf : WFops c0 [] ops) :
    ∃ c' X', runH rb c0 ops = .ok c' ∧ specTop c0 (finalStk [] ops) = .ok X' ∧ Good X' ∧ norm c' = norm X' :=
  C01_best_chain rb hf ops [] c0 trivial ⟨c0, rfl, rfl⟩ hwf

/-- the reported chain view (status modulo rejection, confirmation, confirmed-revision flag,
resolution height) is that of the best chain -/
theorem C01_view {c X : Contract} (h : norm c = norm X) : viewOf c = viewOf X := by
  obtain ⟨id, ver, status, confirmed, confH, resH, rev, confRev, neg, wStart, wEnd, locked, usage⟩ := X
  obtain ⟨id', ver', status', confirmed', confH', resH', rev', confRev', neg', wStart', wEnd', locked', usage'⟩ := c
  simp only [norm, Contract.mk.injEq] at h
  obtain ⟨rfl, rfl, hst, rfl, rfl, rfl, rfl, rfl, rfl, rfl, rfl, rfl, rfl⟩ := h
  simp [viewOf, hst, revConfirmed]

/-- **Row invariant** of every reachable row (used by C06) -/
theorem C01_rowInv {c X : Contract} (hn : norm c = norm X) (hg : Good X)
    (hrej : c.status = .rejected → c.confirmed = false) : RowInv c := by
  obtain ⟨id, ver, status, confirmed, confH, resH, rev, confRev, neg, wStart, wEnd, locked, usage⟩ := X
  obtain ⟨id', ver', status', confirmed', confH', resH', rev', confRev', neg', wStart', wEnd', locked', usage'⟩ := c
  simp only [norm, Contract.mk.injEq] at hn
  obtain ⟨rfl, rfl, hst, rfl, rfl, rfl, rfl, rfl, rfl, rfl, rfl, rfl, rfl⟩ := hn
  obtain ⟨g1, g2, g3, g4, g5, g6, g7, g8⟩ := hg
  constructor <;> cases status <;> cases status' <;> simp [clsOf] at hst <;> simp_all

/-- the events with which the block just connected on top of `Xb` is disconnected again -/
def undoEvents (Xb : Contract) (es : List Ev) : List Ev :=
  es.map fun e => match e with
    | .revise _ => .revise (Xb.confRev.getD 0)
    | e => e

/-- **Revert undoes apply**: disconnecting the block that was just connected returns the row to
what it was, apart from the one-way rejection.  (`hrec`: a v1 row has a recorded revision number —
`confirmed_revision_number` is `NOT NULL` in the schema.) -/
theorem C01_revert_undoes_apply {c0 c : Contract} (rb : Nat) (hf : Fresh c0) {stk : List (Nat × List Ev)}
    (hw : WFstack c0 stk) (hn : ∃ X, specTop c0 stk = .ok X ∧ norm c = norm X ∧ X.confRev.isSome = true) (h : Nat) (es : List Ev)
    (hop : wfStep c0 stk (.apply h es)) :
    ∃ Xb c2, specTop c0 stk = .ok Xb ∧ runH rb c [.apply h es, .revert h (undoEvents Xb es)] = .ok c2 ∧ norm c2 = norm c := by
  obtain ⟨X, hX, hnX, hrec⟩ := hn
  obtain ⟨Xv, hXv, hv⟩ := hop
  rw [hX] at hXv; cases hXv
  obtain ⟨X', hX', hg⟩ := specTop_good hf stk hw
  rw [hX] at hX'; cases hX'
  have hm : evsMatch X es (undoEvents X es) = true := by
    cases hc : X.confRev with
    | none => rw [hc] at hrec; cases hrec
    | some o =>
      rcases evsValid_cases hv with rfl | ⟨e, rfl, hv1⟩ | ⟨n, r, rfl, hr, hst, hver⟩
      · rfl
      · cases e <;> simp [undoEvents, evsMatch, evMatch, hc]
      · rcases hr with rfl | rfl <;> simp [undoEvents, evsMatch, evMatch, hc]
  have hwf : WFops c0 stk [.apply h es, .revert h (undoEvents X es)] :=
    ⟨⟨X, hX, hv⟩, ⟨es, stk, X, rfl, hX, hm⟩, trivial⟩
  obtain ⟨c', X', hrun, hspec, _, hn'⟩ := C01_best_chain rb hf _ stk c hw ⟨X, hX, hnX⟩ hwf
  simp only [finalStk, nextStk, List.tail_cons] at hspec
  rw [hX] at hspec; cases hspec
  exact ⟨X, c', hX, hrun, by rw [hn', hnX]⟩

/-- **Rejection rule** (`RejectContracts(height)` as one contract sees it): afterwards an
unconfirmed contract negotiated before `height` is rejected; `Manager.UpdateChainState` calls it
with `height = h - rb` after connecting every block at `h ≥ rb` (`stepH`). -/
theorem C01_rejection_rule {c c1 : Contract} (height : Nat) (hstep : rejectC codeTable height c = .ok c1)
    (hunconf : c1.confirmed = false) (hneg : c1.neg < height) : c1.status = .rejected := by
  obtain ⟨id, ver, status, confirmed, confH, resH, rev, confRev, neg, wStart, wEnd, locked, usage⟩ := c
  cases ver <;> cases status <;> cases confirmed <;>
    simp [rejectC, rejectSel, fireC, codeTable, colBool, colOpt] at hstep <;>
    (try (split at hstep)) <;> (try (simp at hstep)) <;> (try (subst hstep)) <;> (try simp_all) <;> (try omega)

/-- … and a rejected (or pending) contract becomes active when its formation is confirmed -/
theorem C01_rejected_becomes_active (c : Contract) (h r : Nat) (hs : c.status = .rejected ∨ c.status = .pending) :
    ∃ c1, evApply codeTable h c (.form r) = .ok c1 ∧ c1.status = .active ∧ c1.confirmed = true := by
  obtain ⟨id, ver, status, confirmed, confH, resH, rev, confRev, neg, wStart, wEnd, locked, usage⟩ := c
  rcases hs with hs | hs <;> simp only at hs <;> subst hs <;> cases ver <;>
    simp [evApply, fireC, codeTable, colBool]

/-! ### the store model: every contract of the global state follows the per-contract semantics -/

/-- chain operations of the store model (`Model/Chain.lean`, what the driver executes) -/
inductive GOp where
  | apply (h : Nat) (ch : Changes)
  | revert (h : Nat) (ch : Changes)

def stepG (rb : Nat) (s : State) : GOp → Except Fault State
  | .apply h ch => applyBlock codeTable rb h ch s
  | .revert h ch => revertContracts codeTable h ch s

def runG (rb : Nat) : State → List GOp → Except Fault State
  | s, [] => .ok s
  | s, op :: ops => do
      let s1 ← stepG rb s op
      runG rb s1 ops

/-- what a global operation is for contract `(v,i)` -/
def projOp (v : Ver) (i : Nat) : GOp → HOp
  | .apply h ch => .apply h (eventsFor v i ch)
  | .revert h ch => .revert h (eventsFor v i ch)

/-- no list of a block's changes mentions a contract twice (a contract may occur in several lists:
the per-contract semantics then sees several events, `eventsFor`) -/
def opNodup : GOp → Prop
  | .apply _ ch => ListsNodup ch
  | .revert _ ch => ListsNodup ch

/-- **Projection theorem.**  Whenever the store model processes a history of blocks (no list of a block mentioning a
contract twice), every stored contract's row is exactly the result of the per-contract
semantics (`runH`) on that contract's projected history.  This is what makes the per-contract
theorems (`C01_best_chain`, …) statements about the executed store model. -/
theorem C01_global_projection (rb : Nat) (ops : List GOp) :
    ∀ (s s' : State), KeysNodup s.cs → (∀ op ∈ ops, opNodup op) → runG rb s ops = .ok s' →
      ∀ v i c, findC v i s.cs = some c →
        ∃ c', runH rb c (ops.map (projOp v i)) = .ok c' ∧ findC v i s'.cs = some c' := by
  induction ops with
  | nil =>
    intro s s' _ _ hrun v i c hfind
    simp [runG] at hrun; cases hrun
    exact ⟨c, rfl, hfind⟩
  | cons op rest ih =>
    intro s s' hk hnd hrun v i c hfind
    simp only [runG, bind, Except.bind] at hrun
    split at hrun
    · cases hrun
    · rename_i s1 hs1
      have hop := hnd op List.mem_cons_self
      have hkeys : s1.cs.map keyOf = s.cs.map keyOf := by
        cases op with
        | apply h ch => exact applyBlock_keeps codeTable rb h ch s s1 hs1
        | revert h ch => exact revertContracts_keeps codeTable h ch s s1 hs1
      have hk1 : KeysNodup s1.cs := by unfold KeysNodup; rw [hkeys]; exact hk
      have hlook : findC v i s1.cs = optApply (fun c => stepH codeTable rb c (projOp v i op)) (findC v i s.cs) := by
        cases op with
        | apply h ch => exact applyBlock_lookup hop hk hs1 v i
        | revert h ch => exact revertBlock_lookup hop hs1 v i
      have hsome : (findC v i s1.cs).isSome = true := by
        rw [findC_isSome_iff, hkeys, ← findC_isSome_iff, hfind]; rfl
      rw [hfind] at hlook
      simp only [optApply] at hlook
      cases hstep : stepH codeTable rb c (projOp v i op) with
      | error e => rw [hstep] at hlook; rw [hlook] at hsome; cases hsome
      | ok c1 =>
        rw [hstep] at hlook
        obtain ⟨c', hrun', hfind'⟩ := ih s1 s' hk1 (fun o ho => hnd o (List.mem_cons_of_mem _ ho)) hrun v i c1 hlook
        exact ⟨c', by simp [runH, bind, Except.bind, hstep, hrun'], hfind'⟩

/-- **C01 for the store model.**  After the store model has processed any history of block
connections and disconnections, every contract stored (fresh) before the history whose projected
history is well-formed reports exactly the chain view of the best chain. -/
theorem C01_global_best_chain (rb : Nat) (ops : List GOp) (s s' : State) (hk : KeysNodup s.cs)
    (hnd : ∀ op ∈ ops, opNodup op) (hrun : runG rb s ops = .ok s')
    (v : Ver) (i : Nat) (c0 : Contract) (hfind : findC v i s.cs = some c0) (hf : Fresh c0)
    (hwf : WFops c0 [] (ops.map (projOp v i))) :
    ∃ c X, findC v i s'.cs = some c ∧ specTop c0 (finalStk [] (ops.map (projOp v i))) = .ok X ∧
      Good X ∧ viewOf c = viewOf X := by
  obtain ⟨c', hrunH, hfind'⟩ := C01_global_projection rb ops s s' hk hnd hrun v i c0 hfind
  obtain ⟨c'', X, hrun'', hspec, hg, hn⟩ := C01_best_chain_fresh rb hf (ops.map (projOp v i)) hwf
  rw [hrunH] at hrun''; cases hrun''
  exact ⟨c', X, hfind', hspec, hg, C01_view hn⟩

/-! ### non-vacuity: concrete reorg histories meet the hypotheses -/

def ex0 : Contract := { id := 1, ver := .v2, neg := 0, wStart := 6, wEnd := 9, rev := 3 }
/-- formation with revision 1, a revision to 3 that is reorged out together with the formation,
re-formation with revision 2, then a block that both revises (to 7) and renews the contract; that
block is disconnected (the revert carries the number recorded below it, 2) and connected again -/
def exHist : List HOp :=
  [.apply 1 [.form 1], .apply 2 [.revise 3], .revert 2 [.revise 1],
   .revert 1 [.form 1], .apply 1 [], .apply 2 [.form 2], .apply 3 [.revise 7, .renew],
   .revert 3 [.revise 2, .renew], .apply 3 [.revise 7, .renew]]

example : Fresh ex0 := by simp [Fresh, ex0]
example : WFops ex0 [] exHist := wfOpsB_sound _ _ (by decide)
example : (runH 1 ex0 exHist).toOption.map (fun c => (c.status, c.confRev)) = some (.renewed, some 7) := by decide


/-- a store with a v1 and a v2 contract; a reorg across both formations and a v1 revision (2 → 5,
reverted with the recorded number 2), then a v2 block with a revision and a renewal of the same contract -/
def exV1 : Contract := { id := 1, ver := .v1, confRev := some 2, rev := 5, wStart := 9, wEnd := 12 }
def exS : State := { cs := [exV1, ex0] }
def exG : List GOp :=
  [.apply 1 { form1 := [1], form2 := [(1, 1)] }, .apply 2 { rev1 := [(1, 5)] },
   .revert 2 { rev1 := [(1, 2)] }, .revert 1 { form1 := [1], form2 := [(1, 1)] }, .apply 1 { form2 := [(1, 3)] },
   .apply 2 { rev2 := [(1, 4)], renew2 := [1] }]

example : KeysNodup exS.cs := by simp [KeysNodup, exS, exV1, ex0, keyOf]
example : ∀ op ∈ exG, opNodup op := by
  intro op hop
  simp only [exG, List.mem_cons, List.mem_nil_iff, or_false] at hop
  rcases hop with rfl | rfl | rfl | rfl | rfl | rfl <;> exact ⟨by simp, by simp, by simp, by simp, by simp, by simp, by simp, by simp, by simp⟩
example : (runG 1 exS exG).toOption.map (fun s => s.cs.map (·.status)) = some [.rejected, .renewed] := by decide
example : WFops ex0 [] (exG.map (projOp .v2 1)) := wfOpsB_sound _ _ (by decide)
example : WFops exV1 [] (exG.map (projOp .v1 1)) := wfOpsB_sound _ _ (by decide)

end Hostd.Chain
