import Hostd.Model.Registry
/-!
C20 — Registry: last valid write wins and capacity is enforced.
All theorems are about `Hostd.Registry` (the model the driver executes against
the implementation's observations).
-/
namespace Hostd.Registry

/-! ### helper lemmas -/

theorem find_replace_same (k : Key) (e : Entry) (l : List (Key × Entry)) (old : Entry)
    (h : find k l = some old) : find k (replace k e l) = some e := by
  induction l with
  | nil => simp [find] at h
  | cons p rest ih =>
    obtain ⟨k', e'⟩ := p
    by_cases hk : k' = k
    · simp [replace, find, hk]
    · simp [find, hk] at h
      simp [replace, find, hk, ih h]

theorem find_replace_other (k k2 : Key) (e : Entry) (l : List (Key × Entry)) (hne : k2 ≠ k) :
    find k2 (replace k e l) = find k2 l := by
  induction l with
  | nil => simp [replace]
  | cons p rest ih =>
    obtain ⟨k', e'⟩ := p
    by_cases hk : k' = k
    · subst hk
      have : ¬ k' = k2 := fun h => hne h.symm
      simp [replace, find, this]
    · by_cases hk2 : k' = k2
      · simp [replace, find, hk2]
        subst hk2; simp [hk, find]
      · simp [replace, find, hk, hk2, ih]

theorem length_replace (k : Key) (e : Entry) (l : List (Key × Entry)) :
    (replace k e l).length = l.length := by
  induction l with
  | nil => rfl
  | cons p rest ih =>
    obtain ⟨k', e'⟩ := p
    by_cases hk : k' = k <;> simp [replace, hk, ih]

theorem keys_replace (k : Key) (e : Entry) (l : List (Key × Entry)) :
    (replace k e l).map (·.1) = l.map (·.1) := by
  induction l with
  | nil => rfl
  | cons p rest ih =>
    obtain ⟨k', e'⟩ := p
    by_cases hk : k' = k <;> simp [replace, hk, ih]

theorem find_none_not_mem (k : Key) (l : List (Key × Entry)) (h : find k l = none) :
    k ∉ l.map (·.1) := by
  induction l with
  | nil => simp
  | cons p rest ih =>
    obtain ⟨k', e'⟩ := p
    by_cases hk : k' = k
    · simp [find, hk] at h
    · simp [find, hk] at h
      simp only [List.map_cons, List.mem_cons, not_or]
      exact ⟨fun h' => hk h'.symm, ih h⟩

/-! ### accept_iff : an update is accepted exactly when it is valid and
either creates a key below the limit or supersedes the stored entry -/

theorem accept_iff (s : State) (k : Key) (e : Entry) (valid : Bool) :
    (put s k e valid).2 = .accepted ↔
      valid = true ∧
      ((get s k = none ∧ s.entries.length < s.limit) ∨
       (∃ old, get s k = some old ∧ supersedes old e = true)) := by
  unfold put get
  cases valid <;> simp
  cases hf : find k s.entries with
  | none =>
    simp
    by_cases hl : s.limit ≤ s.entries.length <;> simp [hl]
    omega
  | some old =>
    simp
    by_cases hs : supersedes old e = true <;> simp [hs]

/-- A rejected update leaves the whole state (entries, limit, metric) untouched. -/
theorem rejected_unchanged (s : State) (k : Key) (e : Entry) (valid : Bool)
    (h : (put s k e valid).2 ≠ .accepted) : (put s k e valid).1 = s := by
  unfold put at *
  cases valid <;> simp at *
  cases hf : find k s.entries with
  | none =>
    simp [hf] at h ⊢
    by_cases hl : s.limit ≤ s.entries.length <;> simp [hl] at h ⊢
  | some old =>
    simp [hf] at h ⊢
    by_cases hs : supersedes old e = true <;> simp [hs] at h ⊢

/-- An accepted update is what the next read of that key returns; reads of other keys are unaffected. -/
theorem get_after_put (s : State) (k k2 : Key) (e : Entry) (valid : Bool) :
    get (put s k e valid).1 k2 =
      if (put s k e valid).2 = .accepted ∧ k2 = k then some e else get s k2 := by
  unfold put get
  cases valid <;> simp
  cases hf : find k s.entries with
  | none =>
    simp
    by_cases hl : s.limit ≤ s.entries.length <;> simp [hl]
    by_cases hk : k2 = k
    · simp [hk, find]
    · have : ¬ k = k2 := fun h => hk h.symm
      simp [hk, find, this]
  | some old =>
    simp
    by_cases hs : supersedes old e = true <;> simp [hs]
    by_cases hk : k2 = k
    · subst hk; simp [find_replace_same _ _ _ _ hf]
    · simp [hk, find_replace_other _ _ _ _ hk]

/-! ### last accepted write wins, for every history -/

/-- The value a key should hold after a history, computed from the outcomes alone. -/
def lastAccepted (s : State) (k : Key) : List Op → Option Entry
  | [] => get s k
  | .put k' e v :: rest =>
      lastAccepted (put s k' e v).1 k rest
  | .limit n :: rest => lastAccepted (setLimit s n) k rest

/-- Specification of a read in terms of the outcomes along the history:
scanning the history, the read value is replaced exactly at accepted puts to `k`. -/
def specRead (s : State) (k : Key) (cur : Option Entry) : List Op → Option Entry
  | [] => cur
  | .put k' e v :: rest =>
      let acc := (put s k' e v).2 = .accepted ∧ k = k'
      specRead (put s k' e v).1 k (if acc then some e else cur) rest
  | .limit n :: rest => specRead (setLimit s n) k cur rest

theorem get_last_accepted (s : State) (k : Key) (ops : List Op) :
    get (run s ops) k = specRead s k (get s k) ops := by
  induction ops generalizing s with
  | nil => simp [run, specRead]
  | cons op rest ih =>
    cases op with
    | put k' e v =>
      simp only [run, List.foldl_cons, step, specRead]
      have := ih (put s k' e v).1
      simp only [run] at this
      rw [this, get_after_put]
    | limit n =>
      simp only [run, List.foldl_cons, step, specRead]
      have := ih (setLimit s n)
      simp only [run] at this
      rw [this]
      rfl

/-! ### capacity and metric -/

def MetricOK (s : State) : Prop := s.metric = s.entries.length

def KeysNodup (s : State) : Prop := (s.entries.map (·.1)).Nodup

theorem put_metric (s : State) (k : Key) (e : Entry) (v : Bool) (h : MetricOK s) :
    MetricOK (put s k e v).1 := by
  unfold MetricOK put at *
  cases v <;> simp [h]
  cases hf : find k s.entries with
  | none =>
    simp
    by_cases hl : s.limit ≤ s.entries.length <;> simp [hl, h]
  | some old =>
    simp
    by_cases hs : supersedes old e = true <;> simp [hs, h, length_replace]

theorem put_nodup (s : State) (k : Key) (e : Entry) (v : Bool) (h : KeysNodup s) :
    KeysNodup (put s k e v).1 := by
  unfold KeysNodup put at *
  cases v <;> simp [h]
  cases hf : find k s.entries with
  | none =>
    simp
    by_cases hl : s.limit ≤ s.entries.length <;> simp [hl, h]
    have := find_none_not_mem k s.entries hf
    simpa using this
  | some old =>
    simp
    by_cases hs : supersedes old e = true <;> simp [hs, h]
    rw [show (List.map (fun x => x.1) (replace k e s.entries)) = List.map (fun x => x.1) s.entries from keys_replace k e s.entries]
    exact h

/-- A put never raises the number of entries at or above the current limit. -/
theorem count_bounded_step (s : State) (k : Key) (e : Entry) (v : Bool) :
    (put s k e v).1.entries.length ≤ max s.entries.length s.limit := by
  unfold put
  split
  · exact Nat.le_max_left _ _
  · split
    · split
      · exact Nat.le_max_left _ _
      · simp; omega
    · split
      · simp [length_replace]; exact Nat.le_max_left _ _
      · exact Nat.le_max_left _ _

theorem put_limit (s : State) (k : Key) (e : Entry) (v : Bool) :
    (put s k e v).1.limit = s.limit := by
  unfold put
  cases v <;> simp
  cases hf : find k s.entries with
  | none => simp; by_cases hl : s.limit ≤ s.entries.length <;> simp [hl]
  | some old => simp; by_cases hs : supersedes old e = true <;> simp [hs]

/-- Every reachable state: metric = number of stored entries, keys unique. -/
theorem reachable_inv (s : State) (ops : List Op) (hm : MetricOK s) (hn : KeysNodup s) :
    MetricOK (run s ops) ∧ KeysNodup (run s ops) := by
  induction ops generalizing s with
  | nil => exact ⟨hm, hn⟩
  | cons op rest ih =>
    cases op with
    | put k e v => exact ih _ (put_metric s k e v hm) (put_nodup s k e v hn)
    | limit n => exact ih (setLimit s n) hm hn

/-- the largest limit in force at any point of a history (including the start) -/
def maxLimit (s : State) : List Op → Nat
  | [] => s.limit
  | .put _ _ _ :: rest => maxLimit s rest
  | .limit n :: rest => max s.limit (maxLimit (setLimit s n) rest)

theorem maxLimit_ge (s : State) (ops : List Op) : s.limit ≤ maxLimit s ops := by
  induction ops generalizing s with
  | nil => simp [maxLimit]
  | cons op rest ih =>
    cases op with
    | put k e v => simpa [maxLimit] using ih s
    | limit n => simp [maxLimit]; omega

theorem maxLimit_congr (s t : State) (ops : List Op) (h : s.limit = t.limit) :
    maxLimit s ops = maxLimit t ops := by
  induction ops generalizing s t with
  | nil => simp [maxLimit, h]
  | cons op rest ih =>
    cases op with
    | put k e v => simpa [maxLimit] using ih s t h
    | limit n =>
      simp only [maxLimit, h]
      rw [ih (setLimit s n) (setLimit t n) rfl]

/-- The count never exceeds the largest limit that was in force (so with a constant limit: never exceeds the limit). -/
theorem count_le_max_limit (s : State) (ops : List Op) (h0 : s.entries.length ≤ s.limit) :
    (run s ops).entries.length ≤ maxLimit s ops := by
  suffices H : ∀ (ops : List Op) (s : State) (b : Nat), s.entries.length ≤ b → maxLimit s ops ≤ b →
      (run s ops).entries.length ≤ b from H ops s _ (Nat.le_trans h0 (maxLimit_ge s ops)) (Nat.le_refl _)
  intro ops
  induction ops with
  | nil => intro s b h _; simpa [run] using h
  | cons op rest ih =>
    intro s b hlen hb
    cases op with
    | put k e v =>
      simp only [run, List.foldl_cons, step]
      apply ih
      · have := count_bounded_step s k e v
        have hl := maxLimit_ge s (Op.put k e v :: rest)
        omega
      · rw [maxLimit] at hb
        rw [maxLimit_congr _ s rest (put_limit s k e v)]; exact hb
    | limit n =>
      simp only [run, List.foldl_cons, step]
      apply ih
      · simpa [setLimit] using hlen
      · simp [maxLimit] at hb; omega

/-! ### non-vacuity: concrete states meeting the hypotheses -/

def e1 : Entry := { rev := 1, typ := 1, work := 10, primary := false, tag := 100 }
def e2 : Entry := { rev := 2, typ := 1, work := 5, primary := false, tag := 200 }

example : (put (init 1) 7 e1 true).2 = .accepted := by decide
example : (put (put (init 1) 7 e1 true).1 7 e2 true).2 = .accepted := by decide
example : (put (put (init 1) 7 e2 true).1 7 e1 true).2 = .order := by decide
example : (put (put (init 1) 7 e1 true).1 8 e2 true).2 = .full := by decide
example : MetricOK (init 3) ∧ KeysNodup (init 3) ∧ (init 3).entries.length ≤ (init 3).limit := by
  simp [MetricOK, KeysNodup, init]

end Hostd.Registry
