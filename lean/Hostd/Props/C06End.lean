import Hostd.Props.C01
import Hostd.Props.C01G
/-!
C06, consequence clause — "a contract whose data the host holds ends successful, never failed, for
every reorg history that keeps its formation on the best chain".

The clause has a part that is the host's (it must keep offering the proof, whatever happened before)
and a part that is the chain's (a miner has to include it).  The first part is proved here for every
history; the second is stated as the hypothesis it is.

* `specStatus`                     the status the events of a chain leave, read off the chain alone;
* `specTop_status`                 the row the specification computes for a well-formed chain has that status
                                   and the contract's own window;
* `C06_proof_offered_after_any_history`   after ANY well-formed history of connections and disconnections
                                   whose resulting best chain holds the formation and no resolution, the
                                   store selects the contract for a storage proof at every height of its
                                   window (composition of `C01_best_chain_fresh`, `C01_rowInv`,
                                   `proof1_exact` / `proof2_exact`);
* `C06_ends_successful`            after any such history whose best chain carries a storage proof of the
                                   contract, the contract reports successful — and is offered no more;
* `C06_failed_only_if_missed_on_best_chain`   a contract reports failed only if the best chain carries the
                                   missed-resolution event consensus emits when no proof was included
                                   before the window closed; reorganising such a block away un-fails it
                                   (that is `C01_best_chain` again).
-/
namespace Hostd.Chain

/-- the status an event leaves -/
def stNext : St → Ev → St
  | _, .form _ => .active
  | s, .revise _ => s
  | _, .succ => .successful
  | _, .renew => .renewed
  | _, .fail => .failed

/-- the status a chain of blocks leaves (top of the list = tip), read off the events alone -/
def specStatus : List (Nat × List Ev) → St
  | [] => .pending
  | (_, es) :: below => es.foldl stNext (specStatus below)

/-- an event of kind `p` is on the chain -/
def onChain (p : Ev → Bool) (stk : List (Nat × List Ev)) : Bool := stk.any (fun b => b.2.any p)

/-- the columns a chain event never touches -/
def SameFrame (a b : Contract) : Prop := a.ver = b.ver ∧ a.wStart = b.wStart ∧ a.wEnd = b.wEnd ∧ a.id = b.id

theorem evApply_status {X X' : Contract} {e : Ev} (h : Nat) (hv : evValid X e = true)
    (ha : evApply codeTable h X e = .ok X') : X'.status = stNext X.status e ∧ SameFrame X' X := by
  obtain ⟨id, ver, status, confirmed, confH, resH, rev, confRev, neg, wStart, wEnd, locked, usage⟩ := X
  cases e <;> cases ver <;> cases status <;> simp [evValid] at hv <;>
    simp [evApply, fireC, codeTable, colBool, colOpt, setRev] at ha <;> subst ha <;>
    simp [stNext, SameFrame]

theorem evsApply_status {X X' : Contract} {es : List Ev} (h : Nat) (hv : evsValid X es = true)
    (ha : evsApply codeTable h X es = .ok X') : X'.status = es.foldl stNext X.status ∧ SameFrame X' X := by
  rcases evsValid_cases hv with rfl | ⟨e, rfl, hv1⟩ | ⟨n, r, rfl, hr, hst, hver⟩
  · simp only [evsApply] at ha
    cases ha
    exact ⟨rfl, rfl, rfl, rfl, rfl⟩
  · rw [evsApply_single] at ha
    exact evApply_status h hv1 ha
  · obtain ⟨id, ver, status, confirmed, confH, resH, rev, confRev, neg, wStart, wEnd, locked, usage⟩ := X
    simp only at hst hver
    subst hst hver
    rcases hr with rfl | rfl <;>
      simp [evsApply, evApply, fireC, codeTable, colBool, colOpt, setRev, bind, Except.bind] at ha <;> subst ha <;>
      simp [stNext, SameFrame]

/-- the specification's row for a well-formed chain: its status is `specStatus`, its window the contract's -/
theorem specTop_status {c0 : Contract} (hf : Fresh c0) :
    ∀ (stk : List (Nat × List Ev)) (X : Contract), WFstack c0 stk → specTop c0 stk = .ok X →
      X.status = specStatus stk ∧ SameFrame X c0
  | [], X, _, hX => by
    simp only [specTop] at hX
    cases hX
    exact ⟨hf.1, rfl, rfl, rfl, rfl⟩
  | (h, es) :: below, X, hw, hX => by
    obtain ⟨hwb, Xb, hXb, hv⟩ := hw
    obtain ⟨hs, hfr⟩ := specTop_status hf below Xb hwb hXb
    have ha : evsApply codeTable h Xb es = .ok X := by
      simpa [specTop, hXb, bind, Except.bind] using hX
    obtain ⟨hs', hfr'⟩ := evsApply_status h hv ha
    refine ⟨by rw [hs', hs]; rfl, ?_⟩
    obtain ⟨a1, a2, a3, a4⟩ := hfr
    obtain ⟨b1, b2, b3, b4⟩ := hfr'
    exact ⟨b1.trans a1, b2.trans a2, b3.trans a3, b4.trans a4⟩

/-- a resolved contract carries no further events: valid event lists on a resolved row are empty -/
theorem evsValid_resolved {X : Contract} {es : List Ev}
    (hres : X.status = .successful ∨ X.status = .failed ∨ X.status = .renewed)
    (hv : evsValid X es = true) : es = [] := by
  rcases evsValid_cases hv with rfl | ⟨e, rfl, hv1⟩ | ⟨n, r, rfl, hr, hst, hver⟩
  · rfl
  · exfalso
    cases e <;> simp [evValid] at hv1 <;> rcases hres with h | h | h <;> simp_all
  · exfalso
    rcases hres with h | h | h <;> simp_all

/-- on a well-formed chain a storage proof is final: the chain's status is successful -/
theorem specStatus_successful {c0 : Contract} (hf : Fresh c0) :
    ∀ (stk : List (Nat × List Ev)), WFstack c0 stk → onChain (· == .succ) stk = true → specStatus stk = .successful
  | [], _, hin => by simp [onChain] at hin
  | (h, es) :: below, hw, hin => by
    obtain ⟨hwb, Xb, hXb, hv⟩ := hw
    obtain ⟨hs, _⟩ := specTop_status hf below Xb hwb hXb
    simp only [onChain, List.any_cons, Bool.or_eq_true] at hin
    rcases hin with hin | hin
    · -- the proof is in the tip block
      show es.foldl stNext (specStatus below) = .successful
      rw [← hs]
      rcases evsValid_cases hv with rfl | ⟨e, rfl, _⟩ | ⟨n, r, rfl, hr, _, _⟩
      · simp at hin
      · cases e <;> simp at hin
        simp [stNext]
      · rcases hr with rfl | rfl
        · simp [stNext]
        · simp at hin
    · -- the proof is below: the contract was resolved there, the tip block cannot touch it
      have hb := specStatus_successful hf below hwb (by simpa [onChain] using hin)
      have : es = [] := evsValid_resolved (Or.inl (hs.trans hb)) hv
      subst this
      exact hb

/-- a chain's status is failed only if the chain carries consensus' missed-resolution event -/
theorem specStatus_failed : ∀ (stk : List (Nat × List Ev)), specStatus stk = .failed → onChain (· == .fail) stk = true
  | [], h => by simp [specStatus] at h
  | (_, es) :: below, h => by
    simp only [onChain, List.any_cons, Bool.or_eq_true]
    by_cases hb : specStatus below = .failed
    · exact Or.inr (by simpa [onChain] using specStatus_failed below hb)
    · left
      have key : ∀ (es : List Ev) (s : St), s ≠ .failed → es.foldl stNext s = .failed → es.any (· == .fail) = true := by
        intro es
        induction es with
        | nil => intro s hs h; exact absurd h hs
        | cons e rest ih =>
          intro s hs h
          simp only [List.foldl_cons] at h
          simp only [List.any_cons, Bool.or_eq_true]
          by_cases he : e = .fail
          · left; simp [he]
          · right
            refine ih (stNext s e) ?_ h
            cases e <;> simp_all [stNext]
      exact key es _ hb h

/-! ### the history-quantified statements -/

/-- the final chain of a well-formed history is a well-formed chain -/
theorem finalStk_wf {c0 : Contract} (rb : Nat) (hf : Fresh c0) (ops : List HOp) (hwf : WFops c0 [] ops) :
    WFstack c0 (finalStk [] ops) := by
  have aux : ∀ (ops : List HOp) (stk : List (Nat × List Ev)) (c : Contract), WFstack c0 stk →
      (∃ X, specTop c0 stk = .ok X ∧ norm c = norm X) → WFops c0 stk ops → WFstack c0 (finalStk stk ops) := by
    intro ops
    induction ops with
    | nil => intro stk c hw _ _; exact hw
    | cons op rest ih =>
      intro stk c hw hn hwf
      obtain ⟨hop, hrest⟩ := hwf
      obtain ⟨hw1, c1, X1, _, hX1, hn1⟩ := step_inv rb hf hw hop hn
      exact ih (nextStk stk op) c1 hw1 ⟨X1, hX1, hn1⟩ hrest
  exact aux ops [] c0 trivial ⟨c0, rfl, rfl⟩ hwf

/-- **The host keeps offering the proof, whatever happened before.**  After any well-formed history of
block connections and disconnections (any reorg pattern) that leaves the formation and no resolution
on the best chain, the selection query picks the contract at every height of its proof window. -/
theorem C06_proof_offered_after_any_history {c0 : Contract} (rb : Nat) (hf : Fresh c0) (ops : List HOp)
    (hwf : WFops c0 [] ops) (hact : specStatus (finalStk [] ops) = .active)
    (h : Nat) (hin : c0.wStart ≤ h ∧ h < c0.wEnd) :
    ∃ c', runH rb c0 ops = .ok c' ∧ c'.status = .active ∧
      (c0.ver = .v1 → selProof1 h c' = true) ∧ (c0.ver = .v2 → selProof2 h c' = true) := by
  obtain ⟨c', X', hrun, hspec, hg, hn⟩ := C01_best_chain_fresh rb hf ops hwf
  have hwfs : WFstack c0 (finalStk [] ops) := finalStk_wf rb hf ops hwf
  obtain ⟨hst, hv, hws, hwe, _⟩ := specTop_status hf _ X' hwfs hspec
  have hXact : X'.status = .active := hst.trans hact
  -- the executed row agrees with the specification's row up to the one-way rejection
  have hcst : c'.status = .active := by
    have := congrArg Contract.status hn
    simp only [norm] at this
    rw [hXact] at this
    cases hc : c'.status <;> simp [hc, clsOf] at this
    rfl
  have hfr : c'.ver = X'.ver ∧ c'.wStart = X'.wStart ∧ c'.wEnd = X'.wEnd := by
    have h1 := congrArg Contract.ver hn
    have h2 := congrArg Contract.wStart hn
    have h3 := congrArg Contract.wEnd hn
    simpa [norm] using And.intro h1 (And.intro h2 h3)
  have hrow : RowInv c' := C01_rowInv hn hg (by intro hr; rw [hcst] at hr; cases hr)
  refine ⟨c', hrun, hcst, ?_, ?_⟩
  · intro hv1
    refine (proof1_exact c' h hrow (by intro hfl; rw [hcst] at hfl; cases hfl)).mpr ⟨?_, hcst, ?_, ?_⟩
    · rw [hfr.1, hv, hv1]
    · rw [hfr.2.1, hws]; exact hin.1
    · rw [hfr.2.2, hwe]; exact hin.2
  · intro hv2
    refine (proof2_exact c' h hrow).mpr ⟨?_, hcst, ?_, ?_⟩
    · rw [hfr.1, hv, hv2]
    · rw [hfr.2.1, hws]; exact hin.1
    · rw [hfr.2.2, hwe]; exact hin.2

/-- **Ends successful.**  After any well-formed history whose best chain carries a storage proof of the
contract, the contract reports successful, whatever reorganisations happened on the way (including
ones that removed the proof, failed the contract on another branch, and brought the proof back). -/
theorem C06_ends_successful {c0 : Contract} (rb : Nat) (hf : Fresh c0) (ops : List HOp)
    (hwf : WFops c0 [] ops) (hproof : onChain (· == .succ) (finalStk [] ops) = true) :
    ∃ c', runH rb c0 ops = .ok c' ∧ c'.status = .successful := by
  obtain ⟨c', X', hrun, hspec, hg, hn⟩ := C01_best_chain_fresh rb hf ops hwf
  have hwfs := finalStk_wf rb hf ops hwf
  obtain ⟨hst, _⟩ := specTop_status hf _ X' hwfs hspec
  have hX : X'.status = .successful := hst.trans (specStatus_successful hf _ hwfs hproof)
  refine ⟨c', hrun, ?_⟩
  have := congrArg Contract.status hn
  simp only [norm] at this
  rw [hX] at this
  cases hc : c'.status <;> simp [hc, clsOf] at this
  rfl

/-- **Never failed unless consensus says so on the best chain.**  After any well-formed history a contract
reports failed only if the resulting best chain carries the missed-resolution event. -/
theorem C06_failed_only_if_missed_on_best_chain {c0 : Contract} (rb : Nat) (hf : Fresh c0) (ops : List HOp)
    (hwf : WFops c0 [] ops) (c' : Contract) (hrun : runH rb c0 ops = .ok c') (hfail : c'.status = .failed) :
    onChain (· == .fail) (finalStk [] ops) = true := by
  obtain ⟨c'', X', hrun', hspec, hg, hn⟩ := C01_best_chain_fresh rb hf ops hwf
  rw [hrun] at hrun'; cases hrun'
  have hwfs := finalStk_wf rb hf ops hwf
  obtain ⟨hst, _⟩ := specTop_status hf _ X' hwfs hspec
  apply specStatus_failed
  rw [← hst]
  have := congrArg Contract.status hn
  simp only [norm] at this
  rw [hfail] at this
  cases hx : X'.status <;> simp [hx, clsOf] at this
  rfl

/-! ### non-vacuity: a history that fails the contract on one branch and proves it on the other -/

def exEndC0 : Contract := { id := 1, ver := .v2, wStart := 10, wEnd := 20 }
def exEndOps : List HOp :=
  [.apply 5 [.form 0], .apply 20 [.fail], .revert 20 [.fail], .apply 12 [.revise 3, .succ]]
def exEndOpsOpen : List HOp := [.apply 5 [.form 0], .apply 20 [.fail], .revert 20 [.fail]]

example : Fresh exEndC0 := by simp [Fresh, exEndC0]
example : WFops exEndC0 [] exEndOps := wfOpsB_sound [] exEndOps (by decide)
example : onChain (· == .succ) (finalStk [] exEndOps) = true := by decide
example : WFops exEndC0 [] exEndOpsOpen := wfOpsB_sound [] exEndOpsOpen (by decide)
example : specStatus (finalStk [] exEndOpsOpen) = .active := by decide

end Hostd.Chain

/-! ### the store as a whole: the hypothesis of `C06_actions_exact` holds after every history

(The hypotheses `KeysNodup`, `MInv`, `hfresh`, `WFG` are those of `C01_global`; `Props/C01G.lean` ends with
examples showing that the store `exS` and the reorg history `exG` satisfy all four.) -/
namespace Hostd.Chain

/-- the invariant of the totality proof of C01 holds in the state a well-formed history ends in -/
theorem TInv_run (rb : Nat) (s0 : State) (hfresh : ∀ v i c0, findC v i s0.cs = some c0 → Fresh c0) :
    ∀ (ops : List GOp) (stk : List (Nat × Changes)) (s : State), TInv s0 stk s → WFG s0 stk ops →
      ∃ s' stk', runG rb s ops = .ok s' ∧ TInv s0 stk' s' := by
  intro ops
  induction ops with
  | nil => intro stk s hinv _; exact ⟨s, stk, rfl, hinv⟩
  | cons op rest ih =>
    intro stk s hinv hw
    obtain ⟨hop, hrest⟩ := hw
    obtain ⟨s1, hs1, hinv1⟩ := TInv_step hfresh rb hinv hop
    obtain ⟨s', stk', hs', hinv'⟩ := ih (nextG stk op) s1 hinv1 hrest
    exact ⟨s', stk', by simp [runG, bind, Except.bind, hs1, hs'], hinv'⟩

/-- **Every row of the store satisfies the row invariant after every well-formed history** — the
hypothesis `hall` of `C06_actions_exact` is not an assumption about the store but a consequence of how
the store processes blocks. -/
theorem C06_rows_after_any_history (rb : Nat) (s0 : State) (hk : KeysNodup s0.cs) (hm : MInv s0)
    (hfresh : ∀ v i c0, findC v i s0.cs = some c0 → Fresh c0) (ops : List GOp) (hwf : WFG s0 [] ops) :
    ∃ s', runG rb s0 ops = .ok s' ∧ ∀ c ∈ s'.cs, RowInv c := by
  have h0 : TInv s0 [] s0 := ⟨hk, hm, rfl, by simp, fun v i c0 hfind => ⟨trivial, c0, c0, hfind, rfl, rfl⟩⟩
  obtain ⟨s', stk', hrun, hinv⟩ := TInv_run rb s0 hfresh ops [] s0 h0 hwf
  refine ⟨s', hrun, ?_⟩
  intro c hc
  have hfc : findC c.ver c.id s'.cs = some c := findC_of_mem hinv.keys hc
  obtain ⟨c0, hc0⟩ := findC_of_keys hinv.same hfc
  obtain ⟨hw, c2, X, hfc2, hX, hn⟩ := hinv.rows c.ver c.id c0 hc0
  rw [hfc] at hfc2; cases hfc2
  obtain ⟨X', hX', hg⟩ := specTop_good (hfresh _ _ _ hc0) _ hw
  rw [hX] at hX'; cases hX'
  refine C01_rowInv hn hg ?_
  intro hrej
  have h1 : c.confirmed = X.confirmed := by simpa [norm] using congrArg Contract.confirmed hn
  have h2 : clsOf c.status = clsOf X.status := by simpa [norm] using congrArg Contract.status hn
  rw [hrej] at h2
  have hp : X.status = .pending := by
    cases hx : X.status <;> simp [hx, clsOf] at h2
    · rfl
    · exact absurd hx hg.not_rejected
  rw [h1]
  exact (hg.pend hp).1

/-- C06 for the store after any history: the selections at the tip are exactly the named sets -/
theorem C06_actions_exact_after_any_history (rb : Nat) (s0 : State) (hk : KeysNodup s0.cs) (hm : MInv s0)
    (hfresh : ∀ v i c0, findC v i s0.cs = some c0 → Fresh c0) (ops : List GOp) (hwf : WFG s0 [] ops) (h buf id : Nat) :
    ∃ s', runG rb s0 ops = .ok s' ∧
      (id ∈ selIds selRebroadcast1 s'.cs ↔ ∃ c ∈ s'.cs, c.id = id ∧ c.ver = .v1 ∧ c.status = .pending) ∧
      (id ∈ selIds selRebroadcast2 s'.cs ↔ ∃ c ∈ s'.cs, c.id = id ∧ c.ver = .v2 ∧ c.status = .pending) ∧
      (id ∈ selIds (selRevision2 h buf) s'.cs ↔ ∃ c ∈ s'.cs, c.id = id ∧ c.ver = .v2 ∧ c.status = .active ∧ revisionPending c ∧ h ≤ c.wStart ∧ c.wStart ≤ h + buf) ∧
      (id ∈ selIds (selProof2 h) s'.cs ↔ ∃ c ∈ s'.cs, c.id = id ∧ c.ver = .v2 ∧ c.status = .active ∧ c.wStart ≤ h ∧ h < c.wEnd) ∧
      (id ∈ selIds (selExpire2 h) s'.cs ↔ ∃ c ∈ s'.cs, c.id = id ∧ c.ver = .v2 ∧ c.status = .active ∧ c.wEnd ≤ h) := by
  obtain ⟨s', hrun, hall⟩ := C06_rows_after_any_history rb s0 hk hm hfresh ops hwf
  refine ⟨s', hrun, ?_, ?_, ?_, ?_, ?_⟩ <;> rw [selIds_exact] <;> constructor <;> rintro ⟨c, hc, h1, h2⟩
  · exact ⟨c, hc, h2, (rebroadcast1_exact c (hall c hc)).mp h1⟩
  · exact ⟨c, hc, (rebroadcast1_exact c (hall c hc)).mpr h2, h1⟩
  · exact ⟨c, hc, h2, (rebroadcast2_exact c (hall c hc)).mp h1⟩
  · exact ⟨c, hc, (rebroadcast2_exact c (hall c hc)).mpr h2, h1⟩
  · exact ⟨c, hc, h2, (revision2_exact c h buf (hall c hc)).mp h1⟩
  · exact ⟨c, hc, (revision2_exact c h buf (hall c hc)).mpr h2, h1⟩
  · exact ⟨c, hc, h2, (proof2_exact c h (hall c hc)).mp h1⟩
  · exact ⟨c, hc, (proof2_exact c h (hall c hc)).mpr h2, h1⟩
  · exact ⟨c, hc, h2, (expire2_exact c h (hall c hc)).mp h1⟩
  · exact ⟨c, hc, (expire2_exact c h (hall c hc)).mpr h2, h1⟩

end Hostd.Chain

namespace Hostd.Chain

/-- **C01 in closed form.**  After any well-formed history the reported status (a rejected contract read as
unconfirmed) is `specStatus` of the resulting best chain — a fold over the chain's events that mentions
neither the store nor the order in which blocks were connected and disconnected. -/
theorem C01_status_closed_form {c0 : Contract} (rb : Nat) (hf : Fresh c0) (ops : List HOp) (hwf : WFops c0 [] ops) :
    ∃ c', runH rb c0 ops = .ok c' ∧ clsOf c'.status = specStatus (finalStk [] ops) := by
  obtain ⟨c', X', hrun, hspec, hg, hn⟩ := C01_best_chain_fresh rb hf ops hwf
  obtain ⟨hst, _⟩ := specTop_status hf _ X' (finalStk_wf rb hf ops hwf) hspec
  refine ⟨c', hrun, ?_⟩
  have h2 : clsOf c'.status = clsOf X'.status := by simpa [norm] using congrArg Contract.status hn
  rw [h2, ← hst]
  have := hg.not_rejected
  cases hx : X'.status <;> simp_all [clsOf]

/-- two histories that end on the same best chain report the same status -/
theorem C01_status_path_independent {c0 : Contract} (rb : Nat) (hf : Fresh c0) (ops₁ ops₂ : List HOp)
    (h₁ : WFops c0 [] ops₁) (h₂ : WFops c0 [] ops₂) (hsame : finalStk [] ops₁ = finalStk [] ops₂) :
    ∃ c₁ c₂, runH rb c0 ops₁ = .ok c₁ ∧ runH rb c0 ops₂ = .ok c₂ ∧ clsOf c₁.status = clsOf c₂.status := by
  obtain ⟨c₁, hr₁, hs₁⟩ := C01_status_closed_form rb hf ops₁ h₁
  obtain ⟨c₂, hr₂, hs₂⟩ := C01_status_closed_form rb hf ops₂ h₂
  exact ⟨c₁, c₂, hr₁, hr₂, by rw [hs₁, hs₂, hsame]⟩

end Hostd.Chain

namespace Hostd.Chain

theorem finalStk_append (ops : List HOp) (op : HOp) : ∀ stk, finalStk stk (ops ++ [op]) = nextStk (finalStk stk ops) op := by
  induction ops with
  | nil => intro stk; rfl
  | cons o rest ih => intro stk; simp only [List.cons_append, finalStk]; exact ih _

theorem WFops_append {c0 : Contract} (ops : List HOp) (op : HOp) : ∀ stk, WFops c0 stk ops →
    wfStep c0 (finalStk stk ops) op → WFops c0 stk (ops ++ [op]) := by
  induction ops with
  | nil => intro stk _ h; exact ⟨h, trivial⟩
  | cons o rest ih =>
    intro stk hw h
    exact ⟨hw.1, ih _ hw.2 h⟩

/-- **Closing the loop.**  After any well-formed history that leaves the contract active on the best chain, a next
block carrying the storage proof the host offers (`C06_proof_offered_after_any_history`) is a well-formed
continuation, and processing it ends the contract successful. -/
theorem C06_offered_proof_mined_ends_successful {c0 : Contract} (rb : Nat) (hf : Fresh c0) (ops : List HOp)
    (hwf : WFops c0 [] ops) (hact : specStatus (finalStk [] ops) = .active) (h : Nat) :
    WFops c0 [] (ops ++ [.apply h [.succ]]) ∧
    ∃ c', runH rb c0 (ops ++ [.apply h [.succ]]) = .ok c' ∧ c'.status = .successful := by
  obtain ⟨_, X', _, hspec, _, _⟩ := C01_best_chain_fresh rb hf ops hwf
  obtain ⟨hst, _⟩ := specTop_status hf _ X' (finalStk_wf rb hf ops hwf) hspec
  have hv : evsValid X' [.succ] = true := by simp [evsValid, evValid, hst.trans hact]
  have hwf' : WFops c0 [] (ops ++ [.apply h [.succ]]) := WFops_append ops _ [] hwf ⟨X', hspec, hv⟩
  refine ⟨hwf', C06_ends_successful rb hf _ hwf' ?_⟩
  rw [finalStk_append]
  simp [nextStk, onChain]

end Hostd.Chain
