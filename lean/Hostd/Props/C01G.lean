import Hostd.Props.C01
/-!
C01 for the store model, with the well-formedness hypothesis stated on the *global* history — the
decidable predicates `wfApplyP` / `wfRevertP` (`Model/Chain.lean`) that the driver evaluates on every
generated block against the best-chain spec state.

* `specG_proj`      the best-chain spec of the store model projects, contract by contract, onto the
                    per-contract spec `specTop`;
* `WFG_proj`        a globally well-formed history is well-formed for every stored contract;
* `C01_global_best_chain_wf`  hence every stored contract reports the chain view of the best chain.
-/
namespace Hostd.Chain

theorem listsNodupB_iff (ch : Changes) : listsNodupB ch = true ↔ ListsNodup ch := by
  constructor
  · intro h
    simp only [listsNodupB, Bool.and_eq_true, decide_eq_true_eq] at h
    obtain ⟨⟨⟨⟨⟨⟨⟨⟨a, b⟩, c⟩, d⟩, e⟩, f⟩, g⟩, hh⟩, i⟩ := h
    exact ⟨a, b, c, d, e, f, g, hh, i⟩
  · intro h
    simp only [listsNodupB, Bool.and_eq_true, decide_eq_true_eq]
    exact ⟨⟨⟨⟨⟨⟨⟨⟨h.form1, h.rev1⟩, h.succ1⟩, h.fail1⟩, h.form2⟩, h.rev2⟩, h.succ2⟩, h.renew2⟩, h.fail2⟩

/-- the best-chain spec of the store model: only the blocks of the chain, oldest first, no rejection -/
def specG (s0 : State) : List (Nat × Changes) → Except Fault State
  | [] => .ok s0
  | (h, ch) :: below => do
      let X ← specG s0 below
      applyContracts codeTable h ch X

def nextG (stk : List (Nat × Changes)) : GOp → List (Nat × Changes)
  | .apply h ch => (h, ch) :: stk
  | .revert _ _ => stk.tail

def wfStepG (s0 : State) (stk : List (Nat × Changes)) : GOp → Prop
  | .apply _ ch => ∃ X, specG s0 stk = .ok X ∧ wfApplyP X ch = true
  | .revert h ch' => ∃ ch below Xb, stk = (h, ch) :: below ∧ specG s0 below = .ok Xb ∧ wfRevertP Xb ch ch' = true

def WFG (s0 : State) : List (Nat × Changes) → List GOp → Prop
  | _, [] => True
  | stk, op :: ops => wfStepG s0 stk op ∧ WFG s0 (nextG stk op) ops

def projStk (v : Ver) (i : Nat) (stk : List (Nat × Changes)) : List (Nat × List Ev) :=
  stk.map fun b => (b.1, eventsFor v i b.2)

theorem specG_keys (s0 : State) : ∀ (stk : List (Nat × Changes)) (X : State), specG s0 stk = .ok X →
    X.cs.map keyOf = s0.cs.map keyOf
  | [], X, h => by simp [specG] at h; subst h; rfl
  | (hh, ch) :: below, X, h => by
    simp only [specG, bind, Except.bind] at h
    split at h
    · cases h
    · rename_i Xb hXb
      rw [applyContracts_keeps codeTable hh ch Xb X h]
      exact specG_keys s0 below Xb hXb

/-- **The global spec projects onto the per-contract spec.** -/
theorem specG_proj {s0 : State} {v : Ver} {i : Nat} {c0 : Contract} (hfind : findC v i s0.cs = some c0) :
    ∀ (stk : List (Nat × Changes)) (X : State), (∀ b ∈ stk, ListsNodup b.2) → specG s0 stk = .ok X →
      ∃ Xc, specTop c0 (projStk v i stk) = .ok Xc ∧ findC v i X.cs = some Xc
  | [], X, _, h => by
    simp [specG] at h; subst h
    exact ⟨c0, rfl, hfind⟩
  | (hh, ch) :: below, X, hn, h => by
    simp only [specG, bind, Except.bind] at h
    split at h
    · cases h
    · rename_i Xb hXb
      obtain ⟨Xcb, hspec, hfb⟩ := specG_proj hfind below Xb (fun b hb => hn b (List.mem_cons_of_mem _ hb)) hXb
      have hl := applyContracts_lookup (hn (hh, ch) List.mem_cons_self) h v i
      rw [hfb, applyStages_eq_events codeTable hh ch v i Xcb (findC_some_ver_id hfb).1] at hl
      have hsome : (findC v i X.cs).isSome = true := by
        rw [findC_isSome_iff, applyContracts_keeps codeTable hh ch Xb X h, ← findC_isSome_iff, hfb]; rfl
      simp only [optApply] at hl
      cases hev : evsApply codeTable hh Xcb (eventsFor v i ch) with
      | error e => rw [hev] at hl; rw [hl] at hsome; cases hsome
      | ok Xc =>
        rw [hev] at hl
        have hs2 : specTop c0 (projStk v i ((hh, ch) :: below)) = .ok Xc := by
          show specTop c0 ((hh, eventsFor v i ch) :: projStk v i below) = .ok Xc
          simp only [specTop, bind, Except.bind, hspec, hev]
        exact ⟨Xc, hs2, hl⟩

theorem findC_mem_all {cs : List Contract} {p : Contract → Bool} (h : cs.all p = true) {v : Ver} {i : Nat} {c : Contract}
    (hf : findC v i cs = some c) : p c = true :=
  List.all_eq_true.mp h c (findC_mem hf)

theorem nextStk_proj (v : Ver) (i : Nat) (stk : List (Nat × Changes)) (op : GOp) :
    nextStk (projStk v i stk) (projOp v i op) = projStk v i (nextG stk op) := by
  cases op <;> simp [nextStk, nextG, projStk, projOp, List.map_tail]

/-- **A globally well-formed history is well-formed for every stored contract.** -/
theorem WFG_proj {s0 : State} {v : Ver} {i : Nat} {c0 : Contract} (hfind : findC v i s0.cs = some c0) (ops : List GOp) :
    ∀ (stk : List (Nat × Changes)), (∀ b ∈ stk, ListsNodup b.2) → WFG s0 stk ops →
      WFops c0 (projStk v i stk) (ops.map (projOp v i)) ∧ ∀ op ∈ ops, opNodup op := by
  induction ops with
  | nil => intro _ _ _; exact ⟨trivial, by simp⟩
  | cons op rest ih =>
    intro stk hn hw
    obtain ⟨hop, hrest⟩ := hw
    have hnext : ∀ b ∈ nextG stk op, ListsNodup b.2 := by
      cases op with
      | apply h ch =>
        obtain ⟨X, _, hwf⟩ := hop
        simp only [wfApplyP, Bool.and_eq_true] at hwf
        intro b hb
        simp only [nextG, List.mem_cons] at hb
        rcases hb with rfl | hb
        · exact (listsNodupB_iff ch).mp hwf.1.1
        · exact hn b hb
      | revert h ch' =>
        intro b hb
        exact hn b (List.mem_of_mem_tail hb)
    have hopn : opNodup op := by
      cases op with
      | apply h ch =>
        obtain ⟨X, _, hwf⟩ := hop
        simp only [wfApplyP, Bool.and_eq_true] at hwf
        exact (listsNodupB_iff ch).mp hwf.1.1
      | revert h ch' =>
        obtain ⟨ch, below, Xb, _, _, hwf⟩ := hop
        simp only [wfRevertP, Bool.and_eq_true] at hwf
        exact (listsNodupB_iff ch').mp hwf.1.1
    obtain ⟨ih1, ih2⟩ := ih (nextG stk op) hnext hrest
    refine ⟨⟨?_, by rw [nextStk_proj]; exact ih1⟩, ?_⟩
    · cases op with
      | apply h ch =>
        obtain ⟨X, hX, hwf⟩ := hop
        obtain ⟨Xc, hspec, hfc⟩ := specG_proj hfind stk X hn hX
        simp only [wfApplyP, Bool.and_eq_true] at hwf
        have := findC_mem_all hwf.2 hfc
        obtain ⟨hv, hi⟩ := findC_some_ver_id hfc
        simp only [hv, hi] at this
        exact ⟨Xc, hspec, this⟩
      | revert h ch' =>
        obtain ⟨ch, below, Xb, rfl, hXb, hwf⟩ := hop
        obtain ⟨Xc, hspec, hfc⟩ := specG_proj hfind below Xb (fun b hb => hn b (List.mem_cons_of_mem _ hb)) hXb
        simp only [wfRevertP, Bool.and_eq_true] at hwf
        have := findC_mem_all hwf.2 hfc
        obtain ⟨hv, hi⟩ := findC_some_ver_id hfc
        simp only [hv, hi] at this
        exact ⟨eventsFor v i ch, projStk v i below, Xc, by simp [projStk], hspec, this⟩
    · intro o ho
      rcases List.mem_cons.mp ho with rfl | ho
      · exact hopn
      · exact ih2 o ho

/-- **C01 for the store model, global hypothesis.**  After the store model has processed any history
of block connections and disconnections that is well-formed against the best chain (`WFG`: what the
driver checks block by block), every contract stored fresh before the history reports exactly the
chain view obtained by processing only the blocks of the final best chain. -/
theorem C01_global_best_chain_wf (rb : Nat) (ops : List GOp) (s s' : State) (hk : KeysNodup s.cs)
    (hwf : WFG s [] ops) (hrun : runG rb s ops = .ok s')
    (v : Ver) (i : Nat) (c0 : Contract) (hfind : findC v i s.cs = some c0) (hf : Fresh c0) :
    ∃ c X, findC v i s'.cs = some c ∧ specTop c0 (finalStk [] (ops.map (projOp v i))) = .ok X ∧
      Good X ∧ viewOf c = viewOf X := by
  obtain ⟨hw, hnd⟩ := WFG_proj hfind ops [] (by simp) hwf
  exact C01_global_best_chain rb ops s s' hk hnd hrun v i c0 hfind hf hw

/-! ### non-vacuity -/

def wfStepGB (s0 : State) (stk : List (Nat × Changes)) : GOp → Bool
  | .apply _ ch =>
    match specG s0 stk with
    | .ok X => wfApplyP X ch
    | .error _ => false
  | .revert h ch' =>
    match stk with
    | (h', ch) :: below =>
      h == h' && (match specG s0 below with
        | .ok Xb => wfRevertP Xb ch ch'
        | .error _ => false)
    | [] => false

def wfGB (s0 : State) : List (Nat × Changes) → List GOp → Bool
  | _, [] => true
  | stk, op :: ops => wfStepGB s0 stk op && wfGB s0 (nextG stk op) ops

theorem wfGB_sound {s0 : State} : ∀ (stk : List (Nat × Changes)) (ops : List GOp), wfGB s0 stk ops = true → WFG s0 stk ops
  | _, [], _ => trivial
  | stk, op :: ops, h => by
    simp only [wfGB, Bool.and_eq_true] at h
    refine ⟨?_, wfGB_sound _ ops h.2⟩
    have h1 := h.1
    cases op with
    | apply hh ch =>
      simp only [wfStepGB] at h1
      cases hs : specG s0 stk with
      | error e => rw [hs] at h1; cases h1
      | ok X => rw [hs] at h1; exact ⟨X, hs, h1⟩
    | revert hh ch' =>
      cases stk with
      | nil => simp [wfStepGB] at h1
      | cons top below =>
        obtain ⟨h', ch⟩ := top
        simp only [wfStepGB, Bool.and_eq_true, beq_iff_eq] at h1
        obtain ⟨rfl, h2⟩ := h1
        cases hs : specG s0 below with
        | error e => rw [hs] at h2; cases h2
        | ok Xb => rw [hs] at h2; exact ⟨ch, below, Xb, rfl, hs, h2⟩

/-- the reorg history `exG` of `Props/C01.lean` (v1 revision reorged out, v2 block that revises and
renews the same contract) is globally well-formed -/
example : WFG exS [] exG := wfGB_sound _ _ (by decide)

end Hostd.Chain
