import Hostd.Props.C01
import Hostd.Lemmas.ChainTotal
/-!
C01 for the store model, with the well-formedness hypothesis stated on the *global* history — the
decidable predicates `wfApplyP` / `wfRevertP` (`Model/Chain.lean`) that the driver evaluates on every
generated block against the best-chain spec state.

* `specG_proj`      the best-chain spec of the store model projects, contract by contract, onto the
                    per-contract spec `specTop`;
* `WFG_proj`        a globally well-formed history is well-formed for every stored contract;
* `C01_global_best_chain_wf`  hence every stored contract reports the chain view of the best chain;
* `C01_wf_update_never_fails`  and processing such a history never returns an error or panics: the
                    store model's `runG` is total on globally well-formed histories (per-contract
                    totality from `Props/C01.lean`, no negative metric from `Props/C05.lean`, composed
                    stage by stage in `Lemmas/ChainTotal.lean`).
-/
namespace Hostd.Chain

theorem listsNodupB_iff (ch : Changes) : listsNodupB ch = true ↔ ListsNodup ch := by
  constructor
  · intro h
    simp only [listsNodupB, Bool.and_eq_true, decide_eq_true_eq] at h
    obtain ⟨⟨⟨⟨⟨⟨⟨⟨a, b⟩, c⟩, d⟩, e⟩, f⟩, g⟩, hh⟩, i⟩ := h
    exact ⟨a, b, c, d, e, f, g, hh, i⟩
  · intro h
    simp only [listsNodupB, Bool.and_eq_true, decide_eq_true_eq]
    exact ⟨⟨⟨⟨⟨⟨⟨⟨h.form1, h.rev1⟩, h.succ1⟩, h.fail1⟩, h.form2⟩, h.rev2⟩, h.succ2⟩, h.renew2⟩, h.fail2⟩

/-- the best-chain spec of the store model: only the blocks of the chain, oldest first, no rejection -/
def specG (s0 : State) : List (Nat × Changes) → Except Fault State
  | [] => .ok s0
  | (h, ch) :: below => do
      let X ← specG s0 below
      applyContracts codeTable h ch X

def nextG (stk : List (Nat × Changes)) : GOp → List (Nat × Changes)
  | .apply h ch => (h, ch) :: stk
  | .revert _ _ => stk.tail

def wfStepG (s0 : State) (stk : List (Nat × Changes)) : GOp → Prop
  | .apply _ ch => ∃ X, specG s0 stk = .ok X ∧ wfApplyP X ch = true
  | .revert h ch' => ∃ ch below Xb, stk = (h, ch) :: below ∧ specG s0 below = .ok Xb ∧ wfRevertP Xb ch ch' = true

def WFG (s0 : State) : List (Nat × Changes) → List GOp → Prop
  | _, [] => True
  | stk, op :: ops => wfStepG s0 stk op ∧ WFG s0 (nextG stk op) ops

def projStk (v : Ver) (i : Nat) (stk : List (Nat × Changes)) : List (Nat × List Ev) :=
  stk.map fun b => (b.1, eventsFor v i b.2)

theorem specG_keys (s0 : State) : ∀ (stk : List (Nat × Changes)) (X : State), specG s0 stk = .ok X →
    X.cs.map keyOf = s0.cs.map keyOf
  | [], X, h => by simp [specG] at h; subst h; rfl
  | (hh, ch) :: below, X, h => by
    simp only [specG, bind, Except.bind] at h
    split at h
    · cases h
    · rename_i Xb hXb
      rw [applyContracts_keeps codeTable hh ch Xb X h]
      exact specG_keys s0 below Xb hXb

/-- **The global spec projects onto the per-contract spec.** -/
theorem specG_proj {s0 : State} {v : Ver} {i : Nat} {c0 : Contract} (hfind : findC v i s0.cs = some c0) :
    ∀ (stk : List (Nat × Changes)) (X : State), (∀ b ∈ stk, ListsNodup b.2) → specG s0 stk = .ok X →
      ∃ Xc, specTop c0 (projStk v i stk) = .ok Xc ∧ findC v i X.cs = some Xc
  | [], X, _, h => by
    simp [specG] at h; subst h
    exact ⟨c0, rfl, hfind⟩
  | (hh, ch) :: below, X, hn, h => by
    simp only [specG, bind, Except.bind] at h
    split at h
    · cases h
    · rename_i Xb hXb
      obtain ⟨Xcb, hspec, hfb⟩ := specG_proj hfind below Xb (fun b hb => hn b (List.mem_cons_of_mem _ hb)) hXb
      have hl := applyContracts_lookup (hn (hh, ch) List.mem_cons_self) h v i
      rw [hfb, applyStages_eq_events codeTable hh ch v i Xcb (findC_some_ver_id hfb).1] at hl
      have hsome : (findC v i X.cs).isSome = true := by
        rw [findC_isSome_iff, applyContracts_keeps codeTable hh ch Xb X h, ← findC_isSome_iff, hfb]; rfl
      simp only [optApply] at hl
      cases hev : evsApply codeTable hh Xcb (eventsFor v i ch) with
      | error e => rw [hev] at hl; rw [hl] at hsome; cases hsome
      | ok Xc =>
        rw [hev] at hl
        have hs2 : specTop c0 (projStk v i ((hh, ch) :: below)) = .ok Xc := by
          show specTop c0 ((hh, eventsFor v i ch) :: projStk v i below) = .ok Xc
          simp only [specTop, bind, Except.bind, hspec, hev]
        exact ⟨Xc, hs2, hl⟩

theorem findC_mem_all {cs : List Contract} {p : Contract → Bool} (h : cs.all p = true) {v : Ver} {i : Nat} {c : Contract}
    (hf : findC v i cs = some c) : p c = true :=
  List.all_eq_true.mp h c (findC_mem hf)

theorem nextStk_proj (v : Ver) (i : Nat) (stk : List (Nat × Changes)) (op : GOp) :
    nextStk (projStk v i stk) (projOp v i op) = projStk v i (nextG stk op) := by
  cases op <;> simp [nextStk, nextG, projStk, projOp, List.map_tail]

/-- **A globally well-formed history is well-formed for every stored contract.** -/
theorem WFG_proj {s0 : State} {v : Ver} {i : Nat} {c0 : Contract} (hfind : findC v i s0.cs = some c0) (ops : List GOp) :
    ∀ (stk : List (Nat × Changes)), (∀ b ∈ stk, ListsNodup b.2) → WFG s0 stk ops →
      WFops c0 (projStk v i stk) (ops.map (projOp v i)) ∧ ∀ op ∈ ops, opNodup op := by
  induction ops with
  | nil => intro _ _ _; exact ⟨trivial, by simp⟩
  | cons op rest ih =>
    intro stk hn hw
    obtain ⟨hop, hrest⟩ := hw
    have hnext : ∀ b ∈ nextG stk op, ListsNodup b.2 := by
      cases op with
      | apply h ch =>
        obtain ⟨X, _, hwf⟩ := hop
        simp only [wfApplyP, Bool.and_eq_true] at hwf
        intro b hb
        simp only [nextG, List.mem_cons] at hb
        rcases hb with rfl | hb
        · exact (listsNodupB_iff ch).mp hwf.1.1
        · exact hn b hb
      | revert h ch' =>
        intro b hb
        exact hn b (List.mem_of_mem_tail hb)
    have hopn : opNodup op := by
      cases op with
      | apply h ch =>
        obtain ⟨X, _, hwf⟩ := hop
        simp only [wfApplyP, Bool.and_eq_true] at hwf
        exact (listsNodupB_iff ch).mp hwf.1.1
      | revert h ch' =>
        obtain ⟨ch, below, Xb, _, _, hwf⟩ := hop
        simp only [wfRevertP, Bool.and_eq_true] at hwf
        exact (listsNodupB_iff ch').mp hwf.1.1
    obtain ⟨ih1, ih2⟩ := ih (nextG stk op) hnext hrest
    refine ⟨⟨?_, by rw [nextStk_proj]; exact ih1⟩, ?_⟩
    · cases op with
      | apply h ch =>
        obtain ⟨X, hX, hwf⟩ := hop
        obtain ⟨Xc, hspec, hfc⟩ := specG_proj hfind stk X hn hX
        simp only [wfApplyP, Bool.and_eq_true] at hwf
        have := findC_mem_all hwf.2 hfc
        obtain ⟨hv, hi⟩ := findC_some_ver_id hfc
        simp only [hv, hi] at this
        exact ⟨Xc, hspec, this⟩
      | revert h ch' =>
        obtain ⟨ch, below, Xb, rfl, hXb, hwf⟩ := hop
        obtain ⟨Xc, hspec, hfc⟩ := specG_proj hfind below Xb (fun b hb => hn b (List.mem_cons_of_mem _ hb)) hXb
        simp only [wfRevertP, Bool.and_eq_true] at hwf
        have := findC_mem_all hwf.2 hfc
        obtain ⟨hv, hi⟩ := findC_some_ver_id hfc
        simp only [hv, hi] at this
        exact ⟨eventsFor v i ch, projStk v i below, Xc, by simp [projStk], hspec, this⟩
    · intro o ho
      rcases List.mem_cons.mp ho with rfl | ho
      · exact hopn
      · exact ih2 o ho

/-- **C01 for the store model, global hypothesis.**  After the store model has processed any history
of block connections and disconnections that is well-formed against the best chain (`WFG`: what the
driver checks block by block), every contract stored fresh before the history reports exactly the
chain view obtained by processing only the blocks of the final best chain. -/
theorem C01_global_best_chain_wf (rb : Nat) (ops : List GOp) (s s' : State) (hk : KeysNodup s.cs)
    (hwf : WFG s [] ops) (hrun : runG rb s ops = .ok s')
    (v : Ver) (i : Nat) (c0 : Contract) (hfind : findC v i s.cs = some c0) (hf : Fresh c0) :
    ∃ c X, findC v i s'.cs = some c ∧ specTop c0 (finalStk [] (ops.map (projOp v i))) = .ok X ∧
      Good X ∧ viewOf c = viewOf X := by
  obtain ⟨hw, hnd⟩ := WFG_proj hfind ops [] (by simp) hwf
  exact C01_global_best_chain rb ops s s' hk hnd hrun v i c0 hfind hf hw

/-! ### totality: a well-formed history never faults -/

/-- what the induction carries: the state reached after the operations so far, against the chain `stk` -/
structure TInv (s0 : State) (stk : List (Nat × Changes)) (s : State) : Prop where
  keys : KeysNodup s.cs
  minv : MInv s
  same : s.cs.map keyOf = s0.cs.map keyOf
  nodup : ∀ b ∈ stk, ListsNodup b.2
  rows : ∀ v i c0, findC v i s0.cs = some c0 →
    WFstack c0 (projStk v i stk) ∧
    ∃ c X, findC v i s.cs = some c ∧ specTop c0 (projStk v i stk) = .ok X ∧ norm c = norm X

theorem findC_of_keys {s s0 : State} (hsame : s.cs.map keyOf = s0.cs.map keyOf) {v : Ver} {i : Nat} {c : Contract}
    (hf : findC v i s.cs = some c) : ∃ c0, findC v i s0.cs = some c0 := by
  have : (findC v i s0.cs).isSome = true := by
    rw [← isSome_of_keys hsame, hf]; rfl
  cases h : findC v i s0.cs with
  | none => rw [h] at this; cases this
  | some c0 => exact ⟨c0, rfl⟩

theorem TInv_step {s0 : State} (hfresh : ∀ v i c0, findC v i s0.cs = some c0 → Fresh c0) (rb : Nat)
    {stk : List (Nat × Changes)} {s : State} (hinv : TInv s0 stk s) {op : GOp} (hop : wfStepG s0 stk op) :
    ∃ s1, stepG rb s op = .ok s1 ∧ TInv s0 (nextG stk op) s1 := by
  -- the per-contract step succeeds for every stored contract, and re-establishes the row invariant
  have hper : ∀ v i c0, findC v i s0.cs = some c0 →
      wfStep c0 (projStk v i stk) (projOp v i op) := by
    intro v i c0 hfind
    cases op with
    | apply h ch =>
      obtain ⟨X, hX, hwf⟩ := hop
      obtain ⟨Xc, hspec, hfc⟩ := specG_proj hfind stk X hinv.nodup hX
      simp only [wfApplyP, Bool.and_eq_true] at hwf
      have := findC_mem_all hwf.2 hfc
      obtain ⟨hv, hi⟩ := findC_some_ver_id hfc
      simp only [hv, hi] at this
      exact ⟨Xc, hspec, this⟩
    | revert h ch' =>
      obtain ⟨ch, below, Xb, rfl, hXb, hwf⟩ := hop
      obtain ⟨Xc, hspec, hfc⟩ := specG_proj hfind below Xb (fun b hb => hinv.nodup b (List.mem_cons_of_mem _ hb)) hXb
      simp only [wfRevertP, Bool.and_eq_true] at hwf
      have := findC_mem_all hwf.2 hfc
      obtain ⟨hv, hi⟩ := findC_some_ver_id hfc
      simp only [hv, hi] at this
      exact ⟨eventsFor v i ch, projStk v i below, Xc, by simp [projStk], hspec, this⟩
  have hstep : ∀ v i c0, findC v i s0.cs = some c0 →
      WFstack c0 (nextStk (projStk v i stk) (projOp v i op)) ∧
      ∃ c c1 X1, findC v i s.cs = some c ∧ stepH codeTable rb c (projOp v i op) = .ok c1 ∧
        specTop c0 (nextStk (projStk v i stk) (projOp v i op)) = .ok X1 ∧ norm c1 = norm X1 := by
    intro v i c0 hfind
    obtain ⟨hw, c, X, hfc, hspec, hn⟩ := hinv.rows v i c0 hfind
    obtain ⟨hw1, c1, X1, hc1, hX1, hn1⟩ := step_inv rb (hfresh v i c0 hfind) hw (hper v i c0 hfind) ⟨X, hspec, hn⟩
    exact ⟨hw1, c, c1, X1, hfc, hc1, hX1, hn1⟩
  have hrowok : ∀ v i c, findC v i s.cs = some c → ∃ c', stepH codeTable rb c (projOp v i op) = .ok c' := by
    intro v i c hfc
    obtain ⟨c0, hc0⟩ := findC_of_keys hinv.same hfc
    obtain ⟨_, c', c1, _, hfc', hc1, _, _⟩ := hstep v i c0 hc0
    rw [hfc] at hfc'; cases hfc'
    exact ⟨c1, hc1⟩
  -- the global step succeeds
  have hnd : opNodup op := by
    cases op with
    | apply h ch =>
      obtain ⟨X, _, hwf⟩ := hop
      simp only [wfApplyP, Bool.and_eq_true] at hwf
      exact (listsNodupB_iff ch).mp hwf.1.1
    | revert h ch' =>
      obtain ⟨ch, below, Xb, _, _, hwf⟩ := hop
      simp only [wfRevertP, Bool.and_eq_true] at hwf
      exact (listsNodupB_iff ch').mp hwf.1.1
  have hex : ∀ k ∈ needOf (match op with | .apply _ ch => ch | .revert _ ch => ch), (findC k.1 k.2 s.cs).isSome = true := by
    cases op with
    | apply h ch =>
      obtain ⟨X, hX, hwf⟩ := hop
      simp only [wfApplyP, Bool.and_eq_true] at hwf
      intro k hk
      rw [isSome_of_keys (hinv.same.trans (specG_keys s0 stk X hX).symm)]
      exact needOf_of_idsExist hwf.1.2 k hk
    | revert h ch' =>
      obtain ⟨ch, below, Xb, _, hXb, hwf⟩ := hop
      simp only [wfRevertP, Bool.and_eq_true] at hwf
      intro k hk
      rw [isSome_of_keys (hinv.same.trans (specG_keys s0 below Xb hXb).symm)]
      exact needOf_of_idsExist hwf.1.2 k hk
  have htot : ∃ s1, stepG rb s op = .ok s1 := by
    cases op with
    | apply h ch => exact applyBlock_total codeTable_cellsOK hinv.keys hinv.minv hnd hex hrowok
    | revert h ch' =>
      refine revertContracts_total codeTable_cellsOK hinv.keys hinv.minv hnd hex ?_
      intro v i c hfc
      obtain ⟨c', hc'⟩ := hrowok v i c hfc
      exact ⟨c', by simpa [stepH, projOp] using hc'⟩
  obtain ⟨s1, hs1⟩ := htot
  refine ⟨s1, hs1, ?_⟩
  have hkeys1 : s1.cs.map keyOf = s.cs.map keyOf := by
    cases op with
    | apply h ch => exact applyBlock_keeps codeTable rb h ch s s1 hs1
    | revert h ch' => exact revertContracts_keeps codeTable h ch' s s1 hs1
  have hlook : ∀ v i, findC v i s1.cs = optApply (fun c => stepH codeTable rb c (projOp v i op)) (findC v i s.cs) := by
    intro v i
    cases op with
    | apply h ch => exact applyBlock_lookup hnd hinv.keys hs1 v i
    | revert h ch' => exact revertBlock_lookup hnd hs1 v i
  refine ⟨by unfold KeysNodup; rw [hkeys1]; exact hinv.keys, ?_, hkeys1.trans hinv.same, ?_, ?_⟩
  · cases op with
    | apply h ch => exact applyBlock_pres codeTable_cellsOK rb h ch s s1 hinv.minv hs1
    | revert h ch' => exact revertContracts_pres codeTable_cellsOK h ch' s s1 hinv.minv hs1
  · intro b hb
    cases op with
    | apply h ch =>
      simp only [nextG, List.mem_cons] at hb
      rcases hb with rfl | hb
      · exact hnd
      · exact hinv.nodup b hb
    | revert h ch' => exact hinv.nodup b (List.mem_of_mem_tail hb)
  · intro v i c0 hfind
    obtain ⟨hw1, c, c1, X1, hfc, hc1, hX1, hn1⟩ := hstep v i c0 hfind
    rw [← nextStk_proj]
    refine ⟨hw1, c1, X1, ?_, hX1, hn1⟩
    rw [hlook v i, hfc]
    simp only [optApply, hc1]

/-- **C01, totality ("processing a well-formed update never returns an error or panics").**  Starting
from a store whose contracts are as `AddContract` stored them and whose metrics equal the
recomputation, every history of block connections and disconnections that is well-formed against
the best chain is processed by the store model without a fault. -/
theorem C01_wf_update_never_fails (rb : Nat) (s0 : State) (hk : KeysNodup s0.cs) (hm : MInv s0)
    (hfresh : ∀ v i c0, findC v i s0.cs = some c0 → Fresh c0) (ops : List GOp) (hwf : WFG s0 [] ops) :
    ∃ s', runG rb s0 ops = .ok s' := by
  have hgen : ∀ (ops : List GOp) (stk : List (Nat × Changes)) (s : State), TInv s0 stk s → WFG s0 stk ops →
      ∃ s', runG rb s ops = .ok s' := by
    intro ops
    induction ops with
    | nil => intro stk s _ _; exact ⟨s, rfl⟩
    | cons op rest ih =>
      intro stk s hinv hw
      obtain ⟨hop, hrest⟩ := hw
      obtain ⟨s1, hs1, hinv1⟩ := TInv_step hfresh rb hinv hop
      obtain ⟨s', hs'⟩ := ih (nextG stk op) s1 hinv1 hrest
      exact ⟨s', by simp [runG, bind, Except.bind, hs1, hs']⟩
  refine hgen ops [] s0 ⟨hk, hm, rfl, by simp, ?_⟩ hwf
  intro v i c0 hfind
  exact ⟨trivial, c0, c0, hfind, rfl, rfl⟩

/-- **C01 for the store model, in one statement.**  From a store of freshly added contracts whose
metrics equal the recomputation, every history of block connections and disconnections that is
well-formed against the best chain is processed without a fault, and afterwards every contract
reports exactly the chain view (status modulo the one-way rejection, formation confirmation,
confirmed-revision flag, resolution height) obtained by processing only the blocks of the final
best chain, in order. -/
theorem C01_global (rb : Nat) (s0 : State) (hk : KeysNodup s0.cs) (hm : MInv s0)
    (hfresh : ∀ v i c0, findC v i s0.cs = some c0 → Fresh c0) (ops : List GOp) (hwf : WFG s0 [] ops) :
    ∃ s', runG rb s0 ops = .ok s' ∧
      ∀ v i c0, findC v i s0.cs = some c0 →
        ∃ c X, findC v i s'.cs = some c ∧ specTop c0 (finalStk [] (ops.map (projOp v i))) = .ok X ∧
          Good X ∧ viewOf c = viewOf X := by
  obtain ⟨s', hrun⟩ := C01_wf_update_never_fails rb s0 hk hm hfresh ops hwf
  exact ⟨s', hrun, fun v i c0 hfind =>
    C01_global_best_chain_wf rb ops s0 s' hk hwf hrun v i c0 hfind (hfresh v i c0 hfind)⟩

/-! ### non-vacuity -/

def wfStepGB (s0 : State) (stk : List (Nat × Changes)) : GOp → Bool
  | .apply _ ch =>
    match specG s0 stk with
    | .ok X => wfApplyP X ch
    | .error _ => false
  | .revert h ch' =>
    match stk with
    | (h', ch) :: below =>
      h == h' && (match specG s0 below with
        | .ok Xb => wfRevertP Xb ch ch'
        | .error _ => false)
    | [] => false

def wfGB (s0 : State) : List (Nat × Changes) → List GOp → Bool
  | _, [] => true
  | stk, op :: ops => wfStepGB s0 stk op && wfGB s0 (nextG stk op) ops

theorem wfGB_sound {s0 : State} : ∀ (stk : List (Nat × Changes)) (ops : List GOp), wfGB s0 stk ops = true → WFG s0 stk ops
  | _, [], _ => trivial
  | stk, op :: ops, h => by
    simp only [wfGB, Bool.and_eq_true] at h
    refine ⟨?_, wfGB_sound _ ops h.2⟩
    have h1 := h.1
    cases op with
    | apply hh ch =>
      simp only [wfStepGB] at h1
      cases hs : specG s0 stk with
      | error e => rw [hs] at h1; cases h1
      | ok X => rw [hs] at h1; exact ⟨X, hs, h1⟩
    | revert hh ch' =>
      cases stk with
      | nil => simp [wfStepGB] at h1
      | cons top below =>
        obtain ⟨h', ch⟩ := top
        simp only [wfStepGB, Bool.and_eq_true, beq_iff_eq] at h1
        obtain ⟨rfl, h2⟩ := h1
        cases hs : specG s0 below with
        | error e => rw [hs] at h2; cases h2
        | ok Xb => rw [hs] at h2; exact ⟨ch, below, Xb, rfl, hs, h2⟩

/-- the reorg history `exG` of `Props/C01.lean` (v1 revision reorged out, v2 block that revises and
renews the same contract) is globally well-formed -/
example : WFG exS [] exG := wfGB_sound _ _ (by decide)
example : MInv exS := by unfold MInv; rfl
example : ∀ v i c0, findC v i exS.cs = some c0 → Fresh c0 := by
  intro v i c0 h
  have := findC_mem h
  simp only [exS, List.mem_cons, List.mem_nil_iff, or_false] at this
  rcases this with rfl | rfl <;> simp [Fresh, exV1, ex0]

end Hostd.Chain
