import Hostd.Model.Wallet
/-!
C06, acting side — what `contracts.Manager.ProcessActions` does with the contracts the store selected
(model: `Model/Wallet.lean` part 4, `actsOf`).

* `C06_acts_submitted`      a set is handed to the pool exactly for the selected contracts without a listed skip;
* `C06_acts_broadcast`      a set is handed to the syncer exactly for the submitted contracts the pool accepted
                            (all kinds but the v1 formation rebroadcast);
* `C06_acts_formation1_as_found`  the v1 formation rebroadcast hands every submitted set to the syncer, also a
                            refused one (witness) — the tree as found deviates from "broadcast = accepted" there;
* `C06_acts_monitors_hold`  the observation `actsOf` produces passes the monitors `c06/acts/submitted`,
                            `c06/acts/only_selected`, `c06/acts/broadcast` (and `c06/acts/broadcast_refused` for
                            the kinds that do not broadcast refused sets);
* `C06_acts_monitors_characterise`  conversely an observation that passes the monitors is, as sets, the output of
                            `actsOf` for the skip / acceptance functions read off the observation: the monitors are
                            instances of the decision function.
-/
namespace Hostd.Wallet
open List

theorem C06_acts_submitted (k : ActKind) (sel : List Nat) (skip acc : Nat → Bool) (c : Nat) :
    c ∈ (actsOf k sel skip acc).submitted ↔ c ∈ sel ∧ skip c = false := by
  simp [actsOf, List.mem_filter]

theorem C06_acts_broadcast (k : ActKind) (hk : k.broadcastsRefused = false) (sel : List Nat) (skip acc : Nat → Bool) (c : Nat) :
    c ∈ (actsOf k sel skip acc).broadcast ↔ c ∈ sel ∧ skip c = false ∧ acc c = true := by
  simp only [actsOf, List.mem_filter, hk, Bool.or_false, Bool.not_eq_true']
  constructor
  · rintro ⟨⟨h1, h2⟩, h3⟩; exact ⟨h1, h2, h3⟩
  · rintro ⟨h1, h2, h3⟩; exact ⟨⟨h1, h2⟩, h3⟩

/-- nothing is handed to the syncer that was not handed to the pool, nothing to the pool that was not selected -/
theorem C06_acts_subset (k : ActKind) (sel : List Nat) (skip acc : Nat → Bool) (c : Nat) :
    (c ∈ (actsOf k sel skip acc).broadcast → c ∈ (actsOf k sel skip acc).submitted) ∧
    (c ∈ (actsOf k sel skip acc).submitted → c ∈ sel) := by
  simp only [actsOf, List.mem_filter]
  exact ⟨fun h => h.1, fun h => h.1⟩

/-- the tree as found: the v1 formation rebroadcast hands every submitted set to the syncer … -/
theorem C06_acts_formation1_as_found (sel : List Nat) (skip acc : Nat → Bool) :
    (actsOf .formation1 sel skip acc).broadcast = (actsOf .formation1 sel skip acc).submitted := by
  simp [actsOf, ActKind.broadcastsRefused]

/-- … also one the pool refused: contract 7 selected, not skipped, refused — and broadcast -/
theorem C06_acts_formation1_broadcasts_refused :
    (actsOf .formation1 [7] (fun _ => false) (fun _ => false)).broadcast = [7] ∧
    (actsOf .formation2 [7] (fun _ => false) (fun _ => false)).broadcast = [] := by decide

/-- the observation one loop of `ProcessActions` produces -/
def obsOf (k : ActKind) (sel : List Nat) (skip acc : Nat → Bool) : ActObs :=
  let out := actsOf k sel skip acc
  { sel := sel, skips := sel.filter skip, subOk := out.submitted.filter acc, subRej := out.submitted.filter (fun c => !acc c),
    bcSame := out.broadcast, bcDiff := [] }

theorem C06_acts_monitors_hold (k : ActKind) (sel : List Nat) (skip acc : Nat → Bool) :
    submittedOk (obsOf k sel skip acc) = true ∧ onlySelectedOk (obsOf k sel skip acc) = true ∧
    broadcastOk (obsOf k sel skip acc) = true ∧
    (k.broadcastsRefused = false → noRefusedBroadcastOk (obsOf k sel skip acc) = true) := by
  refine ⟨?_, ?_, ?_, ?_⟩
  · simp only [submittedOk, obsOf, actsOf, List.all_eq_true, Bool.or_eq_true, List.contains_iff_mem, List.mem_filter]
    intro c hc
    cases hs : skip c <;> cases ha : acc c <;> simp [hc]
  · simp only [onlySelectedOk, obsOf, actsOf, List.all_eq_true, List.contains_iff_mem, List.mem_append, List.mem_filter]
    rintro c (h | h) <;> exact h.1.1
  · simp only [broadcastOk, obsOf, actsOf, Bool.and_eq_true, List.all_eq_true, List.contains_iff_mem, List.mem_filter,
      List.isEmpty_nil, Bool.or_eq_true]
    refine ⟨⟨?_, trivial⟩, ?_⟩
    · intro c h
      exact ⟨h.1, Or.inl h.2⟩
    · intro c h
      by_cases ha : acc c = true
      · exact Or.inl ⟨h.1, ha⟩
      · exact Or.inr ⟨h.1, by simpa using ha⟩
  · intro hk
    simp only [noRefusedBroadcastOk, obsOf, actsOf, hk, List.all_eq_true, List.append_nil, List.contains_iff_mem, List.mem_filter,
      Bool.or_false, Bool.or_eq_true, Bool.not_eq_true']
    intro c h
    right
    exact ⟨h.1, h.2⟩

/-- the skip and acceptance functions read off an observation -/
def obsSkip (o : ActObs) (c : Nat) : Bool := o.skips.contains c && !(o.subOk.contains c || o.subRej.contains c)
def obsAcc (o : ActObs) (c : Nat) : Bool := o.subOk.contains c

/-- an observation that passes the monitors is, as sets, what `actsOf` computes: submitted = selected without
the skipped ones, broadcast = the accepted ones -/
theorem C06_acts_monitors_characterise (k : ActKind) (hk : k.broadcastsRefused = false) (o : ActObs)
    (h1 : submittedOk o = true) (h2 : onlySelectedOk o = true) (h3 : broadcastOk o = true) (h4 : noRefusedBroadcastOk o = true)
    (c : Nat) :
    ((c ∈ o.subOk ∨ c ∈ o.subRej) ↔ c ∈ (actsOf k o.sel (obsSkip o) (obsAcc o)).submitted) ∧
    (c ∈ o.bcSame ↔ c ∈ (actsOf k o.sel (obsSkip o) (obsAcc o)).broadcast) := by
  simp only [submittedOk, List.all_eq_true, Bool.or_eq_true, List.contains_iff_mem] at h1
  simp only [onlySelectedOk, List.all_eq_true, List.contains_iff_mem, List.mem_append] at h2
  simp only [broadcastOk, Bool.and_eq_true, List.all_eq_true, List.contains_iff_mem, Bool.or_eq_true, List.isEmpty_iff] at h3
  simp only [noRefusedBroadcastOk, List.all_eq_true, List.mem_append, Bool.or_eq_true, Bool.not_eq_true',
    List.contains_iff_mem] at h4
  obtain ⟨⟨h3a, h3b⟩, h3c⟩ := h3
  have hsub : (c ∈ o.subOk ∨ c ∈ o.subRej) ↔ c ∈ (actsOf k o.sel (obsSkip o) (obsAcc o)).submitted := by
    simp only [actsOf, List.mem_filter, obsSkip, Bool.not_eq_true', Bool.and_eq_false_iff, Bool.not_eq_false',
      Bool.or_eq_true, List.contains_iff_mem]
    constructor
    · intro h
      exact ⟨h2 c h, Or.inr h⟩
    · rintro ⟨hs, hsk | hsub⟩
      · rcases h1 c hs with (h | h) | h
        · exact Or.inl h
        · exact Or.inr h
        · simp [h] at hsk
      · exact hsub
  refine ⟨hsub, ?_⟩
  simp only [actsOf, List.mem_filter, hk, Bool.or_false, obsAcc, List.contains_iff_mem]
  constructor
  · intro hb
    have hin := h3c c hb
    have hok : c ∈ o.subOk := by
      rcases hin with h | h
      · exact h
      · rcases h4 c (Or.inl hb) with h' | h'
        · have : c ∉ o.subRej := by
            intro hm
            have := List.contains_iff_mem.mpr hm
            rw [h'] at this; cases this
          exact absurd h this
        · exact h'
    have := hsub.mp (Or.inl hok)
    simp only [actsOf, List.mem_filter] at this
    exact ⟨this, hok⟩
  · rintro ⟨_, hok⟩
    exact h3a c hok

/-! ### non-vacuity -/

example : (obsOf .proof2 [0, 1, 2] (fun c => c == 1) (fun c => c == 0)).subOk = [0] ∧
    (obsOf .proof2 [0, 1, 2] (fun c => c == 1) (fun c => c == 0)).subRej = [2] ∧
    (obsOf .proof2 [0, 1, 2] (fun c => c == 1) (fun c => c == 0)).skips = [1] ∧
    (obsOf .proof2 [0, 1, 2] (fun c => c == 1) (fun c => c == 0)).bcSame = [0] := by decide

example : let o : ActObs := { sel := [0, 1], skips := [], subOk := [0], subRej := [], bcSame := [], bcDiff := [] }
    submittedOk o = false ∧ broadcastOk o = false := by decide

end Hostd.Wallet
