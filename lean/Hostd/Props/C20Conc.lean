import Hostd.Model.Registry
/-!
C20 for concurrent callers.  `Manager.Put` is not one step of the program: it reads the stored value
(`Store.GetRegistryValue`), decides on that value and then writes (`Store.SetRegistryValue`, one store
transaction which re-checks existence and the limit).  What makes the sequential theorems of `Props/C20` apply
to any number of concurrent RPC handlers is `Manager.mu`, held from before the read until after the write.

This file models the two halves as separate steps of any number of callers, with limit changes (which do not
take the mutex) interleaved freely, and proves that under the mutex every schedule produces exactly the state
and the results of the atomic `put`s of the model taken in the order of their write steps.  Without the mutex
the same system has a schedule in which an older revision overwrites a newer one (`unlocked_not_serializable`);
the harness op `cput` runs that schedule against the real manager.
Core Lean only.
-/
namespace Hostd.Registry.Conc
open Hostd.Registry

structure Req where
  k : Key
  e : Entry
  valid : Bool
deriving Repr

/-- `Store.SetRegistryValue`: one transaction; `false` = ErrNotEnoughSpace. -/
def storeSet (s : State) (k : Key) (e : Entry) : State × Bool :=
  match find k s.entries with
  | some _ => ({ s with entries := replace k e s.entries }, true)
  | none =>
    if s.entries.length ≥ s.limit then (s, false)
    else ({ s with entries := (k, e) :: s.entries, metric := s.metric + 1 }, true)

/-- Second half of `Manager.Put`: the decision is taken on the value read in the first half. -/
def writeStep (s : State) (r : Req) (snap : Option Entry) : State × Out :=
  match snap with
  | none =>
    match storeSet s r.k r.e with
    | (s', true) => (s', .accepted)
    | (_, false) => (s, .full)
  | some old =>
    if supersedes old r.e then
      match storeSet s r.k r.e with
      | (s', true) => (s', .accepted)
      | (_, false) => (s, .full)
    else (s, .order)

/-- With nothing in between, read-then-write is the atomic `put` of the model. -/
theorem put_eq_read_write (s : State) (r : Req) (hv : r.valid = true) :
    put s r.k r.e r.valid = writeStep s r (find r.k s.entries) := by
  unfold put writeStep storeSet
  rw [hv]
  cases h : find r.k s.entries with
  | none =>
    simp only [Bool.not_true, Bool.false_eq_true, if_false]
    by_cases hl : s.entries.length ≥ s.limit
    · simp [hl]
    · simp [hl]
  | some old =>
    by_cases hs : supersedes old r.e = true <;> simp [hs]

inductive PC where
  | idle
  | reading (snap : Option Entry)
  | done (o : Out)
deriving DecidableEq, Repr

def upd (f : Nat → PC) (i : Nat) (p : PC) : Nat → PC := fun j => if j = i then p else f j

@[simp] theorem upd_same (f : Nat → PC) (i : Nat) (p : PC) : upd f i p i = p := by simp [upd]
theorem upd_other (f : Nat → PC) (i j : Nat) (p : PC) (h : j ≠ i) : upd f i p j = f j := by simp [upd, h]

structure Sys where
  st     : State
  holder : Option Nat              -- `Manager.mu`
  pcs    : Nat → PC
  hist   : List Op                 -- ghost: operations in the order of their linearisation points
  outs   : List (Nat × Out)        -- ghost: (caller, result) of the updates of `hist`, same order

inductive Act where
  | enter (i : Nat)      -- caller i: Lock, ValidateRegistryEntry, GetRegistryValue
  | finish (i : Nat)     -- caller i: ValidateRegistryUpdate, SetRegistryValue, Unlock
  | limit (n : Nat)      -- settings change, no registry mutex involved
deriving Repr

/-- One step of the system; `locked = false` is the manager without its mutex. -/
def stepC (locked : Bool) (reqs : Nat → Req) (c : Sys) : Act → Sys
  | .enter i =>
    match c.pcs i with
    | .idle =>
      if locked && c.holder.isSome then c
      else if (reqs i).valid then
        { c with holder := some i, pcs := upd c.pcs i (.reading (find (reqs i).k c.st.entries)) }
      else
        { c with pcs := upd c.pcs i (.done .invalid),
                 hist := c.hist ++ [.put (reqs i).k (reqs i).e false],
                 outs := c.outs ++ [(i, .invalid)] }
    | _ => c
  | .finish i =>
    match c.pcs i with
    | .reading snap =>
      let r := writeStep c.st (reqs i) snap
      { st := r.1, holder := none, pcs := upd c.pcs i (.done r.2),
        hist := c.hist ++ [.put (reqs i).k (reqs i).e (reqs i).valid],
        outs := c.outs ++ [(i, r.2)] }
    | _ => c
  | .limit n => { c with st := setLimit c.st n, hist := c.hist ++ [.limit n] }

def initSys (s0 : State) : Sys := { st := s0, holder := none, pcs := fun _ => .idle, hist := [], outs := [] }

def runC (locked : Bool) (reqs : Nat → Req) (c : Sys) (sched : List Act) : Sys :=
  sched.foldl (stepC locked reqs) c

/-- The sequential model: state and results of the updates. -/
def seq (s : State) : List Op → State × List Out
  | [] => (s, [])
  | .put k e v :: r => let p := put s k e v; let q := seq p.1 r; (q.1, p.2 :: q.2)
  | .limit n :: r => seq (setLimit s n) r

theorem seq_append (s : State) (a b : List Op) :
    seq s (a ++ b) = ((seq (seq s a).1 b).1, (seq s a).2 ++ (seq (seq s a).1 b).2) := by
  induction a generalizing s with
  | nil => simp [seq]
  | cons x xs ih =>
    cases x with
    | put k e v => simp [seq, ih]
    | limit n => simp [seq, ih]

theorem seq_fst_eq_run (s : State) (ops : List Op) : (seq s ops).1 = run s ops := by
  induction ops generalizing s with
  | nil => rfl
  | cons x xs ih =>
    cases x with
    | put k e v => simp [seq, run, List.foldl, step, ih]
    | limit n => simp [seq, run, List.foldl, step, ih]

/-- The serialisation invariant. -/
structure Inv (s0 : State) (reqs : Nat → Req) (c : Sys) : Prop where
  state   : c.st = (seq s0 c.hist).1
  results : c.outs.map (·.2) = (seq s0 c.hist).2
  reading : ∀ i snap, c.pcs i = .reading snap →
              c.holder = some i ∧ snap = find (reqs i).k c.st.entries ∧ (reqs i).valid = true
  answered : ∀ i o, c.pcs i = .done o → (i, o) ∈ c.outs

theorem inv_init (s0 : State) (reqs : Nat → Req) : Inv s0 reqs (initSys s0) := by
  refine ⟨rfl, rfl, ?_, ?_⟩
  · intro i snap h; simp [initSys] at h
  · intro i o h; simp [initSys] at h

theorem step_enter_valid (reqs : Nat → Req) (c : Sys) (i : Nat) (hp : c.pcs i = .idle) (hh : c.holder = none)
    (hv : (reqs i).valid = true) :
    stepC true reqs c (.enter i) =
      { c with holder := some i, pcs := upd c.pcs i (.reading (find (reqs i).k c.st.entries)) } := by
  simp [stepC, hp, hh, hv]

theorem step_enter_invalid (reqs : Nat → Req) (c : Sys) (i : Nat) (hp : c.pcs i = .idle) (hh : c.holder = none)
    (hv : (reqs i).valid = false) :
    stepC true reqs c (.enter i) =
      { c with pcs := upd c.pcs i (.done .invalid), hist := c.hist ++ [.put (reqs i).k (reqs i).e false],
               outs := c.outs ++ [(i, .invalid)] } := by
  simp [stepC, hp, hh, hv]

theorem step_enter_blocked (reqs : Nat → Req) (c : Sys) (i j : Nat) (hh : c.holder = some j) :
    stepC true reqs c (.enter i) = c := by
  unfold stepC; cases h : c.pcs i <;> simp [hh, h]

theorem step_enter_notidle (b : Bool) (reqs : Nat → Req) (c : Sys) (i : Nat) (hp : c.pcs i ≠ .idle) :
    stepC b reqs c (.enter i) = c := by
  unfold stepC; cases h : c.pcs i <;> simp_all

theorem step_finish_reading (b : Bool) (reqs : Nat → Req) (c : Sys) (i : Nat) (snap : Option Entry)
    (hp : c.pcs i = .reading snap) :
    stepC b reqs c (.finish i) =
      { st := (writeStep c.st (reqs i) snap).1, holder := none,
        pcs := upd c.pcs i (.done (writeStep c.st (reqs i) snap).2),
        hist := c.hist ++ [.put (reqs i).k (reqs i).e (reqs i).valid],
        outs := c.outs ++ [(i, (writeStep c.st (reqs i) snap).2)] } := by
  simp [stepC, hp]

theorem step_finish_other (b : Bool) (reqs : Nat → Req) (c : Sys) (i : Nat)
    (hp : ∀ snap, c.pcs i ≠ .reading snap) : stepC b reqs c (.finish i) = c := by
  unfold stepC; cases h : c.pcs i <;> simp_all

theorem seq_snoc_put (s0 : State) (hist : List Op) (k : Key) (e : Entry) (v : Bool) :
    seq s0 (hist ++ [.put k e v]) =
      ((put (seq s0 hist).1 k e v).1, (seq s0 hist).2 ++ [(put (seq s0 hist).1 k e v).2]) := by
  rw [seq_append]; simp [seq]

theorem seq_snoc_limit (s0 : State) (hist : List Op) (n : Nat) :
    seq s0 (hist ++ [.limit n]) = (setLimit (seq s0 hist).1 n, (seq s0 hist).2) := by
  rw [seq_append]; simp [seq]

theorem put_invalid (s : State) (k : Key) (e : Entry) : put s k e false = (s, .invalid) := by simp [put]

theorem inv_step (s0 : State) (reqs : Nat → Req) (c : Sys) (a : Act) (h : Inv s0 reqs c) :
    Inv s0 reqs (stepC true reqs c a) := by
  cases a with
  | enter i =>
    by_cases hp : c.pcs i = .idle
    · cases hh : c.holder with
      | some j => rw [step_enter_blocked reqs c i j hh]; exact h
      | none =>
        cases hv : (reqs i).valid with
        | true =>
          rw [step_enter_valid reqs c i hp hh hv]
          refine ⟨h.state, h.results, ?_, ?_⟩
          · intro j snap hj
            by_cases hji : j = i
            · subst hji
              have hj' : PC.reading (find (reqs j).k c.st.entries) = PC.reading snap := by simpa using hj
              cases hj'
              exact ⟨rfl, rfl, hv⟩
            · have hj' : c.pcs j = .reading snap := by simpa [upd_other _ _ _ _ hji] using hj
              have := (h.reading j snap hj').1
              rw [hh] at this; cases this
          · intro j o hj
            by_cases hji : j = i
            · subst hji
              have hj' : PC.reading (find (reqs j).k c.st.entries) = PC.done o := by simpa using hj
              cases hj'
            · have hj' : c.pcs j = .done o := by simpa [upd_other _ _ _ _ hji] using hj
              exact h.answered j o hj'
        | false =>
          rw [step_enter_invalid reqs c i hp hh hv]
          refine ⟨?_, ?_, ?_, ?_⟩
          · show c.st = (seq s0 (c.hist ++ [.put (reqs i).k (reqs i).e false])).1
            rw [seq_snoc_put, put_invalid]; exact h.state
          · show (c.outs ++ [(i, Out.invalid)]).map (·.2) = (seq s0 (c.hist ++ [.put (reqs i).k (reqs i).e false])).2
            rw [seq_snoc_put, put_invalid, List.map_append, h.results]; rfl
          · intro j snap hj
            by_cases hji : j = i
            · subst hji
              have hj' : PC.done Out.invalid = PC.reading snap := by simpa using hj
              cases hj'
            · have hj' : c.pcs j = .reading snap := by simpa [upd_other _ _ _ _ hji] using hj
              exact h.reading j snap hj'
          · intro j o hj
            show (j, o) ∈ c.outs ++ [(i, Out.invalid)]
            by_cases hji : j = i
            · subst hji
              have hj' : PC.done Out.invalid = PC.done o := by simpa using hj
              cases hj'
              simp
            · have hj' : c.pcs j = .done o := by simpa [upd_other _ _ _ _ hji] using hj
              exact List.mem_append_left _ (h.answered j o hj')
    · rw [step_enter_notidle true reqs c i hp]; exact h
  | finish i =>
    by_cases hr : ∃ snap, c.pcs i = .reading snap
    · obtain ⟨snap, hp⟩ := hr
      obtain ⟨hhold, hsnap, hv⟩ := h.reading i snap hp
      have hput : writeStep c.st (reqs i) snap = put c.st (reqs i).k (reqs i).e (reqs i).valid := by
        rw [hsnap]; exact (put_eq_read_write c.st (reqs i) hv).symm
      rw [step_finish_reading true reqs c i snap hp, hput]
      refine ⟨?_, ?_, ?_, ?_⟩
      · show (put c.st (reqs i).k (reqs i).e (reqs i).valid).1 = _
        rw [seq_snoc_put, h.state]
      · show (c.outs ++ [(i, (put c.st (reqs i).k (reqs i).e (reqs i).valid).2)]).map (·.2) = _
        rw [seq_snoc_put, List.map_append, h.results, h.state]; rfl
      · intro j snap' hj
        by_cases hji : j = i
        · subst hji
          have hj' : PC.done (put c.st (reqs j).k (reqs j).e (reqs j).valid).2 = PC.reading snap' := by simpa using hj
          cases hj'
        · have hj' : c.pcs j = .reading snap' := by simpa [upd_other _ _ _ _ hji] using hj
          have := (h.reading j snap' hj').1
          rw [hhold] at this
          exact absurd (Option.some.inj this).symm hji
      · intro j o hj
        show (j, o) ∈ c.outs ++ [(i, (put c.st (reqs i).k (reqs i).e (reqs i).valid).2)]
        by_cases hji : j = i
        · subst hji
          have hj' : PC.done (put c.st (reqs j).k (reqs j).e (reqs j).valid).2 = PC.done o := by simpa using hj
          cases hj'
          simp
        · have hj' : c.pcs j = .done o := by simpa [upd_other _ _ _ _ hji] using hj
          exact List.mem_append_left _ (h.answered j o hj')
    · rw [step_finish_other true reqs c i (fun snap hs => hr ⟨snap, hs⟩)]; exact h
  | limit n =>
    refine ⟨?_, ?_, ?_, h.answered⟩
    · show setLimit c.st n = (seq s0 (c.hist ++ [.limit n])).1
      rw [seq_snoc_limit, h.state]
    · show c.outs.map (·.2) = (seq s0 (c.hist ++ [.limit n])).2
      rw [seq_snoc_limit]; exact h.results
    · intro j snap hj
      obtain ⟨a, b, c'⟩ := h.reading j snap hj
      exact ⟨a, b, c'⟩

/-- **C20, every schedule**: whatever the interleaving of the read halves, write halves and limit changes of any
number of callers, under the manager's mutex the stored state is the state of the sequential model after the
operations in the order of their write steps, the results are the sequential results in that order, and every
caller that has returned holds one of them. -/
theorem C20_serializable (s0 : State) (reqs : Nat → Req) (sched : List Act) :
    Inv s0 reqs (runC true reqs (initSys s0) sched) := by
  suffices ∀ c, Inv s0 reqs c → Inv s0 reqs (runC true reqs c sched) from this _ (inv_init s0 reqs)
  induction sched with
  | nil => intro c h; exact h
  | cons a r ih => intro c h; exact ih _ (inv_step s0 reqs c a h)

/-- Corollary in the vocabulary of `Props/C20`: the stored state under any schedule is `run` of a list of
operations, so `get_last_accepted`, `reachable_inv` and `count_le_max_limit` apply to it. -/
theorem C20_concurrent_state_is_sequential (s0 : State) (reqs : Nat → Req) (sched : List Act) :
    (runC true reqs (initSys s0) sched).st = run s0 (runC true reqs (initSys s0) sched).hist := by
  rw [← seq_fst_eq_run]; exact (C20_serializable s0 reqs sched).state

/-! Without the mutex: caller 0 (revision 1) reads, caller 1 (revision 2) reads and writes, caller 0 writes.
Both are told "accepted" and the stored revision is the older one; no sequential order of the two updates
gives those results (the older one is refused after the newer one; stored would be revision 2 otherwise). -/
def rLo : Req := { k := 7, e := { rev := 1, typ := 1, work := 10, primary := false, tag := 100 }, valid := true }
def rHi : Req := { k := 7, e := { rev := 2, typ := 1, work := 5, primary := false, tag := 200 }, valid := true }
def rq : Nat → Req := fun i => if i = 0 then rLo else rHi
def base : State := (put (init 4) 7 { rev := 0, typ := 1, work := 1, primary := false, tag := 1 } true).1
def badSched : List Act := [.enter 0, .enter 1, .finish 1, .finish 0]

theorem unlocked_not_serializable :
    let c := runC false rq (initSys base) badSched
    c.outs = [(1, .accepted), (0, .accepted)] ∧ (get c.st 7).map (·.rev) = some 1 ∧
    (seq base [.put 7 rHi.e true, .put 7 rLo.e true]).2 = [.accepted, .order] ∧
    (get (seq base [.put 7 rLo.e true, .put 7 rHi.e true]).1 7).map (·.rev) = some 2 := by
  decide

/-- Non-vacuity of the locked theorem on the same requests: the second caller is held off, both are accepted in
lock order and revision 2 is what is stored. -/
example :
    let c := runC true rq (initSys base) badSched
    c.outs = [(0, .accepted)] ∧ (get c.st 7).map (·.rev) = some 1 := by
  decide

example :
    let c := runC true rq (initSys base) [.enter 0, .enter 1, .finish 1, .finish 0, .enter 1, .limit 0, .finish 1]
    c.outs = [(0, .accepted), (1, .accepted)] ∧ (get c.st 7).map (·.rev) = some 2 := by
  decide

end Hostd.Registry.Conc
