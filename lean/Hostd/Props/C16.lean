import Hostd.Lemmas.WalletTables
import Hostd.Lemmas.WalletStats
import Hostd.Lemmas.WalletAnn
/-!
C16 — Wallet and announcement state follow the best chain.

Wallet part (model: `Model/Wallet.lean` part 1, `WalletApplyIndex` / `WalletRevertIndex`):

* `C16_wallet_best_chain`  for every well-formed history of block connections and disconnections
  (any length, any reorg pattern) processing never fails — no `not found`, no negative-stat panic —
  the outputs and events the host holds are, up to row order, those of the fold over the resulting
  best chain alone, and `balance = Σ value | maturity ≤ height`, `immature = Σ` the rest.
  Stated for a `Variant` of the code:
    - `repaired` (a spent output counts as mature when `maturity < h`): no hypothesis about the
      maturity of spent outputs is needed;
    - `asFound` (`maturity ≤ h`, the tree as found): only under the extra hypothesis that no output is
      spent in the very block in which it matures (`WFdiff.spentBefore`) — `_partial`;
* `C16_events_best_chain`  the event list equals (up to row order) the one derived from the best chain and no event
  names a block off the best chain — also for blocks whose only wallet activity is ephemeral;
* `C16_spend_at_maturity_violates`  the tree as found breaks the property on a legal chain: consensus
  lets a block at height `h` spend an output with `maturity = h`; on that chain the host either
  panics (negative stat) or books a balance that is not `Σ value | maturity ≤ height`.

Stored metrics (`Lemmas/WalletStats.lean`): the balance metrics live in one row per 5-minute bucket of
the *block timestamp*.
* `C16_metrics_buckets_refine`, `C16_stored_metrics_best_chain`  as long as the timestamps never step
  back into an older bucket in processing order, `Metrics(now)` shows exactly the single-value model,
  so the wallet theorem carries over to the stored metrics;
* `C16_metrics_bucket_reorg_violates`  the tree as found breaks the property for a two-block reorg whose
  blocks lie in different buckets (every reorg of depth ≥ 2 on a network with 10-minute blocks): the
  revert of the older block rewrites an older row, the newest row keeps the stale value.

Announcement part (`Lemmas/WalletAnn.lean`, model part 2, `ConfigManager.UpdateChainState`):
* `C16_announcement_best_chain`, `C16_announcement_cleared_iff_disconnected`  with the reverted block's
  own index compared (the repair) the record is, after any well-formed history of calls, empty or names
  a block of the best chain containing a host announcement; a call sets it to an announcing block it
  connects, else clears it exactly when the recorded block is among the disconnected ones, else leaves
  it alone;
* `C16_announcement_as_found_not_cleared`, `C16_announcement_as_found_cleared_wrongly`  the tree as
  found (parent index compared) violates both directions on concrete reorgs ("tip only", "block after
  the announcement only"); `C16_announcement_as_found_partial` says what still holds for it.

Hypotheses forced by the proofs (`WFdiff`): heights are consecutive; spent outputs are held, created
ones are new; a created output never has `maturity = h` (consensus: `0` for transaction outputs,
`h + MaturityDelay` for payouts) — otherwise the code books it twice.
-/
namespace Hostd.Wallet
open List

/-- the host's tables agree with the specification up to row order -/
structure Agree (s : WState) (S : Spec) : Prop where
  utxos : s.utxos.Perm S.utxos
  events : s.events.Perm S.events
  height : s.height = S.height

/-- the metrics equal the recomputation over the host's own outputs at the processed height -/
def MInv (s : WState) : Prop :=
  s.balance = matureSum s.height s.utxos ∧ s.immature = immatureSum s.height s.utxos

/-- block `d` is a legal successor of the chain `below` (tip first) -/
structure WFdiff (v : Variant) (below : List Diff) (d : Diff) : Prop where
  hgt : below ≠ [] → d.h = (specOf below).height + 1
  spentNodup : (ids d.spent).Nodup
  spentIn : ∀ e ∈ d.spent, e ∈ (specOf below).utxos
  /-- needed by the tree as found only: nothing is spent in the block in which it matures -/
  spentBefore : v.spentLt = false → ∀ e ∈ d.spent, e.maturity < d.h
  createdNodup : (ids d.created).Nodup
  createdFresh : ∀ e ∈ d.created, e.id ∉ ids (specOf below).utxos
  createdMat : ∀ e ∈ d.created, e.maturity ≠ d.h
  eventsNodup : d.events.Nodup
  eventsFresh : ∀ i ∈ d.events, i ∉ (specOf below).events.map (·.id)
  blkFresh : ∀ e ∈ (specOf below).events, e.blk ≠ d.blk

def WFstack (v : Variant) : List Diff → Prop
  | [] => True
  | d :: below => WFstack v below ∧ WFdiff v below d

def nextStk (stk : List Diff) : Op → List Diff
  | .apply d => d :: stk
  | .revert _ => stk.tail

/-- connecting requires a legal successor; disconnecting pops the tip (with the diff it was connected
with); the first block of the history (genesis) is never disconnected -/
def wfStep (v : Variant) (stk : List Diff) : Op → Prop
  | .apply d => WFdiff v stk d
  | .revert d => ∃ below, stk = d :: below ∧ below ≠ []

def WFops (v : Variant) : List Diff → List Op → Prop
  | _, [] => True
  | stk, op :: ops => wfStep v stk op ∧ WFops v (nextStk stk op) ops

def finalStk : List Diff → List Op → List Diff
  | stk, [] => stk
  | stk, op :: ops => finalStk (nextStk stk op) ops

/-! ### the specification keeps ids unique -/

theorem spec_nodup (v : Variant) : ∀ stk, WFstack v stk →
    (ids (specOf stk).utxos).Nodup ∧ ((specOf stk).events.map (·.id)).Nodup
  | [], _ => by simp [specOf, ids]
  | d :: below, hw => by
    obtain ⟨hwb, hd⟩ := hw
    obtain ⟨ihu, ihe⟩ := spec_nodup v below hwb
    constructor
    · simp only [specOf, specApply, ids_append]
      refine List.nodup_append.mpr ⟨ids_filter_nodup _ ihu, hd.createdNodup, ?_⟩
      intro a ha b hb hab
      obtain ⟨u, hu, rfl⟩ := mem_ids.mp ha
      obtain ⟨e, he, rfl⟩ := mem_ids.mp hb
      exact hd.createdFresh e he (mem_ids.mpr ⟨u, (List.mem_filter.mp hu).1, hab⟩)
    · simp only [specOf, specApply, List.map_append, List.map_map]
      refine List.nodup_append.mpr ⟨ihe, ?_, ?_⟩
      · have : (List.map ((fun x => x.id) ∘ fun i => ({ id := i, blk := d.blk } : Ev)) d.events) = d.events := by
          simp [Function.comp_def]
        rw [this]; exact hd.eventsNodup
      · intro a ha b hb hab
        obtain ⟨i, hi, rfl⟩ := List.mem_map.mp hb
        simp only [Function.comp] at hab
        exact hd.eventsFresh i hi (hab ▸ ha)

/-! ### one block connected -/

theorem apply_step (v : Variant) {below : List Diff} {d : Diff} {s : WState}
    (hw : WFstack v below) (hd : WFdiff v below d) (hag : Agree s (specOf below)) (hm : MInv s) :
    ∃ s', applyIndex v s d = .ok s' ∧ Agree s' (specOf (d :: below)) ∧ MInv s' := by
  obtain ⟨hsu, hse⟩ := spec_nodup v below hw
  obtain ⟨hpu, hpe, hh⟩ := hag
  have hnd : (ids s.utxos).Nodup := (ids_perm hpu).nodup_iff.mpr hsu
  -- tables
  have hdel := deleteElems_ok d.spent s.utxos hd.spentNodup
    (fun e he => mem_ids.mpr ⟨e, hpu.mem_iff.mpr (hd.spentIn e he), rfl⟩)
  let T1 := s.utxos.filter (fun u => !(ids d.spent).contains u.id)
  have hcr := createElems_fresh d.created T1 hd.createdNodup (by
    intro e he hm
    obtain ⟨u, hu, hid⟩ := mem_ids.mp hm
    exact hd.createdFresh e he (mem_ids.mpr ⟨u, hpu.mem_iff.mp (List.mem_filter.mp hu).1, hid⟩))
  have hev := createEvents_fresh d.blk d.events s.events hd.eventsNodup (by
    intro i hi hm
    exact hd.eventsFresh i hi ((hpe.map _).mem_iff.mp hm))
  -- sums
  have hsplit : s.utxos.Perm (d.spent ++ T1) :=
    perm_split hnd hd.spentNodup (fun e he => hpu.mem_iff.mpr (hd.spentIn e he))
  have hcm : maturedAt d.h d.created = 0 := maturedAt_zero_of_ne d.h hd.createdMat
  -- the facts about heights, in the two cases "first block" / "successor"
  have hfacts : matureSum d.h T1 = matureSum s.height T1 + maturedAt d.h T1 ∧
      immatureSum s.height T1 = immatureSum d.h T1 + maturedAt d.h T1 ∧
      spentMatureSum v d.h d.spent = matureSum s.height d.spent ∧
      spentImmatureSum v d.h d.spent = immatureSum s.height d.spent := by
    by_cases hb : below = []
    · -- nothing is held yet
      subst hb
      have hu0 : s.utxos = [] := List.Perm.eq_nil (by simpa [specOf] using hpu)
      have hs0 : d.spent = [] := by
        cases hsp : d.spent with
        | nil => rfl
        | cons e r => exact absurd (hd.spentIn e (hsp ▸ List.mem_cons_self ..)) (by simp [specOf])
      have hT : T1 = [] := by simp [T1, hu0]
      rw [hT, hs0]
      cases hv : v.spentLt <;>
        simp [matureSum, immatureSum, maturedAt, spentMatureSum, spentImmatureSum, hv]
    · have hsucc : d.h = s.height + 1 := by rw [hh]; exact hd.hgt hb
      rw [hsucc]
      have hsp := spentMatureSum_eq v s.height d.spent (by rw [← hsucc]; exact hd.spentBefore)
      exact ⟨matureSum_succ _ _, immatureSum_succ _ _, hsp.1, hsp.2⟩
  obtain ⟨f1, f2, f3, f4⟩ := hfacts
  have hb0 : s.balance = matureSum s.height d.spent + matureSum s.height T1 := by
    rw [hm.1, matureSum_perm _ hsplit, matureSum_append]
  have hi0 : s.immature = immatureSum s.height d.spent + immatureSum s.height T1 := by
    rw [hm.2, immatureSum_perm _ hsplit, immatureSum_append]
  have hmat : maturedAt d.h (T1 ++ d.created) = maturedAt d.h T1 := by
    rw [maturedAt_append, hcm, Nat.add_zero]
  have hbump1 := @bump_eq s.balance (matureSum d.h d.created + maturedAt d.h T1) (spentMatureSum v d.h d.spent)
    (by rw [f3, hb0]; omega)
  have hbump2 := @bump_eq s.immature (immatureSum d.h d.created) (spentImmatureSum v d.h d.spent + maturedAt d.h T1)
    (by rw [f4, hi0, f2]; omega)
  refine ⟨{ utxos := T1 ++ d.created, events := s.events ++ d.events.map (fun i => (⟨i, d.blk⟩ : Ev)),
            balance := s.balance + (matureSum d.h d.created + maturedAt d.h T1) - spentMatureSum v d.h d.spent,
            immature := s.immature + immatureSum d.h d.created - (spentImmatureSum v d.h d.spent + maturedAt d.h T1),
            height := d.h }, ?_, ?_, ?_⟩
  · simp only [applyIndex, applyTables, hdel, hcr, hev, bind, Except.bind, pure, Except.pure, hmat,
      updateBalanceMetric, hbump1, hbump2, T1]
  · refine ⟨?_, ?_, rfl⟩
    · simp only [specOf, specApply]
      exact List.Perm.append (hpu.filter _) (List.Perm.refl _)
    · simp only [specOf, specApply]
      exact List.Perm.append hpe (List.Perm.refl _)
  · constructor
    · show s.balance + (matureSum d.h d.created + maturedAt d.h T1) - spentMatureSum v d.h d.spent = matureSum d.h (T1 ++ d.created)
      rw [matureSum_append, f1, f3, hb0]; omega
    · show s.immature + immatureSum d.h d.created - (spentImmatureSum v d.h d.spent + maturedAt d.h T1) = immatureSum d.h (T1 ++ d.created)
      rw [immatureSum_append, f4, hi0, f2]; omega

/-! ### one block disconnected -/

theorem revert_step (v : Variant) {below : List Diff} {d : Diff} {s : WState}
    (hw : WFstack v below) (hd : WFdiff v below d) (hne : below ≠ [])
    (hag : Agree s (specOf (d :: below))) (hm : MInv s) :
    ∃ s', revertIndex s d = .ok s' ∧ Agree s' (specOf below) ∧ MInv s' := by
  obtain ⟨hsu, hse⟩ := spec_nodup v below hw
  obtain ⟨hsu2, _⟩ := spec_nodup v (d :: below) ⟨hw, hd⟩
  obtain ⟨hpu, hpe, hh⟩ := hag
  simp only [specOf, specApply] at hpu hpe hh hsu2
  let S1 := (specOf below).utxos.filter (fun u => !(ids d.spent).contains u.id)
  have hnd : (ids s.utxos).Nodup := (ids_perm hpu).nodup_iff.mpr hsu2
  -- delete the outputs the block created
  have hdel := deleteElems_ok d.created s.utxos hd.createdNodup
    (fun e he => mem_ids.mpr ⟨e, hpu.mem_iff.mpr (List.mem_append_right _ he), rfl⟩)
  let T1 := s.utxos.filter (fun u => !(ids d.created).contains u.id)
  have hT1 : T1.Perm S1 := by
    have h1 : T1.Perm ((S1 ++ d.created).filter (fun u => !(ids d.created).contains u.id)) := hpu.filter _
    refine h1.trans ?_
    rw [List.filter_append]
    have hA : S1.filter (fun u => !(ids d.created).contains u.id) = S1 := by
      apply List.filter_eq_self.mpr
      intro u hu
      have : u.id ∉ ids d.created := by
        intro hm
        obtain ⟨e, he, hid⟩ := mem_ids.mp hm
        exact hd.createdFresh e he (mem_ids.mpr ⟨u, (List.mem_filter.mp hu).1, hid.symm⟩)
      simpa using this
    have hB : d.created.filter (fun u => !(ids d.created).contains u.id) = [] := by
      apply List.filter_eq_nil_iff.mpr
      intro u hu
      simpa using mem_ids.mpr ⟨u, hu, rfl⟩
    rw [hA, hB, List.append_nil]
  -- recreate the outputs the block spent
  have hcr := createElems_fresh d.spent T1 hd.spentNodup (by
    intro e he hm
    obtain ⟨u, hu, hid⟩ := mem_ids.mp hm
    have hu1 : u ∈ S1 := hT1.mem_iff.mp hu
    have : (ids d.spent).contains u.id = false := by simpa using (List.mem_filter.mp hu1).2
    have hc : u.id ∈ ids d.spent := hid ▸ mem_ids.mpr ⟨e, he, rfl⟩
    simp [hc] at this)
  have hsplit : (specOf below).utxos.Perm (d.spent ++ S1) := perm_split hsu hd.spentNodup hd.spentIn
  have hback : (T1 ++ d.spent).Perm (specOf below).utxos :=
    ((List.Perm.append hT1 (List.Perm.refl _)).trans List.perm_append_comm).trans hsplit.symm
  -- events
  have hevs : (s.events.filter (fun e => e.blk != d.blk)).Perm (specOf below).events := by
    have h1 := hpe.filter (fun e => e.blk != d.blk)
    refine h1.trans ?_
    rw [List.filter_append]
    have hA : (specOf below).events.filter (fun e => e.blk != d.blk) = (specOf below).events := by
      apply List.filter_eq_self.mpr
      intro e he
      simpa using hd.blkFresh e he
    have hB : (d.events.map (fun i => (⟨i, d.blk⟩ : Ev))).filter (fun e => e.blk != d.blk) = [] := by
      apply List.filter_eq_nil_iff.mpr
      intro e he
      obtain ⟨i, _, rfl⟩ := List.mem_map.mp he
      simp
    rw [hA, hB, List.append_nil]
  -- heights
  have hsucc : d.h = (specOf below).height + 1 := hd.hgt hne
  have hsh : s.height = (specOf below).height + 1 := by rw [hh, hsucc]
  -- metrics
  have hb0 : s.balance = matureSum ((specOf below).height + 1) S1 + matureSum ((specOf below).height + 1) d.created := by
    rw [hm.1, hsh, matureSum_perm _ hpu, matureSum_append]
  have hi0 : s.immature = immatureSum ((specOf below).height + 1) S1 + immatureSum ((specOf below).height + 1) d.created := by
    rw [hm.2, hsh, immatureSum_perm _ hpu, immatureSum_append]
  have hmat : maturedAt ((specOf below).height + 1) (T1 ++ d.spent) = maturedAt ((specOf below).height + 1) (specOf below).utxos := maturedAt_perm _ hback
  have e1 : matureSum ((specOf below).height + 1) (specOf below).utxos = matureSum ((specOf below).height + 1) d.spent + matureSum ((specOf below).height + 1) S1 := by
    rw [matureSum_perm _ hsplit, matureSum_append]
  have e2 : immatureSum ((specOf below).height + 1) (specOf below).utxos = immatureSum ((specOf below).height + 1) d.spent + immatureSum ((specOf below).height + 1) S1 := by
    rw [immatureSum_perm _ hsplit, immatureSum_append]
  have e3 := matureSum_succ (specOf below).height (specOf below).utxos
  have e4 := immatureSum_succ (specOf below).height (specOf below).utxos
  have hbump1 := @bump_eq s.balance (matureSum ((specOf below).height + 1) d.spent)
    (matureSum ((specOf below).height + 1) d.created + maturedAt ((specOf below).height + 1) (specOf below).utxos) (by rw [hb0]; omega)
  have hbump2 := @bump_eq s.immature (immatureSum ((specOf below).height + 1) d.spent + maturedAt ((specOf below).height + 1) (specOf below).utxos)
    (immatureSum ((specOf below).height + 1) d.created) (by rw [hi0]; omega)
  refine ⟨{ utxos := T1 ++ d.spent, events := s.events.filter (fun e => e.blk != d.blk),
            balance := s.balance + matureSum ((specOf below).height + 1) d.spent - (matureSum ((specOf below).height + 1) d.created + maturedAt ((specOf below).height + 1) (specOf below).utxos),
            immature := s.immature + (immatureSum ((specOf below).height + 1) d.spent + maturedAt ((specOf below).height + 1) (specOf below).utxos) - immatureSum ((specOf below).height + 1) d.created,
            height := (specOf below).height }, ?_, ?_, ?_⟩
  · simp only [revertIndex, revertTables, hdel, hcr, bind, Except.bind, pure, Except.pure, hsucc, hmat,
      updateBalanceMetric, hbump1, hbump2, T1, Nat.add_sub_cancel]
  · exact ⟨hback, hevs, rfl⟩
  · constructor
    · show s.balance + matureSum ((specOf below).height + 1) d.spent - (matureSum ((specOf below).height + 1) d.created + maturedAt ((specOf below).height + 1) (specOf below).utxos) = matureSum (specOf below).height (T1 ++ d.spent)
      rw [matureSum_perm _ hback, hb0]; omega
    · show s.immature + (immatureSum ((specOf below).height + 1) d.spent + maturedAt ((specOf below).height + 1) (specOf below).utxos) - immatureSum ((specOf below).height + 1) d.created = immatureSum (specOf below).height (T1 ++ d.spent)
      rw [immatureSum_perm _ hback, hi0]; omega

/-! ### histories -/

theorem step_inv (v : Variant) {stk : List Diff} {s : WState} {op : Op}
    (hw : WFstack v stk) (hop : wfStep v stk op) (hag : Agree s (specOf stk)) (hm : MInv s) :
    WFstack v (nextStk stk op) ∧
    ∃ s', step v s op = .ok s' ∧ Agree s' (specOf (nextStk stk op)) ∧ MInv s' := by
  cases op with
  | apply d => exact ⟨⟨hw, hop⟩, apply_step v hw hop hag hm⟩
  | revert d =>
    obtain ⟨below, rfl, hne⟩ := hop
    obtain ⟨hwb, hd⟩ := hw
    exact ⟨hwb, revert_step v hwb hd hne hag hm⟩

/-- **C16, wallet part.**  For every well-formed history processing succeeds, the host's outputs and
events are those of the best chain alone (up to row order) and the balance metrics are the sums over
the mature / immature outputs at the processed height. -/
theorem C16_wallet_best_chain_gen (v : Variant) (ops : List Op) :
    ∀ (stk : List Diff) (s : WState), WFstack v stk → Agree s (specOf stk) → MInv s → WFops v stk ops →
      ∃ s', run v s ops = .ok s' ∧ Agree s' (specOf (finalStk stk ops)) ∧ MInv s' ∧ WFstack v (finalStk stk ops) := by
  induction ops with
  | nil => intro stk s hw hag hm _; exact ⟨s, rfl, hag, hm, hw⟩
  | cons op rest ih =>
    intro stk s hw hag hm hwf
    obtain ⟨hop, hrest⟩ := hwf
    obtain ⟨hw1, s1, hs1, hag1, hm1⟩ := step_inv v hw hop hag hm
    obtain ⟨s', hrun, hag', hm', hw'⟩ := ih (nextStk stk op) s1 hw1 hag1 hm1 hrest
    exact ⟨s', by simp [run, bind, Except.bind, hs1, hrun], hag', hm', hw'⟩

/-- the repaired tree, from the empty wallet: no hypothesis about the maturity of spent outputs
(`WFdiff.spentBefore` is vacuous for `repaired`) -/
theorem C16_wallet_best_chain (ops : List Op) (hwf : WFops repaired [] ops) :
    ∃ s', run repaired {} ops = .ok s' ∧ s'.utxos.Perm (specOf (finalStk [] ops)).utxos ∧
      s'.events.Perm (specOf (finalStk [] ops)).events ∧
      s'.balance = matureSum (specOf (finalStk [] ops)).height (specOf (finalStk [] ops)).utxos ∧
      s'.immature = immatureSum (specOf (finalStk [] ops)).height (specOf (finalStk [] ops)).utxos := by
  obtain ⟨s', hrun, hag, hm, _⟩ := C16_wallet_best_chain_gen repaired ops [] {} trivial
    ⟨List.Perm.refl _, List.Perm.refl _, rfl⟩ ⟨by simp [matureSum], by simp [immatureSum]⟩ hwf
  refine ⟨s', hrun, hag.utxos, hag.events, ?_, ?_⟩
  · rw [hm.1, hag.height, matureSum_perm _ hag.utxos]
  · rw [hm.2, hag.height, immatureSum_perm _ hag.utxos]

/-- the tree as found: the same, but only for histories in which no output is spent in the block in
which it matures (`WFdiff.spentBefore` is a real hypothesis for `asFound`) -/
theorem C16_wallet_best_chain_partial (ops : List Op) (hwf : WFops asFound [] ops) :
    ∃ s', run asFound {} ops = .ok s' ∧ s'.utxos.Perm (specOf (finalStk [] ops)).utxos ∧
      s'.events.Perm (specOf (finalStk [] ops)).events ∧
      s'.balance = matureSum (specOf (finalStk [] ops)).height (specOf (finalStk [] ops)).utxos ∧
      s'.immature = immatureSum (specOf (finalStk [] ops)).height (specOf (finalStk [] ops)).utxos := by
  obtain ⟨s', hrun, hag, hm, _⟩ := C16_wallet_best_chain_gen asFound ops [] {} trivial
    ⟨List.Perm.refl _, List.Perm.refl _, rfl⟩ ⟨by simp [matureSum], by simp [immatureSum]⟩ hwf
  refine ⟨s', hrun, hag.utxos, hag.events, ?_, ?_⟩
  · rw [hm.1, hag.height, matureSum_perm _ hag.utxos]
  · rw [hm.2, hag.height, immatureSum_perm _ hag.utxos]

/-- every event of the specification names a block of the chain it was computed from -/
theorem spec_events_on_chain : ∀ (stk : List Diff) (e : Ev), e ∈ (specOf stk).events → ∃ d ∈ stk, d.blk = e.blk
  | [], e, h => by simp [specOf] at h
  | d :: below, e, h => by
    simp only [specOf, specApply, List.mem_append, List.mem_map] at h
    rcases h with h | ⟨i, _, rfl⟩
    · obtain ⟨d', hd', hb⟩ := spec_events_on_chain below e h
      exact ⟨d', List.mem_cons_of_mem _ hd', hb⟩
    · exact ⟨d, List.mem_cons_self .., rfl⟩

/-- **C16, event list.**  After any well-formed history the wallet's event list is, up to row order, the list
derived from the best chain alone, and no event refers to a block that is not on the best chain (in particular the
events of a disconnected block are gone, also when the block touched no wallet element). -/
theorem C16_events_best_chain (v : Variant) (ops : List Op) (hwf : WFops v [] ops) :
    ∃ s', run v {} ops = .ok s' ∧ s'.events.Perm (specOf (finalStk [] ops)).events ∧
      ∀ e ∈ s'.events, ∃ d ∈ finalStk [] ops, d.blk = e.blk := by
  obtain ⟨s', hrun, hag, _, _⟩ := C16_wallet_best_chain_gen v ops [] {} trivial
    ⟨List.Perm.refl _, List.Perm.refl _, rfl⟩ ⟨by simp [matureSum], by simp [immatureSum]⟩ hwf
  exact ⟨s', hrun, hag.events, fun e he => spec_events_on_chain _ e (hag.events.mem_iff.mp he)⟩

/-- a block whose only wallet activity is ephemeral (events, but neither a created nor a spent element):
disconnecting it removes its events -/
example : (run asFound {} [.apply ⟨0, 10, [], [], []⟩, .apply ⟨1, 11, [], [], [5, 6]⟩, .revert ⟨1, 11, [], [], [5, 6]⟩]).toOption.map (·.events)
    = some [] := by decide

/-- disconnecting the block that was just connected restores the wallet (up to row order) and the metrics -/
theorem C16_revert_undoes_apply (v : Variant) {stk : List Diff} {s : WState} {d : Diff}
    (hw : WFstack v stk) (hne : stk ≠ []) (hag : Agree s (specOf stk)) (hm : MInv s) (hd : WFdiff v stk d) :
    ∃ s', run v s [.apply d, .revert d] = .ok s' ∧ s'.utxos.Perm s.utxos ∧ s'.events.Perm s.events ∧
      s'.balance = s.balance ∧ s'.immature = s.immature ∧ s'.height = s.height := by
  obtain ⟨s', hrun, hag', hm', _⟩ := C16_wallet_best_chain_gen v [.apply d, .revert d] stk s hw hag hm
    ⟨hd, ⟨stk, rfl, hne⟩, trivial⟩
  simp only [finalStk, nextStk, List.tail_cons] at hag'
  refine ⟨s', hrun, hag'.utxos.trans hag.utxos.symm, hag'.events.trans hag.events.symm, ?_, ?_, ?_⟩
  · rw [hm'.1, hm.1, hag'.height, hag.height, matureSum_perm _ (hag'.utxos.trans hag.utxos.symm)]
  · rw [hm'.2, hm.2, hag'.height, hag.height, immatureSum_perm _ (hag'.utxos.trans hag.utxos.symm)]
  · rw [hag'.height, hag.height]

/-! ### the tree as found violates the property on a legal chain

Consensus accepts a transaction that spends an output with `MaturityHeight = h` in the block at
height `h` (`validation.go`: immature iff `MaturityHeight > childHeight`).  The host's own wallet
never builds such a transaction, but a competing fork may confirm the host's transaction one block
earlier than the chain on which it was broadcast. -/

def faultOf {α : Type} : Except Fault α → Option Fault
  | .error f => some f
  | .ok _ => none

/-- a payout of 300 to the host in block 1 maturing at height 3; block 3 spends it (change 299) -/
def exPay : Utxo := ⟨1, 300, 3⟩
def exHistMat : List Op :=
  [.apply ⟨0, 10, [], [], []⟩, .apply ⟨1, 11, [exPay], [], [1]⟩, .apply ⟨2, 12, [], [], []⟩,
   .apply ⟨3, 13, [⟨2, 299, 0⟩], [exPay], [2]⟩]

/-- the chain is legal for the repaired tree (hence for consensus: `spentBefore` is vacuous there) … -/
theorem exHistMat_wf : WFops repaired [] exHistMat := by
  simp [exHistMat, exPay, WFops, wfStep, nextStk, repaired]
  refine ⟨⟨?_, ?_, ?_, ?_, ?_, ?_, ?_, ?_, ?_, ?_⟩, ⟨?_, ?_, ?_, ?_, ?_, ?_, ?_, ?_, ?_, ?_⟩, ⟨?_, ?_, ?_, ?_, ?_, ?_, ?_, ?_, ?_, ?_⟩, ⟨?_, ?_, ?_, ?_, ?_, ?_, ?_, ?_, ?_, ?_⟩⟩ <;>
    simp [specOf, specApply, ids]

/-- … the repaired tree books it correctly … -/
theorem C16_spend_at_maturity_repaired :
    (run repaired {} exHistMat).toOption.map (fun s => (s.balance, s.immature)) = some (299, 0) := by decide

/-- **… and the tree as found panics** (`negative stat value: walletBalance`): the spent output is
subtracted from the mature balance although its maturation was never booked. -/
theorem C16_spend_at_maturity_violates : faultOf (run asFound {} exHistMat) = some .negBalance := by decide

/-- with a non-zero balance the tree as found does not panic but reports a wrong balance:
100 mature + payout 300 spent at its maturity height (change 299): balance 99 instead of 399,
immature 300 instead of 0 -/
def exHistMat2 : List Op :=
  [.apply ⟨0, 10, [], [], []⟩, .apply ⟨1, 11, [exPay, ⟨9, 100, 0⟩], [], [1]⟩, .apply ⟨2, 12, [], [], []⟩,
   .apply ⟨3, 13, [⟨2, 299, 0⟩], [exPay], [2]⟩]

theorem C16_spend_at_maturity_drift :
    (run asFound {} exHistMat2).toOption.map (fun s => (s.balance, s.immature, matureSum s.height s.utxos, immatureSum s.height s.utxos))
      = some (99, 300, 399, 0) := by decide

/-! ## Stored metrics: one row per bucket of the block timestamp -/

/-- while the block timestamps never step back into an older bucket (in processing order) the stored
metrics that `Metrics(now)` reports behave exactly like the single-value model -/
theorem C16_metrics_buckets_refine (v : Variant) (ops : List TOp) (s : BState) (t0 : Nat)
    (hb : newestBucket s.bal ≤ t0) (hi : newestBucket s.imm ≤ t0) (hm : TsMono t0 ops) :
    (runB v s ops).map flat = run v (flat s) (ops.map (·.op)) :=
  runB_refines v ops s t0 hb hi hm

/-- … hence, for the repaired tree and such timestamps, the stored metrics equal the sums over the
best chain's outputs -/
theorem C16_stored_metrics_best_chain (ops : List TOp) (hwf : WFops repaired [] (ops.map (·.op))) (hm : TsMono 0 ops) :
    ∃ s, runB repaired {} ops = .ok s ∧
      s.utxos.Perm (specOf (finalStk [] (ops.map (·.op)))).utxos ∧
      latest s.bal = matureSum (specOf (finalStk [] (ops.map (·.op)))).height (specOf (finalStk [] (ops.map (·.op)))).utxos ∧
      latest s.imm = immatureSum (specOf (finalStk [] (ops.map (·.op)))).height (specOf (finalStk [] (ops.map (·.op)))).utxos := by
  obtain ⟨s', hrun, hu, _, hb, hi⟩ := C16_wallet_best_chain (ops.map (·.op)) hwf
  have href := runB_refines repaired ops {} 0 (Nat.le_refl _) (Nat.le_refl _) hm
  have hflat : flat ({} : BState) = ({} : WState) := rfl
  rw [hflat, hrun] at href
  cases hB : runB repaired {} ops with
  | error e => rw [hB] at href; simp [Except.map] at href
  | ok sB =>
    rw [hB] at href
    simp only [Except.map, Except.ok.injEq] at href
    refine ⟨sB, rfl, ?_, ?_, ?_⟩
    · have : sB.utxos = s'.utxos := by rw [← href]; rfl
      rw [this]; exact hu
    · have : latest sB.bal = s'.balance := by rw [← href]; rfl
      rw [this]; exact hb
    · have : latest sB.imm = s'.immature := by rw [← href]; rfl
      rw [this]; exact hi

/-- **the tree as found violates the metrics clause** on a two-block reorg across a bucket boundary -/
theorem C16_metrics_bucket_reorg_violates :
    (∃ s, runB asFound {} BucketWitness.hist = .ok s ∧ s.utxos = [] ∧ s.events = [] ∧
        s.imm = [(2, 100), (1, 0)] ∧ latest s.imm = 100 ∧ latest s.imm ≠ 0) ∧
    (∃ w, run asFound {} (BucketWitness.hist.map (·.op)) = .ok w ∧ w.utxos = [] ∧ w.immature = 0) ∧
    ¬ TsMono 0 BucketWitness.hist :=
  bucket_reorg_violates

/-! ## The announcement record -/

/-- with the reverted block's own index compared: after any well-formed history of
`UpdateChainState` calls the record is empty or names a block of the best chain that contains a host
announcement -/
theorem C16_announcement_best_chain (stk : List ABlock) (hist : List (List ABlock × List ABlock))
    (hnd : (keysOf stk).Nodup) (hwf : WFhist stk hist) :
    ((runAnn .own {} stk hist).1 = {} ∨
      ∃ b ∈ (runAnn .own {} stk hist).2, (runAnn .own {} stk hist).1.idx = some b.key ∧ hasAnn b = true) ∧
    (keysOf (runAnn .own {} stk hist).2).Nodup :=
  C16_announcement_own stk hist hnd hwf

/-- … and one call sets the record to an announcing block it connects; otherwise clears it exactly
when the recorded block is among the disconnected ones; otherwise leaves it unchanged -/
theorem C16_announcement_cleared_iff_disconnected (r : AnnRec) (reverted applied : List ABlock) :
    (applied.any hasAnn = true →
      ∃ b ∈ applied, hasAnn b = true ∧ (annBatch .own r reverted applied).idx = some b.key) ∧
    (applied.any hasAnn = false → ∀ k, r.idx = some k → k ∈ keysOf reverted →
      (annBatch .own r reverted applied).idx = none ∧ (annBatch .own r reverted applied).addr = none ∧
      (annBatch .own r reverted applied).hash = none) ∧
    (applied.any hasAnn = false → (∀ k, r.idx = some k → k ∉ keysOf reverted) →
      annBatch .own r reverted applied = r) :=
  annBatch_own_spec r reverted applied

open AnnWitness in
/-- **the tree as found**: disconnecting only the announcing tip block leaves the record on a
disconnected block -/
theorem C16_announcement_as_found_not_cleared :
    (keysOf [a, g]).Nodup ∧ WFbatch [a, g] [a] [a', a''] ∧ AnnInv [a, g] rec ∧
    annBatch .parent rec [a] [a', a''] = rec ∧
    (annBatch .parent rec [a] [a', a'']).idx = some (1, 2) ∧
    (1, 2) ∉ keysOf (chainAfter [a, g] [a] [a', a'']) ∧
    ¬ AnnInv (chainAfter [a, g] [a] [a', a'']) (annBatch .parent rec [a] [a', a'']) ∧
    annBatch .own rec [a] [a', a''] = {} :=
  C16_announcement_parent_not_cleared

open AnnWitness in
/-- **the tree as found**: disconnecting only the block after the announcement clears the record
although the announcing block stays connected -/
theorem C16_announcement_as_found_cleared_wrongly :
    (keysOf [b, a, g]).Nodup ∧ WFbatch [b, a, g] [b] [b', b''] ∧ AnnInv [b, a, g] rec ∧
    [b', b''].any hasAnn = false ∧ (∀ k, rec.idx = some k → k ∉ keysOf [b]) ∧
    a ∈ chainAfter [b, a, g] [b] [b', b''] ∧ hasAnn a = true ∧ rec.idx = some a.key ∧
    annBatch .parent rec [b] [b', b''] = {} ∧
    annBatch .parent rec [b] [b', b''] ≠ rec ∧
    annBatch .own rec [b] [b', b''] = rec :=
  C16_announcement_parent_cleared_wrongly

/-- what still holds for the tree as found: connecting blocks records the announcement correctly
(histories without disconnections keep the invariant), and a reorg that disconnects both the
recorded block and its successor clears the record -/
theorem C16_announcement_as_found_partial :
    (∀ (r : AnnRec) (applied : List ABlock) (c : RevCmp),
      annBatch c r [] applied = annBatch .own r [] applied) ∧
    (∀ (stk : List ABlock) (hist : List (List ABlock × List ABlock)) (r : AnnRec),
      (keysOf stk).Nodup → WFhist stk hist → (∀ p ∈ hist, p.1 = []) → AnnInv stk r →
      AnnInv (runAnn .parent r stk hist).2 (runAnn .parent r stk hist).1) ∧
    (∀ (r : AnnRec) (reverted applied : List ABlock), applied.any hasAnn = true →
      ∃ b ∈ applied, hasAnn b = true ∧ (annBatch .parent r reverted applied).idx = some b.key) ∧
    (∀ (r : AnnRec) (reverted applied : List ABlock) (k : Key),
      r.idx = some k → k ∈ keysOf reverted → (∃ b ∈ reverted, b.parent = k) →
      applied.any hasAnn = false →
      (annBatch .parent r reverted applied).idx = none ∧ (annBatch .parent r reverted applied).addr = none ∧
      (annBatch .parent r reverted applied).hash = none) :=
  C16_announcement_parent_partial

/-! ### non-vacuity: a concrete reorg history meets the hypotheses -/

def exA : Diff := ⟨1, 11, [⟨1, 300, 6⟩], [], [1]⟩
def exB : Diff := ⟨2, 12, [⟨2, 300, 7⟩], [], [2]⟩
def exB' : Diff := ⟨2, 22, [], [], []⟩
def exHist : List Op :=
  [.apply ⟨0, 10, [], [], []⟩, .apply exA, .apply exB, .revert exB, .apply exB', .apply ⟨3, 23, [], [], []⟩]

example : WFops asFound [] exHist := by
  simp [exHist, exA, exB, exB', WFops, wfStep, nextStk, asFound]
  refine ⟨⟨?_, ?_, ?_, ?_, ?_, ?_, ?_, ?_, ?_, ?_⟩, ⟨?_, ?_, ?_, ?_, ?_, ?_, ?_, ?_, ?_, ?_⟩, ⟨?_, ?_, ?_, ?_, ?_, ?_, ?_, ?_, ?_, ?_⟩, ⟨?_, ?_, ?_, ?_, ?_, ?_, ?_, ?_, ?_, ?_⟩, ⟨?_, ?_, ?_, ?_, ?_, ?_, ?_, ?_, ?_, ?_⟩⟩ <;>
    simp [specOf, specApply, ids]

example : (run asFound {} exHist).toOption.map (fun s => (s.utxos, s.balance, s.immature, s.height)) =
    some ([⟨1, 300, 6⟩], 0, 300, 3) := by decide

end Hostd.Wallet
