import Hostd.Model.Query
/-!
C19 — Contract queries return exactly the matching contracts.

All theorems are about `Hostd.Query` (Model/Query.lean), for every filter,
every stored population and every limit/offset.  The builder's bound check is a
parameter (`Guard`); clauses that do not depend on it are proved for every
guard (so also for the code as found), the rejection clause is stated for the
guard the property demands (`guardSpec`) and refuted for `guardInverted`.
-/
namespace Hostd.Query

/-! ### the declarative specification -/

/-- A stored contract satisfies all *given* criteria (an empty list / a zero bound = not given). -/
def Matches (f : Filter) (r : Row) : Prop :=
  (f.statuses ≠ [] → r.status ∈ f.statuses) ∧
  (f.ids ≠ [] → r.id ∈ f.ids) ∧
  (f.renewedFrom ≠ [] → ∃ x, r.renewedFrom = some x ∧ x ∈ f.renewedFrom) ∧
  (f.renewedTo ≠ [] → ∃ x, r.renewedTo = some x ∧ x ∈ f.renewedTo) ∧
  (f.renters ≠ [] → r.renter ∈ f.renters) ∧
  (0 < f.minNeg → f.minNeg ≤ r.neg) ∧ (0 < f.maxNeg → r.neg ≤ f.maxNeg) ∧
  (0 < f.minExp → f.minExp ≤ r.exp) ∧ (0 < f.maxExp → r.exp ≤ f.maxExp)

/-- A minimum above its maximum. -/
def Contradictory (f : Filter) : Prop :=
  (0 < f.minNeg ∧ 0 < f.maxNeg ∧ f.maxNeg < f.minNeg) ∨
  (0 < f.minExp ∧ 0 < f.maxExp ∧ f.maxExp < f.minExp)

/-- ordered by the requested key in the requested direction (ties unordered) -/
def SortedBy (f : Filter) (l : List Row) : Prop :=
  l.Pairwise fun a b =>
    if f.desc then key f.sortField b ≤ key f.sortField a else key f.sortField a ≤ key f.sortField b

/-- two filters that differ at most in limit and offset -/
def SameCriteria (f f' : Filter) : Prop :=
  f'.statuses = f.statuses ∧ f'.ids = f.ids ∧ f'.renewedFrom = f.renewedFrom ∧ f'.renewedTo = f.renewedTo ∧
  f'.renters = f.renters ∧ f'.minNeg = f.minNeg ∧ f'.maxNeg = f.maxNeg ∧ f'.minExp = f.minExp ∧
  f'.maxExp = f.maxExp ∧ f'.sortField = f.sortField ∧ f'.desc = f.desc

/-! ### helper lemmas -/

theorem inClause_iff (l : List Nat) (v : Nat) : inClause l v = true ↔ (l ≠ [] → v ∈ l) := by
  cases l with
  | nil => simp [inClause]
  | cons a t => simp [inClause]

theorem inClauseOpt_iff (l : List Nat) (v : Option Nat) :
    inClauseOpt l v = true ↔ (l ≠ [] → ∃ x, v = some x ∧ x ∈ l) := by
  cases l with
  | nil => simp [inClauseOpt]
  | cons a t => cases v <;> simp [inClauseOpt]

theorem boundClause_ok {g : Guard} {e : Err} {mn mx : Nat} {p : Nat → Bool}
    (h : boundClause g e mn mx = .ok p) (x : Nat) :
    p x = true ↔ ((0 < mn → mn ≤ x) ∧ (0 < mx → x ≤ mx)) := by
  unfold boundClause at h
  split at h
  · split at h
    · cases h
    · cases h; simp; omega
  · split at h
    · cases h; simp; omega
    · split at h
      · cases h; simp; omega
      · cases h; simp; omega

theorem boundClause_error_iff (g : Guard) (e : Err) (mn mx : Nat) :
    (∃ e', boundClause g e mn mx = .error e') ↔ (0 < mn ∧ 0 < mx ∧ g mn mx = true) := by
  unfold boundClause
  by_cases h1 : mn > 0 ∧ mx > 0
  · by_cases h2 : g mn mx = true
    · simp [h1, h2]
    · simp [h1, h2]
  · simp only [h1, if_false]
    constructor
    · intro ⟨e', h⟩
      split at h
      · cases h
      · split at h <;> cases h
    · intro ⟨a, b, _⟩; exact absurd ⟨a, b⟩ h1

theorem buildFilter_error_iff (g : Guard) (f : Filter) :
    (∃ e, buildFilter g f = .error e) ↔
      (0 < f.minNeg ∧ 0 < f.maxNeg ∧ g f.minNeg f.maxNeg = true) ∨
      (0 < f.minExp ∧ 0 < f.maxExp ∧ g f.minExp f.maxExp = true) := by
  rw [← boundClause_error_iff g .negBounds, ← boundClause_error_iff g .expBounds]
  unfold buildFilter
  cases h1 : boundClause g .negBounds f.minNeg f.maxNeg with
  | error e => simp
  | ok pn =>
    cases h2 : boundClause g .expBounds f.minExp f.maxExp with
    | error e => simp
    | ok pe => simp

theorem matchesB_iff (f : Filter) (r : Row) : matchesB f r = true ↔ Matches f r := by
  have hs := inClause_iff f.statuses r.status
  have hi := inClause_iff f.ids r.id
  have hf := inClauseOpt_iff f.renewedFrom r.renewedFrom
  have ht := inClauseOpt_iff f.renewedTo r.renewedTo
  have hr := inClause_iff f.renters r.renter
  simp only [inClause, inClauseOpt] at hs hi hf ht hr
  unfold matchesB Matches
  simp only [Bool.and_eq_true, hs, hi, hf, ht, hr]
  have e1 : ∀ (m x : Nat), ((m == 0 || decide (m ≤ x)) = true) ↔ (0 < m → m ≤ x) := by
    intro m x; simp; omega
  have e2 : ∀ (m x : Nat), ((m == 0 || decide (x ≤ m)) = true) ↔ (0 < m → x ≤ m) := by
    intro m x; simp; omega
  rw [e1, e2, e1, e2]
  simp only [and_assoc]

/-! ### 1. the WHERE predicate is sound and complete w.r.t. `Matches` — for every guard -/

theorem filter_sound_complete (g : Guard) (f : Filter) (p : Row → Bool)
    (h : buildFilter g f = .ok p) (r : Row) : p r = true ↔ Matches f r := by
  unfold buildFilter at h
  cases h1 : boundClause g .negBounds f.minNeg f.maxNeg with
  | error e => simp [h1] at h
  | ok pn =>
    cases h2 : boundClause g .expBounds f.minExp f.maxExp with
    | error e => simp [h1, h2] at h
    | ok pe =>
      simp only [h1, h2] at h
      cases h
      have hn := boundClause_ok h1 r.neg
      have he := boundClause_ok h2 r.exp
      unfold Matches
      simp only [Bool.and_eq_true, inClause_iff, inClauseOpt_iff, hn, he, and_assoc]

/-- the builder's predicate and the executable spec are the same function -/
theorem filter_eq_matchesB (g : Guard) (f : Filter) (p : Row → Bool)
    (h : buildFilter g f = .ok p) : p = matchesB f := by
  funext r
  have a := filter_sound_complete g f p h r
  have b := matchesB_iff f r
  cases hp : p r <;> cases hm : matchesB f r <;> simp_all

/-! ### 2. rejection ⇔ contradictory bounds (for the guard the property demands) -/

theorem rejects_iff_contradictory (f : Filter) :
    (∃ e, buildFilter guardSpec f = .error e) ↔ Contradictory f := by
  rw [buildFilter_error_iff]
  simp [guardSpec, Contradictory]

/-- nothing is lost by rejecting: a contradictory filter matches no contract -/
theorem contradictory_matches_nothing (f : Filter) (h : Contradictory f) (r : Row) : ¬ Matches f r := by
  intro m
  obtain ⟨_, _, _, _, _, a, b, c, d⟩ := m
  rcases h with ⟨h1, h2, h3⟩ | ⟨h1, h2, h3⟩
  · have := a h1; have := b h2; omega
  · have := c h1; have := d h2; omega

/-- query level: an error is returned exactly for contradictory filters -/
theorem query_rejects_iff_contradictory (f : Filter) (rows : List Row) :
    (∃ e, query guardSpec f rows = .error e) ↔ Contradictory f := by
  rw [← rejects_iff_contradictory]
  unfold query
  cases h : buildFilter guardSpec f with
  | error e => simp
  | ok p => simp

/-- The guard found in the tree (`min < max ⇒ error`) is NOT the demanded one:
it refuses a satisfiable filter … -/
theorem inverted_guard_rejects_satisfiable :
    ∃ (f : Filter) (r : Row), (∃ e, buildFilter guardInverted f = .error e) ∧ ¬ Contradictory f ∧ Matches f r := by
  refine ⟨{ minNeg := 5, maxNeg := 10 }, ⟨1, 0, 0, none, none, 7, 0⟩, ?_, ?_, ?_⟩
  · exact ⟨.negBounds, rfl⟩
  · simp [Contradictory]
  · simp [Matches]

/-- … and lets a contradictory one through. -/
theorem inverted_guard_accepts_contradictory :
    ∃ (f : Filter) (p : Row → Bool), buildFilter guardInverted f = .ok p ∧ Contradictory f := by
  refine ⟨{ minExp := 10, maxExp := 5 }, _, rfl, ?_⟩
  simp [Contradictory]

/-! ### 3. the count is the number of matches, whatever limit and offset are -/

theorem count_eq_matches (g : Guard) (f : Filter) (rows pg : List Row) (n : Nat)
    (h : query g f rows = .ok (pg, n)) : n = (rows.filter (matchesB f)).length := by
  unfold query at h
  cases hb : buildFilter g f with
  | error e => simp [hb] at h
  | ok p =>
    simp only [hb] at h
    cases h
    rw [filter_eq_matchesB g f p hb]

theorem buildFilter_congr (g : Guard) (f f' : Filter) (hc : SameCriteria f f') :
    buildFilter g f' = buildFilter g f := by
  obtain ⟨h1, h2, h3, h4, h5, h6, h7, h8, h9, _, _⟩ := hc
  unfold buildFilter
  rw [h1, h2, h3, h4, h5, h6, h7, h8, h9]

theorem count_independent_of_page (g : Guard) (f f' : Filter) (hc : SameCriteria f f')
    (rows pg : List Row) (n : Nat) (h : query g f rows = .ok (pg, n)) :
    ∃ pg', query g f' rows = .ok (pg', n) := by
  unfold query at h ⊢
  rw [buildFilter_congr g f f' hc]
  cases hb : buildFilter g f with
  | error e => simp [hb] at h
  | ok p =>
    simp only [hb] at h
    cases h
    exact ⟨_, rfl⟩

/-! ### 4. a page is the slice [offset, offset+limit) of the full ordered result -/

/-- the full ordered result: all matching stored rows, in the requested order -/
def fullResult (f : Filter) (rows : List Row) : List Row := sortRows f (rows.filter (matchesB f))

theorem rowLe_trans (f : Filter) (a b c : Row) : rowLe f a b = true → rowLe f b c = true → rowLe f a c = true := by
  unfold rowLe; cases f.desc <;> simp <;> omega

theorem rowLe_total (f : Filter) (a b : Row) : (rowLe f a b || rowLe f b a) = true := by
  unfold rowLe; cases f.desc <;> simp <;> omega

theorem insertRow_perm (f : Filter) (a : Row) : ∀ l : List Row, (insertRow f a l).Perm (a :: l)
  | [] => List.Perm.refl _
  | b :: t => by
    unfold insertRow
    split
    · exact List.Perm.refl _
    · exact ((insertRow_perm f a t).cons b).trans (List.Perm.swap a b t)

theorem sortRows_perm (f : Filter) : ∀ l : List Row, (sortRows f l).Perm l
  | [] => List.Perm.refl _
  | a :: t => by
    unfold sortRows
    exact (insertRow_perm f a _).trans ((sortRows_perm f t).cons a)

theorem insertRow_sorted (f : Filter) (a : Row) : ∀ l : List Row,
    l.Pairwise (fun x y => rowLe f x y = true) → (insertRow f a l).Pairwise (fun x y => rowLe f x y = true)
  | [], _ => by simp [insertRow]
  | b :: t, h => by
    unfold insertRow
    rw [List.pairwise_cons] at h
    split
    · rename_i hab
      refine List.pairwise_cons.2 ⟨?_, List.pairwise_cons.2 h⟩
      intro x hx
      rcases List.mem_cons.1 hx with e | hx'
      · rw [e]; exact hab
      · exact rowLe_trans f a b x hab (h.1 x hx')
    · rename_i hab
      have hba : rowLe f b a = true := by
        have := rowLe_total f a b
        cases h1 : rowLe f a b <;> simp_all
      refine List.pairwise_cons.2 ⟨?_, insertRow_sorted f a t h.2⟩
      intro x hx
      rcases List.mem_cons.1 ((insertRow_perm f a t).subset hx) with e | hx'
      · rw [e]; exact hba
      · exact h.1 x hx'

theorem sortRows_pairwise (f : Filter) : ∀ l : List Row, (sortRows f l).Pairwise (fun x y => rowLe f x y = true)
  | [] => List.Pairwise.nil
  | a :: t => by
    unfold sortRows
    exact insertRow_sorted f a _ (sortRows_pairwise f t)

theorem sortRows_sorted (f : Filter) (l : List Row) : SortedBy f (sortRows f l) := by
  have h := sortRows_pairwise f l
  unfold SortedBy
  refine h.imp ?_
  intro a b hab
  unfold rowLe at hab
  cases hd : f.desc <;> simp [hd] at hab ⊢ <;> exact hab

/-- the rows a query selects are exactly the stored rows satisfying the criteria -/
theorem selected_iff_matches (f : Filter) (rows : List Row) (r : Row) :
    r ∈ fullResult f rows ↔ (r ∈ rows ∧ Matches f r) := by
  unfold fullResult
  rw [(sortRows_perm _ _).mem_iff, List.mem_filter, matchesB_iff]

/-- the full result is a rearrangement of exactly the matching stored rows … -/
theorem full_is_perm_of_matches (f : Filter) (rows : List Row) :
    (fullResult f rows).Perm (rows.filter (matchesB f)) := sortRows_perm _ _

/-- … ordered by the requested key -/
theorem full_sorted (f : Filter) (rows : List Row) : SortedBy f (fullResult f rows) := sortRows_sorted _ _

theorem insertRow_congr (f f' : Filter) (h : rowLe f' = rowLe f) (a : Row) :
    ∀ l : List Row, insertRow f' a l = insertRow f a l
  | [] => rfl
  | b :: t => by unfold insertRow; rw [h, insertRow_congr f f' h a t]

theorem sortRows_congr (f f' : Filter) (hc : SameCriteria f f') : ∀ l : List Row, sortRows f' l = sortRows f l
  | [] => rfl
  | a :: t => by
    have h : rowLe f' = rowLe f := by
      obtain ⟨_, _, _, _, _, _, _, _, _, hs, hd⟩ := hc
      funext a b; unfold rowLe; rw [hs, hd]
    unfold sortRows
    rw [sortRows_congr f f' hc t, insertRow_congr f f' h]

theorem matchesB_congr (f f' : Filter) (hc : SameCriteria f f') : matchesB f' = matchesB f := by
  obtain ⟨h1, h2, h3, h4, h5, h6, h7, h8, h9, _, _⟩ := hc
  funext r; unfold matchesB; rw [h1, h2, h3, h4, h5, h6, h7, h8, h9]

/-- the full result does not depend on limit/offset -/
theorem full_independent_of_page (f f' : Filter) (hc : SameCriteria f f') (rows : List Row) :
    fullResult f' rows = fullResult f rows := by
  unfold fullResult; rw [matchesB_congr f f' hc, sortRows_congr f f' hc]

theorem page_is_slice (g : Guard) (f : Filter) (rows pg : List Row) (n : Nat)
    (h : query g f rows = .ok (pg, n)) :
    pg = ((fullResult f rows).drop f.offset).take (effLimit f.limit) ∧ n = (fullResult f rows).length := by
  have hn := count_eq_matches g f rows pg n h
  unfold query at h
  cases hb : buildFilter g f with
  | error e => simp [hb] at h
  | ok p =>
    simp only [hb] at h
    cases h
    rw [filter_eq_matchesB g f p hb]
    refine ⟨rfl, ?_⟩
    rw [(full_is_perm_of_matches f rows).length_eq]

/-- limit normalisation: 1..100 is taken literally, everything else (0, negative, > 100) means 100 -/
theorem effLimit_cases (l : Int) :
    (1 ≤ l ∧ l ≤ 100 ∧ (effLimit l : Int) = l) ∨ ((l ≤ 0 ∨ 100 < l) ∧ effLimit l = 100) := by
  unfold effLimit
  by_cases h : l ≤ 0 ∨ l > 100
  · right; simp [h]
  · left; simp [h]; omega

/-- the API's own clamp (500) in front of the store's clamp (100) changes nothing -/
theorem api_clamp_irrelevant (l : Int) : effLimit (apiClamp l) = effLimit l := by
  unfold effLimit apiClamp
  by_cases h : l ≤ 0 ∨ l > 500
  · have : l ≤ 0 ∨ l > 100 := by omega
    simp [h, this]
  · simp [h]

/-- consecutive pages tile the full result: nothing skipped, nothing repeated -/
theorem pages_tile (l : List Row) (o a b : Nat) :
    (l.drop o).take a ++ (l.drop (o + a)).take b = (l.drop o).take (a + b) := by
  rw [List.take_add, List.drop_drop]

/-- an offset at or beyond the number of matches yields an empty page (the count is still reported) -/
theorem offset_beyond_result_empty (g : Guard) (f : Filter) (rows pg : List Row) (n : Nat)
    (h : query g f rows = .ok (pg, n)) (ho : n ≤ f.offset) : pg = [] := by
  obtain ⟨hp, hn⟩ := page_is_slice g f rows pg n h
  rw [hp, List.drop_eq_nil_of_le (by omega)]; simp

/-- a page never holds more than the effective limit, and exactly `min limit (n - offset)` rows -/
theorem page_length (g : Guard) (f : Filter) (rows pg : List Row) (n : Nat)
    (h : query g f rows = .ok (pg, n)) : pg.length = min (effLimit f.limit) (n - f.offset) := by
  obtain ⟨hp, hn⟩ := page_is_slice g f rows pg n h
  rw [hp, hn]; simp

/-! ### 5. the page is ordered by the requested key (ties unordered) -/

theorem sorted_by_requested_key (g : Guard) (f : Filter) (rows pg : List Row) (n : Nat)
    (h : query g f rows = .ok (pg, n)) : SortedBy f pg := by
  obtain ⟨hp, _⟩ := page_is_slice g f rows pg n h
  rw [hp]
  exact ((full_sorted f rows).sublist (List.drop_sublist _ _)).sublist (List.take_sublist _ _)

/-- every returned row is a stored row that satisfies all criteria -/
theorem page_rows_match (g : Guard) (f : Filter) (rows pg : List Row) (n : Nat)
    (h : query g f rows = .ok (pg, n)) (r : Row) (hr : r ∈ pg) : r ∈ rows ∧ Matches f r := by
  obtain ⟨hp, _⟩ := page_is_slice g f rows pg n h
  rw [hp] at hr
  have : r ∈ fullResult f rows := List.mem_of_mem_drop (List.mem_of_mem_take hr)
  exact (selected_iff_matches f rows r).1 this

/-- when the page window covers the whole result, every matching stored row is returned -/
theorem page_complete_when_it_fits (g : Guard) (f : Filter) (rows pg : List Row) (n : Nat)
    (h : query g f rows = .ok (pg, n)) (h0 : f.offset = 0) (hl : n ≤ effLimit f.limit)
    (r : Row) (hr : r ∈ rows) (hm : Matches f r) : r ∈ pg := by
  obtain ⟨hp, hn⟩ := page_is_slice g f rows pg n h
  rw [hp, h0, List.drop_zero, List.take_of_length_le (by omega)]
  exact (selected_iff_matches f rows r).2 ⟨hr, hm⟩

/-! ### 6. the driver's acceptance test never refuses a correct answer

`pageOk` compares the observed page with the model's page *per key*, because SQL
leaves the order among equal keys open.  Any answer that is the requested slice of
SOME correctly ordered arrangement of the matching rows passes it. -/

theorem sorted_keys_unique : ∀ (l₁ l₂ : List Nat), l₁.Perm l₂ →
    l₁.Pairwise (· ≤ ·) → l₂.Pairwise (· ≤ ·) → l₁ = l₂
  | [], l₂, hp, _, _ => by simpa using hp.symm.eq_nil
  | a :: t₁, [], hp, _, _ => by simpa using hp.eq_nil
  | a :: t₁, b :: t₂, hp, h1, h2 => by
    rw [List.pairwise_cons] at h1 h2
    have hab : a = b := by
      have ha : a ∈ b :: t₂ := hp.subset (List.mem_cons_self)
      have hb : b ∈ a :: t₁ := hp.symm.subset (List.mem_cons_self)
      rcases List.mem_cons.1 ha with e | ha'
      · exact e
      · rcases List.mem_cons.1 hb with e | hb'
        · exact e.symm
        · have := h1.1 b hb'; have := h2.1 a ha'; omega
    subst hab
    rw [sorted_keys_unique t₁ t₂ (List.Perm.cons_inv hp) h1.2 h2.2]

theorem sorted_keys_unique_ge (l₁ l₂ : List Nat) (hp : l₁.Perm l₂)
    (h1 : l₁.Pairwise (· ≥ ·)) (h2 : l₂.Pairwise (· ≥ ·)) : l₁ = l₂ := by
  have := sorted_keys_unique l₁.reverse l₂.reverse
    ((List.reverse_perm l₁).trans (hp.trans (List.reverse_perm l₂).symm))
    (by rw [List.pairwise_reverse]; exact h1) (by rw [List.pairwise_reverse]; exact h2)
  simpa using congrArg List.reverse this

theorem keys_of_sorted_perm (f : Filter) (s₁ s₂ : List Row) (hp : s₁.Perm s₂)
    (h1 : SortedBy f s₁) (h2 : SortedBy f s₂) :
    s₁.map (key f.sortField) = s₂.map (key f.sortField) := by
  unfold SortedBy at h1 h2
  cases hd : f.desc
  · simp only [hd] at h1 h2
    exact sorted_keys_unique _ _ (hp.map _) (List.pairwise_map.2 (by simpa using h1)) (List.pairwise_map.2 (by simpa using h2))
  · simp only [hd] at h1 h2
    exact sorted_keys_unique_ge _ _ (hp.map _) (List.pairwise_map.2 (by simpa using h1)) (List.pairwise_map.2 (by simpa using h2))

theorem nodupIds_of_nodup_ids : ∀ (l : List Row), (l.map (·.id)).Nodup → nodupIds l = true
  | [], _ => rfl
  | a :: t, h => by
    rw [List.map_cons, List.nodup_cons] at h
    unfold nodupIds
    rw [nodupIds_of_nodup_ids t h.2]
    simp only [Bool.and_true, Bool.not_eq_true', List.any_eq_false]
    intro x hx hxa
    exact h.1 (List.mem_map.2 ⟨x, hx, by simpa using hxa⟩)

/-- no false alarm: if the stored matching rows `ms` have distinct ids and the implementation
answered with the slice of some arrangement `s` of them that is ordered by the requested key,
the driver's test accepts it. -/
theorem pageOk_complete (f : Filter) (ms s : List Row) (hid : (ms.map (·.id)).Nodup)
    (hp : s.Perm ms) (hs : SortedBy f s) : pageOk f ms (page f s) = true := by
  unfold pageOk
  have hk := keys_of_sorted_perm f s (sortRows f ms) (hp.trans (sortRows_perm f ms).symm) hs (sortRows_sorted f ms)
  have hsub : (page f s).Sublist s := (List.take_sublist _ _).trans (List.drop_sublist _ _)
  simp only [Bool.and_eq_true, beq_iff_eq, List.all_eq_true, List.contains_iff_mem]
  refine ⟨⟨?_, ?_⟩, ?_⟩
  · unfold page
    rw [List.map_take, List.map_drop, List.map_take, List.map_drop, hk]
  · intro r hr
    exact hp.subset (hsub.subset hr)
  · apply nodupIds_of_nodup_ids
    have : ((page f s).map (·.id)).Sublist (s.map (·.id)) := hsub.map _
    exact this.nodup ((hp.map _).nodup_iff.2 hid)

/-- the driver's Boolean tests are the specification's predicates -/
theorem contradictoryB_iff (f : Filter) : contradictoryB f = true ↔ Contradictory f := by
  simp [contradictoryB, Contradictory, and_assoc]

theorem rowLe_iff (f : Filter) (a b : Row) : rowLe f a b = true ↔
    (if f.desc then key f.sortField b ≤ key f.sortField a else key f.sortField a ≤ key f.sortField b) := by
  unfold rowLe; cases f.desc <;> simp

theorem keysSortedB_iff (f : Filter) : ∀ l : List Row, keysSortedB f l = true ↔ SortedBy f l
  | [] => by simp [keysSortedB, SortedBy]
  | [a] => by simp [keysSortedB, SortedBy]
  | a :: b :: t => by
    have ih := keysSortedB_iff f (b :: t)
    unfold SortedBy at ih ⊢
    rw [keysSortedB, Bool.and_eq_true, ih, List.pairwise_cons (l := b :: t)]
    constructor
    · intro ⟨hab, hbt⟩
      refine ⟨?_, hbt⟩
      intro x hx
      rcases List.mem_cons.1 hx with e | hx'
      · rw [e]; exact (rowLe_iff f a b).1 hab
      · have hbx := (List.pairwise_cons.1 hbt).1 x hx'
        exact (rowLe_iff f a x).1 (rowLe_trans f a b x hab ((rowLe_iff f b x).2 hbx))
    · intro ⟨ha, hbt⟩
      exact ⟨(rowLe_iff f a b).2 (ha b List.mem_cons_self), hbt⟩

/-! ### non-vacuity: concrete populations, filters and pages -/

/-- observable part of an answer: ids in order and the count (`none` = rejected) -/
def answer (r : Except Err (List Row × Nat)) : Option (List Nat × Nat) :=
  match r with
  | .ok (pg, n) => some (pg.map (·.id), n)
  | .error _ => none

def exRows : List Row :=
  [ ⟨1, 2, 0, none, some 2, 10, 50⟩, ⟨2, 2, 0, some 1, none, 20, 40⟩, ⟨3, 0, 1, none, none, 20, 40⟩,
    ⟨4, 4, 1, none, none, 30, 30⟩, ⟨5, 2, 2, none, none, 15, 45⟩ ]

/-- both bounds set, min < max, accepted by the demanded guard, three rows match -/
example : answer (query guardSpec { minNeg := 15, maxNeg := 20, sortField := .negotiation } exRows) = some ([5, 2, 3], 3) := by decide +kernel
/-- equal bounds are not contradictory -/
example : answer (query guardSpec { minExp := 40, maxExp := 40, sortField := .status, desc := true } exRows) = some ([2, 3], 2) := by decide +kernel
/-- min above max is rejected by the demanded guard -/
example : answer (query guardSpec { minNeg := 20, maxNeg := 15 } exRows) = none := by decide +kernel
example : Contradictory { minNeg := 20, maxNeg := 15 } := by simp [Contradictory]
/-- the guard of the unchanged tree rejects the satisfiable filter instead -/
example : answer (query guardInverted { minNeg := 15, maxNeg := 20 } exRows) = none := by decide +kernel
/-- limit 1 / offset 1: count stays 3, page is the second element of the full order -/
example : answer (query guardSpec { statuses := [2], limit := 1, offset := 1 } exRows) = some ([5], 3) := by decide +kernel
/-- offset beyond the result -/
example : answer (query guardSpec { statuses := [2], limit := 101, offset := 7 } exRows) = some ([], 3) := by decide +kernel
/-- renewal links and renter keys -/
example : answer (query guardSpec { renewedFrom := [1] } exRows) = some ([2], 1) := by decide +kernel
example : answer (query guardSpec { renewedTo := [2], renters := [0, 1] } exRows) = some ([1], 1) := by decide +kernel
example : Matches { minNeg := 15, maxNeg := 20 } ⟨3, 0, 1, none, none, 20, 40⟩ := by simp [Matches]
example : SameCriteria { statuses := [2], limit := 1, offset := 1 } { statuses := [2], limit := 50 } := by
  simp [SameCriteria]
/-- a tie (rows 2 and 3 share expiration 40) returned in the other order still passes the driver's test -/
example : pageOk { } exRows
    [⟨4, 4, 1, none, none, 30, 30⟩, ⟨3, 0, 1, none, none, 20, 40⟩, ⟨2, 2, 0, some 1, none, 20, 40⟩,
     ⟨5, 2, 2, none, none, 15, 45⟩, ⟨1, 2, 0, none, some 2, 10, 50⟩] = true := by decide +kernel
/-- … a wrongly ordered one does not -/
example : pageOk { } exRows
    [⟨3, 0, 1, none, none, 20, 40⟩, ⟨4, 4, 1, none, none, 30, 30⟩, ⟨2, 2, 0, some 1, none, 20, 40⟩,
     ⟨5, 2, 2, none, none, 15, 45⟩, ⟨1, 2, 0, none, some 2, 10, 50⟩] = false := by decide +kernel

end Hostd.Query
