import Hostd.Lemmas.SectorsOps
/-!
C13 — Renewal hands the data over to the successor contract.

All theorems are about `Hostd.Sectors` (Model/Sectors.lean): `renewV1`/`renewV2` (manager checks, one store
transaction: insert, link both ways, move rows; cache hand-over), `lockV1`/`lockV2`/`reviseV2` (refusal of
superseded contracts).  They hold in every world reachable by ANY history (`run_good`), hence for renewal
chains of any length; `chain_handover_v1` spells the chain out.  Helper lemmas: Lemmas/Sectors*.lean.
-/
set_option linter.unusedSectionVars false
set_option linter.unusedSimpArgs false
namespace Hostd.Sectors
variable {H : Type} [DecidableEq H]

/-! ### the successor starts with exactly the predecessor's list, size and root -/

/-- what an accepted renewal leaves behind, in terms of the world before it -/
structure HandedOver (P : Params H) (w w' : World H) (old new : Nat) : Prop where
  pred       : ∃ o, findC w.db.contracts old = some o ∧ o.renewedTo = none ∧
                 ∃ n, findC w'.db.contracts new = some n ∧
                   -- list, as persisted and as served
                   load n.rows = load o.rows ∧ cacheGet w'.cache new = load o.rows ∧
                   load o.rows = cacheGet w.cache old ∧
                   -- size and root: equal to the predecessor's and committing to the list
                   n.rev.filesize = o.rev.filesize ∧ n.rev.merkle = o.rev.merkle ∧
                   n.rev.filesize = P.sectorSize * (load n.rows).length ∧ n.rev.merkle = P.metaRoot (load n.rows) ∧
                   -- links
                   n.renewedFrom = some old ∧ n.renewedTo = none ∧ n.v2 = o.v2 ∧
                   ∃ o', findC w'.db.contracts old = some o' ∧ o'.renewedTo = some new ∧ o'.rows = [] ∧
                     o'.renewedFrom = o.renewedFrom
  fresh      : findC w.db.contracts new = none
  others     : ∀ j, j ≠ old → j ≠ new → findC w'.db.contracts j = findC w.db.contracts j ∧
                 cacheGet w'.cache j = cacheGet w.cache j
  stored     : w'.db.stored = w.db.stored
  references : ∀ r, refs w'.db r = refs w.db r

theorem handedOver_of_renewedWorld (P : Params H) (w : World H) (g : Good P w) (v2 : Bool) (old new : Nat)
    (o : Contract H) (ho : findC w.db.contracts old = some o) (hl : o.renewedTo = none) (hv : o.v2 = v2)
    (hn : findC w.db.contracts new = none) (nr : Rev H) (clr : Option (Rev H))
    (hfs : nr.filesize = P.sectorSize * (cacheGet w.cache old).length)
    (hmk : nr.merkle = P.metaRoot (cacheGet w.cache old)) :
    HandedOver P w (renewedWorld w v2 old new o nr clr) old new := by
  have hlive := g.live o (findC_some ho).1 hl
  rw [(findC_some ho).2] at hlive
  have hload : load o.rows = cacheGet w.cache old := by rw [hlive.1, load_mkRows]
  refine ⟨⟨o, ho, hl, successor o v2 old new nr, findC_renewed_new w v2 old new o nr clr hn, ?_⟩, hn, ?_, rfl, ?_⟩
  · refine ⟨rfl, ?_, hload, ?_, ?_, ?_, ?_, rfl, rfl, hv.symm, superseded new clr o,
      findC_renewed_old w v2 old new o nr clr ho, rfl, rfl, rfl⟩
    · simp [renewedWorld, cacheGet_set, hload]
    · show nr.filesize = o.rev.filesize
      rw [hfs, hlive.2.1]
    · show nr.merkle = o.rev.merkle
      rw [hmk, hlive.2.2]
    · show nr.filesize = P.sectorSize * (load o.rows).length
      rw [hload]; exact hfs
    · show nr.merkle = P.metaRoot (load o.rows)
      rw [hload]; exact hmk
  · intro j h1 h2
    refine ⟨findC_renewed_other w v2 old new o nr clr j h1 h2, ?_⟩
    have : ¬ new = j := fun h => h2 h.symm
    simp [renewedWorld, cacheGet_set, this]
  · intro r
    exact refs_renewedWorld P w g v2 old new o ho nr clr r

/-- **v1** (RHP2 renew-and-clear, RHP3 renew): an accepted renewal hands the list, size and root over. -/
theorem renewal_hands_over_v1 (P : Params H) (w : World H) (g : Good P w) (old new : Nat) (renewal clearing : Rev H)
    (fault : Option Nat)
    (h : (stepOp P w (.renew1 old new renewal clearing fault)).2.1.accepted = true) :
    HandedOver P w (stepOp P w (.renew1 old new renewal clearing fault)).1 old new := by
  have e := step_effect P w g (.renew1 old new renewal clearing fault) trivial
  generalize (stepOp P w (.renew1 old new renewal clearing fault)).1 = w' at e ⊢
  generalize (stepOp P w (.renew1 old new renewal clearing fault)).2.1.accepted = a at e h
  cases e with
  | unchanged => cases h
  | renewed1 _ _ _ _ _ c hc hv hl hn hfs hmk hnum =>
    exact handedOver_of_renewedWorld P w g false old new c hc hl hv hn renewal (some clearing) hfs hmk

/-- **v2** (RHP4 renew / refresh). -/
theorem renewal_hands_over_v2 (P : Params H) (w : World H) (g : Good P w) (old new : Nat) (fc : Rev H)
    (force : Bool) (fault : Option Nat)
    (h : (stepOp P w (.renew2 old new fc force fault)).2.1.accepted = true) :
    HandedOver P w (stepOp P w (.renew2 old new fc force fault)).1 old new := by
  have e := step_effect P w g (.renew2 old new fc force fault) trivial
  generalize (stepOp P w (.renew2 old new fc force fault)).1 = w' at e ⊢
  generalize (stepOp P w (.renew2 old new fc force fault)).2.1.accepted = a at e h
  cases e with
  | unchanged => cases h
  | renewed2 _ _ _ _ _ c hc hv hl hn hfs hmk hcap =>
    exact handedOver_of_renewedWorld P w g true old new c hc hl hv hn fc none hfs hmk

/-- every root keeps at least one reference across a renewal (so the storage prune never reclaims it) -/
theorem roots_keep_reference (P : Params H) (w w' : World H) (old new : Nat) (h : HandedOver P w w' old new)
    (r : Root) (hr : 1 ≤ refs w.db r) : 1 ≤ refs w'.db r := by
  rw [h.references r]; exact hr

/-! ### links are mutual and acyclic, in every reachable world -/

theorem links_mutual (P : Params H) (ops : List (Op H)) (hops : ∀ op ∈ ops, OpOK P op) :
    (∀ c ∈ (run P World.empty ops).db.contracts, ∀ s, c.renewedTo = some s →
        ∃ c', findC (run P World.empty ops).db.contracts s = some c' ∧ c'.renewedFrom = some c.id ∧ c'.v2 = c.v2) ∧
    (∀ c ∈ (run P World.empty ops).db.contracts, ∀ p, c.renewedFrom = some p →
        ∃ c', findC (run P World.empty ops).db.contracts p = some c' ∧ c'.renewedTo = some c.id) := by
  have g := run_good P World.empty (Good.empty P) ops hops
  exact ⟨fun c hc s hs => (g.dead c hc s hs).2.2, g.back⟩

/-- position of a contract in creation order -/
def rank (cs : List (Contract H)) (id : Nat) : Nat := (cs.map (·.id)).idxOf id

theorem rank_lt_of_forward (cs : List (Contract H)) (hn : (cs.map (·.id)).Nodup) (hf : Forward cs)
    (c : Contract H) (hc : c ∈ cs) (s : Nat) (hs : c.renewedTo = some s) (hmem : s ∈ cs.map (·.id)) :
    rank cs c.id < rank cs s := by
  induction cs with
  | nil => simp at hc
  | cons a rest ih =>
    simp only [List.map_cons, List.nodup_cons] at hn
    have hpw := List.pairwise_cons.mp hf.1
    have hself := hf.2
    simp only [rank, List.map_cons, List.idxOf_cons]
    rcases List.mem_cons.mp hc with h | h
    · subst h
      have hne : ¬ c.id = s := by
        intro e; exact hself c List.mem_cons_self (by rw [hs, e])
      have hb : (c.id == s) = false := beq_false_of_ne hne
      simp [hb]
    · have hne1 : ¬ a.id = c.id := by
        intro e; apply hn.1; rw [e]; exact List.mem_map.mpr ⟨c, h, rfl⟩
      have hne2 : ¬ a.id = s := by
        intro e; exact hpw.1 c h (by rw [hs, e])
      have hmem' : s ∈ rest.map (·.id) := by
        simp only [List.map_cons, List.mem_cons] at hmem
        rcases hmem with e | e
        · exact absurd e.symm hne2
        · exact e
      have := ih hn.2 ⟨hpw.2, fun c' hc' => hself c' (List.mem_cons_of_mem _ hc')⟩ h hmem'
      simp only [rank] at this
      have hb1 : (a.id == c.id) = false := beq_false_of_ne hne1
      have hb2 : (a.id == s) = false := beq_false_of_ne hne2
      simp only [hb1, hb2, cond_false]
      omega

/-- **Acyclic**: creation order is a topological order of the renewal links — following `renewedTo` strictly
increases the rank, so no chain of renewals of any length returns to a contract it passed. -/
theorem links_acyclic (P : Params H) (ops : List (Op H)) (hops : ∀ op ∈ ops, OpOK P op) :
    ∀ c ∈ (run P World.empty ops).db.contracts, ∀ s, c.renewedTo = some s →
      rank (run P World.empty ops).db.contracts c.id < rank (run P World.empty ops).db.contracts s := by
  have g := run_good P World.empty (Good.empty P) ops hops
  intro c hc s hs
  obtain ⟨_, _, c', hc', _, _⟩ := g.dead c hc s hs
  have hmem : s ∈ (run P World.empty ops).db.contracts.map (·.id) := by
    have := findC_some hc'
    exact List.mem_map.mpr ⟨c', this.1, this.2⟩
  exact rank_lt_of_forward _ g.nodup g.forward c hc s hs hmem

/-! ### the predecessor refuses, the successor accepts -/

/-- v1: a superseded contract is at the final revision number, `Manager.Lock` refuses it, and so every
RPC that would modify or renew it stops before touching anything. -/
theorem predecessor_refuses_v1 (P : Params H) (w : World H) (g : Good P w) (c : Contract H) (hc : c ∈ w.db.contracts)
    (s : Nat) (hs : c.renewedTo = some s) (hv : c.v2 = false) :
    lockV1 w P c.id = false ∧
    (∀ acts rn abort fault, stepOp P w (.rpc1 c.id acts rn abort fault) = (w, .refused, [])) ∧
    (∀ new renewal clearing fault, stepOp P w (.renew1 c.id new renewal clearing fault) = (w, .refused, [])) := by
  have hf := findC_of_mem_nodup g.nodup hc
  have hnum := (g.dead c hc s hs).2.1 hv
  have hlock : lockV1 w P c.id = false := by simp [lockV1, hf, hv, hnum]
  refine ⟨hlock, ?_, ?_⟩
  · intro acts rn abort fault; simp [stepOp, hlock]
  · intro new renewal clearing fault; simp [stepOp, hlock]

/-- v2: a superseded contract reports Renewed and not Revisable, `ReviseV2Contract` rejects it, and a further
renewal (even one that skips the Revisable check) is not accepted; nothing changes. -/
theorem predecessor_refuses_v2 (P : Params H) (w : World H) (g : Good P w) (c : Contract H) (hc : c ∈ w.db.contracts)
    (s : Nat) (hs : c.renewedTo = some s) (hv : c.v2 = true) :
    (∀ heightOK, lockV2 w c.id heightOK = some (true, false, cacheGet w.cache c.id)) ∧
    (∀ r nr fault, reviseV2 P w c.id r nr fault = (w, .reject)) ∧
    (∀ new fc force fault, (stepOp P w (.renew2 c.id new fc force fault)).2.1.accepted = false ∧
                           (stepOp P w (.renew2 c.id new fc force fault)).1 = w) := by
  have hf := findC_of_mem_nodup g.nodup hc
  refine ⟨?_, ?_, ?_⟩
  · intro hok; simp [lockV2, hf, hv, hs]
  · intro r nr fault; simp [reviseV2, hf, hv, hs]
  · intro new fc force fault
    have hacc : (stepOp P w (.renew2 c.id new fc force fault)).2.1.accepted = false := by
      have e := step_effect P w g (.renew2 c.id new fc force fault) trivial
      generalize (stepOp P w (.renew2 c.id new fc force fault)).1 = w' at e
      generalize (stepOp P w (.renew2 c.id new fc force fault)).2.1.accepted = a at e ⊢
      cases e with
      | unchanged => rfl
      | renewed2 _ _ _ _ _ c2 hc2 hv2 hl2 hn2 hfs hmk hcap =>
        rw [hf] at hc2
        cases hc2
        rw [hs] at hl2
        cases hl2
    exact ⟨hacc, step_unchanged P w g _ trivial hacc⟩

/-- after an accepted renewal the successor is lockable (v1, unless it was created at the final revision
number) resp. reports not renewed and revisable (v2), and serves the predecessor's list -/
theorem successor_accepts (P : Params H) (w w' : World H) (old new : Nat) (h : HandedOver P w w' old new) :
    ∃ n, findC w'.db.contracts new = some n ∧
      (n.v2 = false → n.rev.number ≠ P.maxRev → lockV1 w' P new = true) ∧
      (n.v2 = true → ∀ heightOK, lockV2 w' new heightOK = some (false, heightOK, cacheGet w.cache old)) := by
  obtain ⟨o, ho, hl, n, hn, h1, h2, h3, _, _, _, _, _, hto, _, _⟩ := h.pred
  refine ⟨n, hn, ?_, ?_⟩
  · intro hv hnum
    simp [lockV1, hn, hv, hnum]
  · intro hv hok
    simp [lockV2, hn, hv, hto, h2, h3]

/-- … and the successor really accepts modifications: a v1 batch whose roots are stored is committed. -/
theorem successor_accepts_revision_v1 (P : Params H) (w' : World H) (g' : Good P w') (new : Nat)
    (hlk : lockV1 w' P new = true) (acts : List Action) (rn : Nat)
    (hs : ∀ a ∈ (record (cacheGet w'.cache new) acts).1, a.storedOK w'.db.stored = true) :
    (stepOp P w' (.rpc1 new acts rn false none)).2.1.accepted = true :=
  rpc1_accepted_of_stored P w' g' new acts rn hlk hs

theorem successor_accepts_revision_v2 (P : Params H) (w' : World H) (g' : Good P w') (new : Nat) (n : Contract H)
    (hn : findC w'.db.contracts new = some n) (hv : n.v2 = true) (hl : n.renewedTo = none)
    (r : V2Revision H) (nr : List Root) (hk : r.sameKeys = true) (hsig : r.sigsOK = true)
    (hfs : r.rev.filesize = P.sectorSize * nr.length) (hcap : r.rev.filesize ≤ r.rev.capacity)
    (hmk : r.rev.merkle = P.metaRoot nr) (hs : ∀ x ∈ nr, x ∈ w'.db.stored) :
    (stepOp P w' (.rev2 new r nr none)).2.1.accepted = true :=
  rev2_accepted_of_valid P w' g' new n hn hv hl r nr hk hsig hfs hcap hmk hs

/-! ### a failing renewal leaves the predecessor unchanged and usable -/

/-- A renewal that is not accepted — refused lock, failed sanity check, duplicate successor id, store error or an
injected statement failure — leaves the whole world unchanged; in particular the predecessor answers locks
and revisions exactly as before. -/
theorem failed_renewal_unchanged (P : Params H) (w : World H) (g : Good P w) (op : Op H)
    (hop : (∃ o n r c f, op = .renew1 o n r c f) ∨ (∃ o n fc fo f, op = .renew2 o n fc fo f))
    (h : (stepOp P w op).2.1.accepted = false) :
    (stepOp P w op).1 = w ∧
    ∀ id, lockV1 (stepOp P w op).1 P id = lockV1 w P id ∧
          ∀ hok, lockV2 (stepOp P w op).1 id hok = lockV2 w id hok := by
  have hok : OpOK P op := by
    rcases hop with ⟨o, n, r, c, f, rfl⟩ | ⟨o, n, fc, fo, f, rfl⟩ <;> trivial
  have e := step_unchanged P w g op hok h
  rw [e]
  exact ⟨rfl, fun id => ⟨rfl, fun _ => rfl⟩⟩

/-- a statement failure at ANY index of the renewal transaction (insert, clear, link, move, COMMIT) fails it -/
theorem fault_at_any_statement_fails_renewal (db : DB H) (v2 : Bool) (o n : Nat) (nr : Rev H) (clr : Option (Rev H))
    (j : Nat) (hj : j ≤ 4) : ∀ d, storeRenew db v2 o n nr clr (some j) ≠ .ok d := by
  intro d
  unfold storeRenew
  exact runSteps_fault_fires _ j 0 db (Nat.zero_le _) (by simpa using hj) d

theorem failed_renewal_any_index_v1 (P : Params H) (w : World H) (o n : Nat) (renewal clearing : Rev H)
    (j : Nat) (hj : j ≤ 4) :
    (renewV1 P w o n renewal clearing (some j)).2 ≠ .ok () ∧ (renewV1 P w o n renewal clearing (some j)).1 = w := by
  have key : (renewV1 P w o n renewal clearing (some j)).2 ≠ .ok () := by
    unfold renewV1
    by_cases h1 : clearing.merkle = P.zeroH
    · by_cases h2 : clearing.filesize = 0
      · by_cases h3 : clearing.number = P.maxRev
        · by_cases h4 : renewal.filesize = P.sectorSize * (cacheGet w.cache o).length
          · by_cases h5 : renewal.merkle = P.metaRoot (cacheGet w.cache o)
            · simp only [h1, h2, h3, h4, h5, ne_eq, not_true_eq_false, if_false]
              cases hst : storeRenew w.db false o n renewal (some clearing) (some j) with
              | ok d => exact absurd hst (fault_at_any_statement_fails_renewal w.db false o n renewal _ j hj d)
              | reject => simp
              | panic => simp
              | injected => simp
            · simp [h1, h2, h3, h4, h5]
          · simp [h1, h2, h3, h4]
        · simp [h1, h2, h3]
      · simp [h1, h2]
    · simp [h1]
  exact ⟨key, renewV1_fail P w o n renewal clearing (some j) key⟩

theorem failed_renewal_any_index_v2 (P : Params H) (w : World H) (o n : Nat) (fc : Rev H)
    (j : Nat) (hj : j ≤ 4) :
    (renewV2 P w o n fc (some j)).2 ≠ .ok () ∧ (renewV2 P w o n fc (some j)).1 = w := by
  have key : (renewV2 P w o n fc (some j)).2 ≠ .ok () := by
    unfold renewV2
    cases hc : findC w.db.contracts o with
    | none => simp
    | some c =>
      simp only
      by_cases hv : c.v2 = true
      · by_cases h1 : fc.filesize = c.rev.filesize
        · by_cases h2 : fc.capacity = c.rev.capacity
          · by_cases h3 : fc.merkle = c.rev.merkle
            · by_cases h4 : fc.merkle = P.metaRoot (cacheGet w.cache o)
              · have h4' : c.rev.merkle = P.metaRoot (cacheGet w.cache o) := by rw [← h3]; exact h4
                simp only [hv, h1, h2, h3, h4', Bool.not_true, Bool.false_eq_true, ne_eq, not_true_eq_false, if_false]
                cases hst : storeRenew w.db true o n fc none (some j) with
                | ok d => exact absurd hst (fault_at_any_statement_fails_renewal w.db true o n fc _ j hj d)
                | reject => simp
                | panic => simp
                | injected => simp
              · have h4' : ¬ c.rev.merkle = P.metaRoot (cacheGet w.cache o) := by rw [← h3]; exact h4
                simp [hv, h1, h2, h3, h4']
            · simp [hv, h1, h2, h3]
          · simp [hv, h1, h2]
        · simp [hv, h1]
      · simp [hv]
  exact ⟨key, renewV2_fail P w o n fc (some j) key⟩

theorem run_cons_c13 (P : Params H) (w : World H) (op : Op H) (rest : List (Op H)) :
    run P w (op :: rest) = run P (stepOp P w op).1 rest := by
  simp [run]

/-! ### chains of renewals of any length -/

/-- renew a v1 contract through the ids `news`, one renewal after the other (RHP2 renew-and-clear / RHP3 renew:
the successor's first revision commits to the list `l`, the predecessor is cleared) -/
def renewChain (P : Params H) (l : List Root) : Nat → List Nat → List (Op H)
  | _, [] => []
  | old, new :: rest =>
    .renew1 old new { number := 0, filesize := P.sectorSize * l.length, capacity := 0, merkle := P.metaRoot l }
                    { number := P.maxRev, filesize := 0, capacity := 0, merkle := P.zeroH } none
      :: renewChain P l new rest

/-- the last contract of the chain -/
def lastId : Nat → List Nat → Nat
  | old, [] => old
  | _, n :: rest => lastId n rest

/-- **Chains of any length.** Starting from any usable v1 contract in any good world, renewing it through any
number of fresh ids is accepted at every step, keeps the world good, and the last successor holds — persisted,
cached, and committed to by its revision — exactly the list the first contract held; it is usable. -/
theorem chain_handover_v1 (P : Params H) (hmax : P.maxRev ≠ 0) (news : List Nat) :
    ∀ (w : World H) (_ : Good P w) (old : Nat) (_ : lockV1 w P old = true)
      (_ : ∀ n ∈ news, findC w.db.contracts n = none) (_ : news.Nodup),
      Good P (run P w (renewChain P (cacheGet w.cache old) old news)) ∧
      lockV1 (run P w (renewChain P (cacheGet w.cache old) old news)) P (lastId old news) = true ∧
      cacheGet (run P w (renewChain P (cacheGet w.cache old) old news)).cache (lastId old news) = cacheGet w.cache old ∧
      ∃ c, findC (run P w (renewChain P (cacheGet w.cache old) old news)).db.contracts (lastId old news) = some c ∧
        c.renewedTo = none ∧ load c.rows = cacheGet w.cache old ∧
        c.rev.filesize = P.sectorSize * (cacheGet w.cache old).length ∧
        c.rev.merkle = P.metaRoot (cacheGet w.cache old) := by
  induction news with
  | nil =>
    intro w g old hlk _ _
    obtain ⟨c, hc, hv, hl, _⟩ := lockV1_live P w g old hlk
    have hlive := g.live c (findC_some hc).1 hl
    rw [(findC_some hc).2] at hlive
    refine ⟨g, hlk, rfl, c, hc, hl, ?_, hlive.2.1, hlive.2.2⟩
    rw [hlive.1, load_mkRows]
  | cons n rest ih =>
    intro w g old hlk hfresh hnd
    have hn : findC w.db.contracts n = none := hfresh n List.mem_cons_self
    obtain ⟨c, hc, hv, hl, _⟩ := lockV1_live P w g old hlk
    let renewal : Rev H := { number := 0, filesize := P.sectorSize * (cacheGet w.cache old).length, capacity := 0,
                             merkle := P.metaRoot (cacheGet w.cache old) }
    let clearing : Rev H := { number := P.maxRev, filesize := 0, capacity := 0, merkle := P.zeroH }
    have hacc := renew1_accepted P w g old n renewal clearing hlk hn rfl rfl rfl rfl rfl
    have e := step_effect P w g (.renew1 old n renewal clearing none) trivial
    have g1 := step_good P w g (.renew1 old n renewal clearing none) trivial
    simp only [renewChain, run_cons_c13]
    generalize (stepOp P w (.renew1 old n renewal clearing none)).1 = w1 at e g1 ⊢
    generalize (stepOp P w (.renew1 old n renewal clearing none)).2.1.accepted = a at e hacc
    cases e with
    | unchanged => cases hacc
    | renewed1 _ _ _ _ _ c2 hc2 hv2 hl2 hn2 hfs hmk hnum =>
      have hnew := findC_renewed_new w false old n c2 renewal (some clearing) hn2
      have hcache : cacheGet (renewedWorld w false old n c2 renewal (some clearing)).cache n = cacheGet w.cache old := by
        simp [renewedWorld, cacheGet_set]
      have hlk1 : lockV1 (renewedWorld w false old n c2 renewal (some clearing)) P n = true := by
        have : (0 : Nat) ≠ P.maxRev := fun h => hmax h.symm
        simp [lockV1, hnew, successor, renewal, this]
      have hold_ne : ∀ m ∈ rest, m ≠ old := by
        intro m hm e
        have := hfresh m (List.mem_cons_of_mem _ hm)
        rw [e, hc] at this
        cases this
      have hfresh1 : ∀ m ∈ rest, findC (renewedWorld w false old n c2 renewal (some clearing)).db.contracts m = none := by
        intro m hm
        have hmn : m ≠ n := by
          intro e; subst e
          exact (List.nodup_cons.mp hnd).1 hm
        rw [findC_renewed_other w false old n c2 renewal (some clearing) m (hold_ne m hm) hmn]
        exact hfresh m (List.mem_cons_of_mem _ hm)
      have := ih _ g1 n hlk1 hfresh1 (List.nodup_cons.mp hnd).2
      rw [hcache] at this
      exact this

/-! ### non-vacuity: concrete worlds meeting the hypotheses -/

section Examples

def P1 : Params (List Nat) := { sectorSize := 4, maxRev := 1000, metaRoot := id, zeroH := [] }
def rev1 : Rev (List Nat) := { number := 0, filesize := 0, capacity := 0, merkle := [] }
def clr1 : Rev (List Nat) := { number := 1000, filesize := 0, capacity := 0, merkle := [] }

/-- two roots stored, a v1 and a v2 contract, each filled, then renewed over three resp. one generation -/
def hist1 : List (Op (List Nat)) :=
  [.store 7, .store 8, .form 1 false rev1 none, .form 5 true rev1 none,
   .rpc1 1 [.append 7, .append 8] 1 false none,
   .rev2 5 { rev := { number := 1, filesize := 8, capacity := 8, merkle := [8, 8] }, sameKeys := true, sigsOK := true } [8, 8] none,
   .renew1 1 2 { number := 0, filesize := 8, capacity := 0, merkle := [7, 8] } clr1 none,
   .renew1 2 3 { number := 0, filesize := 8, capacity := 0, merkle := [7, 8] } clr1 none,
   .renew1 3 4 { number := 0, filesize := 8, capacity := 0, merkle := [7, 8] } clr1 (some 2),   -- injected failure
   .renew1 3 4 { number := 0, filesize := 12, capacity := 0, merkle := [7, 8] } clr1 none,      -- wrong size
   .renew1 3 4 { number := 0, filesize := 8, capacity := 0, merkle := [7, 8] } clr1 none,
   .renew2 5 6 { number := 0, filesize := 8, capacity := 8, merkle := [8, 8] } false none,
   .renew2 5 9 { number := 0, filesize := 8, capacity := 8, merkle := [8, 8] } true none]       -- second renewal: same successor id

example : ∀ op ∈ hist1, OpOK P1 op := by
  intro op h
  simp only [hist1, List.mem_cons, List.not_mem_nil, or_false] at h
  rcases h with h | h | h | h | h | h | h | h | h | h | h | h | h <;> subst h <;> simp [OpOK, rev1, P1]

-- the seventh operation (first renewal) is accepted …
example : (stepOp P1 (run P1 World.empty (hist1.take 6)) (hist1[6]'(by decide))).2.1.accepted = true := by decide
-- … the failing ones are not, the final picture: chain 1 → 2 → 3 → 4 and 5 → 6, rows with the last successors
example : (stepOp P1 (run P1 World.empty (hist1.take 8)) (hist1[8]'(by decide))).2.1 = .done .injected := by decide
example : (stepOp P1 (run P1 World.empty (hist1.take 9)) (hist1[9]'(by decide))).2.1 = .done .reject := by decide
example : (stepOp P1 (run P1 World.empty (hist1.take 12)) (hist1[12]'(by decide))).2.1 = .done .reject := by decide
example : ((run P1 World.empty hist1).db.contracts.map fun c => (c.id, c.rows, c.renewedTo, c.renewedFrom)) =
    [(1, [], some 2, none), (5, [], some 6, none), (2, [], some 3, some 1), (3, [], some 4, some 2),
     (4, [(0, 7), (1, 8)], none, some 3), (6, [(0, 8), (1, 8)], none, some 5)] := by decide
example : lockV1 (run P1 World.empty hist1) P1 3 = false ∧ lockV1 (run P1 World.empty hist1) P1 4 = true ∧
    lockV2 (run P1 World.empty hist1) 5 true = some (true, false, [8, 8]) ∧
    lockV2 (run P1 World.empty hist1) 6 true = some (false, true, [8, 8]) := by decide
example : refs (run P1 World.empty hist1).db 8 = 3 ∧ refs (run P1 World.empty (hist1.take 6)).db 8 = 3 := by decide

end Examples

end Hostd.Sectors
