import Hostd.Props.C04
/-!
C11 — Account spending is attributed to funding contracts without loss.

About `Hostd.Accounts`: `Store.debit3` = `DebitAccount` + `distributeRHP3AccountUsage`,
`Store.debit4` = `RHP4DebitAccount` + `distributeRHP4AccountUsage`, `Store.credit3/credit4` =
the two deposit paths with their funding-row upserts.  `distG` is the exact fold of the Go loops
(category order, `min(usage, remainder)`, DELETE at zero, zero rows skipped).  The theorems hold
for every list of funding rows, every usage vector and every reachable store state; contract
statuses play no role in the attribution (the harness varies them).
-/
namespace Hostd.Accounts

/-! ### per-contract conservation -/

/-- **per_contract_conserved (RHP3)**: a `DebitAccount` leaves `unspent account funding + total
revenue` of EVERY v1 contract unchanged (all six categories, registry read/write included) and
does not touch v2 contracts. -/
theorem per_contract_conserved (f : Facts) (st : Store) (a : Acct) (u : Usage) (h : StoreInv f st) :
    (∀ c, worth ((st.debit3 a u).1.c1 c) = worth (st.c1 c)) ∧ (st.debit3 a u).1.c2 = st.c2 := by
  by_cases hok : (st.debit3 a u).2 = .ok
  · obtain ⟨_, _, _, _, he⟩ := debit3_ok_eq st a u hok
    rw [he]
    exact ⟨(distG_fund dist3_ok a st.rows1 u st.c1 (fun c => Nat.le_of_eq (h.fund1 c).symm)).2.2, rfl⟩
  · rw [debit3_refused st a u hok]; exact ⟨fun _ => rfl, rfl⟩

/-- **per_contract_conserved (RHP4)** -/
theorem per_contract_conserved_v2 (f : Facts) (st : Store) (a : Acct) (u : Usage) (h : StoreInv f st) :
    (∀ c, worth ((st.debit4 f a u).1.c2 c) = worth (st.c2 c)) ∧ (st.debit4 f a u).1.c1 = st.c1 := by
  by_cases hok : (st.debit4 f a u).2 = .ok
  · obtain ⟨_, _, _, _, he⟩ := debit4_ok_eq f st a u hok
    rw [he]
    exact ⟨(distG_fund dist4_ok a st.rows2 u st.c2 (fun c => Nat.le_of_eq (h.fund2 c).symm)).2.2, rfl⟩
  · rw [debit4_refused f st a u hok]; exact ⟨fun _ => rfl, rfl⟩

/-- the same through the manager: `Budget.Commit` (any outcome, incl. store failure) conserves
every contract's unspent funding + revenue -/
theorem commit_conserves (f : Facts) (s : State) (i : Bid) (sf : Bool) (h : StoreInv f s.st) (c : Cid) :
    worth ((commit s i sf).1.st.c1 c) = worth (s.st.c1 c) ∧ (commit s i sf).1.st.c2 = s.st.c2 := by
  unfold commit
  cases hi : s.budgets[i]? with
  | none => exact ⟨rfl, rfl⟩
  | some b =>
    dsimp only
    by_cases hc : b.closed = true
    · rw [if_pos hc]; exact ⟨rfl, rfl⟩
    · rw [if_neg hc]
      by_cases hsf : sf = true
      · rw [if_pos hsf]; exact ⟨rfl, rfl⟩
      · rw [if_neg hsf]
        have hcons := per_contract_conserved f s.st b.acct b.usage h
        cases hd : s.st.debit3 b.acct b.usage with
        | mk st' out =>
          rw [hd] at hcons
          cases out with
          | missing => exact ⟨rfl, rfl⟩
          | insufficient => exact ⟨rfl, rfl⟩
          | panic => exact ⟨rfl, rfl⟩
          | ok =>
            dsimp only
            cases hm : s.mem b.acct with
            | none => exact ⟨hcons.1 c, hcons.2⟩
            | some m => exact ⟨hcons.1 c, hcons.2⟩

/-! ### contract.accountFunding = Σ its rows, in every reachable state -/

/-- **funding_rows_sum**: after ANY sequence of deposits (both protocols), budgets, commits,
rollbacks and debits the unspent account funding of every contract equals the sum of its
per-account funding rows (what `checkContractAccountFunding` checks). -/
theorem funding_rows_sum (f : Facts) (n1 n2 : Nat) (ops : List Op) (hw : RunWF ops) (c : Cid) :
    ((run f (init n1 n2) ops).st.c1 c).accountFunding = rowsum c (run f (init n1 n2) ops).st.rows1 ∧
    ((run f (init n1 n2) ops).st.c2 c).accountFunding = rowsum c (run f (init n1 n2) ops).st.rows2 :=
  ⟨(run_store f ops (init n1 n2) (storeInv_init f n1 n2) hw).fund1 c,
   (run_store f ops (init n1 n2) (storeInv_init f n1 n2) hw).fund2 c⟩

/-- preserved by a credit (RHP3) … -/
theorem credit_keeps_rows_sum (f : Facts) (st st' : Store) (a : Acct) (c : Cid) (amt cost : Nat)
    (h : StoreInv f st) (he : st.credit3 a c amt cost = some st') (k : Cid) :
    (st'.c1 k).accountFunding = rowsum k st'.rows1 := (credit3_inv f st st' a c amt cost h he).fund1 k

/-- … and by a debit -/
theorem debit_keeps_rows_sum (f : Facts) (st : Store) (a : Acct) (u : Usage) (h : StoreInv f st) (k : Cid) :
    ((st.debit3 a u).1.c1 k).accountFunding = rowsum k (st.debit3 a u).1.rows1 ∧
    ((st.debit4 f a u).1.c2 k).accountFunding = rowsum k (st.debit4 f a u).1.rows2 :=
  ⟨(debit3_inv f st a u h).fund1 k, (debit4_inv f st a u h).fund2 k⟩

/-! ### nothing goes negative -/

/-- **no_negative**: under `accountFunding = Σ rows` no subtraction of the attribution underflows
(`Currency.Sub` would panic): neither debit path can end in a panic, and every funding row only
shrinks. -/
theorem no_negative (f : Facts) (st : Store) (a : Acct) (u : Usage) (h : StoreInv f st) :
    (st.debit3 a u).2 ≠ .panic ∧ (st.debit4 f a u).2 ≠ .panic :=
  ⟨debit3_no_panic f st a u h, debit4_no_panic f st a u h⟩

/-- without that invariant the loop does underflow: a row of 5 against a contract total of 3 -/
theorem no_negative_needs_rows_sum :
    (dist3 0 [⟨0, 0, 5⟩] { storage := 5 } (fun _ => { accountFunding := 3 })).bad = true := by decide

/-! ### the total moved equals the debit -/

/-- what leaves the funding rows of the debited account is `min(debit, Σ its rows)`; rows of other
accounts are untouched -/
theorem moved_eq_min (st : Store) (a : Acct) (u : Usage) (hok : (st.debit3 a u).2 = .ok) :
    acctsum a (st.debit3 a u).1.rows1 + min u.total3 (acctsum a st.rows1) = acctsum a st.rows1 ∧
    (∀ b, b ≠ a → acctsum b (st.debit3 a u).1.rows1 = acctsum b st.rows1) := by
  obtain ⟨_, _, _, _, he⟩ := debit3_ok_eq st a u hok
  rw [he]
  obtain ⟨h1, _, h3⟩ := distG_acct dist3_ok a st.rows1 u st.c1
  exact ⟨h1, h3⟩

/-- **moved_eq_debit (RHP3)**: when the debit does not exceed the account's v1 funding rows the
rows lose exactly the debit — and by `funding_rows_sum` so do the contracts' unspent totals. -/
theorem moved_eq_debit (st : Store) (a : Acct) (u : Usage) (hok : (st.debit3 a u).2 = .ok)
    (hle : u.total3 ≤ acctsum a st.rows1) :
    acctsum a (st.debit3 a u).1.rows1 + u.total3 = acctsum a st.rows1 := by
  have := (moved_eq_min st a u hok).1
  omega

/-- **moved_eq_debit (RHP4)**: `RenterCost` = attributed part (`dist4`) + `AccountFunding`; the
attributed part leaves the rows exactly.  (No RPC debits with `AccountFunding ≠ 0`.) -/
theorem moved_eq_debit_v2 (f : Facts) (st : Store) (a : Acct) (u : Usage) (hok : (st.debit4 f a u).2 = .ok)
    (hle : u.dist4 ≤ acctsum a st.rows2) :
    acctsum a (st.debit4 f a u).1.rows2 + u.dist4 = acctsum a st.rows2 ∧ u.cost4 = u.dist4 + u.accountFunding := by
  obtain ⟨_, _, _, _, he⟩ := debit4_ok_eq f st a u hok
  rw [he]
  obtain ⟨h1, _, _⟩ := distG_acct dist4_ok a st.rows2 u st.c2
  refine ⟨by simp only [dist4] at *; omega, by simp only [Usage.cost4, Usage.dist4]⟩

/-- **"whenever the account's balance came entirely from contracts of that protocol version"**:
in a state satisfying the invariant, an account without v2 funding rows is covered by its v1 rows,
so EVERY accepted RHP3 debit is moved completely … -/
theorem moved_eq_debit_single_version (f : Facts) (st : Store) (a : Acct) (u : Usage) (h : StoreInv f st)
    (hv : acctsum a st.rows2 = 0) (hok : (st.debit3 a u).2 = .ok) :
    acctsum a (st.debit3 a u).1.rows1 + u.total3 = acctsum a st.rows1 := by
  obtain ⟨_, hb, _, _, _⟩ := debit3_ok_eq st a u hok
  have := h.cover a
  exact moved_eq_debit st a u hok (by omega)

/-- … and symmetrically for RHP4 -/
theorem moved_eq_debit_single_version_v2 (f : Facts) (st : Store) (a : Acct) (u : Usage) (h : StoreInv f st)
    (hv : acctsum a st.rows1 = 0) (hok : (st.debit4 f a u).2 = .ok) :
    acctsum a (st.debit4 f a u).1.rows2 + u.dist4 = acctsum a st.rows2 := by
  obtain ⟨_, hb, _, _, _⟩ := debit4_ok_eq f st a u hok
  have := h.cover a
  have hcd : u.dist4 ≤ u.cost4 := by simp only [Usage.dist4, Usage.cost4]; omega
  exact (moved_eq_debit_v2 f st a u hok (by omega)).1

/-- the cover invariant used above holds in every reachable state -/
theorem balance_covered_by_rows (f : Facts) (n1 n2 : Nat) (ops : List Op) (hw : RunWF ops) (a : Acct) :
    (run f (init n1 n2) ops).st.bal a ≤
      acctsum a (run f (init n1 n2) ops).st.rows1 + acctsum a (run f (init n1 n2) ops).st.rows2 :=
  (run_store f ops (init n1 n2) (storeInv_init f n1 n2) hw).cover a

/-- balance from BOTH versions: a v1 debit larger than the v1 rows leaves the rest unattributed
(the code logs "account usage not fully distributed"); this is the case the property excludes. -/
theorem mixed_funding_not_fully_moved :
    let st := (run Facts.current (init 1 1)
      [.credit 0 0 4 0 true 100, .rhp4credit 0 [(0, 6)] { accountFunding := 6 }]).st
    (st.debit3 0 { egress := 9 }).2 = .ok ∧ acctsum 0 st.rows1 = 4 ∧
    acctsum 0 (st.debit3 0 { egress := 9 }).1.rows1 = 0 ∧ (dist3 0 st.rows1 { egress := 9 } st.c1).left.total3 = 5 := by
  decide

/-! ### non-vacuity and a worked example of the fold -/

/-- two sources (contracts 0 and 1) fund account 0 with 4 and 3; a debit of
storage 2 + registry read 3 + rpc 1 exhausts the first row exactly (deleted) and takes 2 of the second -/
def twoSources : Store :=
  (run Facts.current (init 2 0) [.credit 0 0 4 1 false 100, .credit 0 1 3 0 false 100]).st

example : StoreInv Facts.current twoSources :=
  run_store _ _ _ (storeInv_init _ 2 0) ⟨trivial, trivial, trivial⟩

example :
    let d := twoSources.debit3 0 { storage := 2, registryRead := 3, rpc := 1 }
    d.2 = .ok ∧ d.1.rows1 = [⟨1, 0, 1⟩] ∧
    d.1.c1 0 = { rpc := 1, storage := 2, registryRead := 2, accountFunding := 0 } ∧
    d.1.c1 1 = { rpc := 1, registryRead := 1, accountFunding := 1 } ∧
    worth (d.1.c1 0) = worth (twoSources.c1 0) ∧ worth (d.1.c1 1) = worth (twoSources.c1 1) := by
  decide

-- zero amounts: a zero deposit creates a zero row which debits skip and keep
example :
    let st := (run Facts.current (init 1 0) [.credit 0 0 0 0 false 100, .credit 1 0 2 0 false 100]).st
    st.rows1 = [⟨0, 0, 0⟩, ⟨0, 1, 2⟩] ∧ (st.debit3 0 {}).2 = .ok ∧ (st.debit3 0 {}).1.rows1 = st.rows1 := by
  decide

end Hostd.Accounts
