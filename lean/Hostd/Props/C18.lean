import Hostd.Model.Txn
/-!
C18 — Restart is transparent.

`restart s = rebuild (persisted s)`; for every engine-state abstraction of
Model/Txn.lean (`Restart` namespace): reachable ∧ quiescent →
`observe (restart s) = observe s`, and `restart` never changes the persisted
part (`open_is_readonly`).  The constructor facts (`codeCtors`) say what each
constructor of the current tree reloads and writes.
-/
namespace Hostd.Txn

/-! ### the generic (db, mirror) state of C09 -/

/-- a quiescent state whose mirror agrees with the database is, observably, a fixed point of restart -/
theorem restart_observe_generic {α β : Type} (view : α → β) (s : St α β) (hq : s.tx = none) (ha : agrees view s) :
    (restart view s).db = s.db ∧ (restart view s).mirror = s.mirror ∧ (restart view s).tx = s.tx := by
  refine ⟨rfl, ?_, ?_⟩
  · simp only [restart, rebuild, persisted, quiescent]; exact ha.symm
  · simp only [restart, rebuild, persisted, quiescent]; exact hq.symm

example : (restart (fun d : Nat => d + 1) (quiescent (fun d : Nat => d + 1) 3)).mirror = 4 := by decide

namespace Restart

/-! ### helper lemmas on association lists and rows -/

theorem lookup_setKey_same (id : Nat) (r : List Nat) (l : List (Nat × List Nat)) :
    lookup id (setKey id r l) = r := by
  induction l with
  | nil => simp [setKey, lookup]
  | cons p rest ih =>
    obtain ⟨i, x⟩ := p
    by_cases h : i = id <;> simp [setKey, lookup, h, ih]

theorem lookup_setKey_other (id id' : Nat) (r : List Nat) (l : List (Nat × List Nat)) (hne : id' ≠ id) :
    lookup id' (setKey id r l) = lookup id' l := by
  have hne' : ¬ id = id' := fun h => hne h.symm
  induction l with
  | nil => simp [setKey, lookup, hne']
  | cons p rest ih =>
    obtain ⟨i, x⟩ := p
    by_cases h : i = id
    · subst h; simp [setKey, lookup, hne']
    · by_cases h' : i = id'
      · subst h'; simp [setKey, lookup, h]
      · simp [setKey, lookup, h, h', ih]

theorem ids_setRow (id : Nat) (f : CRow → CRow) (hf : ∀ c, (f c).id = c.id) (rows : List CRow) :
    (setRow id f rows).map (·.id) = rows.map (·.id) := by
  simp only [setRow, List.map_map]
  apply List.map_congr_left
  intro c _
  by_cases h : c.id = id <;> simp [h, hf]

theorem hasRow_iff (id : Nat) (rows : List CRow) : hasRow id rows = true ↔ id ∈ rows.map (·.id) := by
  simp only [hasRow, List.any_eq_true, beq_iff_eq, List.mem_map]

theorem hasRow_false_iff (id : Nat) (rows : List CRow) : hasRow id rows = false ↔ id ∉ rows.map (·.id) := by
  rw [← hasRow_iff]; cases hasRow id rows <;> simp

theorem rowRoots_of_mem (rows : List CRow) (hnd : (rows.map (·.id)).Nodup) (c : CRow) (hc : c ∈ rows) :
    rowRoots c.id rows = c.roots := by
  induction rows with
  | nil => simp at hc
  | cons c0 rest ih =>
    simp only [List.map_cons, List.nodup_cons] at hnd
    by_cases h : c0.id = c.id
    · simp only [rowRoots, h, if_true]
      rcases List.mem_cons.mp hc with rfl | hin
      · rfl
      · exact absurd (List.mem_map.mpr ⟨c, hin, h.symm⟩) hnd.1
    · simp only [rowRoots, h, if_false]
      rcases List.mem_cons.mp hc with rfl | hin
      · exact absurd rfl h
      · exact ih hnd.2 hin

theorem lookup_rebuild (rows : List CRow) (hnd : (rows.map (·.id)).Nodup) (c : CRow) (hc : c ∈ rows) :
    lookup c.id (rebuildRoots rows) = c.roots := by
  induction rows with
  | nil => simp at hc
  | cons c0 rest ih =>
    simp only [List.map_cons, List.nodup_cons] at hnd
    by_cases h : c0.id = c.id
    · simp only [rebuildRoots, List.map_cons, lookup, h, if_true]
      rcases List.mem_cons.mp hc with rfl | hin
      · rfl
      · exact absurd (List.mem_map.mpr ⟨c, hin, h.symm⟩) hnd.1
    · simp only [rebuildRoots, List.map_cons, lookup, h, if_false]
      rcases List.mem_cons.mp hc with rfl | hin
      · exact absurd rfl h
      · exact ih hnd.2 hin

/-! ### contracts.Manager: the sector-root cache -/

/-- invariant of the reachable states: ids are distinct; the cache holds the
persisted list of every NON-superseded contract (a superseded predecessor's
entry may be stale — DESIGN §6.5); ids without a row have no entry -/
structure RInv (s : Roots) : Prop where
  nodup : (s.rows.map (·.id)).Nodup
  live  : ∀ c ∈ s.rows, c.superseded = false → lookup c.id s.cache = c.roots
  fresh : ∀ i, i ∉ s.rows.map (·.id) → lookup i s.cache = []

theorem rinv_init : RInv { rows := [], cache := [] } :=
  ⟨by simp, by simp, by simp [lookup]⟩

theorem rinv_step (s : Roots) (h : RInv s) (op : ROp) : RInv (rstep s op) := by
  cases op with
  | add id =>
    simp only [rstep]
    cases hh : hasRow id s.rows with
    | true => simpa using h
    | false =>
      have hfresh := (hasRow_false_iff id s.rows).mp hh
      simp only [Bool.false_eq_true, if_false]
      refine ⟨?_, ?_, ?_⟩
      · simp only [List.map_append, List.map_cons, List.map_nil]
        exact List.nodup_append.mpr ⟨h.nodup, by simp, by
          intro a ha b hb; simp at hb; subst hb; intro hab; subst hab; exact hfresh ha⟩
      · intro c hc hsup
        rcases List.mem_append.mp hc with hin | hin
        · exact h.live c hin hsup
        · simp at hin; subst hin; simpa using h.fresh id hfresh
      · intro i hi
        simp only [List.map_append, List.mem_append, not_or] at hi
        exact h.fresh i hi.1
  | revise id roots =>
    simp only [rstep]
    cases hh : hasRow id s.rows with
    | false => simpa using h
    | true =>
      have hid := (hasRow_iff id s.rows).mp hh
      simp only [if_true]
      have hids := ids_setRow id (fun c => { c with roots }) (by intro c; rfl) s.rows
      refine ⟨by rw [hids]; exact h.nodup, ?_, ?_⟩
      · intro c' hc' hsup
        simp only [setRow, List.mem_map] at hc'
        obtain ⟨c, hc, rfl⟩ := hc'
        by_cases hci : c.id = id
        · simp only [hci, if_true]; exact lookup_setKey_same id roots s.cache
        · simp only [hci, if_false] at hsup ⊢
          rw [lookup_setKey_other id c.id roots s.cache hci]
          exact h.live c hc hsup
      · intro i hi
        rw [hids] at hi
        have hne : i ≠ id := fun e => hi (e ▸ hid)
        rw [lookup_setKey_other id i roots s.cache hne]
        exact h.fresh i hi
  | renew old new =>
    simp only [rstep]
    cases hg : (hasRow old s.rows && !hasRow new s.rows && !isSuperseded old s.rows) with
    | false => simpa using h
    | true =>
      simp only [Bool.and_eq_true, Bool.not_eq_true'] at hg
      obtain ⟨⟨hold, hnew⟩, hns⟩ := hg
      have hnewfresh := (hasRow_false_iff new s.rows).mp hnew
      obtain ⟨c0, hc0, hc0id⟩ : ∃ c0 ∈ s.rows, c0.id = old := by
        have := (hasRow_iff old s.rows).mp hold
        obtain ⟨c0, h1, h2⟩ := List.mem_map.mp this
        exact ⟨c0, h1, h2⟩
      have hc0sup : c0.superseded = false := by
        cases hs : c0.superseded with
        | false => rfl
        | true =>
          have : isSuperseded old s.rows = true := by
            simp only [isSuperseded, List.any_eq_true, Bool.and_eq_true, beq_iff_eq]
            exact ⟨c0, hc0, hc0id, hs⟩
          rw [this] at hns; cases hns
      simp only [if_true]
      have hids := ids_setRow old (fun c => { c with roots := [], superseded := true }) (by intro c; rfl) s.rows
      refine ⟨?_, ?_, ?_⟩
      · simp only [List.map_append, List.map_cons, List.map_nil, hids]
        exact List.nodup_append.mpr ⟨h.nodup, by simp, by
          intro a ha b hb; simp at hb; subst hb; intro hab; subst hab; exact hnewfresh ha⟩
      · intro c' hc' hsup
        rcases List.mem_append.mp hc' with hin | hin
        · simp only [setRow, List.mem_map] at hin
          obtain ⟨c, hc, rfl⟩ := hin
          by_cases hci : c.id = old
          · simp [hci] at hsup
          · simp only [hci, if_false] at hsup ⊢
            have hne : c.id ≠ new := fun e => hnewfresh (e ▸ List.mem_map.mpr ⟨c, hc, rfl⟩)
            rw [lookup_setKey_other new c.id _ s.cache hne]
            exact h.live c hc hsup
        · simp at hin; subst hin
          simp only
          rw [lookup_setKey_same]
          have h1 := h.live c0 hc0 hc0sup
          have h2 := rowRoots_of_mem s.rows h.nodup c0 hc0
          rw [hc0id] at h1 h2
          rw [h1, h2]
      · intro i hi
        simp only [List.map_append, List.map_cons, List.map_nil, hids, List.mem_append, List.mem_singleton, not_or] at hi
        rw [lookup_setKey_other new i _ s.cache hi.2]
        exact h.fresh i hi.1

theorem rinv_reach (ops : List ROp) : RInv (reachRoots ops) := by
  unfold reachRoots
  suffices ∀ s, RInv s → RInv (ops.foldl rstep s) from this _ rinv_init
  induction ops with
  | nil => intro s h; exact h
  | cons op rest ih => intro s h; exact ih _ (rinv_step s h op)

/-- **restart_observe (sector roots).**  In every state reachable by adds,
revisions and renewals (v1 and v2 have the same shape), re-creating the manager
from the store serves the same root list for every non-superseded contract.
(The manager has no open updater at a clean close or between operations: an
uncommitted `ContractUpdater` touches neither store nor cache.) -/
theorem restart_observe_roots (ops : List ROp) :
    observeRoots (restartRoots (reachRoots ops)) = observeRoots (reachRoots ops) := by
  have h := rinv_reach ops
  generalize reachRoots ops = s at h
  simp only [observeRoots, restartRoots]
  apply List.map_congr_left
  intro c hc
  have hin : c ∈ s.rows := (List.mem_filter.mp hc).1
  have hsup : c.superseded = false := by
    have := (List.mem_filter.mp hc).2
    simpa using this
  rw [lookup_rebuild s.rows h.nodup c hin, h.live c hin hsup]

/-- non-vacuity, with a renewal chain and the stale predecessor entry: after
`renew 1 2` the cache still holds `[7,8]` for contract 1 (persisted: none), the
observation ignores it and restart agrees -/
example :
    let s := reachRoots [.add 1, .revise 1 [7, 8], .renew 1 2, .revise 2 [7, 8, 9], .add 3]
    lookup 1 s.cache = [7, 8] ∧ rowRoots 1 s.rows = [] ∧
    observeRoots s = [(2, [7, 8, 9]), (3, [])] ∧ observeRoots (restartRoots s) = observeRoots s := by decide

/-! ### accounts.AccountManager -/

/-- **restart_observe (accounts).**  Quiescent (no open budget — every budget
was committed or rolled back, which removes the entry once `openTxns` is 0):
the balance served is the persisted one before and after. -/
theorem restart_observe_accounts (s : Accts) (hq : quiescentAccts s) (a : Nat) :
    observeAcct (restartAccts s) a = observeAcct s a := by
  simp only [quiescentAccts] at hq
  simp [observeAcct, restartAccts, hq, openOf]

example : observeAcct (restartAccts { bal := [(1, 50)], pending := [] }) 1 = 50 := by decide

/-- without quiescence it is false: an open budget of 20 on a balance of 50 is forgotten -/
example : observeAcct { bal := [(1, 50)], pending := [(1, 30, 1)] } 1 = 30 ∧
    observeAcct (restartAccts { bal := [(1, 50)], pending := [(1, 30, 1)] }) 1 = 50 := by decide

/-! ### webhooks.Manager -/

theorem hooks_mem_eq_table (ops : List HOp) : (reachHooks ops).mem = (reachHooks ops).table := by
  unfold reachHooks
  suffices ∀ s : Hooks, s.mem = s.table → (ops.foldl hstep s).mem = (ops.foldl hstep s).table from this _ rfl
  induction ops with
  | nil => intro s h; exact h
  | cons op rest ih =>
    intro s h
    apply ih
    cases op <;> simp [hstep, h]

/-- **restart_observe (webhooks)** for a constructor that loads the table: the
registered hooks and, for EVERY event scope, the set of hooks that receive it
are the same after a restart. -/
theorem restart_observe_hooks (c : Ctor) (hl : c.loads = true) (ops : List HOp) :
    observeHooks (restartHooks c.loads (reachHooks ops)) = observeHooks (reachHooks ops) := by
  simp [observeHooks, restartHooks, hl, hooks_mem_eq_table ops]

/-- … and for a constructor that does not: after registering any hook nothing
is served and no event is delivered after a restart. -/
theorem restart_hooks_lost (c : Ctor) (hl : c.loads = false) (ops : List HOp) (h : Hook) :
    let s := reachHooks (ops ++ [.register h])
    (observeHooks (restartHooks c.loads s)).1 = [] ∧
    (∀ scope, (observeHooks (restartHooks c.loads s)).2 scope = []) ∧
    (observeHooks s).1 ≠ [] := by
  intro s
  refine ⟨by simp [observeHooks, restartHooks, hl], by intro sc; simp [observeHooks, restartHooks, hl, matching], ?_⟩
  simp only [s, observeHooks, reachHooks, List.foldl_append, List.foldl_cons, List.foldl_nil, hstep]
  simp

/-- the verdict for the constructor of the current tree, whichever way its fact reads -/
theorem webhooks_verdict :
    (webhooksCtor.loads = true → ∀ ops, observeHooks (restartHooks webhooksCtor.loads (reachHooks ops)) = observeHooks (reachHooks ops)) ∧
    (webhooksCtor.loads = false → ∀ ops h,
      (observeHooks (restartHooks webhooksCtor.loads (reachHooks (ops ++ [.register h])))).1 = []) :=
  ⟨fun hl ops => restart_observe_hooks webhooksCtor hl ops,
   fun hl ops h => (restart_hooks_lost webhooksCtor hl ops h).1⟩

/-- the constructor fact is selectable like the shapes: with the `webhooks`
repair (known-findings.d/txn-fix-1) selected the constructor loads and restart
is transparent for the webhook manager; without it every registered hook is lost -/
theorem restart_observe_hooks_selected (fixed : List String) :
    (fixed.contains "webhooks" = true → ∀ ops,
      observeHooks (restartHooks (webhooksCtorOf fixed).loads (reachHooks ops)) = observeHooks (reachHooks ops)) ∧
    (fixed.contains "webhooks" = false → ∀ ops h,
      (observeHooks (restartHooks (webhooksCtorOf fixed).loads (reachHooks (ops ++ [.register h])))).1 = []) :=
  ⟨fun hf ops => restart_observe_hooks (webhooksCtorOf fixed) (by simpa [webhooksCtorOf] using hf) ops,
   fun hf ops h => (restart_hooks_lost (webhooksCtorOf fixed) (by simpa [webhooksCtorOf] using hf) ops h).1⟩

/-- with the repair selected every constructor of the table rebuilds its state, and all stay read-only -/
example : (ctorTable ["webhooks"]).all (·.loads) = true ∧ (ctorTable ["webhooks"]).all ctorReadOnly = true ∧
    ((ctorTable []).filter (fun c => !c.loads)).map (·.name) = ["webhooks.NewManager"] := by decide

/-- matching: hook 1 on `alerts`, hook 2 on "all", hook 3 on `wallet`; event `alerts/info` = [1,5] reaches 1 and 2 -/
example : matching [⟨1, 0, [[1]]⟩, ⟨2, 0, [[]]⟩, ⟨3, 0, [[2]]⟩] [1, 5] = [1, 2] := by decide

/-! ### settings.ConfigManager / pin.Manager -/

/-- **restart_observe (settings, pinned settings).**  The settings VALUE served
from memory equals what the constructor reads back (the stored row, or the
initial settings when there is none). -/
theorem restart_observe_conf {γ : Type} (dflt : γ × Nat) (ops : List (COp γ)) :
    (restartConf dflt (reachConf dflt ops)).mem.1 = (reachConf dflt ops).mem.1 := by
  unfold reachConf
  suffices ∀ s : Conf γ, (restartConf dflt s).mem.1 = s.mem.1 →
      (restartConf dflt (ops.foldl cstep s)).mem.1 = (ops.foldl cstep s).mem.1 from this _ rfl
  induction ops with
  | nil => intro s h; exact h
  | cons op rest ih =>
    intro s _
    apply ih
    cases op; simp [cstep, restartConf]

example : (restartConf (0, 0) (reachConf (0, 0) [.update 4 0, .update 9 0])).mem.1 = 9 := by decide

/-- … but NOT the revision number: the store counts updates, the manager keeps
whatever revision the caller's struct carried (the API handler passes the value
loaded at start-up).  Two updates: memory says 0, a restart says 1. -/
theorem settings_revision_not_restart_stable :
    ∃ ops : List (COp Nat), (restartConf (0, 0) (reachConf (0, 0) ops)).mem.2 ≠ (reachConf (0, 0) ops).mem.2 :=
  ⟨[.update 4 0, .update 9 0], by decide⟩

/-- a manager that took the stored revision back after each update would be restart-stable in the revision too -/
theorem settings_revision_stable_if_reloaded {γ : Type} (dflt : γ × Nat) (s : Conf γ) (v : γ) (r : Nat) :
    let s' := cstep s (.update v r)
    let reloaded : Conf γ := restartConf dflt s'       -- `m.settings = store.Settings()` after the update
    (restartConf dflt reloaded).mem = reloaded.mem := by
  simp [cstep, restartConf]

/-! ### the manager views in detail: root order, settings fields, volumes, index tip -/

/-- `ORDER BY root_index` returns the contract's list, in order, whatever the physical order of the rows and
whatever sector ids they point to -/
theorem loadByIndex_correct (roots : List Nat) (rows : List RRow) (h : Represents roots rows) :
    loadByIndex roots.length rows = roots.map some := by
  apply List.ext_getElem?
  intro i
  simp only [loadByIndex, List.getElem?_map]
  by_cases hi : i < roots.length
  · simp [hi, h i hi]
  · simp [hi]

theorem loadByIndex_filterMap (roots : List Nat) (rows : List RRow) (h : Represents roots rows) :
    (loadByIndex roots.length rows).filterMap id = roots := by
  rw [loadByIndex_correct roots rows h]
  induction roots with
  | nil => rfl
  | cons a rest ih => simp

/-- **restart_observe (sector roots, row level).**  If the stored rows of every contract hold its list
(index `i` ↦ `roots[i]`, C03), the manager rebuilt by the `ORDER BY root_index` queries serves, for every
non-superseded contract, exactly the list — elements AND order — it served before the restart. -/
theorem restart_observe_roots_ordered (ops : List ROp) (rrows : Nat → List RRow)
    (hrep : ∀ c ∈ (reachRoots ops).rows, Represents c.roots (rrows c.id)) :
    observeRoots { reachRoots ops with cache := rebuildRootsFrom rrows (reachRoots ops).rows } = observeRoots (reachRoots ops) := by
  have hsame : rebuildRootsFrom rrows (reachRoots ops).rows = rebuildRoots (reachRoots ops).rows := by
    simp only [rebuildRootsFrom, rebuildRoots]
    apply List.map_congr_left
    intro c hc
    rw [loadByIndex_filterMap c.roots (rrows c.id) (hrep c hc)]
  rw [hsame]
  exact restart_observe_roots ops

/-- … and the ORDER BY column matters: a contract holding `[7, 5]` whose second root was stored first
(sector ids 9 and 2) is rebuilt as `[5, 7]` when the rows are ordered by `sector_id` -/
example :
    let rows : List RRow := [⟨0, 9, 7⟩, ⟨1, 2, 5⟩]
    (loadByIndex 2 rows).filterMap id = [7, 5] ∧ loadBySector rows = [5, 7] := by decide

example : Represents [7, 5] [⟨1, 2, 5⟩, ⟨0, 9, 7⟩] := by
  intro i hi
  have : i = 0 ∨ i = 1 := by simp at hi; omega
  rcases this with rfl | rfl <;> simp [rootAt]

/-- **restart_observe (settings / pinned settings, field by field).**  When every inserted column is also in
the update list of the upsert, every field served from memory equals the stored one after any sequence of
updates — so the rebuilt manager serves the same value for EVERY field. -/
theorem restart_observe_fields (upd : Nat → Bool) (hupd : ∀ i, upd i = true) (dflt : Nat → Nat)
    (vs : List (Nat → Nat)) (i : Nat) :
    (frestart dflt (freach upd dflt vs)).mem i = (freach upd dflt vs).mem i := by
  unfold freach
  suffices ∀ s : FConf, (∀ i, (frestart dflt s).mem i = s.mem i) →
      ∀ i, (frestart dflt (vs.foldl (fstep upd) s)).mem i = (vs.foldl (fstep upd) s).mem i from
    this _ (fun _ => rfl) i
  induction vs with
  | nil => intro s h; exact h
  | cons v rest ih =>
    intro s _
    apply ih
    intro j
    cases hr : s.row <;> simp [fstep, frestart, hr, hupd]

/-- … and a column missing from the update list is lost: the first call inserts it, a later update that
changes only that field stays in memory and is gone after a restart -/
theorem restart_field_lost (upd : Nat → Bool) (j : Nat) (hj : upd j = false) (dflt : Nat → Nat) :
    ∃ vs : List (Nat → Nat), (frestart dflt (freach upd dflt vs)).mem j ≠ (freach upd dflt vs).mem j :=
  ⟨[fun _ => 0, fun i => if i = j then 1 else 0], by simp [freach, fstep, frestart, hj]⟩

/-- the column lists of the current tree are complete (every inserted column is updated on conflict) -/
theorem upsert_columns_complete :
    (∀ i, updOf pinnedInsertCols pinnedUpdateCols i = true) ∧ (∀ i, updOf settingsInsertCols settingsUpdateCols i = true) := by
  constructor <;> intro i
  · by_cases h : i < 10
    · have : i = 0 ∨ i = 1 ∨ i = 2 ∨ i = 3 ∨ i = 4 ∨ i = 5 ∨ i = 6 ∨ i = 7 ∨ i = 8 ∨ i = 9 := by omega
      rcases this with rfl | rfl | rfl | rfl | rfl | rfl | rfl | rfl | rfl | rfl <;> decide
    · have : pinnedInsertCols[i]? = none := by simp [pinnedInsertCols]; omega
      simp [updOf, this]
  · by_cases h : i < 23
    · have hmem : ∀ c ∈ settingsInsertCols, settingsUpdateCols.contains c = true := by decide
      simp only [updOf]
      have hlt : i < settingsInsertCols.length := by simpa [settingsInsertCols] using h
      rw [List.getElem?_eq_getElem hlt]
      exact hmem _ (List.getElem_mem hlt)
    · have : settingsInsertCols[i]? = none := by simp [settingsInsertCols]; omega
      simp [updOf, this]

/-- hence, for the tree's own column lists, every pinned-settings field and every settings field is restart-stable -/
theorem restart_observe_pinned_fields (dflt : Nat → Nat) (vs : List (Nat → Nat)) (i : Nat) :
    (frestart dflt (freach (updOf pinnedInsertCols pinnedUpdateCols) dflt vs)).mem i =
      (freach (updOf pinnedInsertCols pinnedUpdateCols) dflt vs).mem i :=
  restart_observe_fields _ upsert_columns_complete.1 dflt vs i

theorem restart_observe_settings_fields (dflt : Nat → Nat) (vs : List (Nat → Nat)) (i : Nat) :
    (frestart dflt (freach (updOf settingsInsertCols settingsUpdateCols) dflt vs)).mem i =
      (freach (updOf settingsInsertCols settingsUpdateCols) dflt vs).mem i :=
  restart_observe_fields _ upsert_columns_complete.2 dflt vs i

/-- a list without `ingress_pinned` loses exactly that flag (field 4) -/
example : updOf pinnedInsertCols (pinnedUpdateCols.filter (· ≠ "ingress_pinned")) 4 = false := by decide

/-- **restart_observe (volumes).**  A volume is served as available exactly when its file opened; if that held
before the restart (AddVolume / the previous loadVolumes) and the files are the same, it holds after. -/
theorem restart_observe_volumes (vs : List Vol) (h : ∀ v ∈ vs, v.available = v.fileOk) :
    observeVols (restartVols vs) = observeVols vs := by
  simp only [observeVols, restartVols, List.map_map]
  apply List.map_congr_left
  intro v hv
  simp [h v hv]

/-- **available exactly when its file opens — at EVERY restart.**  Whatever happened before (files lost and
restored any number of times, earlier restarts with the file missing), right after a restart each volume is
available iff its data file opens now; in particular a volume whose file is back is available again. -/
theorem volumes_available_at_every_restart (vs : List Vol) (evs : List VEv) :
    ∀ v ∈ vrun vs (evs ++ [.restart]), v.available = v.fileOk := by
  intro v hv
  simp only [vrun, List.foldl_append, List.foldl_cons, List.foldl_nil, vstep, restartVols, List.mem_map] at hv
  obtain ⟨u, _, rfl⟩ := hv
  rfl

theorem any_congr_mem {α : Type} (l : List α) (p q : α → Bool) (h : ∀ a ∈ l, p a = q a) : l.any p = l.any q := by
  induction l with
  | nil => rfl
  | cons a rest ih =>
    simp only [List.any_cons, h a (by simp)]
    rw [ih (fun b hb => h b (by simp [hb]))]

/-- … hence a write succeeds after a restart iff some volume whose file opens has room -/
theorem write_iff_file_and_room (vs : List Vol) (evs : List VEv) :
    canWrite (vrun vs (evs ++ [.restart])) = (vrun vs (evs ++ [.restart])).any fun v => v.fileOk && v.room := by
  have h := volumes_available_at_every_restart vs evs
  simp only [canWrite]
  apply any_congr_mem
  intro v hv
  rw [h v hv]

/-- the two-restart sequence: file missing at one restart, back at the next — available again; a `loadVolumes`
that only confirms already-available volumes leaves it unavailable for good and nothing can be written -/
example :
    let evs : List VEv := [.setFile 1 false, .restart, .setFile 1 true, .restart]
    observeVols (vrun [⟨1, true, true, true⟩] evs) = [(1, true)] ∧
    canWrite (vrun [⟨1, true, true, true⟩] evs) = true ∧
    observeVols (restartVolsSticky (vstep (restartVolsSticky (vstep [⟨1, true, true, true⟩] (.setFile 1 false))) (.setFile 1 true)))
      = [(1, false)] := by decide

end Restart

/-- **restart_observe (index tip).**  With the in-memory tip equal to the persisted marker (the invariant
`resume_invariant` of C09) a restart of the indexer changes nothing. -/
theorem restart_observe_index {σ : Type} (delta : Nat → Nat → σ → σ) (s : Idx σ) (h : s.mem = s.marker) :
    idxStep delta s .restart = s := by
  cases s; simp_all [idxStep]

namespace Restart

/-! ### open = pending migrations ∘ identity -/

/-- **migration_preserves_observation.**  On a database whose stored aggregates equal the recomputation from
the contracts (C05's invariant) and whose net address carries no port (the settings manager refuses one), each
re-runnable migration leaves everything the getters show as it was: `recalcContractMetrics` writes the
aggregates it finds, the port trim finds nothing to trim, the index creation touches no data. -/
theorem migration_preserves_observation (db : MDb) (hm : db.totals = recompute db.contracts) (hp : db.port = none)
    (m : Mig) : observeDb (applyMig db m) = observeDb db ∧
      (applyMig db m).totals = recompute (applyMig db m).contracts ∧ (applyMig db m).port = none := by
  cases m <;> simp [applyMig, observeDb, hm, hp]

theorem migrations_preserve_observation (ms : List Mig) (db : MDb) (hm : db.totals = recompute db.contracts)
    (hp : db.port = none) : observeDb (ms.foldl applyMig db) = observeDb db := by
  induction ms generalizing db with
  | nil => rfl
  | cons m rest ih =>
    obtain ⟨h1, h2, h3⟩ := migration_preserves_observation db hm hp m
    simp only [List.foldl_cons]
    rw [ih (applyMig db m) h2 h3, h1]

/-- **open = migrations ∘ identity**: whatever the stored schema version (34 … 39: 0 … 5 pending migrations),
opening the database shows the same contracts, aggregates and settings as before it was closed. -/
theorem open_preserves_observation (db : MDb) (hm : db.totals = recompute db.contracts) (hp : db.port = none) :
    observeDb (openDb db) = observeDb db := by
  have := migrations_preserve_observation (pendingOf db.version) db hm hp
  simpa [openDb, observeDb] using this

/-- non-vacuity, with a renewed v2 contract that earned 7: five pending migrations, nothing changes … -/
example :
    let cs : List MC := [⟨true, .renewed, 0, 7⟩, ⟨true, .active, 5, 3⟩, ⟨false, .successful, 0, 2⟩, ⟨false, .failed, 0, 9⟩]
    let db : MDb := { contracts := cs, totals := recompute cs, host := 1, port := none, version := 34 }
    db.totals = ⟨5, 3, 9⟩ ∧ observeDb (openDb db) = observeDb db ∧ (openDb db).version = 39 := by decide

/-- … whereas a recomputation that forgets the `renewed` status loses those 7 -/
example : (recomputeNoRenewed [⟨true, .renewed, 0, 7⟩, ⟨true, .active, 5, 3⟩, ⟨false, .successful, 0, 2⟩]).earned = 2 := by decide

/-! ### open_is_readonly -/

/-- **open_is_readonly** (no migration pending; with pending ones: `open_preserves_observation`).
`restart` leaves the persisted part of every engine
state untouched, and the constructors of the current tree call no writing store
method except `SetAvailable` (volume file found / missing). -/
theorem open_is_readonly :
    (∀ s : Roots, (restartRoots s).rows = s.rows) ∧
    (∀ s : Accts, (restartAccts s).bal = s.bal) ∧
    (∀ b (s : Hooks), (restartHooks b s).table = s.table) ∧
    (∀ (γ : Type) (d : γ × Nat) (s : Conf γ), (restartConf d s).row = s.row) ∧
    (∀ (α β : Type) (view : α → β) (s : St α β), persisted (restart view s) = persisted s) ∧
    codeCtors.all ctorReadOnly = true := by
  refine ⟨fun _ => rfl, fun _ => rfl, fun _ _ => rfl, ?_, fun _ _ _ _ => rfl, by decide⟩
  intro γ d s
  cases h : s.row <;> simp [restartConf, h]

/-- **restart_observe**, all engine-state abstractions together (webhooks: for a constructor that loads). -/
theorem restart_observe :
    (∀ ops, observeRoots (restartRoots (reachRoots ops)) = observeRoots (reachRoots ops)) ∧
    (∀ s a, quiescentAccts s → observeAcct (restartAccts s) a = observeAcct s a) ∧
    (∀ c : Ctor, c.loads = true → ∀ ops, observeHooks (restartHooks c.loads (reachHooks ops)) = observeHooks (reachHooks ops)) ∧
    (∀ (γ : Type) (d : γ × Nat) ops, (restartConf d (reachConf d ops)).mem.1 = (reachConf d ops).mem.1) :=
  ⟨restart_observe_roots, fun s a hq => restart_observe_accounts s hq a, restart_observe_hooks,
   fun _ d ops => restart_observe_conf d ops⟩

/-- every constructor of the table except `webhooks.NewManager` rebuilds its in-memory state -/
theorem ctors_load_except_webhooks :
    (codeCtors.filter (fun c => !c.loads)).map (·.name) = (if webhooksCtor.loads then [] else ["webhooks.NewManager"]) := by
  decide

end Restart
end Hostd.Txn
