import Hostd.Basic
import Hostd.Drive.Registry
import Hostd.Model.Registry
import Hostd.Props.C20
import Hostd.Proto
