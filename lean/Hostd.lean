import Hostd.Proto
import Hostd.Model.Registry
import Hostd.Props.C20
import Hostd.Drive.Registry
