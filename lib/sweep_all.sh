#!/bin/bash
# runs the AST mutation sweep over every engine group (sensitivity probe; hours)
cd "$(dirname "$0")/.."
export GOFLAGS=-mod=mod GOPROXY=off GOSUMDB=off GOTOOLCHAIN=local
(cd extract && go build -o ../.work/bin/mutgen ./mutgen)
for g in ${@:-accounts registry query sectors revision revenue wallet txn volumes mdm chain lock}; do
  python3 lib/mutsweep2.py $g --k ${K:-24} --workers ${W:-2}
done
