#!/usr/bin/env python3
"""lists the mutants of seeded/mutation_sweep_<group>.json that no check flagged, with source context"""
import json, sys, os
for g in sys.argv[1:]:
    d = json.load(open(f"/verif/seeded/mutation_sweep_{g}.json"))
    print("=====", g, d["summary"])
    for m in d["mutants"]:
        if m.get("status") == "ok" and not m.get("flagged"):
            print(f"--- {m['id']} {m['file']}:{m['line']} func {m['func']} kind={m['kind']} tests_notice={m.get('package_tests_notice')}")
            print(f"    {m['orig'][:150]!r} -> {m['repl'][:150]!r}")
            src = open(os.path.join("/repo", m["file"])).read().split("\n")
            for i in range(max(0, m["line"] - 3), min(len(src), m["line"] + 2)):
                print(f"      {i+1:5d} {src[i][:160]}")
