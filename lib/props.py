"""Per-property configuration of the checks: collected from lib/props.d/Cxx.py
(each defines PROP = dict(...) and optionally ENGINE = dict(...), NOT_APPLICABLE = "reason")."""
import glob, importlib.util, os

COMMON_TB = [
    "SQLite transactions atomic/durable at commit (modelled, not verified)",
    "go.sia.tech/core and coreutils behave as documented (consensus diffs, Currency arithmetic, signatures, Merkle roots)",
]

PROPS, NOT_APPLICABLE, ENGINES = {}, {}, []
_d = os.path.join(os.path.dirname(os.path.abspath(__file__)), "props.d")
for _f in sorted(glob.glob(os.path.join(_d, "C*.py"))):
    _pid = os.path.basename(_f)[:-3]
    _spec = importlib.util.spec_from_file_location("props_" + _pid, _f)
    _m = importlib.util.module_from_spec(_spec)
    _m.COMMON_TB = COMMON_TB
    _spec.loader.exec_module(_m)
    if hasattr(_m, "PROP"):
        PROPS[_pid] = _m.PROP
    if hasattr(_m, "NOT_APPLICABLE"):
        NOT_APPLICABLE[_pid] = _m.NOT_APPLICABLE
    if hasattr(_m, "ENGINE"):
        ENGINES.append(_m.ENGINE)
