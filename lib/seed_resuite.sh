#!/bin/bash
# lib/seed_resuite.sh <seed-id> — re-runs the existing suite with seeded/<id>/patch.diff in a scratch worktree (for a
# first run that failed in a load-dependent test) and records the result in meta.json.
set -u
ID=$1
VERIF=$(cd "$(dirname "$0")/.." && pwd)
export GOFLAGS=-mod=mod GOPROXY=off GOSUMDB=off GOTOOLCHAIN=local
WT=/tmp/resuite_$ID
git -C /repo worktree remove --force $WT >/dev/null 2>&1; rm -rf $WT
git -C /repo worktree add --detach $WT HEAD >/dev/null 2>&1 || exit 2
git -C $WT apply $VERIF/seeded/$ID/patch.diff || { git -C /repo worktree remove --force $WT; exit 2; }
(cd $WT && go build ./... && go test -vet=off -count=1 -timeout 25m ./... >/tmp/resuite_$ID.log 2>&1); RC=$?
FAILED=$(grep -h "^--- FAIL" /tmp/resuite_$ID.log | tr '\n' ' ')
python3 - "$ID" "$RC" "$FAILED" "$VERIF" <<'PY'
import json, sys, os
ID, RC, FAILED, VERIF = sys.argv[1:]
p = os.path.join(VERIF, "seeded", ID, "meta.json"); d = json.load(open(p))
if RC == "0":
    d["confirmed"]["existing_suite_passes_with_patch"] = True
d["what_i_ran"].append(f"suite re-run alone in a fresh worktree with the patch (the first run failed in a load-dependent test): go test -vet=off -count=1 ./... exit {RC} {FAILED}")
json.dump(d, open(p, "w"), indent=1)
print(f"seed={ID} resuite_exit={RC} {FAILED}")
PY
git -C /repo worktree remove --force $WT >/dev/null 2>&1; rm -rf $WT
