#!/bin/bash
# lib/seed_recheck.sh <seed-id> [tier]  — re-runs the property's check against seeded/<id>/patch.diff in a scratch
# worktree (no suite run) and updates detected_by_check / detecting_signatures in seeded/<id>/meta.json.
set -u
ID=$1; TIER=${2:-quick}
VERIF=$(cd "$(dirname "$0")/.." && pwd)
PROP=$(python3 -c "import json;print(json.load(open('$VERIF/seeded/$ID/meta.json'))['property'])")
WT=/tmp/recheck_$ID
git -C /repo worktree remove --force $WT >/dev/null 2>&1; rm -rf $WT
git -C /repo worktree add --detach $WT HEAD >/dev/null 2>&1 || { echo "worktree failed"; exit 2; }
(git -C $WT apply $VERIF/seeded/$ID/patch.diff 2>/dev/null || git -C $WT apply -3 $VERIF/seeded/$ID/patch.diff 2>/dev/null || (cd $WT && patch -p1 -F3 -s < $VERIF/seeded/$ID/patch.diff)) || { echo "seed=$ID patch does not apply to HEAD"; git -C /repo worktree remove --force $WT; exit 2; }
(cd $VERIF && VERIF_REPO=$WT VERIF_TMP=/var/tmp VERIF_SHRINK_MAX=1 bin/check $PROP --tier $TIER >/tmp/recheck_$ID.log 2>&1); CHECK=$?
VIOL=$(grep -c '^VIOLATION' /tmp/recheck_$ID.log)
python3 - "$ID" "$CHECK" "$VIOL" "$VERIF" "$TIER" <<'PY'
import json, sys, re, os
ID, CHECK, VIOL, VERIF, TIER = sys.argv[1:]
log = open(f"/tmp/recheck_{ID}.log").read()
sigs = []
for m in re.finditer(r"replay=(\S+)", log):
    try: sigs.append(json.load(open(m.group(1))).get("signature") or "obligation/correspondence")
    except Exception: pass
p = os.path.join(VERIF, "seeded", ID, "meta.json"); meta = json.load(open(p))
det = CHECK == "1" and int(VIOL) > 0
meta["detected_by_check"] = det
if det: meta["detecting_signatures"] = sorted(set(sigs))
meta.setdefault("rechecks", []).append(f"bin/check {meta['property']} --tier {TIER} against the patched worktree: exit {CHECK}, {VIOL} VIOLATION line(s)")
meta["rechecks"] = meta["rechecks"][-3:]
json.dump(meta, open(p, "w"), indent=1)
print(f"seed={ID} prop={meta['property']} check_exit={CHECK} violations={VIOL} detected={det} {sorted(set(sigs))[:3]}")
PY
git -C /repo worktree remove --force $WT >/dev/null 2>&1; rm -rf $WT
