#!/usr/bin/env python3
"""Rewrites DESIGN.md §0.8 (false-alarm probe) from seeded/benign/results.json."""
import json, os
V = os.path.dirname(os.path.dirname(os.path.abspath(__file__)))
r = json.load(open(os.path.join(V, "seeded/benign/results.json")))
rows = []
for x in sorted(r, key=lambda x: x["patch"]):
    name = x["patch"].split("benign/")[1]
    rows.append(f"| `{name}` | {', '.join('`'+f+'`' for f in x['files'])} | {' '.join(sorted(x['checks']))} | {'none' if not x['false_alarms'] else ' '.join(x['false_alarms'])} |")
out = ("### 0.8 False-alarm probe: behaviour-preserving refactors (`seeded/benign/`, `lib/benign_run.py`; not a check)\n\n"
       "Four sub-agents (told only that the patches test my checks for false alarms, given a scratch worktree and a list of files, nothing from `/verif`) each wrote six "
       "behaviour-preserving refactors — renamed locals/parameters/receivers, reordered independent statements, extracted or inlined helpers, rewritten control flow, "
       "re-flowed/aliased SQL, functions moved to new files, hoisted constants, changed log and error texts — and verified that the package tests pass; "
       "`seeded/benign/B1…B8.diff` are eight of my own (B8: the registry mutex split into stripes chosen by the hash of the key, the correct counterpart of seed C20-e). `lib/benign_run.py` applies each in a scratch worktree and runs the quick checks of every property anchored in the touched files; "
       "each must exit 0. First run: 5 of 24 raised an alarm, all of them broken translator obligations or the signing-site scan (chain/p2 SQL re-flow, chain/p3 extracted helpers, "
       "chain/p5 functions moved to a new file, chain/p6 SQL hoisted into constants, rhp/p3 signing call moved into a helper); none came from a correspondence run. "
       "The translators were generalised (whole-package lookup, package-level constants, helper inlining with statement-parameter binding, SQL normalisation, parameter types instead of names, "
       "signing sites followed through call edges); afterwards all patches pass, all chain/revision seeds are still detected and the 37 chain mutants of `chain_mutation_sweep.json` were re-run. Last results:\n\n"
       "| patch | files | checks run | alarms |\n|---|---|---|---|\n" + "\n".join(rows) + "\n\n")
p = os.path.join(V, "DESIGN.md"); s = open(p).read()
if "### 0.8 False-alarm probe" in s:
    a = s.index("### 0.8 False-alarm probe"); b = s.index("---------------------------------------------------------------------------", a)
    s = s[:a] + out + s[b:]
else:
    b = s.index("---------------------------------------------------------------------------", s.index("### 0.7 Syntactic"))
    s = s[:b] + out + s[b:]
open(p, "w").write(s)
print(len(rows))
