#!/usr/bin/env python3
"""Regenerates MANIFEST.json from lib/props.py (so it is always valid and current)."""
import json, os, sys
VERIF = os.path.dirname(os.path.dirname(os.path.abspath(__file__)))
sys.path.insert(0, os.path.join(VERIF, "lib"))
from props import PROPS, NOT_APPLICABLE, ENGINES

BASE = json.load(open("/root/.vp/BASELINE.json"))["cmd"] if os.path.exists("/root/.vp/BASELINE.json") else ""
ids = [json.loads(l)["id"] for l in open(os.path.join(VERIF, "properties.jsonl"))]
ready_file = os.path.join(VERIF, "lib", "ready.txt")
READY = set(open(ready_file).read().split()) if os.path.exists(ready_file) else set(PROPS)
checks = []
for pid in ids:
    if pid not in PROPS or pid not in READY:
        continue
    c = PROPS[pid]
    checks.append(dict(
        property_id=pid,
        quick_cmd=f"bin/check {pid} --tier quick",
        thorough_cmd=f"bin/check {pid} --tier thorough",
        evidence_file=f"/verif/evidence/{pid}.json",
        replay_cmd_template=f"bin/check {pid} --replay {{path}}",
        engine=c["engine"],
        level_claimed=dict(category="proof", text=c["level_text"], design_ref=c.get("design_ref", "DESIGN.md §3 " + pid)),
        level_note=c["level_note"],
        technique=c.get("technique", "Lean 4 theorems over an executable model + differential correspondence run of the model driver against the real code"),
    ))
na = [dict(property_id=p, reason=NOT_APPLICABLE.get(p, "check not built yet in this round; see DESIGN.md")) for p in ids if p not in PROPS or p not in READY]
man = dict(
    version=1,
    setup_cmd="bin/setup",
    hooks=dict(guard="verif", enable="go test -c -tags verif -overlay .work/overlay.json (harness and export shims are injected from /verif/harness at build time; no hook code is committed in /repo)",
               baseline_off_cmd=BASE, source_commits=[], add_only=True),
    engines=ENGINES,
    checks=checks,
    not_applicable=na,
    notes="All checks: bin/check <id> --tier quick|thorough. VERIF_SEED / VERIF_TIER honoured. known findings: known-findings.json. See DESIGN.md.",
)
json.dump(man, open(os.path.join(VERIF, "MANIFEST.json"), "w"), indent=1)
print("checks:", len(checks), "not_applicable:", len(na))
