#!/usr/bin/env python3
"""Builds, for every accepted check, the Lean property modules, the model driver and the harness binary (setup)."""
import os, sys
sys.path.insert(0, os.path.dirname(os.path.abspath(__file__)))
import vcheck
from props import PROPS
VERIF = vcheck.VERIF
rf = os.path.join(VERIF, "lib", "ready.txt")
ready = set(open(rf).read().split()) if os.path.exists(rf) else set(PROPS)
ok = True
done = set()
targets = []
for pid, c in PROPS.items():
    if pid not in ready:
        continue
    for t in c["props"] + [c["driver"]]:
        if t not in targets:
            targets.append(t)
rc, out = vcheck.run(["lake", "build"] + targets, cwd=vcheck.LEAN)
if rc != 0:
    print(out[-4000:]); ok = False
for pid, c in PROPS.items():
    if pid not in ready or c["harness"] in done:
        continue
    b, out = vcheck.build_harness(c["harness"])
    done.add(c["harness"])
    if b is None:
        print(out[-2000:]); ok = False
print("setup", "ok" if ok else "FAILED", "targets:", len(targets), "harnesses:", len(done))
sys.exit(0 if ok else 1)
