#!/usr/bin/env python3
"""Builds every driver and harness binary once (setup)."""
import os, sys
sys.path.insert(0, os.path.dirname(os.path.abspath(__file__)))
import vcheck
from props import PROPS
ok = True
done = set()
for pid, c in PROPS.items():
    if c["driver"] not in done:
        rc, out = vcheck.run(["lake", "build", c["driver"]], cwd=vcheck.LEAN)
        done.add(c["driver"])
        if rc != 0:
            print(out[-2000:]); ok = False
    if c["harness"] not in done:
        b, out = vcheck.build_harness(c["harness"])
        done.add(c["harness"])
        if b is None:
            print(out[-2000:]); ok = False
sys.exit(0 if ok else 1)
