#!/usr/bin/env python3
"""Regenerates lean/Hostd.lean = imports of every module under lean/Hostd/."""
import os
LEAN = os.path.join(os.path.dirname(os.path.dirname(os.path.abspath(__file__))), "lean")
mods = []
for root, _, files in os.walk(os.path.join(LEAN, "Hostd")):
    for f in files:
        if f.endswith(".lean"):
            rel = os.path.relpath(os.path.join(root, f), LEAN)[:-5].replace("/", ".")
            mods.append(rel)
open(os.path.join(LEAN, "Hostd.lean"), "w").write("".join(f"import {m}\n" for m in sorted(mods)))
print(len(mods), "modules")
