_FN = r"(validateContractFormation|rhp2\.validateContractRenewal|rhp3\.validateContractRenewal|rpcFormContract|rpcRenewAndClearContract|handleRPCRenew)"
PROP = dict(
        engine="revision", harness="revision", driver="drv_revision",
        # after the proposed repair (overflow-checked base cost arithmetic) is applied: driver_args=["fixed"] (or run with VERIF_REVISION_VARIANT=fixed)
        driver_args=([] if __import__('os').environ.get('VERIF_REVISION_VARIANT') == 'unfixed' else ['fixed']),   # /repo carries the fix: commits 44e5446..839f27b
        props=["Hostd.Props.C12"],
        case_mode=True,
        flag_filter=r"(^|/)" + _FN + r"/(?!clearing_)",
        corpus_filter=r"^c12_",
        # len = per-mille of cases that go through the real RPC handlers
        quick=dict(n=100000, len=250, shards=8, timeout=300),
        thorough=dict(n=2400000, len=250, shards=32, timeout=1500),
        nontrivial=r"res=(accept|panic)", min_ops=1, min_kinds=1,
        rule="one evaluation = one generated (contract, existing revision, settings, height) input case executed on the real validator or the real RPC handler and on the Lean model; distinct_nontrivial = distinct cases the implementation accepted or panicked on",
        trusted_base=COMMON_TB + [
            "types.Currency Add/Sub/Mul64 panic exactly on 128-bit overflow/underflow; uint64 addition wraps",
            "handler-level cases: chain, wallet, syncer, contract manager and settings are stubs behind the handlers' interfaces (fixed height / hard-fork height, no funding, arguments of AddContract/RenewContract recorded); signature checks are exercised with real keys",
            "contractUnlockConditions(hostKey, renterKey).UnlockHash() and addresses represented by small integer ids",
            "in-flight changes: the stub chain manager's tip is advanced (and the stub settings are replaced) by the harness between the arrival of the RPC id and the delivery of the request body (the in-memory transport holds the body back until the host is blocked reading it) and between the host's answer and the renter's signatures",
        ],
        level_text="for ALL candidate contracts, existing revisions, heights and settings the Lean model of validateContractFormation, RHP2/RHP3 validateContractRenewal and of the handler paths rpcFormContract / rpcRenewAndClearContract / handleRPCRenew (hard-fork guard, clearing revision, base cost arithmetic with panicking Mul64/Add, validator, recorded figures) is proved to accept only contracts satisfying every clause of the property and to record exactly the closed forms (locked, risked, usage); window clauses under the configuration hypothesis height+maxDuration+windowSize < 2^64 (uint64 wrap modelled, witness shows it is needed); no_panic proved for the formation validator and for the repaired variant, negated with replayed witnesses for the current renewal arithmetic; tied to the code by seeded perturbation cases run on the real validators and through the real RPC handlers",
        level_note="trusted: Lean kernel (+propext, Quot.sound, Classical.choice), core's Currency arithmetic, stub managers behind the RPC handlers, harness canonicalisation",
        assumptions=["'current height' for RHP2 formation / renewal = the chain tip when the host validates the request (after the request body has been read): rpcForm2_uses_current_height, rpcRenew2_uses_current_height; blocks connecting later (before the renter's signatures) do not matter",
                     "settings are ONE snapshot per RPC, taken when the handler starts (RHP2) / the price table the renter pays with (RHP3, including its HostBlockHeight: by design the RHP3 window is measured from the height the table was issued at, rpcRenew3_pricetable_height_witness); a settings update while a request is in flight is honoured from the next RPC on",
                     "configuration hypothesis: height + maxDuration + windowSize < 2^64 (otherwise the code's uint64 additions wrap; modelled, see formation_wrap_witness)",
                     "closed forms as coded: RHP2 base revenue = contractPrice + StoragePrice*filesize*extension (storage revenue recorded without the contract price), RHP3 base revenue = RenewContractCost + WriteStoreCost*filesize*extension (recorded as storage revenue), risked = (validHost - missedHost) -. base revenue"],
    )
