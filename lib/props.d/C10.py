PROP = dict(
        engine="revenue", harness="revenue", driver="drv_revenue",
        props=["Hostd.Props.C10"],
        # n = histories (each: one real host node, 1-5 contracts, 1-3 accounts), len = max RPCs per history (5..len);
        # every v2every-th history runs on the V2 network through the coreutils RHP4 client
        quick=dict(n=112, len=40, shards=8, timeout=420, extra=dict(v2every="8")),
        thorough=dict(n=1760, len=40, shards=16, timeout=1700, extra=dict(v2every="5")),
        nontrivial=r"res=ok", min_ops=5, min_kinds=3,
        shrink_budget=60, replay_timeout=180,
        trusted_base=COMMON_TB + [
            "cost vectors: the harness computes the cost of every RPC with the same go.sia.tech/core functions the handlers call (rhp2 HostSettings.RPCWriteCost/RPCReadCost/RPCSectorRootsCost, rhp3 HostPriceTable.*Cost) and hands them to the model as inputs; which category each part of a cost is booked to is the model's own transcription (checked field by field after every RPC)",
            "v2: the usage argument of every contracts.Manager call is recorded by an interposer between the coreutils RHP4 server and the manager; that each revision moves exactly usage.RenterCost() to the host output (proto4.PayWithContract) is coreutils' contract, checked on every observed call (field k<i>.pays_exactly)",
            "order in which the funding rows of an account are consumed: oracle read with the statement of contractFunding before the RPC, validated as a permutation of the model's rows (the property does not constrain it)",
            "an RPC counts as accepted iff the host's own stored revision number advanced (not the renter-side error)",
            "harness/shims/host/registry: the registry access recorder is given its store (NewManager leaves it nil and the 10 s flush would crash the process after a registry instruction; defect owned by C14)",
        ],
        level_text="Lean theorem v1_conservation: for every sequence of formations, RHP2 write/read/sector-roots with ANY over-payment, RHP3 fund-account, pay-by-contract, account spending (budget commits of any usage vector, attributed over any funding rows), program finalisations and RHP2/RHP3 renewals - accepted or rejected - every contract satisfies validHostPayout = lockedCollateral + rpc+storage+ingress+egress+registryRead+registryWrite+accountFunding (invariant: conservation AND unspent funding = sum of funding rows; hence AccountFunding.Sub never underflows); generic in where the handlers route the excess / the deposit / the registry columns (Facts.ok), instantiated with the current tree's routing, with witness theorems that dropping any of them breaks the equation. v2: recorded usage = Usage.Add fold of the usage arguments (spending only re-labels unspent funding), hence hostOutput - totalCollateral = RenterCost(recorded usage) (+ carry of a refresh). "
                   "Tie: seeded sessions of 5-40 RPCs against the REAL RHP2/RHP3 handlers of a host node over TCP (form; write append/trim/swap/update; read; sector roots; fund account; price table / account balance / latest revision / execute-program incl. registry instructions, each paid by contract AND by account, with finalisation; RHP2 renew-and-clear and RHP3 renew; mining) with over-payments from {0, 1 H, small, large, everything, under-payment}; after EVERY RPC the equation is evaluated on Contract() of every contract of the history (model-independent monitor) and every payout, locked collateral, usage field and account balance is compared with the model. v2: form/append/free/sector-roots/fund/replenish/renew/refresh and account-funded write/read through the coreutils RHP4 client against the real contracts.Manager.",
        level_note="trusted: Lean kernel (+propext, Quot.sound), core's cost functions as inputs, the hand transcription of the handlers' routing (Model/Revenue.lean: Facts.current) validated by the differential runs; not covered: RHP2 `update` is refused by the store on the current tree (C02/C03 defect; lines skipped), NumRoots=0 and Update+MerkleProof crash the host (C14) and are not generated, consensus-level payout (storage proof / missed proof) is C01/C05",
        assumptions=[
            "'latest signed revision' = Contract().Revision as stored by the host (both signatures are produced in the same handler step)",
            "unspent account funding counts as recorded usage (property text); account spending attributed to a cleared (renewed) contract keeps that contract's equation",
            "v2 'formed or renewed (not refreshed)': for a refreshed contract the equation is checked with the predecessor's revenue carried over (theorem v2_refreshed_balanced), which is what the rolled-over host output contains",
        ],
    )

ENGINE = dict(name="revenue", path="lean/Hostd/Model/Revenue.lean + harness/src/revenue", serves_properties=["C10"],
              kind_free_text="Lean accounting model of the RHP2/RHP3 handlers + store usage increments + attribution, invariant proofs; Go harness driving real RHP2/RHP3 sessions (over-paying renter) and RHP4 via coreutils against a real host node")
