PROP = dict(
        engine="accounts", harness="accounts", driver="drv_accounts",
        props=["Hostd.Props.C04"],
        quick=dict(n=1200, len=50, shards=8, timeout=300),
        thorough=dict(n=24000, len=80, shards=16, timeout=1500),
        # monitors / mismatch fields of the shared `accounts` engine that belong to C04
        flag_filter=r"^(c04\.|accounts_listing|no_overdraft|budget_iff|commit_exact|rollback_refunds|failed_commit_keeps_reservation|failed_reservation_refunds|reservation_eq|ledger_eq|metrics_eq/|mixed_protocol_reservation|no_double_spend|no_panic)",
        nontrivial=r"^(budget|commit|rollback|rhp4debit|credit) .*res=ok", min_ops=8, min_kinds=3,
        shrink_budget=80,
        trusted_base=COMMON_TB + [
            "atomicity: AccountManager methods run under AccountManager.mu, store methods inside one SQLite transaction with deferred rollback; hence interleavings of concurrent RPCs = sequences of the model's atomic operations (assumed in the proofs; exercised, not proved, by the `par` rounds: 2-4 goroutines reserve / spend / commit on one account at once and the counts and the final ledger must equal those of a sequential order)",
            "RHP3 and RHP4 accounts share the table `accounts` (one key space) - read off persist/sqlite/accounts.go and confirmed by every differential run (r4bal = sbal)",
            "RHP4CreditAccounts is called with usage.AccountFunding = sum of the deposits (how coreutils' handleRPCFundAccounts builds it)",
            "read-only SQL shim harness/shims/persist/sqlite/zz_verif_accounts.go",
        ],
        level_text="ledger invariant proved in Lean for every operation sequence of the model (= every interleaving of the atomic manager/store operations): balance = accepted deposits - committed withdrawals >= 0 and metric laws for ALL sequences incl. mixed protocols (balance_eq_ledger, metrics_active_eq, metrics_eq / metrics_eq_partial); reservation laws (store = spendable + open reservations, openTxns = #open budgets, budget_iff, commit_exact, rollback_refunds, failed_commit_keeps_reservation, no_double_spend, no_panic) for all sequences without an RHP4 debit on a key that has open RHP3 budgets (ledger_inv_partial; the excluded case is refuted by mixed_protocol_breaks_ledger and replayed on the code); the model is tied to the code by seeded random operation sequences executed on the real accounts.AccountManager + sqlite.Store (both protocols, injected store failures) and replayed line by line on the compiled model",
        level_note="partial where the code violates the property: ledger_inv_partial excludes RHP4 debits on keys with open RHP3 budgets (known finding mixed_protocol_reservation); metrics_eq holds since fix 21fbfc5 (metrics_eq_partial describes the tree before it: metric = sum of balances + accepted RHP4 debits). Trusted: Lean kernel (+propext, Classical.choice, Quot.sound), atomicity assumption, harness canonicalisation",
        assumptions=[
            "'balance' in clause 1 is the persisted balance (Store.AccountBalance = RHP4AccountBalance); AccountManager.Balance reports it minus the open reservations",
            "an RHP4 deposit arriving while RHP3 budgets are open is only seen by the manager once they are closed (under-reports the spendable balance, never over-reports): treated as allowed by 'succeeds only if', recorded as history variable `stale` in budget_iff",
            "Budget.Refund panics (committed budget, refund larger than spending) are documented behaviour, not violations",
        ],
    )

ENGINE = dict(name="accounts", path="lean/Hostd/Model/Accounts.lean + lean/Hostd/Lemmas/Accounts.lean + harness/src/accounts", serves_properties=["C04", "C11"], kind_free_text="Lean model of AccountManager/Budget and of the sqlite account + funding tables, theorems by induction over operation sequences; Go differential harness on real accounts.AccountManager + sqlite.Store (RHP3 + RHP4 on one key space)")
