PROP = dict(
        engine="lock", harness="lock", driver="drv_lock",
        props=["Hostd.Props.C15"],
        quick=dict(n=6400, len=40, shards=8, timeout=300),
        thorough=dict(n=96000, len=60, shards=16, timeout=1500),
        nontrivial=r"^(race|unlock|cancel) .*rets=\[[^\]]*[aefs]", min_ops=6, min_kinds=3,
        shrink_budget=80,
        trusted_base=["Go scheduler, memory model and `select` semantics (the real goroutines are steered and observed, not enumerated); "
                      "sync.Mutex gives mutual exclusion of the locker's critical sections",
                      "goroutine states reported by runtime.Stack (used to decide that a caller is parked in the select of locker.Lock)",
                      "the store lookups of Manager.Lock / LockV2Contract are answered by a harness stub (found / not found / not good for modification / renewed); the revision and cached sector roots the integrity checks see (consistent / root count mismatch / Merkle root mismatch) are set by the harness",
                      "lock users are found by a syntactic go/parser scan (calls x.Lock(ctx, id) with two arguments, x.LockV2Contract(id)) of host/contracts, rhp/v2, rhp/v3, api; the rhp handlers are listed, not driven by this engine",
                      "model granularity: everything done under lr.mu is one atomic step (Model/Lock.lean transcribes lock.go by hand; structure facts are not regenerated)"],
        level_text="Lean theorems over the transition system of lock.go (heap of lock objects, map, per-caller program counters; steps lockFresh, lockWait, recv, cancelCommit, cancelFinish, unlock) for every reachable state, any number of callers and contracts: "
                   "entry present => holders+tokens=1 and n=holders+waiting+cancelling>=1, pointers kept across the unlocked window are never stale; corollaries mutual exclusion, Unlock never panics and its send never blocks, "
                   "admissions <= unlocks over any window, a waiter always has a holder or a token and is admitted right after the holder's Unlock, a cancelled waiter returns, all idle => map empty and the next Lock is immediate, Manager error paths release. "
                   "Lock users (Manager.CheckIntegrity, V2CheckIntegrity): acquire, body, release on every return path are actions of the same system (userAfterAcquire; C15_user_releases_on_every_path, C15_user_no_leak); the table lockUsers is compared with a scan of the tree on every run (a new lock user is a mismatch). "
                   "Tie: the real locker (raw, via Manager.Lock, via LockV2Contract, and inside CheckIntegrity / V2CheckIntegrity on contracts prepared for every return path, uncontended, queued behind a holder, cancelled while waiting; after every return len(locks) is compared with the contracts in use and the contract is re-locked: monitor no_leak/<method>/<path>) is driven by 2-4 goroutines on 1-2 ids under a harness-controlled schedule (back-to-back cancel/unlock/lock bursts, GOMAXPROCS 1/2/4); "
                   "every observed snapshot sequence must be a path of the Lean system (set-of-candidates replay) and the property clauses are monitored on the implementation's own observations",
        level_note="trusted: Lean kernel (+propext, Classical.choice, Quot.sound), Go runtime (scheduler, select, runtime.Stack), hand transcription of lock.go into Model/Lock.lean validated by the differential runs; liveness is proved as enabledness (no fairness assumption about which waiter receives the token)",
        assumptions=["callers follow the protocol: Unlock is called only by the caller whose Lock returned nil, once",
                     "'obtains it after the holder releases' read as: some waiter is admitted by each release while waiters exist (the code gives no FIFO/fairness guarantee to an individual waiter)"],
    )

ENGINE = dict(name="lock", path="lean/Hostd/Model/Lock.lean + harness/src/lock", serves_properties=["C15"],
              kind_free_text="Lean transition system + invariant proofs; Go schedule-controlling harness on the real contracts.locker / Manager.Lock / LockV2Contract")
