PROP = dict(
    engine="chain", harness="chain", driver="drv_chain",
    props=["Hostd.Props.C01", "Hostd.Props.C01G", "Hostd.Props.C06End", "Hostd.Gen.ChainTie", "Hostd.Gen.ChainSqlTie"],
    pregen=[["go", "run", "./chaintable", "{repo}", "{lean}/Hostd/Gen/ChainTable.lean"],
            ["go", "run", "./sqlwhere", "{repo}", "{lean}/Hostd/Gen/ChainSql.lean"]],
    shard_extra=[dict(level="store"), dict(level="mgr")],
    driver_args=["c01/"],
    # second engine: real chain (L2) — the wallet engine's `contracts` scenario family drives real
    # consensus diffs through index.Manager.syncDB / contracts.Manager on a host node with a second
    # chain manager mining forks; twin-node and end-to-end monitors
    also=[dict(engine="wallet", harness="wallet", driver="drv_wallet", driver_args=[], flag_filter=r"^c01/", corpus_filter=r"^c01_",
               shard_extra=None, extra=dict(family="contracts"), reset_op="reset", case_mode=False,
               nontrivial=r"^(form|reorg|append|revise)", min_ops=5, min_kinds=3,
               quick=dict(n=64, len=14, shards=8, timeout=400), thorough=dict(n=1600, len=18, shards=16, timeout=1700))],
    flag_filter=r"^c01/",
    quick=dict(n=384, len=40, shards=16, timeout=300),
    thorough=dict(n=4000, len=60, shards=16, timeout=1700),
    nontrivial=r"^(apply|revert) .*(form1=\[\d|form2=\[\d|succ|fail|renew)", min_ops=10, min_kinds=3,
    shrink_budget=80,
    trusted_base=COMMON_TB + [
        "codeTable in Model/Chain.lean is a hand transcription of persist/sqlite/consensus.go's 18 apply*/revert* functions and RejectContracts; tied to the code by the differential run over every (function, prior status) cell, well-formed and ill-formed",
        "well-formedness of consensus diffs (one event per contract per block; formation only when unconfirmed; revision/resolution only when confirmed and unresolved; reverts undo the top block) is the hypothesis of the history theorems",
        "L1 harness drives sqlite.Store.UpdateChainState with synthetic StateChanges the way contracts.Manager.UpdateChainState does (ApplyContracts, then RejectContracts(h-rejectBuffer))",
    ],
    level_text="Lean theorems over the table-driven model of the contract state machine: for every well-formed history of block connections/disconnections no fault occurs and every contract's chain view equals the view obtained by processing only the best chain (path independence), revert undoes apply up to the one-way rejection, the reject rule; proved generically for any table satisfying a decidable TableOK and discharged for the transcribed table by kernel evaluation. Correspondence: seeded reorg histories (batches mixing reverts and applies, rescans after ResetChainState, ill-formed events) run on the real sqlite.Store and replayed on the model; model-independent twin-store oracle.",
    level_note="trusted: Lean kernel, transcription of consensus.go into codeTable (checked by the differential run), harness; consensus library assumed to emit well-formed diffs",
    assumptions=["rejection is read at processing time (DESIGN §6.1)", "L1 only: buildContractState's classification of real consensus diffs is exercised by the L2 engine (C16/C17) where present"],
)
ENGINE = dict(name="chain", path="lean/Hostd/Model/Chain.lean + harness/src/chain", serves_properties=["C01", "C05", "C06"],
              kind_free_text="table-driven Lean model of ApplyContracts/RevertContracts/RejectContracts, metrics and lifecycle queries; Go harness on a real sqlite.Store with synthetic StateChanges")
