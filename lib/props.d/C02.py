import os
# repairs the model expects: "cachecopy" (sector cache holds private copies), "rollbackchecked" (StoreSector rollback is conditional)
VOLUMES_FIXES = "cachecopy rollbackchecked syncserial resizelocked"
PROP = dict(
        engine="volumes", harness="volumes", driver="drv_volumes",
        driver_args=(os.environ.get("VERIF_VOLUMES_FIXES") or VOLUMES_FIXES).split(),
        props=["Hostd.Props.C02"],
        extra=dict(mode="data"),
        corpus_filter=r"^c02_",
        flag_filter=r"^(read_intact|prune_only_unreferenced|shrink_keeps_occupied|lost_counted|data/)",
        quick=dict(n=256, len=45, shards=8, timeout=300),
        thorough=dict(n=3200, len=60, shards=16, timeout=1700),
        nontrivial=r"^read .*res=ok", min_ops=8, min_kinds=4,
        trusted_base=COMMON_TB + [
            "filesystem: a write that was fsynced survives process death, an unsynced one may vanish (emulated by overwriting dirty slots after restoring the database snapshot); SQLite WAL commit is durable",
            "crash points are taken between operations and inside StoreSector's callback (after the slot commit, before the data write); crash points inside a SQL transaction are C09's",
            "writers are serialised by the harness at StoreSector's three critical sections (true parallel races inside SQLite / the LRU library are not explored)",
            "the RPC layer's upload protocol is played by the generator: reference a root only after Write was acknowledged and Sync returned, within the prune interval"],
        level_text="read-intact invariant (referenced => slot holds the sector's data, durable, cache entry absent or equal) proved in Lean for every reachable state of the storage model under explicitly listed schedule restrictions (C02_read_intact_partial); for each excluded schedule on which the current code breaks the property a Lean-checked counterexample (decide) that is replayed on the real VolumeManager (corpus traces, known findings); migration at every failure index, shrink, prune and lost-sector accounting proved as separate lemmas",
        level_note="partial: the invariant is not inductive for the faithful model (cache aliasing, exists-fast-path after a crash or next to a failing writer, StoreSector without fsync); those schedules are excluded in the theorem and reported as known findings. Real power-loss behaviour of the filesystem / WAL and true parallelism are modelled, not verified",
        assumptions=["forced volume removal and RemoveSector count every occupied location they drop (referenced or awaiting prune) as lost"],
    )
