import os
# repairs the model expects: "cachecopy" (sector cache holds private copies), "rollbackchecked" (StoreSector rollback is conditional)
VOLUMES_FIXES = "cachecopy rollbackchecked syncserial resizelocked removeused"
# second engine: the `mdm` wire harness (real host, real VolumeManager on real volume files, attacked over RHP2/RHP3)
# observes that the RPC handlers follow the upload protocol the volumes model assumes: when an upload-carrying RPC
# reports success, no slot holding a referenced sector is still waiting for its fsync (monitor c02/rpc_commit_synced/<site>).
# Same repaired-sites list as C14 (lib/props.d/C14.py FIXED_IN_REPO / VERIF_MDM_FIXED).
import re as _re
_m = _re.search(r"^FIXED_IN_REPO\s*=\s*\[([^\]]*)\]", open(os.path.join(os.path.dirname(os.path.abspath(__file__)), "C14.py")).read(), _re.M)
_mdm_fixed = os.environ["VERIF_MDM_FIXED"].split() if os.environ.get("VERIF_MDM_FIXED") is not None else [x.strip() for x in (_m.group(1) if _m else "").split(",") if x.strip()]
PROP = dict(
        also=[dict(engine="mdm", harness="mdm", driver="drv_mdm", driver_args=_mdm_fixed, flag_filter=r"^c02/", corpus_filter=r"^c02_",
                   case_mode=True, extra=dict(focus="uploads"), nontrivial=r"res=accept", min_ops=1, min_kinds=1,
                   quick=dict(n=160, len=1, shards=8, timeout=300), thorough=dict(n=3200, len=1, shards=16, timeout=1500))],
        engine="volumes", harness="volumes", driver="drv_volumes",
        driver_args=(os.environ.get("VERIF_VOLUMES_FIXES") or VOLUMES_FIXES).split(),
        props=["Hostd.Props.C02", "Hostd.Props.C02Rpc"],
        extra=dict(mode="data"),
        corpus_filter=r"^c02_",
        flag_filter=r"^(read_intact|sync_durable|prune_only_unreferenced|shrink_keeps_occupied|lost_counted|data/)",
        quick=dict(n=256, len=45, shards=8, timeout=300),
        thorough=dict(n=3200, len=60, shards=16, timeout=1700),
        nontrivial=r"^read .*res=ok", min_ops=8, min_kinds=4,
        trusted_base=COMMON_TB + [
            "filesystem: a write that was fsynced survives process death, an unsynced one may vanish (emulated by overwriting dirty slots after restoring the database snapshot); SQLite WAL commit is durable",
            "crash points are taken between operations and inside StoreSector's callback (after the slot commit, before the data write); crash points inside a SQL transaction are C09's",
            "writers are serialised by the harness at StoreSector's three critical sections (true parallel races inside SQLite / the LRU library are not explored)",
            "the RPC layer's upload protocol is played by the generator: reference a root only after Write was acknowledged and Sync returned, within the prune interval"],
        level_text="read-intact invariant (referenced => slot holds the sector's data, durable, cache entry absent or equal) proved in Lean for every reachable state of the storage model under explicitly listed schedule restrictions (C02_read_intact_partial); for each excluded schedule on which the current code breaks the property a Lean-checked counterexample (decide) that is replayed on the real VolumeManager (corpus traces, known findings); migration at every failure index, shrink, prune and lost-sector accounting proved as separate lemmas",
        level_note="partial: the invariant is not inductive for the faithful model (cache aliasing, exists-fast-path after a crash or next to a failing writer, StoreSector without fsync); those schedules are excluded in the theorem and reported as known findings. Real power-loss behaviour of the filesystem / WAL and true parallelism are modelled, not verified",
        assumptions=["forced volume removal and RemoveSector count every occupied location they drop (referenced or awaiting prune) as lost"],
    )
