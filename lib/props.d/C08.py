import os
# repairs the model expects: "cachecopy" (sector cache holds private copies), "rollbackchecked" (StoreSector rollback is conditional)
VOLUMES_FIXES = "cachecopy rollbackchecked syncserial resizelocked removeused"
PROP = dict(
        engine="volumes", harness="volumes", driver="drv_volumes",
        driver_args=(os.environ.get("VERIF_VOLUMES_FIXES") or VOLUMES_FIXES).split(),
        props=["Hostd.Props.C08"],
        extra=dict(mode="meta", dataevery=8),
        corpus_filter=r"^c08_",
        flag_filter=r"^(slot_unique|used_eq_count|total_eq_slots|metrics_eq|placement_eligible|store_fails_iff|reclaim_exact|prune_only_unreferenced|shrink_keeps_occupied|lost_counted|meta/)",
        quick=dict(n=600, len=45, shards=8, timeout=300),
        thorough=dict(n=8000, len=70, shards=16, timeout=1700),
        nontrivial=r"res=placed", min_ops=8, min_kinds=4,
        trusted_base=COMMON_TB + [
            "SQL of persist/sqlite/{volumes,sectors,contracts}.go transcribed by hand into Model/Volumes.lean (no extractor); every transcribed branch is exercised and compared by the differential run",
            "UNIQUE(sector_id) / UNIQUE(volume_id, volume_index) enforced by SQLite; batches of 256 rows (sqlSectorBatchSize) modelled as one step",
            "which empty slot emptyLocation picks and the row ids are oracle inputs validated for eligibility, not predicted",
            "contract status changes are inputs (owned by C01/C06); the prune grace period is driven by ageing last_access_timestamp (1 s resolution) instead of waiting"],
        level_text="slot/counter/metric invariant, store-fails-iff-no-eligible-slot and exact reclamation after `expire h; prune` proved in Lean for every operation sequence of the storage metadata model (store/rollback, root-list changes, temp sectors, expiry, prune, add/grow/shrink/remove volume, flags, migration, RemoveSector; histories in which maintenance tears a slot away from an in-flight StoreSector are excluded and shown to break the counters); the model is tied to the code by seeded operation sequences on the real sqlite.Store (+VolumeManager), with an independent SQL recount after every operation",
        level_note="trusted: Lean kernel (+propext, Quot.sound), hand transcription of the SQL (checked by the differential run only), SQLite atomic transactions and constraints, harness canonicalisation",
        assumptions=["prune∞ of the property = clock moved past the prune interval (tick) then PruneSectors",
                     "'past its proof window' = window_end < h (v2: expiration_height < h); temp storage survives iff expiration_height > h"],
    )

ENGINE = dict(name="volumes", path="lean/Hostd/Model/Volumes.lean + harness/src/volumes", serves_properties=["C08", "C02"], kind_free_text="Lean model + theorems (metadata and data layer of sector storage); Go differential harness on real sqlite.Store and storage.VolumeManager with volume files, SQL recount shim, crash by database file snapshot")
