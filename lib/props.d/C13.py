PROP = dict(
        engine="sectors", harness="sectors", driver="drv_sectors",
        props=["Hostd.Props.C13"],
        # the renewal/* monitors + every model/implementation mismatch; the state monitors of C03 are reported there
        flag_filter=r"^(?!(three_lists_equal|filesize_eq_len|merkle_root_eq|failed_commit_noop|restart_same))",
        quick=dict(n=480, len=40, shards=8, timeout=300),
        thorough=dict(n=12000, len=60, shards=16, timeout=1500),
        nontrivial=r"^renew[12] .*res=ok", min_ops=8, min_kinds=3,
        shrink_budget=80,
        trusted_base=COMMON_TB + [
            "renewals are driven at contracts.Manager level (RenewContract / RenewV2Contract with the lock taken as the RPC handlers do); transaction sets and signatures are irrelevant to the hand-over and are stubbed",
            "statement failures are injected by a database/sql driver wrapping mattn/go-sqlite3 (harness/src/vhfault)",
            "V2RenewalID is a function of the predecessor id (a second renewal of the same v2 contract collides on the successor id)",
        ],
        level_text="Lean theorems over the executable model of RenewContract/RenewV2Contract (manager checks, one store transaction: insert, link both ways, move rows; cache hand-over) for renewal chains of any length: the successor starts with exactly the predecessor's list, size and root; renewed_to/renewed_from are mutual and the chain is acyclic; every root keeps its reference count; the predecessor refuses locks/revisions while the successor accepts; a renewal failing validation or any statement leaves the world unchanged. Tied to the code by seeded histories (generations 1-5, empty and non-empty contracts, renewals racing revisions through the real lock, faults at every statement of the renewal) run on the real manager and store and replayed on the model",
        level_note="trusted: Lean kernel (+propext, Quot.sound, Classical.choice), SQLite rollback atomicity, harness canonicalisation",
        assumptions=["RHP-level handlers (rhp2 renew-and-clear, rhp3 renew, rhp4 renew/refresh) are represented by the manager calls they make under the contract lock"],
    )
