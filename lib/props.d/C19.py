PROP = dict(
        engine="query", harness="query", driver="drv_query",
        props=["Hostd.Props.C19"],
        # n = stored populations (each: v1 + v2 contracts, 0..130 per version), len = listing requests per population
        quick=dict(n=256, len=150, shards=16, timeout=300),
        thorough=dict(n=6000, len=300, shards=16, timeout=1500),
        nontrivial=r"^query\d .*=> err=none ids=\[\d", min_ops=8, min_kinds=3,
        shrink_budget=80,
        trusted_base=COMMON_TB + [
            "SQLite evaluates WHERE / IN / BETWEEN / ORDER BY / LIMIT / OFFSET / COUNT(*) and LEFT JOIN NULLs as documented (the Lean model transcribes the generated SQL clause by clause)",
            "the population oracle: Store.Contract / Store.V2Contract (lookup by id) report status, renter key, heights and renewal links of a stored contract correctly",
            "population setup writes status and renewal links with direct SQL (shim harness/shims/persist/sqlite/zz_verif_query.go); contracts are inserted with AddContract / AddV2Contract",
        ],
        level_text="Filter builder, ORDER BY and LIMIT/OFFSET of Store.Contracts/V2Contracts modelled in Lean; proved for every filter, population and page: the WHERE predicate holds exactly for the contracts satisfying all given criteria (for any bound guard), the demanded guard rejects iff a minimum is above its maximum (and the guard found in the tree provably does not), the count is the number of matches whatever limit/offset, a page is drop offset/take limit of the full ordered result (limit 1..100 literal, otherwise 100; API clamp irrelevant), pages tile the result, the page is ordered by the requested key, and the driver's per-key (tie-insensitive) acceptance test never refuses a correct answer. Tied to the code by generated populations in a real sqlite.Store (v1+v2, all statuses, renewal links, duplicate heights) and generated filters whose answers are re-derived by the compiled Lean specification from the contracts read back by id Also driven: empty list criteria passed as empty non-nil slices (what a JSON body with an empty array decodes to), and unfiltered listings racing with concurrent formations (every call's total must equal the length of the page it returns up to the 100-row cap: count and page are one snapshot).",
        level_note="trusted: Lean kernel (+propext, Quot.sound), SQLite semantics, Store.Contract/V2Contract as oracle for the stored population, harness canonicalisation (ids/keys -> small integers, status words); the HTTP layer (POST /contracts) is modelled (limit clamp) but not executed",
        assumptions=[
            "'expiration height' of a v1 contract is read as Revision.WindowStart (the column the listing filters and sorts on; rhp/v2 ContractRevision.EndHeight), of a v2 contract as V2FileContract.ExpirationHeight; the neighbouring heights (WindowEnd, ProofHeight) are generated independently so a mix-up is noticed",
            "'ordered by status' is the order of the Go type: numeric for v1 ContractStatus (uint8), lexicographic for v2 V2ContractStatus (string)",
            "an empty list / a zero bound means 'criterion not given'; an empty or unknown sort field requests no order (then only membership, count and page length are checked)",
            "limit <= 0 or > 100 means the store's page cap of 100 (documented paging cap, not a deviation); negative offsets and height bounds >= 2^63 (not representable in SQLite's INTEGER; database/sql refuses them, so e.g. max=MaxUint64 is answered with an error) are outside the default generated domain - set VH_X_BIGHEIGHTS=1 (PROP['extra']) to include them, monitor rejects_only_contradictory/height_above_int64",
            "rejection: only 'rejected => contradictory' is monitored on the implementation (accepting a contradictory filter and returning nothing also returns exactly the matching contracts); every error returned by the listing counts as a rejection",
        ],
    )

ENGINE = dict(name="query", path="lean/Hostd/Model/Query.lean + harness/src/query", serves_properties=["C19"], kind_free_text="Lean model of filter builder / ORDER BY / paging + theorems; Go differential harness on real sqlite.Store listings with a by-id oracle")
