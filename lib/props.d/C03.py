PROP = dict(
        engine="sectors", harness="sectors", driver="drv_sectors",
        props=["Hostd.Props.C03"],
        # monitors of the C03 clauses + every model/implementation mismatch; the renewal/* monitors belong to C13
        flag_filter=r"^(?!renewal/)",
        quick=dict(n=480, len=40, shards=8, timeout=300),
        thorough=dict(n=12000, len=60, shards=16, timeout=1500),
        nontrivial=r"^(rpc1|rev2) .*res=ok", min_ops=8, min_kinds=3,
        shrink_budget=80,
        trusted_base=COMMON_TB + [
            "rhp2.MetaRoot is opaque: the harness compares the persisted FileMerkleRoot with MetaRoot(persisted list) and reports rootok=0/1",
            "statement failures are injected by a database/sql driver wrapping mattn/go-sqlite3 (harness/src/vhfault); a failed COMMIT is rolled back",
            "contract status / proof-window conditions of isGoodForModification are held constant (chain engine, C06)",
        ],
        level_text="Lean theorems over the executable model of ContractUpdater, Store.ReviseContract's replay, updateV2ContractSectors, Commit/ReviseV2Contract glue, renewals and restart: for every action list the updater's private copy equals the store's replay (no reject when appended/updated roots are stored), rows stay contiguous, the v2 diff writer yields exactly the new list, accepted commits persist filesize = sectorSize*len and merkleRoot = metaRoot(list), a failure at any statement index changes nothing, restart serves the same lists, what Lock/ReviseContract resp. LockV2Contract hand to a session (also to a caller that queued behind a holder who revised, failed or renewed: lock hand-off) is the persisted list together with the revision that commits to it, and for every history over many contracts the persisted list, the cached list and the list implied by the accepted modifications coincide for every non-superseded contract. The model is tied to the code by replaying seeded histories executed on the real contracts.Manager + sqlite.Store (fault-injecting SQL driver, fresh NewManager) through the compiled model driver, with the clauses also evaluated as monitors on the implementation's own observations",
        level_note="trusted: Lean kernel (+propext, Quot.sound, Classical.choice), MetaRoot/signatures opaque, SQLite rollback atomicity, harness canonicalisation",
        assumptions=["scope: contracts not superseded by a renewal (the cache keeps the predecessor's list after a renewal, DESIGN §6.5)",
                     "one Commit per ContractUpdater (as every RPC handler does); a second Commit on the same updater replays from stale oldRoots and is outside the property",
                     "formation starts empty (filesize 0, root of the empty list): validated by the RPC layer (C12)"],
    )

ENGINE = dict(name="sectors", path="lean/Hostd/Model/Sectors.lean + harness/src/sectors (+ harness/src/vhfault)", serves_properties=["C03", "C13"], kind_free_text="Lean model + theorems; Go differential harness on real contracts.Manager/sqlite.Store with a fault-injecting database/sql driver")
