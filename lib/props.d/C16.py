PROP = dict(
    engine="wallet", harness="wallet", driver="drv_wallet",
    props=["Hostd.Props.C16"],
    flag_filter=r"^c16/",
    corpus_filter=r"^c16_",
    extra=dict(kind="c16"),
    # n = scenarios (each: a fresh host node on a real chain.Manager, 10-60 blocks, 1-4 reorgs), len = ops after funding
    quick=dict(n=480, len=14, shards=16, timeout=400),
    thorough=dict(n=6400, len=16, shards=16, timeout=1700),
    nontrivial=r"^reorg .*forked=1 .*u=R\|\d+\|\d+\|", min_ops=8, min_kinds=3,
    shrink_budget=60, replay_timeout=180,
    trusted_base=COMMON_TB + [
        "consensus library: ApplyUpdate/RevertUpdate diffs are well-formed (a block spends outputs that exist, creates new ids, payouts mature at height+MaturityDelay, transaction outputs at 0; a reverted block carries the diff it was applied with) - the hypotheses WFdiff of the history theorems",
        "Model/Wallet.lean parts 1-2 are hand transcriptions of persist/sqlite/consensus.go (WalletApplyIndex/WalletRevertIndex, updateBalanceMetric, incrementCurrencyStat buckets) and host/settings/update.go (UpdateChainState); tied to the code by the differential run: every line of every scenario must be explained by one of the transcribed variants (tree as found / repaired)",
        "the harness derives the per-block wallet diffs and announcements from chain.Manager.UpdatesSince with coreutils' own wallet classification (a scratch SingleAddressWallet over a recording UpdateTx); index.Manager.syncDB is called synchronously through a wrapper (no background goroutine) so that errors and panics are observations",
        "fresh-node oracle: a second complete host node with the same key synced from genesis to the same tip",
    ],
    level_text="Lean theorems over the transcribed WalletApplyIndex/WalletRevertIndex and UpdateChainState: for every well-formed history of block connections and disconnections processing never fails, the outputs and events equal (up to row order) the fold over the best chain alone, balance = sum of outputs with maturity <= height and immature = the rest (C16_wallet_best_chain for the repaired comparison, C16_wallet_best_chain_partial for the tree as found under the extra hypothesis that no output is spent in the block in which it matures; C16_spend_at_maturity_violates/_drift: the tree as found panics or drifts on a legal chain); the stored 5-minute-bucket metrics refine the single-value model while block timestamps do not step back into an older bucket (C16_metrics_buckets_refine, C16_stored_metrics_best_chain) and violate the property for a two-block reorg across buckets (C16_metrics_bucket_reorg_violates); the announcement record is empty or names a best-chain block with a host announcement and is cleared exactly when that block is disconnected when the reverted block's own index is compared (C16_announcement_best_chain, C16_announcement_cleared_iff_disconnected), and the tree as found (parent index compared) violates both directions (C16_announcement_as_found_not_cleared, _cleared_wrongly; _partial for what still holds). Correspondence (L2): seeded scenarios on a real chain.Manager with a complete host node (wallet, contracts.Manager, ConfigManager, index.Manager, sqlite.Store) and a second chain.Manager mining competing forks: payouts, spends, maturation, v1/v2 announcements, v2 contracts, reorgs of depth 1-12 incl. tip-only and block-after-announcement-only, batch sizes 1/7/100, block timestamps in one bucket or ten minutes apart; after every operation Balance(), UnspentSiacoinElements, Events, Metrics().Wallet, LastAnnouncement/LastV2AnnouncementHash are compared with the model and checked by model-independent monitors (fold over the best chain, fresh node).",
    level_note="trusted: Lean kernel (+propext, Classical.choice, Quot.sound), coreutils/core consensus (well-formed diffs), hand transcription of the Go code checked by the differential run, harness",
    assumptions=["'cleared exactly when that block is disconnected' is read per UpdateChainState call: a call that also connects an announcing block records that block",
                 "Currency is modelled as Nat (no overflow below the total supply); the only arithmetic fault modelled is the negative-stat panic",
                 "spendable balance depends on wall-clock input locks of SingleAddressWallet and is logged but not compared"],
)
ENGINE = dict(name="wallet", path="lean/Hostd/Model/Wallet.lean + harness/src/wallet", serves_properties=["C16", "C17"],
              kind_free_text="Lean model of WalletApplyIndex/WalletRevertIndex (tables, bucketed metrics), of ConfigManager.UpdateChainState and of the element-proof call order of contracts.Manager.UpdateChainState; Go L2 harness: complete host node on a real chain.Manager, second chain.Manager mining competing forks, fresh-node oracle, transaction-pool acceptance probes")
