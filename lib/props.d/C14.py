import os

# Repairs of the C14 defect sites that /repo contains, by number of the proposed patch
# (known-findings.d/mdm-fix-<n>-*.patch): 1 programData bounds (+UnlockKey min length), 2 ReadSector,
# 3 ReadOffset, 4 DropSectors, 5 rpcSectorRoots, 6 rpcRead, 7 rpcWrite update+proof, 8 rpcFormContract key
# length, 9 registry recorder store, 10 FundAccount payment below FundAccountCost, 11 proof window end beyond int64 in the renewal/formation handlers.  Add the number here when its `fix:` commit lands in /repo; the model
# driver then expects the repaired behaviour at that site (Hostd.Mdm.Fixes.enable).  VERIF_MDM_FIXED
# (space separated) overrides the list, e.g. to check a scratch tree: VERIF_MDM_FIXED="1 2 3" VERIF_REPO=... bin/check C14
FIXED_IN_REPO = [1, 2, 3, 4, 5, 6, 7, 8, 9, 10, 11]
_fixed = os.environ.get("VERIF_MDM_FIXED")
_driver_args = _fixed.split() if _fixed is not None else [str(n) for n in FIXED_IN_REPO]

PROP = dict(
        engine="mdm", harness="mdm", driver="drv_mdm", driver_args=_driver_args,
        props=["Hostd.Props.C14"],
        case_mode=True,          # every line is one independent hostile request
        flag_filter=r"^(?!c02/)", # the fsync-before-commit monitor of the upload RPCs belongs to C02 (its second engine)
        # n = wire-level (RHP2/RHP3, real host in child processes) cases, n*len = in-process accessor/updater/cost cases
        quick=dict(n=320, len=25, shards=8, timeout=420),
        thorough=dict(n=9600, len=25, shards=16, timeout=1500, extra=dict(regflush="1")),
        replay_timeout=240,
        nontrivial=r"res=(ok|accept|panic|crash)|k=[0-9]", min_ops=1, min_kinds=1,
        rule="one evaluation = one hostile request (accessor call, updater call, MDM program or RHP2 RPC with all operands on the line) executed on the real code and on the Lean model; distinct = different request/observation text; non-trivial = the request got past the first guard (accepted, panicked, or failed at instruction k>=0)",
        trusted_base=COMMON_TB + [
            "Go semantics transcribed in Model/Mdm.lean: uint64 wrap-around, s[lo:hi] panics unless lo<=hi<=cap, slice->array conversion needs len>=N, Currency.Mul64/Add panic on 128-bit overflow",
            "preconditions of core's BuildProof/BuildSectorRangeProof/BuildDiffProof/sectorsChanged/RPCReadCost/RPCWriteCost transcribed from go.sia.tech/core (pinned in go.mod)",
            "program data is allocated with cap == len by core's decoder (ReadBytes)",
            "facts about host state passed to the model as inputs: sector present, registry entry found/put accepted, unlock-key specifier matches; instruction prices computed by core's HostPriceTable cost functions",
            "panic site attribution by parsing the dead host process's goroutine dump",
        ],
        level_text="slices_in_bounds/no_panic proved in Lean for ALL operands, program-data sizes and sector counts for the repaired guards (accessors, every MDM instruction, executor, RHP3 handler, RHP2 sector-roots/read/write/form, RHP3 FundAccount/AccountBalance/LatestRevision/UpdatePriceTable, RHP3 RenewContract, RHP2 RenewAndClearContract/FormContract, ContractUpdater, registry recorder, cost multiplications); for the guards as written the property is FALSE: concrete witnesses by `decide`, `_partial` theorems under the excluding hypotheses; reject_noop proved for the handler model (revision, roots unchanged; charge <= budget; refused => no charge). Tie: each witness and thousands of seeded hostile requests are executed on the real programData/ContractUpdater (in-process) and on a real host node over RHP2/RHP3 TCP sessions (child processes; a host crash is observed as process death), and replayed on the model driver (outcome class, failing instruction index, charged amount, output lengths, roots/revision snapshots)",
        level_note="partial: hangs only detected up to a 20 s per-request timeout; decoding inside go.sia.tech/core is attributed, not modelled (byte-mutation cases are monitor-only); RHP4 contractor/sector interfaces are not driven by this engine; RHP2 update-action commit outcome (C02) is outside the model; for renewals/formations the handlers' indexes, slice->array conversions and guard order are modelled, the value-level validator clauses (payout arithmetic, addresses, unlock hashes, signatures, transaction pool) enter as facts of the request (they belong to C07/C12)",
        assumptions=["'rejected leaves balances unchanged' applies to requests refused before execution; a program that ran and failed is charged for what ran minus the storage refund, never more than its budget (DESIGN §6.3)",
                     "an RHP2 read/sector-roots request whose payment revision was committed and which then fails to be served (unknown sector) is 'paid then failed', not 'rejected'"],
    )

ENGINE = dict(name="mdm", path="lean/Hostd/Model/Mdm.lean + harness/src/mdm", serves_properties=["C14"], kind_free_text="Lean model of guards/slice expressions + theorems; Go harness: exported programData/ContractUpdater (in-process) and a real host node attacked over RHP2/RHP3 from child processes")
