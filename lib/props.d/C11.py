PROP = dict(
        engine="accounts", harness="accounts", driver="drv_accounts",
        props=["Hostd.Props.C11"],
        quick=dict(n=1200, len=50, shards=8, timeout=300),
        thorough=dict(n=24000, len=80, shards=16, timeout=1500),
        # monitors / mismatch fields of the shared `accounts` engine that belong to C11
        flag_filter=r"^(c11\.|c04\.res$|funding_rows_sum|per_contract_conserved|moved_eq_debit|no_negative|credit_recorded)",
        nontrivial=r"^(commit|rhp4debit) .*res=ok", min_ops=8, min_kinds=3,
        shrink_budget=80,
        trusted_base=COMMON_TB + [
            "atomicity: every store method runs inside one SQLite transaction with deferred rollback (assumed)",
            "order of the attribution (which funding row first, which category first) is the code's choice and not constrained by C11: the model uses today's order (rowid; storage, ingress, egress, registry read, registry write, rpc); if the code's result differs the driver validates it as an attribution (clause monitors silent, only the debited account's rows shrink, categories grow by at most the debit) instead of predicting it",
            "RHP4CreditAccounts is called with usage.AccountFunding = sum of the deposits; no RPC debits an account with usage.AccountFunding != 0",
            "read-only SQL shim harness/shims/persist/sqlite/zz_verif_accounts.go",
        ],
        level_text="attribution proved in Lean for every list of funding rows, usage vector and reachable state: the distribution fold (exact copy of the Go loops: category order, min(usage, remainder), delete at zero, zero rows skipped) conserves unspent funding + revenue per contract (per_contract_conserved, _v2, commit_conserves), keeps contract.accountFunding = sum of its rows for all operation sequences (funding_rows_sum), never underflows under that invariant (no_negative), and moves exactly the debit when it is covered by the version's rows, in particular whenever the account has no rows of the other version (moved_eq_debit, _single_version); the model is tied to the code by seeded random deposit/debit sequences from 1-4 contracts in all statuses executed on the real sqlite.Store and AccountManager and replayed on the compiled model, comparing AccountFunding, Contract().Usage / V2Contract().Usage, the raw usage columns and the raw funding tables",
        level_note="trusted: Lean kernel (+propext, Classical.choice, Quot.sound), SQLite atomicity, harness canonicalisation",
        assumptions=["total revenue = rpc + storage + egress + ingress + registry read + registry write (risked collateral is not revenue)"],
    )
