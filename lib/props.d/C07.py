_FN = r"(validateStdRevision|Validate\w*Revision|Revise|ClearingRevision)"
PROP = dict(
        engine="revision", harness="revision", driver="drv_revision",
        # after the proposed repair of rhp/contracts.go is applied, evaluate the repaired model variant:
        #   driver_args=["fixed"]   (or run with VERIF_REVISION_VARIANT=fixed)
        driver_args=([] if __import__('os').environ.get('VERIF_REVISION_VARIANT') == 'unfixed' else ['fixed']),   # /repo carries the fix: commits 44e5446..839f27b
        props=["Hostd.Props.C07"],
        case_mode=True,
        # monitors / fields of the rhp/contracts.go functions, plus the clearing-revision clauses observed on the RHP3 renew handler
        flag_filter=r"(^|/)" + _FN + r"(/|$)|/handleRPCRenew/clearing_",
        corpus_filter=r"^c07_",
        # len = per-mille of cases that go through the real RPC handlers (rpcrenew3 carries the clearing clauses)
        quick=dict(n=120000, len=60, shards=8, timeout=300),
        thorough=dict(n=3000000, len=60, shards=32, timeout=1500),
        nontrivial=r"res=(accept|panic)", min_ops=1, min_kinds=1,
        rule="one evaluation = one generated (current, proposed, price/collateral) input case executed on the real validator and on the Lean model; distinct_nontrivial = distinct cases the implementation accepted or panicked on",
        trusted_base=COMMON_TB + [
            "types.Currency Add/Sub/Mul64 panic exactly on 128-bit overflow/underflow (transcribed as cadd/csub/cmul, cross-checked on every case)",
            "UnlockConditions.UnlockHash() / Address / Hash256 equality represented by small integer ids (collision freedom of the hash assumed)",
        ],
        level_text="for ALL (current, proposed) revision pairs and all price/collateral arguments the Lean model of validateStdRevision/ValidateRevision/ValidateProgramRevision/ValidatePaymentRevision/ValidateClearingRevision/Revise/ClearingRevision (statement-by-statement transcription incl. indexing order and panicking Currency arithmetic) is proved to accept only inputs satisfying every clause of the property (accept_safe), and never to panic in the repaired variant (no_panic_fixed); for the current tree the negation of no_panic is proved with concrete witnesses that are replayed on the real functions, together with no_panic_partial under the excluding hypotheses; the model is tied to the code by seeded field-wise perturbation cases executed on the real functions and replayed through the compiled model (class + returned values compared), the property clauses are evaluated as monitors on the implementation's own verdicts",
        level_note="trusted: Lean kernel (+propext, Quot.sound, Classical.choice), core's Currency arithmetic, id representation of hashes, harness canonicalisation",
        assumptions=["clearing revisions are judged by the second sentence of the property (missed outputs become the valid outputs: the number of missed outputs legitimately changes from 3 to 2)",
                     "the current tree needs a well-formed current revision (valid sum = missed sum, two valid outputs, not locked) for three clauses; listed as known findings, removed by the proposed repair"],
    )

ENGINE = dict(name="revision", path="lean/Hostd/Model/Revision.lean + harness/src/revision", serves_properties=["C07", "C12"], kind_free_text="Lean model + theorems of the v1 revision/formation/renewal validators and the renew handlers' arithmetic; Go differential harness on the real validators (overlay-exported) and the real RHP2/RHP3 form/renew handlers over loopback connections with stub managers")
