_FN = r"(validateStdRevision|Validate\w*Revision|Revise|ClearingRevision)"
# the revision signing sites of the real handlers (Model/Revision.lean `signingSites`)
_SITE = r"(rhp2\.rpcSectorRoots|rhp2\.rpcRead|rhp2\.rpcWrite|rhp3\.processContractPayment|rhp3\.processFundAccountPayment|rhp3\.finalize)"
PROP = dict(
        engine="revision", harness="revision", driver="drv_revision",
        # after the proposed repair of rhp/contracts.go is applied, evaluate the repaired model variant:
        #   driver_args=["fixed"]   (or run with VERIF_REVISION_VARIANT=fixed)
        driver_args=([] if __import__('os').environ.get('VERIF_REVISION_VARIANT') == 'unfixed' else ['fixed']),   # /repo carries the fix: commits 44e5446..839f27b
        props=["Hostd.Props.C07", "Hostd.Props.C07Sites"],
        case_mode=True,
        # monitors / fields of the rhp/contracts.go functions, plus the clearing-revision clauses observed on the RHP3 renew handler
        # + every signing site, the clearing-revision clauses observed on both renew handlers, and the source scan
        flag_filter=r"(^|/)" + _FN + r"(/|$)|(^|/)" + _SITE + r"(/|$)|/(handleRPCRenew|rpcRenewAndClearContract)/clearing_|/renter_signed_new_contract$|^signsites",
        corpus_filter=r"^c07_",
        # len = per-mille of cases that go through the real RPC handlers (rpcrenew3 carries the clearing clauses)
        # extra.sites = per-mille of cases that drive a revision signing site of the real RHP2/RHP3 handlers
        # (70% single-RPC site cases, 20% two-RPC RHP2 sessions `q2` over sector roots / read / write / renew-and-clear / form, with or without a lock, 10% RHP3 execute-paid-by-contract `q3`)
        quick=dict(n=120000, len=60, shards=8, timeout=300, extra=dict(sites=250)),
        thorough=dict(n=3000000, len=60, shards=32, timeout=1500, extra=dict(sites=250)),
        nontrivial=r"res=(accept|panic)", min_ops=1, min_kinds=1,
        rule="one evaluation = one generated (current, proposed, price/collateral) input case executed on the real validator and on the Lean model; distinct_nontrivial = distinct cases the implementation accepted or panicked on",
        trusted_base=COMMON_TB + [
            "types.Currency Add/Sub/Mul64 panic exactly on 128-bit overflow/underflow (transcribed as cadd/csub/cmul, cross-checked on every case)",
            "UnlockConditions.UnlockHash() / Address / Hash256 equality represented by small integer ids (collision freedom of the hash assumed)",
            "signing-site cases: the real RHP2 rpcLoop / RHP3 handleHostStream and handlers run over an in-memory transport; chain, wallet, settings, sector storage and the stores behind the real ContractUpdater / accounts.Manager are stubs that record what the host commits; price and allowed burn of each RPC are computed with the cost functions of go.sia.tech/core",
            "session cases (q2, q3): the host's store is a one-contract state behind the stubs (Lock hands out what it holds, every commit replaces it); each step is judged against the revision the store held before the request",
            "the set of signing sites is read from the source (every function of rhp/v2, rhp/v3 calling SignHash) and compared with the model's table on every run",
        ],
        level_text="for ALL (current, proposed) revision pairs and all price/collateral arguments the Lean model of validateStdRevision/ValidateRevision/ValidateProgramRevision/ValidatePaymentRevision/ValidateClearingRevision/Revise/ClearingRevision (statement-by-statement transcription incl. indexing order and panicking Currency arithmetic) is proved to accept only inputs satisfying every clause of the property (accept_safe), and never to panic (no_panic_fixed: the guards as /repo has them since commits 44e5446..839f27b; the driver runs the `fixed` variant); for the guards as they were before those commits the negation of no_panic is proved with concrete witnesses, together with no_panic_partial under the excluding hypotheses; the model is tied to the code by seeded field-wise perturbation cases executed on the real functions and replayed through the compiled model (class + returned values compared), the property clauses are evaluated as monitors on the implementation's own verdicts; every call site of the RHP2/RHP3 handlers that produces a host signature over a revision (table signingSites: form, renew+clear, sector roots, read, write, pay-by-contract, fund account, program finalisation, RHP3 renew) is proved guarded (all_sites_guarded: the guard of the site implies the safety clauses between the held and the counter-signed revision) and is driven on the real handler with correctly signed hostile proposals, each clause violated alone, the clauses being evaluated on the revision the host actually signed / stored; sessions (cached vs stored revision) are a small state machine: every handler keeps cached = stored after its commit and therefore guards against the stored revision (sessStep_inv, sessStep_accept_safe, session2_safe, execByContract_safe; stale_cache_witness for a handler that does not refresh; a renewal step leaves cached = stored = the clearing revision, after_renewal_nothing_accepted, stale_after_renewal_witness = the defect repaired by /repo 778b5c0), driven as two-RPC RHP2 sessions (real upgrade/rpcLock/rpcLoop; second request fresh, stale, replayed or hostile) and RHP3 execute paid by contract; the current revision of every case family is adversarially general (renter missed payout <, =, > valid payout, host missed <= valid, arbitrary void; shares in the evidence distribution v:/s:/q:cur_missed_lt_valid …)",
        level_note="trusted: Lean kernel (+propext, Quot.sound, Classical.choice), core's Currency arithmetic, id representation of hashes, harness canonicalisation",
        assumptions=["clearing revisions are judged by the second sentence of the property (missed outputs become the valid outputs: the number of missed outputs legitimately changes from 3 to 2)",
                     "before commits 44e5446..1271abf three clauses needed a well-formed current revision (valid sum = missed sum, two valid outputs, not locked); the repaired validators check the shape themselves"],
    )

ENGINE = dict(name="revision", path="lean/Hostd/Model/Revision.lean + harness/src/revision", serves_properties=["C07", "C12"], kind_free_text="Lean model + theorems of the v1 revision/formation/renewal validators and the renew handlers' arithmetic; Go differential harness on the real validators (overlay-exported) and the real RHP2/RHP3 form/renew handlers over loopback connections with stub managers")
