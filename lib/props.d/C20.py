PROP = dict(
        engine="registry", harness="registry", driver="drv_registry",
        props=["Hostd.Props.C20", "Hostd.Props.C20Conc"],
        quick=dict(n=640, len=40, shards=16, timeout=300),
        thorough=dict(n=6000, len=80, shards=16, timeout=1500),
        nontrivial=r"res=ok", min_ops=5, min_kinds=2,
        trusted_base=COMMON_TB + ["protocol ordering ValidateRegistryUpdate transcribed in Model/Registry.supersedes and cross-checked on every put",
                                   "ValidateRegistryEntry result (signature, type, size) computed by core and passed to the model as `valid`"],
        level_text="Put/Get/limit semantics proved in Lean for every operation sequence (last accepted write wins, accept iff valid and superseding or new below the limit, rejected = no change, count = metric, count never raised at/above the limit); for any number of concurrent callers whose Put is split into its read half and its write half, with limit changes interleaved, every schedule under Manager.mu yields the state and results of the atomic puts in write order (C20_serializable; the unlocked system has a non-serialisable schedule, unlocked_not_serializable, which the harness op cput runs against the real manager); the model is tied to the code by replaying seeded operation sequences run on the real registry.Manager + sqlite.Store through the compiled model driver",
        level_note="trusted: Lean kernel (+propext, Quot.sound), core's ValidateRegistryEntry verdict passed as input, harness canonicalisation; SQLite atomicity assumed",
        assumptions=["'never exceeds the limit' read as: no Put raises the count at or above the limit in force (DESIGN §6.4)"],
    )

ENGINE = dict(name="registry", path="lean/Hostd/Model/Registry.lean + harness/src/registry", serves_properties=["C20"], kind_free_text="Lean model + theorems; Go differential harness on real registry.Manager/sqlite.Store")
